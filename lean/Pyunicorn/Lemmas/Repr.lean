import Pyunicorn.Model.Repr
import Mathlib.Data.List.Nodup
import Mathlib.Data.List.ProdSigma
/-! Helper lemmas for C05 (sparse-matrix model, index pairs, graph edges). -/
namespace Pyunicorn.Repr

/-! ### index pairs -/

theorem mem_pairs {m n : Nat} {p : Nat × Nat} : p ∈ pairs m n ↔ p.1 < m ∧ p.2 < n := by
  obtain ⟨i, j⟩ := p
  simp only [pairs, List.mem_flatMap, List.mem_map, List.mem_range, Prod.mk.injEq]
  constructor
  · rintro ⟨a, ha, b, hb, rfl, rfl⟩; exact ⟨ha, hb⟩
  · rintro ⟨h1, h2⟩; exact ⟨i, h1, j, h2, rfl, rfl⟩

theorem nodup_pairs (m n : Nat) : (pairs m n).Nodup := by
  have : pairs m n = List.product (List.range m) (List.range n) := rfl
  rw [this]
  exact List.Nodup.product List.nodup_range List.nodup_range

/-! ### entries built by `filterMap` over a duplicate-free list of coordinates -/

/-- the entry list `[(p, v p) | p ∈ l, c p]` -/
def entsOf (l : List (Nat × Nat)) (c : Nat → Nat → Bool) (v : Nat → Nat → Int) : List Entry :=
  l.filterMap fun p => if c p.1 p.2 then some (p.1, p.2, v p.1 p.2) else none

theorem entsOf_nil (c v) : entsOf [] c v = [] := rfl

theorem entsOf_cons (p : Nat × Nat) (l c v) :
    entsOf (p :: l) c v
      = if c p.1 p.2 = true then (p.1, p.2, v p.1 p.2) :: entsOf l c v else entsOf l c v := by
  unfold entsOf
  by_cases hc : c p.1 p.2 = true <;> simp [List.filterMap_cons, hc]

theorem valAt_nil (i j : Nat) : valAt [] i j = 0 := rfl

theorem valAt_cons (e : Entry) (es : List Entry) (i j : Nat) :
    valAt (e :: es) i j = (if e.1 = i ∧ e.2.1 = j then e.2.2 else 0) + valAt es i j := by
  unfold valAt
  by_cases h : e.1 = i ∧ e.2.1 = j
  · simp [h]
  · have : (e.1 == i && e.2.1 == j) = false := by
      simp only [Bool.and_eq_false_iff, beq_eq_false_iff_ne, ne_eq]
      by_cases h1 : e.1 = i
      · right; exact fun h2 => h ⟨h1, h2⟩
      · left; exact h1
    simp [List.filter_cons, this, h]

theorem hasAt_nil (i j : Nat) : hasAt [] i j = false := rfl

theorem hasAt_cons (e : Entry) (es : List Entry) (i j : Nat) :
    hasAt (e :: es) i j = (decide (e.1 = i ∧ e.2.1 = j) || hasAt es i j) := by
  unfold hasAt
  simp [List.any_cons, Bool.decide_and, beq_eq_decide]

theorem valAt_entsOf_not_mem (l : List (Nat × Nat)) (c v) (i j : Nat) (h : (i, j) ∉ l) :
    valAt (entsOf l c v) i j = 0 := by
  induction l with
  | nil => rfl
  | cons p l ih =>
    have hl : (i, j) ∉ l := fun e => h (by simp [e])
    have hp' : ¬ (p.1 = i ∧ p.2 = j) := fun ⟨a, b⟩ => h (by
      have : p = (i, j) := Prod.ext a b
      simp [this])
    rw [entsOf_cons]
    split
    · rw [valAt_cons]; simp [hp', ih hl]
    · exact ih hl

theorem valAt_entsOf (l : List (Nat × Nat)) (hl : l.Nodup) (c v) (i j : Nat) :
    valAt (entsOf l c v) i j = if (i, j) ∈ l ∧ c i j = true then v i j else 0 := by
  induction l with
  | nil => simp [entsOf, valAt]
  | cons p l ih =>
    rw [List.nodup_cons] at hl
    rw [entsOf_cons]
    by_cases hp : p = (i, j)
    · subst hp
      have := valAt_entsOf_not_mem l c v i j hl.1
      split
      · rename_i hc; rw [valAt_cons]; simp at hc; simp [this, hc]
      · rename_i hc; simp at hc; simp [this, hc]
    · have hp' : ¬ (p.1 = i ∧ p.2 = j) := fun ⟨a, b⟩ => hp (Prod.ext a b)
      have hne : ¬ (i, j) = p := fun e => hp e.symm
      split
      · rw [valAt_cons, ih hl.2]; simp [hp', hne]
      · rw [ih hl.2]; simp [hne]

theorem hasAt_entsOf (l : List (Nat × Nat)) (c v) (i j : Nat) :
    hasAt (entsOf l c v) i j = decide ((i, j) ∈ l ∧ c i j = true) := by
  induction l with
  | nil => simp [entsOf, hasAt]
  | cons p l ih =>
    rw [entsOf_cons]
    by_cases hp : p = (i, j)
    · subst hp
      split
      · rename_i hc; simp at hc; rw [hasAt_cons]; simp [hc]
      · rename_i hc; simp at hc; rw [ih]; simp [hc]
    · have hp' : ¬ (p.1 = i ∧ p.2 = j) := fun ⟨a, b⟩ => hp (Prod.ext a b)
      have hne : ¬ (i, j) = p := fun e => hp e.symm
      split
      · rw [hasAt_cons, ih]; simp [hp', hne]
      · rw [ih]; simp [hne]

theorem nzCoords_nil (m n : Nat) : nzCoords ⟨m, n, []⟩ = [] := rfl

theorem nzCoords_cons (m n : Nat) (e : Entry) (es : List Entry) :
    nzCoords ⟨m, n, e :: es⟩
      = if e.2.2 ≠ 0 then (e.1, e.2.1) :: nzCoords ⟨m, n, es⟩ else nzCoords ⟨m, n, es⟩ := by
  unfold nzCoords
  by_cases h : e.2.2 = 0 <;> simp [List.filter_cons, h]

theorem nzCoords_entsOf (m n : Nat) (l : List (Nat × Nat)) (c v) :
    nzCoords ⟨m, n, entsOf l c v⟩ = l.filter fun p => c p.1 p.2 && v p.1 p.2 != 0 := by
  induction l with
  | nil => rfl
  | cons p l ih =>
    rw [entsOf_cons]
    split
    · rename_i hc
      rw [nzCoords_cons, ih, List.filter_cons]
      by_cases hv : v p.1 p.2 = 0 <;> simp [hc, hv]
    · rename_i hc
      rw [ih, List.filter_cons]; simp [hc]

/-! ### the canonical network of a graph -/

/-- `N × N` table of a function -/
def table (n : Nat) (f : Nat → Nat → Int) : List (List Int) :=
  (List.range n).map fun i => (List.range n).map fun j => f i j

theorem table_congr {n : Nat} {f g : Nat → Nat → Int} (h : ∀ i j, i < n → j < n → f i j = g i j) :
    table n f = table n g := by
  unfold table
  apply List.map_congr_left
  intro i hi
  apply List.map_congr_left
  intro j hj
  exact h i j (List.mem_range.1 hi) (List.mem_range.1 hj)

theorem table_at (n : Nat) (f : Nat → Nat → Int) (net : Net) (h : net.spA = table n f) (i j : Nat) :
    net.at i j = if i < n ∧ j < n then f i j else 0 := by
  unfold Net.at
  rw [h]
  unfold table
  by_cases hi : i < n
  · by_cases hj : j < n
    · simp [hi, hj]
    · simp [hi, hj]
  · simp [hi]

/-- the 0/1 matrix of a relation -/
def ind (a : Nat → Nat → Bool) (i j : Nat) : Int := if a i j then 1 else 0

/-- cells of the `N × N` index square on which `a` holds -/
def cells (N : Nat) (a : Nat → Nat → Bool) : List (Nat × Nat) :=
  (pairs N N).filter fun p => a p.1 p.2

/-- **the canonical network** of the graph `(N, directed, a)` with node weights `w`
and link-attribute values `ea` -/
def ofGraph (directed : Bool) (N : Nat) (a : Nat → Nat → Bool) (w : List Rat)
    (ea : Option (List Rat)) : Net :=
  { directed := directed
    N := N
    nLinks := if directed then (cells N a).length else (cells N a).length / 2
    density := linkDensity (cells N a).length N
    spA := table N (ind a)
    graph := graphEdges directed N (cells N a)
    eattr := ea
    w := w
    total := w.sum
    mean := w.sum / (N : Rat) }

theorem cells_congr {N : Nat} {a b : Nat → Nat → Bool}
    (h : ∀ i j, i < N → j < N → a i j = b i j) : cells N a = cells N b := by
  unfold cells
  apply List.filter_congr
  intro p hp
  rw [mem_pairs] at hp
  exact h p.1 p.2 hp.1 hp.2

theorem ofGraph_congr {d : Bool} {N : Nat} {a b : Nat → Nat → Bool} (w ea)
    (h : ∀ i j, i < N → j < N → a i j = b i j) : ofGraph d N a w ea = ofGraph d N b w ea := by
  unfold ofGraph
  rw [cells_congr h]
  congr 1
  apply table_congr
  intro i j hi hj
  simp [ind, h i j hi hj]

/-- the setter on a canonical sparse matrix (`entsOf` over the index square) -/
theorem setAdjacency_entsOf (net : Net) (N : Nat) (hN : 2 ≤ N) (c : Nat → Nat → Bool)
    (v : Nat → Nat → Int) :
    setAdjacency net ⟨N, N, entsOf (pairs N N) c v⟩ = .ok { net with
      N := N
      spA := table N fun i j => if c i j then v i j else 0
      density := linkDensity ((pairs N N).filter fun p => c p.1 p.2 && v p.1 p.2 != 0).length N
      nLinks := if net.directed then ((pairs N N).filter fun p => c p.1 p.2 && v p.1 p.2 != 0).length
                else ((pairs N N).filter fun p => c p.1 p.2 && v p.1 p.2 != 0).length / 2
      graph := graphEdges net.directed N ((pairs N N).filter fun p => c p.1 p.2 && v p.1 p.2 != 0)
      eattr := none
      gvw := none } := by
  unfold setAdjacency
  have h0 : ¬ (N == 0 || N == 1) = true := by
    simp; omega
  simp only [bne_self_eq_false, Bool.false_eq_true, if_false, h0, nzCoords_entsOf]
  congr 2
  apply table_congr (f := fun i j => valAt (entsOf (pairs N N) c v) i j)
  intro i j hi hj
  rw [valAt_entsOf _ (nodup_pairs N N)]
  have : (i, j) ∈ pairs N N := mem_pairs.2 ⟨hi, hj⟩
  simp [this]


theorem ofDenseMat_eq (m n : Nat) (f : Nat → Nat → Int) :
    ofDenseMat m n f = ⟨m, n, entsOf (pairs m n) (fun i j => f i j != 0) f⟩ := rfl

theorem setWeights_some (net : Net) (w : List Rat) (h : w.length = net.N) :
    setWeights net (some w)
      = .ok { net with w := w, mean := w.sum / (net.N : Rat), total := w.sum } := by
  simp [setWeights, h]

/-- **dense path**: the adjacency setter applied to the 0/1 matrix of `a` -/
theorem setAdjacency_dense (net : Net) (N : Nat) (hN : 2 ≤ N) (a : Nat → Nat → Bool) :
    setAdjacency net (ofDenseMat N N (ind a)) = .ok { net with
      N := N
      spA := table N (ind a)
      density := linkDensity (cells N a).length N
      nLinks := if net.directed then (cells N a).length else (cells N a).length / 2
      graph := graphEdges net.directed N (cells N a)
      eattr := none
      gvw := none } := by
  rw [ofDenseMat_eq, setAdjacency_entsOf net N hN]
  have hc : ((pairs N N).filter fun p => (ind a p.1 p.2 != 0) && (ind a p.1 p.2 != 0)) = cells N a := by
    unfold cells
    apply List.filter_congr
    intro p _
    unfold ind
    cases a p.1 p.2 <;> simp
  rw [hc]
  congr 2
  apply table_congr
  intro i j _ _
  unfold ind
  cases a i j <;> simp

theorem init_dense (d : Bool) (N : Nat) (hN : 2 ≤ N) (a : Nat → Nat → Bool) (w : List Rat)
    (hw : w.length = N) :
    init d (.sparse (ofDenseMat N N (ind a))) (some w) = .ok (ofGraph d N a w none) := by
  unfold init construct
  simp only [setAdjacency_dense _ N hN a]
  simp only [bind, Except.bind, Net.blank]
  rw [setWeights_some _ _ (by simpa using hw)]
  rfl

/-! ### edge lists -/

theorem hasAt_ones (E : List (Nat × Nat)) (i j : Nat) :
    hasAt (E.map fun p => ((p.1, p.2, 1) : Entry)) i j = decide ((i, j) ∈ E) := by
  induction E with
  | nil => simp [hasAt]
  | cons p E ih =>
    rw [List.map_cons, hasAt_cons, ih]
    by_cases hp : p = (i, j)
    · subst hp; simp
    · have hp' : ¬ (p.1 = i ∧ p.2 = j) := fun ⟨a, b⟩ => hp (Prod.ext a b)
      have hne : ¬ (i, j) = p := fun e => hp e.symm
      simp [hp', hne]

theorem valAt_ones (E : List (Nat × Nat)) (i j : Nat) :
    valAt (E.map fun p => ((p.1, p.2, 1) : Entry)) i j = (E.count (i, j) : Int) := by
  induction E with
  | nil => simp [valAt]
  | cons p E ih =>
    rw [List.map_cons, valAt_cons, ih, List.count_cons]
    by_cases hp : p = (i, j)
    · subst hp; simp; omega
    · have hp' : ¬ (p.1 = i ∧ p.2 = j) := fun ⟨a, b⟩ => hp (Prod.ext a b)
      simp [hp', hp]

theorem map_ones_entsOf (l : List (Nat × Nat)) (c v) :
    (entsOf l c v).map (fun e => ((e.1, e.2.1, 1) : Entry)) = entsOf l c fun _ _ => 1 := by
  induction l with
  | nil => rfl
  | cons p l ih =>
    rw [entsOf_cons, entsOf_cons]
    split <;> simp [ih]

/-- `tocsc()` followed by `data[:] = 1` on the COO matrix of an edge list -/
theorem setOnes_canon_cooOnes (n : Nat) (E : List (Nat × Nat)) :
    setOnes (canon (cooOnes n E))
      = ⟨n, n, entsOf (pairs n n) (fun i j => decide ((i, j) ∈ E)) fun _ _ => 1⟩ := by
  unfold setOnes canon cooOnes
  simp only
  have := map_ones_entsOf (pairs n n)
    (fun i j => hasAt (E.map fun p => ((p.1, p.2, 1) : Entry)) i j)
    (fun i j => valAt (E.map fun p => ((p.1, p.2, 1) : Entry)) i j)
  unfold entsOf at this ⊢
  rw [this]
  congr 1
  apply List.filterMap_congr
  intro p _
  simp only [hasAt_ones]

/-- the relation an edge list describes -/
def rel (d : Bool) (E : List (Nat × Nat)) (i j : Nat) : Bool :=
  decide ((i, j) ∈ E) || (!d && decide ((j, i) ∈ E))

theorem mem_symm_closure (d : Bool) (E : List (Nat × Nat)) (i j : Nat) :
    decide ((i, j) ∈ (if d = true then E else E ++ E.map swap)) = rel d E i j := by
  cases d
  · simp only [Bool.false_eq_true, if_false, rel, List.mem_append, List.mem_map, swap,
      Bool.not_false, Bool.true_and, Bool.decide_or]
    congr 1
    apply decide_eq_decide.2
    constructor
    · rintro ⟨p, hp, h⟩
      obtain ⟨a, b⟩ := p
      simp only [Prod.mk.injEq] at h
      obtain ⟨rfl, rfl⟩ := h
      exact hp
    · intro h; exact ⟨(j, i), h, rfl⟩
  · simp [rel]

theorem setEdgeList_eq (net : Net) (E : List (Nat × Nat)) (N : Nat) (hN : 2 ≤ N)
    (hE : ∀ p ∈ E, p.1 < N ∧ p.2 < N) :
    setEdgeList net E (some N) = .ok { net with
      N := N
      spA := table N (ind (rel net.directed E))
      density := linkDensity (cells N (rel net.directed E)).length N
      nLinks := if net.directed then (cells N (rel net.directed E)).length
                else (cells N (rel net.directed E)).length / 2
      graph := graphEdges net.directed N (cells N (rel net.directed E))
      eattr := none
      gvw := none } := by
  unfold setEdgeList
  simp only
  have hrange : (List.any (if net.directed = true then E else E ++ E.map swap)
      fun p => decide (N ≤ p.1) || decide (N ≤ p.2)) = false := by
    rw [List.any_eq_false]
    intro p hp
    have : p.1 < N ∧ p.2 < N := by
      cases hd : net.directed
      · rw [hd] at hp
        simp only [Bool.false_eq_true, if_false, List.mem_append, List.mem_map] at hp
        rcases hp with hp | ⟨q, hq, rfl⟩
        · exact hE p hp
        · have := hE q hq; exact ⟨this.2, this.1⟩
      · rw [hd] at hp; exact hE p (by simpa using hp)
    simp; omega
  rw [hrange]
  simp only [Bool.false_eq_true, if_false]
  rw [setOnes_canon_cooOnes, setAdjacency_entsOf net N hN]
  have hc : ((pairs N N).filter fun p =>
      decide ((p.1, p.2) ∈ (if net.directed = true then E else E ++ E.map swap)) && ((1 : Int) != 0))
        = cells N (rel net.directed E) := by
    unfold cells
    apply List.filter_congr
    intro p _
    rw [mem_symm_closure]; simp
  rw [hc]
  congr 2
  apply table_congr
  intro i j _ _
  rw [mem_symm_closure]
  rfl

/-- **edge-list path** -/
theorem init_edges (d : Bool) (N : Nat) (hN : 2 ≤ N) (E : List (Nat × Nat))
    (hE : ∀ p ∈ E, p.1 < N ∧ p.2 < N) (w : List Rat) (hw : w.length = N) :
    init d (.edges E (some N)) (some w) = .ok (ofGraph d N (rel d E) w none) := by
  unfold init construct
  simp only [setEdgeList_eq _ E N hN hE]
  simp only [bind, Except.bind, Net.blank]
  rw [setWeights_some _ _ (by simpa using hw)]
  rfl

/-! ### weights are fresh after every path -/

/-- total and mean are those of the current weight vector -/
def Fresh (net : Net) : Prop :=
  net.w.length = net.N ∧ net.total = net.w.sum ∧ net.mean = net.w.sum / (net.N : Rat)

theorem setWeights_fresh (net net' : Net) (w : Option (List Rat))
    (h : setWeights net w = .ok net') : Fresh net' ∧ net'.N = net.N := by
  unfold setWeights at h
  cases w with
  | none =>
    simp only [Except.ok.injEq] at h
    subst h
    simp [Fresh]
  | some w =>
    simp only at h
    split at h
    · cases h
    · rename_i hl
      simp only [Except.ok.injEq] at h
      subst h
      simp at hl
      simp [Fresh, hl]

theorem bind_ok {α β : Type} {x : Except Err α} {f : α → Except Err β} {b : β}
    (h : (x >>= f) = .ok b) : ∃ a, x = .ok a ∧ f a = .ok b := by
  cases x with
  | error e => cases h
  | ok a => exact ⟨a, rfl, h⟩

theorem fresh_update (net : Net) (g : List (Nat × Nat)) (ea : Option (List Rat))
    (vw : Option (List Rat)) (h : Fresh net) :
    Fresh { net with graph := g, eattr := ea, gvw := vw } := h

theorem assignWeights_fresh (net net' : Net) (w : Option (Option (List Rat)))
    (hf : Fresh net) (h : assignWeights net w = .ok net') : Fresh net' := by
  cases w with
  | none => simp only [assignWeights, Except.ok.injEq] at h; subst h; exact hf
  | some w => exact (setWeights_fresh _ _ _ h).1


/-! ### counting links -/

theorem mem_cells {N : Nat} {a : Nat → Nat → Bool} {p : Nat × Nat} :
    p ∈ cells N a ↔ p.1 < N ∧ p.2 < N ∧ a p.1 p.2 = true := by
  unfold cells
  rw [List.mem_filter, mem_pairs]
  tauto

theorem graphEdges_directed (N : Nat) (a : Nat → Nat → Bool) :
    graphEdges true N (cells N a) = (pairs N N).filter fun p => p.1 != p.2 && a p.1 p.2 := by
  unfold graphEdges
  apply List.filter_congr
  intro p hp
  rw [mem_pairs] at hp
  simp only [if_true]
  congr 1
  rw [Bool.eq_iff_iff]; simp [mem_cells, hp.1, hp.2]

theorem graphEdges_undirected (N : Nat) (a : Nat → Nat → Bool) :
    graphEdges false N (cells N a)
      = (pairs N N).filter fun p => decide (p.1 < p.2) && (a p.1 p.2 || a p.2 p.1) := by
  unfold graphEdges
  apply List.filter_congr
  intro p hp
  rw [mem_pairs] at hp
  simp only [Bool.false_eq_true, if_false]
  congr 1
  have h1 : (cells N a).contains p = a p.1 p.2 := by
    rw [Bool.eq_iff_iff]; simp [mem_cells, hp.1, hp.2]
  have h2 : (cells N a).contains (swap p) = a p.2 p.1 := by
    rw [Bool.eq_iff_iff]; simp [mem_cells, swap, hp.1, hp.2]
  rw [h1, h2]

theorem length_filter_split {α : Type} (l : List α) (a c : α → Bool) :
    (l.filter a).length
      = (l.filter fun x => a x && c x).length + (l.filter fun x => a x && !c x).length := by
  induction l with
  | nil => rfl
  | cons x l ih =>
    simp only [List.filter_cons]
    cases a x <;> cases c x <;> simp [ih] <;> omega

theorem swap_swap (p : Nat × Nat) : swap (swap p) = p := rfl

theorem map_swap_pairs_perm (N : Nat) : ((pairs N N).map swap).Perm (pairs N N) := by
  rw [List.perm_ext_iff_of_nodup]
  · intro p
    rw [List.mem_map, mem_pairs]
    constructor
    · rintro ⟨q, hq, rfl⟩
      rw [mem_pairs] at hq
      exact ⟨hq.2, hq.1⟩
    · intro h
      exact ⟨swap p, mem_pairs.2 ⟨h.2, h.1⟩, rfl⟩
  · apply List.Nodup.map _ (nodup_pairs N N)
    intro p q h
    have := congrArg swap h
    simpa [swap_swap] using this
  · exact nodup_pairs N N

theorem length_filter_swap (N : Nat) (q : Nat × Nat → Bool) :
    ((pairs N N).filter fun p => q (swap p)).length = ((pairs N N).filter q).length := by
  have h1 : (((pairs N N).map swap).filter q).length = ((pairs N N).filter q).length :=
    ((map_swap_pairs_perm N).filter q).length_eq
  rw [← h1, List.filter_map, List.length_map]
  rfl

/-- a symmetric irreflexive relation has twice as many cells as unordered pairs -/
theorem cells_length_undirected (N : Nat) (a : Nat → Nat → Bool)
    (hsym : ∀ i j, i < N → j < N → a i j = a j i) (hirr : ∀ i, i < N → a i i = false) :
    (cells N a).length = 2 * (graphEdges false N (cells N a)).length := by
  rw [graphEdges_undirected]
  unfold cells
  rw [length_filter_split (pairs N N) (fun p => a p.1 p.2) (fun p => decide (p.1 < p.2))]
  have hlow : ((pairs N N).filter fun p => a p.1 p.2 && !decide (p.1 < p.2))
      = (pairs N N).filter fun p => (fun q : Nat × Nat => a q.1 q.2 && decide (q.1 < q.2)) (swap p) := by
    apply List.filter_congr
    intro p hp
    rw [mem_pairs] at hp
    simp only [swap]
    rw [hsym p.2 p.1 hp.2 hp.1]
    by_cases h : p.1 = p.2
    · have := hirr p.1 hp.1
      have h' : a p.1 p.2 = false := by rw [← h]; exact this
      simp [h']
    · by_cases h2 : p.1 < p.2
      · have : ¬ p.2 < p.1 := by omega
        simp [h2, this]
      · have : p.2 < p.1 := by omega
        simp [h2, this]
  rw [hlow, length_filter_swap N (fun q => a q.1 q.2 && decide (q.1 < q.2))]
  have hup : ((pairs N N).filter fun p => decide (p.1 < p.2) && (a p.1 p.2 || a p.2 p.1))
      = (pairs N N).filter fun p => a p.1 p.2 && decide (p.1 < p.2) := by
    apply List.filter_congr
    intro p hp
    rw [mem_pairs] at hp
    rw [hsym p.2 p.1 hp.2 hp.1]
    cases a p.1 p.2 <;> simp
  rw [hup]
  omega

theorem cells_eq_graph_directed (N : Nat) (a : Nat → Nat → Bool)
    (hirr : ∀ i, i < N → a i i = false) :
    graphEdges true N (cells N a) = cells N a := by
  rw [graphEdges_directed]
  unfold cells
  apply List.filter_congr
  intro p hp
  rw [mem_pairs] at hp
  by_cases h : p.1 = p.2
  · have := hirr p.1 hp.1
    have h' : a p.1 p.2 = false := by rw [← h]; exact this
    simp [h']
  · simp [h]

/-! ### igraph objects -/

theorem nzCoords_cooOnes (n : Nat) (E : List (Nat × Nat)) : nzCoords (cooOnes n E) = E := by
  unfold cooOnes
  induction E with
  | nil => rfl
  | cons p E ih => rw [List.map_cons, nzCoords_cons]; simp [ih]

theorem graphEdges_congr_mem (d : Bool) (N : Nat) (c1 c2 : List (Nat × Nat))
    (h : ∀ p, p ∈ c1 ↔ p ∈ c2) : graphEdges d N c1 = graphEdges d N c2 := by
  have hc : ∀ p, c1.contains p = c2.contains p := by
    intro p; rw [Bool.eq_iff_iff]; simp [h p]
  unfold graphEdges
  apply List.filter_congr
  intro p _
  rw [hc p, hc (swap p)]

/-- membership in an edge list as a relation -/
def memRel (E : List (Nat × Nat)) (i j : Nat) : Bool := decide ((i, j) ∈ E)

theorem cells_memRel_perm (N : Nat) (E : List (Nat × Nat)) (hnd : E.Nodup)
    (hr : ∀ p ∈ E, p.1 < N ∧ p.2 < N) : (cells N (memRel E)).Perm E := by
  have hc : (cells N (memRel E)).Nodup := (nodup_pairs N N).filter _
  rw [List.perm_ext_iff_of_nodup hc hnd]
  intro p
  rw [mem_cells]
  simp only [memRel, decide_eq_true_eq]
  constructor
  · exact fun h => h.2.2
  · exact fun h => ⟨(hr p h).1, (hr p h).2, h⟩

/-- the adjacency setter applied to a COO matrix that stores each coordinate once -/
theorem setAdjacency_cooOnes (net : Net) (N : Nat) (hN : 2 ≤ N) (E : List (Nat × Nat))
    (hnd : E.Nodup) (hr : ∀ p ∈ E, p.1 < N ∧ p.2 < N) :
    setAdjacency net (cooOnes N E) = .ok { net with
      N := N
      spA := table N (ind (memRel E))
      density := linkDensity (cells N (memRel E)).length N
      nLinks := if net.directed then (cells N (memRel E)).length
                else (cells N (memRel E)).length / 2
      graph := graphEdges net.directed N (cells N (memRel E))
      eattr := none
      gvw := none } := by
  have hlen : (cells N (memRel E)).length = E.length := (cells_memRel_perm N E hnd hr).length_eq
  have hg : graphEdges net.directed N E = graphEdges net.directed N (cells N (memRel E)) :=
    graphEdges_congr_mem _ _ _ _ fun p => ((cells_memRel_perm N E hnd hr).mem_iff).symm
  unfold setAdjacency
  have h0 : ¬ (N == 0 || N == 1) = true := by simp; omega
  simp only [nzCoords_cooOnes, hlen, hg]
  simp only [cooOnes, bne_self_eq_false, Bool.false_eq_true, if_false, h0]
  congr 2
  apply table_congr (f := fun i j => valAt (E.map fun p => ((p.1, p.2, 1) : Entry)) i j)
  intro i j _ _
  rw [valAt_ones, hnd.count]
  unfold ind memRel
  by_cases h : (i, j) ∈ E <;> simp [h]

/-- an igraph edge list without multi-edges (and, undirected, without an edge in
both orientations — which excludes loops) -/
def SimpleEdges (d : Bool) (E : List (Nat × Nat)) : Prop :=
  E.Nodup ∧ (d = false → ∀ p ∈ E, swap p ∉ E)

theorem nodup_symm_closure (d : Bool) (E : List (Nat × Nat)) (h : SimpleEdges d E) :
    (if d = true then E else E ++ E.map swap).Nodup := by
  cases d
  · simp only [Bool.false_eq_true, if_false]
    rw [List.nodup_append]
    refine ⟨h.1, ?_, ?_⟩
    · apply List.Nodup.map _ h.1
      intro p q hpq
      have := congrArg swap hpq
      simpa [swap_swap] using this
    · intro p hp q hq hpq
      rw [List.mem_map] at hq
      obtain ⟨r, hr, rfl⟩ := hq
      subst hpq
      exact h.2 rfl r hr (by simpa [swap_swap] using hp)
  · simpa using h.1

theorem setWeights_none (net : Net) :
    setWeights net none = .ok { net with
      w := List.replicate net.N 1
      mean := (List.replicate net.N (1 : Rat)).sum / (net.N : Rat)
      total := (List.replicate net.N (1 : Rat)).sum } := rfl

/-- the weights a network gets from an optional weight argument -/
def weightsOf (N : Nat) (w : Option (List Rat)) : List Rat :=
  match w with
  | some w => w
  | none => List.replicate N 1

/-- **igraph path**: `FromIGraph` of a simple igraph object -/
theorem fromIGraph_simple (g : IGraph) (hN : 2 ≤ g.n) (hs : SimpleEdges g.directed g.edges)
    (hr : ∀ p ∈ g.edges, p.1 < g.n ∧ p.2 < g.n) (hw : ∀ w, g.vw = some w → w.length = g.n) :
    fromIGraph g = .ok { ofGraph g.directed g.n (rel g.directed g.edges) (weightsOf g.n g.vw) none
      with graph := g.edges, eattr := g.ea, gvw := g.vw } := by
  unfold fromIGraph init construct
  have hr' : ∀ p ∈ (if g.directed = true then g.edges else g.edges ++ g.edges.map swap),
      p.1 < g.n ∧ p.2 < g.n := by
    intro p hp
    cases hd : g.directed
    · rw [hd] at hp
      simp only [Bool.false_eq_true, if_false, List.mem_append, List.mem_map] at hp
      rcases hp with hp | ⟨q, hq, rfl⟩
      · exact hr p hp
      · have := hr q hq; exact ⟨this.2, this.1⟩
    · rw [hd] at hp; exact hr p (by simpa using hp)
  simp only [setAdjacency_cooOnes _ g.n hN _ (nodup_symm_closure _ _ hs) hr']
  have hrel : ∀ i j, i < g.n → j < g.n →
      memRel (if g.directed = true then g.edges else g.edges ++ g.edges.map swap) i j
        = rel g.directed g.edges i j := by
    intro i j _ _
    unfold memRel
    exact mem_symm_closure _ _ _ _
  rw [cells_congr hrel, table_congr (g := ind (rel g.directed g.edges))
    (fun i j hi hj => by unfold ind; rw [hrel i j hi hj])]
  simp only [bind, Except.bind, Net.blank, pure, Except.pure]
  cases hv : g.vw with
  | none => rw [setWeights_none]; rfl
  | some w =>
    rw [setWeights_some _ _ (by simpa using hw w hv)]
    rfl

/-! ### simple graphs and their embedded graph objects -/

/-- a simple graph on `N` nodes: no self-loops, symmetric unless directed -/
structure Simple (d : Bool) (N : Nat) (a : Nat → Nat → Bool) : Prop where
  irr : ∀ i, i < N → a i i = false
  sym : d = false → ∀ i j, i < N → j < N → a i j = a j i

theorem mem_graphEdges_cells {d : Bool} {N : Nat} {a : Nat → Nat → Bool} {p : Nat × Nat} :
    p ∈ graphEdges d N (cells N a) ↔ p.1 < N ∧ p.2 < N ∧
      (if d = true then p.1 ≠ p.2 ∧ a p.1 p.2 = true
       else p.1 < p.2 ∧ (a p.1 p.2 = true ∨ a p.2 p.1 = true)) := by
  cases d
  · rw [graphEdges_undirected, List.mem_filter, mem_pairs]
    simp only [Bool.and_eq_true, decide_eq_true_eq, Bool.or_eq_true, Bool.false_eq_true, if_false]
    tauto
  · rw [graphEdges_directed, List.mem_filter, mem_pairs]
    simp only [Bool.and_eq_true, bne_iff_ne, ne_eq, if_true]
    tauto

theorem simpleEdges_graphEdges (d : Bool) (N : Nat) (a : Nat → Nat → Bool) :
    SimpleEdges d (graphEdges d N (cells N a)) := by
  refine ⟨(nodup_pairs N N).filter _, ?_⟩
  intro hd p hp hq
  subst hd
  rw [mem_graphEdges_cells] at hp hq
  simp only [Bool.false_eq_true, if_false, swap] at hp hq
  omega

theorem rel_graphEdges (d : Bool) (N : Nat) (a : Nat → Nat → Bool) (hs : Simple d N a)
    (i j : Nat) (hi : i < N) (hj : j < N) :
    rel d (graphEdges d N (cells N a)) i j = a i j := by
  unfold rel
  rw [Bool.eq_iff_iff]
  simp only [Bool.or_eq_true, decide_eq_true_eq, Bool.and_eq_true, Bool.not_eq_true',
    mem_graphEdges_cells]
  cases d
  · have hsym := hs.sym rfl
    simp only [Bool.false_eq_true, if_false, true_and]
    constructor
    · rintro (⟨_, _, _, h | h⟩ | ⟨_, _, _, h | h⟩)
      · exact h
      · rw [hsym i j hi hj]; exact h
      · rw [hsym i j hi hj]; exact h
      · exact h
    · intro h
      have hne : i ≠ j := by
        intro e; subst e; rw [hs.irr i hi] at h; cases h
      by_cases hlt : i < j
      · exact Or.inl ⟨hi, hj, hlt, Or.inl h⟩
      · exact Or.inr ⟨hj, hi, by omega, Or.inr h⟩
  · simp only [if_true, Bool.true_eq_false, false_and, or_false]
    constructor
    · exact fun h => h.2.2.2
    · intro h
      refine ⟨hi, hj, ?_, h⟩
      intro e; subst e; rw [hs.irr i hi] at h; cases h

theorem ofDenseMat_congr {m n : Nat} {f g : Nat → Nat → Int}
    (h : ∀ i j, i < m → j < n → f i j = g i j) : ofDenseMat m n f = ofDenseMat m n g := by
  unfold ofDenseMat
  congr 1
  apply List.filterMap_congr
  intro p hp
  rw [mem_pairs] at hp
  rw [h p.1 p.2 hp.1 hp.2]

theorem ofGraph_at (d : Bool) (N : Nat) (a : Nat → Nat → Bool) (w ea) (i j : Nat) :
    (ofGraph d N a w ea).at i j = if i < N ∧ j < N then ind a i j else 0 :=
  table_at N (ind a) _ rfl i j

theorem sparse_ofGraph (d : Bool) (N : Nat) (a : Nat → Nat → Bool) (w ea) :
    (ofGraph d N a w ea).sparse = ofDenseMat N N (ind a) := by
  unfold Net.sparse
  apply ofDenseMat_congr
  intro i j hi hj
  have hi' : i < N := hi
  have hj' : j < N := hj
  rw [ofGraph_at]; simp [hi', hj']

/-- reshuffle bounded quantifiers so that `decide` can evaluate them -/
theorem forall_lt_lt {N : Nat} {P : Nat → Nat → Prop} (h : ∀ i, i < N → ∀ j, j < N → P i j) :
    ∀ i j, i < N → j < N → P i j := fun i j hi hj => h i hi j hj

theorem setWeights_ofGraph (d : Bool) (N : Nat) (a : Nat → Nat → Bool) (w : List Rat) (ea)
    (w' : Option (List Rat)) (h : ∀ x, w' = some x → x.length = N) :
    setWeights (ofGraph d N a w ea) w' = .ok (ofGraph d N a (weightsOf N w') ea) := by
  cases w' with
  | none => rfl
  | some x =>
    rw [setWeights_some _ _ (h x rfl)]
    rfl

theorem init_dense_none (d : Bool) (N : Nat) (hN : 2 ≤ N) (a : Nat → Nat → Bool) :
    init d (.sparse (ofDenseMat N N (ind a))) none
      = .ok (ofGraph d N a (List.replicate N 1) none) := by
  unfold init construct
  simp only [setAdjacency_dense _ N hN a]
  rfl

theorem igAdj_simple (g : IGraph) (hs : SimpleEdges g.directed g.edges) (i j : Nat) :
    igAdj g i j = ind (rel g.directed g.edges) i j := by
  unfold igAdj ind rel
  obtain ⟨hnd, hsw⟩ := hs
  cases hd : g.directed
  · have hsw' := hsw hd
    simp only [Bool.false_eq_true, if_false, Bool.not_false, Bool.true_and]
    rw [hnd.count, hnd.count]
    by_cases hij : i = j
    · subst hij
      have : (i, i) ∉ g.edges := fun h => hsw' (i, i) h h
      simp [this]
    · have hne : (i == j) = false := by simpa using hij
      rw [hne]
      by_cases h1 : (i, j) ∈ g.edges
      · have h2 : (j, i) ∉ g.edges := hsw' (i, j) h1
        simp [h1, h2]
      · by_cases h2 : (j, i) ∈ g.edges <;> simp [h1, h2]
  · simp only [if_true, Bool.not_true, Bool.false_and, Bool.or_false]
    rw [hnd.count]
    by_cases h1 : (i, j) ∈ g.edges <;> simp [h1]

/-! ### link attributes -/

theorem mem_zip_map {es : List (Nat × Nat)} {g : Nat × Nat → Rat} {q : (Nat × Nat) × Rat}
    (h : q ∈ es.zip (es.map g)) : q.1 ∈ es ∧ q.2 = g q.1 := by
  induction es with
  | nil => simp at h
  | cons e es ih =>
    simp only [List.map_cons, List.zip_cons_cons, List.mem_cons] at h
    rcases h with h | h
    · subst h; simp
    · have := ih h; exact ⟨List.mem_cons_of_mem _ this.1, this.2⟩

theorem zip_map_mem {es : List (Nat × Nat)} {g : Nat × Nat → Rat} {e : Nat × Nat} (h : e ∈ es) :
    (e, g e) ∈ es.zip (es.map g) := by
  induction es with
  | nil => simp at h
  | cons x es ih =>
    simp only [List.map_cons, List.zip_cons_cons, List.mem_cons]
    rcases List.mem_cons.1 h with h | h
    · left; rw [h]
    · right; exact ih h

/-- the predicate `link_attribute` uses to find the edge of a cell -/
def cellPred (d : Bool) (i j : Nat) (e : Nat × Nat) : Bool := e == (i, j) || (!d && e == (j, i))

theorem lastVal_map (d : Bool) (es : List (Nat × Nat)) (g : Nat × Nat → Rat) (i j : Nat)
    (hg : d = false → g (j, i) = g (i, j)) :
    (match lastVal es (es.map g) (cellPred d i j) with
      | some x => x
      | none => 0) = if rel d es i j then g (i, j) else 0 := by
  unfold lastVal
  cases hf : (es.zip (es.map g)).reverse.find? (fun q => cellPred d i j q.1) with
  | none =>
    rw [List.find?_eq_none] at hf
    have : rel d es i j = false := by
      rw [Bool.eq_false_iff]
      intro hr
      unfold rel at hr
      simp only [Bool.or_eq_true, decide_eq_true_eq, Bool.and_eq_true, Bool.not_eq_true'] at hr
      rcases hr with hr | ⟨hd, hr⟩
      · exact hf _ (List.mem_reverse.2 (zip_map_mem hr)) (by simp [cellPred])
      · exact hf _ (List.mem_reverse.2 (zip_map_mem hr)) (by simp [cellPred, hd])
    simp [this]
  | some q =>
    have hp := List.find?_some hf
    have hm := mem_zip_map (List.mem_reverse.1 (List.mem_of_find?_eq_some hf))
    simp only [cellPred, Bool.or_eq_true, beq_iff_eq, Bool.and_eq_true, Bool.not_eq_true'] at hp
    simp only [Option.map_some]
    rcases hp with hp | ⟨hd, hp⟩
    · have : rel d es i j = true := by
        unfold rel; simp [← hp, hm.1]
      rw [this, hm.2, hp]; rfl
    · have : rel d es i j = true := by
        unfold rel; simp [← hp, hm.1, hd]
      rw [this, hm.2, hp, hg hd]; rfl

theorem cellPred_symm (i j : Nat) : cellPred false i j = cellPred false j i := by
  funext e
  simp [cellPred, Bool.or_comm]

theorem linkAttr_symm (net : Net) (hd : net.directed = false) (f : Nat → Nat → Rat)
    (h : linkAttr net = some f) (i j : Nat) : f j i = f i j := by
  unfold linkAttr at h
  split at h
  · simp only [Option.some.injEq] at h; subst h; rfl
  · cases he : net.eattr with
    | none => rw [he] at h; cases h
    | some vs =>
      rw [he] at h
      simp only [Option.map_some, Option.some.injEq] at h
      subst h
      simp only [hd]
      have := cellPred_symm i j
      unfold cellPred at this
      rw [this]

theorem linkAttr_zero (net : Net) (f : Nat → Nat → Rat) (h : linkAttr net = some f) (i j : Nat)
    (hr : rel net.directed net.graph i j = false) : f i j = 0 := by
  unfold linkAttr at h
  split at h
  · simp only [Option.some.injEq] at h; subst h; rfl
  · cases he : net.eattr with
    | none => rw [he] at h; cases h
    | some vs =>
      rw [he] at h
      simp only [Option.map_some, Option.some.injEq] at h
      subst h
      simp only
      have hnone : lastVal net.graph vs
          (fun e => e == (i, j) || (!net.directed && e == (j, i))) = none := by
        unfold lastVal
        rw [Option.map_eq_none_iff, List.find?_eq_none]
        intro q hq hp
        have hmem : q.1 ∈ net.graph := (List.of_mem_zip (List.mem_reverse.1 hq)).1
        unfold rel at hr
        simp only [Bool.or_eq_false_iff, decide_eq_false_iff_not, Bool.and_eq_false_iff,
          Bool.not_eq_eq_eq_not, Bool.not_false] at hr
        simp only [Bool.or_eq_true, beq_iff_eq, Bool.and_eq_true, Bool.not_eq_true'] at hp
        rcases hp with hp | ⟨hd, hp⟩
        · exact hr.1 (hp ▸ hmem)
        · rcases hr.2 with h2 | h2
          · rw [hd] at h2; cases h2
          · exact h2 (hp ▸ hmem)
      rw [hnone]

end Pyunicorn.Repr
