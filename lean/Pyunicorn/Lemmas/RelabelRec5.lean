import Pyunicorn.Lemmas.RelabelRec4
/-! C04, round 5: the fixed-recurrence-rate variants of joint (lag 0) and inter-system recurrence
networks of reordered state vectors.  `JointRecurrencePlot.set_fixed_recurrence_rate` takes one
order statistic of each system's distance matrix; `InterSystemRecurrenceNetwork
.set_fixed_recurrence_rate` one of each system's distance matrix and one of the *rectangular*
cross-distance matrix, whose rows and columns are reordered by two different permutations. -/
namespace Pyunicorn.Relabel
open Pyunicorn.Recurrence

variable {n : Nat} {idx : Nat → Nat}

/-- the entries of a rectangular matrix whose rows and columns are renumbered separately are a
rearrangement of its entries -/
theorem tab_flatten_perm2 {α : Type} {Nx Ny : Nat} {idy : Nat → Nat} (hx : IsPerm Nx idx)
    (hy : IsPerm Ny idy) (F : Nat → Nat → α) :
    (tab Nx Ny fun a b => F (idx a) (idy b)).flatten.Perm (tab Nx Ny F).flatten := by
  unfold tab
  simp only [← List.flatMap_def]
  have stepA : ((List.range Nx).flatMap fun a => (List.range Ny).map fun b => F (idx a) (idy b)).Perm
      ((List.range Nx).flatMap fun a => (List.range Ny).map fun b => F (idx a) b) := by
    apply List.Perm.flatMap_left
    intro a _
    have : ((List.range Ny).map fun b => F (idx a) (idy b))
        = ((List.range Ny).map idy).map (F (idx a)) := by rw [List.map_map]; rfl
    rw [this]
    exact List.Perm.map _ hy
  have stepB : ((List.range Nx).flatMap fun a => (List.range Ny).map fun b => F (idx a) b).Perm
      ((List.range Nx).flatMap fun a => (List.range Ny).map fun b => F a b) := by
    have : ((List.range Nx).flatMap fun a => (List.range Ny).map fun b => F (idx a) b)
        = ((List.range Nx).map idx).flatMap fun a => (List.range Ny).map fun b => F a b := by
      rw [List.flatMap_map]
    rw [this]
    exact List.Perm.flatMap_right _ hx
  exact stepA.trans stepB

/-- the cross-distance matrix of two separately reordered trajectories, as a whole -/
theorem distCRP_rows {Nx Ny : Nat} {idy : Nat → Nat} (m : Metric) (ex ey : List (List V)) :
    distCRP m (rows Nx idx ex) (rows Ny idy ey)
      = tab Nx Ny fun a b => dist m (rowOf ex (idx a)) (rowOf ey (idy b)) := by
  unfold distCRP
  rw [rows_length, rows_length]
  unfold tab
  apply List.map_congr_left
  intro a ha
  apply List.map_congr_left
  intro b hb
  show Recurrence.dist m (rowOf (rows Nx idx ex) a) (rowOf (rows Ny idy ey) b)
    = Recurrence.dist m (rowOf ex (idx a)) (rowOf ey (idy b))
  rw [rowOf_rows ex a (List.mem_range.mp ha), rowOf_rows ey b (List.mem_range.mp hb)]

/-- **the cross-recurrence rate threshold** does not depend on the order of either system's
state vectors -/
theorem quantile_distCRP_relabel {Nx Ny : Nat} {idy : Nat → Nat} (hx : IsPerm Nx idx)
    (hy : IsPerm Ny idy) (m : Metric) (ex ey : List (List V)) (hnx : ex.length = Nx)
    (hny : ey.length = Ny) (k : Nat) :
    quantileAt (distCRP m (rows Nx idx ex) (rows Ny idy ey)).flatten k
      = quantileAt (distCRP m ex ey).flatten k := by
  have hp : (distCRP m (rows Nx idx ex) (rows Ny idy ey)).flatten.Perm (distCRP m ex ey).flatten := by
    rw [distCRP_rows m ex ey]
    have : distCRP m ex ey = tab Nx Ny fun a b => dist m (rowOf ex a) (rowOf ey b) := by
      unfold distCRP; rw [hnx, hny]
    rw [this]
    exact tab_flatten_perm2 hx hy fun a b => dist m (rowOf ex a) (rowOf ey b)
  unfold quantileAt
  rw [sortV_congr_perm _ _ hp]

theorem distRP_shape (m : Metric) (emb : List (List V)) (hn : emb.length = n) :
    (distRP m emb).length = n ∧ ∀ r ∈ distRP m emb, r.length = n := by
  unfold distRP
  rw [hn]
  exact tab_shape n n _

/-- thresholded distance matrices of a reordered trajectory at one threshold -/
theorem threshold_distRP_relabel (h : IsPerm n idx) (m : Metric) (emb : List (List V))
    (hn : emb.length = n) (t : V) (a b : Nat) (ha : a < n) (hb : b < n) :
    entry (threshold (distRP m (rows n idx emb)) t) a b
      = entry (threshold (distRP m emb) t) (idx a) (idx b) := by
  unfold threshold
  rw [entry_map_map, entry_map_map, distRP_relabel h m emb hn a b ha hb]

/-- thresholded cross-distance matrices of two separately reordered trajectories -/
theorem threshold_distCRP_relabel {Nx Ny : Nat} {idy : Nat → Nat} (hx : IsPerm Nx idx)
    (hy : IsPerm Ny idy) (m : Metric) (ex ey : List (List V)) (hnx : ex.length = Nx)
    (hny : ey.length = Ny) (t : V) (a b : Nat) (ha : a < Nx) (hb : b < Ny) :
    ((threshold (distCRP m (rows Nx idx ex) (rows Ny idy ey)) t).getD a []).getD b false
      = ((threshold (distCRP m ex ey) t).getD (idx a) []).getD (idy b) false := by
  have e' := distCRP_relabel (idx := idx) (idy := idy) m ex ey a b ha hb
  have e : entry (distCRP m ex ey) (idx a) (idy b)
      = some (dist m (rowOf ex (idx a)) (rowOf ey (idy b))) := by
    unfold distCRP
    rw [entry_tab, if_pos ⟨by rw [hnx]; exact hx.lt ha, by rw [hny]; exact hy.lt hb⟩]
  have v : ∀ (Mx : List (List Bool)) (i j : Nat) (x : Bool), entry Mx i j = some x →
      (Mx.getD i []).getD j false = x := fun Mx i j x hx => getD_of_entry Mx false i j x hx
  have s' : entry (threshold (distCRP m (rows Nx idx ex) (rows Ny idy ey)) t) a b
      = some (ltV (dist m (rowOf ex (idx a)) (rowOf ey (idy b))) t) := by
    unfold threshold; rw [entry_map_map, e']; rfl
  have s : entry (threshold (distCRP m ex ey) t) (idx a) (idy b)
      = some (ltV (dist m (rowOf ex (idx a)) (rowOf ey (idy b))) t) := by
    unfold threshold; rw [entry_map_map, e]; rfl
  rw [v _ _ _ _ s', v _ _ _ _ s]

/-- **joint recurrence matrix at fixed recurrence rates, lag 0**
(`JointRecurrencePlot.set_fixed_recurrence_rate`: `threshold_from_recurrence_rate` on each
system's distance matrix, `JR = recurrence_x * recurrence_y`; `none` = IndexError): the two
constructions succeed or raise together and the matrix of the reordered trajectories is the
renumbered one -/
theorem joint_rate_relabel (h : IsPerm n idx) (mx my : Metric) (ex ey : List (List V))
    (hnx : ex.length = n) (hny : ey.length = n) (kx ky : Nat) (a b : Nat) (ha : a < n)
    (hb : b < n) :
    ((fixedRate (distRP mx (rows n idx ex)) kx).bind fun Rx =>
      (fixedRate (distRP my (rows n idx ey)) ky).bind fun Ry =>
        (hadamard Rx Ry).bind fun R => entry R a b)
      = ((fixedRate (distRP mx ex) kx).bind fun Rx =>
          (fixedRate (distRP my ey) ky).bind fun Ry =>
            (hadamard Rx Ry).bind fun R => entry R (idx a) (idx b)) := by
  unfold fixedRate
  rw [quantile_distRP_relabel h mx ex hnx kx, quantile_distRP_relabel h my ey hny ky]
  cases quantileAt (distRP mx ex).flatten kx with
  | none => rfl
  | some tx =>
    cases quantileAt (distRP my ey).flatten ky with
    | none => rfl
    | some ty =>
      simp only [Option.map_some, Option.bind_some]
      exact hadamard_relabel _ _ _ _
        (threshold_square tx (distRP_shape mx ex hnx))
        (threshold_square tx (distRP_shape mx _ (rows_length ex)))
        (threshold_square ty (distRP_shape my ey hny))
        (threshold_square ty (distRP_shape my _ (rows_length ey))) a b
        (threshold_distRP_relabel h mx ex hnx tx a b ha hb)
        (threshold_distRP_relabel h my ey hny ty a b ha hb)

theorem fixedRate_isSome_relabel (h : IsPerm n idx) (m : Metric) (emb : List (List V))
    (hn : emb.length = n) (k : Nat) :
    (fixedRate (distRP m (rows n idx emb)) k).isSome = (fixedRate (distRP m emb) k).isSome := by
  unfold fixedRate
  rw [quantile_distRP_relabel h m emb hn k]
  cases quantileAt (distRP m emb).flatten k <;> rfl

theorem fixedRate_cross_isSome_relabel {Nx Ny : Nat} {idy : Nat → Nat} (hx : IsPerm Nx idx)
    (hy : IsPerm Ny idy) (m : Metric) (ex ey : List (List V)) (hnx : ex.length = Nx)
    (hny : ey.length = Ny) (k : Nat) :
    (fixedRate (distCRP m (rows Nx idx ex) (rows Ny idy ey)) k).isSome
      = (fixedRate (distCRP m ex ey) k).isSome := by
  unfold fixedRate
  rw [quantile_distCRP_relabel hx hy m ex ey hnx hny k]
  cases quantileAt (distCRP m ex ey).flatten k <;> rfl

/-- a rate-thresholded matrix of a reordered trajectory, entrywise with defaults -/
theorem fixedRate_getD_relabel (h : IsPerm n idx) (m : Metric) (emb : List (List V))
    (hn : emb.length = n) (k : Nat) (R R' : List (List Bool))
    (hR : fixedRate (distRP m emb) k = some R)
    (hR' : fixedRate (distRP m (rows n idx emb)) k = some R') (a b : Nat) (ha : a < n)
    (hb : b < n) :
    (R'.getD a []).getD b false = (R.getD (idx a) []).getD (idx b) false := by
  unfold fixedRate at hR hR'
  rw [quantile_distRP_relabel h m emb hn k] at hR'
  cases hq : quantileAt (distRP m emb).flatten k with
  | none => rw [hq] at hR; exact absurd hR (by simp)
  | some t =>
    rw [hq] at hR hR'
    simp only [Option.map_some, Option.some.injEq] at hR hR'
    subst hR hR'
    exact getD_eq_of_entry (threshold_square t (distRP_shape m emb hn))
      (threshold_square t (distRP_shape m _ (rows_length emb))) _ _ _ _ (h.lt ha) (h.lt hb) ha hb
      (threshold_distRP_relabel h m emb hn t a b ha hb)

/-- **inter-system recurrence network at fixed recurrence rates**
(`InterSystemRecurrenceNetwork.set_fixed_recurrence_rate`: two `RecurrencePlot`s and one
`CrossRecurrencePlot`, each thresholded at its own order statistic, then the block assembly) of
two separately reordered systems is the assembly of the original systems renumbered by
`joinPerm` -/
theorem intersystem_rate_relabel {Nx Ny : Nat} {idy : Nat → Nat} (hx : IsPerm Nx idx)
    (hy : IsPerm Ny idy) (m : Metric) (ex ey : List (List V)) (hnx : ex.length = Nx)
    (hny : ey.length = Ny) (kx ky kxy : Nat) (Rx Ry CR Rx' Ry' CR' M M' : List (List Bool))
    (hRx : fixedRate (distRP m ex) kx = some Rx) (hRy : fixedRate (distRP m ey) ky = some Ry)
    (hCR : fixedRate (distCRP m ex ey) kxy = some CR)
    (hRx' : fixedRate (distRP m (rows Nx idx ex)) kx = some Rx')
    (hRy' : fixedRate (distRP m (rows Ny idy ey)) ky = some Ry')
    (hCR' : fixedRate (distCRP m (rows Nx idx ex) (rows Ny idy ey)) kxy = some CR')
    (hM : isrm Nx Ny Rx Ry CR = some M) (hM' : isrm Nx Ny Rx' Ry' CR' = some M')
    (a b : Nat) (ha : a < Nx + Ny) (hb : b < Nx + Ny) :
    entry M' a b = entry M (joinPerm Nx idx idy a) (joinPerm Nx idx idy b) := by
  refine isrm_relabel hx hy _ _ _ _ _ _ ?_ ?_ ?_ M M' hM hM' a b ha hb
  · intro a b ha hb
    exact fixedRate_getD_relabel hx m ex hnx kx Rx Rx' hRx hRx' a b ha hb
  · intro a b ha hb
    exact fixedRate_getD_relabel hy m ey hny ky Ry Ry' hRy hRy' a b ha hb
  · intro a b ha hb
    unfold fixedRate at hCR hCR'
    rw [quantile_distCRP_relabel hx hy m ex ey hnx hny kxy] at hCR'
    cases hq : quantileAt (distCRP m ex ey).flatten kxy with
    | none => rw [hq] at hCR; exact absurd hCR (by simp)
    | some t =>
      rw [hq] at hCR hCR'
      simp only [Option.map_some, Option.some.injEq] at hCR hCR'
      subst hCR hCR'
      exact threshold_distCRP_relabel hx hy m ex ey hnx hny t a b ha hb

end Pyunicorn.Relabel
