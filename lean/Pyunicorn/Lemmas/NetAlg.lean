import Pyunicorn.Model.Net
import Mathlib.Tactic.Ring
import Mathlib.Tactic.FieldSimp
import Mathlib.Tactic.Linarith
import Mathlib.Algebra.Order.Field.Rat
/-!
Rational-arithmetic lemmas for C03 (Mathlib tactics): the accumulators of the `assortativity` loop
are the three sums of Newman's formula, and that formula is the Pearson correlation coefficient of
the end-point degrees.
-/
namespace Pyunicorn.Net

/-- the loop accumulators as sums over the edge list -/
theorem ass_foldl (deg : Nat → Nat) (es : List (Nat × Nat)) (s : AssAcc) :
    ((es.foldl (assStep deg) s).num1 : Rat)
        = (s.num1 : Rat) + (es.map fun e => (deg e.1 : Rat) * (deg e.2 : Rat)).sum ∧
    ((es.foldl (assStep deg) s).num2 : Rat)
        = (s.num2 : Rat) + (es.map fun e => (deg e.1 : Rat) + (deg e.2 : Rat)).sum ∧
    ((es.foldl (assStep deg) s).den1 : Rat)
        = (s.den1 : Rat) + (es.map fun e => (deg e.1 : Rat) * (deg e.1 : Rat)
            + (deg e.2 : Rat) * (deg e.2 : Rat)).sum := by
  induction es generalizing s with
  | nil => simp
  | cons e t ih =>
    obtain ⟨h1, h2, h3⟩ := ih (assStep deg s e)
    simp only [List.foldl_cons, List.map_cons, List.sum_cons]
    rw [h1, h2, h3]
    simp only [assStep]
    push_cast
    refine ⟨by ring, by ring, by ring⟩

theorem symPairs_length (qs : List (Rat × Rat)) : (symPairs qs).length = 2 * qs.length := by
  induction qs with
  | nil => rfl
  | cons p t ih =>
    simp only [symPairs, List.flatMap_cons, List.length_append, List.length_cons,
      List.length_nil] at ih ⊢
    omega

theorem symPairs_sum_fst (qs : List (Rat × Rat)) :
    ((symPairs qs).map fun p => p.1).sum = (qs.map fun p => p.1 + p.2).sum := by
  induction qs with
  | nil => rfl
  | cons p t ih =>
    simp only [symPairs, List.flatMap_cons, List.map_append, List.sum_append, List.map_cons,
      List.sum_cons, List.map_nil, List.sum_nil] at ih ⊢
    rw [ih]; ring

theorem symPairs_cov (qs : List (Rat × Rat)) (mu : Rat) :
    ((symPairs qs).map fun p => (p.1 - mu) * (p.2 - mu)).sum
      = 2 * (qs.map fun p => p.1 * p.2).sum - 2 * mu * (qs.map fun p => p.1 + p.2).sum
        + 2 * (qs.length : Rat) * mu * mu := by
  induction qs with
  | nil => simp [symPairs]
  | cons p t ih =>
    simp only [symPairs, List.flatMap_cons, List.map_append, List.sum_append, List.map_cons,
      List.sum_cons, List.map_nil, List.sum_nil, List.length_cons] at ih ⊢
    rw [ih]; push_cast; ring

theorem symPairs_var (qs : List (Rat × Rat)) (mu : Rat) :
    ((symPairs qs).map fun p => (p.1 - mu) * (p.1 - mu)).sum
      = (qs.map fun p => p.1 * p.1 + p.2 * p.2).sum - 2 * mu * (qs.map fun p => p.1 + p.2).sum
        + 2 * (qs.length : Rat) * mu * mu := by
  induction qs with
  | nil => simp [symPairs]
  | cons p t ih =>
    simp only [symPairs, List.flatMap_cons, List.map_append, List.sum_append, List.map_cons,
      List.sum_cons, List.map_nil, List.sum_nil, List.length_cons] at ih ⊢
    rw [ih]; push_cast; ring

/-- Newman's formula `(S₁/m − (S₂/2m)²)/(S₃/2m − (S₂/2m)²)` is `cov/var` of the mirrored list -/
theorem newman_eq_pearson (S1 S2 S3 m : Rat) (hm : m ≠ 0) :
    let mu := S2 / (2 * m)
    (2 * S1 - 2 * mu * S2 + 2 * m * mu * mu = 2 * m * (S1 / m - (S2 / (2 * m)) * (S2 / (2 * m)))) ∧
    (S3 - 2 * mu * S2 + 2 * m * mu * mu = 2 * m * (S3 / (2 * m) - (S2 / (2 * m)) * (S2 / (2 * m)))) := by
  constructor <;> · field_simp; ring

/-- the body of `assortativity` for an arbitrary degree vector and edge list -/
theorem ass_general (deg : Nat → Nat) (es : List (Nat × Nat)) :
    (let s := es.foldl (assStep deg) ⟨0, 0, 0⟩
     let m : Rat := (es.length : Rat)
     if es.length = 0 then none else
     let num1 := (s.num1 : Rat) / m
     let den1 := (s.den1 : Rat) / (2 * m)
     let num2 := ((s.num2 : Rat) / (2 * m)) * ((s.num2 : Rat) / (2 * m))
     if den1 - num2 = 0 then none else some ((num1 - num2) / (den1 - num2)))
      = pearsonSym (symPairs (es.map fun e => ((deg e.1 : Rat), (deg e.2 : Rat)))) := by
  obtain ⟨h1, h2, h3⟩ := ass_foldl deg es ⟨0, 0, 0⟩
  simp only [Int.cast_zero, zero_add] at h1 h2 h3
  simp only [pearsonSym]
  set qs := es.map fun e => ((deg e.1 : Rat), (deg e.2 : Rat)) with hqs
  have hlen : qs.length = es.length := by simp [hqs]
  have e1 : (es.map fun e => (deg e.1 : Rat) * (deg e.2 : Rat)).sum = (qs.map fun p => p.1 * p.2).sum := by
    simp [hqs, List.map_map, Function.comp_def]
  have e2 : (es.map fun e => (deg e.1 : Rat) + (deg e.2 : Rat)).sum = (qs.map fun p => p.1 + p.2).sum := by
    simp [hqs, List.map_map, Function.comp_def]
  have e3 : (es.map fun e => (deg e.1 : Rat) * (deg e.1 : Rat) + (deg e.2 : Rat) * (deg e.2 : Rat)).sum
      = (qs.map fun p => p.1 * p.1 + p.2 * p.2).sum := by
    simp [hqs, List.map_map, Function.comp_def]
  rw [symPairs_length, symPairs_sum_fst, symPairs_cov, symPairs_var, hlen]
  by_cases hz : es.length = 0
  · simp [hz]
  · have hm : (es.length : Rat) ≠ 0 := by exact_mod_cast hz
    have h2m : (2 * es.length : Nat) ≠ 0 := by omega
    simp only [hz, h2m, if_false]
    rw [h1, h2, h3, e1, e2, e3]
    set S1 := (qs.map fun p => p.1 * p.2).sum
    set S2 := (qs.map fun p => p.1 + p.2).sum
    set S3 := (qs.map fun p => p.1 * p.1 + p.2 * p.2).sum
    obtain ⟨hc, hv⟩ := newman_eq_pearson S1 S2 S3 (es.length : Rat) hm
    have hcast : ((2 * es.length : Nat) : Rat) = 2 * (es.length : Rat) := by push_cast; ring
    rw [hcast, hc, hv]
    have h2 : (2 * (es.length : Rat)) ≠ 0 := by positivity
    by_cases hd : S3 / (2 * (es.length : Rat)) - S2 / (2 * es.length) * (S2 / (2 * es.length)) = 0
    · simp [hd]
    · have : 2 * (es.length : Rat) * (S3 / (2 * (es.length : Rat)) - S2 / (2 * es.length) * (S2 / (2 * es.length))) ≠ 0 :=
        mul_ne_zero h2 hd
      simp only [hd, this, if_false]
      rw [mul_div_mul_left _ _ h2]

/-- **the `assortativity` loop computes the Pearson correlation coefficient of the degrees at the two
ends of a link** (every link in both orientations), and raises `ZeroDivisionError` exactly when that
coefficient is undefined (no link, or all end-point degrees equal). -/
theorem assortativity_eq_pearson' (directed : Bool) (n : Nat) (a : Adj) :
    assortativity directed n a = pearsonSym (endDegrees directed n a) :=
  ass_general (degree directed n a) (edgeList directed n a)

end Pyunicorn.Net
