import Pyunicorn.Model.LineDistSeq
import Pyunicorn.Lemmas.LineDist
import Pyunicorn.Lemmas.Recurrence
/-! C08, round 3: the kernel *regenerated from the source text* (`Generated/StructC08.lean`,
written by `translate/gen_C08.py` on every run) is the hand model `Pyunicorn.LineDist`.
Core Lean only. -/
namespace Pyunicorn.LineDist
open Pyunicorn.Generated
open Pyunicorn.Recurrence (V ltV)

/-- the loop-carried state without the scratch variable `line` -/
def toSt (s : StructC08.LS) : St := ⟨s.k, s.mf, s.hist⟩

/-- value of `line` computed at the top of the loop body -/
def lineVal {α : Type} (O : FOps α) (R : Int → Int → Bool) (metric : Int → Int → α) (eps : α)
    (dimZero black : Bool) (I j : Int) : Bool :=
  if dimZero then R I j == black else O.lt (metric I j) eps == black

theorem innerBody_cell {α : Type} (O : FOps α) (R : Int → Int → Bool) (metric : Int → Int → α) (eps : α)
    (dz black : Bool) (M : Int → Bool) (mv : Bool) (ij2I : Int → Int → Int → Int)
    (N i j : Int) (s : StructC08.LS) :
    toSt (StructC08.innerBody O R metric eps dz black M mv ij2I N i j s)
      = cell mv (lineVal O R metric eps dz black (ij2I i j N) j)
          (M (ij2I i j N) || M j) (toSt s) := by
  obtain ⟨k, mf, ln, hist⟩ := s
  cases dz <;> cases mv <;>
    cases hl : (O.lt (metric (ij2I i j N) j) eps == black) <;>
    cases hr : (R (ij2I i j N) j == black) <;>
    cases hm : (M (ij2I i j N) || M j) <;> cases mf <;>
    by_cases hk : k = 0 <;>
    simp_all [StructC08.innerBody, cell, stepLine, toSt, lineVal, bump]

theorem afterInner_endSub (s : StructC08.LS) :
    toSt (StructC08.afterInner s) = endSub (toSt s) := by
  obtain ⟨k, mf, ln, hist⟩ := s
  cases mf <;> by_cases hk : k = 0 <;> simp_all [StructC08.afterInner, endSub, toSt, bump]

theorem toSt_foldl {α : Type} (f : StructC08.LS → α → StructC08.LS) (g : St → α → St)
    (h : ∀ s x, toSt (f s x) = g (toSt s) x) (l : List α) (s : StructC08.LS) :
    toSt (l.foldl f s) = l.foldl g (toSt s) := by
  induction l generalizing s with
  | nil => rfl
  | cons a t ih => simp only [List.foldl_cons]; rw [ih, h]

/-- the generated double loop is the fold of `subspace` over the visited cells -/
theorem lineDist_eq {α : Type} (O : FOps α) (n_time : Int) (hist : List Nat) (R : Int → Int → Bool)
    (metric : Int → Int → α) (eps : α) (dz black : Bool) (M : Int → Bool) (mv : Bool)
    (i2J : Int → Int → Int) (ij2I : Int → Int → Int → Int) (skip : Bool) :
    StructC08.lineDist O n_time hist R metric eps dz black M mv i2J ij2I skip
      = ((List.range (if skip then n_time - 1 else n_time).toNat).foldl
          (fun (s : St) (i : Nat) =>
            subspace mv ((List.range (i2J i (if skip then n_time - 1 else n_time)).toNat).map
              fun (j : Nat) =>
                (lineVal O R metric eps dz black
                    (ij2I i j (if skip then n_time - 1 else n_time)) j,
                 M (ij2I i j (if skip then n_time - 1 else n_time)) || M j)) s)
          ⟨0, false, hist⟩).hist := by
  unfold StructC08.lineDist
  simp only []
  generalize (if skip then n_time - (1 : Int) else n_time) = N
  have hh : ∀ s : StructC08.LS, s.hist = (toSt s).hist := fun s => rfl
  rw [hh, toSt_foldl (g := fun (s : St) (i : Nat) =>
      subspace mv ((List.range (i2J i N).toNat).map fun (j : Nat) =>
        (lineVal O R metric eps dz black (ij2I i j N) j, M (ij2I i j N) || M j)) s)]
  · rfl
  · intro s i
    rw [afterInner_endSub, toSt_foldl (g := fun (s : St) (j : Nat) =>
        cell mv (lineVal O R metric eps dz black (ij2I i j N) j) (M (ij2I i j N) || M j) s)]
    · simp only [subspace, List.foldl_map]
    · intro s j
      exact innerBody_cell O R metric eps dz black M mv ij2I N i j s

/-- the same as a `kernel` over the list of sub-spaces -/
theorem lineDist_kernel {α : Type} (O : FOps α) (n : Nat) (R : Int → Int → Bool)
    (metric : Int → Int → α) (eps : α) (dz black : Bool) (M : Int → Bool) (mv : Bool)
    (i2J : Int → Int → Int) (ij2I : Int → Int → Int → Int) (skip : Bool) :
    StructC08.lineDist O n (List.replicate n 0) R metric eps dz black M mv i2J ij2I skip
      = kernel mv ((List.range (if skip then (n : Int) - 1 else n).toNat).map fun (i : Nat) =>
          (List.range (i2J i (if skip then (n : Int) - 1 else n)).toNat).map fun (j : Nat) =>
            (lineVal O R metric eps dz black (ij2I i j (if skip then (n : Int) - 1 else n)) j,
             M (ij2I i j (if skip then (n : Int) - 1 else n)) || M j)) n := by
  rw [lineDist_eq, kernel, List.foldl_map]

theorem vert_subs (n : Nat) (f : Int → Int → Bool × Bool) :
    ((List.range ((n : Int)).toNat).map fun (i : Nat) =>
        (List.range (StructC08.i2J_vertline i n).toNat).map fun (j : Nat) =>
          f (StructC08.ij2I_vertline i j n) j)
      = (vertCoords n).map fun cs => cs.map fun (I, j) => f I j := by
  simp [vertCoords, StructC08.i2J_vertline, StructC08.ij2I_vertline, List.map_map,
    Function.comp_def]

theorem diag_subs (n : Nat) (f : Int → Int → Bool × Bool) :
    ((List.range ((n : Int) - 1).toNat).map fun (i : Nat) =>
        (List.range (StructC08.i2J_diagline i ((n : Int) - 1)).toNat).map fun (j : Nat) =>
          f (StructC08.ij2I_diagline i j ((n : Int) - 1)) j)
      = (diagCoords n).map fun cs => cs.map fun (I, j) => f I j := by
  have h1 : ((n : Int) - 1).toNat = n - 1 := by omega
  rw [h1]
  simp only [diagCoords, List.map_map, Function.comp_def]
  apply List.map_congr_left
  intro i hi
  have hi' := List.mem_range.mp hi
  have h2 : (StructC08.i2J_diagline (i : Int) ((n : Int) - 1)).toNat = i + 1 := by
    simp only [StructC08.i2J_diagline]; omega
  rw [h2]
  apply List.map_congr_left
  intro j hj
  have hj' := List.mem_range.mp hj
  have h3 : StructC08.ij2I_diagline (i : Int) (j : Int) ((n : Int) - 1)
      = ((n - 1 - i + j : Nat) : Int) := by
    simp only [StructC08.ij2I_diagline]; omega
  rw [h3]

theorem cellsOf_eq (R : Mat) (M : List Bool) (b : Bool) (cs : List (Nat × Nat)) :
    cellsOf R M b cs
      = cs.map fun (I, j) => ((accR R (I : Int) (j : Int) == b),
          (accM M (I : Int) || accM M (j : Int))) := by
  simp [cellsOf, accR, accM]

theorem accM_nil (I : Int) : accM [] I = false := by simp [accM]

end Pyunicorn.LineDist
