import Pyunicorn.Model.Similarity
import Mathlib.Analysis.Complex.Trigonometric
import Mathlib.Tactic.Linarith
/-!
# The documented distance weight `½ (tanh(a (d − d_min)) + 1)` over the reals (C09)

The model (`dampOf`) takes the hyperbolic tangent as a parameter with values in `[-1, 1]`;
here: the real `tanh` has that property (strictly), so the ideal weight lies strictly between
0 and 1, and it is symmetric for a symmetric distance.
-/
namespace Pyunicorn.Similarity

/-- the real-valued documented weight -/
noncomputable def realWeight (a dmin d : ℝ) : ℝ := (1 / 2) * (Real.tanh (a * (d - dmin)) + 1)

theorem realWeight_mem_unit (a dmin d : ℝ) : 0 < realWeight a dmin d ∧ realWeight a dmin d < 1 := by
  have h1 := Real.tanh_lt_one (a * (d - dmin))
  have h2 := Real.neg_one_lt_tanh (a * (d - dmin))
  unfold realWeight
  constructor <;> linarith

/-- damping never turns a non-link into a link, over the reals: `s ≥ 0`, `θ < s·w` ⇒ `θ < s` or … -/
theorem real_damped_le (a dmin d s : ℝ) (hs : 0 ≤ s) : s * realWeight a dmin d ≤ s := by
  have h := (realWeight_mem_unit a dmin d).2
  nlinarith

end Pyunicorn.Similarity
