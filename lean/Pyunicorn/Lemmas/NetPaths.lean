import Pyunicorn.Lemmas.Net
/-!
Shortest paths for C03 (core Lean only).

* `Walk n a u v k` — a walk of `k` links from `u` to `v` (the definition the docstring of
  `path_lengths` speaks about: "the shortest length of a path from i to j along links, or infinity
  if there is no such path");
* `lev` (Model/Net.lean) — level sets; `lev_some_iff`: `lev d v = some k` iff `k ≤ d`, a walk of
  `k` links exists and no shorter one does;
* `bfs_eq_lev` — the frontier BFS of the model returns exactly `lev n` on the nodes `< n`
  (loop invariant of `bfsAux`, early exit by stabilisation);
* `lev_none_forever` — pigeonhole: a node not reached after `n` rounds is never reached.
-/
namespace Pyunicorn.Net

/-- a walk of `k` links from `u` to `v`; every node a link leaves is a node of the graph (`< n`) -/
inductive Walk (n : Nat) (a : Adj) : Nat → Nat → Nat → Prop
  | nil (u : Nat) : Walk n a u u 0
  | snoc {u w v k : Nat} : Walk n a u w k → w < n → a w v = true → Walk n a u v (k + 1)

section
variable (n : Nat) (a : Adj) (src : Nat)

theorem lev_zero (v : Nat) : lev n a src 0 v = if v = src then some 0 else none := by
  simp [lev]

theorem lev_succ (d v : Nat) : lev n a src (d + 1) v =
    match lev n a src d v with
    | some k => some k
    | none =>
      if (List.range n).any (fun u => lev n a src d u == some d && a u v) then some (d + 1)
      else none := by
  rw [lev]; rfl

theorem lev_succ_none {d v : Nat} (h : lev n a src d v = none) : lev n a src (d + 1) v =
    if (List.range n).any (fun u => lev n a src d u == some d && a u v) then some (d + 1)
    else none := by
  rw [lev_succ, h]

theorem lev_le {d v k : Nat} (h : lev n a src d v = some k) : k ≤ d := by
  induction d generalizing k with
  | zero =>
    rw [lev_zero] at h
    split at h <;> simp_all
  | succ d ih =>
    rw [lev_succ] at h
    split at h
    · rename_i k' hk
      cases h
      exact Nat.le_succ_of_le (ih hk)
    · split at h
      · cases h; exact Nat.le_refl _
      · cases h

theorem lev_mono_succ {d v k : Nat} (h : lev n a src d v = some k) :
    lev n a src (d + 1) v = some k := by
  rw [lev_succ, h]

theorem lev_mono {d v k : Nat} (m : Nat) (h : lev n a src d v = some k) :
    lev n a src (d + m) v = some k := by
  induction m with
  | zero => exact h
  | succ m ih => exact lev_mono_succ n a src ih

theorem lev_mono_le {d e v k : Nat} (hde : d ≤ e) (h : lev n a src d v = some k) :
    lev n a src e v = some k := by
  obtain ⟨m, rfl⟩ := Nat.exists_eq_add_of_le hde
  exact lev_mono n a src m h

/-- a node is put on level `d+1` iff it is unreached after `d` rounds and a level-`d` node links to it -/
theorem lev_new_iff (d v : Nat) :
    lev n a src (d + 1) v = some (d + 1) ↔
      lev n a src d v = none ∧ ∃ u, u < n ∧ lev n a src d u = some d ∧ a u v = true := by
  rw [lev_succ]
  constructor
  · intro h
    split at h
    · rename_i k hk
      cases h
      have := lev_le n a src hk
      omega
    · rename_i hk
      refine ⟨hk, ?_⟩
      split at h
      · rename_i hany
        simp only [List.any_eq_true, List.mem_range, Bool.and_eq_true, beq_iff_eq] at hany
        obtain ⟨u, hu, h1, h2⟩ := hany
        exact ⟨u, hu, h1, h2⟩
      · cases h
  · rintro ⟨hnone, u, hu, h1, h2⟩
    rw [hnone]
    have : (List.range n).any (fun u => lev n a src d u == some d && a u v) = true := by
      simp only [List.any_eq_true, List.mem_range, Bool.and_eq_true, beq_iff_eq]
      exact ⟨u, hu, h1, h2⟩
    simp [this]

/-- the value is the level on which the node was put -/
theorem lev_exact {d v k : Nat} (h : lev n a src d v = some k) : lev n a src k v = some k := by
  induction d with
  | zero =>
    have := lev_le n a src h
    have : k = 0 := by omega
    subst this; exact h
  | succ d ih =>
    rw [lev_succ] at h
    split at h
    · rename_i k' hk
      cases h
      exact ih hk
    · rename_i hk
      split at h
      · rename_i hany
        cases h
        rw [lev_succ_none n a src hk]
        simp [hany]
      · cases h

/-- soundness: a level is the length of some walk -/
theorem lev_sound {d v k : Nat} (h : lev n a src d v = some k) : Walk n a src v k := by
  induction d generalizing v k with
  | zero =>
    rw [lev_zero] at h
    split at h
    · rename_i hv; cases h; subst hv; exact Walk.nil _
    · cases h
  | succ d ih =>
    by_cases hk : lev n a src d v = none
    · have hk' : k = d + 1 := by
        rw [lev_succ_none n a src hk] at h
        split at h
        · cases h; rfl
        · cases h
      subst hk'
      obtain ⟨_, u, hu, h1, h2⟩ := (lev_new_iff n a src d v).mp h
      exact Walk.snoc (ih h1) hu h2
    · obtain ⟨k', hk'⟩ := Option.ne_none_iff_exists'.mp hk
      have := lev_mono_succ n a src hk'
      rw [this] at h
      cases h
      exact ih hk'

/-- completeness: the end of a walk of `k` links is reached after at most `k` rounds -/
theorem lev_complete {v k : Nat} (w : Walk n a src v k) :
    ∃ j, j ≤ k ∧ lev n a src k v = some j := by
  induction w with
  | nil => exact ⟨0, Nat.le_refl _, by simp [lev_zero]⟩
  | @snoc w v k _ hw ha ih =>
    obtain ⟨j, hj, hl⟩ := ih
    by_cases hv : lev n a src k v = none
    · -- `w` sits on level `j`; were `j < k`, `v` would have been reached in round `j+1 ≤ k`
      by_cases hjk : j = k
      · subst hjk
        exact ⟨j + 1, Nat.le_refl _, (lev_new_iff n a src j v).mpr ⟨hv, w, hw, hl, ha⟩⟩
      · exfalso
        have hjl : lev n a src j w = some j := lev_exact n a src hl
        have hvj : lev n a src j v = none := by
          cases h : lev n a src j v with
          | none => rfl
          | some x =>
            have := lev_mono_le n a src (Nat.le_of_lt (Nat.lt_of_le_of_ne hj hjk)) h
            rw [hv] at this; cases this
        have h1 := (lev_new_iff n a src j v).mpr ⟨hvj, w, hw, hjl, ha⟩
        have h2 := lev_mono_le n a src (show j + 1 ≤ k by omega) h1
        rw [hv] at h2; cases h2
    · obtain ⟨k', hk'⟩ := Option.ne_none_iff_exists'.mp hv
      exact ⟨k', Nat.le_succ_of_le (lev_le n a src hk'), lev_mono_succ n a src hk'⟩

/-- **levels are shortest-walk lengths** -/
theorem lev_some_iff (d v k : Nat) :
    lev n a src d v = some k ↔
      k ≤ d ∧ Walk n a src v k ∧ ∀ j, j < k → ¬ Walk n a src v j := by
  constructor
  · intro h
    refine ⟨lev_le n a src h, lev_sound n a src h, ?_⟩
    intro j hj w
    obtain ⟨j', hj', hl⟩ := lev_complete n a src w
    have := lev_mono_le n a src (show j ≤ d by have := lev_le n a src h; omega) hl
    rw [h] at this
    cases this
    omega
  · rintro ⟨hkd, w, hmin⟩
    obtain ⟨j, hj, hl⟩ := lev_complete n a src w
    have hjk : j = k := by
      by_cases hlt : j < k
      · exact absurd (lev_sound n a src hl) (hmin j hlt)
      · omega
    subst hjk
    exact lev_mono_le n a src hkd hl

/-! ### stabilisation and pigeonhole -/

/-- no node of the graph sits on level `d` -/
def LevelEmpty (d : Nat) : Prop := ∀ u, u < n → lev n a src d u ≠ some d

theorem lev_stable_succ {d : Nat} (h : LevelEmpty n a src d) (v : Nat) :
    lev n a src (d + 1) v = lev n a src d v := by
  rw [lev_succ]
  cases hv : lev n a src d v with
  | some k => rfl
  | none =>
    have : (List.range n).any (fun u => lev n a src d u == some d && a u v) = false := by
      rw [List.any_eq_false]
      intro u hu
      have := h u (List.mem_range.mp hu)
      simp [this]
    simp [this]

theorem levelEmpty_succ {d : Nat} (h : LevelEmpty n a src d) : LevelEmpty n a src (d + 1) := by
  intro u hu he
  rw [lev_stable_succ n a src h] at he
  have := lev_le n a src he
  omega

theorem lev_stable {d : Nat} (h : LevelEmpty n a src d) (m v : Nat) :
    lev n a src (d + m) v = lev n a src d v := by
  induction m with
  | zero => rfl
  | succ m ih =>
    have he : LevelEmpty n a src (d + m) := by
      clear ih
      induction m with
      | zero => exact h
      | succ m ihm => exact levelEmpty_succ n a src ihm
    rw [show d + (m + 1) = (d + m) + 1 from rfl, lev_stable_succ n a src he, ih]

theorem filter_length_lt (l : List Nat) (p q : Nat → Bool) (hpq : ∀ x, x ∈ l → p x = true → q x = true)
    (hx : ∃ x, x ∈ l ∧ q x = true ∧ p x = false) : (l.filter p).length < (l.filter q).length := by
  induction l with
  | nil => obtain ⟨x, hx, _⟩ := hx; cases hx
  | cons y t ih =>
    have hle : (t.filter p).length ≤ (t.filter q).length := by
      clear ih hx
      induction t with
      | nil => simp
      | cons z s ihs =>
        have hz := hpq z (by simp)
        have := ihs (fun x hx => hpq x (by
          rcases List.mem_cons.mp hx with h | h
          · simp [h]
          · simp [h]))
        simp only [List.filter_cons]
        cases hp : p z
        · cases q z <;> simp <;> omega
        · simp [hz hp]; omega
    obtain ⟨x, hxm, hqx, hpx⟩ := hx
    simp only [List.filter_cons]
    rcases List.mem_cons.mp hxm with rfl | hxt
    · simp [hqx, hpx]; omega
    · have := ih (fun z hz => hpq z (by simp [hz])) ⟨x, hxt, hqx, hpx⟩
      have hy := hpq y (by simp)
      cases hp : p y
      · cases q y <;> simp <;> omega
      · simp [hy hp]; omega

/-- number of nodes reached after `d` rounds -/
def reached (d : Nat) : Nat := ((List.range n).filter fun u => (lev n a src d u).isSome).length

theorem reached_le (d : Nat) : reached n a src d ≤ n := by
  have := List.length_filter_le (fun u => (lev n a src d u).isSome) (List.range n)
  simpa [reached] using this

/-- while no level up to `d` is empty, at least `d+1` nodes are reached -/
theorem reached_ge (d : Nat) (h : ∀ e, e ≤ d → ¬ LevelEmpty n a src e) : d + 1 ≤ reached n a src d := by
  induction d with
  | zero =>
    have h0 := h 0 (Nat.le_refl _)
    obtain ⟨u, hu, hl⟩ : ∃ u, u < n ∧ ¬ lev n a src 0 u ≠ some 0 := by
      apply Classical.byContradiction
      intro hc
      exact h0 fun u hu he => hc ⟨u, hu, fun hne => hne he⟩
    have hl' : lev n a src 0 u = some 0 := by
      cases hh : lev n a src 0 u with
      | none => exact absurd (by rw [hh]; simp) hl
      | some x => have := lev_le n a src hh; have : x = 0 := by omega
                  subst this; rfl
    have : 0 < ((List.range n).filter fun u => (lev n a src 0 u).isSome).length :=
      List.length_pos_of_mem (List.mem_filter.mpr ⟨List.mem_range.mpr hu, by rw [hl']; rfl⟩)
    simp only [reached]; omega
  | succ d ih =>
    have ih' := ih (fun e he => h e (Nat.le_succ_of_le he))
    have h1 := h (d + 1) (Nat.le_refl _)
    obtain ⟨u, hu, hl⟩ : ∃ u, u < n ∧ ¬ lev n a src (d + 1) u ≠ some (d + 1) := by
      apply Classical.byContradiction
      intro hc
      exact h1 fun u hu he => hc ⟨u, hu, fun hne => hne he⟩
    have hl' : lev n a src (d + 1) u = some (d + 1) := Classical.byContradiction fun hc => hl hc
    have hnone := ((lev_new_iff n a src d u).mp hl').1
    have := filter_length_lt (List.range n) (fun u => (lev n a src d u).isSome)
      (fun u => (lev n a src (d + 1) u).isSome)
      (by
        intro x _ hx
        obtain ⟨k, hk⟩ := Option.isSome_iff_exists.mp hx
        rw [lev_mono_succ n a src hk]; rfl)
      ⟨u, List.mem_range.mpr hu, by rw [hl']; rfl, by rw [hnone]; rfl⟩
    simp only [reached] at ih' ⊢
    omega

/-- some level `≤ n` is empty (there are only `n` nodes) -/
theorem exists_levelEmpty : ∃ e, e ≤ n ∧ LevelEmpty n a src e := by
  apply Classical.byContradiction
  intro hc
  have := reached_ge n a src n (fun e he hE => hc ⟨e, he, hE⟩)
  have := reached_le n a src n
  omega

/-- **pigeonhole**: whatever is not reached after `n` rounds is never reached -/
theorem lev_after_n (m v : Nat) : lev n a src (n + m) v = lev n a src n v := by
  obtain ⟨e, he, hE⟩ := exists_levelEmpty n a src
  obtain ⟨r, hr⟩ := Nat.exists_eq_add_of_le he
  have h1 := lev_stable n a src hE (r + m) v
  have h2 := lev_stable n a src hE r v
  rw [← hr] at h2
  rw [show n + m = e + (r + m) by omega, h1, h2]

theorem lev_none_iff (v : Nat) :
    lev n a src n v = none ↔ ∀ k, ¬ Walk n a src v k := by
  constructor
  · intro h k w
    obtain ⟨j, _, hl⟩ := lev_complete n a src w
    by_cases hk : k ≤ n
    · have := lev_mono_le n a src hk hl
      rw [h] at this; cases this
    · obtain ⟨m, rfl⟩ := Nat.exists_eq_add_of_le (show n ≤ k by omega)
      rw [lev_after_n, h] at hl; cases hl
  · intro h
    cases hl : lev n a src n v with
    | none => rfl
    | some k => exact absurd (lev_sound n a src hl) (h k)

/-! ### the frontier BFS computes the levels -/

theorem setAll_getElem? (ds : List (Option Nat)) (vs : List Nat) (d v : Nat) :
    (setAll ds vs d)[v]? = if v ∈ vs ∧ v < ds.length then some (some d) else ds[v]? := by
  induction vs generalizing ds with
  | nil => simp [setAll]
  | cons x t ih =>
    simp only [setAll, List.foldl_cons] at ih ⊢
    rw [ih]
    simp only [List.length_set, List.getElem?_set, List.mem_cons]
    by_cases hlen : v < ds.length
    · by_cases hvt : v ∈ t
      · simp [hvt, hlen]
      · by_cases hxv : x = v
        · subst hxv; simp [hvt, hlen]
        · have : ¬ v = x := fun e => hxv e.symm
          simp [hvt, hxv, this]
    · have hnone : ds[v]? = none := List.getElem?_eq_none (Nat.le_of_not_lt hlen)
      by_cases hxv : x = v
      · subst hxv; simp [hlen, hnone]
      · simp [hlen, hxv]

/-- the distance vector after `d` rounds -/
def levList (d : Nat) : List (Option Nat) := (List.range n).map (lev n a src d)
/-- the frontier after `d` rounds -/
def levFront (d : Nat) : List Nat := (List.range n).filter fun v => lev n a src d v == some d

theorem levList_getD (d v : Nat) (hv : v < n) : (levList n a src d).getD v none = lev n a src d v := by
  simp [levList, List.getD, hv]

theorem bfs_next_eq (d : Nat) :
    ((List.range n).filter fun v =>
      ((levList n a src d).getD v none).isNone && (levFront n a src d).any fun u => a u v)
      = levFront n a src (d + 1) := by
  apply List.filter_congr
  intro v hv
  have hv' := List.mem_range.mp hv
  rw [levList_getD n a src d v hv']
  have hany : ((levFront n a src d).any fun u => a u v)
      = (List.range n).any (fun u => lev n a src d u == some d && a u v) := by
    simp [levFront, List.any_filter]
  rw [hany]
  cases hl : lev n a src d v with
  | some k =>
    have h1 := lev_mono_succ n a src hl
    have h2 := lev_le n a src hl
    rw [h1]
    have : k ≠ d + 1 := by omega
    simp [this]
  | none =>
    rw [lev_succ_none n a src hl]
    by_cases hc : (List.range n).any (fun u => lev n a src d u == some d && a u v) = true
    · simp [hc]
    · have hc' : (List.range n).any (fun u => lev n a src d u == some d && a u v) = false := by
        simpa using hc
      simp [hc']

theorem setAll_levList (d : Nat) :
    setAll (levList n a src d) (levFront n a src (d + 1)) (d + 1) = levList n a src (d + 1) := by
  apply List.ext_getElem?
  intro v
  rw [setAll_getElem?]
  simp only [levList, List.length_map, List.length_range, List.getElem?_map, List.getElem?_range,
    levFront, List.mem_filter, List.mem_range, beq_iff_eq]
  by_cases hv : v < n
  · by_cases hl : lev n a src (d + 1) v = some (d + 1)
    · simp [hv, hl]
    · simp only [hv, hl, and_false, false_and, if_false]
      have hvn : (List.range n)[v]? = some v := by simp [hv]
      simp only [hvn, Option.map_some]
      congr 1
      cases h : lev n a src d v with
      | some k => exact (lev_mono_succ n a src h).symm
      | none =>
        rw [lev_succ_none n a src h] at hl ⊢
        split
        · rename_i hany
          exfalso; apply hl
          simp [hany]
        · rfl
  · have hvn : (List.range n)[v]? = none := by simp [Nat.le_of_not_lt hv]
    simp [hv, hvn]

/-- loop invariant of `bfsAux`: entered in round `d` with the level data of round `d`, it returns
the level data of round `d + fuel` -/
theorem bfsAux_eq (fuel d : Nat) :
    bfsAux n a fuel d (levFront n a src d) (levList n a src d) = levList n a src (d + fuel) := by
  induction fuel generalizing d with
  | zero => rfl
  | succ fuel ih =>
    simp only [bfsAux]
    rw [bfs_next_eq]
    by_cases he : (levFront n a src (d + 1)).isEmpty = true
    · simp only [he, if_true]
      -- level `d+1` is empty: nothing changes any more
      have hE : LevelEmpty n a src (d + 1) := by
        intro u hu hl
        have : u ∈ levFront n a src (d + 1) := by
          simp [levFront, hu, hl]
        rw [List.isEmpty_iff] at he
        rw [he] at this; cases this
      simp only [levList]
      apply List.map_congr_left
      intro v _
      have h1 := lev_stable n a src hE fuel v
      have h2 : lev n a src (d + 1) v = lev n a src d v := by
        cases h : lev n a src d v with
        | some k => exact lev_mono_succ n a src h
        | none =>
          cases h' : lev n a src (d + 1) v with
          | none => rfl
          | some k =>
            exfalso
            have hk : k = d + 1 := by
              rw [lev_succ_none n a src h] at h'
              split at h'
              · cases h'; rfl
              · cases h'
            subst hk
            obtain ⟨_, u, hu, hlu, _⟩ := (lev_new_iff n a src d v).mp h'
            -- then `v` itself is on level d+1; but is `v < n`?  yes: it is in `range n`
            exact hE v (List.mem_range.mp ‹v ∈ List.range n›) h'
      rw [show d + (fuel + 1) = (d + 1) + fuel by omega, h1, h2]
    · simp only [he, Bool.false_eq_true, if_false]
      rw [setAll_levList, ih (d + 1)]
      congr 1; omega

theorem levList_zero (hsrc : src < n) :
    (List.replicate n (none : Option Nat)).set src (some 0) = levList n a src 0 := by
  apply List.ext_getElem?
  intro v
  simp only [levList, List.getElem?_set, List.length_replicate, List.getElem?_map,
    List.getElem?_range, List.getElem?_replicate]
  by_cases hv : v < n
  · by_cases hsv : src = v
    · subst hsv; simp [hsrc, lev_zero]
    · have : ¬ v = src := fun e => hsv e.symm
      simp [hv, hsv, this, lev_zero]
  · have : ¬ src = v := by omega
    simp [hv, this]

theorem levFront_zero (hsrc : src < n) : levFront n a src 0 = [src] := by
  simp only [levFront, lev_zero]
  have : (fun v => (if v = src then some 0 else none) == some 0) = fun v => v == src := by
    funext v; by_cases h : v = src <;> simp [h]
  rw [this]
  clear this
  induction n with
  | zero => omega
  | succ m ih =>
    rw [List.range_succ, List.filter_append]
    by_cases h : src = m
    · subst h
      have : (List.range src).filter (fun v => v == src) = [] := by
        rw [List.filter_eq_nil_iff]
        intro x hx
        have := List.mem_range.mp hx
        simp; omega
      simp [this]
    · have hm : src < m := by omega
      have : ¬ m = src := fun e => h e.symm
      simp [ih hm, this]

/-- **the BFS of the model returns the level of every node** -/
theorem bfs_eq_lev (hsrc : src < n) : bfs n a src = levList n a src n := by
  simp only [bfs]
  rw [levList_zero n a src hsrc, ← levFront_zero n a src hsrc, bfsAux_eq]
  simp

theorem dist_eq_lev (hsrc : src < n) (v : Nat) (hv : v < n) : dist n a src v = lev n a src n v := by
  simp only [dist]
  rw [bfs_eq_lev n a src hsrc, levList_getD n a src n v hv]

end

end Pyunicorn.Net
