import Pyunicorn.Model.Net
/-! Helper lemmas for C03 (core Lean only): finite sums over `List.range` / lists. -/
namespace Pyunicorn.Net

theorem sumL_nil (f : Nat → Nat) : sumL [] f = 0 := rfl
theorem sumL_cons (x : Nat) (l : List Nat) (f : Nat → Nat) : sumL (x :: l) f = f x + sumL l f := by
  simp [sumL]
theorem sumL_append (l r : List Nat) (f : Nat → Nat) : sumL (l ++ r) f = sumL l f + sumL r f := by
  simp [sumL]

theorem sumL_add (l : List Nat) (f g : Nat → Nat) :
    sumL l (fun x => f x + g x) = sumL l f + sumL l g := by
  induction l with
  | nil => simp [sumL]
  | cons x t ih => simp only [sumL_cons, ih]; omega

theorem sumL_mul_left (l : List Nat) (c : Nat) (f : Nat → Nat) :
    sumL l (fun x => c * f x) = c * sumL l f := by
  induction l with
  | nil => simp [sumL]
  | cons x t ih => simp only [sumL_cons, ih, Nat.mul_add]

theorem sumL_mul_right (l : List Nat) (c : Nat) (f : Nat → Nat) :
    sumL l (fun x => f x * c) = sumL l f * c := by
  induction l with
  | nil => simp [sumL]
  | cons x t ih => simp only [sumL_cons, ih, Nat.add_mul]

theorem sumL_zero (l : List Nat) : sumL l (fun _ => 0) = 0 := by
  induction l with
  | nil => rfl
  | cons x t ih => simp [sumL_cons, ih]

theorem sumL_congr (l : List Nat) (f g : Nat → Nat) (h : ∀ x ∈ l, f x = g x) :
    sumL l f = sumL l g := by
  induction l with
  | nil => rfl
  | cons x t ih =>
    simp only [sumL_cons]
    rw [h x (by simp), ih (fun y hy => h y (by simp [hy]))]

/-- exchange of two finite sums -/
theorem sumL_comm (l r : List Nat) (f : Nat → Nat → Nat) :
    sumL l (fun x => sumL r fun y => f x y) = sumL r (fun y => sumL l fun x => f x y) := by
  induction l with
  | nil => simp [sumL_nil, sumL_zero]
  | cons x t ih => simp only [sumL_cons, ih, sumL_add]

theorem sumTo_eq_sumL (n : Nat) (f : Nat → Nat) : sumTo n f = sumL (List.range n) f := rfl

theorem sumTo_succ (n : Nat) (f : Nat → Nat) : sumTo (n + 1) f = sumTo n f + f n := by
  simp [sumTo, List.range_succ]

theorem sumTo_zero (f : Nat → Nat) : sumTo 0 f = 0 := rfl

/-- a sum of indicators over a list is the length of the filtered list -/
theorem sumL_b2n (l : List Nat) (p : Nat → Bool) :
    sumL l (fun x => b2n (p x)) = (l.filter p).length := by
  induction l with
  | nil => rfl
  | cons x t ih =>
    simp only [sumL_cons, ih, List.filter_cons]
    cases p x <;> simp [b2n] <;> omega

/-- a sum over the filtered list is the sum of the guarded terms -/
theorem sumL_filter (l : List Nat) (p : Nat → Bool) (f : Nat → Nat) :
    sumL (l.filter p) f = sumL l (fun x => if p x then f x else 0) := by
  induction l with
  | nil => rfl
  | cons x t ih =>
    simp only [List.filter_cons, sumL_cons]
    cases h : p x <;> simp [sumL_cons, ih]

theorem b2n_and (p q : Bool) : b2n (p && q) = b2n p * b2n q := by
  cases p <;> cases q <;> rfl

theorem b2n_le_one (p : Bool) : b2n p ≤ 1 := by cases p <;> simp [b2n]

end Pyunicorn.Net

namespace Pyunicorn.Net

/-! ### ordered tuples versus subsets for symmetric, irreflexive predicates -/

/-- symmetric and irreflexive binary predicate -/
structure Sym2 (p : Nat → Nat → Bool) : Prop where
  swap : ∀ y z, p y z = p z y
  irr : ∀ y, p y y = false

/-- ternary predicate invariant under all permutations, false on repeated arguments -/
structure Sym3 (t : Nat → Nat → Nat → Bool) : Prop where
  swap12 : ∀ x y z, t x y z = t y x z
  sym2 : ∀ x, Sym2 (t x)

structure Sym4 (q : Nat → Nat → Nat → Nat → Bool) : Prop where
  swap12 : ∀ x y z u, q x y z u = q y x z u
  sym3 : ∀ x, Sym3 (q x)

theorem Sym3.irr12 {t} (h : Sym3 t) (x z : Nat) : t x x z = false := by
  rw [(h.sym2 x).swap, h.swap12, (h.sym2 z).irr]

theorem Sym4.irr12 {q} (h : Sym4 q) (x z u : Nat) : q x x z u = false := by
  rw [(h.sym3 x).swap12, h.swap12, (h.sym3 z).irr12]

/-- ordered pairs = 2 × unordered pairs -/
theorem ordered2_eq (p : Nat → Nat → Bool) (h : Sym2 p) (l : List Nat) :
    sumL l (fun a => sumL l fun z => b2n (p a z)) = 2 * pairsP p l := by
  induction l with
  | nil => rfl
  | cons x u ih =>
    simp only [sumL_cons, sumL_add, pairsP, h.irr]
    rw [show (fun a => b2n (p a x)) = fun a => b2n (p x a) from by funext a; rw [h.swap]]
    rw [ih]
    have : b2n false = 0 := rfl
    omega

/-- (one element, 2-subset) pairs = 3 × 3-subsets -/
theorem elem_pairs_eq (t : Nat → Nat → Nat → Bool) (h : Sym3 t) (l : List Nat) :
    sumL l (fun a => pairsP (t a) l) = 3 * triplesP t l := by
  induction l with
  | nil => rfl
  | cons x u ih =>
    simp only [sumL_cons, sumL_add, pairsP, triplesP, ih, h.irr12]
    rw [show (fun a => sumL u fun z => b2n (t a x z)) = fun a => sumL u fun z => b2n (t x a z) from by
      funext a; congr 1; funext z; rw [h.swap12]]
    rw [ordered2_eq (t x) (h.sym2 x) u]
    have : b2n false = 0 := rfl
    simp only [this, sumL_zero]
    omega

/-- (one element, 3-subset) pairs = 4 × 4-subsets -/
theorem elem_triples_eq (q : Nat → Nat → Nat → Nat → Bool) (h : Sym4 q) (l : List Nat) :
    sumL l (fun a => triplesP (q a) l) = 4 * quadsP q l := by
  induction l with
  | nil => rfl
  | cons x u ih =>
    simp only [sumL_cons, sumL_add, triplesP, quadsP, ih]
    rw [show (fun a => pairsP (q a x) u) = fun a => pairsP (q x a) u from by
      funext a; congr 1; funext y z; rw [h.swap12]]
    rw [elem_pairs_eq (q x) (h.sym3 x) u]
    have : pairsP (q x x) u = 0 := by
      have hz : q x x = fun _ _ => false := by funext y z; exact h.irr12 x y z
      rw [hz]
      clear ih
      induction u with
      | nil => rfl
      | cons y v ihv => simp [pairsP, ihv, b2n, sumL_zero]
    omega

/-- ordered triples = 6 × 3-subsets -/
theorem ordered3_eq (t : Nat → Nat → Nat → Bool) (h : Sym3 t) (l : List Nat) :
    sumL l (fun a => sumL l fun b => sumL l fun c => b2n (t a b c)) = 6 * triplesP t l := by
  rw [show (fun a => sumL l fun b => sumL l fun c => b2n (t a b c)) = fun a => 2 * pairsP (t a) l from by
    funext a; exact ordered2_eq (t a) (h.sym2 a) l]
  rw [sumL_mul_left, elem_pairs_eq t h l]
  omega

/-- ordered quadruples = 24 × 4-subsets -/
theorem ordered4_eq (q : Nat → Nat → Nat → Nat → Bool) (h : Sym4 q) (l : List Nat) :
    sumL l (fun a => sumL l fun b => sumL l fun c => sumL l fun d => b2n (q a b c d))
      = 24 * quadsP q l := by
  rw [show (fun a => sumL l fun b => sumL l fun c => sumL l fun d => b2n (q a b c d))
      = fun a => 6 * triplesP (q a) l from by
    funext a; exact ordered3_eq (q a) (h.sym3 a) l]
  rw [sumL_mul_left, elem_triples_eq q h l]
  omega

end Pyunicorn.Net
