import Pyunicorn.Lemmas.NsiArenasReg
import Pyunicorn.Lemmas.NsiGJ2
import Pyunicorn.Lemmas.NsiCompConn
/-!
Round 5g: the grounded `sp_M` of `nsi_newman_betweenness` is regular on connected networks.

`sp_M = newmanM H` has entries `(k⋆_r if r = c else 0) − w_r · A⁺_{rc}` (`newmanM_eq`).  A kernel
vector `v` of the leading `(n−1) × (n−1)` block (`sp_M[:-1, :-1]`), extended by `0` at the grounded
node `n−1`, satisfies `k⋆_k v_k = w_k Σ_l A⁺_{kl} v_l` on every non-grounded row; so
`u_l = v_l / w_l` is *harmonic* there for the row-stochastic kernel `qRow` of round 5
(`u_k = Σ_m qRow k m · u_m`, `qRow k m = A⁺_{km} w_m / k⋆_k`).  Maximum principle: where `u` attains
a positive maximum the node is not the grounded one (`u = 0` there), the row equation hands the
maximum to all neighbours, and a walk to the grounded node carries it there — contradiction.  The
same for `−v`; hence `v = 0`.

With round 5f's `newmanWrapped_none_iff` and `subGr_comp_connected`: the modelled wrapper of
`nsi_newman_betweenness` returns an array on every undirected network with positive node weights.
-/
namespace Pyunicorn.Nsi
open Finset

/-- one step of the maximum principle for a `qRow`-harmonic row: a node carrying the maximum hands
it to all its neighbours -/
theorem harm_max_step (G : Gr) (hw : ∀ k, k < G.n → 0 < G.w k) (u : Nat → Rat) (M : Rat)
    (hle : ∀ s, s < G.n → u s ≤ M) (a : Nat) (ha : a < G.n)
    (hu : u a = ∑ m ∈ range G.n, qRow G a m * u m) (hua : u a = M) :
    ∀ b, b < G.n → G.adj a b = true → u b = M := by
  intro b hb hab
  have hsum := qRow_sum G hw a ha
  have hdiff : ∑ m ∈ range G.n, qRow G a m * (M - u m) = 0 := by
    have : ∑ m ∈ range G.n, qRow G a m * (M - u m)
        = M * ∑ m ∈ range G.n, qRow G a m - ∑ m ∈ range G.n, qRow G a m * u m := by
      rw [Finset.mul_sum, ← Finset.sum_sub_distrib]
      exact Finset.sum_congr rfl fun m _ => by ring
    rw [this, hsum, ← hu, hua]; ring
  have hterm : ∀ m ∈ range G.n, 0 ≤ qRow G a m * (M - u m) := fun m hm =>
    mul_nonneg (qRow_nonneg G hw a m ha (Finset.mem_range.mp hm))
      (by linarith [hle m (Finset.mem_range.mp hm)])
  have := (Finset.sum_eq_zero_iff_of_nonneg hterm).mp hdiff b (Finset.mem_range.mpr hb)
  rcases mul_eq_zero.mp this with h | h
  · exact absurd h (ne_of_gt (qRow_pos G hw a b ha hb hab))
  · linarith

/-- a vector on the non-grounded nodes `< N`, divided by the node weights and extended by `0` -/
def groundU (H : Gr) (N : Nat) (v : Nat → Rat) (l : Nat) : Rat := if l < N then v l / H.w l else 0

/-- a kernel row of the reduced `sp_M` says that `groundU` is `qRow`-harmonic at that row -/
theorem newman_row_harmonic (H : Gr) (hw : ∀ k, k < H.n → 0 < H.w k) (N : Nat) (hN : H.n = N + 1)
    (v : Nat → Rat) (k : Nat) (hk : k < N)
    (hrow : sumR N (fun l => newmanM H k l * v l) = 0) :
    groundU H N v k = ∑ m ∈ range H.n, qRow H k m * groundU H N v m := by
  have hk0 : kstar H k ≠ 0 := ne_of_gt (kstar_pos H hw k (by omega))
  have hwk : H.w k ≠ 0 := ne_of_gt (hw k (by omega))
  rw [hN, Finset.sum_range_succ]
  have e1 : ∀ m ∈ range N, qRow H k m * groundU H N v m
      = 1 / kstar H k * (aplus H k m * v m) := by
    intro m hm
    have hm' := Finset.mem_range.mp hm
    have hwm : H.w m ≠ 0 := ne_of_gt (hw m (by omega))
    unfold qRow nsiQ groundU
    rw [if_pos hm']
    field_simp
  rw [Finset.sum_congr rfl e1, ← Finset.mul_sum]
  rw [sumR_eq_finset] at hrow
  have e2 : ∀ l ∈ range N, newmanM H k l * v l
      = (if k = l then kstar H k * v l else 0) - H.w k * (aplus H k l * v l) := by
    intro l hl
    have hl' := Finset.mem_range.mp hl
    rw [newmanM_eq H k l hwk (ne_of_gt (hw l (by omega)))]
    split_ifs <;> ring
  rw [Finset.sum_congr rfl e2, Finset.sum_sub_distrib, Finset.sum_ite_eq (range N) k,
    if_pos (Finset.mem_range.mpr hk), ← Finset.mul_sum] at hrow
  have hS : ∑ l ∈ range N, aplus H k l * v l = kstar H k * v k / H.w k := by
    field_simp
    linarith
  unfold groundU
  rw [if_pos hk, if_neg (lt_irrefl N), hS]
  field_simp
  ring

/-- along a walk the positive maximum of a grounded harmonic vector propagates -/
theorem newman_max_walk (H : Gr) (hw : ∀ k, k < H.n → 0 < H.w k) (N : Nat) (hN : H.n = N + 1)
    (v : Nat → Rat) (hker : ∀ k, k < N → sumR N (fun l => newmanM H k l * v l) = 0)
    (M : Rat) (hM : 0 < M) (hle : ∀ s, s < H.n → groundU H N v s ≤ M)
    {a b k : Nat} (wk : Walk H a b k) (hua : groundU H N v a = M) : groundU H N v b = M := by
  induction wk with
  | nil a ha => exact hua
  | cons a b c k ha hab w ih =>
    have haN : a < N := by
      by_contra hcon
      unfold groundU at hua
      rw [if_neg hcon] at hua
      linarith
    exact ih (harm_max_step H hw _ M hle a ha
      (newman_row_harmonic H hw N hN v a haN (hker a haN)) hua b w.start_lt hab)

/-- a kernel vector of the reduced `sp_M` is nowhere positive -/
theorem newman_ker_nonpos (H : Gr) (hw : ∀ k, k < H.n → 0 < H.w k) (hconn : Connected H)
    (N : Nat) (hN : H.n = N + 1) (v : Nat → Rat)
    (hker : ∀ k, k < N → sumR N (fun l => newmanM H k l * v l) = 0) :
    ∀ s, s < N → v s ≤ 0 := by
  intro s0 hs0
  by_contra hcon
  have hpos : 0 < v s0 := not_le.mp hcon
  have hs0n : s0 < H.n := by omega
  have hupos : 0 < groundU H N v s0 := by
    unfold groundU
    rw [if_pos hs0]
    exact div_pos hpos (hw s0 hs0n)
  obtain ⟨s, hs, hmax⟩ := Finset.exists_max_image (range H.n) (groundU H N v)
    ⟨s0, Finset.mem_range.mpr hs0n⟩
  have hs' := Finset.mem_range.mp hs
  have hM : 0 < groundU H N v s := lt_of_lt_of_le hupos (hmax s0 (Finset.mem_range.mpr hs0n))
  have hle : ∀ t, t < H.n → groundU H N v t ≤ groundU H N v s :=
    fun t ht => hmax t (Finset.mem_range.mpr ht)
  obtain ⟨k, wk⟩ := hconn s N hs' (by omega)
  have huN := newman_max_walk H hw N hN v hker _ hM hle wk rfl
  have : groundU H N v N = 0 := by unfold groundU; rw [if_neg (lt_irrefl N)]
  rw [this] at huN
  linarith

/-- **`sp_M[:-1, :-1]` of a connected network with positive node weights is regular**: the leading
`(n−1) × (n−1)` block of `newmanM H` has only the zero kernel vector -/
theorem newman_grounded_regular (H : Gr) (hw : ∀ k, k < H.n → 0 < H.w k) (hconn : Connected H) :
    ¬ SingularBlock (H.n - 1) (newmanM H) := by
  rintro ⟨v, ⟨l, hl, hne⟩, hker⟩
  obtain ⟨N, hN⟩ : ∃ N, H.n = N + 1 := ⟨H.n - 1, by omega⟩
  have hN' : H.n - 1 = N := by omega
  rw [hN'] at hl hker
  have h1 := newman_ker_nonpos H hw hconn N hN v hker l hl
  have hneg : ∀ k, k < N → sumR N (fun l => newmanM H k l * (fun j => - v j) l) = 0 := by
    intro k hk
    have := hker k hk
    rw [sumR_eq_finset] at this ⊢
    have e : ∑ l ∈ range N, newmanM H k l * (fun j => - v j) l
        = - ∑ l ∈ range N, newmanM H k l * v l := by
      rw [← Finset.sum_neg_distrib]
      exact Finset.sum_congr rfl fun m _ => by ring
    rw [e, this, neg_zero]
  have h2 := newman_ker_nonpos H hw hconn N hN (fun j => - v j) hneg l hl
  exact hne (by linarith)

/-- the model's grounded inverse exists on every connected network with positive weights -/
theorem newmanT_isSome (H : Gr) (hw : ∀ k, k < H.n → 0 < H.w k) (hconn : Connected H) :
    (newmanT H).isSome = true := by
  have := mt (newmanT_none_iff H).mp (newman_grounded_regular H hw hconn)
  cases h : newmanT H with
  | none => exact absurd h this
  | some T => rfl

/-- **the modelled wrapper of `nsi_newman_betweenness` always returns an array** on undirected
networks with positive node weights -/
theorem newmanWrapped_ne_none (G : Gr) (hsym : ∀ i j, G.adj i j = G.adj j i)
    (hw : ∀ k, k < G.n → 0 < G.w k) (ends : Bool) : newmanWrapped G ends ≠ none := by
  intro h
  obtain ⟨c, hc, _, hs⟩ := (newmanWrapped_none_iff G ends).mp h
  obtain ⟨a, ha, e, _⟩ := (mem_compList G c).mp hc
  subst e
  exact newman_grounded_regular _
    (subGr_weights_pos G _ (fun x hx => compNodes_lt _ _ x hx) hw)
    (subGr_comp_connected G hsym a ha) hs

end Pyunicorn.Nsi
