import Pyunicorn.Lemmas.NetBetwSpec
/-!
Round 5: interface between the two halves of the forward-phase proof of `_nsi_betweenness`
(core Lean only).

* `kpred` — the predecessor test the kernel performs, read off its own `distances_to_j` array;
* `slice` — `flat_predecessors[o : o + c]`;
* `FwdFinal` — what the loop invariant of `forward` gives when the queue is exhausted, stated purely in
  terms of the kernel's arrays (no reference to the true distance).  `Lemmas/NetBetwFwd.lean` proves it
  of the kernel model, `Lemmas/NetBetwFwdOK.lean` derives `FwdOK` (true distances, `σ`, predecessor
  lists of the definition) from it.
-/
namespace Pyunicorn.NetBetw
open Pyunicorn.Net

/-- `i` was recorded as a predecessor of `l`: linked, and one BFS level closer in `distances_to_j` -/
def kpred (a : Adj) (dist : List Nat) (i l : Nat) : Bool :=
  a i l && (dist.getD i 0 + 1 == dist.getD l 0)

/-- `fp[o : o + c]` -/
def slice (fp : List Nat) (o c : Nat) : List Nat := (fp.drop o).take c

/-- the state of the kernel's arrays when `while qi < queue_len` ends -/
structure FwdFinal (n : Nat) (a : Adj) (w : Nat → Rat) (j : Nat) (offsets : List Nat) (s : Fwd) :
    Prop where
  queue_nodup : s.queue.Nodup
  queue_lt : ∀ v, v ∈ s.queue → v < n
  queue_head : s.queue.head? = some j
  dist_root : s.dist.getD j 0 = 0
  dist_unvisited : ∀ v, v < n → v ∉ s.queue → s.dist.getD v 0 = 2 * n
  queue_sorted : s.queue.Pairwise fun x y => s.dist.getD x 0 ≤ s.dist.getD y 0
  /-- every visited node other than `j` was discovered from a visited node one level closer -/
  parent : ∀ v, v ∈ s.queue → v ≠ j →
    ∃ u, u ∈ s.queue ∧ a u v = true ∧ s.dist.getD v 0 = s.dist.getD u 0 + 1
  /-- every neighbour of a visited node is visited, at most one level further -/
  closed : ∀ u, u ∈ s.queue → ∀ v, v < n → a u v = true →
    v ∈ s.queue ∧ s.dist.getD v 0 ≤ s.dist.getD u 0 + 1
  mult_len : s.mult.length = n
  mult_root : s.mult.getD j 0 = w j
  /-- `multiplicity_to_j[l] = w[l] * Σ_{i recorded predecessor of l} multiplicity_to_j[i]` -/
  mult_rec : ∀ l, l < n → l ≠ j →
    s.mult.getD l 0
      = w l * ((s.queue.filter fun i => kpred a s.dist i l).map fun i => s.mult.getD i 0).sum
  /-- the slice of `flat_predecessors` of `l` lists the recorded predecessors in queue order -/
  preds : ∀ l, l < n →
    slice s.fpred (offsets.getD l 0) (s.npred.getD l 0) = s.queue.filter fun i => kpred a s.dist i l

end Pyunicorn.NetBetw
