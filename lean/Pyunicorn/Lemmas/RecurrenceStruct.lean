import Pyunicorn.Model.RecurrenceStruct
/-!
Round 4 (C07): the derived outcomes (`Model/RecurrenceStruct.lean`, programs regenerated from the
method bodies by `translate/gen_C07.py`) agree with the `outcome` table — evaluated by the kernel
class by class (the claim is finite: 161 (class, method) pairs × 64 switch settings).
-/
namespace Pyunicorn.Recurrence
open Pyunicorn.Generated

def agreesOn (cls : String) : Bool :=
  (StructC07.publicMethods.filter (·.1 == cls)).all derivedAgrees

theorem agrees_rp : agreesOn "RecurrencePlot" = true := by decide +kernel
theorem agrees_crp : agreesOn "CrossRecurrencePlot" = true := by decide +kernel
theorem agrees_jrp : agreesOn "JointRecurrencePlot" = true := by decide +kernel
theorem agrees_rn : agreesOn "RecurrenceNetwork" = true := by decide +kernel
theorem agrees_jrn : agreesOn "JointRecurrenceNetwork" = true := by decide +kernel
theorem agrees_isrn : agreesOn "InterSystemRecurrenceNetwork" = true := by decide +kernel

/-- every generated (class, method) pair names one of the six classes -/
theorem public_cls_known :
    StructC07.publicMethods.all (fun p => (clsOfName p.1).isSome) = true := by decide +kernel

theorem mem_allAtoms (a : Atoms) : a ∈ allAtoms := by
  obtain ⟨s, su, th, mv, d, t⟩ := a
  cases s <;> cases su <;> cases th <;> cases mv <;> cases d <;> cases t <;> decide

theorem clsOfName_inv (cls : String) (c : Cls) (h : clsOfName cls = some c) :
    cls = "RecurrencePlot" ∨ cls = "CrossRecurrencePlot" ∨ cls = "JointRecurrencePlot" ∨
    cls = "RecurrenceNetwork" ∨ cls = "JointRecurrenceNetwork" ∨
    cls = "InterSystemRecurrenceNetwork" := by
  unfold clsOfName at h
  split at h <;> simp_all

theorem derivedAgrees_of_mem (p : String × String) (hp : p ∈ StructC07.publicMethods) :
    derivedAgrees p = true := by
  have hk := List.all_eq_true.mp public_cls_known p hp
  obtain ⟨c, hc⟩ := Option.isSome_iff_exists.mp hk
  have hin : ∀ k, p.1 = k → agreesOn k = true → derivedAgrees p = true := by
    intro k hk' hag
    refine List.all_eq_true.mp hag p (List.mem_filter.mpr ⟨hp, ?_⟩)
    simp [hk']
  rcases clsOfName_inv p.1 c hc with h | h | h | h | h | h
  · exact hin _ h agrees_rp
  · exact hin _ h agrees_crp
  · exact hin _ h agrees_jrp
  · exact hin _ h agrees_rn
  · exact hin _ h agrees_jrn
  · exact hin _ h agrees_isrn

/-- which construction provides which stored matrix, as derived from the constructors and
setters of the current source -/
theorem provides_table (a : Atoms) :
    provides 4 "RecurrencePlot" false a "R" = !a.sparse
    ∧ provides 4 "RecurrenceNetwork" false a "R" = !a.sparse
    ∧ provides 4 "CrossRecurrencePlot" false a "CR" = true
    ∧ provides 4 "CrossRecurrencePlot" false a "R" = false
    ∧ provides 4 "JointRecurrencePlot" false a "JR" = true
    ∧ provides 4 "JointRecurrenceNetwork" false a "JR" = true := by
  have := mem_allAtoms a
  revert a
  decide +kernel

end Pyunicorn.Recurrence
