import Pyunicorn.Lemmas.MpiProto
/-! Termination of schedules of the protocol model of `utils/mpi.py` (round 5, core Lean
only): every executed step strictly decreases `measure`; fair schedules reach a state in
which no rank can move. -/
namespace Pyunicorn.MpiProto
open Pyunicorn.Mpi (lookup)

variable {α β : Type}

/-! ### sums over the ranks -/

theorem sumTo_updN (a : Nat → Nat) (k x n : Nat) :
    sumTo (fun s => if s = k then x else a s) n + (if k < n then a k else 0) =
      sumTo a n + (if k < n then x else 0) := by
  induction n with
  | zero => simp [sumTo]
  | succ n ih =>
    simp only [sumTo]
    by_cases h1 : n = k
    · subst h1
      simp at ih ⊢
      omega
    · by_cases h2 : k < n
      · have h3 : k < n + 1 := by omega
        simp [h1, h2, h3] at ih ⊢
        omega
      · have h3 : ¬ k < n + 1 := by omega
        simp [h1, h2, h3] at ih ⊢
        omega

theorem sumTo_upd {γ : Type} (g : Nat → List γ) (k : Nat) (v : List γ) (n : Nat) :
    sumTo (fun s => (upd g k v s).length) n + (if k < n then (g k).length else 0) =
      sumTo (fun s => (g s).length) n + (if k < n then v.length else 0) := by
  have : (fun s => (upd g k v s).length) = fun s => if s = k then v.length else (g s).length := by
    funext s
    unfold upd
    split <;> rfl
  rw [this]
  exact sumTo_updN (fun s => (g s).length) k v.length n

theorem sumTo_term {γ : Type} (g : Nat → List γ) (m : γ) (size n : Nat) :
    sumTo (fun s => (if 1 ≤ s ∧ s < size then g s ++ [m] else g s).length) n ≤
      sumTo (fun s => (g s).length) n + (n - 1) := by
  induction n with
  | zero => simp [sumTo]
  | succ n ih =>
    simp only [sumTo]
    split
    · rename_i h
      simp only [List.length_append, List.length_cons, List.length_nil]
      omega
    · rename_i h
      omega

/-! ### every executed step strictly decreases the measure -/

theorem measure_le (st : State α β) :
    measure st ≤ 2 * st.prog.length + st.size + 1 + inboxTotal st := by
  unfold measure; split <;> omega

theorem measure_live (st : State α β) (hg : ¬ (st.finished = true ∨ st.err.isSome = true)) :
    measure st = 2 * st.prog.length + st.size + 1 + inboxTotal st := by
  unfold measure; rw [if_neg hg]

theorem measure_dead (st : State α β) (hg : st.finished = true ∨ st.err.isSome = true) :
    measure st = inboxTotal st := by
  unfold measure; rw [if_pos hg]; omega

/-- a master step that goes on: the program gets shorter, at most one message is added -/
theorem lt_of_live (st st' : State α β) (hg : ¬ (st.finished = true ∨ st.err.isSome = true))
    (hsize : st'.size = st.size)
    (h : 2 * st'.prog.length + inboxTotal st' < 2 * st.prog.length + inboxTotal st) :
    measure st' < measure st := by
  have := measure_le st'
  rw [measure_live st hg]
  omega

/-- a master step that ends the master (`terminate()` or an exception) -/
theorem lt_of_dead (st st' : State α β) (hg : ¬ (st.finished = true ∨ st.err.isSome = true))
    (hd : st'.finished = true ∨ st'.err.isSome = true)
    (h : inboxTotal st' < inboxTotal st + st.size + 1) :
    measure st' < measure st := by
  rw [measure_live st hg, measure_dead st' hd]
  omega

/-- a slave step: one message leaves a channel -/
theorem lt_of_slave (st st' : State α β) (h1 : st'.finished = st.finished) (h2 : st'.err = st.err)
    (h3 : st'.prog = st.prog) (h4 : st'.size = st.size) (h : inboxTotal st' < inboxTotal st) :
    measure st' < measure st := by
  unfold measure
  rw [h1, h2, h3, h4]
  omega

theorem measure_fail (st : State α β) (e : Err)
    (hg : ¬ (st.finished = true ∨ st.err.isSome = true)) :
    measure (doFail st e) < measure st :=
  lt_of_dead st _ hg (Or.inr rfl) (by show inboxTotal st < _; omega)

theorem measure_getStep (st st' : State α β) (id : Nat) (rest : List (Op α))
    (hg : ¬ (st.finished = true ∨ st.err.isSome = true)) (hn : st.prog.length = rest.length + 1)
    (h : getStep st id rest = some st') : measure st' < measure st := by
  unfold getStep at h
  split at h
  · cases h; exact measure_fail st _ hg
  · split at h
    · split at h
      · cases h; exact measure_fail st _ hg
      · split at h
        · cases h; exact measure_fail st _ hg
        · split at h
          · cases h
          · cases h
            refine lt_of_live st _ hg rfl ?_
            show 2 * rest.length + inboxTotal st < _
            omega
    · split at h
      · cases h; exact measure_fail st _ hg
      · cases h
        refine lt_of_live st _ hg rfl ?_
        show 2 * rest.length + inboxTotal st < _
        omega

theorem measure_step_lt (f : α → β) (st st' : State α β) (c : Nat)
    (h : step f st c = some st') : measure st' < measure st := by
  unfold step at h
  split at h
  · unfold masterStep at h
    split at h
    · cases h
    · rename_i hg
      split at h
      · -- terminate
        cases h
        refine lt_of_dead st _ hg (Or.inl rfl) ?_
        show sumTo (fun s => ((if st.available then
            fun s => if 1 ≤ s ∧ s < st.size then st.inbox s ++ [Msg.terminate] else st.inbox s
          else st.inbox) s).length) st.size < inboxTotal st + st.size + 1
        unfold inboxTotal
        cases hav : st.available with
        | false => simp only [Bool.false_eq_true, if_false]; omega
        | true =>
          simp only [if_true]
          have := sumTo_term st.inbox Msg.terminate st.size st.size
          omega
      · rename_i id p e sl rest hp
        split at h
        · cases h; exact measure_fail st _ hg
        · split at h
          · cases h
            refine lt_of_live st _ hg rfl ?_
            have := sumTo_upd st.inbox (chooseSlave st sl)
              (st.inbox (chooseSlave st sl) ++ [Msg.call p e]) st.size
            simp only [List.length_append, List.length_cons, List.length_nil] at this
            show 2 * rest.length + sumTo (fun s => (upd st.inbox (chooseSlave st sl)
              (st.inbox (chooseSlave st sl) ++ [Msg.call p e]) s).length) st.size < _
            rw [hp]
            unfold inboxTotal
            simp only [List.length_cons]
            split at this <;> omega
          · cases h
            refine lt_of_live st _ hg rfl ?_
            show 2 * rest.length + inboxTotal st < _
            rw [hp]; simp only [List.length_cons]; omega
      · rename_i id rest hp
        exact measure_getStep st st' id rest hg (by simp [hp]) h
      · rename_i rest hp
        split at h
        · cases h
          refine lt_of_live st _ hg rfl ?_
          show 2 * rest.length + inboxTotal st < _
          rw [hp]; simp only [List.length_cons]; omega
        · exact measure_getStep st st' _ rest hg (by simp [hp]) h
  · unfold slaveStep at h
    split at h
    · cases h
    · rename_i hs
      have hs1 : c < st.size := by omega
      split at h
      · cases h
      · rename_i ms hin
        cases h
        refine lt_of_slave st _ rfl rfl rfl rfl ?_
        have := sumTo_upd st.inbox c ms st.size
        simp only [hs1, if_true, hin, List.length_cons] at this
        show sumTo (fun s => (upd st.inbox c ms s).length) st.size < inboxTotal st
        unfold inboxTotal
        omega
      · rename_i p e ms hin
        cases h
        refine lt_of_slave st _ rfl rfl rfl rfl ?_
        have := sumTo_upd st.inbox c ms st.size
        simp only [hs1, if_true, hin, List.length_cons] at this
        show sumTo (fun s => (upd st.inbox c ms s).length) st.size < inboxTotal st
        unfold inboxTotal
        omega

/-- executed steps + what can still be executed ≤ what could be executed at the start -/
theorem executed_add_measure (f : α → β) (cs : List Nat) (st : State α β) :
    (runSched f st cs).2 ≤ cs.length ∧
    executed f st cs + measure (run f st cs) ≤ measure st := by
  unfold executed run
  induction cs generalizing st with
  | nil => simp [runSched]
  | cons c t ih =>
    simp only [runSched]
    split
    · have := ih st
      simp only [List.length_cons]
      omega
    · rename_i st' hst
      have := ih st'
      have hlt := measure_step_lt f st st' c hst
      simp only [List.length_cons]
      omega

theorem measure_init (size : Nat) (prog : List (Op α)) :
    measure (init (β := β) size prog) = 2 * prog.length + size + 1 := by
  have : ∀ n, sumTo (fun _ => 0) n = 0 := by
    intro n; induction n with
    | zero => rfl
    | succ n ih => simp [sumTo, ih]
  simp [measure, init, inboxTotal, this]

/-! ### fair schedules reach a quiescent state -/

theorem run_append (f : α → β) (st : State α β) (a b : List Nat) :
    run f st (a ++ b) = run f (run f st a) b := by
  unfold run
  induction a generalizing st with
  | nil => simp [runSched]
  | cons c t ih =>
    simp only [List.cons_append, runSched]
    split
    · exact ih st
    · rename_i st' _; exact ih st'

theorem run_quiescent (f : α → β) (st : State α β) (hq : quiescent f st) (cs : List Nat) :
    run f st cs = st := by
  unfold run
  induction cs with
  | nil => rfl
  | cons c t ih => simp only [runSched, hq c]; exact ih

theorem measure_run_le (f : α → β) (st : State α β) (cs : List Nat) :
    measure (run f st cs) ≤ measure st := by
  have := (executed_add_measure f cs st).2
  omega

/-- a block of ranks either executes a step (the measure drops) or none of its ranks can
move (and the state is unchanged) -/
theorem run_block (f : α → β) (st : State α β) (b : List Nat) :
    measure (run f st b) < measure st ∨ (run f st b = st ∧ ∀ c ∈ b, step f st c = none) := by
  induction b with
  | nil => right; exact ⟨rfl, by simp⟩
  | cons c t ih =>
    cases hst : step f st c with
    | none =>
      have hr : run f st (c :: t) = run f st t := by simp [run, runSched, hst]
      rw [hr]
      rcases ih with h | ⟨h1, h2⟩
      · left; exact h
      · right
        refine ⟨h1, ?_⟩
        intro c' hc'
        rcases List.mem_cons.mp hc' with e | e
        · rw [e]; exact hst
        · exact h2 c' e
    | some st' =>
      left
      have hr : run f st (c :: t) = run f st' t := by simp [run, runSched, hst]
      rw [hr]
      have := measure_step_lt f st st' c hst
      have := measure_run_le f st' t
      omega

/-- ranks outside the world (and not the master) never move -/
theorem step_outside (f : α → β) (st : State α β) (c : Nat) (h0 : c ≠ 0) (hc : st.size ≤ c) :
    step f st c = none := by
  simp [step, h0, slaveStep, hc]

theorem size_step (f : α → β) (st st' : State α β) (c : Nat) (h : step f st c = some st') :
    st'.size = st.size := by
  unfold step at h
  split at h
  · unfold masterStep at h
    split at h
    · cases h
    · split at h
      · cases h; rfl
      · split at h
        · cases h; rfl
        · split at h <;> (cases h; rfl)
      · unfold getStep at h
        repeat' split at h
        all_goals first | (cases h; rfl) | cases h
      · split at h
        · cases h; rfl
        · unfold getStep at h
          repeat' split at h
          all_goals first | (cases h; rfl) | cases h
  · unfold slaveStep at h
    repeat' split at h
    all_goals first | (cases h; rfl) | cases h

theorem size_run (f : α → β) (st : State α β) (cs : List Nat) : (run f st cs).size = st.size := by
  unfold run
  induction cs generalizing st with
  | nil => rfl
  | cons c t ih =>
    simp only [runSched]
    split
    · exact ih st
    · rename_i st' hst
      rw [ih st', size_step f st st' c hst]

/-- a block is *fair* for a world of `size` ranks if the master and every slave occur -/
def fairBlock (size : Nat) (b : List Nat) : Prop := 0 ∈ b ∧ ∀ c, c < size → c ∈ b

/-- **fair schedules reach quiescence**: a schedule made of at least `measure st` fair
blocks ends in a state in which no rank can move -/
theorem fair_quiescent (f : α → β) (bs : List (List Nat)) (st : State α β)
    (hfair : ∀ b ∈ bs, fairBlock st.size b) (hlen : measure st ≤ bs.length) :
    quiescent f (run f st bs.flatten) := by
  induction bs generalizing st with
  | nil =>
    -- measure 0 is impossible for a non-finished state; a measure-0 state is quiescent
    intro c
    cases hst : step f (run f st ([] : List (List Nat)).flatten) c with
    | none => rfl
    | some st' =>
      have := measure_step_lt f _ st' c hst
      have h2 := measure_run_le f st ([] : List (List Nat)).flatten
      simp at hlen
      omega
  | cons b t ih =>
    simp only [List.flatten_cons, run_append]
    have hb := hfair b (by simp)
    rcases run_block f st b with hlt | ⟨heq, hnone⟩
    · apply ih
      · intro b' hb'
        rw [size_run]
        exact hfair b' (by simp [hb'])
      · simp only [List.length_cons] at hlen
        omega
    · have hq : quiescent f st := by
        intro c
        by_cases h0 : c = 0
        · subst h0; exact hnone 0 hb.1
        · by_cases hc : c < st.size
          · exact hnone c (hb.2 c hc)
          · exact step_outside f st c h0 (by omega)
      rw [heq, run_quiescent f st hq]
      exact hq

/-! ### a quiescent state is a completed (or failed) run; all slaves have left `serve()` -/

theorem quiescent_done (f : α → β) (prog0 : List (Op α)) (st : State α β) (h : Inv f prog0 st)
    (hq : quiescent f st) : st.finished = true ∨ st.err.isSome = true := by
  cases hfin : st.finished with
  | true => left; rfl
  | false =>
    cases herr : st.err with
    | some e => right; rfl
    | none =>
      obtain ⟨c, hc⟩ := progress f prog0 st h hfin herr
      rw [hq c] at hc
      cases hc

/-- single-process mode: the master never blocks -/
theorem quiescent_done_serial (f : α → β) (prog0 : List (Op α)) (st : State α β)
    (h : SInv f prog0 st) (hq : quiescent f st) :
    st.finished = true ∨ st.err.isSome = true := by
  have h0 := hq 0
  simp only [step, if_true] at h0
  unfold masterStep at h0
  split at h0
  · assumption
  · have hav := h.avail
    unfold getStep at h0
    rw [hav] at h0
    repeat' split at h0
    all_goals first | contradiction | cases h0

/-- once `run()` has returned on the master, every slave still inside `serve()` has the
terminate tuple as the last message of its channel -/
def TInv (st : State α β) : Prop :=
  st.finished = true → ∀ s, 1 ≤ s → s < st.size → st.alive s = true →
    ∃ ms, st.inbox s = ms ++ [Msg.terminate]

theorem masterStep_finished (f : α → β) (st st' : State α β) (h : masterStep f st = some st') :
    st.finished = false ∧ (st'.finished = false ∨ st' = doTerminate st) := by
  unfold masterStep at h
  split at h
  · cases h
  · rename_i hg
    have hf : st.finished = false := by
      cases hfin : st.finished with
      | false => rfl
      | true => exact absurd (Or.inl hfin) hg
    refine ⟨hf, ?_⟩
    unfold getStep at h
    repeat' split at h
    all_goals first | (cases h; right; rfl) | (cases h; left; exact hf) | cases h

theorem tinv_init (size : Nat) (prog : List (Op α)) : TInv (init (β := β) size prog) := by
  intro h; simp [init] at h

theorem tinv_step (f : α → β) (prog0 : List (Op α)) (st st' : State α β) (c : Nat)
    (h : Inv f prog0 st) (ht : TInv st) (hstep : step f st c = some st') : TInv st' := by
  unfold step at hstep
  split at hstep
  · obtain ⟨hf, hcase⟩ := masterStep_finished f st st' hstep
    rcases hcase with h1 | h1
    · intro hfin; rw [h1] at hfin; cases hfin
    · subst h1
      intro _ s hs1 hs2 _
      have hav : st.available = true := by rw [h.avail, hf]; rfl
      refine ⟨st.inbox s, ?_⟩
      show (if st.available then
          fun s => if 1 ≤ s ∧ s < st.size then st.inbox s ++ [Msg.terminate] else st.inbox s
        else st.inbox) s = _
      rw [hav]
      simp only [if_true]
      rw [if_pos ⟨hs1, hs2⟩]
  · unfold slaveStep at hstep
    split at hstep
    · cases hstep
    · split at hstep
      · cases hstep
      · rename_i ms hin
        cases hstep
        intro hfin s hs1 hs2 hal
        have hne : s ≠ c := by
          intro e; subst e
          simp [doStop] at hal
        have hal' : st.alive s = true := by
          simpa [doStop, upd, hne] using hal
        obtain ⟨ms', hms'⟩ := ht hfin s hs1 hs2 hal'
        exact ⟨ms', by simpa [doStop, upd, hne] using hms'⟩
      · rename_i p e ms hin
        cases hstep
        intro hfin s hs1 hs2 hal
        have hal' : st.alive s = true := hal
        obtain ⟨ms', hms'⟩ := ht hfin s hs1 hs2 hal'
        by_cases hsc : s = c
        · subst hsc
          rw [hin] at hms'
          cases ms' with
          | nil => simp at hms'
          | cons x t =>
            simp only [List.cons_append, List.cons.injEq] at hms'
            exact ⟨t, by simp [doCall, upd, hms'.2]⟩
        · exact ⟨ms', by simpa [doCall, upd, hsc] using hms'⟩

theorem tinv_run (f : α → β) (prog0 : List (Op α)) (cs : List Nat) (st : State α β)
    (h : Inv f prog0 st) (ht : TInv st) : TInv (run f st cs) := by
  unfold run
  induction cs generalizing st with
  | nil => simpa [runSched] using ht
  | cons c t ih =>
    simp only [runSched]
    split
    · exact ih st h ht
    · rename_i st' hst
      exact ih st' (inv_step f prog0 st st' c h hst) (tinv_step f prog0 st st' c h ht hst)

/-- in a quiescent state after `run()` returned, no slave is inside `serve()` any more -/
theorem quiescent_slaves_stopped (f : α → β) (st : State α β) (ht : TInv st)
    (hq : quiescent f st) (hfin : st.finished = true) (s : Nat) (hs1 : 1 ≤ s) (hs2 : s < st.size) :
    st.alive s = false := by
  cases hal : st.alive s with
  | false => rfl
  | true =>
    obtain ⟨ms, hms⟩ := ht hfin s hs1 hs2 hal
    have := hq s
    have h0 : s ≠ 0 := by omega
    simp only [step, if_neg h0] at this
    unfold slaveStep at this
    have hg : ¬ (s < 1 ∨ st.size ≤ s ∨ st.alive s = false) := by rw [hal]; simp; omega
    rw [if_neg hg, hms] at this
    cases ms with
    | nil => simp at this
    | cons x t => cases x <;> simp at this

end Pyunicorn.MpiProto
