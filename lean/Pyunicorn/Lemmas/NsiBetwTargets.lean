import Pyunicorn.Lemmas.NsiBetwKernel
import Pyunicorn.Lemmas.NsiCompConn
import Pyunicorn.Lemmas.NsiEig
import Pyunicorn.Lemmas.RelabelBetw5b
/-!
Round 5d: the C02-form kernel theorem of `_nsi_betweenness` for **arbitrary duplicate-free target
lists** (any order), from C04's `Relabel.nsiBetweenness_targets_perm` (the kernel model does not
depend on the order of the target list) and `kernel_eq_nsiBetw_bfs` (increasing list of a set).
-/
namespace Pyunicorn.Nsi
open Pyunicorn.NetBetw

/-- a duplicate-free list of nodes is a rearrangement of the increasing list of its set -/
theorem nodup_perm_filter (N : Nat) (L : List Nat) (hnd : L.Nodup) (hL : ∀ k ∈ L, k < N) :
    L.Perm ((List.range N).filter fun k => decide (k ∈ L)) := by
  apply (List.perm_ext_iff_of_nodup hnd (List.Nodup.filter _ List.nodup_range)).mpr
  intro k
  simp only [List.mem_filter, List.mem_range, decide_eq_true_eq]
  exact ⟨fun h => ⟨hL k h, h⟩, fun h => h.2⟩

/-- the kernel model with any duplicate-free target list = the definition with the list's set -/
theorem kernel_eq_nsiBetw_list (G : Gr) (hsym : ∀ x y, G.adj x y = G.adj y x)
    (hw : ∀ k, k < G.n → 0 < G.w k) (S : Nat → Bool) (L : List Nat) (hnd : L.Nodup)
    (hL : ∀ k ∈ L, k < G.n) (v : Nat) (hv : v < G.n) :
    (nsiBetweenness G.n G.adj G.w ((List.range G.n).map S) L).getD v 0
      = nsiBetw (withBfs G) (fun k => decide (k ∈ L)) S v := by
  rw [Relabel.nsiBetweenness_targets_perm G.adj hsym G.w hw _ (nodup_perm_filter G.n L hnd hL) hL]
  exact kernel_eq_nsiBetw_bfs G hsym hw S _ v hv

/-- a duplicate-free target list of the split network that contains a node iff the given list
contains its collapse is a rearrangement of the pulled-back increasing list -/
theorem split_targets_perm (N v : Nat) (L L' : List Nat) (hnd' : L'.Nodup)
    (hL' : ∀ k ∈ L', k < N + 1) (hmem : ∀ k, k < N + 1 → (k ∈ L' ↔ collapse N v k ∈ L)) :
    L'.Perm ((List.range (N + 1)).filter fun k => decide (collapse N v k ∈ L)) := by
  apply (List.perm_ext_iff_of_nodup hnd' (List.Nodup.filter _ List.nodup_range)).mpr
  intro k
  simp only [List.mem_filter, List.mem_range, decide_eq_true_eq]
  exact ⟨fun h => ⟨hL' k h, (hmem k (hL' k h)).mp h⟩, fun h => (hmem k h.1).mpr h.2⟩

end Pyunicorn.Nsi
