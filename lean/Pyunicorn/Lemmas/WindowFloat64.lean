import Pyunicorn.Lemmas.WindowFloat
import Pyunicorn.Lemmas.WindowIeee
/-! Round 5: IEEE binary64 round-to-nearest-even **is** an instance of the standard model of
floating-point arithmetic used by `Lemmas/WindowFloat` (`FlArith 2⁻⁵³ 2⁻⁵³`), and the float
computation of `phase_mean()` / `anomaly()` as NumPy executes it on a C-ordered float64 block
(`flColSum`, `flColMean`, `flPhaseMeanLoop`, `flAnomalyOf` of `Model/Window`) is the evaluation of
the summation tree `SumTree.seq` in that arithmetic.  Hence the abstract bounds of round 4 become
statements about the concrete binary64 computation. -/
namespace Pyunicorn.Window
open Pyunicorn.Similarity

/-- unit roundoff of binary64 -/
def u64 : ℚ := 1 / 2 ^ 53

theorem u64_nonneg : 0 ≤ u64 := by unfold u64; positivity

/-- **one rounding, either sign**: `|rn64 x − x| ≤ 2⁻⁵³ |x|` -/
theorem rn64_err (x : ℚ) : |rn64 x - x| ≤ u64 * |x| := by
  unfold rn64 u64
  split
  · rename_i h
    have hx : 0 ≤ -x := by linarith
    have h1 := rn53_err (-x) hx
    rw [abs_of_neg h]
    have e : -rn53 (-x) - x = -(rn53 (-x) - -x) := by ring
    rw [e, abs_neg]
    calc |rn53 (-x) - -x| ≤ -x / 2 ^ 53 := h1
      _ = 1 / 2 ^ 53 * -x := by ring
  · rename_i h
    have hx : 0 ≤ x := not_lt.1 h
    have h1 := rn53_err x hx
    rw [abs_of_nonneg hx]
    calc |rn53 x - x| ≤ x / 2 ^ 53 := h1
      _ = 1 / 2 ^ 53 * x := by ring

/-- rounding is odd: `rn64 (−x) = −rn64 x` (round-to-nearest-even is sign-symmetric) -/
theorem rn64_neg (x : ℚ) : rn64 (-x) = -rn64 x := by
  unfold rn64
  rcases lt_trichotomy x 0 with h | h | h
  · have h1 : ¬ (-x < 0) := by linarith
    simp [h, h1]
  · subst h; simp [rn53]
  · have h1 : -x < 0 := by linarith
    have h2 : ¬ (x < 0) := by linarith
    simp [h1, h2]

/-- **IEEE binary64 satisfies the standard model** with `u = ud = 2⁻⁵³` -/
def ieee64 : FlArith u64 u64 where
  add := flAdd
  sub := flSub
  div := flDiv
  add_ok _ _ := rn64_err _
  sub_ok _ _ := rn64_err _
  div_ok _ _ _ := rn64_err _

/-! ### the reduction over axis 0 is the sequential summation tree -/

theorem seq_fl (x0 : ℚ) (xs : List ℚ) :
    (SumTree.seq x0 xs).fl ieee64 = xs.foldl flAdd x0 := by
  unfold SumTree.seq
  suffices h : ∀ acc : SumTree,
      (xs.foldl (fun acc x => SumTree.node acc (SumTree.leaf x)) acc).fl ieee64
        = xs.foldl flAdd (acc.fl ieee64) by
    simpa [SumTree.fl] using h (SumTree.leaf x0)
  induction xs with
  | nil => intro acc; rfl
  | cons x xs ih =>
    intro acc
    simp only [List.foldl_cons]
    rw [ih]
    rfl

theorem zipWith_getD (f : ℚ → ℚ → ℚ) (a b : Vec) (j : Nat) (ha : j < a.length)
    (hb : j < b.length) :
    (List.zipWith f a b).getD j 0 = f (a.getD j 0) (b.getD j 0) := by
  simp [List.getD_eq_getElem?_getD, ha, hb]

theorem column_cons (r : Vec) (rs : Mat) (j : Nat) :
    column (r :: rs) j = r.getD j 0 :: column rs j := by simp [column]

/-- entry `j` of the accumulator row after all rows have been added -/
theorem foldl_rows_getD (n j : Nat) (hj : j < n) (rs : Mat) (acc : Vec) (hacc : acc.length = n)
    (h : ∀ r ∈ rs, r.length = n) :
    (rs.foldl (fun acc row => List.zipWith flAdd acc row) acc).getD j 0
        = (column rs j).foldl flAdd (acc.getD j 0)
      ∧ (rs.foldl (fun acc row => List.zipWith flAdd acc row) acc).length = n := by
  induction rs generalizing acc with
  | nil => simp [column, hacc]
  | cons r rs ih =>
    have hr : r.length = n := h r (by simp)
    have hl : (List.zipWith flAdd acc r).length = n := by simp [hacc, hr]
    have := ih (List.zipWith flAdd acc r) hl (fun x hx => h x (by simp [hx]))
    simp only [List.foldl_cons, column_cons]
    rw [this.1, zipWith_getD flAdd acc r j (by omega) (by omega)]
    exact ⟨rfl, this.2⟩

theorem flColMean_isSome (rows : Mat) : (flColMean rows).isSome = !rows.isEmpty := by
  cases rows <;> simp [flColMean, flColSum]

/-- **the computed mean of node `j`** is `flMean` of the sequential tree over that node's column -/
theorem flColMean_getD (n j : Nat) (hj : j < n) (r : Vec) (rs : Mat)
    (h : ∀ x ∈ r :: rs, x.length = n) (mf : Vec) (hm : flColMean (r :: rs) = some mf) :
    mf.getD j 0 = flMean ieee64 (SumTree.seq (r.getD j 0) (column rs j)) ∧ mf.length = n := by
  have hr : r.length = n := h r (by simp)
  have hrs : ∀ x ∈ rs, x.length = n := fun x hx => h x (by simp [hx])
  obtain ⟨h1, h2⟩ := foldl_rows_getD n j hj rs r hr hrs
  simp only [flColMean, flColSum, Option.map_some, Option.some.injEq] at hm
  subst hm
  constructor
  · have hlen : (SumTree.seq (r.getD j 0) (column rs j)).leaves.length = (r :: rs).length := by
      rw [(SumTree.seq_spec _ _).1]; simp [column]
    unfold flMean
    rw [seq_fl, hlen, ← h1]
    simp only [List.getD_eq_getElem?_getD, List.getElem?_map]
    have : j < (rs.foldl (fun acc row => List.zipWith flAdd acc row) r).length := by omega
    simp [this]
    rfl
  · simpa using h2

/-- **error of the binary64 phase mean as executed** against the exact mean row of the rational
model: `|m̂_j − m_j| ≤ ((1+u)^(k−1)(1+u) − 1) · mean|x_j|`, `u = 2⁻⁵³`, `k` = number of samples -/
theorem flColMean_error (n j : Nat) (hj : j < n) (rows : Mat) (h : ∀ r ∈ rows, r.length = n)
    (m mf : Vec) (hm : colMean n rows = some m) (hf : flColMean rows = some mf) :
    |mf.getD j 0 - m.getD j 0|
      ≤ ((1 + u64) ^ (rows.length - 1) * (1 + u64) - 1)
          * (((column rows j).map (|·|)).sum / rows.length) := by
  cases rows with
  | nil => simp [flColMean, flColSum] at hf
  | cons r rs =>
    obtain ⟨h1, _⟩ := flColMean_getD n j hj r rs h mf hf
    have hl : (SumTree.seq (r.getD j 0) (column rs j)).leaves = column (r :: rs) j := by
      rw [(SumTree.seq_spec _ _).1, column_cons]
    have := mean_error_n ieee64 u64_nonneg u64_nonneg (SumTree.seq (r.getD j 0) (column rs j))
    rw [hl, column_length'] at this
    rw [h1, colMean_getD n _ j m h hj hm, column_length']
    exact this

/-! ### `phase_mean()` and `anomaly()` in binary64: closed forms of the loops -/

theorem flPhaseMeanLoop_eq (c n : Nat) (obs : Mat) :
    flPhaseMeanLoop c n obs = (List.range c).map fun i => flColMean (everyNth c i obs) := by
  unfold flPhaseMeanLoop
  rw [foldl_set_range (fun i => flColMean (everyNth c i obs)) _ c (by simp)]
  simp

/-- the computed mean row of phase `p` (total; only used for non-empty phases) -/
def flMeanRow (c : Nat) (obs : Mat) (p : Nat) : Vec := (flColMean (everyNth c p obs)).getD []

theorem flAnomalyStep_eq (c : Nat) (obs A : Mat) (i : Nat) :
    flAnomalyStep c obs A i
      = setEveryNth c i A ((everyNth c i obs).map (flVsub · (flMeanRow c obs i))) := by
  unfold flAnomalyStep flMeanRow
  cases h : everyNth c i obs with
  | nil => simp [flColMean, flColSum, setEveryNth_nil]
  | cons r rs => simp [flColMean, flColSum]

/-- state of the array `anomaly` after the phases `< i` have been processed -/
def flPartialAnom (c n : Nat) (obs : Mat) (i : Nat) : Mat :=
  List.zipWith (fun t x => if t % c < i then flVsub x (flMeanRow c obs (t % c)) else zeros n)
    (List.range obs.length) obs

theorem flPartialAnom_length (c n : Nat) (obs : Mat) (i : Nat) :
    (flPartialAnom c n obs i).length = obs.length := by simp [flPartialAnom]

theorem flPartialAnom_step (c n : Nat) (obs : Mat) (i : Nat) (hi : i < c) :
    flAnomalyStep c obs (flPartialAnom c n obs i) i = flPartialAnom c n obs (i + 1) := by
  rw [flAnomalyStep_eq, setEveryNth_map_everyNth _ _ _ _ _ (flPartialAnom_length c n obs i),
    hitMask_phase c i _ hi]
  apply List.ext_getElem
  · simp [flPartialAnom]
  · intro t h1 h2
    simp only [flPartialAnom, List.getElem_zipWith, List.getElem_map, List.getElem_range,
      List.getElem_zip]
    by_cases h : t % c = i
    · simp [h]
    · have : (t % c < i + 1) = (t % c < i) := by
        apply propext; constructor <;> intro h' <;> omega
      simp [h, this]

theorem foldl_flAnomalyStep (c n : Nat) (obs : Mat) (i : Nat) (hi : i ≤ c) :
    (List.range i).foldl (flAnomalyStep c obs) (List.replicate obs.length (zeros n))
      = flPartialAnom c n obs i := by
  induction i with
  | zero =>
    apply List.ext_getElem
    · simp [flPartialAnom]
    · intro t h1 h2
      simp [flPartialAnom]
  | succ i ih =>
    rw [List.range_succ, List.foldl_append, ih (by omega)]
    simp only [List.foldl_cons, List.foldl_nil]
    exact flPartialAnom_step c n obs i (by omega)

/-- **closed form of the binary64 loop**: row `t` is `fl(obs[t] − m̂(phase t % c))` -/
theorem flAnomalyOf_closed (c n : Nat) (obs : Mat) (hc : 0 < c) :
    flAnomalyOf c n obs
      = List.zipWith (fun t x => flVsub x (flMeanRow c obs (t % c))) (List.range obs.length) obs := by
  unfold flAnomalyOf
  rw [foldl_flAnomalyStep c n obs c (Nat.le_refl c)]
  unfold flPartialAnom
  have : ∀ t : Nat, (t % c < c) = True := fun t => by simp [Nat.mod_lt _ hc]
  simp [this]

end Pyunicorn.Window
