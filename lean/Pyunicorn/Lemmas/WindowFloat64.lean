import Pyunicorn.Lemmas.WindowFloat
import Pyunicorn.Lemmas.WindowIeee
/-! Round 5: IEEE binary64 / binary32 round-to-nearest-even **are** instances of the standard model
of floating-point arithmetic used by `Lemmas/WindowFloat` (`FlArith 2⁻⁵³ 2⁻⁵³`, resp.
`FlArith 2⁻²⁴ (2⁻²⁴ + 2⁻⁵²)` for the float32 path with its double division), and the float
computation of `phase_mean()` / `anomaly()` as NumPy executes it on a C-ordered block
(`flColSum`, `flColMean`, `flPhaseMeanLoop`, `flAnomalyOf` of `Model/Window`) is the evaluation of
the summation tree `SumTree.seq` in that arithmetic.  Hence the abstract bounds of round 4 become
statements about the concrete computation. -/
namespace Pyunicorn.Window
open Pyunicorn.Similarity

/-- unit roundoff of binary64 -/
def u64 : ℚ := 1 / 2 ^ 53
/-- unit roundoff of binary32 -/
def u32 : ℚ := 1 / 2 ^ 24

theorem u64_nonneg : 0 ≤ u64 := by unfold u64; positivity
theorem u32_nonneg : 0 ≤ u32 := by unfold u32; positivity

/-- **one rounding to binary64, either sign**: `|rn64 x − x| ≤ 2⁻⁵³ |x|` -/
theorem rn64_err (x : ℚ) : |rn64 x - x| ≤ u64 * |x| := by
  unfold rn64 u64
  split
  · rename_i h
    have hx : 0 ≤ -x := by linarith
    have h1 := rn53_err (-x) hx
    rw [abs_of_neg h]
    have e : -rn53 (-x) - x = -(rn53 (-x) - -x) := by ring
    rw [e, abs_neg]
    calc |rn53 (-x) - -x| ≤ -x / 2 ^ 53 := h1
      _ = 1 / 2 ^ 53 * -x := by ring
  · rename_i h
    have hx : 0 ≤ x := not_lt.1 h
    have h1 := rn53_err x hx
    rw [abs_of_nonneg hx]
    calc |rn53 x - x| ≤ x / 2 ^ 53 := h1
      _ = 1 / 2 ^ 53 * x := by ring

/-- rounding is odd: `rn64 (−x) = −rn64 x` (round-to-nearest-even is sign-symmetric) -/
theorem rn64_neg (x : ℚ) : rn64 (-x) = -rn64 x := by
  unfold rn64
  rcases lt_trichotomy x 0 with h | h | h
  · have h1 : ¬ (-x < 0) := by linarith
    simp [h, h1]
  · subst h; simp [rn53]
  · have h1 : -x < 0 := by linarith
    have h2 : ¬ (x < 0) := by linarith
    simp [h1, h2]

theorem twoPow_sub23 (e : Int) : twoPow (e - 23) = twoPow e / 2 ^ 23 := by
  rw [twoPow_eq_zpow, twoPow_eq_zpow, zpow_sub₀ (by norm_num : (2 : ℚ) ≠ 0)]
  norm_num

/-- relative error of one rounding to 24 bits: `|rn24 x − x| ≤ x · 2⁻²⁴` for `x ≥ 0` -/
theorem rn24_err (x : ℚ) (hx : 0 ≤ x) : |rn24 x - x| ≤ x / 2 ^ 24 := by
  unfold rn24
  split
  · have : x = 0 := le_antisymm (by assumption) hx
    subst this; simp
  · rename_i hpos
    have hx0 : 0 < x := lt_of_not_ge hpos
    simp only
    set ulp := twoPow (binExp x - 23) with hulp
    have hup : 0 < ulp := twoPow_pos _
    have hr := roundHalfEven_err (x / ulp)
    have hle : ulp ≤ x / 2 ^ 23 := by
      rw [hulp, twoPow_sub23]
      exact div_le_div_of_nonneg_right (twoPow_binExp_le x hx0) (by positivity)
    have key : ((roundHalfEven (x / ulp) : Int) : ℚ) * ulp - x
        = (((roundHalfEven (x / ulp) : Int) : ℚ) - x / ulp) * ulp := by
      field_simp
    rw [key, abs_mul, abs_of_pos hup]
    calc |((roundHalfEven (x / ulp) : Int) : ℚ) - x / ulp| * ulp ≤ (1 / 2) * ulp :=
          mul_le_mul_of_nonneg_right hr (le_of_lt hup)
      _ ≤ (1 / 2) * (x / 2 ^ 23) := mul_le_mul_of_nonneg_left hle (by norm_num)
      _ = x / 2 ^ 24 := by ring

/-- **one rounding to binary32, either sign**: `|rn32 x − x| ≤ 2⁻²⁴ |x|` -/
theorem rn32_err (x : ℚ) : |rn32 x - x| ≤ u32 * |x| := by
  unfold rn32 u32
  split
  · rename_i h
    have hx : 0 ≤ -x := by linarith
    have h1 := rn24_err (-x) hx
    rw [abs_of_neg h]
    have e : -rn24 (-x) - x = -(rn24 (-x) - -x) := by ring
    rw [e, abs_neg]
    calc |rn24 (-x) - -x| ≤ -x / 2 ^ 24 := h1
      _ = 1 / 2 ^ 24 * -x := by ring
  · rename_i h
    have hx : 0 ≤ x := not_lt.1 h
    have h1 := rn24_err x hx
    rw [abs_of_nonneg hx]
    calc |rn24 x - x| ≤ x / 2 ^ 24 := h1
      _ = 1 / 2 ^ 24 * x := by ring

/-- the double division followed by the rounding to binary32 (`true_divide` of a float32 sum by
an `intp` count): relative error at most `2⁻²⁴ + 2⁻⁵²` -/
theorem rn32_rn64_err (x : ℚ) : |rn32 (rn64 x) - x| ≤ (u32 + 1 / 2 ^ 52) * |x| := by
  have h1 := rn64_err x
  have h2 := rn32_err (rn64 x)
  have h3 : |rn64 x| ≤ (1 + u64) * |x| := by
    have : |rn64 x| ≤ |rn64 x - x| + |x| := by
      have := abs_add_le (rn64 x - x) x
      simpa using this
    linarith
  have h4 : |rn32 (rn64 x) - x| ≤ |rn32 (rn64 x) - rn64 x| + |rn64 x - x| := by
    have := abs_add_le (rn32 (rn64 x) - rn64 x) (rn64 x - x)
    simpa using this
  have h5 : u32 * |rn64 x| ≤ u32 * ((1 + u64) * |x|) := mul_le_mul_of_nonneg_left h3 u32_nonneg
  have hx : 0 ≤ |x| := abs_nonneg x
  have hc : u32 * (1 + u64) + u64 ≤ u32 + 1 / 2 ^ 52 := by unfold u32 u64; norm_num
  calc |rn32 (rn64 x) - x| ≤ u32 * ((1 + u64) * |x|) + u64 * |x| := by linarith
    _ = (u32 * (1 + u64) + u64) * |x| := by ring
    _ ≤ (u32 + 1 / 2 ^ 52) * |x| := mul_le_mul_of_nonneg_right hc hx

/-- the operations of an arithmetic, as the executable model takes them -/
def FlArith.ops {u ud : ℚ} (F : FlArith u ud) : FlOps := ⟨F.add, F.sub, F.div⟩

/-- **IEEE binary64 satisfies the standard model** with `u = ud = 2⁻⁵³` -/
def ieee64 : FlArith u64 u64 where
  add := flAdd
  sub := flSub
  div := flDiv
  add_ok _ _ := rn64_err _
  sub_ok _ _ := rn64_err _
  div_ok _ _ _ := rn64_err _

/-- **the float32 path of NumPy satisfies the standard model** with `u = 2⁻²⁴`,
`ud = 2⁻²⁴ + 2⁻⁵²` -/
def ieee32 : FlArith u32 (u32 + 1 / 2 ^ 52) where
  add a b := rn32 (a + b)
  sub a b := rn32 (a - b)
  div a b := rn32 (rn64 (a / b))
  add_ok _ _ := rn32_err _
  sub_ok _ _ := rn32_err _
  div_ok _ _ _ := rn32_rn64_err _

theorem ieee64_ops : ieee64.ops = ops64 := rfl
theorem ieee32_ops : ieee32.ops = ops32 := rfl

/-! ### the reduction over axis 0 is the sequential summation tree -/

section generic
variable {u ud : ℚ} (F : FlArith u ud)

theorem seq_fl (x0 : ℚ) (xs : List ℚ) :
    (SumTree.seq x0 xs).fl F = xs.foldl F.add x0 := by
  unfold SumTree.seq
  suffices h : ∀ acc : SumTree,
      (xs.foldl (fun acc x => SumTree.node acc (SumTree.leaf x)) acc).fl F
        = xs.foldl F.add (acc.fl F) by
    simpa [SumTree.fl] using h (SumTree.leaf x0)
  induction xs with
  | nil => intro acc; rfl
  | cons x xs ih =>
    intro acc
    simp only [List.foldl_cons]
    rw [ih]
    rfl

theorem zipWith_getD (f : ℚ → ℚ → ℚ) (a b : Vec) (j : Nat) (ha : j < a.length)
    (hb : j < b.length) :
    (List.zipWith f a b).getD j 0 = f (a.getD j 0) (b.getD j 0) := by
  simp [List.getD_eq_getElem?_getD, ha, hb]

theorem column_cons (r : Vec) (rs : Mat) (j : Nat) :
    column (r :: rs) j = r.getD j 0 :: column rs j := by simp [column]

/-- entry `j` of the accumulator row after all rows have been added -/
theorem foldl_rows_getD (n j : Nat) (hj : j < n) (rs : Mat) (acc : Vec) (hacc : acc.length = n)
    (h : ∀ r ∈ rs, r.length = n) :
    (rs.foldl (fun acc row => List.zipWith F.add acc row) acc).getD j 0
        = (column rs j).foldl F.add (acc.getD j 0)
      ∧ (rs.foldl (fun acc row => List.zipWith F.add acc row) acc).length = n := by
  induction rs generalizing acc with
  | nil => simp [column, hacc]
  | cons r rs ih =>
    have hr : r.length = n := h r (by simp)
    have hl : (List.zipWith F.add acc r).length = n := by simp [hacc, hr]
    have := ih (List.zipWith F.add acc r) hl (fun x hx => h x (by simp [hx]))
    simp only [List.foldl_cons, column_cons]
    rw [this.1, zipWith_getD F.add acc r j (by omega) (by omega)]
    exact ⟨rfl, this.2⟩

theorem foldl_rows_nil (P : FlOps) (rs : Mat) :
    rs.foldl (fun acc row => List.zipWith P.add acc row) ([] : Vec) = [] := by
  induction rs with
  | nil => rfl
  | cons x xs ih => simpa using ih

/-- every computed mean row has one entry per node -/
theorem flColMean_length (P : FlOps) (n : Nat) (rows : Mat) (h : ∀ r ∈ rows, r.length = n)
    (mf : Vec) (hm : flColMean P rows = some mf) : mf.length = n := by
  cases rows with
  | nil => simp [flColMean, flColSum] at hm
  | cons r rs =>
    simp only [flColMean, flColSum, Option.map_some, Option.some.injEq] at hm
    subst hm
    have hr : r.length = n := h r (by simp)
    have hrs : ∀ x ∈ rs, x.length = n := fun x hx => h x (by simp [hx])
    simp only [List.length_map]
    clear h
    induction rs generalizing r with
    | nil => simpa using hr
    | cons x xs ih =>
      simp only [List.foldl_cons]
      exact ih (List.zipWith P.add r x) (by simp [hr, hrs x (by simp)])
        (fun y hy => hrs y (by simp [hy]))

/-- **the computed mean of node `j`** is `flMean` of the sequential tree over that node's column -/
theorem flColMean_getD (n j : Nat) (hj : j < n) (r : Vec) (rs : Mat)
    (h : ∀ x ∈ r :: rs, x.length = n) (mf : Vec) (hm : flColMean F.ops (r :: rs) = some mf) :
    mf.getD j 0 = flMean F (SumTree.seq (r.getD j 0) (column rs j)) := by
  have hr : r.length = n := h r (by simp)
  have hrs : ∀ x ∈ rs, x.length = n := fun x hx => h x (by simp [hx])
  obtain ⟨h1, h2⟩ := foldl_rows_getD F n j hj rs r hr hrs
  simp only [flColMean, flColSum, Option.map_some, Option.some.injEq] at hm
  subst hm
  have hlen : (SumTree.seq (r.getD j 0) (column rs j)).leaves.length = (r :: rs).length := by
    rw [(SumTree.seq_spec _ _).1]; simp [column]
  unfold flMean
  rw [seq_fl, hlen, ← h1]
  simp only [List.getD_eq_getElem?_getD, List.getElem?_map]
  have : j < (rs.foldl (fun acc row => List.zipWith F.add acc row) r).length := by omega
  simp [FlArith.ops, this]

/-- **error of the phase mean as executed** against the exact mean row of the rational model:
`|m̂_j − m_j| ≤ ((1+u)^(k−1)(1+ud) − 1) · mean|x_j|`, `k` = number of samples -/
theorem flColMean_error (hu : 0 ≤ u) (hud : 0 ≤ ud) (n j : Nat) (hj : j < n) (rows : Mat)
    (h : ∀ r ∈ rows, r.length = n)
    (m mf : Vec) (hm : colMean n rows = some m) (hf : flColMean F.ops rows = some mf) :
    |mf.getD j 0 - m.getD j 0|
      ≤ ((1 + u) ^ (rows.length - 1) * (1 + ud) - 1)
          * (((column rows j).map (|·|)).sum / rows.length) := by
  cases rows with
  | nil => simp [flColMean, flColSum] at hf
  | cons r rs =>
    have h1 := flColMean_getD F n j hj r rs h mf hf
    have hl : (SumTree.seq (r.getD j 0) (column rs j)).leaves = column (r :: rs) j := by
      rw [(SumTree.seq_spec _ _).1, column_cons]
    have := mean_error_n F hu hud (SumTree.seq (r.getD j 0) (column rs j))
    rw [hl, column_length'] at this
    rw [h1, colMean_getD n _ j m h hj hm, column_length']
    exact this

end generic

/-! ### `phase_mean()` and `anomaly()` in floating point: closed forms of the loops -/

theorem flPhaseMeanLoop_eq (P : FlOps) (c n : Nat) (obs : Mat) :
    flPhaseMeanLoop P c n obs = (List.range c).map fun i => flColMean P (everyNth c i obs) := by
  unfold flPhaseMeanLoop
  rw [foldl_set_range (fun i => flColMean P (everyNth c i obs)) _ c (by simp)]
  simp

/-- the computed mean row of phase `p` (total; only used for non-empty phases) -/
def flMeanRow (P : FlOps) (c : Nat) (obs : Mat) (p : Nat) : Vec :=
  (flColMean P (everyNth c p obs)).getD []

theorem flAnomalyStep_eq (P : FlOps) (c : Nat) (obs A : Mat) (i : Nat) :
    flAnomalyStep P c obs A i
      = setEveryNth c i A ((everyNth c i obs).map (flVsub P · (flMeanRow P c obs i))) := by
  unfold flAnomalyStep flMeanRow
  cases h : everyNth c i obs with
  | nil => simp [flColMean, flColSum, setEveryNth_nil]
  | cons r rs => simp [flColMean, flColSum]

/-- state of the array `anomaly` after the phases `< i` have been processed -/
def flPartialAnom (P : FlOps) (c n : Nat) (obs : Mat) (i : Nat) : Mat :=
  List.zipWith (fun t x => if t % c < i then flVsub P x (flMeanRow P c obs (t % c)) else zeros n)
    (List.range obs.length) obs

theorem flPartialAnom_length (P : FlOps) (c n : Nat) (obs : Mat) (i : Nat) :
    (flPartialAnom P c n obs i).length = obs.length := by simp [flPartialAnom]

theorem flPartialAnom_step (P : FlOps) (c n : Nat) (obs : Mat) (i : Nat) (hi : i < c) :
    flAnomalyStep P c obs (flPartialAnom P c n obs i) i = flPartialAnom P c n obs (i + 1) := by
  rw [flAnomalyStep_eq, setEveryNth_map_everyNth _ _ _ _ _ (flPartialAnom_length P c n obs i),
    hitMask_phase c i _ hi]
  apply List.ext_getElem
  · simp [flPartialAnom]
  · intro t h1 h2
    simp only [flPartialAnom, List.getElem_zipWith, List.getElem_map, List.getElem_range,
      List.getElem_zip]
    by_cases h : t % c = i
    · simp [h]
    · have : (t % c < i + 1) = (t % c < i) := by
        apply propext; constructor <;> intro h' <;> omega
      simp [h, this]

theorem foldl_flAnomalyStep (P : FlOps) (c n : Nat) (obs : Mat) (i : Nat) (hi : i ≤ c) :
    (List.range i).foldl (flAnomalyStep P c obs) (List.replicate obs.length (zeros n))
      = flPartialAnom P c n obs i := by
  induction i with
  | zero =>
    apply List.ext_getElem
    · simp [flPartialAnom]
    · intro t h1 h2
      simp [flPartialAnom]
  | succ i ih =>
    rw [List.range_succ, List.foldl_append, ih (by omega)]
    simp only [List.foldl_cons, List.foldl_nil]
    exact flPartialAnom_step P c n obs i (by omega)

/-- **closed form of the float loop**: row `t` is `fl(obs[t] − m̂(phase t % c))` -/
theorem flAnomalyOf_closed (P : FlOps) (c n : Nat) (obs : Mat) (hc : 0 < c) :
    flAnomalyOf P c n obs
      = List.zipWith (fun t x => flVsub P x (flMeanRow P c obs (t % c)))
          (List.range obs.length) obs := by
  unfold flAnomalyOf
  rw [foldl_flAnomalyStep P c n obs c (Nat.le_refl c)]
  unfold flPartialAnom
  have : ∀ t : Nat, (t % c < c) = True := fun t => by simp [Nat.mod_lt _ hc]
  simp [this]

/-- the slice of phase `i` of the computed anomaly = the slice of the observable minus the
computed mean row, every difference rounded -/
theorem flAnomaly_phase_slice (P : FlOps) (c n : Nat) (obs : Mat) (hc : 0 < c) (i : Nat)
    (hi : i < c) :
    everyNth c i (flAnomalyOf P c n obs)
      = (everyNth c i obs).map (flVsub P · (flMeanRow P c obs i)) := by
  rw [flAnomalyOf_closed P c n obs hc, everyNth_eq_select, everyNth_eq_select]
  simp only [List.length_zipWith, List.length_range, Nat.min_self]
  rw [hitMask_phase c i _ hi]
  exact select_key_zipWith (fun t => t % c) i (fun p x => flVsub P x (flMeanRow P c obs p)) _ _

/-- column `j` of the rounded differences = the rounded differences of column `j` -/
theorem column_map_flVsub (P : FlOps) (n j : Nat) (hj : j < n) (rows : Mat) (m : Vec)
    (h : ∀ r ∈ rows, r.length = n) (hm : m.length = n) :
    column (rows.map (flVsub P · m)) j = (column rows j).map (P.sub · (m.getD j 0)) := by
  induction rows with
  | nil => simp [column]
  | cons r rs ih =>
    have hr : r.length = n := h r (by simp)
    rw [List.map_cons, column_cons, column_cons, List.map_cons,
      ih (fun x hx => h x (by simp [hx]))]
    congr 1
    exact zipWith_getD P.sub r m j (by omega) (by omega)

end Pyunicorn.Window
