import Pyunicorn.Model.NetRW
import Pyunicorn.Lemmas.Net
import Mathlib.Tactic.Ring
import Mathlib.Tactic.FieldSimp
import Mathlib.Tactic.Linarith
import Mathlib.Algebra.Order.Field.Rat
/-!
Finite-sum algebra over `Rat` (`sumToQ`), the expansion of the diagonal of a triple matrix product,
and the rearrangement of the four nested loops of `_mpi_newman_betweenness`.
-/
namespace Pyunicorn.Net

theorem sumToQ_succ' (n : Nat) (f : Nat → Rat) : sumToQ (n + 1) f = sumToQ n f + f n := by
  simp [sumToQ, List.range_succ]

theorem sumToQ_zero' (f : Nat → Rat) : sumToQ 0 f = 0 := by simp [sumToQ]

theorem sumToQ_congrLt (n : Nat) (f g : Nat → Rat) (h : ∀ j, j < n → f j = g j) :
    sumToQ n f = sumToQ n g := by
  induction n with
  | zero => simp [sumToQ_zero']
  | succ k ih =>
    rw [sumToQ_succ', sumToQ_succ', ih (fun j hj => h j (by omega)), h k (by omega)]

theorem sumToQ_add' (n : Nat) (f g : Nat → Rat) :
    sumToQ n (fun j => f j + g j) = sumToQ n f + sumToQ n g := by
  induction n with
  | zero => simp [sumToQ_zero']
  | succ k ih => simp only [sumToQ_succ', ih]; ring

theorem sumToQ_mul_left' (n : Nat) (c : Rat) (f : Nat → Rat) :
    sumToQ n (fun j => c * f j) = c * sumToQ n f := by
  induction n with
  | zero => simp [sumToQ_zero']
  | succ k ih => simp only [sumToQ_succ', ih]; ring

theorem sumToQ_mul_right' (n : Nat) (c : Rat) (f : Nat → Rat) :
    sumToQ n (fun j => f j * c) = sumToQ n f * c := by
  induction n with
  | zero => simp [sumToQ_zero']
  | succ k ih => simp only [sumToQ_succ', ih]; ring

theorem sumToQ_const_zero (n : Nat) : sumToQ n (fun _ => (0 : Rat)) = 0 := by
  induction n with
  | zero => simp [sumToQ_zero']
  | succ k ih => simp only [sumToQ_succ', ih]; ring

theorem sumToQ_const_one (n : Nat) : sumToQ n (fun _ => (1 : Rat)) = (n : Rat) := by
  induction n with
  | zero => simp [sumToQ_zero']
  | succ k ih => simp only [sumToQ_succ', ih]; push_cast; ring

theorem sumToQ_comm' (n m : Nat) (f : Nat → Nat → Rat) :
    sumToQ n (fun j => sumToQ m (fun s => f j s)) = sumToQ m (fun s => sumToQ n (fun j => f j s)) := by
  induction n with
  | zero => simp [sumToQ_zero', sumToQ_const_zero]
  | succ k ih => simp only [sumToQ_succ']; rw [ih, ← sumToQ_add']

theorem sumToQ_ite' (n : Nat) (c : Prop) [Decidable c] (f : Nat → Rat) :
    (if c then sumToQ n f else 0) = sumToQ n (fun j => if c then f j else 0) := by
  split <;> simp [sumToQ_const_zero]

theorem sumTo_cast (n : Nat) (f : Nat → Nat) :
    ((sumTo n f : Nat) : Rat) = sumToQ n (fun j => (f j : Rat)) := by
  induction n with
  | zero => simp [sumToQ_zero', sumTo_zero]
  | succ k ih => rw [sumTo_succ, sumToQ_succ', ← ih]; push_cast; ring

/-! ### diagonal of a product of three matrices -/

theorem mmulQ3_diag (n : Nat) (x y z : RMat) (i : Nat) :
    mmulQ n (mmulQ n x y) z i i = sumToQ n fun j => sumToQ n fun k => x i j * y j k * z k i := by
  simp only [mmulQ]
  rw [show (fun k => sumToQ n (fun j => x i j * y j k) * z k i)
        = fun k => sumToQ n (fun j => x i j * y j k * z k i)
      from funext fun k => (sumToQ_mul_right' n (z k i) _).symm]
  rw [sumToQ_comm']

/-- casting a product of natural-number matrices -/
theorem mmulQ_cast (n : Nat) (x y : Nat → Nat → Nat) (i j : Nat) :
    mmulQ n (fun a b => (x a b : Rat)) (fun a b => (y a b : Rat)) i j = ((mmul n x y i j : Nat) : Rat) := by
  simp only [mmulQ, mmul, sumTo_cast]
  apply sumToQ_congrLt
  intro k _
  push_cast
  ring

theorem toQ_eq_cast (a : Adj) : toQ a = fun i j => ((toN a i j : Nat) : Rat) := by
  funext i j
  cases h : a i j <;> simp [toQ, toN, b2n, h]

/-- weights living on the links only (`link_attribute(key)` is zero where there is no link) -/
def OnLinks (a : Adj) (m : RMat) : Prop := ∀ x y, a x y = false → m x y = 0

theorem onLinks_mul3 (a : Adj) (m : RMat) (hm : OnLinks a m) (x1 y1 x2 y2 x3 y3 : Nat) :
    m x1 y1 * m x2 y2 * m x3 y3
      = if a x1 y1 && a x2 y2 && a x3 y3 then m x1 y1 * m x2 y2 * m x3 y3 else 0 := by
  cases h1 : a x1 y1
  · simp [hm _ _ h1]
  · cases h2 : a x2 y2
    · simp [hm _ _ h2]
    · cases h3 : a x3 y3
      · simp [hm _ _ h3]
      · simp

/-! ### the loops of `_mpi_newman_betweenness`, rearranged: pairs `(s,t)` outside, neighbours inside -/

theorem newmanRow_eq_pairs (N : Nat) (arow : Nat → Bool) (V : RMat) (i : Nat) :
    newmanRow N arow V i =
      sumToQ N fun s => sumToQ s fun t =>
        if i ≠ s ∧ i ≠ t then
          sumToQ N fun j => if arow j then absQ (V i s - V j s - V i t + V j t) else 0
        else 0 := by
  unfold newmanRow
  have h1 : ∀ j, (if arow j = true then
        sumToQ N fun s => if i ≠ s then
          sumToQ s fun t => if i ≠ t then absQ (V i s - V j s - V i t + V j t) else 0 else 0
      else 0) =
      sumToQ N fun s => sumToQ s fun t =>
        if i ≠ s ∧ i ≠ t then (if arow j then absQ (V i s - V j s - V i t + V j t) else 0) else 0 := by
    intro j
    rw [sumToQ_ite']
    apply sumToQ_congrLt
    intro s _
    by_cases hs : i ≠ s
    · rw [if_pos hs]
      rw [sumToQ_ite']
      apply sumToQ_congrLt
      intro t _
      by_cases ht : i ≠ t
      · simp [hs, ht]
      · simp [ht]
    · rw [if_neg hs]
      cases arow j <;> simp [hs, sumToQ_const_zero]
  rw [show (fun j => if arow j = true then
        sumToQ N fun s => if i ≠ s then
          sumToQ s fun t => if i ≠ t then absQ (V i s - V j s - V i t + V j t) else 0 else 0
      else 0) = fun j => sumToQ N fun s => sumToQ s fun t =>
        if i ≠ s ∧ i ≠ t then (if arow j then absQ (V i s - V j s - V i t + V j t) else 0) else 0
      from funext h1]
  rw [sumToQ_comm']
  apply sumToQ_congrLt
  intro s _
  rw [sumToQ_comm']
  apply sumToQ_congrLt
  intro t _
  by_cases h : i ≠ s ∧ i ≠ t
  · simp only [if_pos h]
  · simp only [if_neg h, sumToQ_const_zero]

/-! ### number of pairs `t < s < N` one of which is `i` -/

theorem sumToQ_indicatorEq (k i : Nat) :
    sumToQ k (fun t => if i = t then (1 : Rat) else 0) = if i < k then 1 else 0 := by
  induction k with
  | zero => simp [sumToQ_zero']
  | succ m ih =>
    rw [sumToQ_succ', ih]
    by_cases h1 : i < m
    · have : i ≠ m := by omega
      simp [h1, this, show i < m + 1 by omega]
    · by_cases h2 : i = m
      · simp [h2]
      · simp [h1, h2, show ¬ i < m + 1 by omega]

theorem pairs_through (N i : Nat) :
    sumToQ N (fun s => sumToQ s (fun t => if i = s ∨ i = t then (1 : Rat) else 0))
      = if i < N then (N : Rat) - 1 else 0 := by
  induction N with
  | zero => simp [sumToQ_zero']
  | succ k ih =>
    rw [sumToQ_succ', ih]
    by_cases hk : i = k
    · subst hk
      have : sumToQ i (fun t => if i = i ∨ i = t then (1 : Rat) else 0) = (i : Rat) := by
        rw [← sumToQ_const_one i]
        apply sumToQ_congrLt
        intro t _
        simp
      rw [this]
      simp
    · have : sumToQ k (fun t => if i = k ∨ i = t then (1 : Rat) else 0)
          = sumToQ k (fun t => if i = t then (1 : Rat) else 0) := by
        apply sumToQ_congrLt
        intro t _
        simp [hk]
      rw [this, sumToQ_indicatorEq]
      by_cases h1 : i < k
      · simp [h1, show i < k + 1 by omega]
      · simp [h1, show ¬ i < k + 1 by omega]

end Pyunicorn.Net
