import Pyunicorn.Lemmas.NsiWrapped
/-!
Round 5d: the executable `arenasAll` equals `arenasB` by theorem, its flag `ok` decides
`ArenasSolves`, and with both the node-splitting invariance of `arenasWrapped` itself — **without
any hypothesis on the linear solves**: the wrapper returns `some` only if every Gauss–Jordan
solution was verified exactly (`ok`), and the split systems are regular by `arenas_regular`.
-/
namespace Pyunicorn.Nsi

theorem ofFun_congr (n : Nat) (f g : Nat → Nat → Rat) (h : ∀ i j, i < n → j < n → f i j = g i j) :
    Circuit.ofFun n f = Circuit.ofFun n g := by
  unfold Circuit.ofFun
  apply List.map_congr_left; intro i hi
  apply List.map_congr_left; intro j hj
  exact h i j (List.mem_range.mp hi) (List.mem_range.mp hj)

/-- the solutions the model computes for a network `H` and a stopping rule `sigma`:
`splu(1 − sp_Pi).solve(sp_Pi)` by exact Gauss–Jordan (`0` if singular) -/
def arenasVs (H : Gr) (sigma : Nat → Nat → Rat) (i : Nat) : Nat → Nat → Rat :=
  (arenasV H (Circuit.toFun (Circuit.ofFun H.n sigma)) i).getD (fun _ _ => 0)

theorem arenasSolves_sound (G : Gr) (sg : Nat → Nat → Rat) (i : Nat) (V : Nat → Nat → Rat)
    (h : arenasSolves G sg i V = true) : ArenasSolves G sg i V := by
  intro s j hs hj
  simp only [arenasSolves, List.all_eq_true, List.mem_range] at h
  have := eq_of_beq (h s hs j hj)
  rw [toFun_ofFun G.n _ s j hs hj] at this
  rw [← this]
  congr 1
  apply sumR_congr; intro m hm
  rw [toFun_ofFun G.n _ s m hs hm]

/-- **`arenasAll` = `arenasB`**, and the flag decides `ArenasSolves` -/
theorem arenasAll_spec (G : Gr) (sigma : Nat → Nat → Rat) (excl : Bool) (l : List Rat) (ok : Bool)
    (h : arenasAll G sigma excl = some (l, ok)) :
    l = (List.range G.n).map (arenasB G (arenasVs G sigma) excl) ∧
    (ok = true → ∀ i, i < G.n → ArenasSolves G sigma i (arenasVs G sigma i)) := by
  unfold arenasAll at h
  simp only at h
  split at h
  · simp only [Option.some.injEq, Prod.mk.injEq] at h
    obtain ⟨hl, hok⟩ := h
    have hV : ∀ i, i < G.n →
        (((List.range G.n).map fun i => arenasV G (Circuit.toFun (Circuit.ofFun G.n sigma)) i).map
          fun o => o.getD (fun _ _ => 0)).getD i (fun _ _ => 0) = arenasVs G sigma i := by
      intro i hi
      simp [List.getD_eq_getElem?_getD, hi, arenasVs]
    refine ⟨?_, ?_⟩
    · rw [← hl]
      apply List.map_congr_left; intro j hj
      exact arenasB_congr (RangeEq.refl G) _ _ (fun i s k hi _ _ => by rw [hV i hi]) excl j
        (List.mem_range.mp hj)
    · intro hk i hi
      rw [hk] at hok
      simp only [List.all_eq_true, List.mem_range] at hok
      have := arenasSolves_sound G _ i _ (hok i hi)
      rw [hV i hi] at this
      exact arenasSolves_congr (RangeEq.refl G) _ _
        (fun a b ha hb => toFun_ofFun G.n sigma a b ha hb) i hi _ this
  · exact absurd h (by simp)

/-- the stopping rule of the wrapper as a function of the sub-network -/
def arenasSigOf (twin : Bool) : Gr → Nat → Nat → Rat := fun H =>
  if twin then fun a b => eval H [a, b] M.nsiTwinness else fun _ _ => 1

/-- the solutions of the wrapper as a function of the sub-network -/
def arenasVof (twin : Bool) : Gr → Nat → Nat → Nat → Rat := fun H => arenasVs H (arenasSigOf twin H)

theorem arenasSigOf_congr (twin : Bool) (H H' : Gr) (h : RangeEq H H') (a b : Nat) (ha : a < H.n)
    (hb : b < H.n) : arenasSigOf twin H a b = arenasSigOf twin H' a b := by
  unfold arenasSigOf
  cases twin
  · rfl
  · exact twinness_congr h a b ha hb

theorem arenasV_congr {H H' : Gr} (h : RangeEq H H') (sg sg' : Nat → Nat → Rat)
    (hsg : ∀ a b, a < H.n → b < H.n → sg a b = sg' a b) (i : Nat) (hi : i < H.n) :
    arenasV H sg i = arenasV H' sg' i := by
  unfold arenasV
  have hP : Circuit.ofFun H.n (arenasP H sg i) = Circuit.ofFun H'.n (arenasP H' sg' i) := by
    rw [← h.hn]
    exact ofFun_congr H.n _ _ fun r c hr hc => arenasP_congr h sg sg' hsg i r c hi hr hc
  simp only [hP, ← h.hn]

theorem arenasVof_congr (twin : Bool) (H H' : Gr) (h : RangeEq H H') (i s j : Nat) (hi : i < H.n)
    (_ : s < H.n) (_ : j < H.n) : arenasVof twin H i s j = arenasVof twin H' i s j := by
  unfold arenasVof arenasVs
  rw [arenasV_congr h (Circuit.toFun (Circuit.ofFun H.n (arenasSigOf twin H)))
    (Circuit.toFun (Circuit.ofFun H'.n (arenasSigOf twin H'))) (fun a b ha hb => by
    rw [toFun_ofFun H.n _ a b ha hb, ← h.hn, toFun_ofFun H.n _ a b ha hb]
    exact arenasSigOf_congr twin H H' h a b ha hb) i hi]

/-- the per-node value of the wrapper of `nsi_arenas_betweenness` is `arenasAt` with the model's own
stopping rule and Gauss–Jordan solutions, and these solutions solve their systems -/
theorem perNode_arenas (G : Gr) (twin excl : Bool) (a : Nat) (ha : a < G.n) (x : Rat)
    (h : perNode G (fun _ => 0) (arenasCompF twin excl) a = some x) :
    x = arenasAt G (arenasSigOf twin) (arenasVof twin) excl a ∧
    (¬ (compNodes G a).length < 2 → ∀ i, i < (subGr G (compNodes G a)).n →
      ArenasSolves (subGr G (compNodes G a)) (arenasSigOf twin (subGr G (compNodes G a))) i
        (arenasVof twin (subGr G (compNodes G a)) i)) := by
  unfold perNode at h
  unfold arenasAt
  simp only at h ⊢
  split at h
  · rename_i hlen
    rw [if_pos hlen]
    simp only [Option.some.injEq] at h
    exact ⟨h.symm, fun hc => absurd hlen hc⟩
  · rename_i hlen
    rw [if_neg hlen]
    have hF : arenasCompF twin excl (subGr G (compNodes G a))
        = match arenasAll (subGr G (compNodes G a)) (arenasSigOf twin (subGr G (compNodes G a))) excl with
          | some (l, true) => some l
          | _ => none := by
      unfold arenasCompF arenasSigOf
      cases twin <;> rfl
    rw [hF] at h
    cases hA : arenasAll (subGr G (compNodes G a)) (arenasSigOf twin (subGr G (compNodes G a))) excl with
    | none => rw [hA] at h; simp at h
    | some lo =>
      obtain ⟨l, ok⟩ := lo
      rw [hA] at h
      cases ok with
      | false => simp at h
      | true =>
        simp only [Option.some.injEq] at h
        have hs := arenasAll_spec _ _ excl l true hA
        have hidx : (compNodes G a).idxOf a < (subGr G (compNodes G a)).n :=
          List.idxOf_lt_length_of_mem (self_mem_compNodes G a ha)
        refine ⟨?_, fun _ => hs.2 rfl⟩
        rw [← h, hs.1]
        simp [List.getD_eq_getElem?_getD, hidx, arenasVof]

end Pyunicorn.Nsi

namespace Pyunicorn.Nsi

/-- the model's solutions on sub-networks with at least two nodes (the only ones the wrapper
solves systems on), `0` on smaller ones -/
def arenasVof2 (twin : Bool) : Gr → Nat → Nat → Nat → Rat := fun H =>
  if H.n < 2 then fun _ _ _ => 0 else arenasVof twin H

theorem arenasAt_Vof2 (G : Gr) (twin excl : Bool) (a : Nat) :
    arenasAt G (arenasSigOf twin) (arenasVof2 twin) excl a
      = arenasAt G (arenasSigOf twin) (arenasVof twin) excl a := by
  unfold arenasAt
  simp only
  split
  · rfl
  · rename_i hlen
    unfold arenasVof2
    rw [if_neg (by simpa [subGr] using hlen)]

theorem arenasVof2_congr (twin : Bool) (H H' : Gr) (h : RangeEq H H') (i s j : Nat) (hi : i < H.n)
    (hs : s < H.n) (hj : j < H.n) : arenasVof2 twin H i s j = arenasVof2 twin H' i s j := by
  unfold arenasVof2
  rw [← h.hn]
  split
  · rfl
  · exact arenasVof_congr twin H H' h i s j hi hs hj

/-- on a network with one node and stopping value 1 the zero matrix solves the system -/
theorem arenasSolves_small (H : Gr) (sigma : Nat → Nat → Rat) (hn : H.n < 2)
    (hsg : ∀ i j, i < H.n → j < H.n → sigma i j = 1) (i : Nat) (hi : i < H.n) :
    ArenasSolves H sigma i (fun _ _ => 0) := by
  intro s j hs hj
  have hi0 : i = 0 := by omega
  have hs0 : s = 0 := by omega
  have hj0 : j = 0 := by omega
  subst hi0; subst hs0; subst hj0
  have hP : arenasP H sigma 0 0 0 = 0 := by
    unfold arenasP arenasStop
    simp [aplus, hsg 0 0 hi hi]
  rw [hP, sumR_eq_zero _ _ (fun m _ => mul_zero _)]
  simp

end Pyunicorn.Nsi
