import Pyunicorn.Model.MpiPool
import Pyunicorn.Lemmas.Mpi
/-! Lemmas about the pool-kernel model (round 5, core Lean only). -/
namespace Pyunicorn.MpiPool
open Pyunicorn.Mpi Pyunicorn.MpiProto

/-! ### vectors of a fixed length under `addVec` -/

theorem addVec_length' (a b : List Int) (N : Nat) (ha : a.length = N) (hb : b.length = N) :
    (addVec a b).length = N := by
  simp [addVec, ha, hb]

theorem addVec_zero_left (N : Nat) (v : List Int) (hv : v.length = N) :
    addVec (List.replicate N 0) v = v := by
  induction N generalizing v with
  | zero =>
    have : v = [] := List.length_eq_zero_iff.mp hv
    subst this; rfl
  | succ n ih =>
    cases v with
    | nil => simp at hv
    | cons x t =>
      have ht : t.length = n := by simpa using hv
      have := ih t ht
      simp only [addVec] at this ⊢
      simp [List.replicate_succ, this]

theorem addVec_assoc (a b c : List Int) : addVec (addVec a b) c = addVec a (addVec b c) := by
  induction a generalizing b c with
  | nil => simp [addVec]
  | cons x t ih =>
    cases b with
    | nil => simp [addVec]
    | cons y u =>
      cases c with
      | nil => simp [addVec]
      | cons z v =>
        have := ih u v
        simp only [addVec] at this ⊢
        simp [this, Int.add_assoc]

/-- sum of a list of length-`N` vectors -/
def sumVecs (N : Nat) (l : List (List Int)) : List Int := l.foldl addVec (List.replicate N 0)

theorem foldl_addVec_acc (N : Nat) (l : List (List Int)) (hl : ∀ v ∈ l, v.length = N)
    (acc : List Int) (hacc : acc.length = N) :
    l.foldl addVec acc = addVec acc (sumVecs N l) ∧ (l.foldl addVec acc).length = N := by
  induction l generalizing acc with
  | nil =>
    simp only [List.foldl_nil, sumVecs]
    refine ⟨?_, hacc⟩
    have h1 : addVec acc (List.replicate N 0) = acc := by
      have : ∀ (n : Nat) (v : List Int), v.length = n → addVec v (List.replicate n 0) = v := by
        intro n
        induction n with
        | zero => intro v hv; have : v = [] := List.length_eq_zero_iff.mp hv; subst this; rfl
        | succ n ih =>
          intro v hv
          cases v with
          | nil => simp at hv
          | cons x t =>
            have := ih t (by simpa using hv)
            simp only [addVec] at this ⊢
            simp [List.replicate_succ, this]
      exact this N acc hacc
    exact h1.symm
  | cons v t ih =>
    have hv : v.length = N := hl v (by simp)
    have ht : ∀ u ∈ t, u.length = N := fun u hu => hl u (by simp [hu])
    simp only [List.foldl_cons]
    have h1 := ih ht (addVec acc v) (addVec_length' acc v N hacc hv)
    have h2 := ih ht (addVec (List.replicate N 0) v)
      (addVec_length' _ v N (by simp) hv)
    refine ⟨?_, h1.2⟩
    rw [h1.1]
    unfold sumVecs
    simp only [List.foldl_cons]
    rw [h2.1, addVec_zero_left N v hv, addVec_assoc]
    rfl

theorem sumVecs_length (N : Nat) (l : List (List Int)) (hl : ∀ v ∈ l, v.length = N) :
    (sumVecs N l).length = N :=
  (foldl_addVec_acc N l hl _ (by simp)).2

theorem sumVecs_append (N : Nat) (a b : List (List Int)) (ha : ∀ v ∈ a, v.length = N)
    (hb : ∀ v ∈ b, v.length = N) :
    sumVecs N (a ++ b) = addVec (sumVecs N a) (sumVecs N b) := by
  unfold sumVecs
  rw [List.foldl_append]
  exact (foldl_addVec_acc N b hb _ (sumVecs_length N a ha)).1

/-- sum over batches of per-batch sums = sum over the concatenation -/
theorem sumVecs_flatten (N : Nat) (c : Nat → List Int) (hc : ∀ j, (c j).length = N)
    (bs : List (List Nat)) :
    sumVecs N (bs.map fun b => sumVecs N (b.map c)) = sumVecs N (bs.flatten.map c) := by
  induction bs with
  | nil => rfl
  | cons b t ih =>
    have hmem : ∀ (l : List Nat), ∀ v ∈ l.map c, v.length = N := by
      intro l v hv
      obtain ⟨j, _, rfl⟩ := List.mem_map.mp hv
      exact hc j
    have hsum : ∀ v ∈ t.map (fun b => sumVecs N (b.map c)), v.length = N := by
      intro v hv
      obtain ⟨b', _, rfl⟩ := List.mem_map.mp hv
      exact sumVecs_length N _ (hmem b')
    have h1 : sumVecs N ((b :: t).map fun b => sumVecs N (b.map c)) =
        addVec (sumVecs N (b.map c)) (sumVecs N (t.map fun b => sumVecs N (b.map c))) := by
      have := sumVecs_append N [sumVecs N (b.map c)] (t.map fun b => sumVecs N (b.map c))
        (by intro v hv; simp at hv; rw [hv]; exact sumVecs_length N _ (hmem b)) hsum
      simp only [List.map_cons]
      rw [show sumVecs N (b.map c) :: t.map (fun b => sumVecs N (b.map c)) =
        [sumVecs N (b.map c)] ++ t.map (fun b => sumVecs N (b.map c)) from rfl, this]
      congr 1
      unfold sumVecs
      simp only [List.foldl_cons, List.foldl_nil]
      exact addVec_zero_left N _ (sumVecs_length N _ (hmem b))
    rw [h1, ih, List.flatten_cons, List.map_append,
      sumVecs_append N _ _ (hmem b) (hmem t.flatten)]

/-! ### the kernel is a sum of per-target contributions when nothing is carried -/

/-- the arrays at the entry of every iteration -/
def entry (cls : Nat → Cls) (fresh s0 : Work) : Work := resetBy cls fresh s0

theorem kernel_fold (cls : Nat → Cls) (hcls : ∀ a, cls a ≠ .carried) (fresh : Work)
    (iter : Work → Nat → Work × List Int) (s0 : Work) (targets : List Nat)
    (st : Work × List Int) (hst : ∀ a, cls a ≠ .reset → st.1 a = s0 a) :
    (targets.foldl (iterStep cls fresh iter) st).2 =
      targets.foldl (fun acc j => addVec acc (iter (entry cls fresh s0) j).2) st.2 := by
  induction targets generalizing st with
  | nil => rfl
  | cons j t ih =>
    simp only [List.foldl_cons]
    have he : resetBy cls fresh st.1 = entry cls fresh s0 := by
      funext a
      unfold entry resetBy
      by_cases h : cls a = .reset
      · simp [h]
      · simp [h, hst a h]
    have hnext : ∀ a, cls a ≠ .reset → (iterStep cls fresh iter st j).1 a = s0 a := by
      intro a ha
      have hc := hcls a
      have : cls a = .readonly ∨ cls a = .acc := by
        cases hx : cls a <;> simp_all
      simp only [iterStep, this, if_true]
      exact hst a ha
    rw [ih (iterStep cls fresh iter st j) hnext]
    simp only [iterStep, he]

theorem foldl_addVec_map (c : Nat → List Int) (targets : List Nat) (acc : List Int) :
    targets.foldl (fun a j => addVec a (c j)) acc = (targets.map c).foldl addVec acc := by
  induction targets generalizing acc with
  | nil => rfl
  | cons j t ih => simp [ih]

theorem poolKernel_eq_sum (cls : Nat → Cls) (hcls : ∀ a, cls a ≠ .carried) (fresh : Work)
    (iter : Work → Nat → Work × List Int) (N : Nat) (s0 : Work) (targets : List Nat) :
    poolKernel cls fresh iter N s0 targets =
      sumVecs N (targets.map fun j => (iter (entry cls fresh s0) j).2) := by
  unfold poolKernel
  rw [kernel_fold cls hcls fresh iter s0 targets _ (fun a _ => rfl), foldl_addVec_map]
  rfl

theorem clsOf_ne_carried (tbl : List (String × String))
    (h : tbl.all (fun x => clsOfString x.2 != .carried) = true) (a : Nat) :
    clsOf tbl a ≠ .carried := by
  unfold clsOf
  cases hx : tbl[a]? with
  | none => simp
  | some x =>
    have hm : x ∈ tbl := List.mem_of_getElem? hx
    have := List.all_eq_true.mp h x hm
    simpa using this

end Pyunicorn.MpiPool
