import Pyunicorn.Model.Window
import Pyunicorn.Lemmas.WindowIeee
/-! Helper lemmas for C13 (core Lean tactics; Mathlib only enters through the IEEE lemma
`rangeYearsF_eq` of `Lemmas/WindowIeee.lean`). -/
namespace Pyunicorn.Window

variable {α β : Type}

/-! ### boolean-mask indexing -/

theorem select_nil_right (m : List Bool) : select m ([] : List α) = [] := by
  cases m <;> rfl

theorem select_replicate_true (xs : List α) :
    select (List.replicate xs.length true) xs = xs := by
  induction xs with
  | nil => rfl
  | cons x t ih => simp [List.replicate_succ, select, ih]

theorem select_map_eq_filter (p : α → Bool) (xs : List α) :
    select (xs.map p) xs = xs.filter p := by
  induction xs with
  | nil => rfl
  | cons x t ih =>
    simp only [List.map_cons, select, List.filter_cons, ih]

theorem select_map (f : α → β) (m : List Bool) (xs : List α) :
    select m (xs.map f) = (select m xs).map f := by
  induction m generalizing xs with
  | nil => rfl
  | cons b m ih =>
    cases xs with
    | nil => rfl
    | cons x t => cases b <;> simp [select, ih]

theorem select_zip (m : List Bool) (xs : List α) (ys : List β) :
    select m (xs.zip ys) = (select m xs).zip (select m ys) := by
  induction m generalizing xs ys with
  | nil => rfl
  | cons b m ih =>
    cases xs with
    | nil => simp [select]
    | cons x t =>
      cases ys with
      | nil => simp [select, select_nil_right]
      | cons y u => cases b <;> simp [select, ih]

/-- selecting with a mask computed from a parallel list of keys = filtering the
zipped list on the key -/
theorem select_map_zip (q : α → Bool) (ks : List α) (xs : List β) :
    select (ks.map q) xs = ((ks.zip xs).filter (fun p => q p.1)).map Prod.snd := by
  induction ks generalizing xs with
  | nil => rfl
  | cons k ks ih =>
    cases xs with
    | nil => rfl
    | cons x t =>
      simp only [List.map_cons, select, List.zip_cons_cons, List.filter_cons, ih]
      split <;> simp

theorem select_length_eq (m : List Bool) (xs : List α) (ys : List β)
    (h : xs.length = ys.length) : (select m xs).length = (select m ys).length := by
  induction m generalizing xs ys with
  | nil => rfl
  | cons b m ih =>
    cases xs with
    | nil => cases ys with
      | nil => rfl
      | cons y u => simp at h
    | cons x t => cases ys with
      | nil => simp at h
      | cons y u =>
        have := ih t u (by simpa using h)
        cases b <;> simp [select, this]

theorem mem_select (m : List Bool) (xs : List α) (x : α) (h : x ∈ select m xs) : x ∈ xs := by
  induction m generalizing xs with
  | nil => simp [select] at h
  | cons b m ih =>
    cases xs with
    | nil => simp [select] at h
    | cons y t =>
      cases b
      · simp only [select, Bool.false_eq_true, if_false] at h
        exact List.mem_cons_of_mem _ (ih t h)
      · simp only [select, if_true, List.mem_cons] at h
        rcases h with h | h
        · simp [h]
        · exact List.mem_cons_of_mem _ (ih t h)

/-! ### strided slices -/

/-- the positions `xs[k::c]` visits in a list of length `n` -/
def hitMask (c : Nat) : Nat → Nat → List Bool
  | _, 0 => []
  | 0, n + 1 => true :: hitMask c (c - 1) n
  | k + 1, n + 1 => false :: hitMask c k n

theorem hitMask_length (c k n : Nat) : (hitMask c k n).length = n := by
  induction n generalizing k with
  | zero => cases k <;> rfl
  | succ n ih => cases k <;> simp [hitMask, ih]

theorem everyNth_eq_select (c k : Nat) (xs : List α) :
    everyNth c k xs = select (hitMask c k xs.length) xs := by
  induction xs generalizing k with
  | nil => cases k <;> rfl
  | cons x t ih => cases k <;> simp [everyNth, hitMask, select, ih]

theorem setEveryNth_nil (c k : Nat) (A : List α) : setEveryNth c k A [] = A := by
  induction A generalizing k with
  | nil => cases k <;> rfl
  | cons a t ih => cases k <;> simp [setEveryNth, ih]

/-- `A[k::c] = g(xs[k::c])` rewrites exactly the visited positions -/
theorem setEveryNth_map_everyNth (c k : Nat) (g : α → β) (A : List β) (xs : List α)
    (h : A.length = xs.length) :
    setEveryNth c k A ((everyNth c k xs).map g)
      = List.zipWith (fun (b : Bool) (p : β × α) => if b then g p.2 else p.1)
          (hitMask c k xs.length) (A.zip xs) := by
  induction xs generalizing k A with
  | nil =>
    cases A with
    | nil => cases k <;> rfl
    | cons a A' => simp at h
  | cons x t ih =>
    cases A with
    | nil => simp at h
    | cons a A' =>
      have h' : A'.length = t.length := by simpa using h
      cases k with
      | zero => simp [everyNth, setEveryNth, hitMask, ih _ _ h']
      | succ k => simp [everyNth, setEveryNth, hitMask, ih _ _ h']

theorem mod_ne_of_lt (s k c : Nat) (h : k + 1 < c) : s % c ≠ (s + (k + 1)) % c := by
  intro h2
  have hc : 0 < c := by omega
  have hr := Nat.mod_lt s hc
  have e1 : (s + (k + 1)) % c = (s % c + (k + 1)) % c := by
    rw [Nat.add_mod, Nat.mod_eq_of_lt h]
  rw [e1] at h2
  generalize s % c = r at h2 hr
  by_cases h3 : r + (k + 1) < c
  · rw [Nat.mod_eq_of_lt h3] at h2; omega
  · have e2 : (r + (k + 1)) % c = r + (k + 1) - c := by
      rw [Nat.mod_eq_sub_mod (by omega)]
      exact Nat.mod_eq_of_lt (by omega)
    rw [e2] at h2; omega

/-- for a countdown `k < c` started at absolute position `s` with `(s + k) % c = i`
the visited positions are exactly those of phase `i` -/
theorem hitMask_eq_phase (c i : Nat) (n s k : Nat) (hk : k < c) (hs : (s + k) % c = i) :
    hitMask c k n = (List.range' s n).map (fun t => decide (t % c = i)) := by
  induction n generalizing s k with
  | zero => cases k <;> rfl
  | succ n ih =>
    cases k with
    | zero =>
      have h1 : s % c = i := by simpa using hs
      have h2 : (s + 1 + (c - 1)) % c = i := by
        have : s + 1 + (c - 1) = s + c := by omega
        rw [this, Nat.add_mod_right]; exact h1
      simp [hitMask, List.range'_succ, h1, ih (s + 1) (c - 1) (by omega) h2]
    | succ k =>
      have h1 : s % c ≠ i := by
        rw [← hs]; exact mod_ne_of_lt s k c hk
      have h2 : (s + 1 + k) % c = i := by
        have : s + 1 + k = s + (k + 1) := by omega
        rw [this]; exact hs
      simp [hitMask, List.range'_succ, h1, ih (s + 1) k (by omega) h2]

theorem hitMask_phase (c i n : Nat) (hi : i < c) :
    hitMask c i n = (List.range n).map (fun t => decide (t % c = i)) := by
  rw [List.range_eq_range']
  exact hitMask_eq_phase c i n 0 i hi (by simp [Nat.mod_eq_of_lt hi])

/-- generic: selecting the entries whose key is `i` from a list computed entrywise
from the key -/
theorem select_key_zipWith {κ : Type} [DecidableEq κ] (f : Nat → κ) (i : κ) (G : κ → α → β)
    (ts : List Nat) (xs : List α) :
    select (ts.map fun t => decide (f t = i)) (List.zipWith (fun t x => G (f t) x) ts xs)
      = (select (ts.map fun t => decide (f t = i)) xs).map (G i) := by
  induction ts generalizing xs with
  | nil => rfl
  | cons t ts ih =>
    cases xs with
    | nil => rfl
    | cons x xs =>
      by_cases h : f t = i
      · simp [select, h, ih]
      · simp [select, h, ih]

/-! ### vector algebra on rows -/

theorem zeros_length (n : Nat) : (zeros n).length = n := by simp [zeros]

theorem vadd_length (a b : Vec) (h : a.length = b.length) : (vadd a b).length = a.length := by
  simp [vadd, h]

theorem vsub_length (a b : Vec) (h : a.length = b.length) : (vsub a b).length = a.length := by
  simp [vsub, h]

theorem colSum_length (n : Nat) (rows : Mat) (h : ∀ r ∈ rows, r.length = n) :
    (colSum n rows).length = n := by
  induction rows with
  | nil => simp [colSum, zeros]
  | cons r rs ih =>
    have h1 := h r (by simp)
    have h2 := ih (fun r' hr' => h r' (by simp [hr']))
    simp [colSum, vadd, h1, h2]

/-- `(a - m) + m = a` on rows of equal length -/
theorem vadd_vsub_cancel (a m : Vec) (h : a.length = m.length) : vadd (vsub a m) m = a := by
  apply List.ext_getElem
  · simp [vadd, vsub, h]
  · intro i h1 h2
    simp only [vadd, vsub, List.getElem_zipWith]
    grind

theorem vsub_self (a : Vec) : vsub a a = zeros a.length := by
  apply List.ext_getElem
  · simp [vsub, zeros]
  · intro i h1 h2
    simp only [vsub, zeros, List.getElem_zipWith, List.getElem_replicate]
    grind

theorem vec_step (r S m : Vec) (k : Rat) (h1 : r.length = m.length) (h2 : S.length = m.length) :
    vadd (vsub r m) (vsub S (m.map fun x => k * x))
      = vsub (vadd r S) (m.map fun x => (k + 1) * x) := by
  induction m generalizing r S with
  | nil => simp [vadd, vsub]
  | cons x m ih =>
    cases r with
    | nil => simp at h1
    | cons a r =>
      cases S with
      | nil => simp at h2
      | cons b S =>
        have := ih r S (by simpa using h1) (by simpa using h2)
        simp only [vadd, vsub] at this
        simp only [vadd, vsub, List.map_cons, List.zipWith_cons_cons, this, List.cons.injEq,
          and_true]
        grind

theorem vsub_zeros_map_zero (m : Vec) :
    vsub (zeros m.length) (m.map fun x => (0 : Rat) * x) = zeros m.length := by
  induction m with
  | nil => rfl
  | cons x m ih =>
    simp only [vsub, zeros] at ih
    simp only [vsub, zeros, List.length_cons, List.replicate_succ, List.map_cons,
      List.zipWith_cons_cons, ih, List.cons.injEq, and_true]
    grind

/-- `Σ_r (r - m) = Σ_r r - k·m` for `k` rows of length `n` -/
theorem colSum_map_vsub (n : Nat) (rows : Mat) (m : Vec) (h : ∀ r ∈ rows, r.length = n)
    (hm : m.length = n) :
    colSum n (rows.map (vsub · m))
      = vsub (colSum n rows) (m.map fun x => (rows.length : Rat) * x) := by
  induction rows with
  | nil =>
    subst hm
    simp only [List.map_nil, colSum, List.length_nil]
    exact (vsub_zeros_map_zero m).symm
  | cons r rs ih =>
    have h1 := h r (by simp)
    have hrs : ∀ r' ∈ rs, r'.length = n := fun r' hr' => h r' (by simp [hr'])
    have h2 := colSum_length n rs hrs
    have hc : (((rs.length + 1 : Nat)) : Rat) = (rs.length : Rat) + 1 := by
      simp [Rat.natCast_add]
    simp only [List.map_cons, colSum, ih hrs, List.length_cons, hc]
    exact vec_step r (colSum n rs) m _ (by omega) (by omega)

theorem map_mul_div (S : Vec) (k : Rat) (hk : k ≠ 0) :
    (S.map (· / k)).map (fun x => k * x) = S := by
  rw [List.map_map]
  conv => rhs; rw [← List.map_id S]
  apply List.map_congr_left
  intro x _
  simp only [Function.comp]
  grind

/-- the column sums of the deviations from the column mean vanish -/
theorem colSum_deviations (n : Nat) (rows : Mat) (h : ∀ r ∈ rows, r.length = n)
    (hne : rows ≠ []) :
    colSum n (rows.map (vsub · ((colSum n rows).map (· / (rows.length : Rat))))) = zeros n := by
  have hk : (rows.length : Rat) ≠ 0 := by
    have : rows.length ≠ 0 := by
      cases rows with
      | nil => exact absurd rfl hne
      | cons _ _ => simp
    exact_mod_cast this
  rw [colSum_map_vsub n rows _ h (by simp [colSum_length n rows h]), map_mul_div _ _ hk,
    vsub_self, colSum_length n rows h]

/-! ### the loop of `anomaly()` in closed form -/

/-- the mean row of phase `p` (a total function; only used for non-empty phases) -/
def meanRow (c n : Nat) (obs : Mat) (p : Nat) : Vec :=
  (colSum n (everyNth c p obs)).map (· / ((everyNth c p obs).length : Rat))

theorem colMean_of_ne_nil (n : Nat) (rows : Mat) (h : rows ≠ []) :
    colMean n rows = some ((colSum n rows).map (· / (rows.length : Rat))) := by
  cases rows with
  | nil => exact absurd rfl h
  | cons r rs => simp [colMean]

theorem anomalyStep_eq (c n : Nat) (obs A : Mat) (i : Nat) :
    anomalyStep c n obs A i
      = setEveryNth c i A ((everyNth c i obs).map (vsub · (meanRow c n obs i))) := by
  unfold anomalyStep
  by_cases h : everyNth c i obs = []
  · simp [h, colMean, setEveryNth_nil]
  · simp [colMean_of_ne_nil n _ h, meanRow]

/-- state of the array `anomaly` after the phases `< i` have been processed -/
def partialAnom (c n : Nat) (obs : Mat) (i : Nat) : Mat :=
  List.zipWith (fun t x => if t % c < i then vsub x (meanRow c n obs (t % c)) else zeros n)
    (List.range obs.length) obs

theorem partialAnom_length (c n : Nat) (obs : Mat) (i : Nat) :
    (partialAnom c n obs i).length = obs.length := by simp [partialAnom]

theorem partialAnom_step (c n : Nat) (obs : Mat) (i : Nat) (hi : i < c) :
    anomalyStep c n obs (partialAnom c n obs i) i = partialAnom c n obs (i + 1) := by
  rw [anomalyStep_eq, setEveryNth_map_everyNth _ _ _ _ _ (partialAnom_length c n obs i),
    hitMask_phase c i _ hi]
  apply List.ext_getElem
  · simp [partialAnom]
  · intro t h1 h2
    simp only [partialAnom, List.getElem_zipWith, List.getElem_map, List.getElem_range,
      List.getElem_zip]
    by_cases h : t % c = i
    · simp [h]
    · have : (t % c < i + 1) = (t % c < i) := by
        apply propext; constructor <;> intro h' <;> omega
      simp [h, this]

theorem foldl_anomalyStep (c n : Nat) (obs : Mat) (i : Nat) (hi : i ≤ c) :
    (List.range i).foldl (anomalyStep c n obs) (List.replicate obs.length (zeros n))
      = partialAnom c n obs i := by
  induction i with
  | zero =>
    apply List.ext_getElem
    · simp [partialAnom]
    · intro t h1 h2
      simp [partialAnom]
  | succ i ih =>
    rw [List.range_succ, List.foldl_append, ih (by omega)]
    simp only [List.foldl_cons, List.foldl_nil]
    exact partialAnom_step c n obs i (by omega)

/-- **closed form of the loop**: entry `t` is `obs[t] - mean(phase t % c)` -/
theorem anomalyOf_closed (c n : Nat) (obs : Mat) (hc : 0 < c) :
    anomalyOf c n obs
      = List.zipWith (fun t x => vsub x (meanRow c n obs (t % c))) (List.range obs.length) obs := by
  unfold anomalyOf
  rw [foldl_anomalyStep c n obs c (Nat.le_refl c)]
  unfold partialAnom
  have : ∀ t : Nat, (t % c < c) = True := fun t => by simp [Nat.mod_lt _ hc]
  simp [this]

/-! ### further helpers: shapes, lookup, nonempty phases -/

theorem select_all_false (m : List Bool) (xs : List α) (h : ∀ b ∈ m, b = false) :
    select m xs = [] := by
  induction m generalizing xs with
  | nil => rfl
  | cons b m ih =>
    cases xs with
    | nil => rfl
    | cons x xs =>
      have hb : b = false := h b (by simp)
      subst hb
      simp only [select, Bool.false_eq_true, if_false]
      exact ih xs (fun b' hb' => h b' (by simp [hb']))

theorem select_map_zip_self (q : α → Bool) (ks : List α) (xs : List β) :
    select (ks.map q) (ks.zip xs) = (ks.zip xs).filter (fun p => q p.1) := by
  induction ks generalizing xs with
  | nil => rfl
  | cons k ks ih =>
    cases xs with
    | nil => rfl
    | cons x t => simp only [List.map_cons, List.zip_cons_cons, select, List.filter_cons, ih]

theorem select_eq_nil_of_left {m : List Bool} {xs : List α} {ys : List β}
    (h : xs.length = ys.length) (hx : select m xs = []) : select m ys = [] := by
  have := select_length_eq m xs ys h
  rw [hx] at this
  exact List.eq_nil_of_length_eq_zero this.symm

theorem lookup_mem {κ ν : Type} [BEq κ] [LawfulBEq κ] (k : κ) (l : List (κ × ν)) (v : ν)
    (h : l.lookup k = some v) : (k, v) ∈ l := by
  induction l with
  | nil => simp [List.lookup] at h
  | cons e l ih =>
    obtain ⟨a, b⟩ := e
    simp only [List.lookup] at h
    split at h
    · rename_i heq
      have : k = a := by simpa using heq
      subst this
      simp at h; simp [h]
    · exact List.mem_cons_of_mem _ (ih h)

/-- a visited position makes the slice non-empty -/
theorem select_ne_nil_of_get (m : List Bool) (xs : List α) (t : Nat) (ht : t < xs.length)
    (hm : m[t]? = some true) : select m xs ≠ [] := by
  induction m generalizing xs t with
  | nil => simp at hm
  | cons b m ih =>
    cases xs with
    | nil => simp at ht
    | cons x xs =>
      cases t with
      | zero =>
        have : b = true := by simpa using hm
        subst this; simp [select]
      | succ t =>
        have := ih xs t (by simpa using ht) (by simpa using hm)
        cases b <;> simp [select, this]

theorem everyNth_phase_ne_nil (c : Nat) (hc : 0 < c) (xs : List α) (t : Nat) (ht : t < xs.length) :
    everyNth c (t % c) xs ≠ [] := by
  rw [everyNth_eq_select, hitMask_phase c (t % c) _ (Nat.mod_lt _ hc)]
  apply select_ne_nil_of_get _ _ t ht
  simp [ht]

theorem mem_everyNth (c k : Nat) (xs : List α) (x : α) (h : x ∈ everyNth c k xs) : x ∈ xs := by
  rw [everyNth_eq_select] at h
  exact mem_select _ _ _ h

theorem meanRow_length (c n : Nat) (obs : Mat) (p : Nat) (h : ∀ r ∈ obs, r.length = n) :
    (meanRow c n obs p).length = n := by
  simp only [meanRow, List.length_map]
  exact colSum_length n _ (fun r hr => h r (mem_everyNth _ _ _ _ hr))

/-! ### minimum / maximum (`Grid._boundaries`) -/

theorem foldl_min_spec (xs : Vec) (a : Rat) :
    (xs.foldl (fun a b => if b < a then b else a) a = a
      ∨ xs.foldl (fun a b => if b < a then b else a) a ∈ xs)
    ∧ xs.foldl (fun a b => if b < a then b else a) a ≤ a
    ∧ ∀ x ∈ xs, xs.foldl (fun a b => if b < a then b else a) a ≤ x := by
  induction xs generalizing a with
  | nil => simp
  | cons y ys ih =>
    simp only [List.foldl_cons]
    by_cases hy : y < a
    · simp only [hy, if_true]
      obtain ⟨h1, h2, h3⟩ := ih y
      refine ⟨?_, by grind, ?_⟩
      · rcases h1 with h1 | h1
        · right; simp [h1]
        · right; simp [h1]
      · intro x hx
        simp only [List.mem_cons] at hx
        rcases hx with rfl | hx
        · exact h2
        · exact h3 x hx
    · simp only [hy, if_false]
      obtain ⟨h1, h2, h3⟩ := ih a
      refine ⟨?_, h2, ?_⟩
      · rcases h1 with h1 | h1
        · left; exact h1
        · right; simp [h1]
      · intro x hx
        simp only [List.mem_cons] at hx
        rcases hx with rfl | hx
        · grind
        · exact h3 x hx

theorem foldl_max_spec (xs : Vec) (a : Rat) :
    (xs.foldl (fun a b => if a < b then b else a) a = a
      ∨ xs.foldl (fun a b => if a < b then b else a) a ∈ xs)
    ∧ a ≤ xs.foldl (fun a b => if a < b then b else a) a
    ∧ ∀ x ∈ xs, x ≤ xs.foldl (fun a b => if a < b then b else a) a := by
  induction xs generalizing a with
  | nil => simp
  | cons y ys ih =>
    simp only [List.foldl_cons]
    by_cases hy : a < y
    · simp only [hy, if_true]
      obtain ⟨h1, h2, h3⟩ := ih y
      refine ⟨?_, by grind, ?_⟩
      · rcases h1 with h1 | h1
        · right; simp [h1]
        · right; simp [h1]
      · intro x hx
        simp only [List.mem_cons] at hx
        rcases hx with rfl | hx
        · exact h2
        · exact h3 x hx
    · simp only [hy, if_false]
      obtain ⟨h1, h2, h3⟩ := ih a
      refine ⟨?_, h2, ?_⟩
      · rcases h1 with h1 | h1
        · left; exact h1
        · right; simp [h1]
      · intro x hx
        simp only [List.mem_cons] at hx
        rcases hx with rfl | hx
        · grind
        · exact h3 x hx

/-- `vmin` returns the least element -/
theorem vmin_spec (xs : Vec) (m : Rat) (h : vmin xs = some m) : m ∈ xs ∧ ∀ x ∈ xs, m ≤ x := by
  cases xs with
  | nil => simp [vmin] at h
  | cons a t =>
    simp only [vmin, Option.some.injEq] at h
    subst h
    obtain ⟨h1, h2, h3⟩ := foldl_min_spec t a
    refine ⟨?_, ?_⟩
    · rcases h1 with h1 | h1
      · simp [h1]
      · simp [h1]
    · intro x hx
      simp only [List.mem_cons] at hx
      rcases hx with rfl | hx
      · exact h2
      · exact h3 x hx

theorem vmax_spec (xs : Vec) (m : Rat) (h : vmax xs = some m) : m ∈ xs ∧ ∀ x ∈ xs, x ≤ m := by
  cases xs with
  | nil => simp [vmax] at h
  | cons a t =>
    simp only [vmax, Option.some.injEq] at h
    subst h
    obtain ⟨h1, h2, h3⟩ := foldl_max_spec t a
    refine ⟨?_, ?_⟩
    · rcases h1 with h1 | h1
      · simp [h1]
      · simp [h1]
    · intro x hx
      simp only [List.mem_cons] at hx
      rcases hx with rfl | hx
      · exact h2
      · exact h3 x hx
/-! ### insertion sort (`ndarray.sort()` of the selected indices) -/

theorem insertSorted_perm (x : Nat) (l : List Nat) : (insertSorted x l).Perm (x :: l) := by
  induction l with
  | nil => exact List.Perm.refl _
  | cons y ys ih =>
    simp only [insertSorted]
    split
    · exact List.Perm.refl _
    · exact (List.Perm.cons y ih).trans (List.Perm.swap x y ys)

theorem sortNat_perm (l : List Nat) : (sortNat l).Perm l := by
  induction l with
  | nil => exact List.Perm.refl _
  | cons x xs ih =>
    simp only [sortNat, List.foldr_cons]
    exact (insertSorted_perm x _).trans (List.Perm.cons x ih)

theorem insertSorted_sorted (x : Nat) (l : List Nat) (h : l.Pairwise (· ≤ ·)) :
    (insertSorted x l).Pairwise (· ≤ ·) := by
  induction l with
  | nil => simp [insertSorted]
  | cons y ys ih =>
    simp only [insertSorted]
    have hy := List.pairwise_cons.mp h
    split
    · rename_i hxy
      refine List.pairwise_cons.mpr ⟨?_, h⟩
      intro z hz
      simp only [List.mem_cons] at hz
      rcases hz with rfl | hz
      · exact hxy
      · exact Nat.le_trans hxy (hy.1 z hz)
    · rename_i hxy
      refine List.pairwise_cons.mpr ⟨?_, ih hy.2⟩
      intro z hz
      have := (insertSorted_perm x ys).mem_iff.mp hz
      simp only [List.mem_cons] at this
      rcases this with rfl | hz'
      · omega
      · exact hy.1 z hz'

theorem sortNat_sorted (l : List Nat) : (sortNat l).Pairwise (· ≤ ·) := by
  induction l with
  | nil => simp [sortNat]
  | cons x xs ih =>
    simp only [sortNat, List.foldr_cons]
    exact insertSorted_sorted x _ ih


/-! ## Round 2: the loops as written, wrapping phase numbers, the month loop -/

theorem foldl_set_range (f : Nat → α) (init : List α) (k : Nat) (hk : k ≤ init.length) :
    (List.range k).foldl (fun M i => M.set i (f i)) init
      = (List.range k).map f ++ init.drop k := by
  induction k with
  | zero => simp
  | succ k ih =>
    rw [List.range_succ, List.foldl_append, ih (by omega)]
    simp only [List.foldl_cons, List.foldl_nil, List.map_append, List.map_cons, List.map_nil]
    have hl : ((List.range k).map f).length = k := by simp
    rw [List.set_append_right _ _ (by omega), hl, Nat.sub_self]
    have : init.drop k = init[k] :: init.drop (k + 1) := by
      rw [List.drop_eq_getElem_cons (by omega)]
    rw [this]
    simp [List.set]

theorem phaseMeanLoop_eq (c n : Nat) (obs : Mat) : phaseMeanLoop c n obs = phaseMean c n obs := by
  unfold phaseMeanLoop phaseMean
  rw [foldl_set_range (fun i => colMean n (everyNth c i obs)) _ c (by simp)]
  simp

theorem arange_phase (c ry i : Nat) (hi : i < c) :
    arange i (ry * c) c = (List.range ry).map fun y => i + y * c := by
  unfold arange
  have : (ry * c - i + c - 1) / c = ry := by
    cases ry with
    | zero =>
      simp only [Nat.zero_mul, Nat.zero_sub, Nat.zero_add]
      exact Nat.div_eq_of_lt (by omega)
    | succ r =>
      have h1 : (r + 1) * c - i + c - 1 = c * (r + 1) + (c - 1 - i) := by
        have : (r + 1) * c = c * (r + 1) := Nat.mul_comm _ _
        have h2 : c ≤ c * (r + 1) := Nat.le_mul_of_pos_right c (by omega)
        omega
      rw [h1, Nat.mul_add_div (by omega), Nat.div_eq_of_lt (by omega)]
  rw [this]

theorem foldl_rowAssign (c ry : Nat) (k : Nat) (hk : k ≤ c) :
    (List.range k).foldl
      (fun (acc : Res (List (List Nat))) i =>
        acc.bind fun M => rowAssign ry M i (arange i (ry * c) c))
      (Res.ok (List.replicate c (List.replicate ry 0)))
    = Res.ok ((List.range k).map (fun i => (List.range ry).map fun y => i + y * c)
        ++ List.replicate (c - k) (List.replicate ry 0)) := by
  induction k with
  | zero => simp
  | succ k ih =>
    rw [List.range_succ, List.foldl_append, ih (by omega)]
    simp only [List.foldl_cons, List.foldl_nil, Res.bind]
    rw [arange_phase c ry k (by omega)]
    simp only [rowAssign, List.length_map, List.length_range, if_true]
    congr 1
    have hl : ((List.range k).map (fun i => (List.range ry).map fun y => i + y * c)).length = k := by
      simp
    rw [List.set_append_right _ _ (by omega), hl, Nat.sub_self]
    have : c - k = (c - (k + 1)) + 1 := by omega
    rw [this, List.replicate_succ]
    simp

/-- the loop of `phase_indices()` never fails for a positive cycle and computes the closed form -/
theorem phaseIndicesLoop_eq (c T : Nat) (hc : 0 < c) (hT : T < 2 ^ 53) :
    phaseIndicesLoop c T
      = .ok ((List.range c).map fun i => (List.range (T / c)).map fun y => i + y * c) := by
  unfold phaseIndicesLoop
  simp only [Nat.ne_of_gt hc, if_false, rangeYearsF_eq T c hc hT]
  rw [foldl_rowAssign c (T / c) c (Nat.le_refl c)]
  simp


/-! ### negative (wrapping) phase numbers -/

theorem normIndex_valid (n : Nat) (p : Int) (h1 : -(n : Int) ≤ p) (h2 : p < (n : Int)) :
    normIndex n p = some (p % (n : Int)).toNat := by
  unfold normIndex
  by_cases h0 : 0 ≤ p
  · simp only [h0, h2, if_true]
    rw [Int.emod_eq_of_lt h0 h2]
  · simp only [h0, h1, if_false, if_true]
    have : p % (n : Int) = p + n := by
      rw [← Int.add_emod_right p n]
      exact Int.emod_eq_of_lt (by omega) (by omega)
    rw [this]

theorem normIndex_invalid (n : Nat) (p : Int) (h : p < -(n : Int) ∨ (n : Int) ≤ p) :
    normIndex n p = none := by
  unfold normIndex
  by_cases h0 : 0 ≤ p
  · have : ¬ p < (n : Int) := by omega
    simp [h0, this]
  · have : ¬ -(n : Int) ≤ p := by omega
    simp [h0, this]

theorem normAll_valid (n : Nat) (sel : List Int)
    (h : ∀ p ∈ sel, -(n : Int) ≤ p ∧ p < (n : Int)) :
    normAll n sel = some (sel.map fun p => (p % (n : Int)).toNat) := by
  induction sel with
  | nil => rfl
  | cons p ps ih =>
    have hp := h p (by simp)
    simp only [normAll, normIndex_valid n p hp.1 hp.2,
      ih (fun q hq => h q (List.mem_cons_of_mem _ hq)), List.map_cons]

theorem normAll_invalid (n : Nat) (sel : List Int)
    (h : ∃ p ∈ sel, p < -(n : Int) ∨ (n : Int) ≤ p) : normAll n sel = none := by
  induction sel with
  | nil => obtain ⟨p, hp, _⟩ := h; simp at hp
  | cons q qs ih =>
    obtain ⟨p, hp, hbad⟩ := h
    rcases List.mem_cons.mp hp with rfl | hp'
    · simp [normAll, normIndex_invalid n p hbad]
    · have := ih ⟨p, hp', hbad⟩
      simp only [normAll, this]
      split <;> simp_all

theorem toNat_emod_lt (c : Nat) (hc : 0 < c) (p : Int) : (p % (c : Int)).toNat < c := by
  have h1 := Int.emod_nonneg p (by omega : (c : Int) ≠ 0)
  have h2 := Int.emod_lt_of_pos p (by omega : (0 : Int) < c)
  omega

/-- valid integer phase numbers: the result is that of the wrapped natural numbers -/
theorem selectedI_valid (c T : Nat) (hc : 0 < c) (hT : T < 2 ^ 53) (sel : List Int)
    (h : ∀ p ∈ sel, -(c : Int) ≤ p ∧ p < (c : Int)) :
    indicesSelectedPhasesI c T sel
      = indicesSelectedPhases c T (sel.map fun p => (p % (c : Int)).toNat) := by
  unfold indicesSelectedPhasesI indicesSelectedPhases
  rw [phaseIndicesLoop_eq c T hc hT, normAll_valid c sel h]
  have hall : ((sel.map fun p => (p % (c : Int)).toNat).all (· < c)) = true := by
    simp only [List.all_eq_true, decide_eq_true_eq, List.mem_map]
    rintro _ ⟨p, _, rfl⟩
    exact toNat_emod_lt c hc p
  simp only [Res.bind, phaseIndices, Nat.ne_of_gt hc, if_false, hall, if_true]

theorem selectedI_invalid (c T : Nat) (hc : 0 < c) (hT : T < 2 ^ 53) (sel : List Int)
    (h : ∃ p ∈ sel, p < -(c : Int) ∨ (c : Int) ≤ p) :
    indicesSelectedPhasesI c T sel = .indexError := by
  unfold indicesSelectedPhasesI
  rw [phaseIndicesLoop_eq c T hc hT, normAll_invalid c sel h]
  rfl

/-- membership in the result of `indices_selected_phases`: exactly the indices of the
complete years whose phase is selected -/
theorem mem_selected_iff (c T : Nat) (hc : 0 < c) (sel : List Nat) (hs : ∀ p ∈ sel, p < c)
    (idx : List Nat) (h : indicesSelectedPhases c T sel = .ok idx) (t : Nat) :
    t ∈ idx ↔ t < (T / c) * c ∧ t % c ∈ sel := by
  have hall : sel.all (· < c) = true := by
    simp only [List.all_eq_true, decide_eq_true_eq]; exact hs
  have hrows : (sel.map fun p => ((List.range c).map fun i =>
        (List.range (T / c)).map fun y => i + y * c).getD p [])
      = sel.map fun p => (List.range (T / c)).map fun y => p + y * c := by
    apply List.map_congr_left
    intro p hp
    simp [List.getD, List.getElem?_map, List.getElem?_range (hs p hp)]
  simp only [indicesSelectedPhases, phaseIndices, Nat.ne_of_gt hc, if_false, hall, if_true,
    hrows, Res.ok.injEq] at h
  subst h
  rw [(sortNat_perm _).mem_iff]
  simp only [List.mem_flatten, List.mem_map]
  constructor
  · rintro ⟨row, ⟨p, hp, rfl⟩, hrow⟩
    simp only [List.mem_map, List.mem_range] at hrow
    obtain ⟨y, hy, rfl⟩ := hrow
    have hpc := hs p hp
    have h1 : (y + 1) * c ≤ (T / c) * c := Nat.mul_le_mul_right c hy
    rw [Nat.succ_mul] at h1
    refine ⟨by omega, ?_⟩
    rw [Nat.add_mul_mod_self_right, Nat.mod_eq_of_lt hpc]
    exact hp
  · rintro ⟨hlt, hmem⟩
    refine ⟨_, ⟨t % c, hmem, rfl⟩, ?_⟩
    simp only [List.mem_map, List.mem_range]
    refine ⟨t / c, ?_, ?_⟩
    · exact Nat.div_lt_of_lt_mul (by rw [Nat.mul_comm]; exact hlt)
    · have := Nat.mod_add_div t c
      rw [Nat.mul_comm] at this
      exact this

theorem length_flatten_const (k : Nat) (ls : List (List Nat)) (h : ∀ l ∈ ls, l.length = k) :
    ls.flatten.length = ls.length * k := by
  induction ls with
  | nil => simp
  | cons l ls ih =>
    simp only [List.flatten_cons, List.length_append, List.length_cons]
    rw [ih (fun l' hl' => h l' (List.mem_cons_of_mem _ hl')), h l (by simp), Nat.succ_mul]
    omega

theorem selected_length (c T : Nat) (hc : 0 < c) (sel : List Nat) (hs : ∀ p ∈ sel, p < c)
    (idx : List Nat) (h : indicesSelectedPhases c T sel = .ok idx) :
    idx.length = sel.length * (T / c) := by
  have hall : sel.all (· < c) = true := by
    simp only [List.all_eq_true, decide_eq_true_eq]; exact hs
  simp only [indicesSelectedPhases, phaseIndices, Nat.ne_of_gt hc, if_false, hall, if_true,
    Res.ok.injEq] at h
  subst h
  rw [(sortNat_perm _).length_eq, length_flatten_const (T / c)]
  · simp
  · intro l hl
    obtain ⟨p, hp, rfl⟩ := List.mem_map.mp hl
    simp [List.getD, List.getElem?_map, List.getElem?_range (hs p hp)]

/-! ### the month → day loop -/

theorem foldl_append_singleton (g : Nat → β) (acc : List β) (k : Nat) :
    (List.range k).foldl (fun acc d => acc ++ [g d]) acc = acc ++ (List.range k).map g := by
  induction k with
  | zero => simp
  | succ k ih => rw [List.range_succ, List.foldl_append, ih]; simp

theorem foldl_append_flatMap (h : α → List β) (acc : List β) (ms : List α) :
    ms.foldl (fun acc m => acc ++ h m) acc = acc ++ ms.flatMap h := by
  induction ms generalizing acc with
  | nil => simp
  | cons m ms ih => simp [ih]

/-- the two nested loops build the days of the selected months, month by month -/
theorem monthDays_eq (months : List Int) :
    monthDays months = months.flatMap fun m => (List.range 30).map fun d => m * 30 + Int.ofNat d := by
  unfold monthDays
  have : (fun (acc : List Int) (m : Int) =>
        (List.range 30).foldl (fun acc d => acc ++ [m * 30 + Int.ofNat d]) acc)
      = fun acc m => acc ++ (List.range 30).map fun d => m * 30 + Int.ofNat d := by
    funext acc m
    exact foldl_append_singleton _ acc 30
  rw [this, foldl_append_flatMap]
  simp

theorem mem_monthDays (months : List Int) (x : Int) :
    x ∈ monthDays months ↔ ∃ m ∈ months, ∃ d : Nat, d < 30 ∧ x = m * 30 + (d : Int) := by
  rw [monthDays_eq]
  simp only [List.mem_flatMap, List.mem_map, List.mem_range]
  constructor
  · rintro ⟨m, hm, d, hd, rfl⟩; exact ⟨m, hm, d, hd, rfl⟩
  · rintro ⟨m, hm, d, hd, rfl⟩; exact ⟨m, hm, d, hd, rfl⟩

/-! ### `int(T / c)` -/

theorem floor_div_nat (T c : Nat) (hc : 0 < c) :
    Rat.floor (((T : Int) : Rat) / ((c : Int) : Rat)) = ((T / c : Nat) : Int) := by
  have hcq : (0 : Rat) < ((c : Int) : Rat) := by
    have : ((0 : Int) : Rat) < ((c : Int) : Rat) := Rat.intCast_lt_intCast.mpr (by omega)
    simpa using this
  have hci : (0 : Int) < (c : Int) := by omega
  have hk : ((T / c : Nat) : Int) = (T : Int) / (c : Int) := by simp
  rw [hk]
  apply Int.le_antisymm
  · -- floor < k + 1
    have : Rat.floor (((T : Int) : Rat) / ((c : Int) : Rat)) < (T : Int) / (c : Int) + 1 := by
      rw [Rat.floor_lt_iff, Rat.div_lt_iff hcq, ← Rat.intCast_mul, Rat.intCast_lt_intCast]
      exact Int.lt_ediv_add_one_mul_self _ hci
    omega
  · apply Int.not_lt.mp
    rw [Rat.floor_lt_iff, Rat.div_lt_iff hcq, ← Rat.intCast_mul, Rat.intCast_lt_intCast]
    have := Int.ediv_mul_le (T : Int) (Int.ne_of_gt hci)
    omega

/-! ### rescaling -/

/-- multiply every entry of a row / of a matrix by `k` -/
def smul (k : Rat) (v : Vec) : Vec := v.map (k * ·)
def msmul (k : Rat) (A : Mat) : Mat := A.map (smul k)

theorem everyNth_map {α β : Type} (f : α → β) (c k : Nat) (xs : List α) :
    everyNth c k (xs.map f) = (everyNth c k xs).map f := by
  rw [everyNth_eq_select, everyNth_eq_select, List.length_map, select_map]

theorem vadd_smul (k : Rat) (a b : Vec) : vadd (smul k a) (smul k b) = smul k (vadd a b) := by
  induction a generalizing b with
  | nil => simp [vadd, smul]
  | cons x xs ih =>
    cases b with
    | nil => simp [vadd, smul]
    | cons y ys =>
      have := ih ys
      simp only [vadd, smul, List.map_cons, List.zipWith_cons_cons] at this ⊢
      rw [this, Rat.mul_add]

theorem vsub_smul (k : Rat) (a b : Vec) : vsub (smul k a) (smul k b) = smul k (vsub a b) := by
  induction a generalizing b with
  | nil => simp [vsub, smul]
  | cons x xs ih =>
    cases b with
    | nil => simp [vsub, smul]
    | cons y ys =>
      have := ih ys
      simp only [vsub, smul, List.map_cons, List.zipWith_cons_cons] at this ⊢
      rw [this]
      congr 1
      rw [Rat.sub_eq_add_neg, Rat.sub_eq_add_neg, Rat.mul_add, Rat.mul_neg]

theorem colSum_smul (k : Rat) (n : Nat) (rows : Mat) :
    colSum n (msmul k rows) = smul k (colSum n rows) := by
  induction rows with
  | nil => simp [msmul, colSum, smul, zeros]
  | cons r rs ih =>
    simp only [msmul, List.map_cons, colSum] at ih ⊢
    rw [ih, vadd_smul]

theorem meanRow_smul (k : Rat) (c n : Nat) (obs : Mat) (p : Nat) :
    meanRow c n (msmul k obs) p = smul k (meanRow c n obs p) := by
  unfold meanRow
  have e : everyNth c p (msmul k obs) = msmul k (everyNth c p obs) := everyNth_map _ _ _ _
  rw [e, colSum_smul]
  simp only [msmul, smul, List.length_map, List.map_map]
  apply List.map_congr_left
  intro x _
  simp only [Function.comp, Rat.div_def, Rat.mul_assoc]

end Pyunicorn.Window
