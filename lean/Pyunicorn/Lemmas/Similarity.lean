import Pyunicorn.Model.Similarity
/-! Helper lemmas for C09 (core Lean only). -/
namespace Pyunicorn.Similarity

/-! ### row-major index arithmetic -/

theorem flat_div (N i j : Nat) (hj : j < N) : (i * N + j) / N = i := by
  rw [Nat.mul_comm, Nat.mul_add_div (by omega), Nat.div_eq_of_lt hj]; simp

theorem flat_mod (N i j : Nat) (hj : j < N) : (i * N + j) % N = j := by
  rw [Nat.mul_comm, Nat.mul_add_mod, Nat.mod_eq_of_lt hj]

theorem flat_lt (N i j : Nat) (hi : i < N) (hj : j < N) : i * N + j < N * N := by
  have : (i + 1) * N ≤ N * N := Nat.mul_le_mul_right N hi
  rw [Nat.add_mul] at this
  omega

/-- the stride `N + 1` hits exactly the diagonal of the flattened `N × N` matrix -/
theorem stride_diag (N i j : Nat) (hi : i < N) (hj : j < N) :
    (i * N + j) % (N + 1) = 0 ↔ i = j := by
  constructor
  · intro h
    by_cases hij : i ≤ j
    · -- i * N + j = i * (N+1) + (j - i)
      have e : i * N + j = (N + 1) * i + (j - i) := by
        rw [Nat.add_mul, Nat.mul_comm N i]; omega
      rw [e, Nat.mul_add_mod, Nat.mod_eq_of_lt (by omega)] at h
      omega
    · -- i * N + j = (i-1) * (N+1) + (N + 1 - (i - j))
      exfalso
      have e : i * N + j = (N + 1) * (i - 1) + (N + 1 - (i - j)) := by
        obtain ⟨i', rfl⟩ : ∃ i', i = i' + 1 := ⟨i - 1, by omega⟩
        simp only [Nat.add_sub_cancel]
        rw [Nat.add_mul, Nat.add_mul, Nat.mul_comm N i']
        omega
      rw [e, Nat.mul_add_mod, Nat.mod_eq_of_lt (by omega)] at h
      omega
  · rintro rfl
    have e : i * N + i = (N + 1) * i := by rw [Nat.add_mul, Nat.mul_comm N i]; omega
    rw [e]; exact Nat.mul_mod_right _ _

theorem stride_diag' (N p : Nat) (hp : p < N * N) :
    p % (N + 1) = 0 ↔ p / N = p % N := by
  have hN : 0 < N := by
    rcases Nat.eq_zero_or_pos N with h | h
    · subst h; simp at hp
    · exact h
  have hi : p / N < N := (Nat.div_lt_iff_lt_mul hN).2 hp
  have hj : p % N < N := Nat.mod_lt _ hN
  have e : p = (p / N) * N + p % N := by
    have := Nat.div_add_mod p N
    rw [Nat.mul_comm] at this; omega
  have := stride_diag N (p / N) (p % N) hi hj
  rw [← e] at this
  exact this

/-! ### closed form of the thresholded adjacency -/

/-- entry `p` of the flattened adjacency -/
def entry (W : Sim) (θ : Rat) (N p : Nat) : Bool :=
  if p % (N + 1) = 0 then false else decide (θ < W (p / N) (p % N))

theorem thresholdAdjacency_eq (W : Sim) (θ : Rat) (N : Nat) :
    thresholdAdjacency W θ N = (List.range (N * N)).map (entry W θ N) := by
  apply List.ext_getElem?
  intro p
  simp only [thresholdAdjacency, zeroStride, threshFlat, List.getElem?_mapIdx, List.getElem?_map]
  by_cases hp : p < N * N
  · simp [List.getElem?_range hp, entry]
  · simp [List.getElem?_eq_none (l := List.range (N * N)) (by simpa using hp)]

theorem length_thresholdAdjacency (W : Sim) (θ : Rat) (N : Nat) :
    (thresholdAdjacency W θ N).length = N * N := by
  simp [thresholdAdjacency_eq]

theorem getElem?_thresholdAdjacency (W : Sim) (θ : Rat) (N i j : Nat) (hi : i < N) (hj : j < N) :
    (thresholdAdjacency W θ N)[i * N + j]? = some (decide (i ≠ j ∧ θ < W i j)) := by
  rw [thresholdAdjacency_eq, List.getElem?_map, List.getElem?_range (flat_lt N i j hi hj)]
  simp only [Option.map_some, entry, flat_div N i j hj, flat_mod N i j hj]
  by_cases hij : i = j
  · subst hij
    have : (i * N + i) % (N + 1) = 0 := (stride_diag N i i hi hi).2 rfl
    simp [this]
  · have : ¬ (i * N + j) % (N + 1) = 0 := fun h => hij ((stride_diag N i j hi hj).1 h)
    simp [this, hij]

/-- number of ones of the adjacency = number of off-diagonal entries above the threshold -/
theorem nnz_thresholdAdjacency (W : Sim) (θ : Rat) (N : Nat) :
    nnz (thresholdAdjacency W θ N) = (offDiag W N).countP fun s => decide (θ < s) := by
  simp only [nnz, thresholdAdjacency_eq, offDiag, List.count_eq_countP, List.countP_map,
    List.countP_filter]
  apply List.countP_congr
  intro p hp
  have hp' : p < N * N := by simpa using hp
  have := stride_diag' N p hp'
  by_cases h : p % (N + 1) = 0
  · simp [entry, h, this.1 h]
  · have h2 : ¬ p / N = p % N := fun e => h (this.2 e)
    simp [entry, h, h2]

/-! ### sorted lists and counts -/

theorem insertAsc_perm (a : Rat) (l : List Rat) : (insertAsc a l).Perm (a :: l) := by
  induction l with
  | nil => simp [insertAsc]
  | cons b t ih =>
    by_cases h : a ≤ b
    · simp [insertAsc, h]
    · simp only [insertAsc, h, if_false]
      exact (List.Perm.cons b ih).trans (List.Perm.swap a b t)

theorem sortAsc_perm (l : List Rat) : (sortAsc l).Perm l := by
  induction l with
  | nil => simp [sortAsc]
  | cons a t ih =>
    have : sortAsc (a :: t) = insertAsc a (sortAsc t) := rfl
    rw [this]
    exact (insertAsc_perm a _).trans (List.Perm.cons a ih)

theorem sortAsc_length (l : List Rat) : (sortAsc l).length = l.length :=
  (sortAsc_perm l).length_eq

theorem insertAsc_sorted (a : Rat) (l : List Rat) (h : l.Pairwise (· ≤ ·)) :
    (insertAsc a l).Pairwise (· ≤ ·) := by
  induction l with
  | nil => simp [insertAsc]
  | cons b t ih =>
    rw [List.pairwise_cons] at h
    by_cases hab : a ≤ b
    · simp only [insertAsc, hab, if_true]
      rw [List.pairwise_cons]
      refine ⟨?_, List.pairwise_cons.2 h⟩
      intro x hx
      rcases List.mem_cons.1 hx with rfl | hx
      · exact hab
      · exact Rat.le_trans hab (h.1 x hx)
    · simp only [insertAsc, hab, if_false]
      rw [List.pairwise_cons]
      refine ⟨?_, ih h.2⟩
      intro x hx
      rcases List.mem_cons.1 ((insertAsc_perm a t).mem_iff.1 hx) with rfl | hx
      · rcases Rat.le_total (a := x) (b := b) with h1 | h1
        · exact absurd h1 hab
        · exact h1
      · exact h.1 x hx

theorem sortAsc_sorted (l : List Rat) : (sortAsc l).Pairwise (· ≤ ·) := by
  induction l with
  | nil => simp [sortAsc]
  | cons a t ih => exact insertAsc_sorted a _ ih

/-- in an ascending list at most `len - 1 - k` entries exceed the entry at position `k` -/
theorem countP_gt_le_of_sorted (l : List Rat) (hs : l.Pairwise (· ≤ ·)) (k : Nat)
    (hk : k < l.length) :
    l.countP (fun s => decide (l[k] < s)) ≤ l.length - 1 - k := by
  have hsplit := List.take_append_drop (k + 1) l
  have h0 : (l.take (k + 1)).countP (fun s => decide (l[k] < s)) = 0 := by
    rw [List.countP_eq_zero]
    intro a ha
    obtain ⟨j, hj, rfl⟩ := List.mem_take_iff_getElem.1 ha
    have hjk : j ≤ k := by omega
    have hjl : j < l.length := by omega
    have : l[j] ≤ l[k] := by
      rcases Nat.lt_or_eq_of_le hjk with h | h
      · exact (List.pairwise_iff_getElem.1 hs) j k hjl hk h
      · subst h; exact Rat.le_refl
    simp only [decide_eq_true_eq]
    exact Rat.not_lt.2 this
  calc l.countP (fun s => decide (l[k] < s))
      = (l.take (k + 1) ++ l.drop (k + 1)).countP (fun s => decide (l[k] < s)) := by rw [hsplit]
    _ = (l.drop (k + 1)).countP (fun s => decide (l[k] < s)) := by rw [List.countP_append, h0]; simp
    _ ≤ (l.drop (k + 1)).length := List.countP_le_length
    _ = l.length - 1 - k := by simp; omega

/-- in an ascending list at least `len - k` entries are `≥` the entry at position `k` -/
theorem countP_ge_ge_of_sorted (l : List Rat) (hs : l.Pairwise (· ≤ ·)) (k : Nat)
    (hk : k < l.length) :
    l.length - k ≤ l.countP (fun s => decide (l[k] ≤ s)) := by
  have hsplit := List.take_append_drop k l
  have h1 : (l.drop k).countP (fun s => decide (l[k] ≤ s)) = (l.drop k).length := by
    rw [List.countP_eq_length]
    intro a ha
    obtain ⟨j, hj, rfl⟩ := List.mem_iff_getElem.1 ha
    rw [List.getElem_drop]
    simp only [decide_eq_true_eq]
    rcases Nat.eq_zero_or_pos j with h | h
    · subst h; exact Rat.le_refl
    · exact (List.pairwise_iff_getElem.1 hs) k (k + j) hk (by simp at hj; omega) (by omega)
  calc l.length - k = (l.drop k).length := by simp
    _ = (l.drop k).countP (fun s => decide (l[k] ≤ s)) := h1.symm
    _ ≤ (l.take k).countP (fun s => decide (l[k] ≤ s))
          + (l.drop k).countP (fun s => decide (l[k] ≤ s)) := Nat.le_add_left _ _
    _ = l.countP (fun s => decide (l[k] ≤ s)) := by rw [← List.countP_append, hsplit]

/-- `≥ θ` splits into `> θ` and `= θ` -/
theorem countP_ge_split (l : List Rat) (θ : Rat) :
    l.countP (fun s => decide (θ ≤ s))
      = l.countP (fun s => decide (θ < s)) + l.countP (fun s => decide (s = θ)) := by
  induction l with
  | nil => simp
  | cons a t ih =>
    simp only [List.countP_cons, ih]
    by_cases h1 : θ < a
    · have h2 : θ ≤ a := Rat.le_of_lt h1
      have h3 : ¬ a = θ := fun e => by subst e; exact Rat.lt_irrefl h1
      simp [h1, h2, h3]; omega
    · by_cases h3 : a = θ
      · subst h3; simp [Rat.lt_irrefl]; omega
      · have h2 : ¬ θ ≤ a := fun h => h1 (Rat.lt_of_le_of_ne h (fun e => h3 e.symm))
        simp [h1, h2, h3]

/-- whatever `p` counts is counted by `q` or is one of the `p ∧ ¬q` elements -/
theorem countP_le_countP_add {α : Type} (l : List α) (p q : α → Bool) :
    l.countP p ≤ l.countP q + l.countP (fun x => p x && !q x) := by
  induction l with
  | nil => simp
  | cons a t ih =>
    simp only [List.countP_cons]
    cases p a <;> cases q a <;> simp <;> omega

/-- a sorted permutation of `l` is `sortAsc l`: the result of `ndarray.sort()` does not depend on
the sorting algorithm -/
theorem sorted_perm_eq_sortAsc (l l' : List Rat) (hp : l'.Perm l) (hs : l'.Pairwise (· ≤ ·)) :
    l' = sortAsc l := by
  apply List.Perm.eq_of_pairwise (le := fun a b => a ≤ b) _ hs (sortAsc_sorted l)
    (hp.trans (sortAsc_perm l).symm)
  intro a b _ _ h1 h2
  exact Rat.le_antisymm h1 h2

/-! ### the quantile rule -/

/-- at most `len - 1 - k'` entries exceed the selected value (`k'` the clamped index) -/
theorem quantile_upper (l : List Rat) (k : Nat) (θ : Rat)
    (h : (sortAsc l)[min k ((sortAsc l).length - 1)]? = some θ) :
    l.countP (fun s => decide (θ < s)) + min k (l.length - 1) + 1 ≤ l.length := by
  obtain ⟨hk, rfl⟩ := List.getElem?_eq_some_iff.1 h
  have := countP_gt_le_of_sorted (sortAsc l) (sortAsc_sorted l) _ hk
  rw [(sortAsc_perm l).countP_eq] at this
  have hl := sortAsc_length l
  omega

/-- at least `len - k'` entries are `≥` the selected value: those above it and those tied -/
theorem quantile_lower (l : List Rat) (k : Nat) (θ : Rat)
    (h : (sortAsc l)[min k ((sortAsc l).length - 1)]? = some θ) :
    l.length ≤ l.countP (fun s => decide (θ < s)) + l.countP (fun s => decide (s = θ))
      + min k (l.length - 1) := by
  obtain ⟨hk, rfl⟩ := List.getElem?_eq_some_iff.1 h
  have := countP_ge_ge_of_sorted (sortAsc l) (sortAsc_sorted l) _ hk
  rw [(sortAsc_perm l).countP_eq, countP_ge_split] at this
  have hl := sortAsc_length l
  omega

/-- the selected value is one of the entries -/
theorem quantile_mem (l : List Rat) (k : Nat) (θ : Rat)
    (h : (sortAsc l)[min k ((sortAsc l).length - 1)]? = some θ) : θ ∈ l := by
  obtain ⟨hk, rfl⟩ := List.getElem?_eq_some_iff.1 h
  exact (sortAsc_perm l).mem_iff.1 (List.getElem_mem hk)

/-- the quantile index is in range as soon as there is an entry -/
theorem quantile_some (l : List Rat) (k : Nat) (hl : 0 < l.length) :
    ∃ θ, (sortAsc l)[min k ((sortAsc l).length - 1)]? = some θ := by
  have : min k ((sortAsc l).length - 1) < (sortAsc l).length := by
    rw [sortAsc_length]; omega
  exact ⟨_, List.getElem?_eq_getElem this⟩

/-! ### number of off-diagonal entries -/

theorem countP_diag_rows (N a : Nat) (ha : a ≤ N) :
    (List.range (a * N)).countP (fun p => p / N == p % N) = a := by
  induction a with
  | zero => simp
  | succ a ih =>
    rw [Nat.add_mul, Nat.one_mul, List.range_add, List.countP_append, ih (by omega),
      List.countP_map]
    have : (List.range N).countP ((fun p => p / N == p % N) ∘ fun x => a * N + x)
        = (List.range N).countP (fun j => j == a) := by
      apply List.countP_congr
      intro j hj
      have hj' : j < N := by simpa using hj
      simp only [Function.comp, flat_div N a j hj', flat_mod N a j hj', beq_iff_eq]
      omega
    rw [this, ← List.count_eq_countP, List.count_range]
    simp; omega

theorem length_offDiag (S : Sim) (N : Nat) : (offDiag S N).length + N = N * N := by
  have h1 := List.length_eq_countP_add_countP (fun p => p / N == p % N) (l := List.range (N * N))
  rw [countP_diag_rows N N (Nat.le_refl N)] at h1
  simp only [offDiag, List.length_map, ← List.countP_eq_length_filter]
  have : (List.range (N * N)).countP (fun p => p / N != p % N)
      = (List.range (N * N)).countP (fun a => decide ¬(a / N == a % N) = true) := by
    apply List.countP_congr; intro p _; simp
  rw [this]
  simp only [List.length_range] at h1
  omega

/-! ### monotonicity in the similarity and in the threshold -/

theorem nnz_mono (W W' : Sim) (θ θ' : Rat) (N : Nat) (hθ : θ ≤ θ')
    (hW : ∀ i j, i < N → j < N → W' i j ≤ W i j) :
    nnz (thresholdAdjacency W' θ' N) ≤ nnz (thresholdAdjacency W θ N) := by
  simp only [nnz, thresholdAdjacency_eq, List.count_eq_countP, List.countP_map]
  apply List.countP_mono_left
  intro p hp
  have hp' : p < N * N := by simpa using hp
  have hN : 0 < N := by
    rcases Nat.eq_zero_or_pos N with h | h
    · subst h; simp at hp'
    · exact h
  have hi : p / N < N := (Nat.div_lt_iff_lt_mul hN).2 hp'
  have hj : p % N < N := Nat.mod_lt _ hN
  simp only [Function.comp, entry, beq_iff_eq]
  by_cases h : p % (N + 1) = 0
  · simp [h]
  · simp only [h, if_false, decide_eq_true_eq]
    intro h1
    have := hW _ _ hi hj
    grind

/-! ### counting a Boolean matrix by rows; evenness for symmetric zero-diagonal matrices -/

def rowCount (f : Nat → Nat → Bool) (N i : Nat) : Nat := (List.range N).countP (f i)

def total (f : Nat → Nat → Bool) (N : Nat) : Nat := ((List.range N).map (rowCount f N)).sum

theorem sum_map_add (l : List Nat) (a b : Nat → Nat) :
    (l.map fun i => a i + b i).sum = (l.map a).sum + (l.map b).sum := by
  induction l with
  | nil => simp
  | cons x t ih => simp only [List.map_cons, List.sum_cons, ih]; omega

theorem sum_map_ite (l : List Nat) (p : Nat → Bool) :
    (l.map fun i => if p i then 1 else 0).sum = l.countP p := by
  induction l with
  | nil => simp
  | cons x t ih =>
    simp only [List.map_cons, List.sum_cons, ih, List.countP_cons]
    cases p x <;> simp <;> omega

theorem rowCount_succ (f : Nat → Nat → Bool) (N i : Nat) :
    rowCount f (N + 1) i = rowCount f N i + (if f i N then 1 else 0) := by
  simp [rowCount, List.range_succ, List.countP_append]

/-- flattened row-major count = row-by-row count -/
theorem countP_flat_rows (f : Nat → Nat → Bool) (N a : Nat) :
    (List.range (a * N)).countP (fun p => f (p / N) (p % N))
      = ((List.range a).map (rowCount f N)).sum := by
  induction a with
  | zero => simp
  | succ a ih =>
    rw [Nat.add_mul, Nat.one_mul, List.range_add, List.countP_append, ih, List.countP_map,
      List.range_succ, List.map_append, List.sum_append]
    have : (List.range N).countP ((fun p => f (p / N) (p % N)) ∘ fun x => a * N + x)
        = rowCount f N a := by
      apply List.countP_congr
      intro j hj
      have hj' : j < N := by simpa using hj
      simp only [Function.comp, flat_div N a j hj', flat_mod N a j hj']
    rw [this]; simp

theorem countP_flat_total (f : Nat → Nat → Bool) (N : Nat) :
    (List.range (N * N)).countP (fun p => f (p / N) (p % N)) = total f N :=
  countP_flat_rows f N N

/-- a symmetric Boolean matrix with zero diagonal has an even number of ones -/
theorem total_even (f : Nat → Nat → Bool) (N : Nat)
    (hsym : ∀ i j, i < N → j < N → f i j = f j i) (hdiag : ∀ i, i < N → f i i = false) :
    ∃ m, total f N = 2 * m := by
  induction N with
  | zero => exact ⟨0, by simp [total]⟩
  | succ N ih =>
    obtain ⟨m, hm⟩ := ih (fun i j hi hj => hsym i j (by omega) (by omega))
      (fun i hi => hdiag i (by omega))
    refine ⟨m + (List.range N).countP (fun i => f i N), ?_⟩
    have h1 : total f (N + 1)
        = ((List.range N).map (fun i => rowCount f N i + (if f i N then 1 else 0))).sum
          + (rowCount f N N + (if f N N then 1 else 0)) := by
      have hfun : rowCount f (N + 1)
          = fun i => rowCount f N i + (if f i N then 1 else 0) := funext (rowCount_succ f N)
      simp only [total, List.range_succ, List.map_append, List.sum_append, List.map_cons,
        List.map_nil, List.sum_cons, List.sum_nil, hfun]
      omega
    have h2 : rowCount f N N = (List.range N).countP (fun i => f i N) := by
      apply List.countP_congr
      intro j hj
      have hj' : j < N := by simpa using hj
      rw [hsym N j (by omega) (by omega)]
    rw [h1, sum_map_add, sum_map_ite, h2, hdiag N (by omega)]
    have : ((List.range N).map (rowCount f N)).sum = total f N := rfl
    rw [this, hm]
    simp; omega

/-- the adjacency of a symmetric weighted similarity has an even number of ones -/
theorem nnz_even_of_symmetric (W : Sim) (θ : Rat) (N : Nat)
    (hsym : ∀ i j, i < N → j < N → W i j = W j i) :
    ∃ m, nnz (thresholdAdjacency W θ N) = 2 * m := by
  let f : Nat → Nat → Bool := fun i j => decide (i ≠ j ∧ θ < W i j)
  have h : nnz (thresholdAdjacency W θ N) = total f N := by
    rw [← countP_flat_total]
    simp only [nnz, thresholdAdjacency_eq, List.count_eq_countP, List.countP_map]
    apply List.countP_congr
    intro p hp
    have hp' : p < N * N := by simpa using hp
    have := stride_diag' N p hp'
    by_cases h0 : p % (N + 1) = 0
    · simp [entry, h0, f, this.1 h0]
    · have h2 : ¬ p / N = p % N := fun e => h0 (this.2 e)
      simp [entry, h0, f, h2]
  rw [h]
  apply total_even
  · intro i j hi hj
    simp only [f, hsym i j hi hj]
    have : (i ≠ j) = (j ≠ i) := propext ⟨Ne.symm, Ne.symm⟩
    simp only [this]
  · intro i _; simp [f]

end Pyunicorn.Similarity
