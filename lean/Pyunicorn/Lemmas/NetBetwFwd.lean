import Pyunicorn.Lemmas.NetBetwFwdSpec
import Pyunicorn.Lemmas.NetBetwAsm
import Mathlib.Data.List.Perm.Subperm
import Mathlib.Data.List.Nodup
/-!
Round 5: the forward phase of the kernel `_nsi_betweenness` (BFS with predecessor lists and weighted
multiplicities) — loop invariant `Inv` of `forward` / `relax`, its preservation, and the final state
`FwdFinal`.
-/
namespace Pyunicorn.NetBetw
open Pyunicorn.Net

theorem getD_set_nat (l : List Nat) (i k x : Nat) :
    (l.set i x).getD k 0 = if i = k ∧ i < l.length then x else l.getD k 0 := by
  grind

theorem getD_set_rat (l : List Rat) (i k : Nat) (x : Rat) :
    (l.set i x).getD k 0 = if i = k ∧ i < l.length then x else l.getD k 0 := by
  grind

theorem slice_set_other (fp : List Nat) (o c p x : Nat) (h : p < o ∨ o + c ≤ p) :
    slice (fp.set p x) o c = slice fp o c := by
  unfold slice
  apply List.ext_getElem?
  intro m
  grind

theorem slice_set_snoc (fp : List Nat) (o c x : Nat) (h : o + c < fp.length) :
    slice (fp.set (o + c) x) o (c + 1) = slice fp o c ++ [x] := by
  unfold slice
  apply List.ext_getElem?
  intro m
  grind

/-- pigeonhole: a duplicate-free list of nodes `< n` has at most `n` entries -/
theorem nodup_lt_length_le (q : List Nat) (n : Nat) (hq : q.Nodup) (hlt : ∀ v, v ∈ q → v < n) :
    q.length ≤ n := by
  have h : q ⊆ List.range n := fun v hv => List.mem_range.mpr (hlt v hv)
  have := (List.Nodup.subperm hq h).length_le
  simpa using this

/-- the predecessors recorded so far for `l`: those among the processed nodes `P`, and the node `i`
being processed if its neighbour `l` has been handled already (`l ∈ L1`) -/
def recl (a : Adj) (s : Fwd) (P : List Nat) (i : Nat) (L1 : List Nat) (l : Nat) : List Nat :=
  P.filter (fun x => kpred a s.dist x l) ++ (if l ∈ L1 ∧ kpred a s.dist i l = true then [i] else [])

/-- the three field updates of `relax` that record `i` as a predecessor of `l` -/
def record (offsets : List Nat) (w : Nat → Rat) (i : Nat) (s : Fwd) (l : Nat) : Fwd :=
  { s with
    npred := s.npred.set l (s.npred.getD l 0 + 1)
    fpred := s.fpred.set (offsets.getD l 0 + s.npred.getD l 0) i
    mult := s.mult.set l (s.mult.getD l 0 + w l * s.mult.getD i 0) }

/-- first visit of `l` -/
def discover (nextD : Nat) (s : Fwd) (l : Nat) : Fwd :=
  { s with dist := s.dist.set l nextD, queue := s.queue ++ [l] }

theorem relax_eq (offsets : List Nat) (w : Nat → Rat) (i nextD : Nat) (s : Fwd) (l : Nat) :
    relax offsets w i nextD s l =
      if s.dist.getD l 0 ≥ nextD then
        record offsets w i (if s.dist.getD l 0 > nextD then discover nextD s l else s) l
      else s := by
  unfold relax record discover
  simp only []
  split
  · split <;> rfl
  · rfl

/-- loop invariant of the forward phase: `P` = nodes taken from the queue and completely processed,
`i` = node being processed, `L1` = its neighbours handled so far; `K l` = capacity of the slice of `l`
in `flat_predecessors`, `T` its total length -/
structure Inv (n : Nat) (a : Adj) (w : Nat → Rat) (j : Nat) (offsets : List Nat) (T : Nat)
    (P : List Nat) (i : Nat) (L1 : List Nat) (s : Fwd) : Prop where
  len_d : s.dist.length = n
  len_np : s.npred.length = n
  len_m : s.mult.length = n
  len_fp : s.fpred.length = T
  split : ∃ rest, s.queue = P ++ i :: rest
  q_nodup : s.queue.Nodup
  q_lt : ∀ v, v ∈ s.queue → v < n
  q_head : s.queue.head? = some j
  d_root : s.dist.getD j 0 = 0
  d_unv : ∀ v, v < n → v ∉ s.queue → s.dist.getD v 0 = 2 * n
  d_bound : ∀ v, v ∈ s.queue → s.dist.getD v 0 + 1 ≤ s.queue.length
  d_next : ∀ v, v ∈ s.queue → s.dist.getD v 0 ≤ s.dist.getD i 0 + 1
  sorted : s.queue.Pairwise fun x y => s.dist.getD x 0 ≤ s.dist.getD y 0
  parent : ∀ v, v ∈ s.queue → v ≠ j →
    ∃ u, u ∈ s.queue ∧ a u v = true ∧ s.dist.getD v 0 = s.dist.getD u 0 + 1
  closed : ∀ u v, (u ∈ P ∨ (u = i ∧ v ∈ L1)) → v < n → a u v = true →
    v ∈ s.queue ∧ s.dist.getD v 0 ≤ s.dist.getD u 0 + 1
  m_root : s.mult.getD j 0 = w j
  m_rec : ∀ l, l < n → l ≠ j →
    s.mult.getD l 0 = w l * ((recl a s P i L1 l).map fun x => s.mult.getD x 0).sum
  np : ∀ l, l < n → s.npred.getD l 0 = (recl a s P i L1 l).length
  preds : ∀ l, l < n → slice s.fpred (offsets.getD l 0) (s.npred.getD l 0) = recl a s P i L1 l

section steps
variable {n : Nat} {a : Adj} {w : Nat → Rat} {j : Nat} {offsets : List Nat} {T : Nat}
  {P : List Nat} {i : Nat} {L1 : List Nat} {s : Fwd}

theorem Inv.q_len (h : Inv n a w j offsets T P i L1 s) : s.queue.length ≤ n :=
  nodup_lt_length_le _ _ h.q_nodup h.q_lt

theorem Inv.i_mem (h : Inv n a w j offsets T P i L1 s) : i ∈ s.queue := by
  obtain ⟨r, hr⟩ := h.split; rw [hr]; simp

theorem Inv.P_mem (h : Inv n a w j offsets T P i L1 s) {x : Nat} (hx : x ∈ P) : x ∈ s.queue := by
  obtain ⟨r, hr⟩ := h.split; rw [hr]; simp [hx]

theorem Inv.P_le (h : Inv n a w j offsets T P i L1 s) {x : Nat} (hx : x ∈ P) :
    s.dist.getD x 0 ≤ s.dist.getD i 0 := by
  obtain ⟨r, hr⟩ := h.split
  have := h.sorted
  rw [hr, List.pairwise_append] at this
  exact this.2.2 x hx i (by simp)

theorem Inv.P_ne (h : Inv n a w j offsets T P i L1 s) {x : Nat} (hx : x ∈ P) : x ≠ i := by
  obtain ⟨r, hr⟩ := h.split
  have := h.q_nodup
  rw [hr, List.nodup_append] at this
  exact this.2.2 x hx i (by simp)

/-- members of the recorded list are processed nodes or `i` -/
theorem mem_recl {a : Adj} {s : Fwd} {P : List Nat} {i : Nat} {L1 : List Nat} {l x : Nat}
    (hx : x ∈ recl a s P i L1 l) : (x ∈ P ∨ (x = i ∧ l ∈ L1)) ∧ kpred a s.dist x l = true := by
  unfold recl at hx
  grind

theorem recl_skip {a : Adj} {s : Fwd} {P : List Nat} {i : Nat} {L1 : List Nat} {l : Nat}
    (hk : kpred a s.dist i l = false) (l' : Nat) :
    recl a s P i (L1 ++ [l]) l' = recl a s P i L1 l' := by
  unfold recl
  by_cases h : l' = l
  · subst h; simp [hk]
  · simp [h]

/-- the neighbour `l` of `i` lies on an earlier or the same level: nothing is written -/
theorem Inv.skip (h : Inv n a w j offsets T P i L1 s) {l : Nat} (hl : l < n)
    (hlt : s.dist.getD l 0 < s.dist.getD i 0 + 1) :
    Inv n a w j offsets T P i (L1 ++ [l]) s := by
  have hk : kpred a s.dist i l = false := by
    have : (s.dist.getD i 0 + 1 == s.dist.getD l 0) = false := by
      rw [beq_eq_false_iff_ne]; omega
    unfold kpred; rw [this]; simp
  have hvis : l ∈ s.queue := by
    apply Classical.byContradiction
    intro hc
    have h1 := h.d_unv l hl hc
    have h2 := h.d_bound i h.i_mem
    have h3 := h.q_len
    omega
  refine { h with closed := ?_, m_rec := ?_, np := ?_, preds := ?_ }
  · intro u v huv hv hav
    by_cases hc : u ∈ P ∨ (u = i ∧ v ∈ L1)
    · exact h.closed u v hc hv hav
    · have : u = i ∧ v = l := by grind
      obtain ⟨rfl, rfl⟩ := this
      exact ⟨hvis, by omega⟩
  · intro l' hl' hne; rw [recl_skip hk]; exact h.m_rec l' hl' hne
  · intro l' hl'; rw [recl_skip hk]; exact h.np l' hl'
  · intro l' hl'; rw [recl_skip hk]; exact h.preds l' hl'

theorem Inv.unvisited (h : Inv n a w j offsets T P i L1 s) {l : Nat}
    (hunv : s.dist.getD l 0 > s.dist.getD i 0 + 1) : l ∉ s.queue := by
  intro hc
  have := h.d_next l hc
  omega

theorem kpred_discover (h : Inv n a w j offsets T P i L1 s) {l : Nat} (hl : l < n)
    (hunv : s.dist.getD l 0 > s.dist.getD i 0 + 1) {x l' : Nat}
    (hx : x ∈ P ∨ (x = i ∧ l' ∈ L1)) :
    kpred a (s.dist.set l (s.dist.getD i 0 + 1)) x l' = kpred a s.dist x l' := by
  have hlq := h.unvisited hunv
  have hxq : x ∈ s.queue := by
    rcases hx with hx | ⟨rfl, _⟩
    · exact h.P_mem hx
    · exact h.i_mem
  have hxl : x ≠ l := fun e => hlq (e ▸ hxq)
  have hdx : s.dist.getD x 0 ≤ s.dist.getD i 0 := by
    rcases hx with hx | ⟨rfl, _⟩
    · exact h.P_le hx
    · exact Nat.le_refl _
  unfold kpred
  rw [getD_set_nat, getD_set_nat]
  have hlen := h.len_d
  by_cases hl' : l' = l
  · subst hl'
    cases hax : a x l'
    · simp
    · exfalso
      exact hlq (h.closed x l' hx hl hax).1
  · have h1 : ¬ (l = x ∧ l < s.dist.length) := fun e => hxl e.1.symm
    have h2 : ¬ (l = l' ∧ l < s.dist.length) := fun e => hl' e.1.symm
    rw [if_neg h1, if_neg h2]

theorem recl_discover (h : Inv n a w j offsets T P i L1 s) {l : Nat} (hl : l < n)
    (hunv : s.dist.getD l 0 > s.dist.getD i 0 + 1) (l' : Nat) :
    recl a (discover (s.dist.getD i 0 + 1) s l) P i L1 l' = recl a s P i L1 l' := by
  unfold recl discover
  simp only []
  congr 1
  · apply List.filter_congr
    intro x hx
    exact kpred_discover h hl hunv (Or.inl hx)
  · by_cases hL : l' ∈ L1
    · rw [kpred_discover h hl hunv (Or.inr ⟨rfl, hL⟩)]
    · simp [hL]

/-- first visit of the neighbour `l` of `i`: distance and queue are extended -/
theorem Inv.discover_step (h : Inv n a w j offsets T P i L1 s) {l : Nat} (hl : l < n)
    (hal : a i l = true) (hunv : s.dist.getD l 0 > s.dist.getD i 0 + 1) :
    Inv n a w j offsets T P i L1 (discover (s.dist.getD i 0 + 1) s l) := by
  have hlq := h.unvisited hunv
  have hlen := h.len_d
  have hdl : ∀ v, v ∈ s.queue → (s.dist.set l (s.dist.getD i 0 + 1)).getD v 0 = s.dist.getD v 0 := by
    intro v hv
    have : v ≠ l := fun e => hlq (e ▸ hv)
    rw [getD_set_nat]; grind
  have hdl' : (s.dist.set l (s.dist.getD i 0 + 1)).getD l 0 = s.dist.getD i 0 + 1 := by
    rw [getD_set_nat]; grind
  have him := h.i_mem
  have hjm : j ∈ s.queue := by
    have := h.q_head
    cases hq : s.queue with
    | nil => simp [hq] at this
    | cons x t => simp [hq] at this; simp [this]
  refine
    { len_d := by simp [discover, hlen]
      len_np := h.len_np
      len_m := h.len_m
      len_fp := h.len_fp
      split := ?_
      q_nodup := ?_
      q_lt := ?_
      q_head := ?_
      d_root := ?_
      d_unv := ?_
      d_bound := ?_
      d_next := ?_
      sorted := ?_
      parent := ?_
      closed := ?_
      m_root := h.m_root
      m_rec := ?_
      np := ?_
      preds := ?_ }
  · obtain ⟨r, hr⟩ := h.split
    exact ⟨r ++ [l], by simp [discover, hr]⟩
  · simp only [discover]
    rw [List.nodup_append]
    refine ⟨h.q_nodup, by simp, ?_⟩
    intro x hx y hy
    simp at hy
    subst hy
    exact fun e => hlq (e ▸ hx)
  · intro v hv
    simp only [discover, List.mem_append, List.mem_singleton] at hv
    rcases hv with hv | rfl
    · exact h.q_lt v hv
    · exact hl
  · simp only [discover]
    have := h.q_head
    cases hq : s.queue with
    | nil => simp [hq] at this
    | cons x t => simpa [hq] using this
  · simp only [discover]; rw [hdl j hjm]; exact h.d_root
  · intro v hv hvq
    simp only [discover, List.mem_append, List.mem_singleton, not_or] at hvq ⊢
    rw [getD_set_nat]
    have := h.d_unv v hv hvq.1
    grind
  · intro v hv
    simp only [discover, List.mem_append, List.mem_singleton, List.length_append,
      List.length_singleton] at hv ⊢
    rcases hv with hv | rfl
    · rw [hdl v hv]; have := h.d_bound v hv; omega
    · rw [hdl']; have := h.d_bound i him; omega
  · intro v hv
    simp only [discover, List.mem_append, List.mem_singleton] at hv ⊢
    rw [hdl i him]
    rcases hv with hv | rfl
    · rw [hdl v hv]; exact h.d_next v hv
    · rw [hdl']
  · simp only [discover]
    rw [List.pairwise_append]
    refine ⟨?_, by simp, ?_⟩
    · refine h.sorted.imp_of_mem ?_
      intro x y hx hy hxy
      rw [hdl x hx, hdl y hy]; exact hxy
    · intro x hx y hy
      simp at hy
      subst hy
      rw [hdl x hx, hdl']
      exact h.d_next x hx
  · intro v hv hvj
    simp only [discover, List.mem_append, List.mem_singleton] at hv ⊢
    rcases hv with hv | rfl
    · obtain ⟨u, hu, hau, hd⟩ := h.parent v hv hvj
      exact ⟨u, Or.inl hu, hau, by rw [hdl v hv, hdl u hu]; exact hd⟩
    · exact ⟨i, Or.inl him, hal, by rw [hdl', hdl i him]⟩
  · intro u v huv hv hav
    obtain ⟨hvq, hd⟩ := h.closed u v huv hv hav
    have huq : u ∈ s.queue := by
      rcases huv with hu | ⟨rfl, _⟩
      · exact h.P_mem hu
      · exact him
    simp only [discover, List.mem_append, List.mem_singleton]
    exact ⟨Or.inl hvq, by rw [hdl v hvq, hdl u huq]; exact hd⟩
  · intro l' hl' hne
    rw [recl_discover h hl hunv]
    exact h.m_rec l' hl' hne
  · intro l' hl'
    rw [recl_discover h hl hunv]
    exact h.np l' hl'
  · intro l' hl'
    rw [recl_discover h hl hunv]
    exact h.preds l' hl'

end steps

end Pyunicorn.NetBetw
