import Pyunicorn.Lemmas.NetBetwFwdSpec
import Pyunicorn.Lemmas.NetBetwAsm
import Mathlib.Data.List.Perm.Subperm
import Mathlib.Data.List.Nodup
/-!
Round 5: the forward phase of the kernel `_nsi_betweenness` (BFS with predecessor lists and weighted
multiplicities) — loop invariant `Inv` of `forward` / `relax`, its preservation, and the final state
`FwdFinal`.
-/
namespace Pyunicorn.NetBetw
open Pyunicorn.Net

theorem getD_set_nat (l : List Nat) (i k x : Nat) :
    (l.set i x).getD k 0 = if i = k ∧ i < l.length then x else l.getD k 0 := by
  grind

theorem getD_set_rat (l : List Rat) (i k : Nat) (x : Rat) :
    (l.set i x).getD k 0 = if i = k ∧ i < l.length then x else l.getD k 0 := by
  grind

theorem slice_set_other (fp : List Nat) (o c p x : Nat) (h : p < o ∨ o + c ≤ p) :
    slice (fp.set p x) o c = slice fp o c := by
  unfold slice
  apply List.ext_getElem?
  intro m
  grind

theorem slice_set_snoc (fp : List Nat) (o c x : Nat) (h : o + c < fp.length) :
    slice (fp.set (o + c) x) o (c + 1) = slice fp o c ++ [x] := by
  unfold slice
  apply List.ext_getElem?
  intro m
  grind

/-- pigeonhole: a duplicate-free list of nodes `< n` has at most `n` entries -/
theorem nodup_lt_length_le (q : List Nat) (n : Nat) (hq : q.Nodup) (hlt : ∀ v, v ∈ q → v < n) :
    q.length ≤ n := by
  have h : q ⊆ List.range n := fun v hv => List.mem_range.mpr (hlt v hv)
  have := (List.Nodup.subperm hq h).length_le
  simpa using this

/-- the predecessors recorded so far for `l`: those among the processed nodes `P`, and the node `i`
being processed if its neighbour `l` has been handled already (`l ∈ L1`) -/
def recl (a : Adj) (s : Fwd) (P : List Nat) (i : Nat) (L1 : List Nat) (l : Nat) : List Nat :=
  P.filter (fun x => kpred a s.dist x l) ++ (if l ∈ L1 ∧ kpred a s.dist i l = true then [i] else [])

/-- the three field updates of `relax` that record `i` as a predecessor of `l` -/
def record (offsets : List Nat) (w : Nat → Rat) (i : Nat) (s : Fwd) (l : Nat) : Fwd :=
  { s with
    npred := s.npred.set l (s.npred.getD l 0 + 1)
    fpred := s.fpred.set (offsets.getD l 0 + s.npred.getD l 0) i
    mult := s.mult.set l (s.mult.getD l 0 + w l * s.mult.getD i 0) }

/-- first visit of `l` -/
def discover (nextD : Nat) (s : Fwd) (l : Nat) : Fwd :=
  { s with dist := s.dist.set l nextD, queue := s.queue ++ [l] }

theorem relax_eq (offsets : List Nat) (w : Nat → Rat) (i nextD : Nat) (s : Fwd) (l : Nat) :
    relax offsets w i nextD s l =
      if s.dist.getD l 0 ≥ nextD then
        record offsets w i (if s.dist.getD l 0 > nextD then discover nextD s l else s) l
      else s := by
  unfold relax record discover
  simp only []
  split
  · split <;> rfl
  · rfl

/-- loop invariant of the forward phase: `P` = nodes taken from the queue and completely processed,
`i` = node being processed, `L1` = its neighbours handled so far; `K l` = capacity of the slice of `l`
in `flat_predecessors`, `T` its total length -/
structure Inv (n : Nat) (a : Adj) (w : Nat → Rat) (j : Nat) (offsets : List Nat) (T : Nat)
    (P : List Nat) (i : Nat) (L1 : List Nat) (s : Fwd) : Prop where
  len_d : s.dist.length = n
  len_np : s.npred.length = n
  len_m : s.mult.length = n
  len_fp : s.fpred.length = T
  split : ∃ rest, s.queue = P ++ i :: rest
  q_nodup : s.queue.Nodup
  q_lt : ∀ v, v ∈ s.queue → v < n
  q_head : s.queue.head? = some j
  d_root : s.dist.getD j 0 = 0
  d_unv : ∀ v, v < n → v ∉ s.queue → s.dist.getD v 0 = 2 * n
  d_bound : ∀ v, v ∈ s.queue → s.dist.getD v 0 + 1 ≤ s.queue.length
  d_next : ∀ v, v ∈ s.queue → s.dist.getD v 0 ≤ s.dist.getD i 0 + 1
  sorted : s.queue.Pairwise fun x y => s.dist.getD x 0 ≤ s.dist.getD y 0
  parent : ∀ v, v ∈ s.queue → v ≠ j →
    ∃ u, u ∈ s.queue ∧ a u v = true ∧ s.dist.getD v 0 = s.dist.getD u 0 + 1
  closed : ∀ u v, (u ∈ P ∨ (u = i ∧ v ∈ L1)) → v < n → a u v = true →
    v ∈ s.queue ∧ s.dist.getD v 0 ≤ s.dist.getD u 0 + 1
  m_root : s.mult.getD j 0 = w j
  m_rec : ∀ l, l < n → l ≠ j →
    s.mult.getD l 0 = w l * ((recl a s P i L1 l).map fun x => s.mult.getD x 0).sum
  np : ∀ l, l < n → s.npred.getD l 0 = (recl a s P i L1 l).length
  preds : ∀ l, l < n → slice s.fpred (offsets.getD l 0) (s.npred.getD l 0) = recl a s P i L1 l

/-- what the proof needs to know about the layout of `flat_predecessors`: node `l` owns the `K l` cells
from `offsets[l]` on, the slices are disjoint and inside the array, and a node has at most `K l`
in-neighbours (for the wrapper's arrays `K l` is the degree; this is where symmetry of `A` enters) -/
structure Layout (n : Nat) (a : Adj) (offsets : List Nat) (T : Nat) (K : Nat → Nat) : Prop where
  cap : ∀ l, l < n → offsets.getD l 0 + K l ≤ T
  disj : ∀ l l', l < n → l' < n → l ≠ l' →
    offsets.getD l 0 + K l ≤ offsets.getD l' 0 ∨ offsets.getD l' 0 + K l' ≤ offsets.getD l 0
  count : ∀ l (R : List Nat), l < n → R.Nodup → (∀ x, x ∈ R → x < n ∧ a x l = true) → R.length ≤ K l

section steps
variable {n : Nat} {a : Adj} {w : Nat → Rat} {j : Nat} {offsets : List Nat} {T : Nat}
  {P : List Nat} {i : Nat} {L1 : List Nat} {s : Fwd}

theorem Inv.q_len (h : Inv n a w j offsets T P i L1 s) : s.queue.length ≤ n :=
  nodup_lt_length_le _ _ h.q_nodup h.q_lt

theorem Inv.i_mem (h : Inv n a w j offsets T P i L1 s) : i ∈ s.queue := by
  obtain ⟨r, hr⟩ := h.split; rw [hr]; simp

theorem Inv.P_mem (h : Inv n a w j offsets T P i L1 s) {x : Nat} (hx : x ∈ P) : x ∈ s.queue := by
  obtain ⟨r, hr⟩ := h.split; rw [hr]; simp [hx]

theorem Inv.P_le (h : Inv n a w j offsets T P i L1 s) {x : Nat} (hx : x ∈ P) :
    s.dist.getD x 0 ≤ s.dist.getD i 0 := by
  obtain ⟨r, hr⟩ := h.split
  have := h.sorted
  rw [hr, List.pairwise_append] at this
  exact this.2.2 x hx i (by simp)

theorem Inv.P_ne (h : Inv n a w j offsets T P i L1 s) {x : Nat} (hx : x ∈ P) : x ≠ i := by
  obtain ⟨r, hr⟩ := h.split
  have := h.q_nodup
  rw [hr, List.nodup_append] at this
  exact this.2.2 x hx i (by simp)

/-- members of the recorded list are processed nodes or `i` -/
theorem mem_recl {a : Adj} {s : Fwd} {P : List Nat} {i : Nat} {L1 : List Nat} {l x : Nat}
    (hx : x ∈ recl a s P i L1 l) : (x ∈ P ∨ (x = i ∧ l ∈ L1)) ∧ kpred a s.dist x l = true := by
  unfold recl at hx
  grind

theorem recl_skip {a : Adj} {s : Fwd} {P : List Nat} {i : Nat} {L1 : List Nat} {l : Nat}
    (hk : kpred a s.dist i l = false) (l' : Nat) :
    recl a s P i (L1 ++ [l]) l' = recl a s P i L1 l' := by
  unfold recl
  by_cases h : l' = l
  · subst h; simp [hk]
  · simp [h]

/-- the neighbour `l` of `i` lies on an earlier or the same level: nothing is written -/
theorem Inv.skip (h : Inv n a w j offsets T P i L1 s) {l : Nat} (hl : l < n)
    (hlt : s.dist.getD l 0 < s.dist.getD i 0 + 1) :
    Inv n a w j offsets T P i (L1 ++ [l]) s := by
  have hk : kpred a s.dist i l = false := by
    have : (s.dist.getD i 0 + 1 == s.dist.getD l 0) = false := by
      rw [beq_eq_false_iff_ne]; omega
    unfold kpred; rw [this]; simp
  have hvis : l ∈ s.queue := by
    apply Classical.byContradiction
    intro hc
    have h1 := h.d_unv l hl hc
    have h2 := h.d_bound i h.i_mem
    have h3 := h.q_len
    omega
  refine { h with closed := ?_, m_rec := ?_, np := ?_, preds := ?_ }
  · intro u v huv hv hav
    by_cases hc : u ∈ P ∨ (u = i ∧ v ∈ L1)
    · exact h.closed u v hc hv hav
    · have : u = i ∧ v = l := by grind
      obtain ⟨rfl, rfl⟩ := this
      exact ⟨hvis, by omega⟩
  · intro l' hl' hne; rw [recl_skip hk]; exact h.m_rec l' hl' hne
  · intro l' hl'; rw [recl_skip hk]; exact h.np l' hl'
  · intro l' hl'; rw [recl_skip hk]; exact h.preds l' hl'

theorem Inv.unvisited (h : Inv n a w j offsets T P i L1 s) {l : Nat}
    (hunv : s.dist.getD l 0 > s.dist.getD i 0 + 1) : l ∉ s.queue := by
  intro hc
  have := h.d_next l hc
  omega

theorem kpred_discover (h : Inv n a w j offsets T P i L1 s) {l : Nat} (hl : l < n)
    (hunv : s.dist.getD l 0 > s.dist.getD i 0 + 1) {x l' : Nat}
    (hx : x ∈ P ∨ (x = i ∧ l' ∈ L1)) :
    kpred a (s.dist.set l (s.dist.getD i 0 + 1)) x l' = kpred a s.dist x l' := by
  have hlq := h.unvisited hunv
  have hxq : x ∈ s.queue := by
    rcases hx with hx | ⟨rfl, _⟩
    · exact h.P_mem hx
    · exact h.i_mem
  have hxl : x ≠ l := fun e => hlq (e ▸ hxq)
  have hdx : s.dist.getD x 0 ≤ s.dist.getD i 0 := by
    rcases hx with hx | ⟨rfl, _⟩
    · exact h.P_le hx
    · exact Nat.le_refl _
  unfold kpred
  rw [getD_set_nat, getD_set_nat]
  have hlen := h.len_d
  by_cases hl' : l' = l
  · subst hl'
    cases hax : a x l'
    · simp
    · exfalso
      exact hlq (h.closed x l' hx hl hax).1
  · have h1 : ¬ (l = x ∧ l < s.dist.length) := fun e => hxl e.1.symm
    have h2 : ¬ (l = l' ∧ l < s.dist.length) := fun e => hl' e.1.symm
    rw [if_neg h1, if_neg h2]

theorem recl_discover (h : Inv n a w j offsets T P i L1 s) {l : Nat} (hl : l < n)
    (hunv : s.dist.getD l 0 > s.dist.getD i 0 + 1) (l' : Nat) :
    recl a (discover (s.dist.getD i 0 + 1) s l) P i L1 l' = recl a s P i L1 l' := by
  unfold recl discover
  simp only []
  congr 1
  · apply List.filter_congr
    intro x hx
    exact kpred_discover h hl hunv (Or.inl hx)
  · by_cases hL : l' ∈ L1
    · rw [kpred_discover h hl hunv (Or.inr ⟨rfl, hL⟩)]
    · simp [hL]

/-- first visit of the neighbour `l` of `i`: distance and queue are extended -/
theorem Inv.discover_step (h : Inv n a w j offsets T P i L1 s) {l : Nat} (hl : l < n)
    (hal : a i l = true) (hunv : s.dist.getD l 0 > s.dist.getD i 0 + 1) :
    Inv n a w j offsets T P i L1 (discover (s.dist.getD i 0 + 1) s l) := by
  have hlq := h.unvisited hunv
  have hlen := h.len_d
  have hdl : ∀ v, v ∈ s.queue → (s.dist.set l (s.dist.getD i 0 + 1)).getD v 0 = s.dist.getD v 0 := by
    intro v hv
    have : v ≠ l := fun e => hlq (e ▸ hv)
    rw [getD_set_nat]; grind
  have hdl' : (s.dist.set l (s.dist.getD i 0 + 1)).getD l 0 = s.dist.getD i 0 + 1 := by
    rw [getD_set_nat]; grind
  have him := h.i_mem
  have hjm : j ∈ s.queue := by
    have := h.q_head
    cases hq : s.queue with
    | nil => simp [hq] at this
    | cons x t => simp [hq] at this; simp [this]
  refine
    { len_d := by simp [discover, hlen]
      len_np := h.len_np
      len_m := h.len_m
      len_fp := h.len_fp
      split := ?_
      q_nodup := ?_
      q_lt := ?_
      q_head := ?_
      d_root := ?_
      d_unv := ?_
      d_bound := ?_
      d_next := ?_
      sorted := ?_
      parent := ?_
      closed := ?_
      m_root := h.m_root
      m_rec := ?_
      np := ?_
      preds := ?_ }
  · obtain ⟨r, hr⟩ := h.split
    exact ⟨r ++ [l], by simp [discover, hr]⟩
  · simp only [discover]
    rw [List.nodup_append]
    refine ⟨h.q_nodup, by simp, ?_⟩
    intro x hx y hy
    simp at hy
    subst hy
    exact fun e => hlq (e ▸ hx)
  · intro v hv
    simp only [discover, List.mem_append, List.mem_singleton] at hv
    rcases hv with hv | rfl
    · exact h.q_lt v hv
    · exact hl
  · simp only [discover]
    have := h.q_head
    cases hq : s.queue with
    | nil => simp [hq] at this
    | cons x t => simpa [hq] using this
  · simp only [discover]; rw [hdl j hjm]; exact h.d_root
  · intro v hv hvq
    simp only [discover, List.mem_append, List.mem_singleton, not_or] at hvq ⊢
    rw [getD_set_nat]
    have := h.d_unv v hv hvq.1
    grind
  · intro v hv
    simp only [discover, List.mem_append, List.mem_singleton, List.length_append,
      List.length_singleton] at hv ⊢
    rcases hv with hv | rfl
    · rw [hdl v hv]; have := h.d_bound v hv; omega
    · rw [hdl']; have := h.d_bound i him; omega
  · intro v hv
    simp only [discover, List.mem_append, List.mem_singleton] at hv ⊢
    rw [hdl i him]
    rcases hv with hv | rfl
    · rw [hdl v hv]; exact h.d_next v hv
    · rw [hdl']
  · simp only [discover]
    rw [List.pairwise_append]
    refine ⟨?_, by simp, ?_⟩
    · refine h.sorted.imp_of_mem ?_
      intro x y hx hy hxy
      rw [hdl x hx, hdl y hy]; exact hxy
    · intro x hx y hy
      simp at hy
      subst hy
      rw [hdl x hx, hdl']
      exact h.d_next x hx
  · intro v hv hvj
    simp only [discover, List.mem_append, List.mem_singleton] at hv ⊢
    rcases hv with hv | rfl
    · obtain ⟨u, hu, hau, hd⟩ := h.parent v hv hvj
      exact ⟨u, Or.inl hu, hau, by rw [hdl v hv, hdl u hu]; exact hd⟩
    · exact ⟨i, Or.inl him, hal, by rw [hdl', hdl i him]⟩
  · intro u v huv hv hav
    obtain ⟨hvq, hd⟩ := h.closed u v huv hv hav
    have huq : u ∈ s.queue := by
      rcases huv with hu | ⟨rfl, _⟩
      · exact h.P_mem hu
      · exact him
    simp only [discover, List.mem_append, List.mem_singleton]
    exact ⟨Or.inl hvq, by rw [hdl v hvq, hdl u huq]; exact hd⟩
  · intro l' hl' hne
    rw [recl_discover h hl hunv]
    exact h.m_rec l' hl' hne
  · intro l' hl'
    rw [recl_discover h hl hunv]
    exact h.np l' hl'
  · intro l' hl'
    rw [recl_discover h hl hunv]
    exact h.preds l' hl'

theorem Inv.P_nodup (h : Inv n a w j offsets T P i L1 s) : (P ++ [i]).Nodup := by
  obtain ⟨r, hr⟩ := h.split
  have := h.q_nodup
  rw [hr, show P ++ i :: r = (P ++ [i]) ++ r by simp] at this
  exact (List.nodup_append.mp this).1

theorem kpred_adj {a : Adj} {d : List Nat} {x l : Nat} (h : kpred a d x l = true) :
    a x l = true ∧ d.getD x 0 + 1 = d.getD l 0 := by
  unfold kpred at h
  simp only [Bool.and_eq_true, beq_iff_eq] at h
  exact h

theorem Inv.recl_nodup (h : Inv n a w j offsets T P i L1 s) (l : Nat) :
    (recl a s P i L1 l).Nodup ∧ (l ∉ L1 → (recl a s P i L1 l ++ [i]).Nodup) := by
  have hP := h.P_nodup
  have hsub : (P.filter fun x => kpred a s.dist x l).Sublist P := List.filter_sublist
  have h1 : ((P.filter fun x => kpred a s.dist x l) ++ [i]).Nodup :=
    (List.Sublist.append_right hsub [i]).nodup hP
  unfold recl
  constructor
  · split
    · exact h1
    · simpa using (List.nodup_append.mp h1).1
  · intro hl
    simp only [hl, false_and, if_false, List.append_nil]
    exact h1

theorem Inv.recl_len {K : Nat → Nat} (h : Inv n a w j offsets T P i L1 s)
    (lay : Layout n a offsets T K) {l : Nat} (hl : l < n) :
    (recl a s P i L1 l).length ≤ K l ∧ (l ∉ L1 → a i l = true → (recl a s P i L1 l).length + 1 ≤ K l) := by
  have hmem : ∀ x, x ∈ recl a s P i L1 l → x < n ∧ a x l = true := by
    intro x hx
    obtain ⟨hx1, hx2⟩ := mem_recl hx
    refine ⟨?_, (kpred_adj hx2).1⟩
    rcases hx1 with hx1 | ⟨rfl, _⟩
    · exact h.q_lt x (h.P_mem hx1)
    · exact h.q_lt x h.i_mem
  constructor
  · exact lay.count l _ hl (h.recl_nodup l).1 hmem
  · intro hL hal
    have := lay.count l _ hl ((h.recl_nodup l).2 hL) (by
      intro x hx
      simp only [List.mem_append, List.mem_singleton] at hx
      rcases hx with hx | rfl
      · exact hmem x hx
      · exact ⟨h.q_lt x h.i_mem, hal⟩)
    simpa using this

theorem recl_record {offsets : List Nat} {w : Nat → Rat} {a : Adj} {s : Fwd} {P : List Nat} {i : Nat}
    {L1 : List Nat} {l : Nat} (hk : kpred a s.dist i l = true) (hL : l ∉ L1) (l' : Nat) :
    recl a (record offsets w i s l) P i (L1 ++ [l]) l'
      = if l' = l then recl a s P i L1 l ++ [i] else recl a s P i L1 l' := by
  unfold recl record
  simp only []
  by_cases h : l' = l
  · subst h; simp [hk, hL]
  · simp [h]

/-- the neighbour `l` of `i` lies on the next level: `i` is appended to its predecessor slice and its
multiplicity grows by `w[l] * multiplicity_to_j[i]` -/
theorem Inv.record_step {K : Nat → Nat} (h : Inv n a w j offsets T P i L1 s)
    (lay : Layout n a offsets T K) {l : Nat} (hl : l < n)
    (hal : a i l = true) (hd : s.dist.getD l 0 = s.dist.getD i 0 + 1) (hlq : l ∈ s.queue)
    (hL : l ∉ L1) :
    Inv n a w j offsets T P i (L1 ++ [l]) (record offsets w i s l) := by
  have hk : kpred a s.dist i l = true := by
    unfold kpred; rw [hal, hd]; simp
  have hlj : l ≠ j := by
    intro e; rw [e, h.d_root] at hd; omega
  have hne : ∀ x, (x ∈ P ∨ x = i) → x ≠ l := by
    intro x hx e
    subst e
    rcases hx with hx | rfl
    · have := h.P_le hx; omega
    · omega
  have hmul : ∀ x, (x ∈ P ∨ x = i) →
      (s.mult.set l (s.mult.getD l 0 + w l * s.mult.getD i 0)).getD x 0 = s.mult.getD x 0 := by
    intro x hx
    have := hne x hx
    rw [getD_set_rat]; grind
  have hmulR : ∀ l', ((recl a s P i L1 l').map fun x =>
      (s.mult.set l (s.mult.getD l 0 + w l * s.mult.getD i 0)).getD x 0)
        = (recl a s P i L1 l').map fun x => s.mult.getD x 0 := by
    intro l'
    apply List.map_congr_left
    intro x hx
    apply hmul
    rcases (mem_recl hx).1 with hx | ⟨hx, _⟩
    · exact Or.inl hx
    · exact Or.inr hx
  have hcnt := (h.recl_len lay hl).2 hL hal
  have hnpl := h.np l hl
  refine
    { len_d := h.len_d
      len_np := by simp [record, h.len_np]
      len_m := by simp [record, h.len_m]
      len_fp := by simp [record, h.len_fp]
      split := h.split
      q_nodup := h.q_nodup
      q_lt := h.q_lt
      q_head := h.q_head
      d_root := h.d_root
      d_unv := h.d_unv
      d_bound := h.d_bound
      d_next := h.d_next
      sorted := h.sorted
      parent := h.parent
      closed := ?_
      m_root := ?_
      m_rec := ?_
      np := ?_
      preds := ?_ }
  · intro u v huv hv hav
    by_cases hc : u ∈ P ∨ (u = i ∧ v ∈ L1)
    · exact h.closed u v hc hv hav
    · have : u = i ∧ v = l := by grind
      obtain ⟨rfl, rfl⟩ := this
      exact ⟨hlq, by simp only [record]; omega⟩
  · simp only [record]
    rw [getD_set_rat]
    have := h.m_root
    grind
  · intro l' hl' hne'
    rw [recl_record hk hL]
    simp only [record]
    by_cases e : l' = l
    · subst e
      rw [if_pos rfl, getD_set_rat, if_pos ⟨rfl, by rw [h.len_m]; exact hl'⟩, List.map_append,
        List.sum_append, hmulR, h.m_rec l' hl' hne']
      simp only [List.map_cons, List.map_nil, List.sum_cons, List.sum_nil]
      rw [getD_set_rat, if_neg (fun c => hne i (Or.inr rfl) c.1.symm)]
      ring
    · rw [if_neg e, hmulR, getD_set_rat, if_neg (fun c => e c.1.symm)]
      exact h.m_rec l' hl' hne'
  · intro l' hl'
    rw [recl_record hk hL]
    simp only [record]
    rw [getD_set_nat]
    by_cases e : l' = l
    · subst e
      rw [if_pos ⟨rfl, by rw [h.len_np]; exact hl'⟩, if_pos rfl, hnpl]; simp
    · rw [if_neg (fun c => e c.1.symm), if_neg e]; exact h.np l' hl'
  · intro l' hl'
    rw [recl_record hk hL]
    simp only [record]
    rw [getD_set_nat]
    by_cases e : l' = l
    · subst e
      rw [if_pos ⟨rfl, by rw [h.len_np]; exact hl'⟩, if_pos rfl, slice_set_snoc, h.preds l' hl']
      have := lay.cap l' hl'
      rw [h.len_fp]; omega
    · rw [if_neg (fun c => e c.1.symm), if_neg e, slice_set_other, h.preds l' hl']
      have h1 := (h.recl_len lay hl').1
      have h2 := h.np l' hl'
      rcases lay.disj l l' hl hl' (fun c => e c.symm) with d | d
      · left; omega
      · right; omega

/-- one iteration of `for l_index in range(oi, oi + k[i])` -/
theorem Inv.relax_step {K : Nat → Nat} (h : Inv n a w j offsets T P i L1 s)
    (lay : Layout n a offsets T K) {l : Nat} (hl : l < n) (hal : a i l = true) (hL : l ∉ L1) :
    Inv n a w j offsets T P i (L1 ++ [l]) (relax offsets w i (s.dist.getD i 0 + 1) s l) ∧
      (relax offsets w i (s.dist.getD i 0 + 1) s l).dist.getD i 0 = s.dist.getD i 0 := by
  rw [relax_eq]
  by_cases h1 : s.dist.getD l 0 ≥ s.dist.getD i 0 + 1
  · rw [if_pos h1]
    by_cases h2 : s.dist.getD l 0 > s.dist.getD i 0 + 1
    · rw [if_pos h2]
      have hs' := h.discover_step hl hal h2
      have hlq := h.unvisited h2
      have hil : i ≠ l := fun e => hlq (e ▸ h.i_mem)
      have hdi : (discover (s.dist.getD i 0 + 1) s l).dist.getD i 0 = s.dist.getD i 0 := by
        simp only [discover]; rw [getD_set_nat]; grind
      have hdl : (discover (s.dist.getD i 0 + 1) s l).dist.getD l 0 = s.dist.getD i 0 + 1 := by
        simp only [discover]; rw [getD_set_nat]; have := h.len_d; grind
      refine ⟨hs'.record_step lay hl hal (by rw [hdl, hdi]) (by simp [discover]) hL, ?_⟩
      simpa [record] using hdi
    · rw [if_neg h2]
      have hd : s.dist.getD l 0 = s.dist.getD i 0 + 1 := by omega
      have hlq : l ∈ s.queue := by
        apply Classical.byContradiction
        intro hc
        have h1 := h.d_unv l hl hc
        have h2 := h.d_bound i h.i_mem
        have h3 := h.q_len
        omega
      exact ⟨h.record_step lay hl hal hd hlq hL, by simp [record]⟩
  · rw [if_neg h1]
    exact ⟨h.skip hl (by omega), rfl⟩

/-- the whole loop over the neighbours of `i` -/
theorem Inv.relax_fold {K : Nat → Nat} (lay : Layout n a offsets T K) (nextD : Nat) :
    ∀ (L2 L1 : List Nat) (s : Fwd), Inv n a w j offsets T P i L1 s →
      (∀ l, l ∈ L2 → l < n ∧ a i l = true) → (L1 ++ L2).Nodup → nextD = s.dist.getD i 0 + 1 →
      Inv n a w j offsets T P i (L1 ++ L2) (L2.foldl (relax offsets w i nextD) s) := by
  intro L2
  induction L2 with
  | nil => intro L1 s h _ _ _; simpa using h
  | cons l t ih =>
    intro L1 s h hm hnd hnext
    subst hnext
    have hl := hm l (by simp)
    have hL : l ∉ L1 := by
      intro hc
      have := (List.nodup_append.mp hnd).2.2 l hc l (by simp)
      exact this rfl
    obtain ⟨h', hd'⟩ := h.relax_step lay hl.1 hl.2 hL
    simp only [List.foldl_cons]
    have := ih (L1 ++ [l]) _ h' (fun x hx => hm x (by simp [hx])) (by simpa using hnd) (by rw [hd'])
    simpa using this

theorem nbrs_nodup (n : Nat) (a : Adj) (i : Nat) : (nbrs n a i).Nodup :=
  List.Nodup.filter _ List.nodup_range

theorem mem_nbrs {n : Nat} {a : Adj} {i l : Nat} : l ∈ nbrs n a i ↔ l < n ∧ a i l = true := by
  simp [nbrs]

theorem recl_full {a : Adj} {s : Fwd} {P : List Nat} {i : Nat} {n l : Nat} (hl : l < n) :
    recl a s P i (nbrs n a i) l = (P ++ [i]).filter fun x => kpred a s.dist x l := by
  unfold recl
  rw [List.filter_append]
  congr 1
  by_cases hk : kpred a s.dist i l = true
  · have : l ∈ nbrs n a i := mem_nbrs.mpr ⟨hl, (kpred_adj hk).1⟩
    simp [hk, this]
  · simp [hk]

theorem recl_nil {a : Adj} {s : Fwd} {P : List Nat} {i l : Nat} :
    recl a s P i [] l = P.filter fun x => kpred a s.dist x l := by
  simp [recl]

/-- `qi += 1`: the next node is taken from the queue -/
theorem Inv.next (h : Inv n a w j offsets T P i (nbrs n a i) s) {i' : Nat} {rest : List Nat}
    (hq : s.queue = P ++ i :: i' :: rest) : Inv n a w j offsets T (P ++ [i]) i' [] s := by
  have hii' : s.dist.getD i 0 ≤ s.dist.getD i' 0 := by
    have := h.sorted
    rw [hq, List.pairwise_append] at this
    have := this.2.1
    simp only [List.pairwise_cons] at this
    exact this.1 i' (by simp)
  refine { h with split := ⟨rest, by simp [hq]⟩, d_next := ?_, closed := ?_, m_rec := ?_, np := ?_,
                  preds := ?_ }
  · intro v hv; have := h.d_next v hv; omega
  · intro u v huv hv hav
    have : u ∈ P ∨ (u = i ∧ v ∈ nbrs n a i) := by
      rcases huv with hu | ⟨_, hc⟩
      · simp only [List.mem_append, List.mem_singleton] at hu
        rcases hu with hu | rfl
        · exact Or.inl hu
        · exact Or.inr ⟨rfl, mem_nbrs.mpr ⟨hv, hav⟩⟩
      · simp at hc
    exact h.closed u v this hv hav
  · intro l hl hne; rw [recl_nil, ← recl_full hl]; exact h.m_rec l hl hne
  · intro l hl; rw [recl_nil, ← recl_full hl]; exact h.np l hl
  · intro l hl; rw [recl_nil, ← recl_full hl]; exact h.preds l hl

/-- the queue is exhausted -/
theorem Inv.final (h : Inv n a w j offsets T P i (nbrs n a i) s) (hq : s.queue = P ++ [i]) :
    FwdFinal n a w j offsets s := by
  refine
    { queue_nodup := h.q_nodup
      queue_lt := h.q_lt
      queue_head := h.q_head
      dist_root := h.d_root
      dist_unvisited := h.d_unv
      queue_sorted := h.sorted
      parent := h.parent
      closed := ?_
      mult_len := h.len_m
      mult_root := h.m_root
      mult_rec := ?_
      preds := ?_ }
  · intro u hu v hv hav
    refine h.closed u v ?_ hv hav
    rw [hq] at hu
    simp only [List.mem_append, List.mem_singleton] at hu
    rcases hu with hu | rfl
    · exact Or.inl hu
    · exact Or.inr ⟨rfl, mem_nbrs.mpr ⟨hv, hav⟩⟩
  · intro l hl hne; rw [hq, ← recl_full hl]; exact h.m_rec l hl hne
  · intro l hl; rw [hq, ← recl_full hl]; exact h.preds l hl

end steps

/-! ### the outer loop -/

theorem forward_done (offsets k flat : List Nat) (w : Nat → Rat) (fuel qi : Nat) (s : Fwd)
    (h : s.queue.length ≤ qi) : forward offsets k flat w fuel qi s = s := by
  cases fuel with
  | zero => rfl
  | succ f => simp only [forward]; rw [if_neg (by omega)]

theorem Inv.init (n : Nat) (a : Adj) (w : Nat → Rat) (j : Nat) (hj : j < n) (offsets : List Nat)
    (T : Nat) : Inv n a w j offsets T [] j [] (fwdInit n w T j) := by
  have hd : ∀ v, ((List.replicate n (2 * n)).set j 0).getD v 0
      = if v = j then 0 else if v < n then 2 * n else 0 := by
    intro v; rw [getD_set_nat]; grind
  have hm : ∀ v, ((List.replicate n (0 : Rat)).set j (w j)).getD v 0 = if v = j then w j else 0 := by
    intro v; rw [getD_set_rat]; grind
  refine
    { len_d := by simp [fwdInit]
      len_np := by simp [fwdInit]
      len_m := by simp [fwdInit]
      len_fp := by simp [fwdInit]
      split := ⟨[], by simp [fwdInit]⟩
      q_nodup := by simp [fwdInit]
      q_lt := by simp [fwdInit, hj]
      q_head := by simp [fwdInit]
      d_root := by simp only [fwdInit]; rw [hd]; simp
      d_unv := ?_
      d_bound := ?_
      d_next := ?_
      sorted := by simp [fwdInit]
      parent := by simp [fwdInit]
      closed := by simp
      m_root := by simp only [fwdInit]; rw [hm]; simp
      m_rec := ?_
      np := ?_
      preds := ?_ }
  · intro v hv hvq
    simp only [fwdInit, List.mem_singleton] at hvq ⊢
    rw [hd]; simp [hvq, hv]
  · intro v hv
    simp only [fwdInit, List.mem_singleton] at hv ⊢
    subst hv; rw [hd]; simp
  · intro v hv
    simp only [fwdInit, List.mem_singleton] at hv ⊢
    subst hv; omega
  · intro l hl hne
    simp only [fwdInit, recl]
    rw [hm]; simp [hne]
  · intro l hl
    simp [fwdInit, recl]
    grind
  · intro l hl
    simp [fwdInit, recl, slice]
    grind

/-- **the forward phase**: for every graph given to the kernel through arrays laid out as `Layout`
demands, with the loop ranges `flat[offsets[i] : offsets[i]+k[i]]` = neighbour lists, the loop
`while qi < queue_len` started with fuel `≥ n − qi` ends in a state satisfying `FwdFinal` -/
theorem forward_inv {n : Nat} {a : Adj} {w : Nat → Rat} {j : Nat} {offsets : List Nat} {T : Nat}
    {K : Nat → Nat} (k flat : List Nat) (lay : Layout n a offsets T K)
    (hflat : ∀ i, i < n → (flat.drop (offsets.getD i 0)).take (k.getD i 0) = nbrs n a i) :
    ∀ (fuel : Nat) (P : List Nat) (i : Nat) (s : Fwd), Inv n a w j offsets T P i [] s →
      n ≤ P.length + fuel → FwdFinal n a w j offsets (forward offsets k flat w fuel P.length s) := by
  intro fuel
  induction fuel with
  | zero =>
    intro P i s h hn
    exfalso
    obtain ⟨r, hr⟩ := h.split
    have := h.q_len
    rw [hr] at this
    simp at this
    omega
  | succ f ih =>
    intro P i s h hn
    obtain ⟨r, hr⟩ := h.split
    have hlt : P.length < s.queue.length := by rw [hr]; simp
    have hi : s.queue.getD P.length 0 = i := by rw [hr]; simp [List.getD]
    have hin : i < n := h.q_lt i h.i_mem
    simp only [forward]
    rw [if_pos hlt, hi, hflat i hin]
    have h2 := Inv.relax_fold (P := P) (i := i) lay (s.dist.getD i 0 + 1) (nbrs n a i) [] s h
      (fun l hl => mem_nbrs.mp hl) (by simpa using nbrs_nodup n a i) rfl
    simp only [List.nil_append] at h2
    generalize (nbrs n a i).foldl (relax offsets w i (s.dist.getD i 0 + 1)) s = s2 at h2
    obtain ⟨r2, hr2⟩ := h2.split
    cases r2 with
    | nil =>
      rw [forward_done _ _ _ _ _ _ _ (by rw [hr2]; simp)]
      exact h2.final hr2
    | cons i' rest =>
      have h3 := h2.next hr2
      have := ih (P ++ [i]) i' s2 h3 (by simp; omega)
      simpa using this

theorem forward_fwdFinal {n : Nat} {a : Adj} {w : Nat → Rat} {j : Nat} (hj : j < n) {offsets : List Nat}
    {T : Nat} {K : Nat → Nat} (k flat : List Nat) (lay : Layout n a offsets T K)
    (hflat : ∀ i, i < n → (flat.drop (offsets.getD i 0)).take (k.getD i 0) = nbrs n a i) :
    FwdFinal n a w j offsets (forward offsets k flat w n 0 (fwdInit n w T j)) :=
  forward_inv k flat lay hflat n [] j _ (Inv.init n a w j hj offsets T) (by simp)

/-! ### the arrays of the wrapper satisfy `Layout` (undirected network) -/

theorem sum_take_succ_getD (k : List Nat) : ∀ m, (k.take (m + 1)).sum = (k.take m).sum + k.getD m 0 := by
  induction k with
  | nil => intro m; simp
  | cons x t ih =>
    intro m
    cases m with
    | zero => simp
    | succ m => simp only [List.take_succ_cons, List.sum_cons, ih m]; simp; omega

theorem sum_take_mono (k : List Nat) (m d : Nat) : (k.take m).sum ≤ (k.take (m + d)).sum := by
  induction d with
  | zero => simp
  | succ d ih => rw [← Nat.add_assoc, sum_take_succ_getD]; omega

theorem offsetsOf_getD (k : List Nat) (i : Nat) (hi : i < k.length) :
    (offsetsOf k).getD i 0 = (k.take i).sum := by
  simp [offsetsOf, List.getD, hi]

theorem degArr_length (n : Nat) (a : Adj) : (degArr n a).length = n := by simp [degArr]

theorem degArr_getD (n : Nat) (a : Adj) (i : Nat) (hi : i < n) :
    (degArr n a).getD i 0 = (nbrs n a i).length := by
  simp [degArr, List.getD, hi, outdeg_eq_length]

theorem flatArr_length (n : Nat) (a : Adj) : (flatArr n a).length = ((degArr n a).take n).sum := by
  have : (degArr n a).take n = degArr n a := by
    rw [List.take_of_length_le]; rw [degArr_length]
  rw [this]
  simp only [flatArr, degArr, List.length_flatMap]
  congr 1
  apply List.map_congr_left
  intro x _
  rw [outdeg_eq_length]

theorem wrapper_layout (n : Nat) (a : Adj) (hsym : ∀ x y, a x y = a y x) :
    Layout n a (offsetsOf (degArr n a)) (flatArr n a).length (fun l => (nbrs n a l).length) := by
  have hoff : ∀ l, l < n → (offsetsOf (degArr n a)).getD l 0 + (nbrs n a l).length
      = ((degArr n a).take (l + 1)).sum := by
    intro l hl
    rw [offsetsOf_getD _ _ (by rw [degArr_length]; exact hl), sum_take_succ_getD, degArr_getD n a l hl]
  have hlt : ∀ l l', l < n → l' < n → l < l' →
      (offsetsOf (degArr n a)).getD l 0 + (nbrs n a l).length ≤ (offsetsOf (degArr n a)).getD l' 0 := by
    intro l l' hl hl' h
    rw [hoff l hl, offsetsOf_getD _ _ (by rw [degArr_length]; exact hl')]
    obtain ⟨d, rfl⟩ := Nat.exists_eq_add_of_le (show l + 1 ≤ l' by omega)
    exact sum_take_mono _ _ _
  refine ⟨?_, ?_, ?_⟩
  · intro l hl
    rw [hoff l hl, flatArr_length]
    obtain ⟨d, hd⟩ := Nat.exists_eq_add_of_le (show l + 1 ≤ n by omega)
    rw [hd]
    exact sum_take_mono _ _ _
  · intro l l' hl hl' hne
    by_cases h : l < l'
    · exact Or.inl (hlt l l' hl hl' h)
    · exact Or.inr (hlt l' l hl' hl (by omega))
  · intro l R hl hR hmem
    have hsub : R ⊆ nbrs n a l := by
      intro x hx
      obtain ⟨hx1, hx2⟩ := hmem x hx
      exact mem_nbrs.mpr ⟨hx1, by rw [hsym]; exact hx2⟩
    exact (List.Nodup.subperm hR hsub).length_le

/-- **forward phase of `_nsi_betweenness` on the wrapper's arrays**, every undirected network, every
weight vector and every target `j < N` -/
theorem forward_wrapper_fwdFinal (n : Nat) (a : Adj) (hsym : ∀ x y, a x y = a y x) (w : Nat → Rat)
    (j : Nat) (hj : j < n) :
    FwdFinal n a w j (offsetsOf (degArr n a))
      (forward (offsetsOf (degArr n a)) (degArr n a) (flatArr n a) w n 0
        (fwdInit n w (flatArr n a).length j)) :=
  forward_fwdFinal hj (degArr n a) (flatArr n a) (wrapper_layout n a hsym)
    (fun i hi => wrapper_slice n a i hi)

end Pyunicorn.NetBetw
