import Pyunicorn.Lemmas.Relabel
import Pyunicorn.Lemmas.RelabelCircuit
import Pyunicorn.Lemmas.Geo
import Pyunicorn.Lemmas.Recurrence
import Mathlib.Tactic.Ring
import Mathlib.Algebra.Order.Field.Rat
/-! C04 for the C12 model `Pyunicorn.Geo` over `Rat` (grid distances from renumbered coordinate
sequences, link-distance measures, area-weighted connectivity) and for the C07 model
`Pyunicorn.Recurrence` (recurrence matrix / recurrence network of reordered state vectors). -/
namespace Pyunicorn.Relabel
open Pyunicorn.Geo

variable {n : Nat} {idx : Nat → Nat}

/-! ### grid distances: the triangular fill of a symmetric expression -/

theorem sym_maxmin {β : Type} (f : Nat → Nat → β) (hs : ∀ i j, f i j = f j i) (p q : Nat) :
    f (max p q) (min p q) = f p q := by
  rcases Nat.le_total p q with hpq | hpq
  · rw [Nat.max_eq_right hpq, Nat.min_eq_left hpq, hs]
  · rw [Nat.max_eq_left hpq, Nat.min_eq_right hpq]

/-- a symmetric pair expression filled triangularly (`for i: for j in range(i+1): M[i,j] =
M[j,i] = f(i,j)`) from renumbered coordinates is the renumbered matrix -/
theorem fillSym_relabel {β : Type} (h : IsPerm n idx) (f : Nat → Nat → β)
    (hs : ∀ i j, f i j = f j i) (z : Nat → Nat → β) (a b : Nat) (ha : a < n) (hb : b < n) :
    fillSym n (fun i j => f (idx i) (idx j)) z a b = fillSym n f z (idx a) (idx b) := by
  rw [fillSym_apply, fillSym_apply, if_pos ⟨ha, hb⟩, if_pos ⟨h.lt ha, h.lt hb⟩,
    sym_maxmin (fun i j => f (idx i) (idx j)) (fun i j => hs _ _), sym_maxmin f hs]

theorem sumsq_symm (x : Nat → Nat → Rat) (d i j : Nat) : sumsq x d i j = sumsq x d j i := by
  unfold sumsq
  congr 1
  funext acc k
  ring

/-- `Grid.euclidean_distance()` of the grid with renumbered coordinate sequences -/
theorem euclideanDistance_relabel (h : IsPerm n idx) (T : Trig Rat) (x : Nat → Nat → Rat)
    (d a b : Nat) (ha : a < n) (hb : b < n) :
    euclideanDistance T (cols x idx) d n a b = euclideanDistance T x d n (idx a) (idx b) := by
  unfold euclideanDistance euclKernel
  exact fillSym_relabel h (fun i j => T.sqrt (sumsq x d i j))
    (fun i j => by rw [sumsq_symm]) _ a b ha hb

theorem cosExpr_symm (sl cl sn cn : Nat → Rat) (i j : Nat) :
    cosExpr sl cl sn cn i j = cosExpr sl cl sn cn j i := by
  unfold cosExpr; ring

/-- `GeoGrid.angular_distance()` of the grid with renumbered latitude / longitude sequences -/
theorem angularDistance_relabel (h : IsPerm n idx) (T : Trig Rat) (lat lon : Nat → Rat)
    (a b : Nat) (ha : a < n) (hb : b < n) :
    angularDistance T (vec lat idx) (vec lon idx) n a b
      = angularDistance T lat lon n (idx a) (idx b) := by
  unfold angularDistance cosAngKernel
  show T.arccos _ = T.arccos _
  congr 1
  exact fillSym_relabel h
    (fun i j => clamp (cosExpr (fun i => T.sin (T.rad (lat i))) (fun i => T.cos (T.rad (lat i)))
      (fun i => T.sin (T.rad (lon i))) (fun i => T.cos (T.rad (lon i))) i j))
    (fun i j => by rw [cosExpr_symm]) _ a b ha hb

/-- `set_node_weight_type` -/
theorem nodeWeights_relabel (T : Trig Rat) (t : WType) (lat : Nat → Rat) (i : Nat) :
    nodeWeights T t (vec lat idx) i = nodeWeights T t lat (idx i) := by
  cases t <;> rfl

/-! ### sums (`Geo.sumTo` over `Rat` is the left fold of `Circuit.sumTo`) -/

theorem gsum_eq (f : Nat → Rat) : Geo.sumTo n f = Circuit.sumTo n f := rfl

theorem gsum_perm (h : IsPerm n idx) (f : Nat → Rat) :
    Geo.sumTo n (fun k => f (idx k)) = Geo.sumTo n f := csum_perm h f

/-- `inarea_weighted_connectivity` / `outarea_…` / `area_weighted_connectivity` -/
theorem AWC_relabel (h : IsPerm n idx) (T : Trig Rat) (directed : Bool) (lat : Nat → Rat)
    (A : Nat → Nat → Rat) (i : Nat) :
    inAWC T (vec lat idx) (mat A idx) n i = inAWC T lat A n (idx i) ∧
    outAWC T (vec lat idx) (mat A idx) n i = outAWC T lat A n (idx i) ∧
    AWC T directed (vec lat idx) (mat A idx) n i = AWC T directed lat A n (idx i) := by
  have e0 : Geo.sumTo n (fun i => T.cos (T.rad (vec lat idx i)))
      = Geo.sumTo n (fun i => T.cos (T.rad (lat i))) := gsum_perm h fun i => T.cos (T.rad (lat i))
  have e1 : inAWC T (vec lat idx) (mat A idx) n i = inAWC T lat A n (idx i) := by
    unfold inAWC
    rw [e0]
    congr 1
    exact gsum_perm h fun k => T.cos (T.rad (lat k)) * A k (idx i)
  have e2 : outAWC T (vec lat idx) (mat A idx) n i = outAWC T lat A n (idx i) := by
    unfold outAWC
    rw [e0]
    congr 1
    exact gsum_perm h fun k => A (idx i) k * T.cos (T.rad (lat k))
  refine ⟨e1, e2, ?_⟩
  unfold AWC
  rw [e1, e2]

/-! ### link-distance measures of `SpatialNetwork` -/

theorem genALD_relabel (h : IsPerm n idx) (D A : Nat → Nat → Rat) (deg : Nat → Rat) (nN : Rat)
    (corrected : Bool) (i : Nat) :
    genALD (mat D idx) (mat A idx) (vec deg idx) n nN corrected i
      = genALD D A deg n nN corrected (idx i) := by
  unfold genALD
  have e1 : Geo.sumTo n (fun j => mat D idx i j * mat A idx i j)
      = Geo.sumTo n (fun j => D (idx i) j * A (idx i) j) :=
    gsum_perm h fun j => D (idx i) j * A (idx i) j
  have e2 : Geo.sumTo n (fun j => mat D idx i j) = Geo.sumTo n (fun j => D (idx i) j) :=
    gsum_perm h fun j => D (idx i) j
  rw [e1, e2]
  rfl

/-- `outaverage_link_distance`, `inaverage_link_distance`, `average_link_distance` -/
theorem ALD_relabel (h : IsPerm n idx) (directed : Bool) (D A : Nat → Nat → Rat) (nN : Rat)
    (corrected : Bool) (i : Nat) :
    outALD (mat D idx) (mat A idx) n nN corrected i = outALD D A n nN corrected (idx i) ∧
    inALD (mat D idx) (mat A idx) n nN corrected i = inALD D A n nN corrected (idx i) ∧
    avgALD directed (mat D idx) (mat A idx) n nN corrected i
      = avgALD directed D A n nN corrected (idx i) := by
  have rs : ∀ i, Geo.sumTo n (fun j => mat A idx i j) = Geo.sumTo n (fun j => A (idx i) j) :=
    fun i => gsum_perm h fun j => A (idx i) j
  have cs : ∀ i, Geo.sumTo n (fun j => mat A idx j i) = Geo.sumTo n (fun j => A j (idx i)) :=
    fun i => gsum_perm h fun j => A j (idx i)
  refine ⟨?_, ?_, ?_⟩
  · unfold outALD
    rw [← genALD_relabel h D A (fun i => Geo.sumTo n fun j => A i j) nN corrected i]
    congr 1
    funext k; exact rs k
  · unfold inALD
    rw [← genALD_relabel h D (fun a b => A b a) (fun i => Geo.sumTo n fun j => A j i) nN corrected i]
    congr 1
    funext k; exact cs k
  · unfold avgALD
    rw [← genALD_relabel h D (undirAdj A)
      (fun i => if directed then Geo.sumTo n (fun j => A j i) + Geo.sumTo n (fun j => A i j)
                else Geo.sumTo n (fun j => A i j)) nN corrected i]
    congr 1
    funext k
    simp only [vec, rs, cs]

/-- `ndarray.max()` of a row does not depend on the order of the row -/
theorem maxRow_spec_q (l : List Rat) (m : Rat) (hm : maxRow l = some m) :
    m ∈ l ∧ ∀ y ∈ l, y ≤ m := by
  cases l with
  | nil => simp [maxRow] at hm
  | cons x xs =>
    simp only [maxRow, Option.some.injEq] at hm
    subst hm
    have key : ∀ (xs : List Rat) (b : Rat),
        (xs.foldl (fun m y => if m < y then y else m) b ∈ b :: xs) ∧
        (∀ y ∈ b :: xs, y ≤ xs.foldl (fun m y => if m < y then y else m) b) := by
      intro xs
      induction xs with
      | nil => intro b; simp
      | cons y t ih =>
        intro b
        simp only [List.foldl_cons]
        obtain ⟨h1, h2⟩ := ih (if b < y then y else b)
        constructor
        · rcases List.mem_cons.mp h1 with e | e
          · rw [e]; split <;> simp
          · simp [e]
        · intro z hz
          have hb : b ≤ (if b < y then y else b) := by split <;> [exact le_of_lt ‹_›; exact le_refl _]
          have hy : y ≤ (if b < y then y else b) := by
            split <;> [exact le_refl _; exact not_lt.mp ‹_›]
          have h0 := h2 _ (List.mem_cons_self)
          rcases List.mem_cons.mp hz with e | e
          · rw [e]; exact le_trans hb h0
          · rcases List.mem_cons.mp e with e | e
            · rw [e]; exact le_trans hy h0
            · exact h2 z (List.mem_cons_of_mem _ e)
    exact key xs x

theorem maxRow_perm (l l' : List Rat) (hp : l.Perm l') : maxRow l = maxRow l' := by
  cases hl : maxRow l with
  | none =>
    have : l = [] := by cases l <;> simp_all [maxRow]
    subst this
    have : l' = [] := List.Perm.eq_nil hp.symm
    subst this; rfl
  | some m =>
    cases hl' : maxRow l' with
    | none =>
      have : l' = [] := by cases l' <;> simp_all [maxRow]
      subst this
      have : l = [] := List.Perm.eq_nil hp
      subst this; simp [maxRow] at hl
    | some m' =>
      obtain ⟨h1, h2⟩ := maxRow_spec_q l m hl
      obtain ⟨h1', h2'⟩ := maxRow_spec_q l' m' hl'
      have a := h2 m' (hp.mem_iff.mpr h1')
      have b := h2' m (hp.mem_iff.mp h1)
      rw [le_antisymm a b]

/-- `max_link_distance` -/
theorem maxLinkDist_relabel (h : IsPerm n idx) (D A : Nat → Nat → Rat) (i : Nat) :
    maxLinkDist (mat D idx) (mat A idx) n i = maxLinkDist D A n (idx i) ∧
    maxLinkDistNet (mat D idx) (mat A idx) n i = maxLinkDistNet D A n (idx i) := by
  have key : ∀ (B : Nat → Nat → Rat), maxLinkDist (mat D idx) (mat B idx) n i
      = maxLinkDist D B n (idx i) := by
    intro B
    unfold maxLinkDist
    apply maxRow_perm
    have : ((List.range n).map fun j => mat D idx i j * mat B idx i j)
        = ((List.range n).map idx).map fun j => D (idx i) j * B (idx i) j := by
      rw [List.map_map]; rfl
    rw [this]
    exact List.Perm.map _ h
  exact ⟨key A, key (undirAdj A)⟩

/-! ### recurrence networks: the state vectors are reordered -/
open Pyunicorn.Recurrence

theorem rowOf_rows (emb : List (List V)) (a : Nat) (ha : a < n) :
    rowOf (rows n idx emb) a = rowOf emb (idx a) := by
  unfold rowOf rows
  exact getD_map_range n _ [] a ha

theorem rows_length (emb : List (List V)) : (rows n idx emb).length = n := by simp [rows]

theorem rpEntry_relabel (h : IsPerm n idx) (m : Metric) (emb : List (List V)) (a b : Nat)
    (ha : a < n) (hb : b < n) :
    rpEntry m (rows n idx emb) a b = rpEntry m emb (idx a) (idx b) := by
  unfold rpEntry
  rw [rowOf_rows emb a ha, rowOf_rows emb b hb]
  rcases Nat.lt_trichotomy a b with hab | hab | hab
  · have hne : idx a ≠ idx b := fun e => by have := h.inj ha hb e; omega
    rw [if_neg (by omega), if_pos hab]
    rcases Nat.lt_or_gt_of_ne hne with hh | hh
    · rw [if_neg (by omega), if_pos hh]
    · rw [if_pos hh, dist_comm]
  · subst hab; simp
  · have hne : idx a ≠ idx b := fun e => by have := h.inj ha hb e; omega
    rw [if_pos hab]
    rcases Nat.lt_or_gt_of_ne hne with hh | hh
    · rw [if_neg (by omega), if_pos hh, dist_comm]
    · rw [if_pos hh]

/-- distance matrix of the reordered trajectory -/
theorem distRP_relabel (h : IsPerm n idx) (m : Metric) (emb : List (List V))
    (hn : emb.length = n) (a b : Nat) (ha : a < n) (hb : b < n) :
    entry (distRP m (rows n idx emb)) a b = entry (distRP m emb) (idx a) (idx b) := by
  unfold distRP
  rw [rows_length, hn, entry_tab, entry_tab, if_pos ⟨ha, hb⟩, if_pos ⟨h.lt ha, h.lt hb⟩,
    rpEntry_relabel h m emb a b ha hb]

theorem missingMask_rows (emb : List (List V)) (hn : emb.length = n) (h : IsPerm n idx)
    (a : Nat) (ha : a < n) :
    (missingMask (rows n idx emb)).getD a false = (missingMask emb).getD (idx a) false := by
  unfold missingMask rows
  have hi : idx a < emb.length := by rw [hn]; exact h.lt ha
  simp [List.getD_eq_getElem?_getD, ha, hi]

/-- **`RecurrencePlot.set_fixed_threshold` on reordered state vectors**: the recurrence matrix
is the renumbered recurrence matrix (with or without the missing-value mask) -/
theorem fixedThreshold_relabel (h : IsPerm n idx) (m : Metric) (emb : List (List V))
    (hn : emb.length = n) (eps : Rat) (mv : Bool) (a b : Nat) (ha : a < n) (hb : b < n) :
    entry (fixedThreshold m (rows n idx emb) eps mv) a b
      = entry (fixedThreshold m emb eps mv) (idx a) (idx b) := by
  unfold fixedThreshold
  have e : entry (threshold (distRP m (rows n idx emb)) (some (unitThr m eps))) a b
      = entry (threshold (distRP m emb) (some (unitThr m eps))) (idx a) (idx b) := by
    unfold threshold
    rw [entry_map_map, entry_map_map, distRP_relabel h m emb hn a b ha hb]
  cases mv with
  | false => simpa using e
  | true =>
    simp only [if_true]
    rw [applyMask_entry, applyMask_entry, e, missingMask_rows emb hn h a ha,
      missingMask_rows emb hn h b hb]

/-- **the recurrence network** (`A = R.copy(); A.flat[::N+1] = 0`): adjacency of the network of
the reordered trajectory is the renumbered adjacency -/
theorem recurrenceAdjacency_relabel (h : IsPerm n idx) (m : Metric) (emb : List (List V))
    (hn : emb.length = n) (eps : Rat) (mv : Bool) (a b : Nat) (ha : a < n) (hb : b < n) :
    entry (zeroStride (fixedThreshold m (rows n idx emb) eps mv) (n + 1)) a b
      = entry (zeroStride (fixedThreshold m emb eps mv) (n + 1)) (idx a) (idx b) := by
  have len : ∀ e : List (List V), e.length = n → (fixedThreshold m e eps mv).length = n := by
    intro e he
    unfold fixedThreshold
    cases mv <;> simp [threshold, applyMask, distRP, tab_length, he]
  rw [zeroStride_entry, zeroStride_entry, fixedThreshold_relabel h m emb hn eps mv a b ha hb,
    len _ (rows_length emb), len _ hn]
  have d1 : ((a * n + b) % (n + 1) == 0) = ((idx a * n + idx b) % (n + 1) == 0) := by
    rw [Bool.eq_iff_iff]
    simp only [beq_iff_eq]
    rw [diag_stride n a b ha hb, diag_stride n (idx a) (idx b) (h.lt ha) (h.lt hb)]
    exact (h.eq_iff ha hb).symm
  rw [d1]

end Pyunicorn.Relabel
