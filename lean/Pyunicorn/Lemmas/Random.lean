import Pyunicorn.Model.Random
import Pyunicorn.Lemmas.RandomSrc
/-! Helper lemmas for C17 (core Lean only). -/
namespace Pyunicorn.Random
open Pyunicorn.Generated.StructC17

theorem rsum_congr {f g : Nat → Int} (n : Nat) (h : ∀ j, j < n → f j = g j) :
    rsum f n = rsum g n := by
  induction n with
  | zero => rfl
  | succ n ih =>
    simp only [rsum]
    rw [ih (fun j hj => h j (by omega)), h n (by omega)]

theorem rsum_add (f g : Nat → Int) (n : Nat) :
    rsum (fun j => f j + g j) n = rsum f n + rsum g n := by
  induction n with
  | zero => rfl
  | succ n ih => simp only [rsum, ih]; omega

theorem rsum_zero (n : Nat) : rsum (fun _ => 0) n = 0 := by
  induction n with
  | zero => rfl
  | succ n ih => simp [rsum, ih]

/-- a point update of the summand changes the sum by the difference at that point -/
theorem rsum_upd (f : Nat → Int) (a : Nat) (x : Int) (n : Nat) :
    rsum (fun j => if j = a then x else f j) n
      = rsum f n + (if a < n then x - f a else 0) := by
  induction n with
  | zero => simp [rsum]
  | succ n ih =>
    simp only [rsum, ih]
    by_cases h1 : n = a
    · subst h1; simp; omega
    · have : (if n = a then x else f n) = f n := by simp [h1]
      rw [this]
      by_cases h2 : a < n
      · have h3 : a < n + 1 := by omega
        simp [h2, h3]; omega
      · have h3 : ¬ a < n + 1 := by omega
        simp [h2, h3]

theorem deg_set (A : Adj) (i j : Nat) (v : Bool) (n r : Nat) :
    deg (A.set i j v) n r
      = deg A n r + (if r = i ∧ j < n then b2i v - b2i (A i j) else 0) := by
  unfold deg Adj.set
  by_cases h : r = i
  · subst h
    have : (fun b => b2i (if r = r ∧ b = j then v else A r b))
        = (fun b => if b = j then b2i v else (fun b => b2i (A r b)) b) := by
      funext b; by_cases hb : b = j <;> simp [hb]
    rw [this, rsum_upd]; simp
  · have : (fun b => b2i (if r = i ∧ b = j then v else A r b)) = (fun b => b2i (A r b)) := by
      funext b; simp [h]
    rw [this]; simp [h]

theorem colDeg_set (A : Adj) (i j : Nat) (v : Bool) (m c : Nat) :
    colDeg (A.set i j v) m c
      = colDeg A m c + (if c = j ∧ i < m then b2i v - b2i (A i j) else 0) := by
  unfold colDeg Adj.set
  by_cases h : c = j
  · subst h
    have : (fun a => b2i (if a = i ∧ c = c then v else A a c))
        = (fun a => if a = i then b2i v else (fun a => b2i (A a c)) a) := by
      funext a; by_cases ha : a = i <;> simp [ha]
    rw [this, rsum_upd]; simp
  · have : (fun a => b2i (if a = i ∧ c = j then v else A a c)) = (fun a => b2i (A a c)) := by
      funext a; simp [h]
    rw [this]; simp [h]

@[simp] theorem b2i_true : b2i true = 1 := rfl
@[simp] theorem b2i_false : b2i false = 0 := rfl

/-- entries of the rewired matrix -/
theorem rewire_apply (A : Adj) (s t k l a b : Nat)
    (hsk : s ≠ k) (hsl : s ≠ l) (htk : t ≠ k) (htl : t ≠ l) (hst : s ≠ t) (hkl : k ≠ l) :
    rewire A s t k l a b =
      if (a = s ∧ b = l) ∨ (a = l ∧ b = s) ∨ (a = t ∧ b = k) ∨ (a = k ∧ b = t) then true
      else if (a = s ∧ b = t) ∨ (a = t ∧ b = s) ∨ (a = k ∧ b = l) ∨ (a = l ∧ b = k) then false
      else A a b := by
  simp only [rewire, applyWrites, geoWrites, List.foldl_cons, List.foldl_nil, Adj.set]
  grind



theorem deg_rewire (A : Adj) (n s t k l v : Nat)
    (hsk : s ≠ k) (hsl : s ≠ l) (htk : t ≠ k) (htl : t ≠ l) (hst : s ≠ t) (hkl : k ≠ l)
    (bs : s < n) (bt : t < n) (bk : k < n) (bl : l < n)
    (h1 : A s t = true) (h2 : A t s = true) (h3 : A k l = true) (h4 : A l k = true)
    (h5 : A s l = false) (h6 : A l s = false) (h7 : A t k = false) (h8 : A k t = false) :
    deg (rewire A s t k l) n v = deg A n v := by
  simp only [rewire, applyWrites, geoWrites, List.foldl_cons, List.foldl_nil]
  simp only [deg_set]
  simp [Adj.set, *]
  grind [b2i]



def sameLink (e f : Nat × Nat) : Prop := (e.1 = f.1 ∧ e.2 = f.2) ∨ (e.1 = f.2 ∧ e.2 = f.1)

structure GeoInv (n : Nat) (A : Adj) (edges : List (Nat × Nat)) : Prop where
  sym : ∀ i j, A i j = A j i
  loopfree : ∀ i, A i i = false
  inb : ∀ p (h : p < edges.length), edges[p].1 < n ∧ edges[p].2 < n
  links : ∀ p (h : p < edges.length), A edges[p].1 edges[p].2 = true
  inj : ∀ p q (hp : p < edges.length) (hq : q < edges.length),
    sameLink edges[p] edges[q] → p = q
  complete : ∀ i j, A i j = true → ∃ p, ∃ h : p < edges.length, sameLink edges[p] (i, j)

theorem geoStep_cases (c : GeoCfg) (st st' : GeoSt) (d : Nat × Nat)
    (h : geoStep c st d = some st') :
    st' = st ∨ ∃ s t k l, ∃ (hp : d.1 < st.edges.length) (hq : d.2 < st.edges.length),
      st.edges[d.1] = (s, t) ∧ st.edges[d.2] = (k, l) ∧ geoAccept c st.A s t k l = true ∧
      st' = { A := rewire st.A s t k l
              edges := (st.edges.set d.1 (s, l)).set d.2 (k, t)
              i := st.i + 1 } := by
  unfold geoStep at h
  simp only [geoAcceptM_eq, rewireM_eq, (geoEdges_eq _ _ _ _).1, (geoEdges_eq _ _ _ _).2] at h
  split at h
  · rename_i s t k l h1 h2
    split at h
    · right
      rw [List.getElem?_eq_some_iff] at h1 h2
      obtain ⟨hp, h1⟩ := h1
      obtain ⟨hq, h2⟩ := h2
      refine ⟨s, t, k, l, hp, hq, h1, h2, ‹_›, ?_⟩
      simpa using h.symm
    · left; simpa using h.symm
  · simp at h

theorem getElem_set2 (E : List (Nat × Nat)) (p q : Nat) (x y : Nat × Nat) (r : Nat)
    (h : r < ((E.set p x).set q y).length) :
    ((E.set p x).set q y)[r] =
      if r = q then y else if r = p then x else E[r]'(by simpa using h) := by
  simp only [List.getElem_set]
  grind

theorem geoInv_rewire (n : Nat) (c : GeoCfg) (A : Adj) (E : List (Nat × Nat)) (p q s t k l : Nat)
    (hp : p < E.length) (hq : q < E.length) (e1 : E[p] = (s, t)) (e2 : E[q] = (k, l))
    (acc : geoAccept c A s t k l = true) (inv : GeoInv n A E) :
    GeoInv n (rewire A s t k l) ((E.set p (s, l)).set q (k, t)) := by
  obtain ⟨sym, lf, inb, links, inj, complete⟩ := inv
  simp only [geoAccept, Bool.and_eq_true, bne_iff_ne, ne_eq, Bool.not_eq_true'] at acc
  obtain ⟨⟨⟨⟨⟨⟨hsk, hsl⟩, htk⟩, htl⟩, hAsl, hAtk⟩, -⟩, -⟩ := acc
  have hAst : A s t = true := by have := links p hp; rw [e1] at this; exact this
  have hAkl : A k l = true := by have := links q hq; rw [e2] at this; exact this
  have hst : s ≠ t := by intro h; subst h; rw [lf] at hAst; cases hAst
  have hkl : k ≠ l := by intro h; subst h; rw [lf] at hAkl; cases hAkl
  have hpq : p ≠ q := by intro h; subst h; rw [e1] at e2; simp at e2; omega
  have ra := fun a b => rewire_apply A s t k l a b hsk hsl htk htl hst hkl
  refine ⟨?_, ?_, ?_, ?_, ?_, ?_⟩
  · intro i j; rw [ra, ra, sym i j]; grind
  · intro i; rw [ra, lf]; grind
  · intro r hr
    rw [getElem_set2]
    have := inb r (by simpa using hr); have := inb p hp; have := inb q hq
    grind
  · intro r hr
    rw [getElem_set2, ra]
    have hr' : r < E.length := by simpa using hr
    have := links r hr'
    have := inj r p hr' hp; have := inj r q hr' hq
    simp only [sameLink] at *
    grind
  · intro r1 r2 h1 h2
    rw [getElem_set2, getElem_set2]
    have h1' : r1 < E.length := by simpa using h1
    have h2' : r2 < E.length := by simpa using h2
    have := links r1 h1'; have := links r2 h2'
    have := inj r1 r2 h1' h2'
    have := sym s l; have := sym t k
    simp only [sameLink] at *
    grind
  · intro i j hij
    rw [ra] at hij
    have hlen : ((E.set p (s, l)).set q (k, t)).length = E.length := by simp
    by_cases hn : (i = s ∧ j = l) ∨ (i = l ∧ j = s)
    · refine ⟨p, by simpa using hp, ?_⟩
      rw [getElem_set2]; simp only [sameLink]; grind
    · by_cases hn2 : (i = t ∧ j = k) ∨ (i = k ∧ j = t)
      · refine ⟨q, by simpa using hq, ?_⟩
        rw [getElem_set2]; simp only [sameLink]; grind
      · have hA : A i j = true := by grind
        obtain ⟨r, hr, hs⟩ := complete i j hA
        refine ⟨r, by simpa using hr, ?_⟩
        rw [getElem_set2]
        simp only [sameLink] at *
        grind


end Pyunicorn.Random
