import Pyunicorn.Model.VisibilityScale
import Pyunicorn.Lemmas.VisibilityF32
/-!
Round 5, lemmas for `Properties/C14.lean`: **the float32 natural kernels are invariant under
power-of-two rescalings of values and timings** as an equality of `Except` values (same write log
or same error), lifted from the scalar fact `rndF32_scale` through `slopeR` (four bounds-checked
reads, Cython's zero test on the *rounded* divisor), `condNR`, the `while` loop `scan` and the
double loop `filterE`; no hypothesis on the array lengths (an `IndexError` is the same
`IndexError`).  The hypothesis `NoUflOn` is decidable (`Model/VisibilityScale.lean`) and proved
here for integer series on the default timings.
-/
namespace Pyunicorn.Visibility

/-! ### the decidable hypothesis -/

theorem lgAbs_eq (q : ℚ) : lgAbs q = lg |q| := by
  unfold lgAbs lg
  rcases le_total 0 q with h | h
  · rw [abs_of_nonneg h]
  · rw [abs_of_nonpos h, Rat.neg_num, Int.natAbs_neg, Rat.neg_den]

theorem noUflB_iff (q : ℚ) (k : Int) : noUflB q k = true ↔ NoUfl q k := by
  simp only [noUflB, NoUfl, Bool.or_eq_true, Bool.and_eq_true, decide_eq_true_eq, lgAbs_eq]
  constructor
  · rintro (h | ⟨h1, h2⟩)
    · exact ⟨fun hn => absurd h hn, fun hn => absurd h hn⟩
    · exact ⟨fun _ => h1, fun _ => h2⟩
  · rintro ⟨h1, h2⟩
    by_cases h : q = 0
    · exact Or.inl h
    · exact Or.inr ⟨h1 h, h2 h⟩

/-- what `NoUflOn` says, in the form the scalar lemmas use -/
theorem noUflOn_spec (x : List Val) (t : List ℚ) (N : Nat) (a c : Int) (h : NoUflOn x t N a c)
    (i k : Nat) (hik : i < k) (hk : k < N) :
    NoUfl (t.getD k 0 - t.getD i 0) c ∧
    ∀ dx, vsub (valAt x k) (valAt x i) = some dx →
      NoUfl dx a ∧ NoUfl (rndF32 dx / rndF32 (t.getD k 0 - t.getD i 0)) (a - c) := by
  have := h i (by omega) k hk hik
  simp only [noUflAt, Bool.and_eq_true] at this
  refine ⟨(noUflB_iff _ _).mp this.1, ?_⟩
  intro dx hdx
  have h2 := this.2
  rw [hdx] at h2
  simp only [Bool.and_eq_true] at h2
  exact ⟨(noUflB_iff _ _).mp h2.1, (noUflB_iff _ _).mp h2.2⟩

/-! ### one slope -/

theorem rd_ok_valAt (x : List Val) (k : Nat) (v : Val) (h : rd x k = .ok v) : valAt x k = v := by
  simp only [rd] at h
  simp only [valAt]
  cases hk : x[k]? with
  | none => rw [hk] at h; cases h
  | some w => rw [hk] at h; cases h; rfl

theorem rd_ok_getD (t : List ℚ) (k : Nat) (v : ℚ) (h : rd t k = .ok v) : t.getD k 0 = v := by
  simp only [rd] at h
  simp only [List.getD]
  cases hk : t[k]? with
  | none => rw [hk] at h; cases h
  | some w => rw [hk] at h; cases h; rfl

/-- **the rounded slope of the rescaled series, as the kernel computes it** (reads, zero test,
three roundings): the same error, or the old slope times `2^(a-c)` -/
theorem slopeR_scale (x : List Val) (t : List ℚ) (a c : Int) (i k : Nat)
    (hdt : NoUfl (t.getD k 0 - t.getD i 0) c)
    (hdx : ∀ dx, vsub (valAt x k) (valAt x i) = some dx →
      NoUfl dx a ∧ NoUfl (rndF32 dx / rndF32 (t.getD k 0 - t.getD i 0)) (a - c)) :
    slopeR rndF32 (scaleVals a x) (scaleTimes c t) i k
      = mapE (scaleV (pow2 (a - c))) (slopeR rndF32 x t i k) := by
  simp only [slopeR, scaleVals, scaleTimes, rd_map]
  cases hxk : rd x k with
  | error e => rfl
  | ok xk =>
  cases hxi : rd x i with
  | error e => rfl
  | ok xi =>
  cases htk : rd t k with
  | error e => rfl
  | ok tk =>
  cases hti : rd t i with
  | error e => rfl
  | ok ti =>
  rw [rd_ok_valAt x k xk hxk, rd_ok_valAt x i xi hxi] at hdx
  rw [rd_ok_getD t k tk htk, rd_ok_getD t i ti hti] at hdt hdx
  simp only [mapE, bind_ok]
  have hc := pow2_pos c
  have e0 : pow2 c * tk - pow2 c * ti = pow2 c * (tk - ti) := by ring
  rw [e0, rndF32_scale _ c hdt.1 hdt.2]
  by_cases h0 : rndF32 (tk - ti) = 0
  · rw [if_pos (by rw [h0, mul_zero]), if_pos h0]
  · rw [if_neg (mul_ne_zero (ne_of_gt hc) h0), if_neg h0]
    congr 1
    cases xk with
    | none => rfl
    | some vk =>
      cases xi with
      | none => rfl
      | some vi =>
        obtain ⟨h1, h2⟩ := hdx (vk - vi) rfl
        simp only [vsub, Option.map_some, scaleV, Option.some.injEq]
        rw [← mul_sub, rndF32_scale _ a h1.1 h1.2]
        have e : pow2 a * rndF32 (vk - vi) / (pow2 c * rndF32 (tk - ti))
            = pow2 (a - c) * (rndF32 (vk - vi) / rndF32 (tk - ti)) := by
          have : pow2 a = pow2 (a - c) * pow2 c := by rw [← pow2_add]; congr 1; ring
          rw [this]; field_simp
        rw [e, rndF32_scale _ (a - c) h2.1 h2.2]

/-! ### the loop condition, the `while` loop, the double loop -/

theorem condNR_scale (x : List Val) (t : List ℚ) (mv : Option (List Bool)) (a c : Int)
    (i k : Nat) (test : Val)
    (hdt : NoUfl (t.getD k 0 - t.getD i 0) c)
    (hdx : ∀ dx, vsub (valAt x k) (valAt x i) = some dx →
      NoUfl dx a ∧ NoUfl (rndF32 dx / rndF32 (t.getD k 0 - t.getD i 0)) (a - c)) :
    condNR rndF32 (scaleVals a x) (scaleTimes c t) mv i (scaleV (pow2 (a - c)) test) k
      = condNR rndF32 x t mv i test k := by
  have inner : (do let s ← slopeR rndF32 (scaleVals a x) (scaleTimes c t) i k
                   Except.ok (vlt s (scaleV (pow2 (a - c)) test)) : Except Err Bool)
      = (do let s ← slopeR rndF32 x t i k
            Except.ok (vlt s test)) := by
    rw [slopeR_scale x t a c i k hdt hdx]
    cases slopeR rndF32 x t i k with
    | error e => rfl
    | ok s =>
      simp only [mapE, bind_ok, vlt_scale (pow2 (a - c)) (pow2_pos _)]
  simp only [condNR]
  rw [inner]

theorem farNR_scale (x : List Val) (t : List ℚ) (mv : Option (List Bool)) (N : Nat) (a c : Int)
    (h : NoUflOn x t N a c) (i j : Nat) (hij : i < j) (hj : j < N) :
    farNR rndF32 (scaleVals a x) (scaleTimes c t) mv i j = farNR rndF32 x t mv i j := by
  obtain ⟨hjt, hjx⟩ := noUflOn_spec x t N a c h i j hij hj
  simp only [farNR]
  rw [slopeR_scale x t a c i j hjt hjx]
  cases slopeR rndF32 x t i j with
  | error e => rfl
  | ok test =>
    simp only [mapE, bind_ok]
    rw [scan_congr_le _ (condNR rndF32 x t mv i test) j (j - i) (i + 1) (by omega)]
    intro m h1 h2
    obtain ⟨hmt, hmx⟩ := noUflOn_spec x t N a c h i m (by omega) (by omega)
    exact condNR_scale x t mv a c i m test hmt hmx

/-- **the float32 natural kernels on `x · 2^a`, `t · 2^c`**: the same write log or the same
error as on `x`, `t`, for every mask and every array length -/
theorem kernelNR_scale (x : List Val) (t : List ℚ) (mv : Option (List Bool)) (N : Nat) (a c : Int)
    (h : NoUflOn x t N a c) :
    kernelNR rndF32 (scaleVals a x) (scaleTimes c t) mv N = kernelNR rndF32 x t mv N := by
  simp only [kernelNR]
  rw [filterE_congr_mem (fun p : Nat × Nat => farNR rndF32 (scaleVals a x) (scaleTimes c t) mv p.1 p.2)
    (fun p => farNR rndF32 x t mv p.1 p.2) (farPairs N)]
  rintro ⟨i, j⟩ hp
  rw [farPairs_mem] at hp
  exact farNR_scale x t mv N a c h i j (by omega) hp.2

/-! ### a closed class: integer series on the default timings -/

theorem le_lg (q : ℚ) (hq : 0 < q) (m : Int) (h : pow2 m ≤ q) : m ≤ lg q := by
  have h2 := (lg_spec q hq).2
  have : pow2 m < pow2 (lg q + 1) := lt_of_le_of_lt h h2
  rw [pow2_lt_iff] at this
  omega

theorem pow2_zero' : pow2 0 = 1 := by simp [pow2]

/-- a non-zero integer is at least `2^0` in magnitude -/
theorem lg_int_nonneg (z : Int) (hz : (z : ℚ) ≠ 0) : 0 ≤ lg |(z : ℚ)| := by
  have hz' : z ≠ 0 := by intro h; apply hz; rw [h]; rfl
  have h1 : (1 : ℚ) ≤ |(z : ℚ)| := by
    rw [← Int.cast_abs]
    have : (1 : Int) ≤ |z| := Int.one_le_abs hz'
    exact_mod_cast this
  exact le_lg _ (lt_of_lt_of_le one_pos h1) 0 (by rw [pow2_zero']; exact h1)

theorem noUfl_int (z : Int) (k : Int) (hk : -126 ≤ k) : NoUfl (z : ℚ) k := by
  constructor
  · intro hz; have := lg_int_nonneg z hz; omega
  · intro hz; have := lg_int_nonneg z hz; omega

/-- the quotient of two integers, the divisor below `2^24` in magnitude -/
theorem noUfl_int_div (z d : Int) (hd : |d| < 2 ^ 24) (hd0 : d ≠ 0) (k : Int) (hk : -102 ≤ k) :
    NoUfl ((z : ℚ) / (d : ℚ)) k := by
  have key : (z : ℚ) / (d : ℚ) ≠ 0 → -24 ≤ lg |(z : ℚ) / (d : ℚ)| := by
    intro hq
    have hz : (z : ℚ) ≠ 0 := fun h => hq (by rw [h, zero_div])
    have hz' : z ≠ 0 := by intro h; apply hz; rw [h]; rfl
    have h1 : (1 : ℚ) ≤ |(z : ℚ)| := by
      rw [← Int.cast_abs]
      have : (1 : Int) ≤ |z| := Int.one_le_abs hz'
      exact_mod_cast this
    have h2 : |(d : ℚ)| ≤ 2 ^ 24 := by
      rw [← Int.cast_abs]
      have : |d| ≤ 2 ^ 24 := le_of_lt hd
      exact_mod_cast this
    have h3 : (0 : ℚ) < |(d : ℚ)| := by
      rw [abs_pos]; exact_mod_cast hd0
    have hp : pow2 (-24) = 1 / 2 ^ 24 := by
      simp [pow2]; norm_num
    have h4 : pow2 (-24) ≤ |(z : ℚ) / (d : ℚ)| := by
      rw [abs_div, hp, div_le_div_iff₀ (by norm_num) h3]
      nlinarith
    exact le_lg _ (abs_pos.mpr hq) (-24) h4
  constructor
  · intro hq; have := key hq; omega
  · intro hq; have := key hq; omega

/-- **integer series `|x_k| < 2^23` on the default timings** (`≤ 2^24` samples, any missing
samples): no difference and no quotient underflows, before or after a rescaling with
`a, c ≥ -126`, `a - c ≥ -102` -/
theorem noUflOn_intSeries (x : List Val) (hx : IntSeries x) (N : Nat) (hN : N ≤ 2 ^ 24)
    (a c : Int) (ha : -126 ≤ a) (hc : -126 ≤ c) (hac : -102 ≤ a - c) :
    NoUflOn x (defaultTimings N) N a c := by
  intro i hi k hk hik
  have et : (defaultTimings N).getD k 0 - (defaultTimings N).getD i 0
      = (((k : Int) - (i : Int) : Int) : ℚ) := by
    rw [defaultTimings_getD N k hk, defaultTimings_getD N i hi]; push_cast; ring
  have hdt : |((k : Int) - (i : Int))| < 2 ^ 24 := by rw [abs_lt]; constructor <;> omega
  have hdt0 : ((k : Int) - (i : Int)) ≠ 0 := by omega
  simp only [noUflAt, Bool.and_eq_true]
  refine ⟨?_, ?_⟩
  · rw [et]; exact (noUflB_iff _ _).mpr (noUfl_int _ c hc)
  · cases hvk : valAt x k with
    | none => simp [vsub]
    | some rk =>
      cases hvi : valAt x i with
      | none => simp [vsub]
      | some ri =>
        obtain ⟨zk, rfl, hzk⟩ := hx rk (valAt_mem x k rk hvk)
        obtain ⟨zi, rfl, hzi⟩ := hx ri (valAt_mem x i ri hvi)
        have ex : (zk : ℚ) - (zi : ℚ) = ((zk - zi : Int) : ℚ) := by push_cast; ring
        have hdx : |zk - zi| < 2 ^ 24 := by
          rw [abs_lt] at hzk hzi ⊢; constructor <;> omega
        simp only [vsub, Bool.and_eq_true]
        rw [et, ex, rndF32_fix _ (isF32_int _ hdx), rndF32_fix _ (isF32_int _ hdt)]
        exact ⟨(noUflB_iff _ _).mpr (noUfl_int _ a ha),
          (noUflB_iff _ _).mpr (noUfl_int_div _ _ hdt hdt0 (a - c) hac)⟩

/-! ### a closed class of order-faithful data: small integer series on the default timings -/

/-- relative error `2^-24` in the normal range, either sign -/
theorem rndF32_rel_abs (q : ℚ) (hn : q ≠ 0 → -126 ≤ lg |q|) : |rndF32 q - q| ≤ |q| / 2 ^ 24 := by
  rcases lt_trichotomy q 0 with h | h | h
  · have hq : |q| = -q := abs_of_neg h
    rw [hq] at hn ⊢
    have hp : 0 < -q := by linarith
    have := rndF32_rel (-q) hp (hn (ne_of_lt h))
    rw [rndF32_pos _ hp] at this
    rw [rndF32_of_neg q h]
    have e : -rndPos (-q) - q = -(rndPos (-q) - -q) := by ring
    rw [e, abs_neg]
    exact this
  · rw [h, rndF32_zero]; simp
  · rw [abs_of_pos h] at hn ⊢
    exact rndF32_rel q h (hn (ne_of_gt h))

/-- two numbers further apart than the sum of their rounding errors stay strictly ordered -/
theorem rndF32_strict_of_gap (s1 s2 : ℚ) (h1 : s1 ≠ 0 → -126 ≤ lg |s1|)
    (h2 : s2 ≠ 0 → -126 ≤ lg |s2|) (hgap : (|s1| + |s2|) / 2 ^ 24 < s2 - s1) :
    rndF32 s1 < rndF32 s2 := by
  have e1 := rndF32_rel_abs s1 h1
  have e2 := rndF32_rel_abs s2 h2
  rw [abs_le] at e1 e2
  have : (|s1| + |s2|) / 2 ^ 24 = |s1| / 2 ^ 24 + |s2| / 2 ^ 24 := by ring
  linarith [e1.2, e2.1]

/-- two distinct ratios of small integers are further apart than their rounding errors:
`|p| ≤ P`, `1 ≤ q ≤ Q`, `P · Q < 2^23` -/
theorem int_slopes_gap (p1 p2 q1 q2 P Q : Int) (hq1 : 1 ≤ q1) (hq1' : q1 ≤ Q) (hq2 : 1 ≤ q2)
    (hq2' : q2 ≤ Q) (hp1 : |p1| ≤ P) (hp2 : |p2| ≤ P) (hPQ : P * Q < 2 ^ 23)
    (hlt : (p1 : ℚ) / (q1 : ℚ) < (p2 : ℚ) / (q2 : ℚ)) :
    (|(p1 : ℚ) / (q1 : ℚ)| + |(p2 : ℚ) / (q2 : ℚ)|) / 2 ^ 24
      < (p2 : ℚ) / (q2 : ℚ) - (p1 : ℚ) / (q1 : ℚ) := by
  have hQ1 : (0 : ℚ) < (q1 : ℚ) := by exact_mod_cast (show (0 : Int) < q1 by omega)
  have hQ2 : (0 : ℚ) < (q2 : ℚ) := by exact_mod_cast (show (0 : Int) < q2 by omega)
  rw [div_lt_div_iff₀ hQ1 hQ2] at hlt
  have hlt' : p1 * q2 < p2 * q1 := by exact_mod_cast hlt
  have hP0 : 0 ≤ P := le_trans (abs_nonneg _) hp1
  have b1 : |p1| * q2 ≤ P * Q := by
    apply mul_le_mul hp1 hq2' (by omega) hP0
  have b2 : |p2| * q1 ≤ P * Q := by
    apply mul_le_mul hp2 hq1' (by omega) hP0
  have keyZ : |p1| * q2 + |p2| * q1 < 2 ^ 24 * (p2 * q1 - p1 * q2) := by
    have : 1 ≤ p2 * q1 - p1 * q2 := by omega
    nlinarith
  have key : |(p1 : ℚ)| * (q2 : ℚ) + |(p2 : ℚ)| * (q1 : ℚ)
      < 2 ^ 24 * ((p2 : ℚ) * (q1 : ℚ) - (p1 : ℚ) * (q2 : ℚ)) := by
    rw [← Int.cast_abs, ← Int.cast_abs]
    exact_mod_cast keyZ
  rw [abs_div, abs_div, abs_of_pos hQ1, abs_of_pos hQ2, ← sub_pos]
  have e : (p2 : ℚ) / (q2 : ℚ) - (p1 : ℚ) / (q1 : ℚ)
      - (|(p1 : ℚ)| / (q1 : ℚ) + |(p2 : ℚ)| / (q2 : ℚ)) / 2 ^ 24
      = (2 ^ 24 * ((p2 : ℚ) * (q1 : ℚ) - (p1 : ℚ) * (q2 : ℚ))
          - (|(p1 : ℚ)| * (q2 : ℚ) + |(p2 : ℚ)| * (q1 : ℚ))) / (2 ^ 24 * (q1 : ℚ) * (q2 : ℚ)) := by
    field_simp
  rw [e]
  apply div_pos (by linarith) (by positivity)

/-- integer samples of magnitude at most `B` (present samples only) -/
def SmallInt (x : List Val) (B : Int) : Prop :=
  ∀ r : ℚ, some r ∈ x → ∃ z : Int, r = (z : ℚ) ∧ |z| ≤ B

/-- binary32 rounding keeps the order of two slopes `Δx / Δt` of a small integer series -/
theorem rndF32_slopes_order (p1 p2 q1 q2 P Q : Int) (hq1 : 1 ≤ q1) (hq1' : q1 ≤ Q) (hq2 : 1 ≤ q2)
    (hq2' : q2 ≤ Q) (hp1 : |p1| ≤ P) (hp2 : |p2| ≤ P) (hPQ : P * Q < 2 ^ 23) (hQ : Q < 2 ^ 24) :
    (rndF32 ((p1 : ℚ) / (q1 : ℚ)) < rndF32 ((p2 : ℚ) / (q2 : ℚ)))
      ↔ ((p1 : ℚ) / (q1 : ℚ) < (p2 : ℚ) / (q2 : ℚ)) := by
  constructor
  · intro h
    by_contra hc
    exact absurd h (not_lt.mpr (rndF32_monoRnd _ _ (not_lt.mp hc)))
  · intro h
    apply rndF32_strict_of_gap
    · exact (noUfl_int_div p1 q1 (by rw [abs_lt]; constructor <;> omega) (by omega) 0 (by omega)).1
    · exact (noUfl_int_div p2 q2 (by rw [abs_lt]; constructor <;> omega) (by omega) 0 (by omega)).1
    · exact int_slopes_gap p1 p2 q1 q2 P Q hq1 hq1' hq2 hq2' hp1 hp2 hPQ h

/-- **small integer series on the default timings are order-faithful**: `|x_k| ≤ B`,
`B · N ≤ 2^22` (e.g. 12-bit samples and 1024 of them, 8-bit samples and 16384 of them) -/
theorem faithful_smallInt (x : List Val) (B : Int) (N : Nat) (hB : 1 ≤ B) (hx : SmallInt x B)
    (hBN : B * (N : Int) ≤ 2 ^ 22) : Faithful rndF32 x (defaultTimings N) N := by
  intro i hi k hk j hj hik hij
  have hN2 : (2 : Int) ≤ (N : Int) := by omega
  have h2B : 2 * B ≤ 2 ^ 22 := by nlinarith
  have hNle : (N : Int) ≤ 2 ^ 22 := by nlinarith
  have et : ∀ m, i < m → m < N → (defaultTimings N).getD m 0 - (defaultTimings N).getD i 0
      = (((m : Int) - (i : Int) : Int) : ℚ) := by
    intro m _ hm
    rw [defaultTimings_getD N m hm, defaultTimings_getD N i hi]; push_cast; ring
  have hfix : ∀ m, i < m → m < N →
      rndF32 ((((m : Int) - (i : Int) : Int) : ℚ)) = (((m : Int) - (i : Int) : Int) : ℚ) := by
    intro m _ _
    apply rndF32_fix _ (isF32_int _ _)
    rw [abs_lt]; constructor <;> omega
  simp only [faithfulAt, Bool.and_eq_true, beq_iff_eq]
  refine ⟨?_, ?_⟩
  · rw [et k hik hk, hfix k hik hk]
  · simp only [slopeValR, slopeValE, et k hik hk, et j hij hj, hfix k hik hk, hfix j hij hj]
    cases hvi : valAt x i with
    | none => cases valAt x k <;> cases valAt x j <;> simp [vsub, vlt]
    | some ri =>
      cases hvk : valAt x k with
      | none => cases valAt x j <;> simp [vsub, vlt]
      | some rk =>
        cases hvj : valAt x j with
        | none => simp [vsub, vlt]
        | some rj =>
          obtain ⟨zi, rfl, hzi⟩ := hx ri (valAt_mem x i ri hvi)
          obtain ⟨zk, rfl, hzk⟩ := hx rk (valAt_mem x k rk hvk)
          obtain ⟨zj, rfl, hzj⟩ := hx rj (valAt_mem x j rj hvj)
          have ek : (zk : ℚ) - (zi : ℚ) = ((zk - zi : Int) : ℚ) := by push_cast; ring
          have ej : (zj : ℚ) - (zi : ℚ) = ((zj - zi : Int) : ℚ) := by push_cast; ring
          have bk : |zk - zi| ≤ 2 * B := by
            rw [abs_le] at hzk hzi ⊢; constructor <;> omega
          have bj : |zj - zi| ≤ 2 * B := by
            rw [abs_le] at hzj hzi ⊢; constructor <;> omega
          have fk : rndF32 ((zk - zi : Int) : ℚ) = ((zk - zi : Int) : ℚ) :=
            rndF32_fix _ (isF32_int _ (by omega))
          have fj : rndF32 ((zj - zi : Int) : ℚ) = ((zj - zi : Int) : ℚ) :=
            rndF32_fix _ (isF32_int _ (by omega))
          simp only [vsub, Option.map_some, vlt, ek, ej, fk, fj, decide_eq_decide]
          have hPQ : (2 * B) * ((N : Int) - 1) < 2 ^ 23 := by nlinarith
          exact rndF32_slopes_order (zk - zi) (zj - zi) ((k : Int) - (i : Int))
            ((j : Int) - (i : Int)) (2 * B) ((N : Int) - 1) (by omega) (by omega) (by omega)
            (by omega) bk bj hPQ (by omega)

/-! ### the constructor in `FIELD` arithmetic -/

/-- the timings the constructor hands to the kernels -/
def convTimings (rnd : ℚ → ℚ) (x : List Val) (tm : Option (List ℚ)) : List ℚ :=
  match tm with
  | some t => t.map rnd
  | none => (defaultTimings x.length).map rnd

theorem toField_length (rnd : ℚ → ℚ) (x : List Val) : (toField rnd x).length = x.length := by
  simp [toField]

/-- **natural graph: the constructor as compiled is the exact constructor on the data it stores**
(the converted series and timings) whenever these are order-faithful -/
theorem classLogR_natural (rnd : ℚ → ℚ) (x : List Val) (tm : Option (List ℚ)) (missing : Bool)
    (hl : ∀ t, tm = some t → x.length ≤ t.length) (hf : FaithfulConv rnd x tm) :
    classLogR rnd x tm missing false
      = classLog (toField rnd x) (some (convTimings rnd x tm)) missing false := by
  have hlen : x.length ≤ (convTimings rnd x tm).length := by
    cases tm with
    | none => simp [convTimings, defaultTimings]
    | some t => simpa [convTimings] using hl t rfl
  have hf' : Faithful rnd (toField rnd x) (convTimings rnd x tm) (toField rnd x).length := by
    rw [toField_length]; cases tm <;> exact hf
  have e : classLogR rnd x tm missing false
      = kernelNR rnd (toField rnd x) (convTimings rnd x tm)
          (if missing then some (nanMask (toField rnd x)) else none) (toField rnd x).length := by
    cases tm <;> simp [classLogR, convTimings, toField_length]
  rw [e, kernelNR_eq rnd _ _ _ _ (Nat.le_refl _) (by rw [toField_length]; exact hlen) hf']
  simp [classLog]

/-- horizontal graph: comparisons only, so the compiled constructor *is* the exact constructor on
the converted series -/
theorem classLogR_horizontal (rnd : ℚ → ℚ) (x : List Val) (tm : Option (List ℚ)) (missing : Bool) :
    classLogR rnd x tm missing true = classLog (toField rnd x) tm missing true := by
  simp [classLogR, classLog]

theorem toField_fix (x : List Val) (h : ∀ r : ℚ, some r ∈ x → rndF32 r = r) :
    toField rndF32 x = x := by
  unfold toField
  induction x with
  | nil => rfl
  | cons v l ih =>
    rw [List.map_cons, ih (fun r hr => h r (List.mem_cons_of_mem _ hr))]
    cases v with
    | none => rfl
    | some r => simp [h r List.mem_cons_self]

theorem toField_intSeries (x : List Val) (hx : IntSeries x) : toField rndF32 x = x := by
  apply toField_fix
  intro r hr
  obtain ⟨z, rfl, hz⟩ := hx r hr
  exact rndF32_fix _ (isF32_int z (by omega))

/-- `np.arange(N, dtype=FIELD)` is exact up to `2^24` samples -/
theorem defaultTimings_fix (N : Nat) (hN : N ≤ 2 ^ 24) :
    (defaultTimings N).map rndF32 = defaultTimings N := by
  unfold defaultTimings
  rw [List.map_map]
  apply List.map_congr_left
  intro k hk
  rw [List.mem_range] at hk
  simp only [Function.comp]
  apply rndF32_fix _ (isF32_int _ _)
  rw [abs_lt]; constructor <;> omega

/-- **`VisibilityGraph(x)` on a small integer series, as compiled = the exact constructor** -/
theorem classLogR_smallInt (x : List Val) (B : Int) (hB : 1 ≤ B) (hx : SmallInt x B)
    (hBN : B * (x.length : Int) ≤ 2 ^ 22) (hI : IntSeries x) (missing : Bool) :
    classLogR rndF32 x none missing false = classLog x none missing false := by
  have hN : x.length ≤ 2 ^ 24 := by
    have : (x.length : Int) ≤ 2 ^ 22 := by nlinarith
    omega
  have hf : FaithfulConv rndF32 x none := by
    simp only [FaithfulConv, toField_intSeries x hI, defaultTimings_fix _ hN]
    exact faithful_smallInt x B _ hB hx hBN
  rw [classLogR_natural rndF32 x none missing (by intro t ht; cases ht) hf]
  simp only [convTimings, toField_intSeries x hI, defaultTimings_fix _ hN]
  rfl


/-! ### the constructor in `FIELD` arithmetic under power-of-two rescalings -/

/-- no sample and no timing is subnormal, before or after the rescaling: the conversions to
`FIELD` commute with it -/
def NoUflData (x : List Val) (t : List ℚ) (a c : Int) : Prop :=
  (∀ r : ℚ, some r ∈ x → NoUfl r a) ∧ (∀ r ∈ t, NoUfl r c)

theorem toField_scale (x : List Val) (a : Int) (h : ∀ r : ℚ, some r ∈ x → NoUfl r a) :
    toField rndF32 (scaleVals a x) = scaleVals a (toField rndF32 x) := by
  unfold toField scaleVals
  rw [List.map_map, List.map_map]
  apply List.map_congr_left
  intro v hv
  cases v with
  | none => rfl
  | some r =>
    simp only [Function.comp, Option.map_some]
    rw [rndF32_scale r a (h r hv).1 (h r hv).2]

theorem map_rnd_scaleTimes (t : List ℚ) (c : Int) (h : ∀ r ∈ t, NoUfl r c) :
    (scaleTimes c t).map rndF32 = scaleTimes c (t.map rndF32) := by
  unfold scaleTimes
  rw [List.map_map, List.map_map]
  apply List.map_congr_left
  intro r hr
  simp only [Function.comp]
  rw [rndF32_scale r c (h r hr).1 (h r hr).2]

theorem nanMask_scaleVals (a : Int) (x : List Val) : nanMask (scaleVals a x) = nanMask x := by
  simp only [nanMask, scaleVals, List.map_map]
  apply List.map_congr_left
  intro v _
  cases v <;> rfl

theorem scaleVals_length (a : Int) (x : List Val) : (scaleVals a x).length = x.length := by
  simp [scaleVals]

/-- **natural graph, given timings** -/
theorem classLogR_scale (x : List Val) (t : List ℚ) (a c : Int) (missing : Bool)
    (hd : NoUflData x t a c)
    (h : NoUflOn (toField rndF32 x) (t.map rndF32) x.length a c) :
    classLogR rndF32 (scaleVals a x) (some (scaleTimes c t)) missing false
      = classLogR rndF32 x (some t) missing false := by
  simp only [classLogR, toField_scale x a hd.1, map_rnd_scaleTimes t c hd.2, nanMask_scaleVals,
    scaleVals_length, toField_length, Bool.not_false, if_true]
  exact kernelNR_scale _ _ _ _ a c h

theorem scaleTimes_zero (t : List ℚ) : scaleTimes 0 t = t := by
  unfold scaleTimes
  have : (fun r : ℚ => pow2 0 * r) = id := by funext r; simp [pow2_zero']
  rw [this, List.map_id]

/-- **natural graph, default timings** (only the values are rescaled) -/
theorem classLogR_scale_default (x : List Val) (a : Int) (missing : Bool)
    (hd : ∀ r : ℚ, some r ∈ x → NoUfl r a)
    (h : NoUflOn (toField rndF32 x) ((defaultTimings x.length).map rndF32) x.length a 0) :
    classLogR rndF32 (scaleVals a x) none missing false
      = classLogR rndF32 x none missing false := by
  simp only [classLogR, toField_scale x a hd, nanMask_scaleVals,
    scaleVals_length, toField_length, Bool.not_false, if_true]
  have := kernelNR_scale (toField rndF32 x) ((defaultTimings x.length).map rndF32)
    (if missing then some (nanMask (toField rndF32 x)) else none) x.length a 0 h
  rw [scaleTimes_zero] at this
  exact this

end Pyunicorn.Visibility
