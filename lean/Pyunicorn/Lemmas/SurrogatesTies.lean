import Pyunicorn.Lemmas.SurrogatesPerm
import Pyunicorn.Model.SurrogatesMethod
/-! C15 round 4: **tie-order independence of the rank remapping** `sorted_original[j, ranks[j, :]]`
with `ranks = s.argsort().argsort()`.

numpy does not specify the order `argsort` gives to equal values (it depends on the sorting
algorithm, and `argsort().argsort()` applies it twice).  Whatever it does, the rank array is a
`RankOf s`: a permutation of the index range that never gives a strictly smaller value the larger
rank.  For every such rank array the multiset of (ranked value, output value) pairs is the same —
`zip (sorted s) (sorted row)` — so it is independent of the order among ties; the output is
co-monotone with `s`; without ties it is unique. -/
namespace Pyunicorn.Surrogates

theorem zip_map_fst_snd (l : List (α × β)) : (l.map (·.1)).zip (l.map (·.2)) = l := by
  induction l with
  | nil => rfl
  | cons a l ih => simp [ih]

theorem zip_swap_map (idx : List Nat) (s : List β) (f : Nat → γ) :
    (idx.zip s).map (fun p => (p.2, f p.1)) = s.zip (idx.map f) := by
  induction idx generalizing s with
  | nil => simp
  | cons i is ih => cases s with
    | nil => simp
    | cons x xs => simp [ih]

theorem sortR_pairwise (xs : List Rat) : (sortR xs).Pairwise (· ≤ ·) := by
  have := List.pairwise_mergeSort (le := fun a b : Rat => decide (a ≤ b))
    (fun a b c hab hbc => by
      simp only [decide_eq_true_eq] at hab hbc ⊢; exact Rat.le_trans hab hbc)
    (fun a b => by
      simp only [Bool.or_eq_true, decide_eq_true_eq]; exact Rat.le_total) xs
  exact this.imp (fun h => by simpa using h)

theorem range_pairwise_lt (n : Nat) : (List.range n).Pairwise (· < ·) := List.pairwise_lt_range

/-- sorting the (rank, value) pairs of a rank array by rank gives `zip (range n) (sorted s)` -/
theorem rankOf_sorted_pairs (s : List Rat) (idx : List Nat) (h : RankOf s idx) :
    ∃ T', T'.Perm (idx.zip s) ∧ T' = (List.range s.length).zip (sortR s) := by
  obtain ⟨hperm, hmono⟩ := h
  have hlen : idx.length = s.length := by simpa using hperm.length_eq
  let T := idx.zip s
  let T' := T.mergeSort (fun a b => decide (a.1 ≤ b.1))
  have hTp : T'.Perm T := List.mergeSort_perm _ _
  have hTs : T'.Pairwise (fun a b => a.1 ≤ b.1) := by
    have := List.pairwise_mergeSort (le := fun a b : Nat × Rat => decide (a.1 ≤ b.1))
      (fun a b c hab hbc => by
        simp only [decide_eq_true_eq] at hab hbc ⊢; exact Nat.le_trans hab hbc)
      (fun a b => by
        simp only [Bool.or_eq_true, decide_eq_true_eq]; exact Nat.le_total _ _) T
    exact this.imp (fun h => by simpa using h)
  -- first components: a sorted permutation of the range, hence the range
  have hfstT : T.map (·.1) = idx := by
    show (idx.zip s).map Prod.fst = idx
    exact List.map_fst_zip (by omega)
  have hsndT : T.map (·.2) = s := by
    show (idx.zip s).map Prod.snd = s
    exact List.map_snd_zip (by omega)
  have hfst : T'.map (·.1) = List.range s.length := by
    apply List.Perm.eq_of_pairwise (le := (· ≤ ·))
    · intro a b _ _ hab hba; exact Nat.le_antisymm hab hba
    · exact List.pairwise_map.2 hTs
    · exact (range_pairwise_lt _).imp Nat.le_of_lt
    · exact ((hTp.map _).trans (hfstT ▸ List.Perm.refl _)).trans hperm
  -- so the ranks in T' increase strictly, and the values weakly
  have hTlt : T'.Pairwise (fun a b => a.1 < b.1) := by
    have := range_pairwise_lt s.length
    rw [← hfst] at this
    exact List.pairwise_map.1 this
  have hsnd_sorted : (T'.map (·.2)).Pairwise (· ≤ ·) := by
    apply List.pairwise_map.2
    apply hTlt.imp_of_mem
    intro a b ha hb hab
    by_cases h' : b.2 < a.2
    · have := hmono b (hTp.mem_iff.1 hb) a (hTp.mem_iff.1 ha) h'
      omega
    · exact Rat.not_lt.1 h'
  have hsnd : T'.map (·.2) = sortR s := by
    apply List.Perm.eq_of_pairwise (le := (· ≤ ·))
    · intro a b _ _ hab hba; exact Rat.le_antisymm hab hba
    · exact hsnd_sorted
    · exact sortR_pairwise s
    · exact ((hTp.map _).trans (hsndT ▸ List.Perm.refl _)).trans (sortR_perm s).symm
  refine ⟨T', hTp, ?_⟩
  rw [← zip_map_fst_snd T', hfst, hsnd]

/-- **tie-order independence**: for every rank array of `s` (every order numpy may choose among
equal values) the remapping succeeds, is a permutation of the row, and the multiset of
(ranked value, output value) pairs is `zip (sorted s) (sorted row)` — it does not depend on the
rank array. -/
theorem gather_sorted_rankOf (row s : List Rat) (idx : List Nat) (hlen : s.length = row.length)
    (h : RankOf s idx) :
    ∃ out, gather (sortR row) idx = some out ∧ out.Perm row ∧
      (s.zip out).Perm ((sortR s).zip (sortR row)) := by
  have hl : (sortR row).length = row.length := (sortR_perm row).length_eq
  obtain ⟨out, ho, hp⟩ := gather_perm (sortR row) idx (by rw [hl, ← hlen]; exact h.1)
  refine ⟨out, ho, hp.trans (sortR_perm row), ?_⟩
  obtain ⟨T', hTp, hT'⟩ := rankOf_sorted_pairs s idx h
  have hmap := gather_eq_some_iff.1 ho
  let g : Nat × Rat → Rat × Option Rat := fun p => (p.2, (sortR row)[p.1]?)
  have e1 : (idx.zip s).map g = s.zip (out.map some) := by
    rw [← hmap]; exact zip_swap_map idx s _
  have e2 : T'.map g = (sortR s).zip ((sortR row).map some) := by
    rw [hT', zip_swap_map, hlen, ← hl, map_getElem?_range]
  have hperm : (s.zip (out.map some)).Perm ((sortR s).zip ((sortR row).map some)) := by
    rw [← e1, ← e2]; exact (hTp.map g).symm
  have := hperm.filterMap (fun p : Rat × Option Rat => p.2.map fun o => (p.1, o))
  have k : ∀ (a b : List Rat), (a.zip (b.map some)).filterMap
      (fun p : Rat × Option Rat => p.2.map fun o => (p.1, o)) = a.zip b := by
    intro a b
    induction a generalizing b with
    | nil => simp
    | cons x xs ih => cases b with
      | nil => simp
      | cons y ys => simp [ih]
  rwa [k, k] at this

/-- two rank arrays of the same array (two tie orders): same multiset of (ranked value, output
value) pairs -/
theorem remap_tie_order_independent' (row s : List Rat) (idx₁ idx₂ : List Nat)
    (hlen : s.length = row.length) (h₁ : RankOf s idx₁) (h₂ : RankOf s idx₂) :
    ∃ out₁ out₂, gather (sortR row) idx₁ = some out₁ ∧ gather (sortR row) idx₂ = some out₂ ∧
      (s.zip out₁).Perm (s.zip out₂) := by
  obtain ⟨o1, g1, _, p1⟩ := gather_sorted_rankOf row s idx₁ hlen h₁
  obtain ⟨o2, g2, _, p2⟩ := gather_sorted_rankOf row s idx₂ hlen h₂
  exact ⟨o1, o2, g1, g2, p1.trans p2.symm⟩

/-- the output is co-monotone with the ranked array: a strictly larger ranked value never
receives a smaller output value -/
theorem remap_comonotone' (row s : List Rat) (idx : List Nat)
    (h : RankOf s idx) (out : List Rat) (ho : gather (sortR row) idx = some out)
    (a b : Nat) (x y u v : Rat) (hx : s[a]? = some x) (hy : s[b]? = some y)
    (hu : out[a]? = some u) (hv : out[b]? = some v) (hxy : x < y) : u ≤ v := by
  have hmap := gather_eq_some_iff.1 ho
  have hla : a < out.length := (List.getElem?_eq_some_iff.1 hu).1
  have hlb : b < out.length := (List.getElem?_eq_some_iff.1 hv).1
  have hlo : out.length = idx.length := gather_length ho
  have hia : idx[a]? = some idx[a] := List.getElem?_eq_getElem (by omega)
  have hib : idx[b]? = some idx[b] := List.getElem?_eq_getElem (by omega)
  have ma : (idx[a], x) ∈ idx.zip s := by
    apply List.mem_iff_getElem?.2; exact ⟨a, by simp [List.getElem?_zip_eq_some, hia, hx]⟩
  have mb : (idx[b], y) ∈ idx.zip s := by
    apply List.mem_iff_getElem?.2; exact ⟨b, by simp [List.getElem?_zip_eq_some, hib, hy]⟩
  have hlt : idx[a] < idx[b] := h.2 _ ma _ mb hxy
  have ea := congrArg (·[a]?) hmap
  have eb := congrArg (·[b]?) hmap
  simp only [List.getElem?_map, hia, hib, hu, hv, Option.map_some] at ea eb
  have hja : idx[a] < (sortR row).length := (List.getElem?_eq_some_iff.1 (Option.some.inj ea)).1
  have hjb : idx[b] < (sortR row).length := (List.getElem?_eq_some_iff.1 (Option.some.inj eb)).1
  have := List.pairwise_iff_getElem.1 (sortR_pairwise row) idx[a] idx[b] hja hjb hlt
  rw [List.getElem?_eq_getElem hja] at ea
  rw [List.getElem?_eq_getElem hjb] at eb
  simp only [Option.some.injEq] at ea eb
  rw [← ea, ← eb]; exact this

/-- two lists zipped with a duplicate-free key list are permutations of each other only if equal -/
theorem zip_perm_unique_of_nodup (s o₁ o₂ : List Rat) (h₁ : o₁.length = s.length)
    (h₂ : o₂.length = s.length) (hs : s.Nodup) (hp : (s.zip o₁).Perm (s.zip o₂)) : o₁ = o₂ := by
  apply List.ext_getElem (h₁.trans h₂.symm)
  intro i hi1 hi2
  have his : i < s.length := h₁ ▸ hi1
  have hm : (s[i], o₁[i]) ∈ s.zip o₂ := by
    apply hp.mem_iff.1
    apply List.mem_iff_getElem?.2
    exact ⟨i, by simp [List.getElem?_zip_eq_some, his, hi1]⟩
  obtain ⟨j, hj⟩ := List.mem_iff_getElem?.1 hm
  rw [List.getElem?_zip_eq_some] at hj
  obtain ⟨hj1, hj2⟩ := hj
  have hjs : j < s.length := (List.getElem?_eq_some_iff.1 hj1).1
  have : j = i := by
    have e : s[j] = s[i] := by
      have := (List.getElem?_eq_some_iff.1 hj1).2; exact this
    exact (List.getElem_inj hs).1 e
  subst this
  have := (List.getElem?_eq_some_iff.1 hj2).2
  exact this.symm

/-- without ties the remapping does not depend on the rank array at all -/
theorem remap_unique_of_nodup' (row s : List Rat) (idx₁ idx₂ : List Nat)
    (hlen : s.length = row.length) (hs : s.Nodup) (h₁ : RankOf s idx₁) (h₂ : RankOf s idx₂) :
    gather (sortR row) idx₁ = gather (sortR row) idx₂ := by
  obtain ⟨o1, o2, g1, g2, hp⟩ := remap_tie_order_independent' row s idx₁ idx₂ hlen h₁ h₂
  have l1 : o1.length = s.length := by
    rw [gather_length g1]; simpa using h₁.1.length_eq
  have l2 : o2.length = s.length := by
    rw [gather_length g2]; simpa using h₂.1.length_eq
  rw [g1, g2, zip_perm_unique_of_nodup s o1 o2 l1 l2 hs hp]


/-- the sorted (value, index) pairs behind `argsort` -/
def sortedPairs (s : List Rat) : List (Rat × Nat) :=
  s.zipIdx.mergeSort (fun a b => decide (a.1 ≤ b.1))

theorem argsort_eq (s : List Rat) : argsort s = (sortedPairs s).map (·.2) := rfl

theorem sortedPairs_pairwise (s : List Rat) : (sortedPairs s).Pairwise (fun a b => a.1 ≤ b.1) := by
  have := List.pairwise_mergeSort (le := fun a b : Rat × Nat => decide (a.1 ≤ b.1))
    (fun a b c hab hbc => by
      simp only [decide_eq_true_eq] at hab hbc ⊢; exact Rat.le_trans hab hbc)
    (fun a b => by
      simp only [Bool.or_eq_true, decide_eq_true_eq]; exact Rat.le_total) s.zipIdx
  exact this.imp (fun h => by simpa using h)

theorem sortedPairs_mem (s : List Rat) (x : Rat × Nat) (hx : x ∈ sortedPairs s) :
    s[x.2]? = some x.1 := by
  have : x ∈ s.zipIdx := (List.mergeSort_perm _ _).mem_iff.1 hx
  exact List.mem_zipIdx_iff_getElem?.1 this

/-- `argsortNat` of a permutation of the range is its inverse: `p[q[a]] = a` -/
theorem argsortNat_inverse (p : List Nat) (hp : p.Perm (List.range p.length)) (a : Nat)
    (ha : a < p.length) :
    ∃ k, (argsortNat p)[a]? = some k ∧ p[k]? = some a := by
  let U := p.zipIdx.mergeSort (fun a b => decide (a.1 ≤ b.1))
  have hUp : U.Perm p.zipIdx := List.mergeSort_perm _ _
  have hUs : U.Pairwise (fun a b => a.1 ≤ b.1) := by
    have := List.pairwise_mergeSort (le := fun a b : Nat × Nat => decide (a.1 ≤ b.1))
      (fun a b c hab hbc => by
        simp only [decide_eq_true_eq] at hab hbc ⊢; exact Nat.le_trans hab hbc)
      (fun a b => by
        simp only [Bool.or_eq_true, decide_eq_true_eq]; exact Nat.le_total _ _) p.zipIdx
    exact this.imp (fun h => by simpa using h)
  have hfst0 : p.zipIdx.map (·.1) = p := by
    simp [List.zipIdx_map_fst]
  have hfst : U.map (·.1) = List.range p.length := by
    apply List.Perm.eq_of_pairwise (le := (· ≤ ·))
    · intro a b _ _ hab hba; exact Nat.le_antisymm hab hba
    · exact List.pairwise_map.2 hUs
    · exact (range_pairwise_lt _).imp Nat.le_of_lt
    · have h2 : (p.zipIdx.map (·.1)).Perm (List.range p.length) := by rw [hfst0]; exact hp
      exact (hUp.map _).trans h2
  have hlenU : U.length = p.length := by simpa using hUp.length_eq
  have haU : a < U.length := by omega
  have h1 : (U.map (·.1))[a]? = some a := by
    rw [hfst]; simp [ha]
  have hUa : U[a].1 = a := by
    have := h1
    rw [List.getElem?_map, List.getElem?_eq_getElem haU] at this
    simpa using this
  refine ⟨U[a].2, ?_, ?_⟩
  · show ((U.map (·.2)))[a]? = some U[a].2
    rw [List.getElem?_map, List.getElem?_eq_getElem haU]; rfl
  · have hm : U[a] ∈ p.zipIdx := hUp.mem_iff.1 (List.getElem_mem haU)
    have := List.mem_zipIdx_iff_getElem?.1 hm
    rw [hUa] at this
    exact this

/-- the model's own `argsort().argsort()` (stable merge sort, twice) is a rank array -/
theorem ranks_rankOf (s : List Rat) : RankOf s (ranks s) := by
  refine ⟨ranks_perm s, ?_⟩
  have hpl : (argsort s).length = s.length := argsort_length s
  have hpp : (argsort s).Perm (List.range (argsort s).length) := by
    rw [hpl]; exact argsort_perm s
  intro x hx y hy hxy
  obtain ⟨a, ha⟩ := List.mem_iff_getElem?.1 hx
  obtain ⟨b, hb⟩ := List.mem_iff_getElem?.1 hy
  rw [List.getElem?_zip_eq_some] at ha hb
  obtain ⟨ha1, ha2⟩ := ha
  obtain ⟨hb1, hb2⟩ := hb
  have hal : a < s.length := (List.getElem?_eq_some_iff.1 ha2).1
  have hbl : b < s.length := (List.getElem?_eq_some_iff.1 hb2).1
  obtain ⟨k, hk1, hk2⟩ := argsortNat_inverse (argsort s) hpp a (by omega)
  obtain ⟨l, hl1, hl2⟩ := argsortNat_inverse (argsort s) hpp b (by omega)
  have ek : x.1 = k := by
    have : (ranks s)[a]? = some k := hk1
    rw [ha1] at this; exact Option.some.inj this
  have el : y.1 = l := by
    have : (ranks s)[b]? = some l := hl1
    rw [hb1] at this; exact Option.some.inj this
  rw [ek, el]
  -- positions k, l in the sorted pairs hold (s[a], a), (s[b], b)
  rw [argsort_eq, List.getElem?_map] at hk2 hl2
  have hkV : k < (sortedPairs s).length := by
    cases h : (sortedPairs s)[k]? with
    | none => rw [h] at hk2; simp at hk2
    | some v => exact (List.getElem?_eq_some_iff.1 h).1
  have hlV : l < (sortedPairs s).length := by
    cases h : (sortedPairs s)[l]? with
    | none => rw [h] at hl2; simp at hl2
    | some v => exact (List.getElem?_eq_some_iff.1 h).1
  rw [List.getElem?_eq_getElem hkV] at hk2
  rw [List.getElem?_eq_getElem hlV] at hl2
  simp only [Option.map_some, Option.some.injEq] at hk2 hl2
  have vk := sortedPairs_mem s _ (List.getElem_mem hkV)
  have vl := sortedPairs_mem s _ (List.getElem_mem hlV)
  rw [hk2, ha2] at vk
  rw [hl2, hb2] at vl
  have vk' : (sortedPairs s)[k].1 = x.2 := (Option.some.inj vk).symm
  have vl' : (sortedPairs s)[l].1 = y.2 := (Option.some.inj vl).symm
  rcases Nat.lt_trichotomy k l with h | h | h
  · exact h
  · subst h
    rw [vk'] at vl'
    rw [vl'] at hxy
    exact absurd hxy (Rat.lt_irrefl)
  · have := List.pairwise_iff_getElem.1 (sortedPairs_pairwise s) l k hlV hkV h
    rw [vk', vl'] at this
    exact absurd hxy (Rat.not_lt.2 this)


/-- whatever rank array numpy picked: the same multiset of (ranked value, output value) pairs as
the model's `remap` (which ranks with a stable sort) -/
theorem remap_tie_order_independent_model (row s : List Rat) (idx : List Nat)
    (hlen : s.length = row.length) (h : RankOf s idx) :
    ∃ out out', gather (sortR row) idx = some out ∧ remap row s = some out' ∧
      (s.zip out).Perm (s.zip out') :=
  remap_tie_order_independent' row s idx (ranks s) hlen h (ranks_rankOf s)

/-- without ties the output of the code is the model's `remap`, whatever numpy's sort does -/
theorem remap_unique_of_nodup (row s : List Rat) (idx : List Nat) (hlen : s.length = row.length)
    (hs : s.Nodup) (h : RankOf s idx) : gather (sortR row) idx = remap row s :=
  remap_unique_of_nodup' row s idx (ranks s) hlen hs h (ranks_rankOf s)

end Pyunicorn.Surrogates
