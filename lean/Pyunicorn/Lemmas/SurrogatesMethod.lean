import Pyunicorn.Model.SurrogatesMethod
import Pyunicorn.Lemmas.SurrogatesSpectrum
import Mathlib.Tactic.FieldSimp
/-! C15 round 4: (1) a `correlated_noise_surrogates` body of the expected shape executed statement by
statement is the abstract history model `fourierCalls`; (2) the arithmetic of
`normalize_original_data`. -/
namespace Pyunicorn.Surrogates

/-- the body the spectrum theorem covers -/
def expectedBody (m : Mode) : List FStep :=
  [.fetch, .lenPhase, .drawPhases, .mulPhases m, .irfft]

section
variable {α : Type} [Add α] [Sub α] [Mul α] [OfNat α 0]

omit [OfNat α 0] in
theorem rotRow_length' (T : Trig α) (zs : List (α × α)) (φs : List α)
    (h : φs.length = zs.length) : (rotRow T zs φs).length = zs.length := by
  simp [rotRow, h]

/-- one call of a body of the expected shape -/
theorem fourierMethodCall_expected (T : Trig α) (m : Mode) (cache : List (α × α)) (φs : List α)
    (h : φs.length = cache.length) :
    fourierMethodCall T (expectedBody m) cache φs
      = some ((match m with | .inplace => rotRow T cache φs | .copy => cache), rotRow T cache φs) := by
  cases m <;> simp [fourierMethodCall, expectedBody, fstep, h]

/-- a history of calls: the statement-by-statement execution is `fourierCalls` -/
theorem fourierMethodCalls_expected (T : Trig α) (m : Mode) (cache : List (α × α))
    (phases : List (List α)) (h : ∀ φs ∈ phases, φs.length = cache.length) :
    fourierMethodCalls T (expectedBody m) cache phases = some (fourierCalls T m cache phases) := by
  induction phases generalizing cache with
  | nil => simp [fourierMethodCalls, fourierCalls]
  | cons φs rest ih =>
    have hφ : φs.length = cache.length := h φs List.mem_cons_self
    have hrest : ∀ ψ ∈ rest, ψ.length = cache.length := fun ψ hψ => h ψ (List.mem_cons_of_mem _ hψ)
    rw [fourierMethodCalls, fourierMethodCall_expected T m cache φs hφ]
    cases m with
    | inplace =>
      have hl := rotRow_length' T cache φs hφ
      simp only [fourierCalls]
      rw [ih (rotRow T cache φs) (fun ψ hψ => by rw [hl]; exact hrest ψ hψ)]
    | copy =>
      simp only [fourierCalls]
      rw [ih cache hrest]

omit [OfNat α 0] in
theorem fourierCalls_length (T : Trig α) (m : Mode) (cache : List (α × α)) (phases : List (List α)) :
    (fourierCalls T m cache phases).length = phases.length := by
  induction phases generalizing cache with
  | nil => simp [fourierCalls]
  | cons φs rest ih => simp [fourierCalls, ih]

/-- a wrong number of phases is an error (numpy cannot broadcast), not a truncated product -/
theorem fourierMethodCall_bad_phases (T : Trig α) (m : Mode) (cache : List (α × α)) (φs : List α)
    (h : φs.length ≠ cache.length) : fourierMethodCall T (expectedBody m) cache φs = none := by
  cases m <;> simp [fourierMethodCall, expectedBody, fstep, h]

end

/-! ### `normalize_original_data` -/

theorem normalizeRow_length (O : NormOps α) (m s : α) (row : List α) :
    (normalizeRow O m s row).length = row.length := by
  unfold normalizeRow
  split <;> simp

/-- the loop succeeds whenever `mean` / `std` have one entry per series, and keeps the shape -/
theorem normalizeRows_shape (O : NormOps α) (ms ss : List α) (data : List (List α))
    (hm : data.length ≤ ms.length) (hs : data.length ≤ ss.length) :
    ∃ out, normalizeRows O ms ss data = some out ∧
      List.Forall₂ (fun o r => o.length = r.length) out data := by
  induction data generalizing ms ss with
  | nil => exact ⟨[], by simp [normalizeRows], .nil⟩
  | cons row rows ih =>
    cases ms with
    | nil => simp at hm
    | cons m ms =>
      cases ss with
      | nil => simp at hs
      | cons s ss =>
        obtain ⟨out, ho, hf⟩ := ih ms ss (by simpa using hm) (by simpa using hs)
        exact ⟨normalizeRow O m s row :: out, by simp [normalizeRows, ho],
          .cons (normalizeRow_length O m s row) hf⟩

/-- exact arithmetic -/
noncomputable def realNormOps : NormOps ℝ := ⟨(· - ·), (· / ·), fun x => decide (x = 0)⟩

theorem normalizeRow_real (m s : ℝ) (row : List ℝ) :
    normalizeRow realNormOps m s row
      = if s = 0 then row.map (· - m) else (row.map (· - m)).map (· / s) := by
  unfold normalizeRow
  by_cases h : s = 0 <;> simp [realNormOps, h]

theorem sum_map_sub (row : List ℝ) (m : ℝ) :
    (row.map (· - m)).sum = row.sum - row.length * m := by
  induction row with
  | nil => simp
  | cons x xs ih => simp only [List.map_cons, List.sum_cons, List.length_cons, ih]; push_cast; ring

theorem sum_map_div (row : List ℝ) (s : ℝ) : (row.map (· / s)).sum = row.sum / s := by
  induction row with
  | nil => simp
  | cons x xs ih => simp only [List.map_cons, List.sum_cons, ih]; ring

/-- zero mean: with `m` the mean of the row, the normalised row sums to zero (either branch) -/
theorem normalizeRow_sum_zero (m s : ℝ) (row : List ℝ) (hm : row.length * m = row.sum) :
    (normalizeRow realNormOps m s row).sum = 0 := by
  rw [normalizeRow_real]
  by_cases h0 : s = 0
  · rw [if_pos h0, sum_map_sub, hm, sub_self]
  · rw [if_neg h0, sum_map_div, sum_map_sub, hm, sub_self, zero_div]

theorem sum_sq_map_div (c : List ℝ) (s : ℝ) :
    ((c.map (· / s)).map fun y => y * y).sum = (c.map fun y => y * y).sum / (s * s) := by
  induction c with
  | nil => simp
  | cons x xs ih =>
    simp only [List.map_cons, List.sum_cons, ih]
    by_cases hs : s = 0
    · subst hs; simp
    · field_simp

/-- unit variance: with `s² = mean((x - m)²)`, `s ≠ 0`, the normalised row has sum of squares `n` -/
theorem normalizeRow_unit_variance (m s : ℝ) (row : List ℝ) (hs : s ≠ 0)
    (hv : ((row.map (· - m)).map fun y => y * y).sum = row.length * (s * s)) :
    ((normalizeRow realNormOps m s row).map fun y => y * y).sum = row.length := by
  rw [normalizeRow_real, if_neg hs, sum_sq_map_div, hv]
  field_simp

/-- a constant series (`std = 0`) becomes the zero series: no division takes place -/
theorem normalizeRow_constant (m : ℝ) (row : List ℝ) (hc : ∀ x ∈ row, x = m) :
    normalizeRow realNormOps m 0 row = List.replicate row.length 0 := by
  rw [normalizeRow_real, if_pos rfl, List.eq_replicate_iff]
  refine ⟨by simp, ?_⟩
  intro y hy
  obtain ⟨x, hx, rfl⟩ := List.mem_map.1 hy
  rw [hc x hx, sub_self]

/-- normalisation with a positive `std` is strictly increasing sample by sample: the order of the
samples, hence every rank array and tie of the series, is unchanged -/
theorem normalize_strict_mono (m s : ℝ) (hs : 0 < s) (x y : ℝ) :
    (x - m) / s < (y - m) / s ↔ x < y := by
  rw [div_lt_div_iff_of_pos_right hs]
  constructor <;> intro h <;> linarith

end Pyunicorn.Surrogates
