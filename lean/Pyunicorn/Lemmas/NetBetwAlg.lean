import Pyunicorn.Lemmas.NetBetwSpec
import Pyunicorn.Lemmas.NetRW
/-!
Round 5: the algebra of Brandes' accumulation — the recursion `BrandesSol` has the pair-dependency sum
of the definition (`contribDef`) as its only solution.
-/
namespace Pyunicorn.NetBetw
open Pyunicorn.Net

theorem sumToQ_zero_of (n : Nat) (f : Nat → Rat) (h : ∀ i, i < n → f i = 0) : sumToQ n f = 0 := by
  rw [sumToQ_congrLt n f (fun _ => 0) h, sumToQ_const_zero]

theorem sumToQ_nonneg (n : Nat) (f : Nat → Rat) (h : ∀ i, i < n → 0 ≤ f i) : 0 ≤ sumToQ n f := by
  induction n with
  | zero => simp [sumToQ_zero']
  | succ k ih =>
    rw [sumToQ_succ']
    have := ih (fun i hi => h i (by omega))
    have := h k (by omega)
    linarith

theorem sumToQ_pos (n : Nat) (f : Nat → Rat) (h : ∀ i, i < n → 0 ≤ f i) (i0 : Nat) (hi0 : i0 < n)
    (hp : 0 < f i0) : 0 < sumToQ n f := by
  induction n with
  | zero => omega
  | succ k ih =>
    rw [sumToQ_succ']
    have hk := h k (by omega)
    have hn := sumToQ_nonneg k f (fun i hi => h i (by omega))
    by_cases e : i0 = k
    · subst e; linarith
    · have := ih (fun i hi => h i (by omega)) (by omega)
      linarith

/-- picking one index out of a sum -/
theorem sumToQ_single (n c : Nat) (hc : c < n) (f : Nat → Rat) :
    sumToQ n (fun i => if i = c then f i else 0) = f c := by
  induction n with
  | zero => omega
  | succ k ih =>
    rw [sumToQ_succ']
    by_cases e : c = k
    · subst e
      rw [sumToQ_zero_of c _ (fun i hi => by rw [if_neg (by omega)])]
      simp
    · rw [ih (by omega), if_neg (fun h => e h.symm)]; simp

section
variable {n : Nat} {a : Adj} {w : Nat → Rat} {d : DistFn} {j : Nat}

theorem isPred_some {i l : Nat} (hp : isPred a d j i l = true) :
    a i l = true ∧ ∃ x, d j i = some x ∧ d j l = some (x + 1) := by
  unfold isPred at hp
  cases hx : d j i with
  | none => simp [hx] at hp
  | some x =>
    cases hy : d j l with
    | none => simp [hx, hy] at hp
    | some y =>
      simp only [hx, hy, Bool.and_eq_true, beq_iff_eq] at hp
      exact ⟨hp.1, x, rfl, by rw [← hp.2]⟩

theorem isPred_of {i l k : Nat} (ha : a i l = true) (hi : d j i = some k) (hl : d j l = some (k + 1)) :
    isPred a d j i l = true := by
  unfold isPred; rw [hi, hl, ha]; simp

/-- a path to `s` cannot pass through a node `v ≠ s` that is not strictly closer to `j` -/
theorem sigThru_vanish (v : Nat) : ∀ (k s : Nat), s ≠ v → (∀ kv, d j v = some kv → k ≤ kv) →
    sigThruLev n a w d j v k s = 0 := by
  intro k
  induction k with
  | zero => intro s hsv _; simp [sigThruLev, hsv]
  | succ k ih =>
    intro s hsv hkv
    simp only [sigThruLev, if_neg hsv]
    split
    · rename_i hds
      rw [sumToQ_zero_of, mul_zero]
      intro i _
      by_cases hp : isPred a d j i s = true
      · rw [if_pos hp]
        obtain ⟨_, x, hx, hy⟩ := isPred_some hp
        have hxk : x = k := by rw [hds] at hy; injection hy with e; omega
        subst hxk
        apply ih
        · intro e; rw [e] at hx; have := hkv _ hx; omega
        · intro kv hv; have := hkv kv hv; omega
      · rw [if_neg hp]
    · rfl

/-- with positive node weights every reachable node has a positive weighted path count -/
theorem sigLev_pos (hw : ∀ v, v < n → 0 < w v)
    (hd0 : ∀ l, l < n → d j l = some 0 → l = j)
    (hdS : ∀ l k, l < n → d j l = some (k + 1) → ∃ i, i < n ∧ a i l = true ∧ d j i = some k)
    (hj : j < n) : ∀ k l, l < n → d j l = some k → 0 < sigLev n a w d j k l := by
  intro k
  induction k with
  | zero =>
    intro l hl hdl
    rw [hd0 l hl hdl]
    simp [sigLev, hw j hj]
  | succ k ih =>
    intro l hl hdl
    simp only [sigLev, hdl, if_true]
    apply mul_pos (hw l hl)
    obtain ⟨i0, hi0, hai0, hdi0⟩ := hdS l k hl hdl
    apply sumToQ_pos n _ _ i0 hi0
    · rw [if_pos (isPred_of hai0 hdi0 hdl)]
      exact ih i0 hi0 hdi0
    · intro i hi
      by_cases hp : isPred a d j i l = true
      · rw [if_pos hp]
        obtain ⟨_, x, hx, hy⟩ := isPred_some hp
        have hxk : x = k := by rw [hdl] at hy; injection hy with e; omega
        subst hxk
        exact le_of_lt (ih i hi hx)
      · rw [if_neg hp]

/-- one term of the first-link decomposition: the paths to `s` that leave `l` through its successor `l'` -/
def tm (n : Nat) (a : Adj) (w : Nat → Rat) (d : DistFn) (j l l' k s : Nat) : Rat :=
  if isPred a d j l l' then
    sigma n a w d j l * (w l' / sigma n a w d j l') * sigThruLev n a w d j l' k s
  else 0

theorem tm_neg {l l' k s : Nat} (h : ¬ isPred a d j l l' = true) : tm n a w d j l l' k s = 0 := by
  unfold tm; rw [if_neg h]

/-- **first-link decomposition** of the number of shortest paths through `l`:
`σ_js(l) = [s = l] σ_jl + Σ_{l' successor of l} σ_jl · (w_l'/σ_jl') · σ_js(l')` -/
theorem thru_first_link
    (hpos : ∀ x k, x < n → d j x = some k → sigLev n a w d j k x ≠ 0) {l : Nat} (hl : l < n) :
    ∀ ks s, s < n → d j s = some ks →
      sigThruLev n a w d j l ks s = (if s = l then sigLev n a w d j ks l else 0)
        + sumToQ n (fun l' => tm n a w d j l l' ks s) := by
  intro ks
  induction ks with
  | zero =>
    intro s hs hds
    have hsum : sumToQ n (fun l' => tm n a w d j l l' 0 s) = 0 := by
      apply sumToQ_zero_of
      intro l' _
      by_cases hp : isPred a d j l l' = true
      · obtain ⟨_, x, _, hy⟩ := isPred_some hp
        have : s ≠ l' := by intro e; rw [e, hy] at hds; injection hds with e'; omega
        unfold tm; simp [sigThruLev, this]
      · exact tm_neg hp
    rw [hsum]
    by_cases e : s = l
    · subst e; simp [sigThruLev]
    · simp [sigThruLev, e]
  | succ k ih =>
    intro s hs hds
    by_cases hsl : s = l
    · subst hsl
      have hsum : sumToQ n (fun l' => tm n a w d j s l' (k + 1) s) = 0 := by
        apply sumToQ_zero_of
        intro l' _
        by_cases hp : isPred a d j s l' = true
        · obtain ⟨_, x, hx, hy⟩ := isPred_some hp
          have hxk : x = k + 1 := by rw [hds] at hx; injection hx with e; omega
          subst hxk
          have hne : s ≠ l' := by intro e; rw [← e, hds] at hy; injection hy with e'; omega
          unfold tm
          rw [sigThru_vanish l' (k + 1) s hne (by intro kv hv; rw [hy] at hv; injection hv with e; omega)]
          simp
        · exact tm_neg hp
      rw [hsum]; simp [sigThruLev]
    · -- the generic case
      have hA : ∀ i, i < n → (if isPred a d j i s then sigThruLev n a w d j l k i else 0)
          = (if i = l then (if isPred a d j i s then sigLev n a w d j k l else 0) else 0)
            + sumToQ n (fun l' => if isPred a d j i s then tm n a w d j l l' k i else 0) := by
        intro i hi
        by_cases hp : isPred a d j i s = true
        · obtain ⟨_, x, hx, hy⟩ := isPred_some hp
          have hxk : x = k := by rw [hds] at hy; injection hy with e; omega
          subst hxk
          simp only [if_pos hp]
          rw [ih i hi hx]
        · simp only [if_neg hp]
          rw [sumToQ_const_zero]; simp
      have hB : ∀ l', l' < n → tm n a w d j l l' (k + 1) s
          = (if l' = s then (if isPred a d j l l' then w s * sigLev n a w d j k l else 0) else 0)
            + w s * sumToQ n (fun i => if isPred a d j i s then tm n a w d j l l' k i else 0) := by
        intro l' hl'
        by_cases hp : isPred a d j l l' = true
        · obtain ⟨_, x, hx, hy⟩ := isPred_some hp
          by_cases e : l' = s
          · subst e
            have hxk : x = k := by rw [hds] at hy; injection hy with e; omega
            subst hxk
            have hz : sumToQ n (fun i => if isPred a d j i l' then tm n a w d j l l' x i else 0) = 0 := by
              apply sumToQ_zero_of
              intro i _
              by_cases hq : isPred a d j i l' = true
              · obtain ⟨_, y, hiy, hly⟩ := isPred_some hq
                have hne : i ≠ l' := by intro e; rw [e, hly] at hiy; injection hiy with e'; omega
                rw [if_pos hq]
                unfold tm
                rw [sigThru_vanish l' x i hne (by intro kv hv; rw [hds] at hv; injection hv with e; omega)]
                simp
              · rw [if_neg hq]
            rw [hz]
            have hsl' : sigma n a w d j l' = sigLev n a w d j (x + 1) l' := by
              unfold sigma; rw [hds]
            have hsl0 : sigma n a w d j l = sigLev n a w d j x l := by
              unfold sigma; rw [hx]
            have hne := hpos l' (x + 1) hl' hds
            unfold tm
            simp only [if_pos hp, sigThruLev, if_true]
            rw [hsl', hsl0]
            field_simp
            ring
          · have hne : ¬ s = l' := fun c => e c.symm
            unfold tm
            simp only [if_pos hp, if_neg e, sigThruLev, if_neg hne, hds, if_true]
            have hG : sumToQ n (fun i => if isPred a d j i s then
                  sigma n a w d j l * (w l' / sigma n a w d j l') * sigThruLev n a w d j l' k i else 0)
                = sigma n a w d j l * (w l' / sigma n a w d j l') *
                  sumToQ n (fun i => if isPred a d j i s then sigThruLev n a w d j l' k i else 0) := by
              rw [← sumToQ_mul_left']
              apply sumToQ_congrLt
              intro i _
              by_cases hq : isPred a d j i s = true
              · simp only [if_pos hq]
              · simp only [if_neg hq]; ring
            rw [hG]; ring
        · rw [tm_neg hp]
          have : sumToQ n (fun i => if isPred a d j i s then tm n a w d j l l' k i else 0) = 0 := by
            apply sumToQ_zero_of
            intro i _
            rw [tm_neg hp]; simp
          rw [this]; simp [hp]
      simp only [sigThruLev, if_neg hsl, hds, if_true]
      rw [sumToQ_congrLt n _ _ hA, sumToQ_add', sumToQ_single n l hl, sumToQ_comm',
        sumToQ_congrLt n (fun l' => tm n a w d j l l' (k + 1) s) _ hB, sumToQ_add',
        sumToQ_single n s hs, sumToQ_mul_left']
      by_cases hp : isPred a d j l s = true
      · simp only [if_pos hp]; ring
      · simp only [if_neg hp]; ring

/-- the pair-dependency term of source `s` for node `l` (the term `s = l` included) -/
def gB (n : Nat) (a : Adj) (w : Nat → Rat) (d : DistFn) (isSrc : List Bool) (j l s : Nat) : Rat :=
  if (d j s).isSome then excess w isSrc s * (sigmaThru n a w d j l s / sigma n a w d j s) else 0

def bB (n : Nat) (a : Adj) (w : Nat → Rat) (d : DistFn) (isSrc : List Bool) (j l : Nat) : Rat :=
  sumToQ n (gB n a w d isSrc j l)

variable {isSrc : List Bool}

theorem gB_self (hpos : ∀ x k, x < n → d j x = some k → sigLev n a w d j k x ≠ 0) {l kl : Nat}
    (hl : l < n) (hdl : d j l = some kl) : gB n a w d isSrc j l l = excess w isSrc l := by
  unfold gB sigmaThru sigma
  rw [hdl]
  have : sigThruLev n a w d j l kl l = sigLev n a w d j kl l := by
    cases kl <;> simp [sigThruLev]
  have hp := hpos l kl hl hdl
  simp only [Option.isSome_some, if_true, this]
  field_simp

/-- `bB l = e(l) + contribDef l` for reachable `l ≠ j` -/
theorem bB_eq_contrib (hpos : ∀ x k, x < n → d j x = some k → sigLev n a w d j k x ≠ 0) {l kl : Nat}
    (hl : l < n) (hlj : l ≠ j) (hdl : d j l = some kl) :
    bB n a w d isSrc j l = excess w isSrc l + contribDef n a w d isSrc j l := by
  unfold contribDef bB
  rw [if_neg hlj]
  have : ∀ s, s < n → gB n a w d isSrc j l s
      = (if s = l then excess w isSrc s else 0)
        + (if s != l && (d j s).isSome then excess w isSrc s * pairDep n a w d j l s else 0) := by
    intro s _
    by_cases e : s = l
    · subst e; rw [gB_self hpos hl hdl]; simp
    · unfold gB pairDep
      simp [e]
  rw [sumToQ_congrLt n _ _ this, sumToQ_add', sumToQ_single n l hl]

/-- the accumulation step applied to `bB` gives `bB` -/
theorem bB_step (hpos : ∀ x k, x < n → d j x = some k → sigLev n a w d j k x ≠ 0) {l kl : Nat}
    (hl : l < n) (hdl : d j l = some kl) :
    sumToQ n (fun l' => if isPred a d j l l' then
        bB n a w d isSrc j l' * (w l' / sigma n a w d j l') * sigma n a w d j l else 0)
      = bB n a w d isSrc j l - excess w isSrc l := by
  -- per source `s`
  have hK : ∀ s, s < n → sumToQ n (fun l' => if isPred a d j l l' then
        gB n a w d isSrc j l' s * ((w l' / sigma n a w d j l') * sigma n a w d j l) else 0)
      = gB n a w d isSrc j l s + (if s = l then - excess w isSrc s else 0) := by
    intro s hs
    cases hds : d j s with
    | none =>
      have hne : s ≠ l := by intro e; rw [e, hdl] at hds; simp at hds
      rw [sumToQ_zero_of]
      · simp [gB, hds, hne]
      · intro l' _; simp [gB, hds]
    | some ks =>
      have hG : ∀ x, gB n a w d isSrc j x s
          = excess w isSrc s * (sigThruLev n a w d j x ks s / sigma n a w d j s) := by
        intro x; simp [gB, sigmaThru, hds]
      have h1 : sumToQ n (fun l' => if isPred a d j l l' then
            gB n a w d isSrc j l' s * ((w l' / sigma n a w d j l') * sigma n a w d j l) else 0)
          = (excess w isSrc s / sigma n a w d j s) * sumToQ n (fun l' => tm n a w d j l l' ks s) := by
        rw [← sumToQ_mul_left']
        apply sumToQ_congrLt
        intro l' _
        unfold tm
        by_cases hp : isPred a d j l l' = true
        · simp only [if_pos hp, hG]; ring
        · simp only [if_neg hp]; ring
      have h2 := thru_first_link hpos hl ks s hs hds
      have h3 : sumToQ n (fun l' => tm n a w d j l l' ks s)
          = sigThruLev n a w d j l ks s - (if s = l then sigLev n a w d j ks l else 0) := by
        rw [h2]; ring
      rw [h1, h3, hG]
      by_cases e : s = l
      · subst e
        have hsg : sigma n a w d j s = sigLev n a w d j ks s := by unfold sigma; rw [hds]
        have := hpos s ks hs hds
        simp only [if_true]
        rw [hsg]
        field_simp
        ring
      · simp only [if_neg e]; ring
  have hL : ∀ l', l' < n → (if isPred a d j l l' then
        bB n a w d isSrc j l' * (w l' / sigma n a w d j l') * sigma n a w d j l else 0)
      = sumToQ n (fun s => if isPred a d j l l' then
        gB n a w d isSrc j l' s * ((w l' / sigma n a w d j l') * sigma n a w d j l) else 0) := by
    intro l' _
    by_cases hp : isPred a d j l l' = true
    · simp only [if_pos hp]
      unfold bB
      rw [sumToQ_mul_right']; ring
    · simp only [if_neg hp]; rw [sumToQ_const_zero]
  rw [sumToQ_congrLt n _ _ hL, sumToQ_comm', sumToQ_congrLt n _ _ hK, sumToQ_add',
    sumToQ_single n l hl]
  unfold bB
  ring

end

/-- **Brandes' accumulation has the pair-dependency sum as its only solution**: every `β` satisfying
`BrandesSol` for target `j` differs from the excess by the definition's inner sum
`Σ_{s source, s ≠ l} w_s σ_js(l)/σ_js` — for every graph, positive node weights, every source mask. -/
theorem brandesSol_eq_contribDef (n : Nat) (a : Adj) (w : Nat → Rat) (isSrc : List Bool) (j : Nat)
    (hj : j < n) (hw : ∀ v, v < n → 0 < w v)
    (hDj : dist n a j j = some 0)
    (hd0 : ∀ l, l < n → dist n a j l = some 0 → l = j)
    (hdS : ∀ l k, l < n → dist n a j l = some (k + 1) →
      ∃ i, i < n ∧ a i l = true ∧ dist n a j i = some k)
    (hdlt : ∀ l k, l < n → dist n a j l = some k → k < n)
    (β : Nat → Rat) (hβ : BrandesSol n a w isSrc j β) :
    ∀ l, l < n → l ≠ j → β l - excess w isSrc l = contribDef n a w (dist n a) isSrc j l := by
  have hpos : ∀ x k, x < n → dist n a j x = some k → sigLev n a w (dist n a) j k x ≠ 0 :=
    fun x k hx hd => ne_of_gt (sigLev_pos hw hd0 hdS hj k x hx hd)
  -- reachable nodes, by downward induction over the level
  have hreach : ∀ m l kl, l < n → l ≠ j → dist n a j l = some kl → n ≤ kl + m →
      β l = bB n a w (dist n a) isSrc j l := by
    intro m
    induction m with
    | zero => intro l kl hl _ hdl hn; have := hdlt l kl hl hdl; omega
    | succ m ih =>
      intro l kl hl hlj hdl hn
      rw [hβ.step l hl hlj (by rw [hdl]; rfl)]
      have : ∀ l', l' < n → (if isPred a (dist n a) j l l' then
            β l' * (w l' / sigma n a w (dist n a) j l') * sigma n a w (dist n a) j l else 0)
          = (if isPred a (dist n a) j l l' then
            bB n a w (dist n a) isSrc j l' * (w l' / sigma n a w (dist n a) j l')
              * sigma n a w (dist n a) j l else 0) := by
        intro l' hl'
        by_cases hp : isPred a (dist n a) j l l' = true
        · obtain ⟨_, x, hx, hy⟩ := isPred_some hp
          have hxk : x = kl := by rw [hdl] at hx; injection hx with e; omega
          subst hxk
          have hne : l' ≠ j := by intro e; rw [e, hDj] at hy; injection hy with e'; omega
          simp only [if_pos hp]
          rw [ih l' (x + 1) hl' hne hy (by omega)]
        · simp only [if_neg hp]
      rw [sumToQ_congrLt n _ _ this, bB_step hpos hl hdl]
      ring
  intro l hl hlj
  cases hdl : dist n a j l with
  | none =>
    rw [hβ.unreach l hl hdl, sub_self]
    unfold contribDef
    rw [if_neg hlj, sumToQ_zero_of]
    intro s _
    by_cases hc : (s != l && (dist n a j s).isSome) = true
    · rw [if_pos hc]
      simp only [Bool.and_eq_true, bne_iff_ne, ne_eq] at hc
      obtain ⟨ks, hks⟩ := Option.isSome_iff_exists.mp hc.2
      unfold pairDep sigmaThru
      rw [hks]
      simp only []
      rw [sigThru_vanish l ks s hc.1 (by intro kv hv; rw [hdl] at hv; simp at hv)]
      simp
    · rw [if_neg hc]
  | some kl =>
    rw [hreach (n - kl) l kl hl hlj hdl (by omega), bB_eq_contrib hpos hl hlj hdl]
    ring

end Pyunicorn.NetBetw
