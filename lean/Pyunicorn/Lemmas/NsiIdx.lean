import Mathlib.Algebra.Order.BigOperators.Group.Finset
import Mathlib.Data.Finset.Card
import Pyunicorn.Model.NsiIdx
/-!
C20 round 5 — `_nsi_betweenness` raises no IndexError on a CSR adjacency that satisfies `csrOK`:
loop lemmas, lists as arrays, pigeonhole / sums over distinct nodes (Mathlib finite sets), the
invariant of the breadth-first sweep (`Inv`: the queue holds distinct node numbers whose distances
are sorted and at most one more than the distance of the node being processed — so a node is
enqueued once and `queue_len ≤ N`; the predecessor count of `l` is at most the number of processed
slots pointing to `l`, which over distinct nodes is at most the in-degree ≤ `k[l]` — so
`flat_predecessors[offsets[l] + n_predecessors[l]]` stays inside row `l`), its preservation by one
slot (`slot_inv`), one node (`node_inv`), the forward sweep (`fwd_inv`), and the backward sweep
(`bwd_ok`) and one target (`target_ok`).
-/
namespace Pyunicorn.NsiIdx

/-! ### generic loop lemmas -/

theorem foldlM_range_inv {σ : Type} (f : σ → Nat → Option σ) (P : Nat → σ → Prop) (n : Nat)
    (s0 : σ) (h0 : P 0 s0)
    (step : ∀ t s, t < n → P t s → ∃ s', f s t = some s' ∧ P (t + 1) s') :
    ∃ s', (List.range n).foldlM f s0 = some s' ∧ P n s' := by
  induction n with
  | zero => exact ⟨s0, rfl, h0⟩
  | succ n ih =>
    obtain ⟨s1, h1, p1⟩ := ih (fun t s ht hp => step t s (by omega) hp)
    obtain ⟨s2, h2, p2⟩ := step n s1 (by omega) p1
    refine ⟨s2, ?_, p2⟩
    rw [List.range_succ, List.foldlM_append, h1]
    simp [h2]

theorem allOk_ok (f : Nat → Option Unit) (l : List Nat) (h : ∀ t ∈ l, f t = some ()) :
    allOk l f = some () := by
  unfold allOk
  induction l with
  | nil => rfl
  | cons x t ih =>
    simp only [List.foldlM_cons]
    rw [h x (by simp)]
    simpa using ih (fun y hy => h y (by simp [hy]))

/-! ### counting slots -/

theorem cntUpTo_succ (off nbr : List Nat) (i t l : Nat) :
    cntUpTo off nbr i (t + 1) l
      = cntUpTo off nbr i t l + (if nbr[off.getD i 0 + t]? = some l then 1 else 0) := by
  unfold cntUpTo
  rw [List.range_succ, List.filter_append, List.length_append]
  congr 1
  by_cases h : nbr[off.getD i 0 + t]? = some l
  · have hb : (nbr[off.getD i 0 + t]? == some l) = true := by rw [h]; exact beq_self_eq_true _
    simp only [List.filter_cons, hb, if_true, List.filter_nil, List.length_singleton, if_pos h]
  · have hb : (nbr[off.getD i 0 + t]? == some l) = false := by
      cases hq : (nbr[off.getD i 0 + t]? == some l) with
      | false => rfl
      | true => exact absurd (eq_of_beq hq) h
    simp only [List.filter_cons, hb, Bool.false_eq_true, if_false, List.filter_nil, List.length_nil,
      if_neg h]

theorem cntUpTo_mono (off nbr : List Nat) (i l : Nat) {t u : Nat} (h : t ≤ u) :
    cntUpTo off nbr i t l ≤ cntUpTo off nbr i u l := by
  induction u with
  | zero => have : t = 0 := by omega
            subst this; exact Nat.le_refl _
  | succ u ih =>
    by_cases h' : t ≤ u
    · have := ih h'; rw [cntUpTo_succ]; omega
    · have : t = u + 1 := by omega
      subst this; exact Nat.le_refl _

/-- a slot `t < k[i]` that points to `l` is counted among the slots of `i` but not among the first `t` -/
theorem cnt_gt_of_slot (off k nbr : List Nat) (i t l : Nat) (ht : t < k.getD i 0)
    (hl : nbr[off.getD i 0 + t]? = some l) :
    cntUpTo off nbr i t l + 1 ≤ cnt off k nbr i l := by
  unfold cnt
  have h1 := cntUpTo_succ off nbr i t l
  rw [if_pos hl] at h1
  have h2 := cntUpTo_mono off nbr i l (show t + 1 ≤ k.getD i 0 by omega)
  omega

end Pyunicorn.NsiIdx
set_option linter.unusedSimpArgs false
namespace Pyunicorn.NsiIdx

/-! ### lists as arrays -/

theorem getD_set_eq (a : List Nat) (n x d : Nat) (h : n < a.length) : (a.set n x).getD n d = x := by
  simp [List.getD, h]

theorem getD_set_ne (a : List Nat) (n m x d : Nat) (h : m ≠ n) : (a.set n x).getD m d = a.getD m d := by
  simp [List.getD, List.getElem?_set, Ne.symm h]

theorem getD_lt_some (a : List Nat) (n : Nat) (h : n < a.length) : a[n]? = some (a.getD n 0) := by
  simp [List.getD, h]

theorem take_set_of_le (q : List Nat) (n m x : Nat) (h : m ≤ n) : (q.set n x).take m = q.take m := by
  apply List.ext_getElem?
  intro a
  by_cases ha : a < m
  · simp [List.getElem?_take, ha, List.getElem?_set, show n ≠ a by omega]
  · simp [List.getElem?_take, ha]

theorem take_set_succ (q : List Nat) (n x : Nat) (h : n < q.length) :
    (q.set n x).take (n + 1) = q.take n ++ [x] := by
  apply List.ext_getElem?
  intro a
  by_cases ha : a < n
  · simp [List.getElem?_take, List.getElem?_append, ha, show a < n + 1 by omega, List.getElem?_set,
      show n ≠ a by omega, show a < q.length by omega, Nat.min_eq_left (Nat.le_of_lt h)]
  · by_cases ha2 : a = n
    · subst ha2
      simp [List.getElem?_take, List.getElem?_append, List.getElem?_set, h,
        Nat.min_eq_left (Nat.le_of_lt h)]
    · simp [List.getElem?_take, List.getElem?_append, show ¬ a < n + 1 by omega,
        Nat.min_eq_left (Nat.le_of_lt h), ha]

theorem mem_take_iff (q : List Nat) (n x : Nat) (hn : n ≤ q.length) :
    x ∈ q.take n ↔ ∃ a, a < n ∧ q.getD a 0 = x := by
  constructor
  · intro h
    obtain ⟨a, ha, e⟩ := List.getElem_of_mem h
    have ha' : a < n := by simpa [Nat.min_eq_left hn] using ha
    refine ⟨a, ha', ?_⟩
    rw [List.getElem_take] at e
    simp [List.getD, show a < q.length by omega, e]
  · rintro ⟨a, ha, e⟩
    have hl : a < (q.take n).length := by simp [Nat.min_eq_left hn, ha]
    have : (q.take n)[a] = x := by
      rw [List.getElem_take]
      simpa [List.getD, show a < q.length by omega] using e
    exact this ▸ List.getElem_mem hl

theorem take_succ_getD (q : List Nat) (n : Nat) (h : n < q.length) :
    q.take (n + 1) = q.take n ++ [q.getD n 0] := by
  rw [List.take_succ]
  simp [List.getD, h]

end Pyunicorn.NsiIdx
namespace Pyunicorn.NsiIdx

/-! ### pigeonhole and sums over distinct nodes (Mathlib: finite sets) -/

theorem nodup_length_le (L : List Nat) (N : Nat) (hn : L.Nodup) (h : ∀ x ∈ L, x < N) :
    L.length ≤ N := by
  have h1 : L.toFinset ⊆ Finset.range N := by
    intro x hx; simp only [List.mem_toFinset] at hx; simpa using h x hx
  have := Finset.card_le_card h1
  rwa [List.toFinset_card_of_nodup hn, Finset.card_range] at this

theorem nodup_sum_le (L : List Nat) (N : Nat) (f : Nat → Nat) (hn : L.Nodup)
    (h : ∀ x ∈ L, x < N) : (L.map f).sum ≤ ((List.range N).map f).sum := by
  have h1 : L.toFinset ⊆ (List.range N).toFinset := by
    intro x hx; simp only [List.mem_toFinset] at hx; simpa using h x hx
  have := Finset.sum_le_sum_of_subset (f := f) h1
  rwa [List.sum_toFinset f hn, List.sum_toFinset f List.nodup_range] at this

/-! ### the context and the invariant of the forward sweep -/

structure Ctx where
  N : Nat
  off : List Nat
  k : List Nat
  nbr : List Nat
  wlen : Nat

/-- the contract, on the offsets the kernel computes -/
structure COK (c : Ctx) : Prop where
  offlen : c.off.length = c.N
  klen : c.N ≤ c.k.length
  wl : c.N ≤ c.wlen
  seg : ∀ i, i < c.N → c.off.getD i 0 + c.k.getD i 0 ≤ c.nbr.length
  nb : ∀ x ∈ c.nbr, x < c.N
  indeg : ∀ l, l < c.N → ((List.range c.N).map fun i => cnt c.off c.k c.nbr i l).sum ≤ c.k.getD l 0

/-- invariant while node `queue[qi]` is being processed and `t` of its slots are done -/
structure Inv (c : Ctx) (s : St) (qi t : Nat) : Prop where
  ld : s.dist.length = c.N
  lp : s.npred.length = c.N
  lf : s.fpred.length = c.nbr.length
  lq : s.queue.length = c.N
  qpos : qi < s.qlen
  qle : s.qlen ≤ c.N
  qlt : ∀ a, a < s.qlen → s.queue.getD a 0 < c.N
  nodup : (s.queue.take s.qlen).Nodup
  sorted : ∀ a b, a ≤ b → b < s.qlen →
    s.dist.getD (s.queue.getD a 0) 0 ≤ s.dist.getD (s.queue.getD b 0) 0
  near : ∀ a, a < s.qlen →
    s.dist.getD (s.queue.getD a 0) 0 ≤ s.dist.getD (s.queue.getD qi 0) 0 + 1
  fp : ∀ x ∈ s.fpred, x < c.N
  np : ∀ l, l < c.N → s.npred.getD l 0 ≤
    ((s.queue.take qi).map fun x => cnt c.off c.k c.nbr x l).sum
      + cntUpTo c.off c.nbr (s.queue.getD qi 0) t l

/-- the predecessor count of `l` is below its degree while a slot pointing to `l` is pending -/
theorem npred_lt (c : Ctx) (hc : COK c) (s : St) (qi t : Nat) (h : Inv c s qi t) (l : Nat)
    (hl : l < c.N) (ht : t < c.k.getD (s.queue.getD qi 0) 0)
    (hs : c.nbr[c.off.getD (s.queue.getD qi 0) 0 + t]? = some l) :
    s.npred.getD l 0 + 1 ≤ c.k.getD l 0 := by
  have h1 := h.np l hl
  have h2 := cnt_gt_of_slot c.off c.k c.nbr (s.queue.getD qi 0) t l ht hs
  have hq : qi + 1 ≤ s.qlen := h.qpos
  have hlen : qi < s.queue.length := by rw [h.lq]; exact Nat.lt_of_lt_of_le h.qpos h.qle
  -- the nodes processed so far together with the current one are distinct nodes
  have hpre : (s.queue.take (qi + 1)).Nodup := by
    have : s.queue.take (qi + 1) = (s.queue.take s.qlen).take (qi + 1) := by
      rw [List.take_take, Nat.min_eq_left hq]
    rw [this]
    exact h.nodup.sublist (List.take_sublist _ _)
  have hlt : ∀ x ∈ s.queue.take (qi + 1), x < c.N := by
    intro x hx
    obtain ⟨a, ha, e⟩ := (mem_take_iff s.queue (qi + 1) x (by omega)).mp hx
    rw [← e]; exact h.qlt a (by omega)
  have h3 := nodup_sum_le (s.queue.take (qi + 1)) c.N (fun x => cnt c.off c.k c.nbr x l) hpre hlt
  rw [take_succ_getD s.queue qi hlen, List.map_append, List.sum_append] at h3
  simp only [List.map_cons, List.map_nil, List.sum_cons, List.sum_nil, Nat.add_zero] at h3
  have h4 := hc.indeg l hl
  omega

end Pyunicorn.NsiIdx
namespace Pyunicorn.NsiIdx

theorem mem_set_lt (a : List Nat) (n v N : Nat) (h : ∀ x ∈ a, x < N) (hv : v < N) :
    ∀ x ∈ a.set n v, x < N := by
  intro x hx
  rcases List.mem_or_eq_of_mem_set hx with h' | h'
  · exact h x h'
  · rw [h']; exact hv

/-- one slot of the node being processed keeps the invariant and raises nothing -/
theorem slot_inv (c : Ctx) (hc : COK c) (s : St) (qi t i di : Nat) (h : Inv c s qi t)
    (hi : s.queue.getD qi 0 = i) (hdi : s.dist.getD i 0 = di) (ht : t < c.k.getD i 0) :
    ∃ s', slot c.off c.nbr c.wlen i (di + 1) s (c.off.getD i 0 + t) = some s'
      ∧ Inv c s' qi (t + 1) ∧ s'.queue.getD qi 0 = i ∧ s'.dist.getD i 0 = di := by
  have hiN : i < c.N := by rw [← hi]; exact h.qlt qi h.qpos
  have hE : c.off.getD i 0 + t < c.nbr.length := by have := hc.seg i hiN; omega
  -- the slot holds a node number `l`
  obtain ⟨l, hl⟩ : ∃ l, c.nbr[c.off.getD i 0 + t]? = some l := ⟨_, getD_lt_some c.nbr _ hE⟩
  have hlN : l < c.N := hc.nb l (List.mem_of_getElem? hl)
  have hdl : s.dist[l]? = some (s.dist.getD l 0) := getD_lt_some _ _ (by rw [h.ld]; exact hlN)
  have hslot : c.nbr[c.off.getD (s.queue.getD qi 0) 0 + t]? = some l := by rw [hi]; exact hl
  have hcnt : cntUpTo c.off c.nbr (s.queue.getD qi 0) (t + 1) l
      = cntUpTo c.off c.nbr (s.queue.getD qi 0) t l + 1 := by
    rw [cntUpTo_succ, if_pos hslot]
  have hcnt' : ∀ l', l' ≠ l → cntUpTo c.off c.nbr (s.queue.getD qi 0) (t + 1) l'
      = cntUpTo c.off c.nbr (s.queue.getD qi 0) t l' := by
    intro l' hne
    rw [cntUpTo_succ, if_neg]
    · rfl
    · rw [hslot]; intro e; exact hne (Option.some.inj e).symm
  by_cases hge : s.dist.getD l 0 ≥ di + 1
  · -- `i` is registered as a predecessor of `l`
    have hol : c.off[l]? = some (c.off.getD l 0) := getD_lt_some _ _ (by rw [hc.offlen]; exact hlN)
    have hnp : s.npred[l]? = some (s.npred.getD l 0) := getD_lt_some _ _ (by rw [h.lp]; exact hlN)
    have hk := npred_lt c hc s qi t h l hlN (by rw [hi]; exact ht) hslot
    have hfi : c.off.getD l 0 + s.npred.getD l 0 < s.fpred.length := by
      rw [h.lf]; have := hc.seg l hlN; omega
    have hlw : l < c.wlen := Nat.lt_of_lt_of_le hlN hc.wl
    have hnpw : wr s.npred l (s.npred.getD l 0 + 1) = some (s.npred.set l (s.npred.getD l 0 + 1)) := by
      unfold wr; rw [if_pos (by rw [h.lp]; exact hlN)]
    have hfpw : wr s.fpred (c.off.getD l 0 + s.npred.getD l 0) i
        = some (s.fpred.set (c.off.getD l 0 + s.npred.getD l 0) i) := by
      unfold wr; rw [if_pos hfi]
    have hnp' : ∀ l', l' < c.N →
        (s.npred.set l (s.npred.getD l 0 + 1)).getD l' 0 ≤
          ((s.queue.take qi).map fun x => cnt c.off c.k c.nbr x l').sum
            + cntUpTo c.off c.nbr (s.queue.getD qi 0) (t + 1) l' := by
      intro l' hl'
      by_cases e : l' = l
      · subst e
        rw [getD_set_eq _ _ _ _ (by rw [h.lp]; exact hl'), hcnt]
        have := h.np l' hl'; omega
      · rw [getD_set_ne _ _ _ _ _ e, hcnt' l' e]; exact h.np l' hl'
    by_cases hgt : s.dist.getD l 0 > di + 1
    · -- `l` is reached for the first time: it is not in the queue yet
      have hnotin : l ∉ s.queue.take s.qlen := by
        intro hin
        obtain ⟨a, ha, e⟩ := (mem_take_iff s.queue s.qlen l (by rw [h.lq]; exact h.qle)).mp hin
        have := h.near a ha
        rw [e, hi, hdi] at this
        omega
      have hq1 : s.qlen + 1 ≤ c.N := by
        have hnd : (s.queue.take s.qlen ++ [l]).Nodup := by
          rw [List.nodup_append]
          refine ⟨h.nodup, List.nodup_singleton l, ?_⟩
          intro a ha b hb
          rw [List.mem_singleton] at hb
          subst hb; intro e; exact hnotin (e ▸ ha)
        have hlt : ∀ x ∈ s.queue.take s.qlen ++ [l], x < c.N := by
          intro x hx
          rcases List.mem_append.mp hx with hx | hx
          · obtain ⟨a, ha, e⟩ := (mem_take_iff s.queue s.qlen x (by rw [h.lq]; exact h.qle)).mp hx
            rw [← e]; exact h.qlt a ha
          · rw [List.mem_singleton] at hx; rw [hx]; exact hlN
        have := nodup_length_le _ c.N hnd hlt
        simpa [Nat.min_eq_left (show s.qlen ≤ s.queue.length by rw [h.lq]; exact h.qle)] using this
      have hqw : wr s.queue s.qlen l = some (s.queue.set s.qlen l) := by
        unfold wr; rw [if_pos (by rw [h.lq]; omega)]
      have hdw : wr s.dist l (di + 1) = some (s.dist.set l (di + 1)) := by
        unfold wr; rw [if_pos (by rw [h.ld]; exact hlN)]
      have hil : i ≠ l := by
        intro e; rw [← e, hdi] at hgt; omega
      -- queue entries below `qlen` are unchanged, none of them is `l`
      have hqa : ∀ a, a < s.qlen → (s.queue.set s.qlen l).getD a 0 = s.queue.getD a 0 :=
        fun a ha => getD_set_ne _ _ _ _ _ (by omega)
      have hql : (s.queue.set s.qlen l).getD s.qlen 0 = l :=
        getD_set_eq _ _ _ _ (by rw [h.lq]; omega)
      have hne : ∀ a, a < s.qlen → s.queue.getD a 0 ≠ l := by
        intro a ha e
        exact hnotin ((mem_take_iff s.queue s.qlen l (by rw [h.lq]; exact h.qle)).mpr ⟨a, ha, e⟩)
      have hda : ∀ a, a < s.qlen →
          (s.dist.set l (di + 1)).getD (s.queue.getD a 0) 0 = s.dist.getD (s.queue.getD a 0) 0 :=
        fun a ha => getD_set_ne _ _ _ _ _ (hne a ha)
      have hdl' : (s.dist.set l (di + 1)).getD l 0 = di + 1 :=
        getD_set_eq _ _ _ _ (by rw [h.ld]; exact hlN)
      refine ⟨⟨s.dist.set l (di + 1), s.npred.set l (s.npred.getD l 0 + 1),
        s.fpred.set (c.off.getD l 0 + s.npred.getD l 0) i, s.queue.set s.qlen l, s.qlen + 1⟩, ?_, ?_, ?_, ?_⟩
      · simp only [slot, hl, hdl, hol, hnp, hnpw, hfpw, hqw, hdw, Option.bind_eq_bind,
          Option.bind_some, hge, hgt, hlw, if_true, ge_iff_le, gt_iff_lt]
      · refine ⟨by simp [h.ld], by simp [h.lp], by simp [h.lf], by simp [h.lq],
          Nat.lt_succ_of_lt h.qpos, hq1, ?_, ?_, ?_, ?_, ?_, ?_⟩
        · intro a ha
          have ha : a < s.qlen + 1 := ha
          by_cases e : a = s.qlen
          · rw [e, hql]; exact hlN
          · rw [hqa a (by omega)]; exact h.qlt a (by omega)
        · show ((s.queue.set s.qlen l).take (s.qlen + 1)).Nodup
          rw [take_set_succ _ _ _ (by rw [h.lq]; omega), List.nodup_append]
          refine ⟨h.nodup, List.nodup_singleton l, ?_⟩
          intro a ha b hb
          rw [List.mem_singleton] at hb
          subst hb; intro e; exact hnotin (e ▸ ha)
        · intro a b hab hb
          have hb : b < s.qlen + 1 := hb
          show (s.dist.set l (di + 1)).getD ((s.queue.set s.qlen l).getD a 0) 0
            ≤ (s.dist.set l (di + 1)).getD ((s.queue.set s.qlen l).getD b 0) 0
          by_cases eb : b = s.qlen
          · rw [eb, hql, hdl']
            by_cases ea : a = s.qlen
            · rw [ea, hql, hdl']
            · have ha : a < s.qlen := by omega
              rw [hqa a ha, hda a ha]
              have := h.near a ha; rw [hi, hdi] at this; exact this
          · have hb' : b < s.qlen := by omega
            have ha : a < s.qlen := by omega
            rw [hqa a ha, hqa b hb', hda a ha, hda b hb']
            exact h.sorted a b hab hb'
        · intro a ha
          have ha : a < s.qlen + 1 := ha
          show (s.dist.set l (di + 1)).getD ((s.queue.set s.qlen l).getD a 0) 0
            ≤ (s.dist.set l (di + 1)).getD ((s.queue.set s.qlen l).getD qi 0) 0 + 1
          rw [hqa qi h.qpos, hda qi h.qpos, hi, hdi]
          by_cases ea : a = s.qlen
          · rw [ea, hql, hdl']
          · have ha' : a < s.qlen := by omega
            rw [hqa a ha', hda a ha']
            have := h.near a ha'; rw [hi, hdi] at this; exact this
        · exact mem_set_lt _ _ _ _ h.fp hiN
        · intro l' hl'
          show (s.npred.set l (s.npred.getD l 0 + 1)).getD l' 0 ≤
            (((s.queue.set s.qlen l).take qi).map fun x => cnt c.off c.k c.nbr x l').sum
              + cntUpTo c.off c.nbr ((s.queue.set s.qlen l).getD qi 0) (t + 1) l'
          rw [take_set_of_le _ _ _ _ (Nat.le_of_lt h.qpos), hqa qi h.qpos]
          exact hnp' l' hl'
      · show (s.queue.set s.qlen l).getD qi 0 = i
        rw [hqa qi h.qpos]; exact hi
      · show (s.dist.set l (di + 1)).getD i 0 = di
        rw [getD_set_ne _ _ _ _ _ hil]; exact hdi
    · -- `l` is at the same distance: one more predecessor, the queue is unchanged
      refine ⟨{ s with npred := s.npred.set l (s.npred.getD l 0 + 1),
                       fpred := s.fpred.set (c.off.getD l 0 + s.npred.getD l 0) i }, ?_, ?_, hi, hdi⟩
      · simp only [slot, hl, hdl, hol, hnp, hnpw, hfpw, Option.bind_eq_bind,
          Option.bind_some, hge, hgt, hlw, if_true, if_false, ge_iff_le, gt_iff_lt]
      · exact ⟨h.ld, by simp [h.lp], by simp [h.lf], h.lq, h.qpos, h.qle, h.qlt, h.nodup, h.sorted,
          h.near, mem_set_lt _ _ _ _ h.fp hiN, hnp'⟩
  · -- `l` is nearer to the target than `i`: nothing happens
    refine ⟨s, ?_, ?_, hi, hdi⟩
    · simp only [slot, hl, hdl, Option.bind_eq_bind, Option.bind_some, hge, if_false]
    · refine ⟨h.ld, h.lp, h.lf, h.lq, h.qpos, h.qle, h.qlt, h.nodup, h.sorted, h.near, h.fp, ?_⟩
      intro l' hl'
      have := h.np l' hl'
      have := cntUpTo_mono c.off c.nbr (s.queue.getD qi 0) l' (show t ≤ t + 1 by omega)
      omega

end Pyunicorn.NsiIdx
namespace Pyunicorn.NsiIdx

/-- what the backward sweep needs of the state the forward sweep leaves -/
structure Fin (c : Ctx) (s : St) : Prop where
  lp : s.npred.length = c.N
  lf : s.fpred.length = c.nbr.length
  lq : s.queue.length = c.N
  qle : s.qlen ≤ c.N
  qlt : ∀ a, a < s.qlen → s.queue.getD a 0 < c.N
  fp : ∀ x ∈ s.fpred, x < c.N
  npk : ∀ l, l < c.N → s.npred.getD l 0 ≤ c.k.getD l 0

theorem Inv.toFin {c : Ctx} (hc : COK c) {s : St} {qi t : Nat} (h : Inv c s qi t)
    (ht : t ≤ c.k.getD (s.queue.getD qi 0) 0) : Fin c s := by
  refine ⟨h.lp, h.lf, h.lq, h.qle, h.qlt, h.fp, ?_⟩
  intro l hl
  have h1 := h.np l hl
  have h2 : cntUpTo c.off c.nbr (s.queue.getD qi 0) t l ≤ cnt c.off c.k c.nbr (s.queue.getD qi 0) l :=
    cntUpTo_mono _ _ _ _ ht
  have hq : qi + 1 ≤ s.qlen := h.qpos
  have hlen : qi < s.queue.length := by rw [h.lq]; exact Nat.lt_of_lt_of_le h.qpos h.qle
  have hpre : (s.queue.take (qi + 1)).Nodup := by
    have : s.queue.take (qi + 1) = (s.queue.take s.qlen).take (qi + 1) := by
      rw [List.take_take, Nat.min_eq_left hq]
    rw [this]
    exact h.nodup.sublist (List.take_sublist _ _)
  have hlt : ∀ x ∈ s.queue.take (qi + 1), x < c.N := by
    intro x hx
    obtain ⟨a, ha, e⟩ := (mem_take_iff s.queue (qi + 1) x (by omega)).mp hx
    rw [← e]; exact h.qlt a (by omega)
  have h3 := nodup_sum_le (s.queue.take (qi + 1)) c.N (fun x => cnt c.off c.k c.nbr x l) hpre hlt
  rw [take_succ_getD s.queue qi hlen, List.map_append, List.sum_append] at h3
  simp only [List.map_cons, List.map_nil, List.sum_cons, List.sum_nil, Nat.add_zero] at h3
  have h4 := hc.indeg l hl
  omega

/-- processing one queue entry raises nothing and keeps the invariant (all its slots done) -/
theorem node_inv (c : Ctx) (hc : COK c) (s : St) (qi : Nat) (h : Inv c s qi 0) :
    ∃ s', node c.off c.k c.nbr c.wlen s qi = some s'
      ∧ Inv c s' qi (c.k.getD (s'.queue.getD qi 0) 0) := by
  have hiN : s.queue.getD qi 0 < c.N := h.qlt qi h.qpos
  have hq : s.queue[qi]? = some (s.queue.getD qi 0) :=
    getD_lt_some _ _ (by rw [h.lq]; exact Nat.lt_of_lt_of_le h.qpos h.qle)
  have hd : s.dist[s.queue.getD qi 0]? = some (s.dist.getD (s.queue.getD qi 0) 0) :=
    getD_lt_some _ _ (by rw [h.ld]; exact hiN)
  have ho : c.off[s.queue.getD qi 0]? = some (c.off.getD (s.queue.getD qi 0) 0) :=
    getD_lt_some _ _ (by rw [hc.offlen]; exact hiN)
  have hk : c.k[s.queue.getD qi 0]? = some (c.k.getD (s.queue.getD qi 0) 0) :=
    getD_lt_some _ _ (Nat.lt_of_lt_of_le hiN hc.klen)
  obtain ⟨s', hs', hP, hi', _⟩ := foldlM_range_inv
    (fun s1 t => slot c.off c.nbr c.wlen (s.queue.getD qi 0) (s.dist.getD (s.queue.getD qi 0) 0 + 1) s1
      (c.off.getD (s.queue.getD qi 0) 0 + t))
    (fun t s' => Inv c s' qi t ∧ s'.queue.getD qi 0 = s.queue.getD qi 0
      ∧ s'.dist.getD (s.queue.getD qi 0) 0 = s.dist.getD (s.queue.getD qi 0) 0)
    (c.k.getD (s.queue.getD qi 0) 0) s ⟨h, rfl, rfl⟩
    (by
      intro t s1 ht ⟨hI, hi, hdi⟩
      obtain ⟨s2, e, hI2, hi2, hd2⟩ := slot_inv c hc s1 qi t (s.queue.getD qi 0)
        (s.dist.getD (s.queue.getD qi 0) 0) hI hi hdi ht
      exact ⟨s2, e, hI2, hi2, hd2⟩)
  refine ⟨s', ?_, ?_⟩
  · simp only [node, hq, hd, ho, hk, Option.bind_eq_bind, Option.bind_some]
    exact hs'
  · rw [hi']; exact hP

/-- after the last slot of `queue[qi]`, the next queue entry (if any) starts with the invariant -/
theorem Inv.next {c : Ctx} {s : St} {qi : Nat} (h : Inv c s qi (c.k.getD (s.queue.getD qi 0) 0))
    (hq : qi + 1 < s.qlen) : Inv c s (qi + 1) 0 := by
  have hlen : qi < s.queue.length := by rw [h.lq]; exact Nat.lt_of_lt_of_le h.qpos h.qle
  refine ⟨h.ld, h.lp, h.lf, h.lq, hq, h.qle, h.qlt, h.nodup, h.sorted, ?_, h.fp, ?_⟩
  · intro a ha
    have h1 := h.near a ha
    have h2 := h.sorted qi (qi + 1) (Nat.le_succ qi) hq
    omega
  · intro l hl
    have := h.np l hl
    rw [take_succ_getD s.queue qi hlen, List.map_append, List.sum_append]
    simp only [List.map_cons, List.map_nil, List.sum_cons, List.sum_nil, Nat.add_zero]
    have h0 : cntUpTo c.off c.nbr (s.queue.getD (qi + 1) 0) 0 l = 0 := rfl
    rw [h0]
    exact this

theorem fwd_done (off k nbr : List Nat) (wlen f : Nat) (s : St) (qi : Nat) (h : ¬ qi < s.qlen) :
    fwd off k nbr wlen f s qi = some s := by
  cases f with
  | zero => rfl
  | succ f => simp [fwd, h]

/-- the forward sweep raises nothing -/
theorem fwd_inv (c : Ctx) (hc : COK c) (f : Nat) (s : St) (qi : Nat) (h : Inv c s qi 0) :
    ∃ s', fwd c.off c.k c.nbr c.wlen f s qi = some s' ∧ Fin c s' := by
  induction f generalizing s qi with
  | zero => exact ⟨s, rfl, h.toFin hc (Nat.zero_le _)⟩
  | succ f ih =>
    obtain ⟨s1, h1, hI⟩ := node_inv c hc s qi h
    simp only [fwd, if_pos h.qpos, h1, Option.bind_some]
    by_cases hq : qi + 1 < s1.qlen
    · exact ih s1 (qi + 1) (hI.next hq)
    · exact ⟨s1, fwd_done _ _ _ _ _ _ _ hq, hI.toFin hc (Nat.le_refl _)⟩

/-- the backward sweep raises nothing on such a state -/
theorem bwd_ok (c : Ctx) (hc : COK c) (j : Nat) (s : St) (h : Fin c s) (ql : Nat) (hq : ql < s.qlen) :
    bwdNode c.N c.off c.wlen j s ql = some () := by
  have hlN : s.queue.getD ql 0 < c.N := h.qlt ql hq
  have hqr : s.queue[ql]? = some (s.queue.getD ql 0) :=
    getD_lt_some _ _ (by rw [h.lq]; exact Nat.lt_of_lt_of_le hq h.qle)
  have ho : c.off[s.queue.getD ql 0]? = some (c.off.getD (s.queue.getD ql 0) 0) :=
    getD_lt_some _ _ (by rw [hc.offlen]; exact hlN)
  have hn : s.npred[s.queue.getD ql 0]? = some (s.npred.getD (s.queue.getD ql 0) 0) :=
    getD_lt_some _ _ (by rw [h.lp]; exact hlN)
  simp only [bwdNode, hqr, Option.bind_eq_bind, Option.bind_some, if_pos hlN]
  by_cases e : s.queue.getD ql 0 = j
  · rw [if_pos e]
  · rw [if_neg e, if_pos (Nat.lt_of_lt_of_le hlN hc.wl)]
    simp only [ho, hn, Option.bind_eq_bind, Option.bind_some]
    apply allOk_ok
    intro t ht
    have ht' : t < s.npred.getD (s.queue.getD ql 0) 0 := List.mem_range.mp ht
    have hfi : c.off.getD (s.queue.getD ql 0) 0 + t < s.fpred.length := by
      rw [h.lf]
      have := hc.seg _ hlN
      have := h.npk _ hlN
      omega
    have hr := getD_lt_some s.fpred _ hfi
    have hv : s.fpred.getD (c.off.getD (s.queue.getD ql 0) 0 + t) 0 < c.N :=
      h.fp _ (List.mem_of_getElem? hr)
    simp only [hr, Option.bind_some, if_pos hv]

/-- one target raises nothing -/
theorem target_ok (c : Ctx) (hc : COK c) (slen j : Nat) (hs : c.N ≤ slen) (hj : j < c.N) :
    target c.N c.off c.k c.nbr c.wlen slen j = some () := by
  have hN : 0 < c.N := by omega
  have hw1 : wr (List.replicate c.N (2 * c.N)) j 0 = some ((List.replicate c.N (2 * c.N)).set j 0) := by
    unfold wr; rw [if_pos (by simpa using hj)]
  have hw2 : wr (List.replicate c.N 0) 0 j = some ((List.replicate c.N 0).set 0 j) := by
    unfold wr; rw [if_pos (by simpa using hN)]
  have hI : Inv c ⟨(List.replicate c.N (2 * c.N)).set j 0, List.replicate c.N 0,
      List.replicate c.nbr.length 0, (List.replicate c.N 0).set 0 j, 1⟩ 0 0 := by
    have hq0 : ((List.replicate c.N 0).set 0 j).getD 0 0 = j := getD_set_eq _ _ _ _ (by simpa using hN)
    refine ⟨by simp, by simp, by simp, by simp, Nat.zero_lt_one, hN, ?_, ?_, ?_, ?_, ?_, ?_⟩
    · intro a ha
      have ha : a < 1 := ha
      have : a = 0 := by omega
      rw [this, hq0]; exact hj
    · show (((List.replicate c.N 0).set 0 j).take 1).Nodup
      rw [take_set_succ _ 0 j (by simpa using hN)]
      simp
    · intro a b hab hb
      have hb : b < 1 := hb
      have hb0 : b = 0 := by omega
      have ha0 : a = 0 := by omega
      rw [ha0, hb0]
    · intro a ha
      have ha : a < 1 := ha
      have : a = 0 := by omega
      rw [this]; exact Nat.le_succ _
    · intro x hx
      rw [List.mem_replicate] at hx
      rw [hx.2]; exact hN
    · intro l hl
      show (List.replicate c.N 0).getD l 0 ≤ _
      simp [List.getD, hl]
  obtain ⟨s', hf, hF⟩ := fwd_inv c hc c.N _ 0 hI
  have hcond : c.N ≤ c.wlen ∧ c.N ≤ slen ∨ c.N = 0 := Or.inl ⟨hc.wl, hs⟩
  simp only [target, hw1, hw2, Option.bind_eq_bind, Option.bind_some,
    if_pos (Nat.lt_of_lt_of_le hj hc.wl), hf, if_pos hcond]
  apply allOk_ok
  intro ql hq
  exact bwd_ok c hc j s' hF ql (by simpa using hq)

end Pyunicorn.NsiIdx
