import Pyunicorn.Model.Recurrence
/-! Helper lemmas for C07 (core Lean only). -/
namespace Pyunicorn.Recurrence

theorem entry_tab {α : Type} (n m : Nat) (f : Nat → Nat → α) (i j : Nat) :
    entry (tab n m f) i j = if i < n ∧ j < m then some (f i j) else none := by
  unfold entry tab
  by_cases hi : i < n
  · by_cases hj : j < m
    · simp [hi, hj]
    · simp [hi, hj]
  · simp [hi]

theorem tab_length {α : Type} (n m : Nat) (f : Nat → Nat → α) : (tab n m f).length = n := by
  simp [tab]

theorem absdiff_comm (a b : V) : absdiff a b = absdiff b a := by
  cases a <;> cases b <;> simp [absdiff]
  rename_i x y
  by_cases h1 : x ≤ y <;> by_cases h2 : y ≤ x <;> simp [h1, h2] <;> grind

theorem zipWith_absdiff_comm (a b : List V) :
    List.zipWith absdiff a b = List.zipWith absdiff b a := by
  induction a generalizing b with
  | nil => cases b <;> simp
  | cons x xs ih =>
    cases b with
    | nil => simp
    | cons y ys => simp [absdiff_comm x y, ih ys]

theorem dist_comm (m : Metric) (a b : List V) : dist m a b = dist m b a := by
  unfold dist
  rw [zipWith_absdiff_comm]

theorem entry_map_map {α β : Type} (M : List (List α)) (f : α → β) (i j : Nat) :
    entry (M.map fun row => row.map f) i j = (entry M i j).map f := by
  unfold entry
  cases h : M[i]? <;> simp [h]



theorem entry_zipIdx_map {α β : Type} (M : List (List α)) (f : α → Nat → Nat → β) (i j : Nat) :
    entry ((M.zipIdx).map fun (row, i) => (row.zipIdx).map fun (b, j) => f b i j) i j
      = (entry M i j).map fun b => f b i j := by
  unfold entry
  cases h : M[i]? with
  | none => simp [h]
  | some row =>
    simp [h]
    cases h2 : row[j]? <;> simp [h2]

theorem applyMask_entry (R : List (List Bool)) (M : List Bool) (i j : Nat) :
    entry (applyMask R M) i j
      = (entry R i j).map fun b => b && !(M.getD i false) && !(M.getD j false) := by
  unfold applyMask
  exact entry_zipIdx_map R (fun b i j => b && !(M.getD i false) && !(M.getD j false)) i j

theorem zeroStride_entry (R : List (List Bool)) (stride i j : Nat) :
    entry (zeroStride R stride) i j
      = (entry R i j).map fun b => b && !((i * R.length + j) % stride == 0) := by
  unfold zeroStride
  exact entry_zipIdx_map R (fun b i j => b && !((i * R.length + j) % stride == 0)) i j

theorem diag_stride (s i j : Nat) (hi : i < s) (hj : j < s) :
    (i * s + j) % (s + 1) = 0 ↔ i = j := by
  by_cases h : i ≤ j
  · have e : i * s + j = (s + 1) * i + (j - i) := by
      rw [Nat.mul_comm (s+1) i, Nat.mul_succ]; omega
    rw [e, Nat.mul_add_mod, Nat.mod_eq_of_lt (by omega)]
    omega
  · have hi1 : 1 ≤ i := by omega
    obtain ⟨i', rfl⟩ : ∃ i', i = i' + 1 := ⟨i - 1, by omega⟩
    have e : (i' + 1) * s + j = (s + 1) * i' + (s + 1 - (i' + 1 - j)) := by
      rw [Nat.mul_comm (s+1) i', Nat.mul_succ, Nat.add_mul]; omega
    rw [e, Nat.mul_add_mod, Nat.mod_eq_of_lt (by omega)]
    omega


theorem leV_trans (a b c : V) (h1 : leV a b = true) (h2 : leV b c = true) : leV a c = true := by
  cases a <;> cases b <;> cases c <;> simp_all [leV] <;> grind

theorem leV_total (a b : V) : (leV a b || leV b a) = true := by
  cases a <;> cases b <;> simp [leV] <;> grind

theorem ltV_false_of_leV (t d : V) (h : leV t d = true) : ltV d t = false := by
  cases t <;> cases d <;> simp_all [leV, ltV] <;> grind

theorem ltV_of_leV_ltV (a b t : V) (h1 : leV a b = true) (h2 : ltV b t = true) :
    ltV a t = true := by
  cases a <;> cases b <;> cases t <;> simp_all [leV, ltV] <;> grind

theorem ltV_irrefl (t : V) : ltV t t = false := by
  cases t <;> simp [ltV]

theorem sortV_pairwise (l : List V) : (sortV l).Pairwise (fun a b => leV a b = true) :=
  List.pairwise_mergeSort leV_trans leV_total l

theorem sortV_perm (l : List V) : (sortV l).Perm l := List.mergeSort_perm l leV

theorem countP_eq_of_length {α : Type} (l : List α) (n : Nat) (p : α → Bool) (h : l.length = n) :
    l.countP p = n ↔ ∀ a, a ∈ l → p a = true := by
  subst h; exact List.countP_eq_length

/-- in a sorted list nothing from position `k` on is strictly below `s[k]` -/
theorem countP_lt_drop (s : List V) (k : Nat) (t : V)
    (hs : s.Pairwise (fun a b => leV a b = true)) (hk : s[k]? = some t) :
    (s.drop k).countP (fun d => ltV d t) = 0 := by
  rw [List.countP_eq_zero]
  intro d hd
  have hk' : k < s.length := by
    rcases Nat.lt_or_ge k s.length with h | h
    · exact h
    · simp [List.getElem?_eq_none h] at hk
  have hdrop : s.drop k = t :: s.drop (k + 1) := by
    rw [List.getElem?_eq_getElem hk'] at hk
    injection hk with hk
    rw [← hk]; exact List.drop_eq_getElem_cons hk'
  rw [hdrop] at hd
  have hp : (t :: s.drop (k + 1)).Pairwise (fun a b => leV a b = true) := by
    rw [← hdrop]; exact List.Pairwise.sublist (List.drop_sublist k s) hs
  rcases List.mem_cons.mp hd with rfl | hmem
  · simp [ltV_irrefl]
  · have := (List.pairwise_cons.mp hp).1 d hmem
    simp [ltV_false_of_leV t d this]

theorem countP_lt_eq_take (s : List V) (k : Nat) (t : V)
    (hs : s.Pairwise (fun a b => leV a b = true)) (hk : s[k]? = some t) :
    s.countP (fun d => ltV d t) = (s.take k).countP (fun d => ltV d t) := by
  conv => lhs; rw [← List.take_append_drop k s]
  rw [List.countP_append, countP_lt_drop s k t hs hk]; simp

/-- **at most `k` elements are strictly below the `k`-th smallest** -/
theorem countP_lt_sorted_le (s : List V) (k : Nat) (t : V)
    (hs : s.Pairwise (fun a b => leV a b = true)) (hk : s[k]? = some t) :
    s.countP (fun d => ltV d t) ≤ k := by
  rw [countP_lt_eq_take s k t hs hk]
  exact Nat.le_trans List.countP_le_length (by simp; omega)

/-- **exactly `k` iff there is no tie at the cut** (`s[k-1] < s[k]`) -/
theorem countP_lt_sorted_eq (s : List V) (k : Nat) (t p : V)
    (hs : s.Pairwise (fun a b => leV a b = true)) (hk : s[k + 1]? = some t)
    (hp : s[k]? = some p) :
    s.countP (fun d => ltV d t) = k + 1 ↔ ltV p t = true := by
  rw [countP_lt_eq_take s (k + 1) t hs hk]
  have hk' : k + 1 < s.length := by
    rcases Nat.lt_or_ge (k + 1) s.length with h | h
    · exact h
    · simp [List.getElem?_eq_none h] at hk
  have hlen : (s.take (k + 1)).length = k + 1 := by simp; omega
  constructor
  · intro h
    rw [countP_eq_of_length _ _ _ hlen] at h
    apply h
    rw [List.mem_take_iff_getElem]
    exact ⟨k, by omega, by rw [List.getElem?_eq_getElem (by omega)] at hp; injection hp⟩
  · intro h
    rw [countP_eq_of_length _ _ _ hlen]
    intro a ha
    rw [List.mem_take_iff_getElem] at ha
    obtain ⟨i, hi, rfl⟩ := ha
    have hi' : i < k + 1 := by omega
    rcases Nat.lt_or_ge i k with hlt | hge
    · have hpk : s[k]'(by omega) = p := by
        rw [List.getElem?_eq_getElem (by omega)] at hp; injection hp
      have := List.pairwise_iff_getElem.mp hs i k (by omega) (by omega) hlt
      rw [hpk] at this
      exact ltV_of_leV_ltV _ _ _ this h
    · have : i = k := by omega
      subst this
      rw [List.getElem?_eq_getElem (by omega)] at hp; injection hp with hp
      rw [hp]; exact h

/-- at least `k+1` elements are `≤ s[k]`: the realised count misses `k` only by ties -/
theorem countP_le_sorted_ge (s : List V) (k : Nat) (t : V)
    (hs : s.Pairwise (fun a b => leV a b = true)) (hk : s[k]? = some t) :
    k + 1 ≤ s.countP (fun d => leV d t) := by
  have hk' : k < s.length := by
    rcases Nat.lt_or_ge k s.length with h | h
    · exact h
    · simp [List.getElem?_eq_none h] at hk
  have hlen : (s.take (k + 1)).length = k + 1 := by simp; omega
  have h1 : (s.take (k + 1)).countP (fun d => leV d t) = k + 1 := by
    rw [countP_eq_of_length _ _ _ hlen]
    intro a ha
    rw [List.mem_take_iff_getElem] at ha
    obtain ⟨i, hi, rfl⟩ := ha
    have htk : s[k]'hk' = t := by
      rw [List.getElem?_eq_getElem hk'] at hk; injection hk
    rcases Nat.lt_or_ge i k with hlt | hge
    · have := List.pairwise_iff_getElem.mp hs i k (by omega) hk' hlt
      rw [htk] at this; exact this
    · have : i = k := by omega
      subst this
      rw [htk]
      have := leV_total t t
      simpa using this
  calc k + 1 = (s.take (k + 1)).countP (fun d => leV d t) := h1.symm
    _ ≤ s.countP (fun d => leV d t) :=
      List.Sublist.countP_le (List.take_sublist _ _)



theorem pySlice_range_map {α : Type} (n : Nat) (g : Nat → α) (lo hi : Int)
    (h0 : 0 ≤ lo) (h1 : lo ≤ hi) (h2 : hi ≤ n) :
    pySlice ((List.range n).map g) lo hi
      = (List.range (hi - lo).toNat).map (fun i => g (lo.toNat + i)) := by
  apply List.ext_getElem?
  intro i
  have ha : pyBound lo n = lo.toNat := by unfold pyBound; split <;> omega
  have hb : pyBound hi n = hi.toNat := by unfold pyBound; split <;> omega
  simp only [pySlice, List.length_map, List.length_range, ha, hb, List.getElem?_take,
    List.getElem?_drop, List.getElem?_map]
  by_cases hi' : i < hi.toNat - lo.toNat
  · have e1 : (List.range n)[lo.toNat + i]? = some (lo.toNat + i) :=
      List.getElem?_range (by omega)
    have e2 : (List.range (hi - lo).toNat)[i]? = some i := List.getElem?_range (by omega)
    simp [hi', e1, e2]
  · have e2 : (List.range (hi - lo).toNat)[i]? = none := by
      apply List.getElem?_eq_none; simp; omega
    simp [hi', e2]

theorem slice2_tab {α : Type} (n : Nat) (f : Nat → Nat → α) (lo hi : Int)
    (h0 : 0 ≤ lo) (h1 : lo ≤ hi) (h2 : hi ≤ n) :
    slice2 (tab n n f) lo hi lo hi
      = tab (hi - lo).toNat (hi - lo).toNat (fun i j => f (lo.toNat + i) (lo.toNat + j)) := by
  unfold slice2 tab
  rw [pySlice_range_map n _ lo hi h0 h1 h2, List.map_map]
  apply List.map_congr_left
  intro i _
  simp only [Function.comp]
  exact pySlice_range_map n _ lo hi h0 h1 h2

theorem hadamard_tab (n m : Nat) (f g : Nat → Nat → Bool) :
    hadamard (tab n m f) (tab n m g) = some (tab n m fun i j => f i j && g i j) := by
  have hlen : (List.map List.length (tab n m f)) = (List.map List.length (tab n m g)) := by
    simp [tab, List.map_map, Function.comp_def]
  unfold hadamard
  rw [if_pos ⟨by simp [tab], hlen⟩]
  congr 1
  simp only [tab]
  apply List.ext_getElem?
  intro i
  by_cases hi : i < n
  · simp [List.getElem?_zipWith, List.getElem?_range hi]
  · simp [List.getElem?_zipWith, List.getElem?_eq_none (show (List.range n).length ≤ i by simp; omega)]

theorem threshold_tab (n m : Nat) (f : Nat → Nat → V) (t : V) :
    threshold (tab n m f) t = tab n m fun i j => ltV (f i j) t := by
  simp [threshold, tab, List.map_map, Function.comp_def]




/-- state `l` is linked to its `k`-th nearest neighbour `sn[l][k]` -/
def linked (R : BM) (sn : List (List Nat)) (l k : Nat) : Prop :=
  ∃ snl c, sn[l]? = some snl ∧ snl[k]? = some c ∧ R l c = true

theorem setSym_mono (R : BM) (l c a b : Nat) (h : R a b = true) : setSym R l c a b = true := by
  simp [setSym, h]

theorem adaptStep_mono (n : Nat) (sn : List (List Nat)) (i : Nat) (R R' : BM) (l : Nat)
    (h : adaptStep n sn i R l = some R') (a b : Nat) (hab : R a b = true) : R' a b = true := by
  unfold adaptStep at h
  split at h
  · cases h
  · split at h
    · cases h
    · injection h with h; rw [← h]; exact hab
    · split at h
      · cases h
      · split at h
        · injection h with h; rw [← h]; exact setSym_mono R _ _ a b hab
        · cases h

theorem linked_mono (R R' : BM) (sn : List (List Nat)) (l k : Nat)
    (hm : ∀ a b, R a b = true → R' a b = true) (h : linked R sn l k) : linked R' sn l k := by
  obtain ⟨snl, c, h1, h2, h3⟩ := h
  exact ⟨snl, c, h1, h2, hm _ _ h3⟩

/-- the step of round `i` for state `l` leaves `l` linked to its `(i+1)`-th neighbour -/
theorem adaptStep_links (n : Nat) (sn : List (List Nat)) (i : Nat) (R R' : BM) (l : Nat)
    (hi : i + 1 < n) (h : adaptStep n sn i R l = some R') : linked R' sn l (i + 1) := by
  have hmono := adaptStep_mono n sn i R R' l h
  unfold adaptStep at h
  cases hsn : sn[l]? with
  | none => simp [hsn] at h
  | some snl =>
    simp only [hsn] at h
    obtain ⟨m, rfl⟩ : ∃ m, n = m + 1 := ⟨n - 1, by omega⟩
    unfold findFree at h
    simp only [hi, if_true] at h
    cases hc : snl[i + 1]? with
    | none => simp [hc] at h
    | some c =>
      simp only [hc] at h
      by_cases hR : R l c = true
      · exact ⟨snl, c, hsn, hc, hmono _ _ hR⟩
      · simp only [hR, hc, if_false, Bool.false_eq_true] at h
        split at h
        · injection h with h
          refine ⟨snl, c, hsn, hc, ?_⟩
          rw [← h]; simp [setSym]
        · cases h

theorem adaptRound_mono (n : Nat) (sn : List (List Nat)) (i : Nat)
    (order : List Nat) (R R' : BM) (h : adaptRound n sn order R i = some R') :
    ∀ a b, R a b = true → R' a b = true := by
  unfold adaptRound at h
  induction order generalizing R with
  | nil => simp at h; subst h; exact fun _ _ h => h
  | cons l rest ih =>
    simp only [List.foldlM_cons, Option.bind_eq_bind] at h
    cases hs : adaptStep n sn i R l with
    | none => simp [hs] at h
    | some R1 =>
      simp only [hs, Option.bind_some] at h
      exact fun a b hab => ih R1 h a b (adaptStep_mono n sn i R R1 l hs a b hab)

theorem adaptRound_links (n : Nat) (sn : List (List Nat)) (i : Nat) (hi : i + 1 < n)
    (order : List Nat) (R R' : BM) (h : adaptRound n sn order R i = some R') :
    ∀ l ∈ order, linked R' sn l (i + 1) := by
  induction order generalizing R with
  | nil => simp
  | cons l rest ih =>
    have h' := h
    unfold adaptRound at h
    simp only [List.foldlM_cons, Option.bind_eq_bind] at h
    cases hs : adaptStep n sn i R l with
    | none => simp [hs] at h
    | some R1 =>
      simp only [hs, Option.bind_some] at h
      have hrest : adaptRound n sn rest R1 i = some R' := h
      intro l' hl'
      rcases List.mem_cons.mp hl' with rfl | hmem
      · exact linked_mono R1 R' sn _ _ (adaptRound_mono n sn i rest R1 R' hrest)
          (adaptStep_links n sn i R R1 _ hi hs)
      · exact ih R1 hrest l' hmem

/-- rounds `0 … kA−1` -/
theorem adaptive_rounds (n : Nat) (sn : List (List Nat)) (order : List Nat) (kA : Nat) (R0 R : BM)
    (h : (List.range kA).foldlM (adaptRound n sn order) R0 = some R) :
    ∀ l ∈ order, ∀ k, 1 ≤ k → k ≤ kA → k < n → linked R sn l k := by
  induction kA generalizing R with
  | zero => intro l _ k h1 h2; omega
  | succ kA ih =>
    rw [List.range_succ, List.foldlM_append] at h
    simp only [Option.bind_eq_bind, List.foldlM_cons, List.foldlM_nil] at h
    cases hprev : (List.range kA).foldlM (adaptRound n sn order) R0 with
    | none => simp [hprev] at h
    | some R1 =>
      simp only [hprev, Option.bind_some] at h
      cases hr : adaptRound n sn order R1 kA with
      | none => simp [hr] at h
      | some R2 =>
        simp [hr] at h
        subst h
        intro l hl k h1 h2 h3
        by_cases hk : k ≤ kA
        · exact linked_mono R1 R2 sn l k (adaptRound_mono n sn kA order R1 R2 hr)
            (ih R1 hprev l hl k h1 hk h3)
        · have : k = kA + 1 := by omega
          subst this
          exact adaptRound_links n sn kA h3 order R1 R2 hr l hl


/-! ### the inter-system matrix as four slice assignments -/

theorem pyBound_nat (k n : Nat) : pyBound (k : Int) n = min k n := by
  unfold pyBound
  have : ¬ ((k : Int) < 0) := by omega
  simp [this]

theorem tab_congr_lt {α : Type} (n k : Nat) (f g : Nat → Nat → α)
    (h : ∀ i j, i < n → j < k → f i j = g i j) : tab n k f = tab n k g := by
  unfold tab
  apply List.map_congr_left
  intro i hi
  apply List.map_congr_left
  intro j hj
  exact h i j (List.mem_range.mp hi) (List.mem_range.mp hj)

theorem transpose_fits (CR : List (List Bool)) (Nx Ny : Nat) :
    ((transpose CR Nx Ny).length == Ny && (transpose CR Nx Ny).all (·.length == Nx)) = true := by
  simp only [transpose, Bool.and_eq_true, beq_iff_eq, tab_length, List.all_eq_true, true_and]
  intro r hr
  simp only [tab, List.mem_map, List.mem_range] at hr
  obtain ⟨i, _, rfl⟩ := hr
  simp

theorem tab_getD (n k : Nat) (f : Nat → Nat → Bool) (i j : Nat) (hi : i < n) (hj : j < k) :
    ((tab n k f).getD i []).getD j false = f i j := by
  simp [tab, List.getD_eq_getElem?_getD, hi, hj]

theorem transpose_getD (CR : List (List Bool)) (Nx Ny i j : Nat) (hi : i < Ny) (hj : j < Nx) :
    ((transpose CR Nx Ny).getD i []).getD j false = (CR.getD j []).getD i false := by
  unfold transpose
  exact tab_getD Ny Nx _ i j hi hj

/-- the four slots of `inter_system_recurrence_matrix` with the bounds `0, N_x, N` -/
theorem assemble_isrm (Nx Ny : Nat) (Rx Ry CR : List (List Bool)) :
    assemble (Nx + Ny)
      [(⟨0, Nx, 0, Nx⟩, Rx), (⟨0, Nx, Nx, (Nx + Ny : Nat)⟩, CR),
       (⟨Nx, (Nx + Ny : Nat), 0, Nx⟩, transpose CR Nx Ny), (⟨Nx, (Nx + Ny : Nat), Nx, (Nx + Ny : Nat)⟩, Ry)]
      = isrm Nx Ny Rx Ry CR := by
  have h0 : pyBound (0 : Int) (Nx + Ny) = 0 := by
    have := pyBound_nat 0 (Nx + Ny); simpa using this
  have hx : pyBound (Nx : Int) (Nx + Ny) = Nx := by rw [pyBound_nat]; omega
  have hN : pyBound ((Nx + Ny : Nat) : Int) (Nx + Ny) = Nx + Ny := by rw [pyBound_nat]; omega
  have hT := transpose_fits CR Nx Ny
  simp only [Bool.and_eq_true] at hT
  unfold assemble isrm
  simp only [List.all_cons, List.all_nil, Slot.fits, Slot.r0, Slot.r1, Slot.c0, Slot.c1, h0, hx, hN,
    Nat.sub_zero, Nat.add_sub_cancel_left, hT.1, hT.2, Bool.and_true, Bool.true_and]
  by_cases hfit : ((Rx.length == Nx && Rx.all fun x => x.length == Nx) &&
      (Ry.length == Ny && Ry.all fun x => x.length == Ny) &&
      (CR.length == Nx && CR.all fun x => x.length == Ny)) = true
  · rw [if_pos hfit]
    simp only [Bool.and_eq_true] at hfit
    rw [if_pos (by simp only [Bool.and_eq_true]; exact ⟨hfit.1.1, hfit.2, hfit.1.2⟩)]
    congr 1
    apply tab_congr_lt
    intro i j hi hj
    simp only [List.reverse_cons, List.reverse_nil, List.nil_append, List.cons_append,
      List.find?_cons, List.find?_nil, Slot.has, Slot.r0, Slot.r1, Slot.c0, Slot.c1, h0, hx, hN]
    by_cases h1 : i < Nx <;> by_cases h2 : j < Nx
    · have a1 : ¬ (Nx ≤ i) := by omega
      have a2 : ¬ (Nx ≤ j) := by omega
      simp [h1, h2, a1, a2, h0, hx]
    · have a1 : ¬ (Nx ≤ i) := by omega
      have a2 : Nx ≤ j := by omega
      simp [h1, h2, a1, a2, hj, h0, hx]
    · have a1 : Nx ≤ i := by omega
      have a2 : ¬ (Nx ≤ j) := by omega
      have ht := transpose_getD CR Nx Ny (i - Nx) j (by omega) h2
      simp only [List.getD_eq_getElem?_getD] at ht
      simp [h1, h2, a1, a2, hi, h0, hx, ht]
    · have a1 : Nx ≤ i := by omega
      have a2 : Nx ≤ j := by omega
      simp [h1, h2, a1, a2, hi, hj, h0, hx]
  · rw [if_neg hfit]
    simp only [Bool.and_eq_true] at hfit
    rw [if_neg (by simp only [Bool.and_eq_true]; exact fun h => hfit ⟨⟨h.1, h.2.2⟩, h.2.1⟩)]

end Pyunicorn.Recurrence
