import Pyunicorn.Model.Recurrence
/-! Helper lemmas for C07 (core Lean only). -/
namespace Pyunicorn.Recurrence

theorem entry_tab {α : Type} (n m : Nat) (f : Nat → Nat → α) (i j : Nat) :
    entry (tab n m f) i j = if i < n ∧ j < m then some (f i j) else none := by
  unfold entry tab
  by_cases hi : i < n
  · by_cases hj : j < m
    · simp [hi, hj]
    · simp [hi, hj]
  · simp [hi]

theorem tab_length {α : Type} (n m : Nat) (f : Nat → Nat → α) : (tab n m f).length = n := by
  simp [tab]

theorem absdiff_comm (a b : V) : absdiff a b = absdiff b a := by
  cases a <;> cases b <;> simp [absdiff]
  rename_i x y
  by_cases h1 : x ≤ y <;> by_cases h2 : y ≤ x <;> simp [h1, h2] <;> grind

theorem zipWith_absdiff_comm (a b : List V) :
    List.zipWith absdiff a b = List.zipWith absdiff b a := by
  induction a generalizing b with
  | nil => cases b <;> simp
  | cons x xs ih =>
    cases b with
    | nil => simp
    | cons y ys => simp [absdiff_comm x y, ih ys]

theorem dist_comm (m : Metric) (a b : List V) : dist m a b = dist m b a := by
  unfold dist
  rw [zipWith_absdiff_comm]

theorem entry_map_map {α β : Type} (M : List (List α)) (f : α → β) (i j : Nat) :
    entry (M.map fun row => row.map f) i j = (entry M i j).map f := by
  unfold entry
  cases h : M[i]? <;> simp [h]

end Pyunicorn.Recurrence
