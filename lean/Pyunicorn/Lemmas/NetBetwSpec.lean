import Pyunicorn.Model.NetBetwDef
/-!
Interfaces between the three parts of the proof "kernel `_nsi_betweenness` = pair-dependency definition"
(round 3, core Lean only):

* `FwdOK` — what the forward phase (BFS with predecessor lists and multiplicities) leaves behind;
  proved of the kernel model in `Lemmas/NetBetwFwd.lean`;
* `BrandesSol` — the backward sweep's result solves the accumulation recursion
  `β(l) = e(l) + Σ_{l' : l pred of l'} β(l') · (w(l')/σ(l')) · σ(l)`; proved from `FwdOK` in
  `Lemmas/NetBetwBack.lean`;
* the unique solution of that recursion is the double sum of the definition (`Lemmas/NetBetwAlg.lean`).
-/
namespace Pyunicorn.NetBetw
open Pyunicorn.Net

/-- the state `for j in targets` sets up before the forward loop (as in `target`) -/
def fwdInit (n : Nat) (w : Nat → Rat) (flatLen j : Nat) : Fwd :=
  { dist := (List.replicate n (2 * n)).set j 0
    npred := List.replicate n 0
    fpred := List.replicate flatLen 0
    queue := [j]
    mult := (List.replicate n (0 : Rat)).set j (w j) }

/-- `excess_to_j = betweenness_to_j = is_source * w` -/
def excessInit (n : Nat) (w : Nat → Rat) (isSrc : List Bool) : List Rat :=
  (List.range n).map fun l => if isSrc.getD l false then w l else 0

theorem target_unfold (n : Nat) (offsets k flat : List Nat) (w : Nat → Rat) (isSrc : List Bool) (j : Nat) :
    target n offsets k flat w isSrc j =
      (let s := forward offsets k flat w n 0 (fwdInit n w flat.length j)
       let be := s.queue.reverse.foldl (back offsets w j s) (excessInit n w isSrc, excessInit n w isSrc)
       (List.range n).map fun l => w j * (be.1.getD l 0 - be.2.getD l 0)) := rfl

/-- the arrays the wrapper `Network._nsi_betweenness` hands to the kernel -/
def degArr (n : Nat) (a : Adj) : List Nat := (List.range n).map fun i => outdeg n a i
def flatArr (n : Nat) (a : Adj) : List Nat := (List.range n).flatMap fun i => nbrs n a i

theorem nsiBetweenness_unfold (n : Nat) (a : Adj) (w : Nat → Rat) (isSrc : List Bool) (targets : List Nat) :
    nsiBetweenness n a w isSrc targets =
      (let r := kernel n (degArr n a) (flatArr n a) w isSrc targets
       (List.range n).map fun l => r.getD l 0 / w l) := rfl

/-- the kernel's distance convention: `2N` for nodes that cannot be reached -/
def distK (n : Nat) (a : Adj) (j l : Nat) : Nat := (dist n a j l).getD (2 * n)

/-- the state after the forward loop for target `j` -/
structure FwdOK (n : Nat) (a : Adj) (w : Nat → Rat) (j : Nat) (offsets : List Nat) (s : Fwd) : Prop where
  /-- the queue holds every node that can be reached from `j`, once, … -/
  queue_nodup : s.queue.Nodup
  queue_lt : ∀ v, v ∈ s.queue → v < n
  queue_mem : ∀ v, v < n → (v ∈ s.queue ↔ (dist n a j v).isSome = true)
  /-- … in the order of non-decreasing distance, `j` first -/
  queue_sorted : s.queue.Pairwise fun x y => distK n a j x ≤ distK n a j y
  queue_head : s.queue.head? = some j
  /-- `distances_to_j` -/
  dist_eq : ∀ v, v < n → s.dist.getD v 0 = distK n a j v
  /-- `multiplicity_to_j` = weighted number of shortest paths -/
  mult_len : s.mult.length = n
  mult_eq : ∀ v, v < n → s.mult.getD v 0 = sigma n a w (dist n a) j v
  /-- the slice of `flat_predecessors` of a reached node lists its predecessors, in queue order -/
  preds_eq : ∀ l, l ∈ s.queue →
    (s.fpred.drop (offsets.getD l 0)).take (s.npred.getD l 0)
      = s.queue.filter fun i => isPred a (dist n a) j i l

/-- `β` solves the accumulation recursion of the backward sweep for target `j` -/
structure BrandesSol (n : Nat) (a : Adj) (w : Nat → Rat) (isSrc : List Bool) (j : Nat) (β : Nat → Rat) :
    Prop where
  unreach : ∀ l, l < n → dist n a j l = none → β l = excess w isSrc l
  root : β j = 0
  step : ∀ l, l < n → l ≠ j → (dist n a j l).isSome = true →
    β l = excess w isSrc l + sumToQ n fun l' =>
      if isPred a (dist n a) j l l' then
        β l' * (w l' / sigma n a w (dist n a) j l') * sigma n a w (dist n a) j l
      else 0

end Pyunicorn.NetBetw
