import Pyunicorn.Model.SimilarityCoupled
import Pyunicorn.Lemmas.Similarity
/-! # Lemmas for the coupled-network accessors (C09, round 4) -/
namespace Pyunicorn.Similarity
open Pyunicorn.Cross

/-- entry `(i, j)` of the thresholded matrix as the accessors read it -/
theorem adjOf_thresholdAdjacency (W : Sim) (θ : Rat) (N i j : Nat) (hi : i < N) (hj : j < N) :
    adjOf (thresholdAdjacency W θ N) N i j = decide (i ≠ j ∧ θ < W i j) := by
  unfold adjOf
  rw [List.getD_eq_getElem?_getD, getElem?_thresholdAdjacency W θ N i j hi hj]
  rfl

theorem blockN_congr (A : Adj) (f : Nat → Nat → Nat) (L1 L2 : List Nat)
    (h : ∀ a ∈ L1, ∀ b ∈ L2, b2n (A a b) = f a b) :
    blockN A L1 L2 = L1.map fun a => L2.map fun b => f a b := by
  unfold blockN block
  apply List.map_congr_left
  intro a ha
  apply List.map_congr_left
  intro b hb
  exact h a ha b hb

end Pyunicorn.Similarity
