import Pyunicorn.Lemmas.Recurrence
/-! Totality (no IndexError), symmetry, range and row-count lemmas for the adaptive
neighbourhood-size kernel `_set_adaptive_neighborhood_size` (core Lean only). -/
namespace Pyunicorn.Recurrence

/-- `sorted_neighbors` is an `n×n` table with entries `< n` -/
def snOK (n : Nat) (sn : List (List Nat)) : Prop :=
  sn.length = n ∧ ∀ row ∈ sn, row.length = n ∧ ∀ c ∈ row, c < n

/-! ### the `while` loop -/

/-- on a row of length `n` the `while` loop never reads out of range -/
theorem findFree_total (R : BM) (snl : List Nat) (l n : Nat) (hlen : snl.length = n)
    (k fuel : Nat) : ∃ r, findFree R snl l n k fuel = some r := by
  induction fuel generalizing k with
  | zero => exact ⟨none, rfl⟩
  | succ fuel ih =>
    unfold findFree
    by_cases hk : k < n
    · have hc : snl[k]? = some (snl[k]'(by omega)) := List.getElem?_eq_getElem (by omega)
      simp only [hk, if_true, hc]
      by_cases hR : R l (snl[k]'(by omega)) = true
      · simp only [hR, if_true]; exact ih (k + 1)
      · simp only [hR]; exact ⟨some k, rfl⟩
    · simp only [hk, if_false]; exact ⟨none, rfl⟩

theorem findFree_ne_none (R : BM) (snl : List Nat) (l n : Nat) (hlen : snl.length = n)
    (k fuel : Nat) : findFree R snl l n k fuel ≠ none := by
  obtain ⟨r, hr⟩ := findFree_total R snl l n hlen k fuel
  rw [hr]; exact fun h => by cases h

/-- where the loop stops: at an index `k' ≥ k`, `k' < n`, inside the row, whose neighbour
is not yet linked -/
theorem findFree_spec (R : BM) (snl : List Nat) (l n : Nat) (k fuel k' : Nat)
    (h : findFree R snl l n k fuel = some (some k')) :
    k ≤ k' ∧ k' < n ∧ ∃ c, snl[k']? = some c ∧ R l c = false := by
  induction fuel generalizing k with
  | zero => simp [findFree] at h
  | succ fuel ih =>
    unfold findFree at h
    by_cases hk : k < n
    · simp only [hk, if_true] at h
      cases hc : snl[k]? with
      | none => simp [hc] at h
      | some c =>
        simp only [hc] at h
        by_cases hR : R l c = true
        · simp only [hR, if_true] at h
          obtain ⟨h1, h2, h3⟩ := ih (k + 1) h
          exact ⟨by omega, h2, h3⟩
        · simp only [hR] at h
          injection h with h; injection h with h; subst h
          exact ⟨Nat.le_refl _, hk, c, hc, by simpa using hR⟩
    · simp [hk] at h

/-! ### one step -/

/-- a successful step either changes nothing or sets one symmetric pair inside the array -/
theorem adaptStep_cases (n : Nat) (sn : List (List Nat)) (i : Nat) (R R' : BM) (l : Nat)
    (h : adaptStep n sn i R l = some R') :
    R' = R ∨ ∃ c, l < n ∧ c < n ∧ R' = setSym R l c := by
  unfold adaptStep at h
  split at h
  · cases h
  · split at h
    · cases h
    · injection h with h; exact Or.inl h.symm
    · split at h
      · cases h
      · rename_i c _
        split at h
        · rename_i hlc
          injection h with h
          exact Or.inr ⟨c, hlc.1, hlc.2, h.symm⟩
        · cases h

theorem adaptStep_total (n : Nat) (sn : List (List Nat)) (i : Nat) (R : BM) (l : Nat)
    (hsn : snOK n sn) (hl : l < n) : ∃ R', adaptStep n sn i R l = some R' := by
  obtain ⟨hlen, hrows⟩ := hsn
  have hl' : l < sn.length := by omega
  have hrow : sn[l]? = some (sn[l]'hl') := List.getElem?_eq_getElem hl'
  obtain ⟨hrlen, hrlt⟩ := hrows (sn[l]'hl') (List.getElem_mem hl')
  unfold adaptStep
  simp only [hrow]
  obtain ⟨r, hr⟩ := findFree_total R (sn[l]'hl') l n hrlen (i + 1) n
  cases r with
  | none => simp only [hr]; exact ⟨R, rfl⟩
  | some k =>
    simp only [hr]
    obtain ⟨_, _, c, hc, _⟩ := findFree_spec R (sn[l]'hl') l n (i + 1) n k hr
    simp only [hc]
    have hcn : c < n := hrlt c (List.mem_of_getElem? hc)
    exact ⟨setSym R l c, by simp [hl, hcn]⟩

/-! ### folds in `Option` -/

theorem foldlM_option_inv {α β : Type} (f : β → α → Option β) (P : β → Prop)
    (hP : ∀ b a b', P b → f b a = some b' → P b') :
    ∀ (xs : List α) (b b' : β), P b → xs.foldlM f b = some b' → P b' := by
  intro xs
  induction xs with
  | nil => intro b b' hb h; simp at h; subst h; exact hb
  | cons x xs ih =>
    intro b b' hb h
    simp only [List.foldlM_cons, Option.bind_eq_bind] at h
    cases hs : f b x with
    | none => simp [hs] at h
    | some b1 =>
      simp only [hs, Option.bind_some] at h
      exact ih b1 b' (hP b x b1 hb hs) h

theorem foldlM_option_total {α β : Type} (f : β → α → Option β) (Q : α → Prop)
    (hQ : ∀ b a, Q a → ∃ b', f b a = some b') :
    ∀ (xs : List α) (b : β), (∀ a ∈ xs, Q a) → ∃ b', xs.foldlM f b = some b' := by
  intro xs
  induction xs with
  | nil => intro b _; exact ⟨b, by simp⟩
  | cons x xs ih =>
    intro b hx
    obtain ⟨b1, hb1⟩ := hQ b x (hx x (List.mem_cons_self ..))
    obtain ⟨b2, hb2⟩ := ih b1 (fun a ha => hx a (List.mem_cons_of_mem _ ha))
    exact ⟨b2, by simp only [List.foldlM_cons, Option.bind_eq_bind, hb1, Option.bind_some, hb2]⟩

/-- an invariant of the successful steps is an invariant of the whole kernel -/
theorem adaptive_inv (P : BM → Prop) (n kA : Nat) (sn : List (List Nat)) (order : List Nat)
    (hstep : ∀ i R l R', P R → adaptStep n sn i R l = some R' → P R')
    (h0 : P (fun _ _ => false)) (R : BM) (h : adaptive n kA sn order = some R) : P R := by
  unfold adaptive at h
  refine foldlM_option_inv (adaptRound n sn order) P ?_ (List.range kA) _ R h0 h
  intro R1 i R2 hR1 hr
  unfold adaptRound at hr
  exact foldlM_option_inv (adaptStep n sn i) P (fun b a b' hb hs => hstep i b a b' hb hs)
    order R1 R2 hR1 hr

/-! ### totality: no IndexError -/

theorem adaptRound_total (n : Nat) (sn : List (List Nat)) (order : List Nat) (R : BM) (i : Nat)
    (hsn : snOK n sn) (ho : ∀ l ∈ order, l < n) : ∃ R', adaptRound n sn order R i = some R' := by
  unfold adaptRound
  exact foldlM_option_total (adaptStep n sn i) (· < n)
    (fun b a ha => adaptStep_total n sn i b a hsn ha) order R ho

/-- **the kernel never raises IndexError** on an `n×n` neighbour table with entries `< n`
and a processing order with entries `< n` -/
theorem adaptive_total (n kA : Nat) (sn : List (List Nat)) (order : List Nat)
    (hsn : snOK n sn) (ho : ∀ l ∈ order, l < n) : ∃ R, adaptive n kA sn order = some R := by
  unfold adaptive
  exact foldlM_option_total (adaptRound n sn order) (fun _ => True)
    (fun b a _ => adaptRound_total n sn order b a hsn ho) (List.range kA) _ (fun _ _ => trivial)

/-! ### symmetry and range -/

theorem setSym_symm (R : BM) (l c : Nat) (hR : ∀ a b, R a b = R b a) (a b : Nat) :
    setSym R l c a b = setSym R l c b a := by
  simp only [setSym, hR a b]
  cases R b a <;> cases (a == l) <;> cases (b == c) <;> cases (a == c) <;> cases (b == l) <;> rfl

/-- **the result is symmetric** -/
theorem adaptive_symm (n kA : Nat) (sn : List (List Nat)) (order : List Nat) (R : BM)
    (h : adaptive n kA sn order = some R) (a b : Nat) : R a b = R b a := by
  refine adaptive_inv (fun R => ∀ a b, R a b = R b a) n kA sn order ?_ (fun _ _ => rfl) R h a b
  intro i R1 l R2 hR1 hs
  rcases adaptStep_cases n sn i R1 R2 l hs with rfl | ⟨c, _, _, rfl⟩
  · exact hR1
  · exact setSym_symm R1 l c hR1

/-- **entries are only set inside the `n×n` array** -/
theorem adaptive_in_range (n kA : Nat) (sn : List (List Nat)) (order : List Nat) (R : BM)
    (h : adaptive n kA sn order = some R) (a b : Nat) (hab : R a b = true) : a < n ∧ b < n := by
  refine adaptive_inv (fun R => ∀ a b, R a b = true → a < n ∧ b < n) n kA sn order ?_
    (fun _ _ h => by cases h) R h a b hab
  intro i R1 l R2 hR1 hs
  rcases adaptStep_cases n sn i R1 R2 l hs with rfl | ⟨c, hl, hc, rfl⟩
  · exact hR1
  · intro a b hab
    simp only [setSym, Bool.or_eq_true, Bool.and_eq_true, beq_iff_eq] at hab
    rcases hab with (h1 | ⟨rfl, rfl⟩) | ⟨rfl, rfl⟩
    · exact hR1 a b h1
    · exact ⟨hl, hc⟩
    · exact ⟨hc, hl⟩

/-! ### at least `kA` recurrences per processed row -/

/-- a duplicate-free list inside `L` is no longer than `L` -/
theorem nodup_subset_length_le (cs L : List Nat) (hnd : cs.Nodup) (hsub : ∀ c ∈ cs, c ∈ L) :
    cs.length ≤ L.length := by
  induction cs generalizing L with
  | nil => simp
  | cons a t ih =>
    have ha : a ∈ L := hsub a (List.mem_cons_self ..)
    obtain ⟨hat, ht⟩ := List.nodup_cons.mp hnd
    have hsub' : ∀ c ∈ t, c ∈ L.erase a := by
      intro c hc
      have hne : c ≠ a := fun e => hat (e ▸ hc)
      exact (List.mem_erase_of_ne hne).mpr (hsub c (List.mem_cons_of_mem _ hc))
    have h1 := ih (L.erase a) ht hsub'
    have h2 := List.length_erase_of_mem ha
    have h3 : 0 < L.length := List.length_pos_of_mem ha
    simp only [List.length_cons]
    omega

/-- a duplicate-free list of indices `< n` satisfying `p` is no longer than the number of
such indices -/
theorem nodup_length_le_filter (n : Nat) (p : Nat → Bool) (cs : List Nat) (hnd : cs.Nodup)
    (h : ∀ c ∈ cs, c < n ∧ p c = true) : cs.length ≤ ((List.range n).filter p).length := by
  apply nodup_subset_length_le cs _ hnd
  intro c hc
  obtain ⟨h1, h2⟩ := h c hc
  exact List.mem_filter.mpr ⟨List.mem_range.mpr h1, h2⟩

/-- the `kA` columns `sn[l][1..kA]` are all set in row `l` (as `adaptive_row_has_k`) -/
theorem adaptive_row_cols (n kA : Nat) (sn : List (List Nat)) (order : List Nat) (R : BM)
    (h : adaptive n kA sn order = some R) (l : Nat) (hl : l ∈ order) (snl : List Nat)
    (hsn : sn[l]? = some snl) (hlen : snl.length = n) (hk : kA + 1 ≤ n) :
    ((snl.drop 1).take kA).length = kA ∧ ∀ c ∈ (snl.drop 1).take kA, R l c = true := by
  refine ⟨by simp; omega, ?_⟩
  intro c hc
  rw [List.mem_take_iff_getElem] at hc
  obtain ⟨i, hi, rfl⟩ := hc
  obtain ⟨snl', c', h1, h2, h3⟩ := adaptive_rounds n sn order kA _ R h l hl (i + 1) (by omega)
    (by simp at hi; omega) (by simp at hi; omega)
  rw [hsn] at h1; injection h1 with h1; subst h1
  simp only [List.getElem_drop]
  have : snl[1 + i]? = some c' := by rw [Nat.add_comm]; exact h2
  rw [List.getElem?_eq_getElem (by simp at hi; omega)] at this
  injection this with this
  rw [this]; exact h3

theorem dropTake_nodup (snl : List Nat) (kA : Nat) (hnd : snl.Nodup) :
    ((snl.drop 1).take kA).Nodup :=
  List.Nodup.sublist ((List.take_sublist _ _).trans (List.drop_sublist _ _)) hnd

theorem dropTake_mem (snl : List Nat) (kA c : Nat) (hc : c ∈ (snl.drop 1).take kA) : c ∈ snl :=
  List.mem_of_mem_drop (List.mem_of_mem_take hc)

/-- **row `l` of the result has at least `kA` recurrences** when the row of
`sorted_neighbors` is a duplicate-free list of `n` indices `< n` and `kA ≤ n − 1` -/
theorem adaptive_count_ge (n kA : Nat) (sn : List (List Nat)) (order : List Nat) (R : BM)
    (h : adaptive n kA sn order = some R) (l : Nat) (hl : l ∈ order) (snl : List Nat)
    (hsn : sn[l]? = some snl) (hlen : snl.length = n) (hnd : snl.Nodup)
    (hlt : ∀ c ∈ snl, c < n) (hk : kA + 1 ≤ n) :
    kA ≤ countTrue ((List.range n).map (R l)) := by
  obtain ⟨hlenc, hset⟩ := adaptive_row_cols n kA sn order R h l hl snl hsn hlen hk
  have hle := nodup_length_le_filter n (R l) ((snl.drop 1).take kA) (dropTake_nodup snl kA hnd)
    (fun c hc => ⟨hlt c (dropTake_mem snl kA c hc), hset c hc⟩)
  rw [hlenc] at hle
  have e : countTrue ((List.range n).map (R l)) = ((List.range n).filter (R l)).length := by
    unfold countTrue
    rw [List.countP_map, List.countP_eq_length_filter]
    rfl
  rw [e]; exact hle

/-- **at least `kA` neighbours other than the state itself** when additionally the state
sorts first in its own row (`sn[l][0] = l`) -/
theorem adaptive_count_ge_offdiag (n kA : Nat) (sn : List (List Nat)) (order : List Nat) (R : BM)
    (h : adaptive n kA sn order = some R) (l : Nat) (hl : l ∈ order) (snl : List Nat)
    (hsn : sn[l]? = some snl) (hlen : snl.length = n) (hnd : snl.Nodup)
    (hlt : ∀ c ∈ snl, c < n) (hk : kA + 1 ≤ n) (h0 : snl[0]? = some l) :
    kA ≤ ((List.range n).filter fun c => R l c && (c != l)).length := by
  obtain ⟨hlenc, hset⟩ := adaptive_row_cols n kA sn order R h l hl snl hsn hlen hk
  have hne : ∀ c ∈ (snl.drop 1).take kA, c ≠ l := by
    intro c hc e
    subst e
    have hmem : c ∈ snl.drop 1 := List.mem_of_mem_take hc
    cases snl with
    | nil => simp at h0
    | cons x t =>
      simp only [List.getElem?_cons_zero, Option.some.injEq] at h0
      subst h0
      simp only [List.drop_succ_cons, List.drop_zero] at hmem
      exact (List.nodup_cons.mp hnd).1 hmem
  have hle := nodup_length_le_filter n (fun c => R l c && (c != l)) ((snl.drop 1).take kA)
    (dropTake_nodup snl kA hnd)
    (fun c hc => ⟨hlt c (dropTake_mem snl kA c hc), by simp [hset c hc, hne c hc]⟩)
  rw [hlenc] at hle
  exact hle

/-! ### non-vacuity -/

example : snOK 3 [[0, 1, 2], [1, 0, 2], [2, 1, 0]] := by
  refine ⟨rfl, ?_⟩
  decide

/-- an entry `≥ n` in the table makes the kernel raise (IndexError) -/
example : (adaptive 2 1 [[0, 5], [1, 0]] [0, 1]).isNone = true := by decide

/-- a row that is too short makes the kernel raise (IndexError) -/
example : (adaptive 3 1 [[0], [1, 0, 2], [2, 1, 0]] [0, 1, 2]).isNone = true := by decide

/-- an entry `≥ n` in the processing order makes the kernel raise (IndexError) -/
example : (adaptive 2 1 [[0, 1], [1, 0]] [0, 2]).isNone = true := by decide

/-- the counts of the theorems on a small instance -/
example : (match adaptive 3 1 [[0, 1, 2], [1, 0, 2], [2, 1, 0]] [0, 1, 2] with
    | some R => (List.range 3).map fun l => countTrue ((List.range 3).map (R l))
    | none => []) = [2, 2, 2] := by decide

end Pyunicorn.Recurrence
