import Pyunicorn.Model.LineDistMethods
import Pyunicorn.Lemmas.LineDistFloat
/-!
C08, round 5: lemmas for the method-level theorems (`Model/LineDistMethods.lean`).

* the distance matrix returned by `_supremum_distance_matrix_rp` and hence the matrix stored by
  `set_fixed_threshold` is symmetric (`np.array_equal(recmat, recmat.T)` holds);
* an entry of the stored matrix is a function of the two *rows* of the embedding only
  (`cellPred`), so that `R.sum()` is a double sum over rows, and dropping the rows with a NaN
  (`self.embedding[~self.missing_value_indices]`) gives the same count as clearing their rows and
  columns in the matrix.
Core Lean only.
-/
namespace Pyunicorn.LineDist
open Pyunicorn.Generated
open Pyunicorn.Recurrence (tab)

/-- `distance[a, b] = distance[b, a]`: the symmetric store of the two outer loops -/
theorem dist_rp_symm {α : Type} (O : FOps α) (n dim : Int) (E : Int → Int → α) (a b : Int) :
    StructC08._supremum_distance_matrix_rp O n dim E a b
      = StructC08._supremum_distance_matrix_rp O n dim E b a := by
  unfold StructC08._supremum_distance_matrix_rp
  simp only []
  by_cases h1 : 0 ≤ b ∧ b < a ∧ a < n
  · rw [if_pos h1, if_neg (by omega), if_pos h1]
  · rw [if_neg h1]
    by_cases h2 : 0 ≤ a ∧ a < b ∧ b < n
    · rw [if_pos h2, if_pos h2]
    · rw [if_neg h2, if_neg h2, if_neg h1]

theorem at_tab_out' (n : Nat) (f : Nat → Nat → Bool) (i j : Nat) (h : ¬ (i < n ∧ j < n)) :
    Mat.at (tab n n f) i j = false := by
  unfold Mat.at tab
  by_cases hi : i < n
  · have hj : ¬ j < n := fun hj => h ⟨hi, hj⟩
    simp [List.getD_eq_getElem?_getD, hi, hj]
  · simp [List.getD_eq_getElem?_getD, hi]

/-- the stored matrix is symmetric, entry by entry, in every mode -/
theorem fixedThresholdX_at_symm (rnd : Rat → Rat) (emb : List (List X)) (eps : X) (dim : Nat)
    (mv : Bool) (I j : Nat) :
    Mat.at (fixedThresholdX rnd emb eps dim mv) I j
      = Mat.at (fixedThresholdX rnd emb eps dim mv) j I := by
  unfold fixedThresholdX
  simp only []
  by_cases hr : I < emb.length ∧ j < emb.length
  · rw [at_tab _ _ _ _ _ hr.1 hr.2, at_tab _ _ _ _ _ hr.2 hr.1, dist_rp_symm,
      Bool.or_comm ((missingMaskX emb).getD I false)]
  · rw [at_tab_out' _ _ _ _ hr, at_tab_out' _ _ _ _ (fun h => hr ⟨h.2, h.1⟩)]

/-- `np.array_equal(recmat, recmat.T)` holds for the matrix of a fixed threshold -/
theorem fixedThresholdX_symmetricB (rnd : Rat → Rat) (emb : List (List X)) (eps : X) (dim : Nat)
    (mv : Bool) (n : Nat) : symmetricB (fixedThresholdX rnd emb eps dim mv) n = true := by
  unfold symmetricB
  simp only [List.all_eq_true, beq_iff_eq]
  intro i _ j _
  exact fixedThresholdX_at_symm rnd emb eps dim mv i j

/-! ### an entry of the stored matrix is a function of the two rows of the embedding -/

/-- the running maximum of `metric_supremum` / `supremum_rp_entry` as a function of two rows -/
def rowMetric (rnd : Rat → Rat) (dim : Nat) (r1 r2 : List X) : X :=
  (List.range dim).foldl (fun (diff : X) (l : Nat) =>
    if X.gt (X.absdiff rnd (r1.getD l .nan) (r2.getD l .nan)) diff
    then X.absdiff rnd (r1.getD l .nan) (r2.getD l .nan) else diff) (.fin 0)

theorem metric_rows (rnd : Rat → Rat) (emb : List (List X)) (dim I j : Nat) :
    StructC08.metric_supremum (xOps rnd) (I : Int) (j : Int) (dim : Int) (accX emb)
      = rowMetric rnd dim (emb.getD I []) (emb.getD j []) := by
  unfold StructC08.metric_supremum rowMetric accX
  simp only [Int.toNat_natCast, xOps]
  rfl

/-- entry of the stored matrix from the two rows: recurrent, and (with `missing_values`) neither
row holds a NaN -/
def cellPred (rnd : Rat → Rat) (eps : X) (dim : Nat) (mv : Bool) (r1 r2 : List X) : Bool :=
  X.lt (rowMetric rnd dim r1 r2) eps && !(mv && (r1.any X.isNan || r2.any X.isNan))

theorem mask_getD (emb : List (List X)) (a : Nat) (ha : a < emb.length) :
    (missingMaskX emb).getD a false = (emb.getD a []).any X.isNan := by
  simp [missingMaskX, List.getD_eq_getElem?_getD, ha]

theorem fixedThresholdX_at_rows (rnd : Rat → Rat) (h0 : rnd 0 = 0) (emb : List (List X)) (eps : X)
    (dim : Nat) (mv : Bool) (a b : Nat) (ha : a < emb.length) (hb : b < emb.length) :
    Mat.at (fixedThresholdX rnd emb eps dim mv) a b
      = cellPred rnd eps dim mv (emb.getD a []) (emb.getD b []) := by
  unfold fixedThresholdX cellPred
  simp only []
  rw [at_tab _ _ _ _ _ ha hb, mask_getD emb a ha, mask_getD emb b hb]
  congr 2
  unfold StructC08._supremum_distance_matrix_rp
  simp only []
  by_cases h1 : b < a
  · rw [if_pos (by omega), ← metric_eq_rp_entry, metric_rows]
    rfl
  · by_cases h2 : a < b
    · rw [if_neg (by omega), if_pos (by omega), rp_entry_comm, ← metric_eq_rp_entry, metric_rows]
      rfl
    · have : a = b := by omega
      subst this
      rw [if_neg (by omega), if_neg (by omega), ← metric_rows rnd emb dim a a, metric_eq_rp_entry,
        rp_entry_self rnd h0]
      rfl

/-! ### `R.sum()` as a double sum over rows; dropping rows = clearing rows and columns -/

theorem range_map_getD {β : Type} (L : List (List X)) (f : List X → β) :
    (List.range L.length).map (fun i => f (L.getD i [])) = L.map f := by
  apply List.ext_getElem
  · simp
  · intro i h1 h2
    simp only [List.length_map, List.length_range] at h1
    simp [List.getD_eq_getElem?_getD, h1]

theorem matSum_rows (R : Mat) (L : List (List X)) (P : List X → List X → Bool)
    (h : ∀ a b, a < L.length → b < L.length → R.at a b = P (L.getD a []) (L.getD b [])) :
    matSum R L.length = (L.map fun r1 => (L.map fun r2 => P r1 r2).count true).sum := by
  unfold matSum
  have e : ((List.range L.length).map fun i =>
        ((List.range L.length).map fun j => R.at i j).count true)
      = (List.range L.length).map fun i =>
        (fun r1 => (L.map fun r2 => P r1 r2).count true) (L.getD i []) := by
    apply List.map_congr_left
    intro i hi
    have hi' := List.mem_range.mp hi
    have : ((List.range L.length).map fun j => R.at i j)
        = (List.range L.length).map fun j => (fun r2 => P (L.getD i []) r2) (L.getD j []) := by
      apply List.map_congr_left
      intro j hj
      exact h i j hi' (List.mem_range.mp hj)
    rw [this]
    exact congrArg (List.count true) (range_map_getD L (fun r2 => P (L.getD i []) r2))
  rw [e]
  exact congrArg List.sum
    (range_map_getD L (fun r1 => (L.map fun r2 => P r1 r2).count true))

theorem count_filter_inner {β : Type} (P c : β → Bool) (L : List β) :
    (L.map fun r => P r && c r).count true = ((L.filter c).map P).count true := by
  induction L with
  | nil => rfl
  | cons a t ih =>
    by_cases hc : c a = true
    · simp only [List.map_cons, List.filter_cons, hc, if_true, Bool.and_true, List.count_cons, ih]
    · have hc' : c a = false := by simpa using hc
      simp only [List.map_cons, List.filter_cons, hc', Bool.and_false, List.count_cons, ih]
      simp

theorem sum_filter_outer {β : Type} (g : β → Nat) (c : β → Bool) (L : List β) :
    (L.map fun r => if c r = true then g r else 0).sum = ((L.filter c).map g).sum := by
  induction L with
  | nil => rfl
  | cons a t ih =>
    by_cases hc : c a = true
    · simp only [List.map_cons, List.sum_cons, List.filter_cons, hc, if_true, ih]
    · simp only [List.map_cons, List.sum_cons, List.filter_cons, hc, if_false, ih]
      simp

theorem count_all_false {β : Type} (L : List β) : (L.map fun _ => false).count true = 0 := by
  induction L with
  | nil => rfl
  | cons a t ih => simp [List.count_cons, ih]

/-- **`recurrence_rate()` with `missing_values` counts the same points in both storage modes**:
the number of recurrence points of the stored matrix (rows and columns of the incomplete state
vectors cleared) is the number of recurrence points among the complete state vectors alone — the
matrix of `self.embedding[~self.missing_value_indices]` without missing-value handling -/
theorem matSum_mv_eq_complete (rnd : Rat → Rat) (h0 : rnd 0 = 0) (emb : List (List X)) (eps : X)
    (dim : Nat) :
    matSum (fixedThresholdX rnd emb eps dim true) emb.length
      = matSum (fixedThresholdX rnd (completeRows emb) eps dim false) (completeRows emb).length := by
  rw [matSum_rows _ emb (cellPred rnd eps dim true)
      (fun a b ha hb => fixedThresholdX_at_rows rnd h0 emb eps dim true a b ha hb),
    matSum_rows _ (completeRows emb) (cellPred rnd eps dim false)
      (fun a b ha hb => fixedThresholdX_at_rows rnd h0 _ eps dim false a b ha hb)]
  unfold completeRows
  rw [← sum_filter_outer]
  congr 1
  apply List.map_congr_left
  intro r1 _
  by_cases hc : (!(r1.any X.isNan)) = true
  · rw [if_pos hc, ← count_filter_inner]
    congr 1
    apply List.map_congr_left
    intro r2 _
    have : r1.any X.isNan = false := by simpa using hc
    simp [cellPred, this]
  · rw [if_neg hc]
    have : r1.any X.isNan = true := by simpa using hc
    have e : (emb.map fun r2 => cellPred rnd eps dim true r1 r2) = emb.map fun _ => false := by
      apply List.map_congr_left
      intro r2 _
      simp [cellPred, this]
    rw [e, count_all_false]

end Pyunicorn.LineDist
