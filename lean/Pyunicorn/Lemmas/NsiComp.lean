import Pyunicorn.Lemmas.NsiBfs
import Pyunicorn.Model.NsiComp
/-!
Round 5: the per-component wrapper of the random-walk betweennesses under a split.

* `reach_split`     — reachability (by the model's breadth-first search) pulls back along the
                      collapse map
* `compNodes_split` — the component of `a` in the split graph is the component of `collapse a`,
                      with the new twin appended (last: it has the largest index) iff it contains
                      the split node
* `subGr_split_*`   — the sub-network `components.subgraph(c)` of the split graph, in the
                      component's own numbering, **is** the split (at the position of `v` in the
                      component) of the sub-network of the original graph: node range, links and
                      node weights agree entry by entry.  So the wrapper hands the kernel exactly
                      the network the theorems for connected networks speak about.
-/
namespace Pyunicorn.Nsi

theorem bfsDist_self_isSome (G : Gr) (x : Nat) (hx : x < G.n) : (bfsDist G x x).isSome = true := by
  have h := bfsDist_isDist G x x hx
  cases hb : bfsDist G x x with
  | none => rw [hb] at h; exact absurd (Walk.nil x hx) (h 0)
  | some d => rfl

/-- reachability pulls back along the collapse map -/
theorem reach_split (G : Gr) (v : Nat) (p : Rat) (hv : v < G.n) (hloop : ∀ i, G.adj i i = false)
    (a b : Nat) (ha : a < G.n + 1) (hb : b < G.n + 1) :
    (bfsDist (split G v p) a b).isSome
      = (bfsDist G (collapse G.n v a) (collapse G.n v b)).isSome := by
  have hca := collapse_lt_n G.n v a hv ha
  have hcb := collapse_lt_n G.n v b hv hb
  rw [bfsDist_split G v p hv hloop a b ha hb]
  show (if a = b then some 0 else if collapse (withBfs G).n v a = collapse (withBfs G).n v b
    then some 1 else (withBfs G).dist (collapse (withBfs G).n v a) (collapse (withBfs G).n v b)).isSome
      = _
  rw [withBfs_n]
  by_cases hab : a = b
  · subst hab
    rw [if_pos rfl, bfsDist_self_isSome G _ hca]; rfl
  · rw [if_neg hab]
    by_cases hc : collapse G.n v a = collapse G.n v b
    · rw [if_pos hc, hc, bfsDist_self_isSome G _ hcb]; rfl
    · rw [if_neg hc, withBfs_dist G _ _ hca hcb]

/-- **the components of the split graph are the preimages of the components**: the nodes of the
component of `a`, ascending, are those of the component of `collapse a`, followed by the new twin
iff the split node belongs to it -/
theorem compNodes_split (G : Gr) (v : Nat) (p : Rat) (hv : v < G.n)
    (hloop : ∀ i, G.adj i i = false) (a : Nat) (ha : a < G.n + 1) :
    compNodes (split G v p) a
      = compNodes G (collapse G.n v a)
        ++ (if (bfsDist G (collapse G.n v a) v).isSome then [G.n] else []) := by
  unfold compNodes
  have hn : (split G v p).n = G.n + 1 := rfl
  rw [hn, List.range_succ, List.filter_append]
  congr 1
  · apply List.filter_congr
    intro b hb
    have hb' := List.mem_range.mp hb
    rw [reach_split G v p hv hloop a b ha (by omega), collapse_lt _ _ _ hb']
  · rw [List.filter_cons, reach_split G v p hv hloop a G.n ha (by omega), collapse_self]
    simp

/-! ### the sub-network of a component that contains the split node -/

theorem split_w_eq (G : Gr) (v : Nat) (p : Rat) (x : Nat) :
    (split G v p).w x
      = if x = G.n then p * G.w v else if x = v then (1 - p) * G.w v else G.w x := rfl

theorem split_adj_eq (G : Gr) (v : Nat) (p : Rat) (x y : Nat) :
    (split G v p).adj x y
      = if x = G.n ∧ y = G.n then false
        else if (x = G.n ∧ y = v) ∨ (x = v ∧ y = G.n) then true
        else G.adj (collapse G.n v x) (collapse G.n v y) := rfl

theorem subGr_n (G : Gr) (nodes : List Nat) : (subGr G nodes).n = nodes.length := rfl
theorem subGr_w (G : Gr) (nodes : List Nat) (i : Nat) :
    (subGr G nodes).w i = G.w (nodes.getD i 0) := rfl
theorem subGr_adj (G : Gr) (nodes : List Nat) (i j : Nat) :
    (subGr G nodes).adj i j = G.adj (nodes.getD i 0) (nodes.getD j 0) := rfl

section sub
variable (G : Gr) (v : Nat) (p : Rat) (nodes : List Nat)

theorem getD_append_last (i : Nat) (hi : i < nodes.length + 1) :
    (nodes ++ [G.n]).getD i 0 = if i = nodes.length then G.n else nodes.getD i 0 := by
  by_cases h : i = nodes.length
  · subst h; simp [List.getD_eq_getElem?_getD]
  · have : i < nodes.length := by omega
    simp [List.getD_eq_getElem?_getD, List.getElem?_append_left this, h]

theorem getD_lt (hlt : ∀ x ∈ nodes, x < G.n) (i : Nat) (hi : i < nodes.length) :
    nodes.getD i 0 < G.n := by
  have : nodes.getD i 0 = nodes[i] := by simp [List.getD_eq_getElem?_getD, hi]
  rw [this]; exact hlt _ (List.getElem_mem hi)

theorem getD_eq_v_iff (hnd : nodes.Nodup) (hv : v ∈ nodes) (i : Nat) (hi : i < nodes.length) :
    nodes.getD i 0 = v ↔ i = nodes.idxOf v := by
  have hiv : nodes.idxOf v < nodes.length := List.idxOf_lt_length_iff.mpr hv
  have e1 : nodes.getD i 0 = nodes[i] := by simp [List.getD_eq_getElem?_getD, hi]
  constructor
  · intro h
    rw [e1] at h
    have h2 : nodes[nodes.idxOf v] = v := List.getElem_idxOf hiv
    exact (List.Nodup.getElem_inj_iff hnd).mp (h.trans h2.symm)
  · intro h
    subst h
    rw [e1]; exact List.getElem_idxOf hiv

/-- the component's numbering commutes with the collapse maps -/
theorem getD_collapse (hlt : ∀ x ∈ nodes, x < G.n) (hnd : nodes.Nodup) (hv : v ∈ nodes)
    (i : Nat) (hi : i < nodes.length + 1) :
    collapse G.n v ((nodes ++ [G.n]).getD i 0)
      = nodes.getD (collapse nodes.length (nodes.idxOf v) i) 0 := by
  have hiv : nodes.idxOf v < nodes.length := List.idxOf_lt_length_iff.mpr hv
  rw [getD_append_last G nodes i hi]
  by_cases h : i = nodes.length
  · subst h
    rw [if_pos rfl, collapse_self, collapse_self]
    exact ((getD_eq_v_iff v nodes hnd hv _ hiv).mpr rfl).symm
  · have hi' : i < nodes.length := by omega
    rw [if_neg h, collapse_lt _ _ _ (getD_lt G nodes hlt i hi'), collapse_lt _ _ _ hi']

/-- node weights of the sub-network of the split graph = those of the split sub-network -/
theorem subGr_split_w (hlt : ∀ x ∈ nodes, x < G.n) (hnd : nodes.Nodup) (hv : v ∈ nodes)
    (i : Nat) (hi : i < nodes.length + 1) :
    (subGr (split G v p) (nodes ++ [G.n])).w i
      = (split (subGr G nodes) (nodes.idxOf v) p).w i := by
  have hiv : nodes.idxOf v < nodes.length := List.idxOf_lt_length_iff.mpr hv
  have hvv : nodes.getD (nodes.idxOf v) 0 = v := (getD_eq_v_iff v nodes hnd hv _ hiv).mpr rfl
  show (split G v p).w ((nodes ++ [G.n]).getD i 0) = _
  rw [getD_append_last G nodes i hi, split_w_eq, split_w_eq]
  simp only [subGr_w]
  rw [hvv]
  by_cases h : i = nodes.length
  · rw [if_pos h, if_pos rfl, if_pos (show i = (subGr G nodes).n from h)]
  · have hi' : i < nodes.length := by omega
    have hne : nodes.getD i 0 ≠ G.n := ne_of_lt (getD_lt G nodes hlt i hi')
    rw [if_neg h, if_neg hne, if_neg (show ¬ i = (subGr G nodes).n from h)]
    by_cases hx : nodes.getD i 0 = v
    · have := (getD_eq_v_iff v nodes hnd hv i hi').mp hx
      rw [if_pos hx, if_pos this]
    · have : ¬ i = nodes.idxOf v := fun e => hx ((getD_eq_v_iff v nodes hnd hv i hi').mpr e)
      rw [if_neg hx, if_neg this]

/-- links of the sub-network of the split graph = those of the split sub-network -/
theorem subGr_split_adj (hlt : ∀ x ∈ nodes, x < G.n) (hnd : nodes.Nodup) (hv : v ∈ nodes)
    (i j : Nat) (hi : i < nodes.length + 1) (hj : j < nodes.length + 1) :
    (subGr (split G v p) (nodes ++ [G.n])).adj i j
      = (split (subGr G nodes) (nodes.idxOf v) p).adj i j := by
  have hiv : nodes.idxOf v < nodes.length := List.idxOf_lt_length_iff.mpr hv
  have hci := getD_collapse G v nodes hlt hnd hv i hi
  have hcj := getD_collapse G v nodes hlt hnd hv j hj
  -- which component index carries the twin / the split node
  have hN : ∀ k, k < nodes.length + 1 → ((nodes ++ [G.n]).getD k 0 = G.n ↔ k = nodes.length) := by
    intro k hk
    rw [getD_append_last G nodes k hk]
    by_cases h : k = nodes.length
    · rw [if_pos h]; exact ⟨fun _ => h, fun _ => rfl⟩
    · have hk' : k < nodes.length := by omega
      have := ne_of_lt (getD_lt G nodes hlt k hk')
      rw [if_neg h]; exact ⟨fun e => absurd e this, fun e => absurd e h⟩
  have hV : ∀ k, k < nodes.length + 1 →
      ((nodes ++ [G.n]).getD k 0 = v ↔ k = nodes.idxOf v) := by
    intro k hk
    rw [getD_append_last G nodes k hk]
    by_cases h : k = nodes.length
    · have hvn : G.n ≠ v := ne_of_gt (hlt v hv)
      have : ¬ k = nodes.idxOf v := by omega
      rw [if_pos h]; exact ⟨fun e => absurd e hvn, fun e => absurd e this⟩
    · have hk' : k < nodes.length := by omega
      rw [if_neg h]
      exact getD_eq_v_iff v nodes hnd hv k hk'
  show (split G v p).adj ((nodes ++ [G.n]).getD i 0) ((nodes ++ [G.n]).getD j 0) = _
  rw [split_adj_eq, split_adj_eq, hci, hcj]
  simp only [subGr_adj, hN i hi, hN j hj, hV i hi, hV j hj]
  rfl

theorem subGr_split_n : (subGr (split G v p) (nodes ++ [G.n])).n
    = (split (subGr G nodes) (nodes.idxOf v) p).n := by
  simp [subGr, split]

end sub

/-- a component that does not contain the split node is handed to the kernel unchanged -/
theorem subGr_split_other (G : Gr) (v : Nat) (p : Rat) (nodes : List Nat)
    (hlt : ∀ x ∈ nodes, x < G.n) (hv : v ∉ nodes) (i j : Nat) (hi : i < nodes.length)
    (hj : j < nodes.length) :
    (subGr (split G v p) nodes).n = (subGr G nodes).n ∧
    (subGr (split G v p) nodes).w i = (subGr G nodes).w i ∧
    (subGr (split G v p) nodes).adj i j = (subGr G nodes).adj i j := by
  have hxi := getD_lt G nodes hlt i hi
  have hxj := getD_lt G nodes hlt j hj
  have e1 : nodes.getD i 0 = nodes[i] := by simp [List.getD_eq_getElem?_getD, hi]
  have e2 : nodes.getD j 0 = nodes[j] := by simp [List.getD_eq_getElem?_getD, hj]
  have hvi : nodes.getD i 0 ≠ v := fun h => hv (h ▸ e1 ▸ List.getElem_mem hi)
  have hvj : nodes.getD j 0 ≠ v := fun h => hv (h ▸ e2 ▸ List.getElem_mem hj)
  have hni : nodes.getD i 0 ≠ G.n := ne_of_lt hxi
  have hnj : nodes.getD j 0 ≠ G.n := ne_of_lt hxj
  refine ⟨rfl, ?_, ?_⟩
  · show (split G v p).w (nodes.getD i 0) = G.w (nodes.getD i 0)
    rw [split_w_eq, if_neg hni, if_neg hvi]
  · show (split G v p).adj (nodes.getD i 0) (nodes.getD j 0)
      = G.adj (nodes.getD i 0) (nodes.getD j 0)
    have h1 : ¬ (nodes.getD i 0 = G.n ∧ nodes.getD j 0 = G.n) := fun h => hni h.1
    have h2 : ¬ ((nodes.getD i 0 = G.n ∧ nodes.getD j 0 = v) ∨
        (nodes.getD i 0 = v ∧ nodes.getD j 0 = G.n)) := by
      rintro (⟨h, _⟩ | ⟨_, h⟩)
      · exact hni h
      · exact hnj h
    rw [split_adj_eq, if_neg h1, if_neg h2, collapse_lt _ _ _ hxi, collapse_lt _ _ _ hxj]

end Pyunicorn.Nsi
