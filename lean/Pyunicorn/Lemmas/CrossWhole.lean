import Pyunicorn.Lemmas.Cross
import Mathlib.Algebra.BigOperators.Group.List.Lemmas
import Mathlib.Tactic.FieldSimp
/-! Helper lemmas for C11 (round 2): sums over a permutation of `range n` (both groups = all
nodes), finite entries of a block, transposed blocks. -/
namespace Pyunicorn.Cross

/-- a sum over any ordering of all nodes is the sum over `range n` -/
theorem sum_perm_range {α : Type} [AddCommMonoid α] {L : List Nat} {n : Nat}
    (h : L.Perm (List.range n)) (f : Nat → α) :
    (L.map f).sum = ((List.range n).map f).sum := (h.map f).sum_eq

theorem zipWith_map_self {α β γ δ : Type} (f : β → γ → δ) (g : α → β) (h : α → γ) (L : List α) :
    List.zipWith f (L.map g) (L.map h) = L.map fun x => f (g x) (h x) := by
  induction L with
  | nil => rfl
  | cons x t ih => simp [ih]

theorem zipWith_self_map {α β γ : Type} (f : α → β → γ) (g : α → β) (L : List α) :
    List.zipWith f L (L.map g) = L.map fun x => f x (g x) := by
  induction L with
  | nil => rfl
  | cons x t ih => simp [ih]

theorem b2n_eq_net (b : Bool) : b2n b = Pyunicorn.Net.b2n b := rfl

theorem aplus_eq_net (A : Adj) : aplus A = Pyunicorn.Net.aplus A := rfl

/-- `countNone` of a block as a double sum of indicators -/
theorem countNone_eq (D : Dist) (M1 M2 : List Nat) :
    countNone (block D M1 M2)
      = (M1.map fun a => (M2.map fun b => if (D a b).isNone then 1 else 0).sum).sum := by
  simp only [countNone, block, List.map_map, Function.comp_def]
  congr 1
  apply List.map_congr_left
  intro a _
  induction M2 with
  | nil => simp
  | cons b t ih =>
    simp only [List.map_cons, List.filter_cons, List.sum_cons]
    cases h : (D a b).isNone <;> simp [ih] <;> omega

theorem sumFinite_eq (D : Dist) (M1 M2 : List Nat) :
    sumFinite (block D M1 M2)
      = (M1.map fun a => (M2.map fun b => (D a b).getD 0).sum).sum := by
  simp only [sumFinite, block, List.map_map, Function.comp_def]

/-- finite entries of a row -/
def finiteOf (r : List (Option Rat)) : List Rat := r.filterMap id

theorem row_split (r : List (Option Rat)) :
    (finiteOf r).length + (r.filter Option.isNone).length = r.length
      ∧ (finiteOf r).sum = (r.map fun x => x.getD 0).sum := by
  induction r with
  | nil => simp [finiteOf]
  | cons x t ih =>
    obtain ⟨h1, h2⟩ := ih
    cases x with
    | none =>
      simp only [finiteOf, List.filterMap_cons, id, List.filter_cons, Option.isNone_none, if_true,
        List.length_cons, List.map_cons, Option.getD_none, List.sum_cons] at h1 h2 ⊢
      constructor
      · omega
      · rw [h2]; ring
    | some v =>
      simp only [finiteOf, List.filterMap_cons, id, List.filter_cons, List.length_cons,
        List.map_cons, Option.getD_some, List.sum_cons] at h1 h2 ⊢
      constructor
      · simp; omega
      · rw [h2]

/-- all finite entries of a matrix -/
def finiteEntries (B : List (List (Option Rat))) : List Rat := (B.map finiteOf).flatten

theorem finite_split (B : List (List (Option Rat))) (M : Nat) (hrows : ∀ r ∈ B, r.length = M) :
    (finiteEntries B).length + countNone B = B.length * M
      ∧ (finiteEntries B).sum = sumFinite B := by
  induction B with
  | nil => simp [finiteEntries, countNone, sumFinite]
  | cons r t ih =>
    obtain ⟨h1, h2⟩ := ih (fun r' hr' => hrows r' (by simp [hr']))
    obtain ⟨g1, g2⟩ := row_split r
    have hr : r.length = M := hrows r (by simp)
    simp only [finiteEntries, countNone, sumFinite, List.map_cons, List.flatten_cons,
      List.length_append, List.sum_cons, List.sum_append, List.length_cons] at h1 h2 ⊢
    constructor
    · rw [Nat.succ_mul]; omega
    · rw [g2, h2]

theorem block_rows {α : Type} (M : Nat → Nat → α) (L1 L2 : List Nat) :
    ∀ r ∈ block M L1 L2, r.length = L2.length := by
  intro r hr
  simp only [block, List.mem_map] at hr
  obtain ⟨a, _, rfl⟩ := hr
  simp

theorem block_length {α : Type} (M : Nat → Nat → α) (L1 L2 : List Nat) :
    (block M L1 L2).length = L1.length := by simp [block]

theorem sum_div_const (f : Nat → Rat) (c : Rat) (L : List Nat) :
    (L.map fun x => f x / c).sum = (L.map f).sum / c := by
  induction L with
  | nil => simp
  | cons x t ih => simp only [List.map_cons, List.sum_cons, ih]; ring

theorem sum_map_mul_right_nat (c : Nat) (f : Nat → Nat) (L : List Nat) :
    (L.map fun x => f x * c).sum = (L.map f).sum * c := by
  induction L with
  | nil => simp
  | cons x t ih => simp only [List.map_cons, List.sum_cons, ih, Nat.add_mul]

theorem sum_map_mul_left_nat (c : Nat) (f : Nat → Nat) (L : List Nat) :
    (L.map fun x => c * f x).sum = c * (L.map f).sum := by
  induction L with
  | nil => simp
  | cons x t ih => simp only [List.map_cons, List.sum_cons, ih, Nat.mul_add]

theorem cast_sum_map_nat_int (f : Nat → Nat) (L : List Nat) :
    (((L.map f).sum : Nat) : Int) = (L.map fun x => ((f x : Nat) : Int)).sum := by
  induction L with
  | nil => simp
  | cons x t ih => simp only [List.map_cons, List.sum_cons, Nat.cast_add, ih]

/-- Nat version of `double_sum_symm` -/
theorem double_sum_symm_nat (g : Nat → Nat → Nat) (hs : ∀ a b, g a b = g b a) (L : List Nat) :
    (L.map fun a => (L.map fun b => g a b).sum).sum
      = (L.map fun a => g a a).sum + 2 * pairSum g L := by
  induction L with
  | nil => simp [pairSum]
  | cons x t ih =>
    simp only [List.map_cons, List.sum_cons, pairSum]
    have h1 : (t.map fun a => g a x + (t.map fun b => g a b).sum).sum
        = (t.map fun a => g a x).sum + (t.map fun a => (t.map fun b => g a b).sum).sum := by
      rw [List.sum_map_add]
    have h2 : (t.map fun b => g x b).sum = (t.map fun a => g a x).sum := by
      congr 1
      apply List.map_congr_left
      intro a _
      exact hs x a
    rw [h1, ih, h2]
    omega

/-- the sum over unordered pairs of a symmetric function does not depend on the list order -/
theorem pairSum_perm (f : Nat → Nat → Nat) (hs : ∀ a b, f a b = f b a) {L L' : List Nat}
    (h : L.Perm L') : pairSum f L = pairSum f L' := by
  induction h with
  | nil => rfl
  | cons x hp ih =>
    simp only [pairSum]
    rw [ih, (hp.map fun y => f y x).sum_eq]
  | swap x y l =>
    simp only [pairSum, List.map_cons, List.sum_cons]
    rw [hs x y]
    omega
  | trans _ _ ih1 ih2 => exact ih1.trans ih2

end Pyunicorn.Cross
