import Pyunicorn.Model.Mpi
/-! Helper lemmas for C19 (core Lean only). -/
namespace Pyunicorn.Mpi

/-! ### chunk arithmetic (`int(np.ceil(a / b))` as `(a + b - 1) / b`) -/

theorem cd_pos (N m : Int) (hN : 1 ≤ N) (hm : 1 ≤ m) : 1 ≤ (N + m - 1) / m := by
  have : m * 1 ≤ N + m - 1 := by omega
  exact (Int.le_ediv_iff_mul_le (by omega)).mpr (by omega)

/-- `q = ⌈N/s⌉` satisfies `(q-1)·s < N ≤ q·s` -/
theorem cd_bounds (N s : Int) (hs : 1 ≤ s) :
    ((N + s - 1) / s - 1) * s < N ∧ N ≤ ((N + s - 1) / s) * s := by
  have h1 := Int.ediv_mul_le (N + s - 1) (b := s) (by omega)
  have h2 := Int.lt_ediv_add_one_mul_self (N + s - 1) (b := s) (by omega)
  constructor
  · have : ((N + s - 1) / s - 1) * s = (N + s - 1) / s * s - s := by
      rw [Int.sub_mul]; omega
    omega
  · have : ((N + s - 1) / s + 1) * s = (N + s - 1) / s * s + s := by
      rw [Int.add_mul]; omega
    omega

theorem mul_le_of_le (a b s : Int) (h : a ≤ b) (hs : 0 ≤ s) : a * s ≤ b * s :=
  Int.mul_le_mul_of_nonneg_right h hs

/-- the generic statement about the master's chunk arithmetic -/
theorem chunk_facts (N mp : Int) (hN : 1 ≤ N) (hmp : 1 ≤ mp) :
    let step := (N + mp - 1) / mp
    let parts := (N + step - 1) / step
    1 ≤ step ∧ 1 ≤ parts ∧
    (∀ idx, 0 ≤ idx → idx < parts → idx * step < min ((idx + 1) * step) N) ∧
    (∀ idx, 0 ≤ idx → idx + 1 < parts → min ((idx + 1) * step) N = (idx + 1) * step) ∧
    min ((parts - 1 + 1) * step) N = N := by
  intro step parts
  have hstep : 1 ≤ step := cd_pos N mp hN hmp
  have hparts : 1 ≤ parts := cd_pos N step hN hstep
  obtain ⟨hb1, hb2⟩ := cd_bounds N step hstep
  refine ⟨hstep, hparts, ?_, ?_, ?_⟩
  · intro idx h0 h1
    have h3 : idx * step ≤ (parts - 1) * step := mul_le_of_le _ _ _ (by omega) (by omega)
    have h4 : (idx + 1) * step = idx * step + step := by rw [Int.add_mul]; omega
    have : (parts - 1) * step < N := hb1
    omega
  · intro idx h0 h1
    have h3 : (idx + 1) * step ≤ (parts - 1) * step := mul_le_of_le _ _ _ (by omega) (by omega)
    have : (parts - 1) * step < N := hb1
    omega
  · have : (parts - 1 + 1) = parts := by omega
    rw [this]
    have : N ≤ parts * step := hb2
    omega

/-! ### the submit / get_result protocol -/

theorem lookup_append (k : Nat) (l₁ l₂ : List (Nat × α)) :
    lookup k (l₁ ++ l₂) = (lookup k l₁).or (lookup k l₂) := by
  induction l₁ with
  | nil => simp [lookup]
  | cons p t ih =>
    obtain ⟨k', v⟩ := p
    by_cases h : k' = k <;> simp [lookup, h, ih]

theorem lookup_filter_ne (k k0 : Nat) (l : List (Nat × α)) :
    lookup k (l.filter fun p => p.1 != k0) = if k = k0 then none else lookup k l := by
  induction l with
  | nil => simp [lookup]
  | cons p t ih =>
    obtain ⟨k', v⟩ := p
    by_cases h1 : k' = k0
    · subst h1
      by_cases h2 : k = k' 
      · subst h2; simp [ih]
      · have : ¬ k' = k := fun h => h2 h.symm
        simp [lookup, ih, h2, this]
    · have hne : (k' != k0) = true := by simpa using h1
      simp only [List.filter_cons, hne, if_true, lookup]
      by_cases h2 : k' = k
      · subst h2; simp [h1]
      · simp [h2, ih]

theorem queueOf_setQueue (a : List (Nat × Nat)) (qs : List (Nat × List Nat)) (v v' : Nat)
    (q : List Nat) :
    queueOf ⟨a, setQueue qs v q⟩ v' = if v' = v then q else queueOf ⟨a, qs⟩ v' := by
  unfold queueOf setQueue
  by_cases h : v' = v
  · subst h; simp [lookup]
  · have : ¬ v = v' := fun h' => h h'.symm
    simp [lookup, this, lookup_filter_ne, h]

/-- abstraction: the master state holds exactly the pending ids `ids` -/
def Rep (slaveOf : Nat → Nat) (s : MState) (ids : List Nat) : Prop :=
  (∀ id, lookup id s.assigned = if id ∈ ids then some (slaveOf id) else none) ∧
  (∀ v, queueOf s v = ids.filter (fun i => slaveOf i == v))

theorem rep_init (slaveOf : Nat → Nat) : Rep slaveOf MState.init [] := by
  constructor
  · intro id; simp [MState.init, lookup]
  · intro v; simp [MState.init, queueOf, lookup]

theorem rep_submit (slaveOf : Nat → Nat) (s : MState) (ids : List Nat) (id : Nat)
    (h : Rep slaveOf s ids) (hid : id ∉ ids) :
    ∃ s', submit s id (slaveOf id) = .ok s' ∧ Rep slaveOf s' (ids ++ [id]) := by
  obtain ⟨h1, h2⟩ := h
  have hl : lookup id s.assigned = none := by rw [h1]; simp [hid]
  refine ⟨⟨s.assigned ++ [(id, slaveOf id)],
    setQueue s.queues (slaveOf id) (queueOf s (slaveOf id) ++ [id])⟩, by simp [submit, hl], ?_, ?_⟩
  · intro id'
    simp only [lookup_append, h1, lookup]
    by_cases hm : id' ∈ ids
    · simp [hm]
    · by_cases he : id = id'
      · subst he; simp [hm]
      · have : ¬ id' = id := fun h => he h.symm
        simp [hm, he, this]
  · intro v
    rw [queueOf_setQueue]
    by_cases hv : v = slaveOf id
    · subst hv; simp [List.filter_append, h2]
    · have : ¬ slaveOf id = v := fun h => hv h.symm
      have e : queueOf ⟨s.assigned ++ [(id, slaveOf id)], s.queues⟩ v = queueOf s v := rfl
      simp [hv, List.filter_append, this, e, h2]

theorem rep_submitAll (slaveOf : Nat → Nat) (new : List Nat) (s : MState) (ids : List Nat)
    (h : Rep slaveOf s ids) (hnd : (ids ++ new).Nodup) :
    ∃ s', submitAll slaveOf new s = .ok s' ∧ Rep slaveOf s' (ids ++ new) := by
  induction new generalizing s ids with
  | nil => exact ⟨s, rfl, by simpa using h⟩
  | cons id t ih =>
    have hid : id ∉ ids := by
      intro hm
      have := List.nodup_append.mp hnd
      exact (this.2.2 id hm id (by simp)) rfl
    obtain ⟨s1, hs1, hr1⟩ := rep_submit slaveOf s ids id h hid
    have hnd' : ((ids ++ [id]) ++ t).Nodup := by simpa using hnd
    obtain ⟨s2, hs2, hr2⟩ := ih s1 (ids ++ [id]) hr1 hnd'
    exact ⟨s2, by simp [submitAll, hs1, hs2], by simpa using hr2⟩

theorem rep_get (slaveOf : Nat → Nat) (s : MState) (id : Nat) (rest : List Nat)
    (h : Rep slaveOf s (id :: rest)) (hnd : (id :: rest).Nodup) :
    ∃ s', getResult s id = .ok (id, s') ∧ Rep slaveOf s' rest := by
  obtain ⟨h1, h2⟩ := h
  have hl : lookup id s.assigned = some (slaveOf id) := by rw [h1]; simp
  have hq : queueOf s (slaveOf id) = id :: rest.filter (fun i => slaveOf i == slaveOf id) := by
    rw [h2]; simp
  have hnot : id ∉ rest := (List.nodup_cons.mp hnd).1
  refine ⟨⟨s.assigned.filter (fun p => p.1 != id),
    setQueue s.queues (slaveOf id) ((queueOf s (slaveOf id)).erase id)⟩,
    by simp [getResult, hl, hq], ?_, ?_⟩
  · intro id'
    simp only [lookup_filter_ne, h1]
    by_cases he : id' = id
    · subst he; simp [hnot]
    · simp [he]
  · intro v
    rw [queueOf_setQueue]
    by_cases hv : v = slaveOf id
    · subst hv
      simp [hq]
    · simp only [hv, if_false]
      have : queueOf ⟨s.assigned.filter (fun p => p.1 != id), s.queues⟩ v = queueOf s v := rfl
      rw [this, h2]
      have : ¬ slaveOf id = v := fun h => hv h.symm
      simp [List.filter_cons, this]

theorem rep_getAll (slaveOf : Nat → Nat) (ids : List Nat) (s : MState)
    (h : Rep slaveOf s ids) (hnd : ids.Nodup) :
    ∃ s', getAll ids s = .ok (ids, s') := by
  induction ids generalizing s with
  | nil => exact ⟨s, rfl⟩
  | cons id t ih =>
    obtain ⟨s1, hs1, hr1⟩ := rep_get slaveOf s id t h hnd
    obtain ⟨s2, hs2⟩ := ih s1 hr1 (List.nodup_cons.mp hnd).2
    exact ⟨s2, by simp [getAll, hs1, hs2]⟩

/-! ### reassembly -/

theorem assignSlice_length (acc : List α) (start : Nat) (vals : List α)
    (h : start + vals.length ≤ acc.length) :
    (assignSlice acc start vals).length = acc.length := by
  simp [assignSlice]; omega

theorem assignSlice_get (acc : List α) (start : Nat) (vals : List α)
    (h : start + vals.length ≤ acc.length) (j : Nat) :
    (assignSlice acc start vals)[j]? =
      if start ≤ j ∧ j < start + vals.length then vals[j - start]? else acc[j]? := by
  unfold assignSlice
  by_cases h1 : j < start
  · have : ¬ (start ≤ j ∧ j < start + vals.length) := by omega
    rw [if_neg this, List.append_assoc, List.getElem?_append_left (by simp; omega)]
    simp [List.getElem?_take, h1]
  · by_cases h2 : j < start + vals.length
    · rw [if_pos ⟨by omega, h2⟩, List.append_assoc,
        List.getElem?_append_right (by simp; omega)]
      have hl : (List.take start acc).length = start := by simp; omega
      rw [hl, List.getElem?_append_left (by omega)]
    · have : ¬ (start ≤ j ∧ j < start + vals.length) := by omega
      rw [if_neg this, List.getElem?_append_right (by simp; omega)]
      have hl : (List.take start acc ++ vals).length = start + vals.length := by simp; omega
      rw [hl, List.getElem?_drop]
      congr 1; omega

theorem chunkResult_length (f : Nat → α) (c : Nat × Nat) :
    (chunkResult f c).length = c.2 - c.1 := by simp [chunkResult]

theorem chunkResult_get (f : Nat → α) (c : Nat × Nat) (k : Nat) (h : k < c.2 - c.1) :
    (chunkResult f c)[k]? = some (f (c.1 + k)) := by
  simp [chunkResult, h]

end Pyunicorn.Mpi
