import Pyunicorn.Model.VisibilityExt
import Pyunicorn.Lemmas.VisibilityGeom
/-! Helper lemmas for C14, part 3 (round 2): the matrix as state, float32 rounding,
path lengths under mirroring. -/
namespace Pyunicorn.Visibility

/-! ### the matrix as state -/

/-- the `N × N` matrix with entries `f a b` -/
def mkMat (N : Nat) (f : Nat → Nat → Bool) : List (List Bool) :=
  (List.range N).map fun a => (List.range N).map fun b => f a b

theorem zeros_eq (N : Nat) : zeros N = mkMat N (fun _ _ => false) := by
  apply List.ext_getElem
  · simp [zeros, mkMat]
  · intro a h1 h2
    apply List.ext_getElem
    · simp [zeros, mkMat]
    · intro b h3 h4
      simp [zeros, mkMat]

theorem adjMat_eq (N : Nat) (log : List (Nat × Nat)) : adjMat N log = mkMat N (entry log) := rfl

theorem setM_mk (N : Nat) (f : Nat → Nat → Bool) (i j : Nat) (hi : i < N) (hj : j < N) :
    setM (mkMat N f) i j = .ok (mkMat N fun a b => f a b || (a == i && b == j)) := by
  have h : (mkMat N f)[i]? = some ((List.range N).map fun b => f i b) := by
    simp [mkMat, hi]
  unfold setM
  rw [h]
  simp only [List.length_map, List.length_range, hj, if_true]
  congr 1
  apply List.ext_getElem
  · simp [mkMat]
  · intro a h1 h2
    simp only [mkMat, List.length_set, List.length_map, List.length_range] at h1
    by_cases hai : a = i
    · subst hai
      simp only [mkMat, List.getElem_set_self, List.getElem_map, List.getElem_range]
      apply List.ext_getElem
      · simp
      · intro b h3 h4
        simp only [List.length_set, List.length_map, List.length_range] at h3
        by_cases hbj : b = j
        · subst hbj; simp
        · have : ¬ j = b := fun h => hbj h.symm
          simp [this, hbj]
    · have : ¬ i = a := fun h => hai h.symm
      simp [mkMat, this, hai]

theorem writePair_mk (N : Nat) (f : Nat → Nat → Bool) (p : Nat × Nat) (h1 : p.1 < N)
    (h2 : p.2 < N) :
    writePair (mkMat N f) p
      = .ok (mkMat N fun a b => f a b || (a == p.1 && b == p.2) || (a == p.2 && b == p.1)) := by
  simp only [writePair, setM_mk N f p.1 p.2 h1 h2, bind_ok, setM_mk N _ p.2 p.1 h2 h1]

theorem entry_cons (p : Nat × Nat) (l : List (Nat × Nat)) (a b : Nat) :
    entry (p :: l) a b = ((a == p.1 && b == p.2) || (a == p.2 && b == p.1) || entry l a b) := by
  obtain ⟨p1, p2⟩ := p
  rw [Bool.eq_iff_iff]
  simp only [entry, Bool.or_eq_true, Bool.and_eq_true, List.contains_iff_mem, List.mem_cons,
    Prod.mk.injEq, beq_iff_eq]
  tauto

/-- interleaved condition/store loop on an `N × N` matrix = first the log of the
conditions (`filterE`), then the stores; every pair in bounds -/
theorem writeLoop_mk (N : Nat) (c : Nat × Nat → Except Err Bool) :
    ∀ (l : List (Nat × Nat)) (g : Nat → Nat → Bool), (∀ p ∈ l, p.1 < N ∧ p.2 < N) →
      writeLoop c l (mkMat N g)
        = (do let log ← filterE c l
              .ok (mkMat N fun a b => g a b || entry log a b)) := by
  intro l
  induction l with
  | nil =>
    intro g _
    simp [writeLoop, filterE, entry]
  | cons p l ih =>
    intro g hl
    have hp := hl p (List.mem_cons_self)
    have hl' : ∀ q ∈ l, q.1 < N ∧ q.2 < N := fun q hq => hl q (List.mem_cons_of_mem _ hq)
    simp only [writeLoop, filterE]
    cases hc : c p with
    | error e => rfl
    | ok b =>
      simp only [bind_ok]
      cases b with
      | false =>
        simp only [Bool.false_eq_true, if_false, ih g hl']
        cases filterE c l <;> rfl
      | true =>
        simp only [if_true, writePair_mk N g p hp.1 hp.2, bind_ok, ih _ hl']
        cases filterE c l with
        | error e => rfl
        | ok r =>
          simp only [bind_ok]
          congr 2
          funext a b
          rw [entry_cons]
          cases g a b <;> cases (a == p.1 && b == p.2) <;> cases (a == p.2 && b == p.1) <;>
            cases entry r a b <;> rfl

theorem entry_append (l1 l2 : List (Nat × Nat)) (a b : Nat) :
    entry (l1 ++ l2) a b = (entry l1 a b || entry l2 a b) := by
  simp only [entry, List.contains_append]
  cases l1.contains (a, b) <;> cases l2.contains (a, b) <;> cases l1.contains (b, a) <;>
    cases l2.contains (b, a) <;> rfl

theorem farPairs_lt (N : Nat) : ∀ p ∈ farPairs N, p.1 < N ∧ p.2 < N := by
  rintro ⟨i, j⟩ h
  rw [farPairs_mem] at h
  simp only
  omega

theorem adjPairs_lt (N : Nat) : ∀ p ∈ adjPairs N, p.1 < N ∧ p.2 < N := by
  rintro ⟨i, j⟩ h
  rw [adjPairs_mem] at h
  simp only
  omega

theorem filterE_true (l : List (Nat × Nat)) :
    filterE (fun _ => (.ok true : Except Err Bool)) l = .ok l := by
  induction l with
  | nil => rfl
  | cons p l ih => simp [filterE, ih]

/-- the natural kernels run on a zero matrix leave the matrix of their write log — or
the same error — for *all* arguments -/
theorem kernelNM_zeros (x : List Val) (t : List Rat) (mv : Option (List Bool)) (N : Nat) :
    kernelNM x t mv N (zeros N)
      = (do let log ← kernelN x t mv N
            .ok (adjMat N log)) := by
  simp only [kernelNM, kernelN, zeros_eq, writeLoop_mk N _ _ _ (farPairs_lt N)]
  cases filterE (fun p => farN x t mv p.1 p.2) (farPairs N) with
  | error e => rfl
  | ok far =>
    simp only [bind_ok, writeLoop_mk N _ _ _ (adjPairs_lt N)]
    cases filterE (adjCond mv) (adjPairs N) with
    | error e => rfl
    | ok adj =>
      simp only [bind_ok, adjMat_eq]
      congr 2
      funext a b
      rw [entry_append, Bool.false_or]

theorem kernelHM_zeros (x : List Val) (N : Nat) :
    kernelHM x N (zeros N)
      = (do let log ← kernelH x N
            .ok (adjMat N log)) := by
  simp only [kernelHM, kernelH, zeros_eq, writeLoop_mk N _ _ _ (farPairs_lt N)]
  cases filterE (fun p => farH x p.1 p.2) (farPairs N) with
  | error e => rfl
  | ok far =>
    simp only [bind_ok, writeLoop_mk N _ _ _ (adjPairs_lt N), filterE_true, adjMat_eq]
    congr 2
    funext a b
    rw [entry_append, Bool.false_or]

/-- the masked stores `A[mv, :] = 0; A[:, mv] = 0` on the matrix of a log are the matrix of
the log without the pairs touching a missing sample -/
theorem zeroRC_adjMat (x : List Val) (log : List (Nat × Nat)) :
    zeroRC (nanMask x) (adjMat x.length log)
      = adjMat x.length (log.filter fun p => !isMissing x p.1 && !isMissing x p.2) := by
  have hmask : ∀ a, a < x.length → (nanMask x).getD a false = isMissing x a := by
    intro a ha
    simp [nanMask, isMissing, valAt, List.getD, List.getElem?_map, List.getElem?_eq_getElem ha]
  apply List.ext_getElem
  · simp [zeroRC, adjMat]
  · intro a h1 h2
    have ha : a < x.length := by simpa [adjMat] using h2
    apply List.ext_getElem
    · simp [zeroRC, adjMat]
    · intro b h3 h4
      have hb : b < x.length := by simpa [adjMat] using h4
      simp only [zeroRC, adjMat, List.getElem_mapIdx, List.getElem_map, List.getElem_range,
        hmask a ha, hmask b hb]
      rw [Bool.eq_iff_iff]
      simp only [entry, Bool.and_eq_true, Bool.or_eq_true, List.contains_iff_mem, List.mem_filter,
        Bool.not_eq_true']
      tauto

/-! ### path lengths of the mirrored graph -/

theorem getD_map_range (N : Nat) (g : Nat → Bool) (v : Nat) (hv : v < N) :
    ((List.range N).map g).getD v false = g v := by
  simp [List.getD, List.getElem?_map, List.getElem?_range hv]

theorem any_range_mirror (N : Nat) (f : Nat → Bool) :
    (List.range N).any f = (List.range N).any fun u => f (N - 1 - u) := by
  rw [Bool.eq_iff_iff]
  simp only [List.any_eq_true, List.mem_range]
  constructor
  · rintro ⟨u, hu, h⟩
    refine ⟨N - 1 - u, by omega, ?_⟩
    have e : N - 1 - (N - 1 - u) = u := by omega
    rw [e]; exact h
  · rintro ⟨u, hu, h⟩
    exact ⟨N - 1 - u, by omega, h⟩

/-- mirrored matrix: `A'[i, j] = A[N-1-i, N-1-j]` -/
def Mirrored (N : Nat) (A A' : List (List Bool)) : Prop :=
  ∀ i j, i < N → j < N → Mat.at A' i j = Mat.at A (N - 1 - i) (N - 1 - j)

theorem Mirrored.symm {N : Nat} {A A' : List (List Bool)} (h : Mirrored N A A') :
    Mirrored N A' A := by
  intro i j hi hj
  rw [h _ _ (by omega) (by omega)]
  have e1 : N - 1 - (N - 1 - i) = i := by omega
  have e2 : N - 1 - (N - 1 - j) = j := by omega
  rw [e1, e2]

theorem lvl_mirror (N : Nat) (A A' : List (List Bool)) (hm : Mirrored N A A') (a : Nat)
    (ha : a < N) : ∀ k v, v < N →
      (lvl N A' a k).getD v false = (lvl N A (N - 1 - a) k).getD (N - 1 - v) false := by
  intro k
  induction k with
  | zero =>
    intro v hv
    simp only [lvl, lvl0]
    rw [getD_map_range N _ v hv, getD_map_range N _ (N - 1 - v) (by omega)]
    rw [Bool.eq_iff_iff]
    simp only [beq_iff_eq]
    omega
  | succ k ih =>
    intro v hv
    simp only [lvl, grow]
    rw [getD_map_range N _ v hv, getD_map_range N _ (N - 1 - v) (by omega), ih v hv]
    congr 1
    rw [any_range_mirror N]
    rw [Bool.eq_iff_iff]
    simp only [List.any_eq_true, List.mem_range]
    constructor
    · rintro ⟨u, hu, h⟩
      refine ⟨u, hu, ?_⟩
      have e : N - 1 - (N - 1 - u) = u := by omega
      rw [ih (N - 1 - u) (by omega), hm (N - 1 - u) v (by omega) hv, e] at h
      exact h
    · rintro ⟨u, hu, h⟩
      refine ⟨u, hu, ?_⟩
      have e : N - 1 - (N - 1 - u) = u := by omega
      rw [ih (N - 1 - u) (by omega), hm (N - 1 - u) v (by omega) hv, e]
      exact h

/-- path lengths of the mirrored graph are the mirrored path lengths -/
theorem pathLen_mirror (N : Nat) (A A' : List (List Bool)) (hm : Mirrored N A A') (a b : Nat)
    (ha : a < N) (hb : b < N) : pathLen N A' a b = pathLen N A (N - 1 - a) (N - 1 - b) := by
  simp only [pathLen]
  congr 1
  funext k
  exact lvl_mirror N A A' hm a ha k b hb

theorem closeOf_reverse (ds : List (Option Nat)) : closeOf ds.reverse = closeOf ds := by
  simp only [closeOf, List.isEmpty_reverse, List.any_reverse, List.length_reverse,
    List.map_reverse, List.sum_reverse]

theorem retClose_mirror (N : Nat) (A A' : List (List Bool)) (hm : Mirrored N A A') (a : Nat)
    (ha : a < N) : retClose N A' a = advClose N A (N - 1 - a) := by
  simp only [retClose, advClose]
  rw [← closeOf_reverse ((List.range' (N - 1 - a + 1) (N - (N - 1 - a + 1))).map _)]
  congr 1
  apply List.ext_getElem
  · simp; omega
  · intro i h1 h2
    simp only [List.length_map, List.length_range] at h1
    simp only [List.getElem_map, List.getElem_range, List.getElem_reverse, List.getElem_range',
      List.length_map, List.length_range']
    rw [pathLen_mirror N A A' hm a i ha (by omega)]
    congr 1
    omega

theorem advClose_mirror (N : Nat) (A A' : List (List Bool)) (hm : Mirrored N A A') (a : Nat)
    (ha : a < N) : advClose N A' a = retClose N A (N - 1 - a) := by
  have := retClose_mirror N A' A hm.symm (N - 1 - a) (by omega)
  have e : N - 1 - (N - 1 - a) = a := by omega
  rw [e] at this
  exact this.symm

/-! ### what `pathLen` means: least number of links of a walk -/

/-- `j` is reached from `i` by a walk of at most `k` links inside `0..N-1` -/
inductive ReachLe (N : Nat) (A : List (List Bool)) (i : Nat) : Nat → Nat → Prop
  | here (k : Nat) : i < N → ReachLe N A i i k
  | step (u v k : Nat) : ReachLe N A i u k → v < N → Mat.at A u v = true → ReachLe N A i v (k + 1)

theorem ReachLe.lt {N : Nat} {A : List (List Bool)} {i v k : Nat} (h : ReachLe N A i v k) :
    v < N := by
  cases h with
  | here _ h => exact h
  | step _ _ _ _ h _ => exact h

theorem ReachLe.succ {N : Nat} {A : List (List Bool)} {i v k : Nat} (h : ReachLe N A i v k) :
    ReachLe N A i v (k + 1) := by
  induction h with
  | here k hi => exact .here _ hi
  | step u v k _ hv ha ih => exact .step u v _ ih hv ha

theorem lvl_iff (N : Nat) (A : List (List Bool)) (i : Nat) (hi : i < N) :
    ∀ k v, v < N → ((lvl N A i k).getD v false = true ↔ ReachLe N A i v k) := by
  intro k
  induction k with
  | zero =>
    intro v hv
    simp only [lvl, lvl0]
    rw [getD_map_range N _ v hv, beq_iff_eq]
    constructor
    · rintro rfl; exact .here 0 hi
    · intro h; cases h; rfl
  | succ k ih =>
    intro v hv
    simp only [lvl, grow]
    rw [getD_map_range N _ v hv]
    simp only [Bool.or_eq_true, List.any_eq_true, List.mem_range, Bool.and_eq_true]
    constructor
    · rintro (h | ⟨u, hu, h1, h2⟩)
      · exact ((ih v hv).mp h).succ
      · exact .step u v k ((ih u hu).mp h1) hv h2
    · intro h
      cases h with
      | here _ _ => exact Or.inl ((ih i hi).mpr (.here k hi))
      | step u _ _ hu _ ha => exact Or.inr ⟨u, hu.lt, (ih u hu.lt).mpr hu, ha⟩

/-- **`pathLen` is the least number of links**: `some d` means a walk of `d` links exists
and none with fewer; `none` means no walk with fewer than `N` links exists -/
theorem pathLen_spec (N : Nat) (A : List (List Bool)) (i j : Nat) (hi : i < N) (hj : j < N) :
    (∀ d, pathLen N A i j = some d →
      d < N ∧ ReachLe N A i j d ∧ ∀ k, k < d → ¬ ReachLe N A i j k) ∧
    (pathLen N A i j = none → ∀ k, k < N → ¬ ReachLe N A i j k) := by
  constructor
  · intro d h
    simp only [pathLen] at h
    rw [List.find?_range_eq_some] at h
    obtain ⟨h1, h2, h3⟩ := h
    rw [List.mem_range] at h2
    refine ⟨h2, (lvl_iff N A i hi d j hj).mp h1, ?_⟩
    intro k hk hr
    have := h3 k hk
    rw [(lvl_iff N A i hi k j hj).mpr hr] at this
    exact absurd this (by simp)
  · intro h k hk hr
    simp only [pathLen] at h
    rw [List.find?_range_eq_none] at h
    have := h k hk
    rw [(lvl_iff N A i hi k j hj).mpr hr] at this
    exact absurd this (by simp)

/-! ### float32: the rounded kernel under order faithfulness -/

theorem getD_lt (t : List Rat) (k : Nat) (h : k < t.length) : t.getD k 0 = t[k] := by
  simp [List.getD, List.getElem?_eq_getElem h]

theorem slopeR_eq (rnd : Rat → Rat) (x : List Val) (t : List Rat) (i k : Nat) (hi : i < x.length)
    (hk : k < x.length) (hi' : i < t.length) (hk' : k < t.length) :
    slopeR rnd x t i k = if rnd (t.getD k 0 - t.getD i 0) = 0 then .error .zeroDiv
      else .ok (slopeValR rnd x t i k) := by
  simp only [slopeR, rd_lt x k hk, rd_lt x i hi, rd_lt t k hk', rd_lt t i hi', bind_ok,
    slopeValR, valAt_lt x k hk, valAt_lt x i hi, getD_lt t k hk', getD_lt t i hi']

theorem slope_eq (x : List Val) (t : List Rat) (i k : Nat) (hi : i < x.length)
    (hk : k < x.length) (hi' : i < t.length) (hk' : k < t.length) :
    slope x t i k = if t.getD k 0 - t.getD i 0 = 0 then .error .zeroDiv
      else .ok (slopeValE x t i k) := by
  simp only [slope, rd_lt x k hk, rd_lt x i hi, rd_lt t k hk', rd_lt t i hi', bind_ok,
    slopeValE, valAt_lt x k hk, valAt_lt x i hi, getD_lt t k hk', getD_lt t i hi', vdivR]

theorem scan_congr_le (c1 c2 : Nat → Except Err Bool) (j : Nat) :
    ∀ (f k : Nat), k ≤ j → (∀ m, k ≤ m → m ≤ j → c1 m = c2 m) →
      scan c1 j f k = scan c2 j f k := by
  intro f
  induction f with
  | zero => intro k _ _; rfl
  | succ f ih =>
    intro k hk h
    simp only [scan, h k (Nat.le_refl _) hk]
    cases c2 k with
    | error e => rfl
    | ok c =>
      simp only [bind_ok]
      by_cases hkj : k < j
      · cases c with
        | false => rfl
        | true =>
          simp only [hkj, decide_true, Bool.and_self, if_true]
          exact ih (k + 1) (by omega) (fun m h1 h2 => h m (by omega) h2)
      · simp [hkj]

theorem filterE_congr_mem {α : Type} (f g : α → Except Err Bool) :
    ∀ l : List α, (∀ a ∈ l, f a = g a) → filterE f l = filterE g l := by
  intro l
  induction l with
  | nil => intro _; rfl
  | cons a l ih =>
    intro h
    simp only [filterE, h a List.mem_cons_self, ih (fun b hb => h b (List.mem_cons_of_mem _ hb))]

theorem farNR_eq (rnd : Rat → Rat) (x : List Val) (t : List Rat) (mv : Option (List Bool))
    (N i j : Nat) (lx : N ≤ x.length) (lt : N ≤ t.length) (hf : Faithful rnd x t N)
    (hij : i < j) (hj : j < N) : farNR rnd x t mv i j = farN x t mv i j := by
  have hz : ∀ k, i < k → k < N →
      (rnd (t.getD k 0 - t.getD i 0) = 0 ↔ t.getD k 0 - t.getD i 0 = 0) := by
    intro k hik hk
    have := hf i (by omega) k hk k hk hik hik
    simp only [faithfulAt, Bool.and_eq_true, beq_iff_eq, decide_eq_decide] at this
    exact this.1
  have hv : ∀ k, i < k → k < N →
      vlt (slopeValR rnd x t i k) (slopeValR rnd x t i j)
        = vlt (slopeValE x t i k) (slopeValE x t i j) := by
    intro k hik hk
    have := hf i (by omega) k hk j hj hik hij
    simp only [faithfulAt, Bool.and_eq_true, beq_iff_eq] at this
    exact this.2
  simp only [farNR, farN, slopeR_eq rnd x t i j (by omega) (by omega) (by omega) (by omega),
    slope_eq x t i j (by omega) (by omega) (by omega) (by omega)]
  by_cases h0 : t.getD j 0 - t.getD i 0 = 0
  · rw [if_pos ((hz j hij hj).mpr h0), if_pos h0]
    rfl
  · have h0' : ¬ rnd (t.getD j 0 - t.getD i 0) = 0 := fun h => h0 ((hz j hij hj).mp h)
    rw [if_neg h0', if_neg h0]
    simp only [bind_ok]
    rw [scan_congr_le _ (condN x t mv i (slopeValE x t i j)) j (j - i) (i + 1) (by omega)]
    intro k hk1 hk2
    simp only [condNR, condN]
    have inner : (do let s ← slopeR rnd x t i k
                     Except.ok (vlt s (slopeValR rnd x t i j)) : Except Err Bool)
        = (do let s ← slope x t i k
              Except.ok (vlt s (slopeValE x t i j))) := by
      rw [slopeR_eq rnd x t i k (by omega) (by omega) (by omega) (by omega),
        slope_eq x t i k (by omega) (by omega) (by omega) (by omega)]
      by_cases hk0 : t.getD k 0 - t.getD i 0 = 0
      · rw [if_pos ((hz k (by omega) (by omega)).mpr hk0), if_pos hk0]
        rfl
      · have hk0' : ¬ rnd (t.getD k 0 - t.getD i 0) = 0 :=
          fun h => hk0 ((hz k (by omega) (by omega)).mp h)
        rw [if_neg hk0', if_neg hk0]
        simp only [bind_ok, hv k (by omega) (by omega)]
    rw [inner]
    cases mv <;> rfl

/-- **the float32 kernel equals the exact kernel on order-faithful data** -/
theorem kernelNR_eq (rnd : Rat → Rat) (x : List Val) (t : List Rat) (mv : Option (List Bool))
    (N : Nat) (lx : N ≤ x.length) (lt : N ≤ t.length) (hf : Faithful rnd x t N) :
    kernelNR rnd x t mv N = kernelN x t mv N := by
  simp only [kernelNR, kernelN]
  rw [filterE_congr_mem (fun p : Nat × Nat => farNR rnd x t mv p.1 p.2)
    (fun p => farN x t mv p.1 p.2) (farPairs N)]
  rintro ⟨i, j⟩ h
  rw [farPairs_mem] at h
  exact farNR_eq rnd x t mv N i j lx lt hf (by omega) h.2

end Pyunicorn.Visibility
