import Pyunicorn.Lemmas.CrossNsiWhole
import Pyunicorn.Lemmas.NetDist
import Mathlib.Algebra.Order.BigOperators.Group.List
import Mathlib.Algebra.Order.Field.Basic
/-! Helper lemmas for C11 (round 4): sums over "all nodes but `i`", double sums split along an
indicator, wrapped integer accumulation. -/
namespace Pyunicorn.Cross

/-- `Σ_{j ≠ i} f j + f i = Σ_j f j` over the nodes `< n` -/
theorem sum_others {α : Type} [AddCommMonoid α] (n i : Nat) (hi : i < n) (f : Nat → α) :
    ((others n i).map f).sum + f i = ((List.range n).map f).sum := by
  unfold others
  induction n with
  | zero => omega
  | succ m ih =>
    rw [List.range_succ, List.filter_append, List.map_append, List.sum_append, List.map_append,
      List.sum_append]
    by_cases h : i = m
    · subst h
      have hf : (List.range i).filter (fun j => j != i) = List.range i := by
        apply List.filter_eq_self.mpr
        intro j hj
        have := List.mem_range.mp hj
        simp; omega
      simp [hf]
    · have hi' : i < m := by omega
      have hm : (m != i) = true := by simp; omega
      simp only [List.filter_cons, hm, if_true, List.filter_nil, List.map_cons, List.map_nil,
        List.sum_cons, List.sum_nil]
      rw [← ih hi']
      simp only [add_zero]
      rw [add_assoc, add_comm (f m) (f i), ← add_assoc]

theorem others_length (n i : Nat) (hi : i < n) : (others n i).length + 1 = n := by
  have := sum_others n i hi (fun _ => (1 : Nat))
  simpa using this

theorem mem_others (n i j : Nat) : j ∈ others n i ↔ j < n ∧ j ≠ i := by
  simp [others]

/-- a sum with the term of `i` replaced by `0` is the sum over the other nodes -/
theorem sum_others_ite (n i : Nat) (hi : i < n) (f : Nat → Rat) :
    ((others n i).map f).sum = ((List.range n).map fun j => if i = j then 0 else f j).sum := by
  have h1 := sum_others n i hi (fun j => if i = j then (0 : Rat) else f j)
  simp only [if_true, add_zero] at h1
  rw [← h1]
  congr 1
  apply List.map_congr_left
  intro j hj
  have : ¬ i = j := fun e => ((mem_others n i j).mp hj).2 e.symm
  simp [this]

theorem sum_map_add_rat (f g : Nat → Rat) (L : List Nat) :
    (L.map fun a => f a + g a).sum = (L.map f).sum + (L.map g).sum := by
  induction L with
  | nil => simp
  | cons x t ih => simp only [List.map_cons, List.sum_cons, ih]; ring

theorem sum_map_sub_rat (f g : Nat → Rat) (L : List Nat) :
    (L.map fun a => f a - g a).sum = (L.map f).sum - (L.map g).sum := by
  induction L with
  | nil => simp
  | cons x t ih => simp only [List.map_cons, List.sum_cons, ih]; ring

theorem sum_map_mul_left_rat (c : Rat) (f : Nat → Rat) (L : List Nat) :
    (L.map fun a => c * f a).sum = c * (L.map f).sum := by
  induction L with
  | nil => simp
  | cons x t ih => simp only [List.map_cons, List.sum_cons, ih]; ring

/-- double sums distribute over `+` -/
theorem dsum_add (f g : Nat → Nat → Rat) (L M : List Nat) :
    (L.map fun a => (M.map fun b => f a b + g a b).sum).sum
      = (L.map fun a => (M.map fun b => f a b).sum).sum
        + (L.map fun a => (M.map fun b => g a b).sum).sum := by
  rw [← sum_map_add_rat]
  congr 1
  apply List.map_congr_left
  intro a _
  exact sum_map_add_rat _ _ M

theorem dsum_sub (f g : Nat → Nat → Rat) (L M : List Nat) :
    (L.map fun a => (M.map fun b => f a b - g a b).sum).sum
      = (L.map fun a => (M.map fun b => f a b).sum).sum
        - (L.map fun a => (M.map fun b => g a b).sum).sum := by
  rw [← sum_map_sub_rat]
  congr 1
  apply List.map_congr_left
  intro a _
  exact sum_map_sub_rat _ _ M

theorem dsum_mul_left (c : Rat) (f : Nat → Nat → Rat) (L M : List Nat) :
    (L.map fun a => (M.map fun b => c * f a b).sum).sum
      = c * (L.map fun a => (M.map fun b => f a b).sum).sum := by
  rw [← sum_map_mul_left_rat]
  congr 1
  apply List.map_congr_left
  intro a _
  exact sum_map_mul_left_rat _ _ M

theorem dsum_congr (f g : Nat → Nat → Rat) (L M : List Nat) (h : ∀ a b, f a b = g a b) :
    (L.map fun a => (M.map fun b => f a b).sum).sum
      = (L.map fun a => (M.map fun b => g a b).sum).sum := by
  simp only [h]

theorem sum_nonneg_rat (l : List Rat) (h : ∀ x ∈ l, 0 ≤ x) : 0 ≤ l.sum := List.sum_nonneg h

theorem finiteOf_mem (r : List (Option Rat)) (d : Rat) : d ∈ finiteOf r ↔ some d ∈ r := by
  simp [finiteOf]

/-- wrapped accumulation is exact while the partial sums stay inside the type -/
theorem foldl_wrap_exact (m : Int) : ∀ (l : List Int) (acc : Int), 0 ≤ acc → (∀ x ∈ l, 0 ≤ x) →
    acc + l.sum < m →
    l.foldl (fun acc x => wrap m (acc + x)) acc = acc + l.sum := by
  intro l
  induction l with
  | nil => intro acc _ _ _; simp
  | cons x t ih =>
    intro acc h0 hx hs
    simp only [List.foldl_cons, List.sum_cons] at hs ⊢
    have hx0 : 0 ≤ x := hx x (by simp)
    have ht : 0 ≤ t.sum := List.sum_nonneg fun y hy => hx y (by simp [hy])
    have hw : wrap m (acc + x) = acc + x := by
      unfold wrap
      have h1 : 0 ≤ acc + x + m := by omega
      have h2 : acc + x + m < 2 * m := by omega
      rw [Int.emod_eq_of_lt h1 h2]
      omega
    rw [hw, ih (acc + x) (by omega) (fun y hy => hx y (by simp [hy])) (by omega)]
    omega

/-! walks of an undirected network can be reversed: the BFS distances are symmetric -/
section
open Pyunicorn.Net

theorem walk_cons {n : Nat} {a : Adj} {v w : Nat} (hv : v < n) (ha : a v w = true) :
    ∀ {u k : Nat}, Walk n a w u k → Walk n a v u (k + 1) := by
  intro u k h
  induction h with
  | nil => exact Walk.snoc (Walk.nil v) hv ha
  | snoc _ hx hax ih => exact Walk.snoc ih hx hax

theorem walk_reverse {n : Nat} {a : Adj} (hs : ∀ x y, a x y = a y x) :
    ∀ {u v k : Nat}, Walk n a u v k → v < n → Walk n a v u k := by
  intro u v k h
  induction h with
  | nil => intro _; exact Walk.nil _
  | snoc _ hw ha ih =>
    intro hv
    exact walk_cons hv (by rw [hs]; exact ha) (ih hw)

/-- on an undirected network the BFS distances are symmetric -/
theorem dist_symm (n : Nat) (a : Adj) (hs : ∀ x y, a x y = a y x) (i j : Nat)
    (hi : i < n) (hj : j < n) : dist n a i j = dist n a j i := by
  apply Option.ext
  intro k
  rw [DistL.dist_some_iff n a i j k hi hj, DistL.dist_some_iff n a j i k hj hi]
  constructor
  · rintro ⟨w, hmin⟩
    exact ⟨walk_reverse hs w hj, fun m hm w' => hmin m hm (walk_reverse hs w' hi)⟩
  · rintro ⟨w, hmin⟩
    exact ⟨walk_reverse hs w hi, fun m hm w' => hmin m hm (walk_reverse hs w' hj)⟩

end

end Pyunicorn.Cross
