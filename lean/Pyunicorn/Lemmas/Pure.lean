import Pyunicorn.Model.Pure
namespace Pyunicorn.Pure

theorem lookup_clean (m : Nat) (c : List (Nat × Bool)) (h : ∀ p ∈ c, p.2 = false) (d : Bool)
    (hl : lookup m c = some d) : d = false := by
  induction c with
  | nil => simp [lookup] at hl
  | cons p t ih =>
    obtain ⟨k, b⟩ := p
    by_cases hk : k = m
    · simp [lookup, hk] at hl
      have := h (k, b) (by simp)
      simp at this; rw [← hl]; exact this
    · simp only [lookup, hk, if_false] at hl
      exact ih (fun p hp => h p (by simp [hp])) hl

/-- with a clean table a query keeps a clean state clean and returns a clean value -/
theorem query_clean (tbl : List Method) (htbl : tableClean tbl = true) (fuel : Nat) (s : State)
    (hs : s.clean) (mi : Nat) : (query tbl fuel s mi).1.clean ∧ (query tbl fuel s mi).2 = false := by
  induction fuel generalizing s mi with
  | zero => exact ⟨hs, rfl⟩
  | succ fuel ih =>
    simp only [query]
    cases hl : lookup mi s.cache with
    | some d => exact ⟨hs, lookup_clean mi s.cache hs.2.2 d hl⟩
    | none =>
      cases hm : tbl[mi]? with
      | none => exact ⟨hs, rfl⟩
      | some m =>
        simp only
        have hedits : m.edits = [] := by
          have hmem : m ∈ tbl := List.mem_of_getElem? hm
          simp only [tableClean, List.all_eq_true] at htbl
          simpa using htbl m hmem
        -- the fold over the sub-queries keeps everything clean
        have hfold : ∀ (cs : List Nat) (acc : State × Bool), acc.1.clean → acc.2 = false →
            ((cs.foldl (fun (acc : State × Bool) c =>
              let q := query tbl fuel acc.1 c; (q.1, acc.2 || q.2)) acc).1.clean ∧
             (cs.foldl (fun (acc : State × Bool) c =>
              let q := query tbl fuel acc.1 c; (q.1, acc.2 || q.2)) acc).2 = false) := by
          intro cs
          induction cs with
          | nil => intro acc h1 h2; exact ⟨h1, h2⟩
          | cons c t iht =>
            intro acc h1 h2
            simp only [List.foldl_cons]
            obtain ⟨q1, q2⟩ := ih acc.1 h1 c
            exact iht _ q1 (by simp [h2, q2])
        obtain ⟨f1, f2⟩ := hfold m.calls (s, false) hs rfl
        rw [hedits]
        simp only [List.foldl_nil]
        have hdf : (m.calls.foldl (fun (acc : State × Bool) c =>
              let q := query tbl fuel acc.1 c; (q.1, acc.2 || q.2)) (s, false)).1.dirtyFields = [] :=
          f1.1
        refine ⟨⟨hdf, f1.2.1, ?_⟩, ?_⟩
        · intro p hp
          simp only [List.mem_cons] at hp
          rcases hp with rfl | hp
          · simp [f2, hdf]
          · exact f1.2.2 p hp
        · simp [f2, hdf]

/-! ### frame lemmas for kernel calls and field edits (round 3) -/

theorem applyCall_frame {α : Type} (bs : List (Bind α)) (h : List α) (l : Nat)
    (hl : ∀ b ∈ bs, b.written = true → b.loc ≠ l) : (applyCall h bs)[l]? = h[l]? := by
  unfold applyCall
  induction bs generalizing h with
  | nil => rfl
  | cons b t ih =>
    simp only [List.foldl_cons]
    rw [ih _ (fun b' hb' => hl b' (List.mem_cons_of_mem _ hb'))]
    by_cases hw : b.written = true
    · have := hl b (List.mem_cons_self) hw
      simp [hw, List.getElem?_set_ne this]
    · simp [hw]

theorem applyCall_length {α : Type} (bs : List (Bind α)) (h : List α) :
    (applyCall h bs).length = h.length := by
  unfold applyCall
  induction bs generalizing h with
  | nil => rfl
  | cons b t ih =>
    simp only [List.foldl_cons]
    rw [ih]
    split <;> simp

theorem take_eq_of_getElem? {α : Type} (a b : List α) (n : Nat)
    (h : ∀ l, l < n → a[l]? = b[l]?) : a.take n = b.take n := by
  apply List.ext_getElem?
  intro i
  by_cases hi : i < n
  · simp [hi, h i hi]
  · simp [List.getElem?_take, hi]

/-- a clean call site stores only into positively fresh objects -/
theorem callBinds_written_fresh {α : Type} (ks : List (String × List KParam)) (c : KCall)
    (hc : c.args.all (argClean ks c.kernel) = true) (env : KArg → Nat) (out : KArg → α)
    (b : Bind α) (hb : b ∈ callBinds ks c env out) (hw : b.written = true) :
    ∃ a ∈ c.args, a.prov = .fresh ∧ b.loc = env a := by
  simp only [callBinds, List.mem_map] at hb
  obtain ⟨a, ha, rfl⟩ := hb
  refine ⟨a, ha, ?_, rfl⟩
  have h1 := List.all_eq_true.mp hc a ha
  simp only [argClean, Bool.or_eq_true, Bool.not_eq_true', decide_eq_true_eq] at h1
  rcases h1 with h1 | h1
  · simp only at hw; rw [h1] at hw; exact absurd hw (by decide)
  · exact h1

theorem editFields_frame {α : Type} (n : Nat) (aliases : List (String × Nat)) (own : String → Nat)
    (edits : List (String × α)) (h : List α) (l : Nat) (hl : l < n)
    (hed : ∀ e ∈ edits, aliases.lookup e.1 = none) :
    (editFields n aliases own h edits)[l]? = h[l]? := by
  unfold editFields
  induction edits generalizing h with
  | nil => rfl
  | cons e t ih =>
    simp only [List.foldl_cons]
    rw [ih _ (fun e' he' => hed e' (List.mem_cons_of_mem _ he'))]
    have hne : fieldLoc n aliases own e.1 ≠ l := by
      simp only [fieldLoc, hed e (List.mem_cons_self)]; omega
    exact List.getElem?_set_ne hne

theorem editFields_length {α : Type} (n : Nat) (aliases : List (String × Nat)) (own : String → Nat)
    (edits : List (String × α)) (h : List α) :
    (editFields n aliases own h edits).length = h.length := by
  unfold editFields
  induction edits generalizing h with
  | nil => rfl
  | cons e t ih => simp only [List.foldl_cons]; rw [ih]; simp

/-! ### link-attribute slots (round 4) -/

theorem slotGet_mem {s : String} {g : Nat} :
    ∀ {l : List (String × Nat)}, slotGet s l = some g → (s, g) ∈ l
  | [], h => by simp [slotGet] at h
  | (k, g') :: t, h => by
    by_cases hk : k = s
    · simp only [slotGet, hk, if_true, Option.some.injEq] at h
      subst hk; subst h; exact List.mem_cons_self
    · simp only [slotGet, hk, if_false] at h
      exact List.mem_cons_of_mem _ (slotGet_mem h)

theorem slotGet_isSome_of_mem {s : String} {g : Nat} :
    ∀ {l : List (String × Nat)}, (s, g) ∈ l → (slotGet s l).isSome = true
  | [], h => by simp at h
  | (k, g') :: t, h => by
    by_cases hk : k = s
    · simp [slotGet, hk]
    · simp only [slotGet, hk, if_false]
      rcases List.mem_cons.mp h with h | h
      · exact absurd (Prod.mk.inj h).1.symm hk
      · exact slotGet_isSome_of_mem h

theorem slotGet_cons_isSome (s k : String) (g : Nat) (l : List (String × Nat))
    (h : (slotGet s l).isSome = true) : (slotGet s ((k, g) :: l)).isSome = true := by
  by_cases hk : k = s <;> simp [slotGet, hk, h]

theorem slotGet_append_isSome (s : String) (a l : List (String × Nat))
    (h : (slotGet s l).isSome = true) : (slotGet s (a ++ l)).isSome = true := by
  induction a with
  | nil => simpa using h
  | cons p t ih => obtain ⟨k, g⟩ := p; exact slotGet_cons_isSome s k g _ ih

theorem slotGet_append_mem (s : String) (g : Nat) (a l : List (String × Nat))
    (h : slotGet s (a ++ l) = some g) : (s, g) ∈ a ∨ slotGet s l = some g := by
  induction a with
  | nil => exact Or.inr (by simpa using h)
  | cons p t ih =>
    obtain ⟨k, g'⟩ := p
    by_cases hk : k = s
    · simp only [List.cons_append, slotGet, hk, if_true, Option.some.injEq] at h
      subst hk; subst h; exact Or.inl List.mem_cons_self
    · simp only [List.cons_append, slotGet, hk, if_false] at h
      rcases ih h with h1 | h1
      · exact Or.inl (List.mem_cons_of_mem _ h1)
      · exact Or.inr h1

theorem slotGet_of_consistent {W : List (String × Nat)} (hc : slotsConsistent W = true)
    {s : String} {g : Nat} (h : (s, g) ∈ W) : slotGet s W = some g := by
  have h1 := slotGet_isSome_of_mem h
  obtain ⟨g', hg'⟩ := Option.isSome_iff_exists.mp h1
  have h2 := slotGet_mem hg'
  have h3 := List.all_eq_true.mp (List.all_eq_true.mp hc _ h2) _ h
  simp at h3
  rw [hg', h3]

theorem onces_eq_of_consistent {O : List (String × List (String × Nat))}
    (hc : oncesConsistent O = true) {k : String} {b b' : List (String × Nat)}
    (h : (k, b) ∈ O) (h' : (k, b') ∈ O) : b = b' := by
  have h3 := List.all_eq_true.mp (List.all_eq_true.mp hc _ h) _ h'
  simpa using h3

/-- invariant of an object's attribute store with respect to the writes `W` and the cached
stores `O` of its class table: every slot holds a content some method writes there, and a cached
method that has run has left its slots behind -/
def AInv (W : List (String × Nat)) (O : List (String × List (String × Nat))) (st : AState) : Prop :=
  (∀ s g, slotGet s st.slots = some g → (s, g) ∈ W) ∧
  (∀ k body, k ∈ st.done → (k, body) ∈ O → ∀ p ∈ body, (slotGet p.1 st.slots).isSome = true)

theorem AInv_init (W : List (String × Nat)) (O : List (String × List (String × Nat))) :
    AInv W O AState.init :=
  ⟨by intro s g h; simp [AState.init, slotGet] at h, by intro k b h; simp [AState.init] at h⟩

/-- what a list of steps observes when every slot holds its canonical content -/
def expectObs (W : List (String × Nat)) : List AStep → List (Option Nat)
  | [] => []
  | .use s :: t => slotGet s W :: expectObs W t
  | _ :: t => expectObs W t

theorem execSteps_ok (W : List (String × Nat)) (O : List (String × List (String × Nat)))
    (hW : slotsConsistent W = true) (hO : oncesConsistent O = true) :
    ∀ (steps : List AStep) (P : List String) (st : AState), AInv W O st →
      (∀ s ∈ P, (slotGet s st.slots).isSome = true) → covered P steps = true →
      (∀ a ∈ steps, ∀ p ∈ stepWrites a, p ∈ W) → (∀ a ∈ steps, ∀ o ∈ stepOnces a, o ∈ O) →
      AInv W O (execSteps st steps).1 ∧ (execSteps st steps).2 = expectObs W steps := by
  intro steps
  induction steps with
  | nil => intro P st hinv _ _ _ _; exact ⟨hinv, rfl⟩
  | cons a t ih =>
    intro P st hinv hP hcov hw ho
    have hwt : ∀ a ∈ t, ∀ p ∈ stepWrites a, p ∈ W := fun a ha => hw a (List.mem_cons_of_mem _ ha)
    have hot : ∀ a ∈ t, ∀ o ∈ stepOnces a, o ∈ O := fun a ha => ho a (List.mem_cons_of_mem _ ha)
    cases a with
    | ensure s g =>
      have hsg : (s, g) ∈ W := hw _ List.mem_cons_self _ (by simp [stepWrites])
      simp only [covered] at hcov
      simp only [execSteps, execStep, List.nil_append, expectObs]
      by_cases hp : (slotGet s st.slots).isSome = true
      · rw [if_pos hp]
        exact ih (s :: P) st hinv (by
          intro x hx; rcases List.mem_cons.mp hx with rfl | hx
          · exact hp
          · exact hP x hx) hcov hwt hot
      · rw [if_neg hp]
        refine ih (s :: P) _ ⟨?_, ?_⟩ ?_ hcov hwt hot
        · intro x gx hx
          by_cases hk : s = x
          · simp only [slotGet, hk, if_true, Option.some.injEq] at hx
            subst hk; subst hx; exact hsg
          · simp only [slotGet, hk, if_false] at hx; exact hinv.1 x gx hx
        · intro k body hk hb p hpb
          exact slotGet_cons_isSome _ _ _ _ (hinv.2 k body hk hb p hpb)
        · intro x hx; rcases List.mem_cons.mp hx with rfl | hx
          · simp [slotGet]
          · exact slotGet_cons_isSome _ _ _ _ (hP x hx)
    | store s g =>
      have hsg : (s, g) ∈ W := hw _ List.mem_cons_self _ (by simp [stepWrites])
      simp only [covered] at hcov
      simp only [execSteps, execStep, List.nil_append, expectObs]
      refine ih (s :: P) _ ⟨?_, ?_⟩ ?_ hcov hwt hot
      · intro x gx hx
        by_cases hk : s = x
        · simp only [slotGet, hk, if_true, Option.some.injEq] at hx
          subst hk; subst hx; exact hsg
        · simp only [slotGet, hk, if_false] at hx; exact hinv.1 x gx hx
      · intro k body hk hb p hpb
        exact slotGet_cons_isSome _ _ _ _ (hinv.2 k body hk hb p hpb)
      · intro x hx; rcases List.mem_cons.mp hx with rfl | hx
        · simp [slotGet]
        · exact slotGet_cons_isSome _ _ _ _ (hP x hx)
    | use s =>
      simp only [covered, Bool.and_eq_true] at hcov
      have hs : s ∈ P := by simpa using hcov.1
      obtain ⟨g, hg⟩ := Option.isSome_iff_exists.mp (hP s hs)
      have hcanon : slotGet s W = some g := slotGet_of_consistent hW (hinv.1 s g hg)
      obtain ⟨i1, i2⟩ := ih P st hinv hP hcov.2 hwt hot
      simp only [execSteps, execStep, expectObs]
      exact ⟨i1, by rw [i2, hg, hcanon]; rfl⟩
    | once k body =>
      have hkb : (k, body) ∈ O := ho _ List.mem_cons_self _ (by simp [stepOnces])
      have hbw : ∀ p ∈ body, p ∈ W := fun p hp => hw _ List.mem_cons_self p (by simpa [stepWrites] using hp)
      simp only [covered] at hcov
      simp only [execSteps, execStep, expectObs]
      by_cases hd : st.done.contains k = true
      · rw [if_pos hd]
        simp only [List.nil_append]
        refine ih (body.map (·.1) ++ P) st hinv ?_ hcov hwt hot
        intro x hx
        rcases List.mem_append.mp hx with hx | hx
        · obtain ⟨p, hp, rfl⟩ := List.mem_map.mp hx
          exact hinv.2 k body (by simpa using hd) hkb p hp
        · exact hP x hx
      · rw [if_neg hd]
        simp only [List.nil_append]
        refine ih (body.map (·.1) ++ P) _ ⟨?_, ?_⟩ ?_ hcov hwt hot
        · intro x gx hx
          rcases slotGet_append_mem x gx _ _ hx with h1 | h1
          · exact hbw _ (by simpa using h1)
          · exact hinv.1 x gx h1
        · intro k' body' hk' hb' p hpb
          rcases List.mem_cons.mp hk' with rfl | hk'
          · have : body' = body := onces_eq_of_consistent hO hb' hkb
            subst this
            have : (p.1, p.2) ∈ body'.reverse ++ st.slots :=
              List.mem_append_left _ (by simpa using hpb)
            exact slotGet_isSome_of_mem this
          · exact slotGet_append_isSome _ _ _ (hinv.2 k' body' hk' hb' p hpb)
        · intro x hx
          rcases List.mem_append.mp hx with hx | hx
          · obtain ⟨p, hp, rfl⟩ := List.mem_map.mp hx
            have : (p.1, p.2) ∈ body.reverse ++ st.slots :=
              List.mem_append_left _ (by simpa using hp)
            exact slotGet_isSome_of_mem this
          · exact slotGet_append_isSome _ _ _ (hP x hx)
    | other w => simp [covered] at hcov

theorem findSteps_mem {q : String} {steps : List AStep} :
    ∀ {tbl : List (String × List AStep)}, findSteps q tbl = some steps → (q, steps) ∈ tbl
  | [], h => by simp [findSteps] at h
  | (n, st) :: t, h => by
    by_cases hk : n = q
    · simp only [findSteps, hk, if_true, Option.some.injEq] at h
      subst hk; subst h; exact List.mem_cons_self
    · simp only [findSteps, hk, if_false] at h
      exact List.mem_cons_of_mem _ (findSteps_mem h)

theorem mem_writesOf {tbl : List (String × List AStep)} {m : String × List AStep} (hm : m ∈ tbl)
    {a : AStep} (ha : a ∈ m.2) {p : String × Nat} (hp : p ∈ stepWrites a) : p ∈ writesOf tbl :=
  List.mem_flatMap.mpr ⟨m, hm, List.mem_flatMap.mpr ⟨a, ha, hp⟩⟩

theorem mem_oncesOf {tbl : List (String × List AStep)} {m : String × List AStep} (hm : m ∈ tbl)
    {a : AStep} (ha : a ∈ m.2) {o : String × List (String × Nat)} (ho : o ∈ stepOnces a) :
    o ∈ oncesOf tbl :=
  List.mem_flatMap.mpr ⟨m, hm, List.mem_flatMap.mpr ⟨a, ha, ho⟩⟩

theorem execSteps_reads (st : AState) (steps : List AStep) (h : steps.all isRead = true) :
    (execSteps st steps).1 = st := by
  induction steps with
  | nil => rfl
  | cons a t ih =>
    simp only [List.all_cons, Bool.and_eq_true] at h
    cases a with
    | use s => simp only [execSteps, execStep]; exact ih h.2
    | other w => simp only [execSteps, execStep]; exact ih h.2
    | ensure s g => simp [isRead] at h
    | store s g => simp [isRead] at h
    | once k b => simp [isRead] at h

theorem findSteps_linkless (q : String) (tbl : List (String × List AStep)) :
    findSteps q (linkless tbl) = (findSteps q tbl).map (fun s => s.filter isRead) := by
  induction tbl with
  | nil => rfl
  | cons m t ih =>
    obtain ⟨n, st⟩ := m
    by_cases hk : n = q
    · simp [linkless, findSteps, hk]
    · simp only [linkless, List.map_cons, findSteps, hk, if_false] at ih ⊢
      exact ih

end Pyunicorn.Pure
