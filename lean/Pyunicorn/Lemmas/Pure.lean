import Pyunicorn.Model.Pure
namespace Pyunicorn.Pure

theorem lookup_clean (m : Nat) (c : List (Nat × Bool)) (h : ∀ p ∈ c, p.2 = false) (d : Bool)
    (hl : lookup m c = some d) : d = false := by
  induction c with
  | nil => simp [lookup] at hl
  | cons p t ih =>
    obtain ⟨k, b⟩ := p
    by_cases hk : k = m
    · simp [lookup, hk] at hl
      have := h (k, b) (by simp)
      simp at this; rw [← hl]; exact this
    · simp only [lookup, hk, if_false] at hl
      exact ih (fun p hp => h p (by simp [hp])) hl

/-- with a clean table a query keeps a clean state clean and returns a clean value -/
theorem query_clean (tbl : List Method) (htbl : tableClean tbl = true) (fuel : Nat) (s : State)
    (hs : s.clean) (mi : Nat) : (query tbl fuel s mi).1.clean ∧ (query tbl fuel s mi).2 = false := by
  induction fuel generalizing s mi with
  | zero => exact ⟨hs, rfl⟩
  | succ fuel ih =>
    simp only [query]
    cases hl : lookup mi s.cache with
    | some d => exact ⟨hs, lookup_clean mi s.cache hs.2.2 d hl⟩
    | none =>
      cases hm : tbl[mi]? with
      | none => exact ⟨hs, rfl⟩
      | some m =>
        simp only
        have hedits : m.edits = [] := by
          have hmem : m ∈ tbl := List.mem_of_getElem? hm
          simp only [tableClean, List.all_eq_true] at htbl
          simpa using htbl m hmem
        -- the fold over the sub-queries keeps everything clean
        have hfold : ∀ (cs : List Nat) (acc : State × Bool), acc.1.clean → acc.2 = false →
            ((cs.foldl (fun (acc : State × Bool) c =>
              let q := query tbl fuel acc.1 c; (q.1, acc.2 || q.2)) acc).1.clean ∧
             (cs.foldl (fun (acc : State × Bool) c =>
              let q := query tbl fuel acc.1 c; (q.1, acc.2 || q.2)) acc).2 = false) := by
          intro cs
          induction cs with
          | nil => intro acc h1 h2; exact ⟨h1, h2⟩
          | cons c t iht =>
            intro acc h1 h2
            simp only [List.foldl_cons]
            obtain ⟨q1, q2⟩ := ih acc.1 h1 c
            exact iht _ q1 (by simp [h2, q2])
        obtain ⟨f1, f2⟩ := hfold m.calls (s, false) hs rfl
        rw [hedits]
        simp only [List.foldl_nil]
        have hdf : (m.calls.foldl (fun (acc : State × Bool) c =>
              let q := query tbl fuel acc.1 c; (q.1, acc.2 || q.2)) (s, false)).1.dirtyFields = [] :=
          f1.1
        refine ⟨⟨hdf, f1.2.1, ?_⟩, ?_⟩
        · intro p hp
          simp only [List.mem_cons] at hp
          rcases hp with rfl | hp
          · simp [f2, hdf]
          · exact f1.2.2 p hp
        · simp [f2, hdf]

/-! ### frame lemmas for kernel calls and field edits (round 3) -/

theorem applyCall_frame {α : Type} (bs : List (Bind α)) (h : List α) (l : Nat)
    (hl : ∀ b ∈ bs, b.written = true → b.loc ≠ l) : (applyCall h bs)[l]? = h[l]? := by
  unfold applyCall
  induction bs generalizing h with
  | nil => rfl
  | cons b t ih =>
    simp only [List.foldl_cons]
    rw [ih _ (fun b' hb' => hl b' (List.mem_cons_of_mem _ hb'))]
    by_cases hw : b.written = true
    · have := hl b (List.mem_cons_self) hw
      simp [hw, List.getElem?_set_ne this]
    · simp [hw]

theorem applyCall_length {α : Type} (bs : List (Bind α)) (h : List α) :
    (applyCall h bs).length = h.length := by
  unfold applyCall
  induction bs generalizing h with
  | nil => rfl
  | cons b t ih =>
    simp only [List.foldl_cons]
    rw [ih]
    split <;> simp

theorem take_eq_of_getElem? {α : Type} (a b : List α) (n : Nat)
    (h : ∀ l, l < n → a[l]? = b[l]?) : a.take n = b.take n := by
  apply List.ext_getElem?
  intro i
  by_cases hi : i < n
  · simp [hi, h i hi]
  · simp [List.getElem?_take, hi]

/-- a clean call site stores only into positively fresh objects -/
theorem callBinds_written_fresh {α : Type} (ks : List (String × List KParam)) (c : KCall)
    (hc : c.args.all (argClean ks c.kernel) = true) (env : KArg → Nat) (out : KArg → α)
    (b : Bind α) (hb : b ∈ callBinds ks c env out) (hw : b.written = true) :
    ∃ a ∈ c.args, a.prov = .fresh ∧ b.loc = env a := by
  simp only [callBinds, List.mem_map] at hb
  obtain ⟨a, ha, rfl⟩ := hb
  refine ⟨a, ha, ?_, rfl⟩
  have h1 := List.all_eq_true.mp hc a ha
  simp only [argClean, Bool.or_eq_true, Bool.not_eq_true', decide_eq_true_eq] at h1
  rcases h1 with h1 | h1
  · simp only at hw; rw [h1] at hw; exact absurd hw (by decide)
  · exact h1

theorem editFields_frame {α : Type} (n : Nat) (aliases : List (String × Nat)) (own : String → Nat)
    (edits : List (String × α)) (h : List α) (l : Nat) (hl : l < n)
    (hed : ∀ e ∈ edits, aliases.lookup e.1 = none) :
    (editFields n aliases own h edits)[l]? = h[l]? := by
  unfold editFields
  induction edits generalizing h with
  | nil => rfl
  | cons e t ih =>
    simp only [List.foldl_cons]
    rw [ih _ (fun e' he' => hed e' (List.mem_cons_of_mem _ he'))]
    have hne : fieldLoc n aliases own e.1 ≠ l := by
      simp only [fieldLoc, hed e (List.mem_cons_self)]; omega
    exact List.getElem?_set_ne hne

theorem editFields_length {α : Type} (n : Nat) (aliases : List (String × Nat)) (own : String → Nat)
    (edits : List (String × α)) (h : List α) :
    (editFields n aliases own h edits).length = h.length := by
  unfold editFields
  induction edits generalizing h with
  | nil => rfl
  | cons e t ih => simp only [List.foldl_cons]; rw [ih]; simp

end Pyunicorn.Pure
