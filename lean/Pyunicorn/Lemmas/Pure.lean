import Pyunicorn.Model.Pure
namespace Pyunicorn.Pure

theorem lookup_clean (m : Nat) (c : List (Nat × Bool)) (h : ∀ p ∈ c, p.2 = false) (d : Bool)
    (hl : lookup m c = some d) : d = false := by
  induction c with
  | nil => simp [lookup] at hl
  | cons p t ih =>
    obtain ⟨k, b⟩ := p
    by_cases hk : k = m
    · simp [lookup, hk] at hl
      have := h (k, b) (by simp)
      simp at this; rw [← hl]; exact this
    · simp only [lookup, hk, if_false] at hl
      exact ih (fun p hp => h p (by simp [hp])) hl

/-- with a clean table a query keeps a clean state clean and returns a clean value -/
theorem query_clean (tbl : List Method) (htbl : tableClean tbl = true) (fuel : Nat) (s : State)
    (hs : s.clean) (mi : Nat) : (query tbl fuel s mi).1.clean ∧ (query tbl fuel s mi).2 = false := by
  induction fuel generalizing s mi with
  | zero => exact ⟨hs, rfl⟩
  | succ fuel ih =>
    simp only [query]
    cases hl : lookup mi s.cache with
    | some d => exact ⟨hs, lookup_clean mi s.cache hs.2.2 d hl⟩
    | none =>
      cases hm : tbl[mi]? with
      | none => exact ⟨hs, rfl⟩
      | some m =>
        simp only
        have hedits : m.edits = [] := by
          have hmem : m ∈ tbl := List.mem_of_getElem? hm
          simp only [tableClean, List.all_eq_true] at htbl
          simpa using htbl m hmem
        -- the fold over the sub-queries keeps everything clean
        have hfold : ∀ (cs : List Nat) (acc : State × Bool), acc.1.clean → acc.2 = false →
            ((cs.foldl (fun (acc : State × Bool) c =>
              let q := query tbl fuel acc.1 c; (q.1, acc.2 || q.2)) acc).1.clean ∧
             (cs.foldl (fun (acc : State × Bool) c =>
              let q := query tbl fuel acc.1 c; (q.1, acc.2 || q.2)) acc).2 = false) := by
          intro cs
          induction cs with
          | nil => intro acc h1 h2; exact ⟨h1, h2⟩
          | cons c t iht =>
            intro acc h1 h2
            simp only [List.foldl_cons]
            obtain ⟨q1, q2⟩ := ih acc.1 h1 c
            exact iht _ q1 (by simp [h2, q2])
        obtain ⟨f1, f2⟩ := hfold m.calls (s, false) hs rfl
        rw [hedits]
        simp only [List.foldl_nil]
        have hdf : (m.calls.foldl (fun (acc : State × Bool) c =>
              let q := query tbl fuel acc.1 c; (q.1, acc.2 || q.2)) (s, false)).1.dirtyFields = [] :=
          f1.1
        refine ⟨⟨hdf, f1.2.1, ?_⟩, ?_⟩
        · intro p hp
          simp only [List.mem_cons] at hp
          rcases hp with rfl | hp
          · simp [f2, hdf]
          · exact f1.2.2 p hp
        · simp [f2, hdf]

end Pyunicorn.Pure
