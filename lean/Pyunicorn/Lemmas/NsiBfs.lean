import Pyunicorn.Lemmas.NsiBetw
import Mathlib.Data.Finset.Card
/-!
`bfsDist` (the breadth-first distances the model computes itself, `Model/NsiBetw.lean`) *is*
the shortest-path length: `IsDist G a b (bfsDist G a b)` for all nodes `a`, `b`.

The search runs over walk lengths `0 … n`.  That this range is enough is the pigeonhole bound
"a shortest walk has fewer than `n` links": along a walk of minimal length `d` from `a` to `b`
there is, for every `j ≤ d`, a node whose minimal distance to `b` is exactly `j`
(`minWalk_layers`); minimal distances are unique, so these `d + 1` nodes are distinct nodes
`< n`.
-/
namespace Pyunicorn.Nsi

/-- `d` is the minimal length of a walk from `a` to `b` -/
def MinWalk (G : Gr) (a b d : Nat) : Prop := Walk G a b d ∧ ∀ k, Walk G a b k → d ≤ k

theorem minWalk_unique {G : Gr} {a b d e : Nat} (h1 : MinWalk G a b d) (h2 : MinWalk G a b e) :
    d = e :=
  Nat.le_antisymm (h1.2 e h2.1) (h2.2 d h1.1)

/-- the second node of a walk of minimal length `d + 1` is at minimal distance `d` -/
theorem minWalk_step {G : Gr} {a b d : Nat} (h : MinWalk G a b (d + 1)) :
    ∃ c, G.adj a c = true ∧ MinWalk G c b d := by
  obtain ⟨w, hmin⟩ := h
  cases w with
  | cons _ c _ _ ha hac w' =>
    refine ⟨c, hac, w', ?_⟩
    intro k wk
    have := hmin (k + 1) (Walk.cons a c b k ha hac wk)
    omega

/-- along a walk of minimal length `d` every distance `j ≤ d` to the end point is realised -/
theorem minWalk_layers {G : Gr} {b : Nat} : ∀ (d a : Nat), MinWalk G a b d →
    ∀ j, j ≤ d → ∃ x, x < G.n ∧ MinWalk G x b j := by
  intro d
  induction d with
  | zero =>
    intro a h j hj
    have : j = 0 := by omega
    subst this
    exact ⟨a, h.1.start_lt, h⟩
  | succ d ih =>
    intro a h j hj
    by_cases hjd : j = d + 1
    · subst hjd; exact ⟨a, h.1.start_lt, h⟩
    · obtain ⟨c, _, hc⟩ := minWalk_step h
      exact ih c hc j (by omega)

/-- **pigeonhole bound**: a walk of minimal length has fewer than `n` links -/
theorem minWalk_lt_n {G : Gr} {a b d : Nat} (h : MinWalk G a b d) : d < G.n := by
  classical
  have hl := minWalk_layers d a h
  -- choose a node for every layer
  let f : Nat → Nat := fun j => if hj : j ≤ d then (hl j hj).choose else 0
  have hf : ∀ j, j ≤ d → f j < G.n ∧ MinWalk G (f j) b j := by
    intro j hj
    simp only [f, hj, dif_pos]
    exact (hl j hj).choose_spec
  have hcard : (Finset.range (d + 1)).card ≤ (Finset.range G.n).card := by
    apply Finset.card_le_card_of_injOn f
    · intro j hj
      have hj' : j ≤ d := by
        have := Finset.mem_range.mp (Finset.mem_coe.mp hj); omega
      exact Finset.mem_coe.mpr (Finset.mem_range.mpr (hf j hj').1)
    · intro i hi j hj hij
      have hi' : i ≤ d := by
        have := Finset.mem_range.mp (Finset.mem_coe.mp hi); omega
      have hj' : j ≤ d := by
        have := Finset.mem_range.mp (Finset.mem_coe.mp hj); omega
      have h1 := (hf i hi').2
      have h2 := (hf j hj').2
      rw [hij] at h1
      exact minWalk_unique h1 h2
  simp only [Finset.card_range] at hcard
  omega

/-- every walk can be replaced by one of minimal length -/
theorem exists_minWalk {G : Gr} {a b k : Nat} (w : Walk G a b k) : ∃ d, d ≤ k ∧ MinWalk G a b d := by
  classical
  have hex : ∃ d, Walk G a b d := ⟨k, w⟩
  refine ⟨Nat.find hex, Nat.find_min' hex w, Nat.find_spec hex, ?_⟩
  intro j wj
  exact Nat.find_min' hex wj

/-- if two nodes are connected at all, they are connected by a walk with fewer than `n` links -/
theorem walk_short {G : Gr} {a b k : Nat} (w : Walk G a b k) : ∃ d, d < G.n ∧ d ≤ k ∧ Walk G a b d := by
  obtain ⟨d, hdk, hm⟩ := exists_minWalk w
  exact ⟨d, minWalk_lt_n hm, hdk, hm.1⟩

/-- **the model's breadth-first distance is the shortest-path length** -/
theorem bfsDist_isDist (G : Gr) (a b : Nat) (ha : a < G.n) : IsDist G a b (bfsDist G a b) := by
  unfold bfsDist
  cases hfind : (List.range (G.n + 1)).find? (fun k => (toSet G b k).getD a false) with
  | none =>
    intro k w
    obtain ⟨d, hd, _, wd⟩ := walk_short w
    have hall := List.find?_eq_none.mp hfind d (List.mem_range.mpr (by omega))
    exact hall ((toSet_walk G b d a ha).mpr wd)
  | some d =>
    have hp := List.find?_some hfind
    have hwd : Walk G a b d := (toSet_walk G b d a ha).mp hp
    refine ⟨hwd, ?_⟩
    intro k wk
    by_contra hlt
    have hk : k < d := by omega
    -- `d` is the first hit: no earlier `k` satisfies the predicate
    obtain ⟨as, bs, has, hnot⟩ := List.find?_eq_some_iff_append.mp hfind |>.2
    have hlt' : as.length < G.n + 1 := by
      have := congrArg List.length has
      simp at this; omega
    have hdlen : as.length = d := by
      have h1 : (List.range (G.n + 1))[as.length]? = some d := by
        rw [has]; simp
      rw [List.getElem?_range hlt'] at h1
      exact Option.some.inj h1
    have hkas : k ∈ as := by
      have h1 : (List.range (G.n + 1))[k]? = some k :=
        List.getElem?_range (by omega)
      rw [has, List.getElem?_append_left (by omega)] at h1
      exact List.mem_of_getElem? h1
    have := hnot k hkas
    rw [(toSet_walk G b k a ha).mpr wk] at this
    simp at this

/-- shortest-path lengths are unique -/
theorem isDist_unique {G : Gr} {a b : Nat} {x y : Option Nat} (hx : IsDist G a b x)
    (hy : IsDist G a b y) : x = y := by
  cases x with
  | none =>
    cases y with
    | none => rfl
    | some e => exact absurd hy.1 (hx e)
  | some d =>
    cases y with
    | none => exact absurd hx.1 (hy d)
    | some e =>
      have : d = e := Nat.le_antisymm (hx.2 e hy.1) (hy.2 d hx.1)
      rw [this]

/-! ### the graph with its own breadth-first distances -/

theorem withBfs_dist (G : Gr) (a b : Nat) (ha : a < G.n) (hb : b < G.n) :
    (withBfs G).dist a b = bfsDist G a b := by
  simp [withBfs, bfsTable, List.getD_eq_getElem?_getD, ha, hb]

theorem withBfs_n (G : Gr) : (withBfs G).n = G.n := rfl
theorem withBfs_adj (G : Gr) : (withBfs G).adj = G.adj := rfl
theorem withBfs_w (G : Gr) : (withBfs G).w = G.w := rfl

/-- walks only depend on the node range and the links -/
theorem walk_congr {G H : Gr} (hn : G.n = H.n) (hadj : G.adj = H.adj) {a b k : Nat}
    (w : Walk G a b k) : Walk H a b k := by
  induction w with
  | nil a ha => exact Walk.nil a (hn ▸ ha)
  | cons a b c k ha hab _ ih => exact Walk.cons a b c k (hn ▸ ha) (hadj ▸ hab) ih

theorem isDist_congr {G H : Gr} (hn : G.n = H.n) (hadj : G.adj = H.adj) {a b : Nat}
    {x : Option Nat} (h : IsDist G a b x) : IsDist H a b x := by
  cases x with
  | none => exact fun k w => h k (walk_congr hn.symm hadj.symm w)
  | some d =>
    exact ⟨walk_congr hn hadj h.1, fun k w => h.2 k (walk_congr hn.symm hadj.symm w)⟩

/-- **the distances of `withBfs G` are the shortest-path lengths of `withBfs G`** -/
theorem withBfs_isDist (G : Gr) (a b : Nat) (ha : a < G.n) (hb : b < G.n) :
    IsDist (withBfs G) a b ((withBfs G).dist a b) := by
  rw [withBfs_dist G a b ha hb]
  exact isDist_congr (G := G) (H := withBfs G) rfl rfl (bfsDist_isDist G a b ha)

/-- the breadth-first search only reads the node range and the links -/
theorem toSet_congr {G H : Gr} (hn : G.n = H.n) (hadj : G.adj = H.adj) (b k : Nat) :
    toSet G b k = toSet H b k := by
  induction k with
  | zero => simp [toSet, hn]
  | succ k ih => simp only [toSet, hn, hadj, ih]

theorem bfsDist_congr {G H : Gr} (hn : G.n = H.n) (hadj : G.adj = H.adj) (a b : Nat) :
    bfsDist G a b = bfsDist H a b := by
  unfold bfsDist
  rw [hn]
  congr 1
  funext k
  rw [toSet_congr hn hadj]

/-- **breadth-first search on the split graph** returns the pulled-back distances of the
original graph with twins at distance 1: what `split` installs *is* what the search finds -/
theorem bfsDist_split (G : Gr) (v : Nat) (p : Rat) (hv : v < G.n)
    (hloop : ∀ i, G.adj i i = false) (a b : Nat) (ha : a < G.n + 1) (hb : b < G.n + 1) :
    bfsDist (split G v p) a b = (split (withBfs G) v p).dist a b := by
  have h1 : IsDist (split G v p) a b (bfsDist (split G v p) a b) :=
    bfsDist_isDist (split G v p) a b ha
  have h2 : IsDist (split (withBfs G) v p) a b ((split (withBfs G) v p).dist a b) :=
    split_dist_isDist (withBfs G) v p hv hloop (fun x y hx hy => withBfs_isDist G x y hx hy)
      a b ha hb
  have h3 : IsDist (split G v p) a b ((split (withBfs G) v p).dist a b) :=
    isDist_congr (G := split (withBfs G) v p) (H := split G v p) rfl rfl h2
  exact isDist_unique h1 h3

/-- weighted walk counts only read the node range, the links and the weights -/
theorem wcount_congr {G H : Gr} (hn : G.n = H.n) (hadj : G.adj = H.adj) (hw : G.w = H.w)
    (k a b : Nat) : wcount G k a b = wcount H k a b := by
  induction k generalizing a with
  | zero => simp [wcount]
  | succ k ih =>
    simp only [wcount, hn, hadj, hw]
    congr 1
    apply List.map_congr_left
    intro c _
    rw [ih]

/-- the betweenness definition only reads `dist` inside the node range -/
theorem nsiBetw_congr {G H : Gr} (hn : G.n = H.n) (hadj : G.adj = H.adj) (hw : G.w = H.w)
    (hd : ∀ a b, a < G.n → b < G.n → G.dist a b = H.dist a b) (S T : Nat → Bool) (i : Nat)
    (hi : i < G.n) : nsiBetw G S T i = nsiBetw H S T i := by
  unfold nsiBetw
  rw [← hn, ← hw]
  congr 1
  apply List.map_congr_left
  intro s hs
  have hs' := List.mem_range.mp hs
  congr 2
  apply List.map_congr_left
  intro t ht
  have ht' := List.mem_range.mp ht
  congr 1
  by_cases hc : s ≠ i ∧ t ≠ i ∧ S s = true ∧ T t = true
  · simp only [hc, and_self, if_true]
    unfold bcTerm
    rw [hd s i hs' hi, hd i t hi ht', hd s t hs' ht', ← hw]
    simp only [wcount_congr hn hadj hw]
  · simp only [hc, if_false]

end Pyunicorn.Nsi
