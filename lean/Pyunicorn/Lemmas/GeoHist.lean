import Pyunicorn.Lemmas.Geo
import Pyunicorn.Model.GeoHist
/-! Helper lemmas for the round-3 part of C12: counting filters over `List.range`
(`natFloor`, `binOf`), `min` of a row, histogram counts. -/
namespace Pyunicorn.Geo
set_option linter.unusedSectionVars false
set_option linter.unusedSimpArgs false

/-- for a downward closed predicate the number of `k < b` satisfying it is the threshold:
`P k ↔ k < count` -/
theorem filter_range_spec (P : Nat → Prop) [DecidablePred P] (hP : ∀ k, P (k + 1) → P k) (b : Nat) :
    ∀ k < b, (P k ↔ k < ((List.range b).filter fun k => decide (P k)).length) := by
  have hdown : ∀ j, P j → ∀ i ≤ j, P i := by
    intro j hj i hij
    induction j with
    | zero => have : i = 0 := by omega
              subst this; exact hj
    | succ j ih =>
      rcases Nat.lt_or_ge i (j + 1) with h | h
      · exact ih (hP j hj) (by omega)
      · have : i = j + 1 := by omega
        subst this; exact hj
  induction b with
  | zero => intro k hk; omega
  | succ b ih =>
    intro k hk
    rw [List.range_succ, List.filter_append, List.length_append]
    have hle : ((List.range b).filter fun k => decide (P k)).length ≤ b := by
      have := List.length_filter_le (fun k => decide (P k)) (List.range b)
      simpa using this
    by_cases hb : P b
    · have hall : ((List.range b).filter fun k => decide (P k)).length = b := by
        rcases Nat.eq_zero_or_pos b with h0 | hpos
        · subst h0; simp
        · have := (ih (b - 1) (by omega)).1 (hdown b hb (b - 1) (by omega))
          omega
      simp only [List.filter_cons, hb, decide_true, if_true, List.filter_nil, List.length_singleton,
        hall]
      exact ⟨fun _ => by omega, fun _ => hdown b hb k (by omega)⟩
    · simp only [List.filter_cons, hb, decide_false, List.filter_nil, List.length_nil, Nat.add_zero]
      rcases Nat.lt_or_ge k b with h | h
      · simpa using ih k h
      · have : k = b := by omega
        subst this
        constructor
        · intro h'; exact absurd h' hb
        · intro h'; simp at h'; omega

section Ordered
variable {α : Type} [Field α] [LinearOrder α] [IsStrictOrderedRing α]

theorem natFloor_le (bound : Nat) (t : α) : natFloor bound t ≤ bound := by
  unfold natFloor
  have := List.length_filter_le (fun k => decide (((k + 1 : Nat) : α) ≤ t)) (List.range bound)
  simpa using this

/-- `natFloor` is the integer part: for `0 ≤ t < bound`, `natFloor bound t ≤ t < natFloor bound t + 1` -/
theorem natFloor_spec (bound : Nat) (t : α) (h0 : 0 ≤ t) (hb : t < (bound : α)) :
    ((natFloor bound t : Nat) : α) ≤ t ∧ t < ((natFloor bound t + 1 : Nat) : α) := by
  have hP : ∀ k : Nat, ((k + 1 + 1 : Nat) : α) ≤ t → ((k + 1 : Nat) : α) ≤ t := by
    intro k hk
    refine le_trans ?_ hk
    exact_mod_cast Nat.le_succ (k + 1)
  have key := filter_range_spec (fun k => ((k + 1 : Nat) : α) ≤ t) hP bound
  set m := natFloor bound t with hm
  have hmle : m ≤ bound := natFloor_le bound t
  have hm' : m = ((List.range bound).filter fun k => decide (((k + 1 : Nat) : α) ≤ t)).length := rfl
  constructor
  · rcases Nat.eq_zero_or_pos m with h | h
    · rw [h]; simpa using h0
    · have := (key (m - 1) (by omega)).2 (by rw [← hm']; omega)
      have e : m - 1 + 1 = m := by omega
      rwa [e] at this
  · by_contra hcon
    have hle : ((m + 1 : Nat) : α) ≤ t := not_lt.1 hcon
    rcases Nat.lt_or_ge m bound with h | h
    · have := (key m h).1 hle
      rw [← hm'] at this; omega
    · have : m = bound := by omega
      rw [this] at hle
      have : ((bound : Nat) : α) ≤ ((bound + 1 : Nat) : α) := by exact_mod_cast Nat.le_succ bound
      linarith

/-- the symbol of `geographical_distribution` is a valid bin index: `hist[symbolic[i]]` never
leaves the histogram -/
theorem geoSymbol_lt (nb : Nat) (lo hi x : α) (hnb : 0 < nb) (hlh : lo < hi) (h1 : lo ≤ x)
    (h2 : x ≤ hi) : geoSymbol nb lo hi x < nb := by
  unfold geoSymbol
  set t := ((nb - 1 : Nat) : α) * (1 / (hi - lo)) * (x - lo) with ht
  have hpos : 0 < hi - lo := by linarith
  have hn0 : (0 : α) ≤ ((nb - 1 : Nat) : α) := Nat.cast_nonneg _
  have hfrac0 : 0 ≤ (1 / (hi - lo)) * (x - lo) := by
    apply mul_nonneg (by positivity) (by linarith)
  have hfrac1 : (1 / (hi - lo)) * (x - lo) ≤ 1 := by
    rw [one_div, inv_mul_le_iff₀ hpos]; linarith
  have ht0 : 0 ≤ t := by rw [ht, mul_assoc]; exact mul_nonneg hn0 hfrac0
  have ht1 : t ≤ ((nb - 1 : Nat) : α) := by
    rw [ht, mul_assoc]
    calc ((nb - 1 : Nat) : α) * (1 / (hi - lo) * (x - lo)) ≤ ((nb - 1 : Nat) : α) * 1 :=
          mul_le_mul_of_nonneg_left hfrac1 hn0
      _ = _ := mul_one _
  have hlt : t < (nb : α) := by
    have : ((nb - 1 : Nat) : α) < (nb : α) := by exact_mod_cast Nat.sub_lt hnb Nat.one_pos
    linarith
  have hs := natFloor_spec nb t ht0 hlt
  by_contra hcon
  have hge : nb ≤ natFloor nb t := not_lt.1 hcon
  have : (nb : α) ≤ ((natFloor nb t : Nat) : α) := by exact_mod_cast hge
  linarith [hs.1]

/-- … and it is the integer part of `(n_bins - 1) (x - min) / (max - min)` -/
theorem geoSymbol_spec (nb : Nat) (lo hi x : α) (hnb : 0 < nb) (hlh : lo < hi) (h1 : lo ≤ x)
    (h2 : x ≤ hi) :
    ((geoSymbol nb lo hi x : Nat) : α) ≤ ((nb - 1 : Nat) : α) * (1 / (hi - lo)) * (x - lo) ∧
      ((nb - 1 : Nat) : α) * (1 / (hi - lo)) * (x - lo) < ((geoSymbol nb lo hi x + 1 : Nat) : α) := by
  unfold geoSymbol
  have hpos : 0 < hi - lo := by linarith
  have hn0 : (0 : α) ≤ ((nb - 1 : Nat) : α) := Nat.cast_nonneg _
  have hfrac0 : 0 ≤ (1 / (hi - lo)) * (x - lo) := mul_nonneg (by positivity) (by linarith)
  have hfrac1 : (1 / (hi - lo)) * (x - lo) ≤ 1 := by
    rw [one_div, inv_mul_le_iff₀ hpos]; linarith
  apply natFloor_spec
  · rw [mul_assoc]; exact mul_nonneg hn0 hfrac0
  · have : ((nb - 1 : Nat) : α) < (nb : α) := by exact_mod_cast Nat.sub_lt hnb Nat.one_pos
    rw [mul_assoc]
    calc ((nb - 1 : Nat) : α) * (1 / (hi - lo) * (x - lo)) ≤ ((nb - 1 : Nat) : α) * 1 :=
          mul_le_mul_of_nonneg_left hfrac1 hn0
      _ < _ := by rw [mul_one]; exact this

/-! ### `min` of a row -/

theorem foldl_min_spec (xs : List α) (x : α) :
    (xs.foldl (fun m y => if y < m then y else m) x ∈ x :: xs) ∧
      ∀ y ∈ x :: xs, xs.foldl (fun m y => if y < m then y else m) x ≤ y := by
  induction xs generalizing x with
  | nil => simp
  | cons z zs ih =>
    simp only [List.foldl_cons]
    obtain ⟨h1, h2⟩ := ih (if z < x then z else x)
    constructor
    · rcases List.mem_cons.1 h1 with h | h
      · rw [h]; split_ifs <;> simp
      · exact List.mem_cons_of_mem _ (List.mem_cons_of_mem _ h)
    · intro y hy
      have hx : zs.foldl (fun m y => if y < m then y else m) (if z < x then z else x)
          ≤ (if z < x then z else x) := h2 _ List.mem_cons_self
      rcases List.mem_cons.1 hy with rfl | hy
      · refine le_trans hx ?_
        split_ifs with h
        · exact h.le
        · exact le_refl _
      · rcases List.mem_cons.1 hy with rfl | hy
        · refine le_trans hx ?_
          split_ifs with h
          · exact le_refl _
          · exact not_lt.1 h
        · exact h2 y (List.mem_cons_of_mem _ hy)

theorem minRow_spec (l : List α) (m : α) (h : minRow l = some m) : m ∈ l ∧ ∀ y ∈ l, m ≤ y := by
  match l, h with
  | x :: xs, h =>
    simp only [minRow, Option.some.injEq] at h
    subst h
    exact foldl_min_spec xs x

end Ordered

/-! ### histogram counts -/

theorem binOf_lt {α : Type} [LE α] [DecidableLE α] (nb : Nat) (edge : Nat → α) (v : α)
    (hnb : 0 < nb) : binOf nb edge v < nb := by
  unfold binOf
  have := List.length_filter_le (fun k => decide (edge (k + 1) ≤ v)) (List.range (nb - 1))
  simp only [List.length_range] at this
  omega

/-- every element of a list whose key is below `nb` is counted in exactly one bin -/
theorem sum_count_bins {β : Type} (key : β → Nat) (l : List β) (nb : Nat)
    (h : ∀ v ∈ l, key v < nb) :
    ∑ b ∈ Finset.range nb, (l.filter fun v => decide (key v = b)).length = l.length := by
  induction l with
  | nil => simp
  | cons x xs ih =>
    have hx := h x List.mem_cons_self
    have ih' := ih fun v hv => h v (List.mem_cons_of_mem _ hv)
    have : ∀ b, ((x :: xs).filter fun v => decide (key v = b)).length
        = (if key x = b then 1 else 0) + (xs.filter fun v => decide (key v = b)).length := by
      intro b
      by_cases hb : key x = b <;> simp [List.filter_cons, hb]; omega
    simp only [this, Finset.sum_add_distrib, ih', List.length_cons]
    rw [Finset.sum_ite_eq (Finset.range nb) (key x) (fun _ => 1)]
    simp [Finset.mem_range.2 hx]; omega

theorem sum_map_range {β : Type} [AddCommMonoid β] (f : Nat → β) (n : Nat) :
    ((List.range n).map f).sum = ∑ i ∈ Finset.range n, f i := by
  induction n with
  | zero => simp
  | succ n ih => simp [List.range_succ, Finset.sum_range_succ, ih]

end Pyunicorn.Geo
