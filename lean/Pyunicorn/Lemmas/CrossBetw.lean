import Pyunicorn.Model.CrossBetw
import Pyunicorn.Lemmas.NetBetwAsm
import Pyunicorn.Lemmas.CrossWhole
/-! Helper lemmas for C11 (round 4): the source mask built by `is_source[sources] = 1`, and the loop
over the targets of the kernel `_nsi_betweenness` (C03's model) as a sum over the target list. -/
namespace Pyunicorn.Cross
open Pyunicorn.NetBetw

theorem foldl_set_length (L : List Nat) : ∀ (acc : List Bool),
    (L.foldl (fun m s => m.set s true) acc).length = acc.length := by
  induction L with
  | nil => intro acc; rfl
  | cons s t ih => intro acc; simp [ih]

theorem foldl_set_get (L : List Nat) : ∀ (acc : List Bool) (v : Nat), v < acc.length →
    (L.foldl (fun m s => m.set s true) acc)[v]? = some (acc.getD v false || decide (v ∈ L)) := by
  induction L with
  | nil =>
    intro acc v hv
    simp [List.getD, hv]
  | cons s t ih =>
    intro acc v hv
    simp only [List.foldl_cons]
    rw [ih (acc.set s true) v (by simpa using hv)]
    congr 1
    by_cases h : s = v
    · subst h
      simp [List.getD, hv]
    · have h' : ¬ v = s := fun e => h e.symm
      simp [List.getD, List.getElem?_set_ne h, h']

theorem srcMask_length (n : Nat) (L : List Nat) : (srcMask n L).length = n := by
  simp [srcMask, foldl_set_length]

/-- `is_source[sources] = 1` leaves the membership mask of the source list: order and
repetitions of the list do not matter -/
theorem srcMask_eq (n : Nat) (L : List Nat) :
    srcMask n L = (List.range n).map fun v => decide (v ∈ L) := by
  apply List.ext_getElem?
  intro v
  by_cases hv : v < n
  · rw [srcMask, foldl_set_get L _ v (by simpa using hv)]
    simp [List.getD, hv]
  · have h1 : (srcMask n L)[v]? = none := by
      apply List.getElem?_eq_none
      rw [srcMask_length]; omega
    rw [h1]
    symm
    apply List.getElem?_eq_none
    simp; omega

theorem srcMask_perm (n : Nat) {L L' : List Nat} (h : L.Perm L') : srcMask n L = srcMask n L' := by
  rw [srcMask_eq, srcMask_eq]
  apply List.map_congr_left
  intro v _
  simp [h.mem_iff]

theorem srcMaskAll_eq (n : Nat) : srcMaskAll n = List.replicate n true := by
  rw [srcMaskAll, srcMask_eq]
  apply List.ext_getElem?
  intro v
  by_cases hv : v < n
  · simp [hv]
  · simp [hv]

theorem srcMask_getD (n : Nat) (L : List Nat) (v : Nat) (hv : v < n) :
    (srcMask n L).getD v false = decide (v ∈ L) := by
  rw [srcMask_eq]
  simp [List.getD, hv]

/-- entry `l` of the wrapper's result: the sum over the target list of the per-target sweep
results, divided by `w_l` -/
theorem nsiBetweenness_entry (n : Nat) (a : Net.Adj) (w : Nat → Rat) (isSrc : List Bool)
    (targets : List Nat) :
    nsiBetweenness n a w isSrc targets = (List.range n).map fun l =>
      (targets.map fun j => w j * sweepDiff n a w isSrc j l).sum / w l := by
  rw [nsiBetweenness_unfold]
  simp only []
  apply List.map_congr_left
  intro l hl
  have hl' : l < n := List.mem_range.mp hl
  rw [kernel_getD n _ _ w isSrc targets l hl']
  congr 2
  apply List.map_congr_left
  intro j _
  rw [target_getD n a w isSrc j l hl']

end Pyunicorn.Cross
