import Pyunicorn.Model.VisibilityBetw
import Pyunicorn.Lemmas.VisibilityExt
/-!
Round 3, lemmas for `Properties/C14.lean`, betweenness part: walk counts, shortest-path
counts and pair dependencies of the mirrored graph; symmetry in (source, target) on
symmetric matrices.
-/
namespace Pyunicorn.Visibility

theorem getD_map_range_nat (N : Nat) (g : Nat → Nat) (v : Nat) (hv : v < N) :
    ((List.range N).map g).getD v 0 = g v := by
  simp [List.getD, List.getElem?_map, List.getElem?_range hv]

theorem sum_range_mirror_nat (N : Nat) (f : Nat → Nat) :
    ((List.range N).map f).sum = ((List.range N).map fun u => f (N - 1 - u)).sum := by
  rw [map_range_rev, List.sum_reverse]

/-! ### mirrored graph -/

theorem walks_mirror (N : Nat) (A A' : List (List Bool)) (hm : Mirrored N A A') (a : Nat)
    (ha : a < N) : ∀ k v, v < N →
      (walks N A' a k).getD v 0 = (walks N A (N - 1 - a) k).getD (N - 1 - v) 0 := by
  intro k
  induction k with
  | zero =>
    intro v hv
    simp only [walks]
    rw [getD_map_range_nat N _ v hv, getD_map_range_nat N _ (N - 1 - v) (by omega)]
    simp only [beq_iff_eq]
    split <;> split <;> omega
  | succ k ih =>
    intro v hv
    simp only [walks]
    rw [getD_map_range_nat N _ v hv, getD_map_range_nat N _ (N - 1 - v) (by omega)]
    rw [sum_range_mirror_nat N (fun u => if Mat.at A u (N - 1 - v) = true
      then (walks N A (N - 1 - a) k).getD u 0 else 0)]
    congr 1
    apply List.map_congr_left
    intro u hu
    rw [List.mem_range] at hu
    rw [hm u v hu hv, ih u hu]

theorem sigma_mirror (N : Nat) (A A' : List (List Bool)) (hm : Mirrored N A A') (a v : Nat)
    (ha : a < N) (hv : v < N) : sigma N A' a v = sigma N A (N - 1 - a) (N - 1 - v) := by
  simp only [sigma]
  rw [pathLen_mirror N A A' hm a v ha hv]
  cases pathLen N A (N - 1 - a) (N - 1 - v) with
  | none => rfl
  | some d => exact walks_mirror N A A' hm a ha d v hv

theorem pairDep_mirror (N : Nat) (A A' : List (List Bool)) (hm : Mirrored N A A') (t s l : Nat)
    (ht : t < N) (hs : s < N) (hl : l < N) :
    pairDep N A' t s l = pairDep N A (N - 1 - t) (N - 1 - s) (N - 1 - l) := by
  simp only [pairDep]
  rw [pathLen_mirror N A A' hm t s ht hs, pathLen_mirror N A A' hm t l ht hl,
    pathLen_mirror N A A' hm l s hl hs, sigma_mirror N A A' hm t l ht hl,
    sigma_mirror N A A' hm l s hl hs, sigma_mirror N A A' hm t s ht hs]

theorem betwSpec_mirror (N : Nat) (A A' : List (List Bool)) (hm : Mirrored N A A')
    (src tgt : List Nat) (l : Nat) (hsrc : ∀ s ∈ src, s < N) (htgt : ∀ t ∈ tgt, t < N)
    (hl : l < N) :
    betwSpec N A' src tgt l
      = betwSpec N A (src.map fun s => N - 1 - s) (tgt.map fun t => N - 1 - t) (N - 1 - l) := by
  simp only [betwSpec, List.map_map]
  congr 1
  apply List.map_congr_left
  intro t ht
  have ht' := htgt t ht
  simp only [Function.comp]
  have e1 : (N - 1 - t = N - 1 - l) ↔ t = l := by omega
  simp only [e1]
  split
  · rfl
  · congr 1
    apply List.map_congr_left
    intro s hs
    have hs' := hsrc s hs
    have e2 : (N - 1 - s = N - 1 - l) ↔ s = l := by omega
    simp only [Function.comp, e2]
    split
    · rfl
    · exact pairDep_mirror N A A' hm t s l ht' hs' hl

theorem betwSpec_reverse (N : Nat) (A : List (List Bool)) (src tgt : List Nat) (l : Nat) :
    betwSpec N A src.reverse tgt.reverse l = betwSpec N A src tgt l := by
  simp only [betwSpec, List.map_reverse, List.sum_reverse]

theorem past_mirror (N a : Nat) (ha : a < N) :
    (pastIdx a).map (fun s => N - 1 - s) = (futureIdx N (N - 1 - a)).reverse := by
  simp only [pastIdx, futureIdx]
  apply List.ext_getElem
  · simp; omega
  · intro i h1 h2
    simp only [List.length_map, List.length_range] at h1
    simp only [List.getElem_map, List.getElem_range, List.getElem_reverse, List.getElem_range',
      List.length_range']
    omega

theorem future_mirror (N a : Nat) (ha : a < N) :
    (futureIdx N a).map (fun s => N - 1 - s) = (pastIdx (N - 1 - a)).reverse := by
  simp only [pastIdx, futureIdx]
  apply List.ext_getElem
  · simp; omega
  · intro i h1 h2
    simp only [List.length_map, List.length_range'] at h1
    simp only [List.getElem_map, List.getElem_range, List.getElem_reverse, List.getElem_range',
      List.length_range]
    omega

theorem past_lt (N a : Nat) (ha : a < N) : ∀ s ∈ pastIdx a, s < N := by
  intro s hs; simp only [pastIdx, List.mem_range] at hs; omega

theorem future_lt (N a : Nat) : ∀ s ∈ futureIdx N a, s < N := by
  intro s hs; simp only [futureIdx, List.mem_range'_1] at hs; omega

theorem retBetwSpec_mirror (N : Nat) (A A' : List (List Bool)) (hm : Mirrored N A A') (a : Nat)
    (ha : a < N) : retBetwSpec N A' a = advBetwSpec N A (N - 1 - a) := by
  simp only [retBetwSpec, advBetwSpec]
  rw [betwSpec_mirror N A A' hm _ _ a (past_lt N a ha) (past_lt N a ha) ha, past_mirror N a ha,
    betwSpec_reverse]

theorem advBetwSpec_mirror (N : Nat) (A A' : List (List Bool)) (hm : Mirrored N A A') (a : Nat)
    (ha : a < N) : advBetwSpec N A' a = retBetwSpec N A (N - 1 - a) := by
  simp only [retBetwSpec, advBetwSpec]
  rw [betwSpec_mirror N A A' hm _ _ a (future_lt N a) (future_lt N a) ha, future_mirror N a ha,
    betwSpec_reverse]

/-- sources and targets change roles -/
theorem transBetwSpec_mirror (N : Nat) (A A' : List (List Bool)) (hm : Mirrored N A A') (a : Nat)
    (ha : a < N) :
    transBetwSpec N A' a
      = betwSpec N A (futureIdx N (N - 1 - a)) (pastIdx (N - 1 - a)) (N - 1 - a) := by
  simp only [transBetwSpec]
  rw [betwSpec_mirror N A A' hm _ _ a (past_lt N a ha) (future_lt N a) ha, past_mirror N a ha,
    future_mirror N a ha, betwSpec_reverse]

/-! ### symmetric matrices: sources and targets can be exchanged -/

/-- `A[i, j] = A[j, i]` inside `0..N-1` -/
def SymM (N : Nat) (A : List (List Bool)) : Prop :=
  ∀ i j, i < N → j < N → Mat.at A i j = Mat.at A j i

theorem ReachLe.prepend {N : Nat} {A : List (List Bool)} {i u v k : Nat} (hi : i < N)
    (ha : Mat.at A i u = true) (h : ReachLe N A u v k) : ReachLe N A i v (k + 1) := by
  induction h with
  | here k hu => exact .step i u k (.here k hi) hu ha
  | step w v k _ hv hav ih => exact .step w v (k + 1) ih hv hav

theorem ReachLe.reverse {N : Nat} {A : List (List Bool)} (hs : SymM N A) {i v k : Nat}
    (h : ReachLe N A i v k) : ReachLe N A v i k := by
  induction h with
  | here k hi => exact .here k hi
  | step u v k hu hv ha ih =>
    have := hs u v hu.lt hv
    exact ReachLe.prepend hv (by rw [← this]; exact ha) ih

theorem pathLen_symm (N : Nat) (A : List (List Bool)) (hs : SymM N A) (i j : Nat) (hi : i < N)
    (hj : j < N) : pathLen N A i j = pathLen N A j i := by
  simp only [pathLen]
  congr 1
  funext k
  rw [Bool.eq_iff_iff, lvl_iff N A i hi k j hj, lvl_iff N A j hj k i hi]
  exact ⟨fun h => h.reverse hs, fun h => h.reverse hs⟩

/-- walk counts as a function (inside `0..N-1` the entries of `walks`) -/
def wf (N : Nat) (A : List (List Bool)) : Nat → Nat → Nat → Nat
  | 0, i, v => if v = i then 1 else 0
  | k + 1, i, v => ((List.range N).map fun u => if Mat.at A u v then wf N A k i u else 0).sum

theorem walks_eq_wf (N : Nat) (A : List (List Bool)) (i : Nat) : ∀ k v, v < N →
    (walks N A i k).getD v 0 = wf N A k i v := by
  intro k
  induction k with
  | zero =>
    intro v hv
    simp only [walks, wf]
    rw [getD_map_range_nat N _ v hv]
    simp
  | succ k ih =>
    intro v hv
    simp only [walks, wf]
    rw [getD_map_range_nat N _ v hv]
    congr 1
    apply List.map_congr_left
    intro u hu
    rw [List.mem_range] at hu
    rw [ih u hu]

theorem sum_swap {α : Type} [AddCommMonoid α] (l1 l2 : List Nat) (f : Nat → Nat → α) :
    (l1.map fun a => (l2.map fun b => f a b).sum).sum
      = (l2.map fun b => (l1.map fun a => f a b).sum).sum := by
  induction l1 with
  | nil => simp
  | cons a l ih =>
    simp only [List.map_cons, List.sum_cons, ih]
    rw [← List.sum_map_add]

theorem sum_ite_push {α : Type} [AddCommMonoid α] (l : List Nat) (c : Prop) [Decidable c]
    (g : Nat → α) :
    (if c then 0 else (l.map g).sum) = (l.map fun z => if c then 0 else g z).sum := by
  by_cases h : c <;> simp [h]

theorem sum_range_ite_eq (N i c : Nat) :
    ((List.range N).map fun u => if u = i then c else 0).sum = if i < N then c else 0 := by
  induction N with
  | zero => simp
  | succ n ih =>
    rw [List.range_succ, List.map_append, List.sum_append, ih]
    simp only [List.map_cons, List.map_nil, List.sum_cons, List.sum_nil, Nat.add_zero]
    split <;> split <;> split <;> omega

/-- first-step decomposition of the walk counts -/
theorem wf_succ_left (N : Nat) (A : List (List Bool)) : ∀ k i v, i < N → v < N →
    wf N A (k + 1) i v = ((List.range N).map fun z => if Mat.at A i z then wf N A k z v else 0).sum
  | 0, i, v, hi, hv => by
    simp only [wf]
    have e1 : ((List.range N).map fun u => if Mat.at A u v = true then (if u = i then 1 else 0) else 0)
        = (List.range N).map fun u => if u = i then (if Mat.at A i v = true then 1 else 0) else 0 := by
      apply List.map_congr_left
      intro u _
      by_cases h : u = i
      · subst h; simp
      · simp [h]
    have e2 : ((List.range N).map fun z => if Mat.at A i z = true then (if v = z then 1 else 0) else 0)
        = (List.range N).map fun z => if z = v then (if Mat.at A i v = true then 1 else 0) else 0 := by
      apply List.map_congr_left
      intro z _
      by_cases h : z = v
      · subst h; simp
      · have h' : ¬ v = z := fun e => h e.symm
        simp [h, h']
    rw [e1, e2, sum_range_ite_eq, sum_range_ite_eq]
    simp [hi, hv]
  | k + 1, i, v, hi, hv => by
    have e1 : wf N A (k + 2) i v
        = ((List.range N).map fun u => ((List.range N).map fun z =>
            if Mat.at A u v = true then (if Mat.at A i z = true then wf N A k z u else 0) else 0).sum).sum := by
      rw [wf]
      congr 1
      apply List.map_congr_left
      intro u hu
      rw [List.mem_range] at hu
      rw [wf_succ_left N A k i u hi hu]
      by_cases h : Mat.at A u v = true <;> simp [h]
    rw [e1, sum_swap]
    congr 1
    apply List.map_congr_left
    intro z _
    by_cases h : Mat.at A i z = true
    · simp only [h, if_true]
      rw [wf]
    · simp [h]

theorem wf_symm (N : Nat) (A : List (List Bool)) (hs : SymM N A) : ∀ k i v, i < N → v < N →
    wf N A k i v = wf N A k v i
  | 0, i, v, _, _ => by
    simp only [wf]
    by_cases h : v = i
    · subst h; rfl
    · have h' : ¬ i = v := fun e => h e.symm
      simp [h, h']
  | k + 1, i, v, hi, hv => by
    rw [wf_succ_left N A k v i hv hi, wf]
    congr 1
    apply List.map_congr_left
    intro u hu
    rw [List.mem_range] at hu
    rw [hs u v hu hv, wf_symm N A hs k i u hi hu]

theorem sigma_symm (N : Nat) (A : List (List Bool)) (hs : SymM N A) (i v : Nat) (hi : i < N)
    (hv : v < N) : sigma N A i v = sigma N A v i := by
  simp only [sigma]
  rw [pathLen_symm N A hs i v hi hv]
  cases pathLen N A v i with
  | none => rfl
  | some d =>
    simp only
    rw [walks_eq_wf N A i d v hv, walks_eq_wf N A v d i hi, wf_symm N A hs d i v hi hv]

theorem pairDep_symm (N : Nat) (A : List (List Bool)) (hs : SymM N A) (t s l : Nat) (ht : t < N)
    (hs' : s < N) (hl : l < N) : pairDep N A t s l = pairDep N A s t l := by
  simp only [pairDep]
  rw [pathLen_symm N A hs t s ht hs', pathLen_symm N A hs t l ht hl,
    pathLen_symm N A hs l s hl hs', sigma_symm N A hs t l ht hl, sigma_symm N A hs l s hl hs',
    sigma_symm N A hs t s ht hs']
  cases pathLen N A s t <;> cases pathLen N A l t <;> cases pathLen N A s l <;> simp only
  rename_i d d1 d2
  rw [Nat.add_comm d1 d2, mul_comm]

/-- on a symmetric matrix sources and targets can be exchanged -/
theorem betwSpec_swap (N : Nat) (A : List (List Bool)) (hs : SymM N A) (src tgt : List Nat)
    (l : Nat) (hsrc : ∀ s ∈ src, s < N) (htgt : ∀ t ∈ tgt, t < N) (hl : l < N) :
    betwSpec N A src tgt l = betwSpec N A tgt src l := by
  simp only [betwSpec, sum_ite_push]
  rw [sum_swap]
  congr 1
  apply List.map_congr_left
  intro s hs1
  congr 1
  apply List.map_congr_left
  intro t ht1
  rw [pairDep_symm N A hs t s l (htgt t ht1) (hsrc s hs1) hl]
  by_cases h1 : t = l <;> by_cases h2 : s = l <;> simp [h1, h2]

theorem transBetwSpec_mirror_symm (N : Nat) (A A' : List (List Bool)) (hm : Mirrored N A A')
    (hs : SymM N A) (a : Nat) (ha : a < N) :
    transBetwSpec N A' a = transBetwSpec N A (N - 1 - a) := by
  rw [transBetwSpec_mirror N A A' hm a ha, transBetwSpec]
  exact betwSpec_swap N A hs _ _ _ (future_lt N _) (past_lt N _ (by omega)) (by omega)

end Pyunicorn.Visibility
