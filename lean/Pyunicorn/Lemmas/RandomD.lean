import Pyunicorn.Lemmas.RandomC
/-! Helper lemmas for C17: what the Python wrappers hand to the kernels (edge list, list of
cross links, cross block) satisfies the kernels' preconditions (core Lean only). -/
namespace Pyunicorn.Random

theorem mem_enumOnes (m n : Nat) (P : Nat → Nat → Bool) (a b : Nat) :
    (a, b) ∈ enumOnes m n P ↔ a < m ∧ b < n ∧ P a b = true := by
  simp only [enumOnes, List.mem_flatMap, List.mem_range, List.mem_map, List.mem_filter,
    Prod.mk.injEq]
  constructor
  · rintro ⟨i, hi, j, ⟨hj, hP⟩, rfl, rfl⟩; exact ⟨hi, hj, hP⟩
  · rintro ⟨ha, hb, hP⟩; exact ⟨a, ha, b, ⟨hb, hP⟩, rfl, rfl⟩

/-- lexicographic order of cells -/
def lexLt (x y : Nat × Nat) : Prop := x.1 < y.1 ∨ (x.1 = y.1 ∧ x.2 < y.2)

theorem enumOnes_sorted (m n : Nat) (P : Nat → Nat → Bool) :
    (enumOnes m n P).Pairwise lexLt := by
  unfold enumOnes
  rw [List.pairwise_flatMap]
  constructor
  · intro i _
    rw [List.pairwise_map]
    exact (List.pairwise_lt_range.filter _).imp fun h => Or.inr ⟨rfl, h⟩
  · refine List.pairwise_lt_range.imp ?_
    intro i i' hlt x hx y hy
    simp only [List.mem_map, List.mem_filter] at hx hy
    obtain ⟨j, -, rfl⟩ := hx
    obtain ⟨j', -, rfl⟩ := hy
    exact Or.inl hlt

theorem enumOnes_inj (m n : Nat) (P : Nat → Nat → Bool) (p q : Nat)
    (hp : p < (enumOnes m n P).length) (hq : q < (enumOnes m n P).length)
    (h : (enumOnes m n P)[p] = (enumOnes m n P)[q]) : p = q := by
  have srt := List.pairwise_iff_getElem.1 (enumOnes_sorted m n P)
  rcases Nat.lt_trichotomy p q with hlt | heq | hgt
  · have := srt p q hp hq hlt; rw [h] at this; simp only [lexLt] at this; omega
  · exact heq
  · have := srt q p hq hp hgt; rw [h] at this; simp only [lexLt] at this; omega

theorem enumOnes_getElem (m n : Nat) (P : Nat → Nat → Bool) (p : Nat)
    (hp : p < (enumOnes m n P).length) :
    (enumOnes m n P)[p].1 < m ∧ (enumOnes m n P)[p].2 < n ∧
      P (enumOnes m n P)[p].1 (enumOnes m n P)[p].2 = true :=
  (mem_enumOnes m n P _ _).1 (List.getElem_mem hp)

theorem enumOnes_complete (m n : Nat) (P : Nat → Nat → Bool) (a b : Nat)
    (ha : a < m) (hb : b < n) (h : P a b = true) :
    ∃ p, ∃ hp : p < (enumOnes m n P).length, (enumOnes m n P)[p] = (a, b) := by
  have := (mem_enumOnes m n P a b).2 ⟨ha, hb, h⟩
  obtain ⟨p, hp, e⟩ := List.getElem_of_mem this
  exact ⟨p, hp, e⟩

/-- **the list of cross links the wrapper builds is the list of ones of `cross_A`** -/
theorem crossInv_onesList (m n : Nat) (C : Adj) (supp : ∀ a b, C a b = true → a < m ∧ b < n) :
    CrossInv m n C (onesList m n C) := by
  refine ⟨?_, ?_, ?_, ?_⟩
  · intro p hp; have := enumOnes_getElem m n C p hp; exact ⟨this.1, this.2.1⟩
  · intro p hp; exact (enumOnes_getElem m n C p hp).2.2
  · intro p q hp hq h; exact enumOnes_inj m n C p q hp hq h
  · intro a b h; obtain ⟨ha, hb⟩ := supp a b h; exact enumOnes_complete m n C a b ha hb h

theorem crossBlock_supp (A : Adj) (nodes1 nodes2 : List Nat) (a b : Nat)
    (h : crossBlock A nodes1 nodes2 a b = true) : a < nodes1.length ∧ b < nodes2.length := by
  unfold crossBlock at h
  split at h
  · rename_i x y h1 h2
    exact ⟨(List.getElem?_eq_some_iff.1 h1).1, (List.getElem?_eq_some_iff.1 h2).1⟩
  · cases h

theorem crossBlock_eq (A : Adj) (nodes1 nodes2 : List Nat) (i j x y : Nat)
    (hx : nodes1[i]? = some x) (hy : nodes2[j]? = some y) :
    A x y = crossBlock A nodes1 nodes2 i j := by
  simp [crossBlock, hx, hy]

theorem geoInv_enumOnes (n : Nat) (A : Adj) (P : Nat → Nat → Bool)
    (hP : ∀ i j, P i j = true ↔ i < j ∧ A i j = true) (sym : ∀ i j, A i j = A j i)
    (lf : ∀ i, A i i = false) (supp : ∀ i j, A i j = true → i < n ∧ j < n) :
    GeoInv n A (enumOnes n n P) := by
  have get := fun p hp => enumOnes_getElem n n P p hp
  refine ⟨sym, lf, ?_, ?_, ?_, ?_⟩
  · intro p hp; have := get p hp; exact ⟨this.1, this.2.1⟩
  · intro p hp; exact ((hP _ _).1 (get p hp).2.2).2
  · intro p q hp hq h
    have h1 := (hP _ _).1 (get p hp).2.2
    have h2 := (hP _ _).1 (get q hq).2.2
    apply enumOnes_inj n n P p q hp hq
    simp only [sameLink] at h
    rcases h with ⟨e1, e2⟩ | ⟨e1, e2⟩
    · exact Prod.ext e1 e2
    · have := h1.1; have := h2.1; omega
  · intro i j h
    obtain ⟨hi, hj⟩ := supp i j h
    have hij : i ≠ j := by intro e; subst e; rw [lf] at h; cases h
    rcases Nat.lt_or_gt_of_ne hij with hlt | hgt
    · obtain ⟨p, hp, e⟩ := enumOnes_complete n n P i j hi hj ((hP i j).2 ⟨hlt, h⟩)
      exact ⟨p, hp, by simp only [sameLink]; rw [e]; simp⟩
    · obtain ⟨p, hp, e⟩ := enumOnes_complete n n P j i hj hi ((hP j i).2 ⟨hgt, by rw [sym]; exact h⟩)
      exact ⟨p, hp, by simp only [sameLink]; rw [e]; simp⟩

/-- **the edge list the wrapper builds satisfies the kernel's precondition** -/
theorem geoInv_edgeList (n : Nat) (A : Adj) (sym : ∀ i j, A i j = A j i)
    (lf : ∀ i, A i i = false) (supp : ∀ i j, A i j = true → i < n ∧ j < n) :
    GeoInv n A (edgeList n A) :=
  geoInv_enumOnes n A _ (fun i j => by simp) sym lf supp

/-! ### `E = n_links`: the number of listed links is half the number of ones -/

theorem length_filter_range (n : Nat) (p : Nat → Bool) :
    (((List.range n).filter p).length : Int) = rsum (fun j => b2i (p j)) n := by
  induction n with
  | zero => simp [rsum]
  | succ n ih =>
    rw [List.range_succ, List.filter_append, List.length_append, Int.natCast_add, ih]
    simp only [rsum]
    cases h : p n <;> simp [h, b2i]

theorem enumOnes_succ (m n : Nat) (P : Nat → Nat → Bool) :
    enumOnes (m + 1) n P
      = enumOnes m n P ++ ((List.range n).filter fun j => P m j).map fun j => (m, j) := by
  simp [enumOnes, List.range_succ, List.flatMap_append]

theorem length_enumOnes (m n : Nat) (P : Nat → Nat → Bool) :
    ((enumOnes m n P).length : Int) = rsum (fun i => rsum (fun j => b2i (P i j)) n) m := by
  induction m with
  | zero => simp [enumOnes, rsum]
  | succ m ih =>
    rw [enumOnes_succ, List.length_append, Int.natCast_add, ih, List.length_map,
      length_filter_range]
    simp only [rsum]

theorem rsum_comm (f : Nat → Nat → Int) (m n : Nat) :
    rsum (fun i => rsum (fun j => f i j) n) m = rsum (fun j => rsum (fun i => f i j) m) n := by
  induction m with
  | zero => simp only [rsum]; rw [rsum_zero]
  | succ m ih =>
    simp only [rsum]
    rw [ih, ← rsum_add]

/-- `n_links` (half the number of ones of the symmetric loop-free `A`) is the length of the
edge list: the `E` the wrapper passes is the number of rows of `edges`. -/
theorem edgeList_length (n : Nat) (A : Adj) (sym : ∀ i j, A i j = A j i)
    (lf : ∀ i, A i i = false) : total A n n = 2 * ((edgeList n A).length : Int) := by
  unfold edgeList
  rw [length_enumOnes]
  have hsplit : ∀ i j, b2i (A i j)
      = b2i (decide (i < j) && A i j) + b2i (decide (j < i) && A j i) := by
    intro i j
    rcases Nat.lt_trichotomy i j with h | h | h
    · have h' : ¬ j < i := by omega
      simp [h, h']
    · subst h; simp [lf]
    · have h' : ¬ i < j := by omega
      simp [h, h', sym i j]
  unfold total deg
  have e1 : rsum (fun i => rsum (fun j => b2i (A i j)) n) n
      = rsum (fun i => rsum (fun j => b2i (decide (i < j) && A i j)) n) n
        + rsum (fun i => rsum (fun j => b2i (decide (j < i) && A j i)) n) n := by
    rw [← rsum_add]
    apply rsum_congr; intro i _
    rw [← rsum_add]
    apply rsum_congr; intro j _
    exact hsplit i j
  rw [e1, rsum_comm (fun i j => b2i (decide (j < i) && A j i)) n n]
  omega

theorem onesList_length (m n : Nat) (C : Adj) :
    total C m n = ((onesList m n C).length : Int) := by
  unfold onesList; rw [length_enumOnes]; rfl

/-! ### `set_edge_list` (second half of `Network.randomly_rewire`) -/

/-- the matrix `set_edge_list` builds from an undirected edge list -/
def linkAny (es : List (Nat × Nat)) : Adj := fun a b =>
  es.any fun e => (e.1 == a && e.2 == b) || (e.2 == a && e.1 == b)

theorem fromEdges_eq (N : Nat) (es : List (Nat × Nat)) (F : Adj) (h : fromEdges N es = some F) :
    F = linkAny es ∧ ∀ e ∈ es, e.1 < N ∧ e.2 < N := by
  unfold fromEdges at h
  split at h
  · rename_i hall
    simp only [Option.some.injEq] at h
    refine ⟨h.symm, ?_⟩
    intro e he
    have := List.all_eq_true.1 hall e he
    simpa using this
  · cases h

theorem fromEdges_some (N : Nat) (es : List (Nat × Nat)) (h : ∀ e ∈ es, e.1 < N ∧ e.2 < N) :
    fromEdges N es = some (linkAny es) := by
  unfold fromEdges
  rw [if_pos]
  · rfl
  · rw [List.all_eq_true]; intro e he; simpa using h e he

theorem linkAny_iff (es : List (Nat × Nat)) (a b : Nat) :
    linkAny es a b = true ↔ ∃ e ∈ es, sameLink e (a, b) := by
  simp only [linkAny, List.any_eq_true, Bool.or_eq_true, Bool.and_eq_true, beq_iff_eq, sameLink]
  constructor <;> rintro ⟨e, he, h⟩ <;> exact ⟨e, he, by omega⟩

/-- igraph's degree of node `v` in a graph with edge list `es` -/
def inc : List (Nat × Nat) → Nat → Int
  | [], _ => 0
  | e :: es, v => (if e.1 = v then 1 else 0) + (if e.2 = v then 1 else 0) + inc es v

/-- a simple graph's edge list: end points in range, no loops, every link once -/
def SimpleEdges (n : Nat) (es : List (Nat × Nat)) : Prop :=
  (∀ e ∈ es, e.1 < n ∧ e.2 < n ∧ e.1 ≠ e.2) ∧ es.Pairwise fun e f => ¬ sameLink e f

theorem linkAny_cons (e : Nat × Nat) (es : List (Nat × Nat)) :
    linkAny (e :: es) = ((linkAny es).set e.1 e.2 true).set e.2 e.1 true := by
  funext a b
  simp only [linkAny, List.any_cons, Adj.set]
  grind

theorem deg_linkAny (n : Nat) (es : List (Nat × Nat)) (h : SimpleEdges n es) (v : Nat) :
    deg (linkAny es) n v = inc es v := by
  induction es with
  | nil =>
    simp only [inc]
    unfold deg
    have : (fun j => b2i (linkAny [] v j)) = fun _ => 0 := by funext j; simp [linkAny]
    rw [this, rsum_zero]
  | cons e es ih =>
    obtain ⟨hb, hp⟩ := h
    rw [List.pairwise_cons] at hp
    have ih' := ih ⟨fun f hf => hb f (by simp [hf]), hp.2⟩
    obtain ⟨h1, h2, hne⟩ := hb e (by simp)
    have hxy : linkAny es e.1 e.2 = false := by
      cases hc : linkAny es e.1 e.2 with
      | false => rfl
      | true =>
        obtain ⟨f, hf, hs⟩ := (linkAny_iff es e.1 e.2).1 hc
        exact absurd (by simp only [sameLink] at hs ⊢; omega) (hp.1 f hf)
    have hyx : linkAny es e.2 e.1 = false := by
      cases hc : linkAny es e.2 e.1 with
      | false => rfl
      | true =>
        obtain ⟨f, hf, hs⟩ := (linkAny_iff es e.2 e.1).1 hc
        exact absurd (by simp only [sameLink] at hs ⊢; omega) (hp.1 f hf)
    rw [linkAny_cons, deg_set, deg_set, ih']
    simp only [inc, Adj.set, hxy, hyx, h1, h2]
    have : ¬ (e.2 = e.1 ∧ e.1 = e.2) := by omega
    simp only [this, if_false, b2i_true, b2i_false]
    split <;> split <;> simp_all <;> omega

theorem simpleEdges_of_geoInv (n : Nat) (A : Adj) (es : List (Nat × Nat)) (inv : GeoInv n A es) :
    SimpleEdges n es := by
  obtain ⟨sym, lf, inb, links, inj, -⟩ := inv
  constructor
  · intro e he
    obtain ⟨p, hp, rfl⟩ := List.getElem_of_mem he
    refine ⟨(inb p hp).1, (inb p hp).2, ?_⟩
    intro h; have := links p hp; rw [h, lf] at this; cases this
  · rw [List.pairwise_iff_getElem]
    intro p q hp hq hlt hs
    have := inj p q hp hq hs; omega

theorem linkAny_of_geoInv (n : Nat) (A : Adj) (es : List (Nat × Nat)) (inv : GeoInv n A es) :
    linkAny es = A := by
  obtain ⟨sym, lf, inb, links, inj, complete⟩ := inv
  funext a b
  cases hA : A a b with
  | true =>
    obtain ⟨p, hp, hs⟩ := complete a b hA
    exact (linkAny_iff es a b).2 ⟨es[p], List.getElem_mem hp, hs⟩
  | false =>
    cases hc : linkAny es a b with
    | false => rfl
    | true =>
      obtain ⟨f, hf, hs⟩ := (linkAny_iff es a b).1 hc
      obtain ⟨p, hp, rfl⟩ := List.getElem_of_mem hf
      have := links p hp
      simp only [sameLink] at hs
      rcases hs with ⟨e1, e2⟩ | ⟨e1, e2⟩
      · rw [e1, e2, hA] at this; cases this
      · rw [e1, e2, sym, hA] at this; cases this

end Pyunicorn.Random
