import Mathlib.Tactic.Linarith
import Mathlib.Tactic.Ring
import Mathlib.Tactic.FieldSimp
import Mathlib.Tactic.Positivity
import Mathlib.Algebra.Order.Field.Rat
import Mathlib.Algebra.Order.Floor.Ring
import Pyunicorn.Lemmas.Binary64
import Pyunicorn.Model.Rnd64
/-!
C20, round 5g: the executable binary64 rounding `Pyunicorn.Rnd64.rnd64` **is** an IEEE
round-to-nearest onto doubles — `rnd64_nearest : B64.Nearest rnd64`, `rnd64_isB64`.

The proofs are those of C17's round 5 (`Lemmas/RandomJ.lean`: `grid_gap`, `grid_cell`, `rndQ_nearest`,
`rnd64_nearest`, `rndQ_rep`, `rnd64_isB64`), repeated here for the copy of the definitions in
`Model/Rnd64.lean` so that C20's build does not depend on C17's generated files (see there).
-/
namespace Pyunicorn.Rnd64
open Pyunicorn.B64

theorem isB64_zero : IsB64 0 := ⟨0, 0, by norm_num, by norm_num, Or.inl (by norm_num)⟩

/-- a nearest rounding of a non-negative number is non-negative (0 is a double) -/
theorem nearest_nonneg (rnd : Rat → Rat) (hn : Nearest rnd) (x : Rat) (hx : 0 ≤ x) : 0 ≤ rnd x := by
  have h := hn x 0 isB64_zero
  have h2 : |(0 : Rat) - x| = x := by rw [zero_sub, abs_neg, abs_of_nonneg hx]
  rw [h2] at h
  have := (abs_le.1 h).1
  linarith

/-- no `p`-bit number lies strictly inside the grid cell of `f` -/
theorem grid_gap (p : Nat) (hp : 1 ≤ p) (f m j : Nat) (hm : m < 2 ^ p) :
    m * 2 ^ j ≤ f / 2 ^ gridShift p f * 2 ^ gridShift p f ∨
    (f / 2 ^ gridShift p f + 1) * 2 ^ gridShift p f ≤ m * 2 ^ j := by
  unfold gridShift
  split
  · simp only [Nat.pow_zero, Nat.div_one, Nat.mul_one]; omega
  · rename_i hbig
    have ha : 2 ^ p ≤ f := Nat.le_of_not_lt hbig
    have ha0 : f ≠ 0 := by
      have : 0 < 2 ^ p := Nat.two_pow_pos _
      omega
    have hlo : 2 ^ Nat.log2 f ≤ f := Nat.log2_self_le ha0
    have hhi : f < 2 ^ (Nat.log2 f + 1) := Nat.lt_log2_self
    have hpL : p < Nat.log2 f + 1 :=
      (Nat.pow_lt_pow_iff_right (by decide : 1 < 2)).1 (Nat.lt_of_le_of_lt ha hhi)
    generalize Nat.log2 f = L at *
    generalize hsd : L + 1 - p = s at *
    have hX : 0 < 2 ^ s := Nat.two_pow_pos _
    rcases Nat.lt_or_ge j s with hj | hj
    · left
      have h1 : m * 2 ^ j < 2 ^ p * 2 ^ j := Nat.mul_lt_mul_of_pos_right hm (Nat.two_pow_pos _)
      have h2 : 2 ^ p * 2 ^ j ≤ 2 ^ L := by
        rw [← Nat.pow_add]; exact Nat.pow_le_pow_right (by decide) (by omega)
      have h3 : 2 ^ L = 2 ^ (L - s) * 2 ^ s := by rw [← Nat.pow_add]; congr 1; omega
      have h4 : 2 ^ (L - s) ≤ f / 2 ^ s := by
        rw [Nat.le_div_iff_mul_le hX, ← h3]; exact hlo
      have h5 := Nat.mul_le_mul_right (2 ^ s) h4
      omega
    · have h1 : m * 2 ^ j = m * 2 ^ (j - s) * 2 ^ s := by
        rw [Nat.mul_assoc, ← Nat.pow_add]; congr 2; omega
      rw [h1]
      generalize m * 2 ^ (j - s) = k
      generalize f / 2 ^ s = q
      rcases Nat.lt_or_ge q k with h | h
      · right; exact Nat.mul_le_mul_right _ h
      · left; exact Nat.mul_le_mul_right _ h

/-- the cell contains `a` -/
theorem grid_cell (p : Nat) (a : Rat) (ha : 0 ≤ a) :
    ((a.floor.toNat / 2 ^ gridShift p a.floor.toNat * 2 ^ gridShift p a.floor.toNat : Nat) : Rat) ≤ a ∧
    a < (((a.floor.toNat / 2 ^ gridShift p a.floor.toNat + 1) * 2 ^ gridShift p a.floor.toNat : Nat) : Rat) := by
  have hf0 : 0 ≤ a.floor := by rw [Rat.le_floor_iff]; simpa using ha
  have hfa : ((a.floor.toNat : Nat) : Rat) = (a.floor : Rat) := by
    have : ((a.floor.toNat : Nat) : Int) = a.floor := Int.toNat_of_nonneg hf0
    exact_mod_cast this
  have h1 : (a.floor : Rat) ≤ a := by
    have := (Rat.le_floor_iff (x := a.floor) (a := a)).1 (le_refl _); exact this
  have h2 : a < (a.floor : Rat) + 1 := by
    have := (Rat.floor_lt_iff (x := a.floor + 1) (a := a)).1 (by omega); push_cast at this; exact this
  generalize a.floor.toNat = f at *
  generalize gridShift p f = s
  have hX : 0 < 2 ^ s := Nat.two_pow_pos _
  have l1 : f / 2 ^ s * 2 ^ s ≤ f := Nat.div_mul_le_self _ _
  have l2 : f + 1 ≤ (f / 2 ^ s + 1) * 2 ^ s := by
    have := Nat.lt_mul_div_succ f hX
    rw [Nat.mul_comm] at this; exact this
  have l1' : ((f / 2 ^ s * 2 ^ s : Nat) : Rat) ≤ (f : Rat) := by exact_mod_cast l1
  have l2' : ((f + 1 : Nat) : Rat) ≤ (((f / 2 ^ s + 1) * 2 ^ s : Nat) : Rat) := by exact_mod_cast l2
  push_cast at l2' l1' ⊢
  constructor <;> linarith

theorem pick_nearest (lo hi : Nat) (a Y : Rat) (c1 : (lo : Rat) ≤ a) (c2 : a < (hi : Rat))
    (hY : Y ≤ (lo : Rat) ∨ (hi : Rat) ≤ Y) (b : Prop) [Decidable b] :
    |((if a - (lo : Rat) < (hi : Rat) - a then lo
        else if (hi : Rat) - a < a - (lo : Rat) then hi else if b then lo else hi : Nat) : Rat) - a|
      ≤ |Y - a| := by
  have e1 : |(lo : Rat) - a| = a - lo := by rw [abs_sub_comm]; exact abs_of_nonneg (by linarith)
  have e2 : |(hi : Rat) - a| = hi - a := abs_of_nonneg (by linarith)
  have hYa : a - lo ≤ |Y - a| ∨ hi - a ≤ |Y - a| := by
    rcases hY with h | h
    · left; rw [abs_sub_comm]; exact le_trans (by linarith) (le_abs_self _)
    · right; exact le_trans (by linarith) (le_abs_self _)
  split
  · rw [e1]; rcases hYa with h | h <;> linarith
  · split
    · rw [e2]; rcases hYa with h | h <;> linarith
    · split
      · rw [e1]; rcases hYa with h | h <;> linarith
      · rw [e2]; rcases hYa with h | h <;> linarith

/-- `rndQ p a` is a nearest point: no value outside the open cell is nearer to `a` -/
theorem rndQ_nearest (p : Nat) (a : Rat) (ha : 0 ≤ a) (Y : Rat)
    (hY : Y ≤ ((a.floor.toNat / 2 ^ gridShift p a.floor.toNat * 2 ^ gridShift p a.floor.toNat : Nat) : Rat) ∨
      (((a.floor.toNat / 2 ^ gridShift p a.floor.toNat + 1) * 2 ^ gridShift p a.floor.toNat : Nat) : Rat) ≤ Y) :
    |((rndQ p a : Nat) : Rat) - a| ≤ |Y - a| := by
  obtain ⟨c1, c2⟩ := grid_cell p a ha
  exact pick_nearest _ _ a Y c1 c2 hY _


/-- every double is an integer `m · 2^j`, `|m| < 2^53`, in units of `2^-1074` -/
theorem isB64_units (y : Rat) (hy : IsB64 y) : ∃ (m : Int) (j : Nat), -(2 : Int) ^ 53 < m ∧ m < (2 : Int) ^ 53 ∧
    y * ((2 ^ 1074 : Nat) : Rat) = (m : Rat) * (2 : Rat) ^ j := by
  obtain ⟨m, k, h1, h2, h | ⟨hk, h⟩⟩ := hy
  · refine ⟨m, k + 1074, h1, h2, ?_⟩
    rw [h]; push_cast; rw [pow_add]; ring
  · refine ⟨m, 1074 - k, h1, h2, ?_⟩
    have hs : (2 : Rat) ^ 1074 = (2 : Rat) ^ k * (2 : Rat) ^ (1074 - k) := by
      rw [← pow_add]; congr 1; omega
    have hk0 : (2 : Rat) ^ k ≠ 0 := by positivity
    rw [h]; push_cast; rw [hs]; field_simp

theorem isB64_neg (y : Rat) (hy : IsB64 y) : IsB64 (-y) := by
  obtain ⟨m, k, h1, h2, h | ⟨hk, h⟩⟩ := hy
  · exact ⟨-m, k, by omega, by omega, Or.inl (by rw [h]; push_cast; ring)⟩
  · exact ⟨-m, k, by omega, by omega, Or.inr ⟨hk, by rw [h]; push_cast; ring⟩⟩

/-- a double, in units of `2^-1074`, is not strictly inside the grid cell of `a` -/
theorem b64_outside_cell (a : Rat) (y : Rat) (hy : IsB64 y) :
    y * ((2 ^ 1074 : Nat) : Rat) ≤ ((a.floor.toNat / 2 ^ gridShift 53 a.floor.toNat * 2 ^ gridShift 53 a.floor.toNat : Nat) : Rat) ∨
      (((a.floor.toNat / 2 ^ gridShift 53 a.floor.toNat + 1) * 2 ^ gridShift 53 a.floor.toNat : Nat) : Rat) ≤ y * ((2 ^ 1074 : Nat) : Rat) := by
  obtain ⟨m, j, h1, h2, hY⟩ := isB64_units y hy
  rw [hY]
  generalize a.floor.toNat = f
  rcases le_or_gt m 0 with hm | hm
  · left
    have : (m : Rat) * (2 : Rat) ^ j ≤ 0 :=
      mul_nonpos_of_nonpos_of_nonneg (by exact_mod_cast hm) (by positivity)
    exact le_trans this (Nat.cast_nonneg _)
  · obtain ⟨n, rfl⟩ := Int.eq_ofNat_of_zero_le (le_of_lt hm)
    have hn : n < 2 ^ 53 := by exact_mod_cast h2
    have e : ((n : Int) : Rat) * (2 : Rat) ^ j = ((n * 2 ^ j : Nat) : Rat) := by push_cast; ring
    rw [e]
    rcases grid_gap 53 (by decide) f n j hn with h | h
    · left; exact_mod_cast h
    · right; exact_mod_cast h

/-- **the executable binary64 rounding is a round-to-nearest in the sense of `B64.Nearest`** -/
theorem rnd64_nearest : Nearest rnd64 := by
  intro x y hy
  have hU : (0 : Rat) < ((2 ^ 1074 : Nat) : Rat) := by positivity
  unfold rnd64
  split
  · rename_i hx
    have ha : 0 ≤ -x * ((2 ^ 1074 : Nat) : Rat) := mul_nonneg (by linarith) (le_of_lt hU)
    have hc := b64_outside_cell (-x * ((2 ^ 1074 : Nat) : Rat)) (-y) (isB64_neg y hy)
    have hn := rndQ_nearest 53 _ ha _ hc
    generalize ((2 ^ 1074 : Nat) : Rat) = U at *
    generalize ((rndQ 53 (-x * U) : Nat) : Rat) = r at *
    have e1 : -r / U - x = -((r - -x * U) / U) := by field_simp; ring
    have e2 : y - x = -((-y * U - -x * U) / U) := by field_simp; ring
    rw [e1, e2, abs_neg, abs_neg, abs_div, abs_div, abs_of_pos hU]
    exact div_le_div_of_nonneg_right hn (le_of_lt hU)
  · rename_i hx
    have ha : 0 ≤ x * ((2 ^ 1074 : Nat) : Rat) := mul_nonneg (by linarith) (le_of_lt hU)
    have hc := b64_outside_cell (x * ((2 ^ 1074 : Nat) : Rat)) y hy
    have hn := rndQ_nearest 53 _ ha _ hc
    generalize ((2 ^ 1074 : Nat) : Rat) = U at *
    generalize ((rndQ 53 (x * U) : Nat) : Rat) = r at *
    have e1 : r / U - x = (r - x * U) / U := by field_simp
    have e2 : y - x = (y * U - x * U) / U := by field_simp
    rw [e1, e2, abs_div, abs_div, abs_of_pos hU]
    exact div_le_div_of_nonneg_right hn (le_of_lt hU)

/-! ### the result is a double -/

theorem grid_q_lt (p f : Nat) : f / 2 ^ gridShift p f < 2 ^ p := by
  unfold gridShift
  split
  · simpa using ‹f < 2 ^ p›
  · have hhi : f < 2 ^ (Nat.log2 f + 1) := Nat.lt_log2_self
    rename_i hbig
    have hpL : p < Nat.log2 f + 1 :=
      (Nat.pow_lt_pow_iff_right (by decide : 1 < 2)).1 (Nat.lt_of_le_of_lt (Nat.le_of_not_lt hbig) hhi)
    rw [Nat.div_lt_iff_lt_mul (Nat.two_pow_pos _), ← Nat.pow_add]
    have : p + (Nat.log2 f + 1 - p) = Nat.log2 f + 1 := by omega
    rw [this]; exact hhi

/-- `rndQ p a` has `p` significant bits -/
theorem rndQ_rep (p : Nat) (hp : 1 ≤ p) (a : Rat) : ∃ M j, M < 2 ^ p ∧ rndQ p a = M * 2 ^ j := by
  have hq := grid_q_lt p a.floor.toNat
  have hlo : ∃ M j, M < 2 ^ p ∧
      a.floor.toNat / 2 ^ gridShift p a.floor.toNat * 2 ^ gridShift p a.floor.toNat = M * 2 ^ j :=
    ⟨_, _, hq, rfl⟩
  have hhi : ∃ M j, M < 2 ^ p ∧
      (a.floor.toNat / 2 ^ gridShift p a.floor.toNat + 1) * 2 ^ gridShift p a.floor.toNat = M * 2 ^ j := by
    rcases Nat.lt_or_ge (a.floor.toNat / 2 ^ gridShift p a.floor.toNat + 1) (2 ^ p) with h | h
    · exact ⟨_, _, h, rfl⟩
    · have e : a.floor.toNat / 2 ^ gridShift p a.floor.toNat + 1 = 2 ^ p := by omega
      refine ⟨1, p + gridShift p a.floor.toNat, Nat.one_lt_two_pow (by omega), ?_⟩
      rw [e, Nat.pow_add, Nat.one_mul]
  unfold rndQ
  simp only
  split
  · exact hlo
  · split
    · exact hhi
    · split
      · exact hlo
      · exact hhi

theorem isB64_of_units (M j : Nat) (hM : M < 2 ^ 53) :
    IsB64 (((M * 2 ^ j : Nat) : Rat) / ((2 ^ 1074 : Nat) : Rat)) := by
  have hM' : (M : Int) < (2 : Int) ^ 53 := by exact_mod_cast hM
  rcases Nat.lt_or_ge j 1074 with hj | hj
  · refine ⟨M, 1074 - j, by omega, hM', Or.inr ⟨by omega, ?_⟩⟩
    have hs : (2 : Rat) ^ 1074 = (2 : Rat) ^ j * (2 : Rat) ^ (1074 - j) := by
      rw [← pow_add]; congr 1; omega
    push_cast; rw [hs]; field_simp
  · refine ⟨M, j - 1074, by omega, hM', Or.inl ?_⟩
    have hs : (2 : Rat) ^ j = (2 : Rat) ^ 1074 * (2 : Rat) ^ (j - 1074) := by
      have e : 1074 + (j - 1074) = j := by omega
      rw [← pow_add, e]
    push_cast; rw [hs]; field_simp

/-- **`rnd64 x` is a double**, for every rational `x` -/
theorem rnd64_isB64 (x : Rat) : IsB64 (rnd64 x) := by
  unfold rnd64
  split
  · obtain ⟨M, j, hM, e⟩ := rndQ_rep 53 (by decide) (-x * ((2 ^ 1074 : Nat) : Rat))
    rw [e, neg_div]
    exact isB64_neg _ (isB64_of_units M j hM)
  · obtain ⟨M, j, hM, e⟩ := rndQ_rep 53 (by decide) (x * ((2 ^ 1074 : Nat) : Rat))
    rw [e]
    exact isB64_of_units M j hM

/-! ### the integer rounding `rndP` (binary32 subtractions) is the same function -/

end Pyunicorn.Rnd64
