import Pyunicorn.Lemmas.Random
/-! Helper lemmas for C17, cross-link kernels (core Lean only). -/
namespace Pyunicorn.Random
open Pyunicorn.Generated.StructC17


theorem rsum_single (a : Nat) (x : Int) (n : Nat) :
    rsum (fun j => if j = a then x else 0) n = if a < n then x else 0 := by
  have := rsum_upd (fun _ => 0) a x n
  simp only [rsum_zero] at this
  rw [this]; simp

theorem total_set (C : Adj) (i j : Nat) (v : Bool) (m n : Nat) :
    total (C.set i j v) m n
      = total C m n + (if i < m ∧ j < n then b2i v - b2i (C i j) else 0) := by
  unfold total
  have : (fun r => deg (C.set i j v) n r)
      = fun r => deg C n r + (if r = i then (if j < n then b2i v - b2i (C i j) else 0) else 0) := by
    funext r; rw [deg_set]; by_cases h : r = i <;> by_cases h2 : j < n <;> simp [h, h2]
  rw [this, rsum_add, rsum_single]
  by_cases h1 : i < m <;> by_cases h2 : j < n <;> simp [h1, h2]

/-- state of `_randomlySetCrossLinks` after any stream of in-range draws -/
theorem crossSetRun_spec (m n k : Nat) (draws : List (Nat × Nat)) (C : Adj) (done : Nat)
    (hd : ∀ d ∈ draws, d.1 < m ∧ d.2 < n) :
    total (crossSetRun k draws C done).1 m n = total C m n + ((crossSetRun k draws C done).2 - done : Nat) ∧
    done ≤ (crossSetRun k draws C done).2 ∧
    (done ≤ k → (crossSetRun k draws C done).2 ≤ k) ∧
    (∀ a b, C a b = true → (crossSetRun k draws C done).1 a b = true) := by
  induction draws generalizing C done with
  | nil => simp [crossSetRun]
  | cons d ds ih =>
    obtain ⟨i, j⟩ := d
    have hij := hd (i, j) (by simp)
    have hd' : ∀ d ∈ ds, d.1 < m ∧ d.2 < n := fun d h => hd d (by simp [h])
    rw [crossSetRun_cons]
    split
    · split
      · exact ih C done hd'
      · rename_i hlt hc
        obtain ⟨h1, h2, h3, h4⟩ := ih (C.set i j true) (done + 1) hd'
        refine ⟨?_, by omega, fun _ => h3 (by omega), ?_⟩
        · rw [h1, total_set]
          simp only [Bool.not_eq_true] at hc
          simp [hij.1, hij.2, hc]
          omega
        · intro a b hab
          apply h4
          simp only [Adj.set]; split <;> simp_all
    · simp



/-- `links` is the list of ones of the `m × n` matrix `C`, each once -/
structure CrossInv (m n : Nat) (C : Adj) (links : List (Nat × Nat)) : Prop where
  inb : ∀ p (h : p < links.length), links[p].1 < m ∧ links[p].2 < n
  ones : ∀ p (h : p < links.length), C links[p].1 links[p].2 = true
  inj : ∀ p q (hp : p < links.length) (hq : q < links.length), links[p] = links[q] → p = q
  complete : ∀ a b, C a b = true → ∃ p, ∃ h : p < links.length, links[p] = (a, b)

theorem crossStep_cases (st st' : CrossSt) (d : Nat × Nat) (h : crossStep st d = some st') :
    st' = st ∨ ∃ a b c e, ∃ (hp : d.1 < st.links.length) (hq : d.2 < st.links.length),
      st.links[d.1] = (a, b) ∧ st.links[d.2] = (c, e) ∧ st.C a e = false ∧ st.C c b = false ∧
      st' = { C := swapped st.C a b c e
              links := (st.links.set d.1 (a, e)).set d.2 (c, b)
              done := st.done + 1 } := by
  unfold crossStep at h
  split at h
  · rename_i a b c e h1 h2
    rw [List.getElem?_eq_some_iff] at h1 h2
    obtain ⟨hp, h1⟩ := h1
    obtain ⟨hq, h2⟩ := h2
    rw [rewBreak_eq, rewWrites_eq, runMoves_eq st.links d.1 d.2 a b c e hp hq h1 h2] at h
    split at h
    · right
      rename_i hc
      simp only [Bool.not_eq_true', Bool.or_eq_false_iff] at hc
      refine ⟨a, b, c, e, hp, hq, h1, h2, hc.1, hc.2, ?_⟩
      simpa using h.symm
    · left; simpa using h.symm
  · simp at h

theorem swap_apply (C : Adj) (a b c e x y : Nat) (hac : a ≠ c) (_hbe : b ≠ e) :
    (swapped C a b c e) x y =
      if (x = a ∧ y = e) ∨ (x = c ∧ y = b) then true
      else if (x = a ∧ y = b) ∨ (x = c ∧ y = e) then false else C x y := by
  simp only [swapped, applyWrites, rewWrites, List.foldl_cons, List.foldl_nil, Adj.set]
  grind

theorem crossInv_swap (m n : Nat) (C : Adj) (L : List (Nat × Nat)) (p q a b c e : Nat)
    (hp : p < L.length) (hq : q < L.length) (e1 : L[p] = (a, b)) (e2 : L[q] = (c, e))
    (h1 : C a e = false) (h2 : C c b = false) (inv : CrossInv m n C L) :
    CrossInv m n (swapped C a b c e)
      ((L.set p (a, e)).set q (c, b)) ∧
    (∀ r, deg (swapped C a b c e) n r = deg C n r) ∧
    (∀ r, colDeg (swapped C a b c e) m r = colDeg C m r) := by
  obtain ⟨inb, ones, inj, complete⟩ := inv
  have hab : C a b = true := by have := ones p hp; rw [e1] at this; exact this
  have hce : C c e = true := by have := ones q hq; rw [e2] at this; exact this
  have hac : a ≠ c := by intro h; subst h; rw [h1] at hce; cases hce
  have hbe : b ≠ e := by intro h; subst h; rw [h1] at hab; cases hab
  have b1 := inb p hp; rw [e1] at b1
  have b2 := inb q hq; rw [e2] at b2
  have sa := fun x y => swap_apply C a b c e x y hac hbe
  refine ⟨⟨?_, ?_, ?_, ?_⟩, ?_, ?_⟩
  · intro r hr
    rw [getElem_set2]
    have := inb r (by simpa using hr)
    grind
  · intro r hr
    rw [getElem_set2, sa]
    have hr' : r < L.length := by simpa using hr
    have := ones r hr'
    have := inj r p hr' hp; have := inj r q hr' hq
    grind
  · intro r1 r2 hr1 hr2
    rw [getElem_set2, getElem_set2]
    have hr1' : r1 < L.length := by simpa using hr1
    have hr2' : r2 < L.length := by simpa using hr2
    have := ones r1 hr1'; have := ones r2 hr2'
    have := inj r1 r2 hr1' hr2'
    grind
  · intro x y hxy
    rw [sa] at hxy
    by_cases hn : x = a ∧ y = e
    · refine ⟨p, by simpa using hp, ?_⟩
      rw [getElem_set2]; grind
    · by_cases hn2 : x = c ∧ y = b
      · refine ⟨q, by simpa using hq, ?_⟩
        rw [getElem_set2]; grind
      · have hC : C x y = true := by grind
        obtain ⟨r, hr, hs⟩ := complete x y hC
        refine ⟨r, by simpa using hr, ?_⟩
        rw [getElem_set2]
        grind
  · intro r
    simp only [swapped, applyWrites, rewWrites, List.foldl_cons, List.foldl_nil]
    simp only [deg_set]
    simp [Adj.set, *]
    grind [b2i]
  · intro r
    simp only [swapped, applyWrites, rewWrites, List.foldl_cons, List.foldl_nil]
    simp only [colDeg_set]
    simp [Adj.set, *]
    grind [b2i]



theorem applyWrites_untouched (ws : List (Nat × Nat × Bool)) (A : Adj) (a b : Nat)
    (h : ∀ w ∈ ws, ¬ (w.1 = a ∧ w.2.1 = b)) : applyWrites A ws a b = A a b := by
  induction ws generalizing A with
  | nil => rfl
  | cons w ws ih =>
    simp only [applyWrites, List.foldl_cons] at *
    rw [ih _ (fun w' hw' => h w' (by simp [hw']))]
    have := h w (by simp)
    simp only [Adj.set]
    grind

theorem applyWrites_val (ws : List (Nat × Nat × Bool)) (A : Adj) (a b : Nat) (v : Bool)
    (hv : ∀ w ∈ ws, w.1 = a → w.2.1 = b → w.2.2 = v)
    (hex : ∃ w ∈ ws, w.1 = a ∧ w.2.1 = b) : applyWrites A ws a b = v := by
  induction ws generalizing A with
  | nil => simp at hex
  | cons w ws ih =>
    by_cases hlater : ∃ w' ∈ ws, w'.1 = a ∧ w'.2.1 = b
    · simp only [applyWrites, List.foldl_cons] at *
      exact ih _ (fun w' hw' => hv w' (by simp [hw'])) hlater
    · have hw : w.1 = a ∧ w.2.1 = b := by
        obtain ⟨w', hw', h'⟩ := hex
        simp only [List.mem_cons] at hw'
        rcases hw' with rfl | hw'
        · exact h'
        · exact absurd ⟨w', hw', h'⟩ hlater
      have hun := applyWrites_untouched ws (A.set w.1 w.2.1 w.2.2) a b
        (fun w' hw' hc => hlater ⟨w', hw', hc⟩)
      simp only [applyWrites, List.foldl_cons] at *
      rw [hun]
      simp only [Adj.set, hw, and_self, if_true]
      exact hv w (by simp) hw.1 hw.2

theorem mem_overwriteWrites (C : Adj) (nodes1 nodes2 : List Nat) (w : Nat × Nat × Bool) :
    w ∈ overwriteWrites C nodes1 nodes2 ↔
      ∃ i j n1 n2, nodes1[i]? = some n1 ∧ nodes2[j]? = some n2 ∧
        (w = (n1, n2, C i j) ∨ w = (n2, n1, C i j)) := by
  simp only [overwriteWrites, List.mem_flatMap, List.mem_range, (overwrite_reads_eq _ _).1,
    (overwrite_reads_eq _ _).2]
  constructor
  · rintro ⟨i, hi, j, hj, h⟩
    rw [List.getElem?_eq_getElem hi, List.getElem?_eq_getElem hj] at h
    simp only [mem_owWrites] at h
    exact ⟨i, j, _, _, List.getElem?_eq_getElem hi, List.getElem?_eq_getElem hj, h⟩
  · rintro ⟨i, j, n1, n2, h1, h2, h⟩
    obtain ⟨hi, rfl⟩ := List.getElem?_eq_some_iff.1 h1
    obtain ⟨hj, rfl⟩ := List.getElem?_eq_some_iff.1 h2
    refine ⟨i, hi, j, hj, ?_⟩
    rw [List.getElem?_eq_getElem hi, List.getElem?_eq_getElem hj]
    simp only [mem_owWrites]
    exact h


/-- no duplicates, in index form -/
def NodupIdx (L : List Nat) : Prop := ∀ (i i' x : Nat), L[i]? = some x → L[i']? = some x → i = i'


theorem rsum_sub (f g : Nat → Int) (n : Nat) :
    rsum (fun j => f j - g j) n = rsum f n - rsum g n := by
  induction n with
  | zero => rfl
  | succ n ih => simp only [rsum, ih]; omega

theorem rsum_shift (f : Nat → Int) (n : Nat) :
    rsum f (n + 1) = f 0 + rsum (fun j => f (j + 1)) n := by
  induction n with
  | zero => simp [rsum]
  | succ n ih => rw [rsum, ih]; simp only [rsum]; omega

/-- a function supported on a duplicate-free list of indices `< N` sums over the list -/
theorem rsum_support (L : List Nat) (N : Nat) (nd : NodupIdx L) (hb : ∀ x ∈ L, x < N)
    (h : Nat → Int) (hs : ∀ w, w ∉ L → h w = 0) :
    rsum h N = rsum (fun j => h (L.getD j 0)) L.length := by
  induction L generalizing h with
  | nil =>
    have : rsum h N = rsum (fun _ => 0) N := rsum_congr N fun j _ => hs j (by simp)
    rw [this, rsum_zero]; rfl
  | cons x L ih =>
    have hx : x ∉ L := by
      intro hm
      obtain ⟨i, hi⟩ := List.getElem?_of_mem hm
      have := nd (i + 1) 0 x (by simpa using hi) (by simp)
      omega
    have nd' : NodupIdx L := by
      intro i i' y h1 h2
      have := nd (i + 1) (i' + 1) y (by simpa using h1) (by simpa using h2)
      omega
    have key := ih nd' (fun y hy => hb y (by simp [hy])) (fun w => if w = x then 0 else h w)
      (fun w hw => by
        by_cases hwx : w = x
        · simp [hwx]
        · simp only [hwx, if_false]; exact hs w (by simp [hwx, hw]))
    rw [rsum_upd] at key
    have hxN : x < N := hb x (by simp)
    simp only [hxN, if_true] at key
    have e2 : rsum (fun j => if L.getD j 0 = x then 0 else h (L.getD j 0)) L.length
        = rsum (fun j => h (L.getD j 0)) L.length := by
      apply rsum_congr; intro j hj
      have : L.getD j 0 ∈ L := by
        rw [List.getD_eq_getElem?_getD, List.getElem?_eq_getElem hj]; simp
      have : L.getD j 0 ≠ x := fun hh => hx (hh ▸ this)
      show (if L.getD j 0 = x then 0 else h (L.getD j 0)) = h (L.getD j 0)
      rw [if_neg this]
    rw [e2] at key
    rw [List.length_cons, rsum_shift]
    simp only [List.getD_cons_zero, List.getD_cons_succ]
    omega


theorem getD_of_getElem? (L : List Nat) (j x : Nat) (h : L[j]? = some x) : L.getD j 0 = x := by
  rw [List.getD_eq_getElem?_getD, h]; rfl

end Pyunicorn.Random
