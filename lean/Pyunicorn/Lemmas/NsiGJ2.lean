import Pyunicorn.Lemmas.NsiGJ
import Pyunicorn.Lemmas.NsiCompFold
/-!
Round 5f (C02): **the Gauss–Jordan elimination of C18's model (`Circuit.inverse`) is complete** —
it returns `none` exactly on singular matrices (a non-zero kernel vector on the leading block).

Round 5e (`Lemmas/NsiGJ.lean`) proved soundness (`inverse_two_sided`).  Here the other half, the
way C03's `Lemmas/NetRWInv.lean` did it for `ratInv`:

* `gjStep_none` — a failing pivot search of **C18's list code** (`find?`) means the column is zero
  from the diagonal down;
* `foldlM_spec_ker` — the elimination along `List.foldlM` keeps C10's two invariants (`GJInv`: `B ·
  C = A` with unit columns; `KerInv`: the row operations do not enlarge the kernel), by
  `gjStep_spec` (round 5e) and C10's `gjInv_step` / `kerInv_step`; `foldlM_none` locates the failing
  column;
* **`inverse_none_iff`** — `Circuit.inverse n A = none` ↔ `SingularBlock n A` (C10's `kernelAt_sum`
  builds the kernel vector at the failing column; C10's `left_inverse_kernel` for the converse);
* `groundedInv_none_iff`, `newmanT_none_iff`, `newmanAll_none_iff` — the model's `sp_M_inv` / the
  measure of a connected network is `none` exactly when the reduced `sp_M` (`sp_M[:-1,:-1]`) is
  singular;
* `perNode_newman_none_iff`, **`newmanWrapped_none_iff`** — the modelled wrapper fails exactly when
  some component with at least two nodes has a singular reduced `sp_M`.
-/
namespace Pyunicorn.Nsi

open Pyunicorn.Coupling (matFn Shape GJInv KerInv)

/-- the leading `n × n` block of `A` has a non-zero kernel vector -/
def SingularBlock (n : Nat) (A : Nat → Nat → Rat) : Prop :=
  ∃ v : Nat → Rat, (∃ l, l < n ∧ v l ≠ 0) ∧ ∀ k, k < n → sumR n (fun l => A k l * v l) = 0

/-- a failing pivot search of C18's `gjStep`: the column is zero from the diagonal down -/
theorem gjStep_none (M : List (List Rat)) (N W col : Nat) (hS : Shape M N W)
    (h : Circuit.gjStep M col = none) : ∀ r, col ≤ r → r < N → matFn M r col = 0 := by
  intro r hcr hr
  obtain ⟨hN, _⟩ := hS
  unfold Circuit.gjStep at h
  split at h
  · rename_i hfind
    rw [List.find?_eq_none] at hfind
    have := hfind r (by rw [List.mem_range, hN]; exact hr)
    simp only [Bool.and_eq_true, decide_eq_true_eq, bne_iff_ne, ne_eq, not_and, not_not] at this
    exact this hcr
  · cases h

theorem foldlM_range_succ (c : Nat) (M : List (List Rat)) :
    (List.range (c + 1)).foldlM Circuit.gjStep M
      = ((List.range c).foldlM Circuit.gjStep M).bind fun M1 => Circuit.gjStep M1 c := by
  rw [List.range_succ, List.foldlM_append]
  cases (List.range c).foldlM Circuit.gjStep M <;> simp

/-- the elimination keeps both invariants of C10: `GJInv` and `KerInv` -/
theorem foldlM_spec_ker (C : Nat → Nat → Rat) (N : Nat) (M : List (List Rat))
    (hS : Shape M N (2 * N)) (h0 : GJInv C N 0 (matFn M)) (hK : KerInv C N (matFn M)) :
    ∀ c, c ≤ N → ∀ M', (List.range c).foldlM Circuit.gjStep M = some M' →
      Shape M' N (2 * N) ∧ GJInv C N c (matFn M') ∧ KerInv C N (matFn M') := by
  intro c
  induction c with
  | zero =>
    intro _ M' h
    simp only [List.range_zero, List.foldlM_nil] at h
    cases h
    exact ⟨hS, h0, hK⟩
  | succ c ih =>
    intro hc M' h
    rw [foldlM_range_succ] at h
    cases h1 : (List.range c).foldlM Circuit.gjStep M with
    | none => rw [h1] at h; cases h
    | some M1 =>
      rw [h1] at h
      simp only [Option.bind_some] at h
      obtain ⟨hS1, hI1, hK1⟩ := ih (by omega) M1 h1
      obtain ⟨r, hcr, hr, hp, hS', hF⟩ := gjStep_spec M1 M' N (2 * N) c hS1 (by omega) h
      exact ⟨hS', Coupling.gjInv_step C N c r (matFn M1) (matFn M') hI1 (by omega) hcr hr hp hF,
        Coupling.kerInv_step C N c r (matFn M1) (matFn M') hK1 (by omega) hr hp hF⟩

/-- a failing elimination fails at some column `c`, after `c` successful steps -/
theorem foldlM_none (M : List (List Rat)) :
    ∀ n, (List.range n).foldlM Circuit.gjStep M = none →
      ∃ c, c < n ∧ ∃ M1, (List.range c).foldlM Circuit.gjStep M = some M1 ∧
        Circuit.gjStep M1 c = none := by
  intro n
  induction n with
  | zero => intro h; simp at h
  | succ n ih =>
    intro h
    rw [foldlM_range_succ] at h
    cases h1 : (List.range n).foldlM Circuit.gjStep M with
    | none =>
      obtain ⟨c, hc, M1, h2, h3⟩ := ih h1
      exact ⟨c, by omega, M1, h2, h3⟩
    | some M1 =>
      rw [h1] at h
      simp only [Option.bind_some] at h
      exact ⟨n, by omega, M1, h1, h⟩

/-- `Circuit.inverse` fails exactly when its elimination loop does -/
theorem inverse_none_loop (n : Nat) (A : Nat → Nat → Rat) :
    Circuit.inverse n A = none ↔
      (List.range n).foldlM Circuit.gjStep (Coupling.augOf A n) = none := by
  unfold Circuit.inverse
  simp only
  change (match (List.range n).foldlM Circuit.gjStep (Coupling.augOf A n) with
    | none => none
    | some rows' => some (Circuit.toFun (rows'.map fun r => r.drop n))) = none ↔ _
  cases (List.range n).foldlM Circuit.gjStep (Coupling.augOf A n) <;> simp

/-- **completeness of C18's Gauss–Jordan**: `Circuit.inverse n A` is `none` exactly when `A` has a
non-zero kernel vector on the leading `n × n` block -/
theorem inverse_none_iff (n : Nat) (A : Nat → Nat → Rat) :
    Circuit.inverse n A = none ↔ SingularBlock n A := by
  constructor
  · intro h
    rw [inverse_none_loop] at h
    obtain ⟨c, hc, M1, h2, h3⟩ := foldlM_none _ n h
    obtain ⟨hS1, ⟨_, hB⟩, hK⟩ := foldlM_spec_ker A n _ (Coupling.augOf_shape A n)
      (Coupling.augOf_inv A n) (Coupling.augOf_ker A n) c (by omega) M1 h2
    have hz := gjStep_none M1 n (2 * n) c hS1 h3
    refine ⟨fun l => if l < c then matFn M1 l c else if l = c then -1 else 0,
      ⟨c, hc, by simp⟩, ?_⟩
    intro k hk
    rw [sumR_eq_sumTo]
    exact hK _ (fun k' hk' => Coupling.kernelAt_sum n c _ hc hB hz k' hk') k hk
  · intro ⟨v, ⟨l, hl, hne⟩, hk⟩
    cases hP : Circuit.inverse n A with
    | none => rfl
    | some P =>
      exact absurd (Coupling.left_inverse_kernel A P n
        (fun a b ha hb => by rw [← sumR_eq_sumTo]; exact inverse_left n A P hP a b ha hb)
        v (fun k hk' => by rw [← sumR_eq_sumTo]; exact hk k hk') l hl) hne

/-- … equivalently: it returns a matrix exactly on regular blocks -/
theorem inverse_isSome_iff (n : Nat) (A : Nat → Nat → Rat) :
    (Circuit.inverse n A).isSome = true ↔ ¬ SingularBlock n A := by
  rw [← inverse_none_iff]
  cases Circuit.inverse n A <;> simp

/-- the model's `sp_M_inv` is `none` exactly when the reduced matrix is singular -/
theorem groundedInv_none_iff (n : Nat) (M : Nat → Nat → Rat) :
    groundedInv n M = none ↔ SingularBlock (n - 1) M := by
  rw [← inverse_none_iff]
  unfold groundedInv
  cases Circuit.inverse (n - 1) M <;> simp

theorem newmanT_none_iff (H : Gr) : newmanT H = none ↔ SingularBlock (H.n - 1) (newmanM H) := by
  rw [newmanT_eq, groundedInv_none_iff]

/-- the measure of a connected network is `none` exactly when its reduced `sp_M` is singular -/
theorem newmanAll_none_iff (H : Gr) (ends : Bool) :
    newmanAll H ends = none ↔ SingularBlock (H.n - 1) (newmanM H) := by
  rw [← newmanT_none_iff, newmanAll_eq]
  cases newmanT H <;> simp

/-- the component-wise value at node `a` fails exactly when `a`'s component has at least two
nodes and the reduced `sp_M` of its sub-network is singular -/
theorem perNode_newman_none_iff (G : Gr) (ends : Bool) (a : Nat) :
    perNode G (newmanSingle G ends) (newmanCompF ends) a = none ↔
      2 ≤ (compNodes G a).length ∧
        SingularBlock ((subGr G (compNodes G a)).n - 1) (newmanM (subGr G (compNodes G a))) := by
  rw [← newmanAll_none_iff _ ends]
  unfold perNode newmanCompF
  simp only
  by_cases hlen : (compNodes G a).length < 2
  · rw [if_pos hlen]
    constructor
    · intro h; cases h
    · intro ⟨h, _⟩; omega
  · rw [if_neg hlen]
    cases newmanAll (subGr G (compNodes G a)) ends with
    | none => simp; omega
    | some vals => simp

/-- the converse of `foldComp_none`: a failing component makes the loop fail -/
theorem foldComp_none_of_mem (G : Gr) (single : Nat → Rat) (f : Gr → Option (List Rat))
    (L : List (List Nat)) (acc : Option (List Rat)) (c : List Nat) (hc : c ∈ L)
    (hlen : ¬ c.length < 2) (hf : f (subGr G c) = none) :
    L.foldl (compStep G single f) acc = none := by
  induction L generalizing acc with
  | nil => cases hc
  | cons d L ih =>
    rw [List.foldl_cons]
    rcases List.mem_cons.mp hc with e | hc'
    · subst e
      have : compStep G single f acc c = none := by
        unfold compStep
        cases acc with
        | none => rfl
        | some res => simp only; rw [if_neg hlen, hf]
      rw [this]
      exact foldl_compStep_none G single f L
    · exact ih _ hc'

/-- the component loop fails exactly when the measure fails on some component with at least two
nodes -/
theorem perComponent_none_iff (G : Gr) (single : Nat → Rat) (f : Gr → Option (List Rat)) :
    perComponent G single f = none ↔
      ∃ c ∈ compList G, 2 ≤ c.length ∧ f (subGr G c) = none := by
  rw [perComponent_eq_foldl]
  constructor
  · intro h
    obtain ⟨c, hc, hlen, hf⟩ := foldComp_none G single f (compList G) _
      (fun c hc => by
        obtain ⟨a, ha, e, _⟩ := (mem_compList G c).mp hc
        rw [e]; exact compNodes_ne_nil G a ha) h
    exact ⟨c, hc, by omega, hf⟩
  · intro ⟨c, hc, hlen, hf⟩
    exact foldComp_none_of_mem G single f _ _ c hc (by omega) hf

/-- **the modelled wrapper of `nsi_newman_betweenness` fails exactly when some component with at
least two nodes has a singular reduced `sp_M`** -/
theorem newmanWrapped_none_iff (G : Gr) (ends : Bool) :
    newmanWrapped G ends = none ↔
      ∃ c ∈ compList G, 2 ≤ c.length ∧
        SingularBlock ((subGr G c).n - 1) (newmanM (subGr G c)) := by
  rw [newmanWrapped_eq, perComponent_none_iff]
  constructor
  · intro ⟨c, hc, hlen, hf⟩
    exact ⟨c, hc, hlen, (newmanAll_none_iff _ ends).mp hf⟩
  · intro ⟨c, hc, hlen, hs⟩
    exact ⟨c, hc, hlen, (newmanAll_none_iff _ ends).mpr hs⟩

end Pyunicorn.Nsi
