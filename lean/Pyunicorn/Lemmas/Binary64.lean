import Mathlib.Tactic.Linarith
import Mathlib.Tactic.Ring
import Mathlib.Tactic.FieldSimp
import Mathlib.Tactic.Positivity
import Mathlib.Algebra.Order.Field.Rat
import Mathlib.Data.Nat.Log
/-!
# C20 — the binary64 product `rescaled * n_bins` stays below `n_bins`

`if (rescaled < 1.0) sym = (int)(rescaled * n_bins);` — the symbol is `< n_bins` only if the
*rounded* product is.  This file proves it for IEEE-754 binary64 with any round-to-nearest rule
(ties in either direction) and every `1 ≤ n_bins < 2^31`, from two facts about the format:
a double below 1 is at most `1 - 2^-53`, and the doubles `n - 2^(e-52)` (the grid point below
`n`, for `2^e ≤ n < 2^(e+1)`) and `(2^53 - 1)·2^(e-53)` exist.  A binary32 value is a binary64
value, so the statement covers the `float` rescaled value of `_mutual_information`, whose product
with `n_bins` is formed in double.
-/
namespace Pyunicorn.B64

/-- finite binary64 values `m · 2^k` / `m / 2^k` with `|m| < 2^53` and `k ≤ 1074` in the second
form (normal and subnormal numbers; the exponent is not bounded above — every value used here
is below `2^31`) -/
def IsB64 (x : Rat) : Prop :=
  ∃ (m : Int) (k : Nat), -(2 : Int) ^ 53 < m ∧ m < (2 : Int) ^ 53 ∧
    (x = (m : Rat) * (2 : Rat) ^ k ∨ (k ≤ 1074 ∧ x = (m : Rat) / (2 : Rat) ^ k))

/-- `rnd` returns a binary64 value nearest to its argument (any tie-breaking rule): no double is
nearer to `x` than `rnd x` -/
def Nearest (rnd : Rat → Rat) : Prop := ∀ x y : Rat, IsB64 y → |rnd x - x| ≤ |y - x|

/-- the arithmetic core: if the grid point `N - 2h` is a double, `x` is at least `h` below `N`
and is itself a double when it is exactly `h` below, then no nearest rounding takes `x` up to `N` -/
theorem near_lt (rnd : Rat → Rat) (hn : Nearest rnd) (x N h : Rat) (hh : 0 < h)
    (hd : h ≤ N - x) (w1 : IsB64 (N - 2 * h)) (w2 : N - x = h → IsB64 x) : rnd x < N := by
  by_contra hcon
  have hge : N ≤ rnd x := not_lt.mp hcon
  have hpos : 0 ≤ rnd x - x := by linarith
  have habs : |rnd x - x| = rnd x - x := abs_of_nonneg hpos
  rcases lt_or_eq_of_le hd with hlt | heq
  · -- strictly more than half a grid step below `N`: the grid point below is nearer
    have h1 := hn x (N - 2 * h) w1
    rw [habs] at h1
    rcases le_total (N - 2 * h) x with hyx | hxy
    · have : |N - 2 * h - x| = x - (N - 2 * h) := by
        rw [abs_sub_comm]; exact abs_of_nonneg (by linarith)
      rw [this] at h1; linarith
    · have : |N - 2 * h - x| = N - 2 * h - x := abs_of_nonneg (by linarith)
      rw [this] at h1; linarith
  · -- exactly half a step below: then `x` is representable and is its own rounding
    have h1 := hn x x (w2 heq.symm)
    rw [habs] at h1
    simp at h1
    linarith

/-- the largest double below 1 is `1 - 2^-53` -/
theorem b64_lt_one_le (r : Rat) (hr : IsB64 r) (h1 : r < 1) : r ≤ 1 - 1 / (2 : Rat) ^ 53 := by
  obtain ⟨m, k, hm1, hm2, h | ⟨_, h⟩⟩ := hr
  · -- an integer below 1 is at most 0
    have hi : ((m * 2 ^ k : Int) : Rat) < ((1 : Int) : Rat) := by
      push_cast; rw [← h]; simpa using h1
    have hi' : m * 2 ^ k < 1 := by exact_mod_cast hi
    have hle : ((m * 2 ^ k : Int) : Rat) ≤ ((0 : Int) : Rat) := by
      exact_mod_cast (by omega : m * 2 ^ k ≤ 0)
    have : r ≤ 0 := by rw [h]; push_cast at hle; simpa using hle
    have hp : (0 : Rat) < 1 - 1 / (2 : Rat) ^ 53 := by norm_num
    linarith
  · have hk : (0 : Rat) < (2 : Rat) ^ k := by positivity
    rcases Nat.lt_or_ge 53 k with hk53 | hk53
    · -- k ≥ 54: |r| < 2^53 / 2^54
      have hmq : (m : Rat) < (2 : Rat) ^ 53 := by exact_mod_cast hm2
      have hpow : (2 : Rat) ^ 54 ≤ (2 : Rat) ^ k :=
        pow_le_pow_right₀ (by norm_num) (by omega)
      have : r < 1 / 2 := by
        rw [h, div_lt_iff₀ hk]
        have : (2 : Rat) ^ 54 = 2 * (2 : Rat) ^ 53 := by norm_num
        nlinarith
      have hp : (1 : Rat) / 2 ≤ 1 - 1 / (2 : Rat) ^ 53 := by norm_num
      linarith
    · -- k ≤ 53: r·2^53 is an integer below 2^53
      obtain ⟨j, hj⟩ : ∃ j, k + j = 53 := ⟨53 - k, by omega⟩
      have hsplit : (2 : Rat) ^ 53 = (2 : Rat) ^ k * (2 : Rat) ^ j := by rw [← pow_add, hj]
      have hr' : r = ((m * 2 ^ j : Int) : Rat) / (2 : Rat) ^ 53 := by
        rw [h, hsplit]; push_cast; field_simp
      have h53 : (0 : Rat) < (2 : Rat) ^ 53 := by positivity
      have hlt : ((m * 2 ^ j : Int) : Rat) < (2 : Rat) ^ 53 := by
        have := h1; rwa [hr', div_lt_one h53] at this
      have hlt' : m * 2 ^ j < (2 : Int) ^ 53 := by exact_mod_cast hlt
      have hle : ((m * 2 ^ j : Int) : Rat) ≤ (((2 : Int) ^ 53 - 1 : Int) : Rat) := by
        exact_mod_cast (by omega : m * 2 ^ j ≤ (2 : Int) ^ 53 - 1)
      rw [hr', div_le_iff₀ h53]
      push_cast at hle
      have : (1 - 1 / (2 : Rat) ^ 53) * (2 : Rat) ^ 53 = (2 : Rat) ^ 53 - 1 := by field_simp
      rw [this]; push_cast; linarith

/-- for `2^e ≤ n < 2^(e+1)` (`e ≤ 52`) the rounded product of a double `r < 1` with `n` is below `n` -/
theorem b64_mul_lt_aux (rnd : Rat → Rat) (hn : Nearest rnd) (r : Rat) (hr : IsB64 r) (h0 : 0 ≤ r)
    (h1 : r < 1) (n : Int) (e k : Nat) (hek : e + k = 52) (hlo : (2 : Int) ^ e ≤ n)
    (hhi : n < (2 : Int) ^ (e + 1)) : rnd (r * (n : Rat)) < (n : Rat) := by
  have hr1 := b64_lt_one_le r hr h1
  have ha : (0 : Rat) < (2 : Rat) ^ e := by positivity
  have hb : (0 : Rat) < (2 : Rat) ^ k := by positivity
  have hab : (2 : Rat) ^ e * (2 : Rat) ^ k = (2 : Rat) ^ 52 := by rw [← pow_add, hek]
  have h53 : (2 : Rat) ^ 53 = 2 * ((2 : Rat) ^ e * (2 : Rat) ^ k) := by rw [hab]; norm_num
  have hnq : (2 : Rat) ^ e ≤ (n : Rat) := by exact_mod_cast hlo
  have hnpos : (0 : Rat) < (n : Rat) := lt_of_lt_of_le ha hnq
  -- half a grid step below n
  have hh : (0 : Rat) < 1 / (2 * (2 : Rat) ^ k) := by positivity
  have hstep : (n : Rat) / (2 : Rat) ^ 53 ≥ 1 / (2 * (2 : Rat) ^ k) := by
    rw [h53, ge_iff_le, div_le_div_iff₀ (by positivity) (by positivity)]
    nlinarith
  have hx : r * (n : Rat) ≤ (n : Rat) - (n : Rat) / (2 : Rat) ^ 53 := by
    have : r * (n : Rat) ≤ (1 - 1 / (2 : Rat) ^ 53) * (n : Rat) :=
      mul_le_mul_of_nonneg_right hr1 (le_of_lt hnpos)
    calc r * (n : Rat) ≤ (1 - 1 / (2 : Rat) ^ 53) * (n : Rat) := this
      _ = (n : Rat) - (n : Rat) / (2 : Rat) ^ 53 := by ring
  apply near_lt rnd hn (r * (n : Rat)) (n : Rat) (1 / (2 * (2 : Rat) ^ k)) hh (by linarith)
  · -- the grid point below n:  n - 1/2^k = (n·2^k - 1)/2^k
    refine ⟨n * 2 ^ k - 1, k, ?_, ?_, Or.inr ⟨by omega, ?_⟩⟩
    · have : (0 : Int) < n * 2 ^ k := Int.mul_pos (by
        have : (0 : Int) < 2 ^ e := by positivity
        omega) (by positivity)
      have : -(2 : Int) ^ 53 < 0 := by norm_num
      omega
    · have h2 : n * 2 ^ k < (2 : Int) ^ (e + 1) * 2 ^ k :=
        Int.mul_lt_mul_of_pos_right hhi (by positivity)
      have : (2 : Int) ^ (e + 1) * 2 ^ k = 2 ^ 53 := by rw [← pow_add]; congr 1; omega
      omega
    · push_cast; field_simp
  · -- exactly half a step: n = 2^e and the product is (2^53 - 1)/2^(k+1)
    intro heq
    refine ⟨2 ^ 53 - 1, k + 1, by norm_num, by norm_num, Or.inr ⟨by omega, ?_⟩⟩
    have hne : (n : Rat) / (2 : Rat) ^ 53 ≤ 1 / (2 * (2 : Rat) ^ k) := by linarith
    have hn2 : (n : Rat) = (2 : Rat) ^ e := by
      apply le_antisymm _ hnq
      rw [h53, div_le_div_iff₀ (by positivity) (by positivity)] at hne
      nlinarith
    have hxe : r * (n : Rat) = (2 : Rat) ^ e - 1 / (2 * (2 : Rat) ^ k) := by rw [← hn2]; linarith
    rw [hxe]
    have hc : (((2 : Int) ^ 53 - 1 : Int) : Rat) = (2 : Rat) ^ 53 - 1 := by norm_num
    rw [hc]
    have : ((2 : Rat) ^ 53 - 1) / (2 : Rat) ^ (k + 1)
        = (2 * ((2 : Rat) ^ e * (2 : Rat) ^ k) - 1) / (2 * (2 : Rat) ^ k) := by
      rw [h53, pow_succ]; ring
    rw [this]; field_simp

/-- **the binary64 product of a double `r < 1` with an integer `1 ≤ n < 2^31`, rounded to nearest,
is strictly below `n`** -/
theorem b64_mul_lt (rnd : Rat → Rat) (hn : Nearest rnd) (r : Rat) (hr : IsB64 r) (h0 : 0 ≤ r)
    (h1 : r < 1) (n : Int) (hn1 : 1 ≤ n) (hn31 : n < 2 ^ 31) : rnd (r * (n : Rat)) < (n : Rat) := by
  obtain ⟨t, rfl⟩ := Int.eq_ofNat_of_zero_le (by omega : 0 ≤ n)
  have ht0 : t ≠ 0 := by omega
  have hlo : 2 ^ Nat.log 2 t ≤ t := Nat.pow_log_le_self 2 ht0
  have hhi : t < 2 ^ (Nat.log 2 t + 1) := Nat.lt_pow_succ_log_self (by norm_num) t
  have he : Nat.log 2 t < 31 := by
    have h31 : t < 2 ^ 31 := by exact_mod_cast hn31
    exact (Nat.pow_lt_pow_iff_right (by norm_num : 1 < 2)).mp (lt_of_le_of_lt hlo h31)
  exact b64_mul_lt_aux rnd hn r hr h0 h1 t (Nat.log 2 t) (52 - Nat.log 2 t) (by omega)
    (by exact_mod_cast hlo) (by exact_mod_cast hhi)

/-- the hypotheses are satisfiable: `1 - 2^-53`, `1/2` and `3` are doubles, and the first is below 1 -/
example : IsB64 (1 - 1 / (2 : Rat) ^ 53) ∧ (1 - 1 / (2 : Rat) ^ 53 : Rat) < 1 :=
  ⟨⟨2 ^ 53 - 1, 53, by norm_num, by norm_num, Or.inr ⟨by norm_num, by norm_num⟩⟩, by norm_num⟩
example : IsB64 (1 / 2) := ⟨1, 1, by norm_num, by norm_num, Or.inr ⟨by norm_num, by norm_num⟩⟩
example : IsB64 3 := ⟨3, 0, by norm_num, by norm_num, Or.inl (by norm_num)⟩

end Pyunicorn.B64
