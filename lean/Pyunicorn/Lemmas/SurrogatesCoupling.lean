import Pyunicorn.Model.SurrogatesCoupling
import Pyunicorn.Lemmas.SurrogatesSpectrum
/-! C15 round 4: the DFT fact behind `CouplingAnalysisPurePython.correlatedNoiseSurrogates`
(`real(ifft(W))` of a full spectrum `W`): if `W` is Hermitian, `W(-k) = conj W(k)`, the inverse
transform is real and its transform is `W` again — every bin, DC and Nyquist included.  That the
array `cnsStep` builds *is* Hermitian with the moduli of the memoised FFT (bins `1 … lenPhase`
rotated, the negative frequencies overwritten by the reversed conjugates, DC / Nyquist untouched) is
tied by the correspondence and searched by the oracle, not proved (see design/C15.md, still open). -/
namespace Pyunicorn.Surrogates
open ZMod Pyunicorn.Surrogates.DFT

/-- `numpy.real(numpy.fft.ifft(W))` -/
noncomputable def realIfft {n : ℕ} [NeZero n] (W : ZMod n → ℂ) (t : ZMod n) : ℝ := (𝓕⁻ W t).re

theorem dft_realIfft_of_hermitian {n : ℕ} [NeZero n] (W : ZMod n → ℂ)
    (hW : ∀ k, W (-k) = (starRingEnd ℂ) (W k)) :
    𝓕 (fun t => ((realIfft W t : ℝ) : ℂ)) = W := by
  have : (fun t => ((realIfft W t : ℝ) : ℂ)) = 𝓕⁻ W := by
    funext t
    exact Complex.conj_eq_iff_re.mp (invDFT_conj W hW t)
  rw [this, LinearEquiv.apply_symm_apply]

/-- without the symmetry the real part of the inverse transform has the spectrum
`(W(k) + conj W(-k)) / 2` — what the `numpy.flipud` version produced -/
theorem dft_realIfft_general {n : ℕ} [NeZero n] (W : ZMod n → ℂ) (k : ZMod n) :
    𝓕 (fun t => ((realIfft W t : ℝ) : ℂ)) k = (W k + (starRingEnd ℂ) (W (-k))) / 2 := by
  let V : ZMod n → ℂ := fun j => (W j + (starRingEnd ℂ) (W (-j))) / 2
  have hV : ∀ j, V (-j) = (starRingEnd ℂ) (V j) := by
    intro j
    simp only [V, neg_neg, map_div₀, map_add, Complex.conj_conj]
    rw [add_comm]
    congr 1
    exact (Complex.conj_ofNat 2).symm
  have hre : ∀ t, ((realIfft W t : ℝ) : ℂ) = 𝓕⁻ V t := by
    intro t
    have hc : (starRingEnd ℂ) (𝓕⁻ W t) = 𝓕⁻ (fun j => (starRingEnd ℂ) (W (-j))) t := by
      simp only [invDFT_apply, smul_eq_mul, map_mul, map_sum, map_inv₀, Complex.conj_natCast,
        conj_stdAddChar]
      congr 1
      exact Fintype.sum_equiv (Equiv.neg _) _ _ (fun j => by simp)
    have hlin : 𝓕⁻ V t = (𝓕⁻ W t + 𝓕⁻ (fun j => (starRingEnd ℂ) (W (-j))) t) / 2 := by
      simp only [V, invDFT_apply, smul_eq_mul]
      rw [← mul_add, ← Finset.sum_add_distrib, mul_div_assoc, Finset.sum_div]
      congr 2
      funext j
      ring
    rw [hlin, ← hc, realIfft, Complex.add_conj]
    push_cast
    ring
  have : (fun t => ((realIfft W t : ℝ) : ℂ)) = 𝓕⁻ V := funext hre
  rw [this, LinearEquiv.apply_symm_apply]

end Pyunicorn.Surrogates
