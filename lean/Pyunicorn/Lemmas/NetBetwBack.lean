import Pyunicorn.Lemmas.NetBetwSpec
import Pyunicorn.Lemmas.NetBetwPaths
import Pyunicorn.Lemmas.NetDist
import Pyunicorn.Lemmas.NetBetwAsm
import Mathlib.Data.List.Perm.Lattice
import Mathlib.Algebra.BigOperators.Group.List.Basic
/-!
Round 5: the backward sweep of `_nsi_betweenness` run on a state satisfying `FwdOK` solves the
accumulation recursion `BrandesSol`.
-/
namespace Pyunicorn.NetBetw
open Pyunicorn.Net

theorem getD_set_rat' (l : List Rat) (i k : Nat) (x : Rat) :
    (l.set i x).getD k 0 = if i = k ∧ i < l.length then x else l.getD k 0 := by
  grind

/-- the inner loop `for i in predecessors of l`: every listed `i` receives `b[l] * c * m i` -/
theorem inner_fold (l : Nat) (c : Rat) (m : Nat → Rat) :
    ∀ (ps : List Nat) (b : List Rat), ps.Nodup → l ∉ ps →
      let r := ps.foldl (fun b i => b.set i (b.getD i 0 + b.getD l 0 * c * m i)) b
      r.length = b.length ∧ ∀ v, r.getD v 0 =
        if v ∈ ps ∧ v < b.length then b.getD v 0 + b.getD l 0 * c * m v else b.getD v 0 := by
  intro ps
  induction ps with
  | nil => intro b _ _; simp
  | cons i t ih =>
    intro b hnd hl
    simp only [List.foldl_cons]
    have hil : i ≠ l := fun e => hl (by simp [e])
    have hit : i ∉ t := (List.nodup_cons.mp hnd).1
    obtain ⟨h1, h2⟩ := ih (b.set i (b.getD i 0 + b.getD l 0 * c * m i)) (List.nodup_cons.mp hnd).2
      (fun e => hl (by simp [e]))
    refine ⟨by rw [h1]; simp, ?_⟩
    intro v
    rw [h2 v]
    simp only [List.length_set, getD_set_rat', List.mem_cons]
    have hl' : ¬ (i = l ∧ i < b.length) := fun e => hil e.1
    rw [if_neg hl']
    by_cases hv : v = i
    · subst hv
      simp [hit]
    · have : ¬ (i = v ∧ i < b.length) := fun e => hv e.1.symm
      simp [hv, this]

section
variable {n : Nat} {a : Adj} {w : Nat → Rat} {j : Nat} {offsets : List Nat} {s : Fwd}

/-- the definition's predecessors of `l` in queue order -/
def prq (a : Adj) (n : Nat) (j : Nat) (s : Fwd) (l : Nat) : List Nat :=
  s.queue.filter fun i => isPred a (dist n a) j i l

/-- the sweep on the first array alone -/
def step1 (a : Adj) (n : Nat) (w : Nat → Rat) (j : Nat) (s : Fwd) (b : List Rat) (l : Nat) : List Rat :=
  (prq a n j s l).foldl
    (fun b i => b.set i (b.getD i 0 + b.getD l 0 * (w l / s.mult.getD l 0) * s.mult.getD i 0)) b

theorem back_eq (h : FwdOK n a w j offsets s) (be : List Rat × List Rat) {l : Nat} (hl : l ∈ s.queue)
    (hne : l ≠ j) : back offsets w j s be l = (step1 a n w j s be.1 l, be.2) := by
  unfold back step1 prq
  rw [if_neg hne]
  simp only []
  rw [h.preds_eq l hl]

theorem isPred_lt {d : DistFn} {i l : Nat} (hp : isPred a d j i l = true) :
    ∃ x y, d j i = some x ∧ d j l = some y ∧ x + 1 = y ∧ a i l = true := by
  unfold isPred at hp
  cases hx : d j i with
  | none => simp [hx] at hp
  | some x =>
    cases hy : d j l with
    | none => simp [hx, hy] at hp
    | some y =>
      simp only [hx, hy, Bool.and_eq_true, beq_iff_eq] at hp
      exact ⟨x, y, rfl, rfl, hp.2, hp.1⟩

theorem isPred_distK {i l : Nat} (hp : isPred a (dist n a) j i l = true) :
    distK n a j i < distK n a j l := by
  obtain ⟨x, y, hx, hy, hxy, _⟩ := isPred_lt hp
  unfold distK; rw [hx, hy]; simp; omega

theorem prq_nodup (h : FwdOK n a w j offsets s) (l : Nat) : (prq a n j s l).Nodup :=
  h.queue_nodup.filter _

theorem not_mem_prq_self (l : Nat) : l ∉ prq a n j s l := by
  intro hc
  have := isPred_distK (List.mem_filter.mp hc).2
  simp at this

theorem step1_spec (h : FwdOK n a w j offsets s) (b : List Rat) (l : Nat) :
    (step1 a n w j s b l).length = b.length ∧ ∀ v, (step1 a n w j s b l).getD v 0 =
      if v ∈ prq a n j s l ∧ v < b.length then
        b.getD v 0 + b.getD l 0 * (w l / s.mult.getD l 0) * s.mult.getD v 0
      else b.getD v 0 :=
  inner_fold l _ _ _ b (prq_nodup h l) (not_mem_prq_self l)

/-- the sweep over a list `R` of nodes none of which is a predecessor of itself or of a later one:
every cell ends as its initial value plus the contributions of the nodes of `R` it precedes, each
taken with that node's FINAL value -/
theorem sweep_spec (h : FwdOK n a w j offsets s) :
    ∀ (R : List Nat) (b : List Rat),
      R.Pairwise (fun l l' => l ∉ prq a n j s l') →
      let bf := R.foldl (step1 a n w j s) b
      bf.length = b.length ∧ ∀ v, v < b.length → bf.getD v 0 = b.getD v 0 +
        (R.map fun l' => if v ∈ prq a n j s l' then
          bf.getD l' 0 * (w l' / s.mult.getD l' 0) * s.mult.getD v 0 else 0).sum := by
  intro R
  induction R with
  | nil => intro b _; simp
  | cons l t ih =>
    intro b hpw
    simp only [List.foldl_cons]
    obtain ⟨hlen1, hget1⟩ := step1_spec h b l
    obtain ⟨hlenf, hgetf⟩ := ih (step1 a n w j s b l) (List.pairwise_cons.mp hpw).2
    refine ⟨by rw [hlenf, hlen1], ?_⟩
    intro v hv
    -- the value of `l` is final after its own step
    have hfin : (t.foldl (step1 a n w j s) (step1 a n w j s b l)).getD l 0 = b.getD l 0 := by
      by_cases hl : l < b.length
      · rw [hgetf l (by rw [hlen1]; exact hl), hget1 l, if_neg (fun e => not_mem_prq_self l e.1)]
        have : (t.map fun l' => if l ∈ prq a n j s l' then
            (t.foldl (step1 a n w j s) (step1 a n w j s b l)).getD l' 0 * (w l' / s.mult.getD l' 0)
              * s.mult.getD l 0 else 0) = t.map fun _ => (0 : Rat) := by
          apply List.map_congr_left
          intro l' hl'
          rw [if_neg ((List.pairwise_cons.mp hpw).1 l' hl')]
        rw [this]; simp
      · have h1 : (t.foldl (step1 a n w j s) (step1 a n w j s b l)).length ≤ l := by
          rw [hlenf, hlen1]; omega
        simp [List.getD, List.getElem?_eq_none h1, List.getElem?_eq_none (show b.length ≤ l by omega)]
    rw [hgetf v (by rw [hlen1]; exact hv), hget1 v, List.map_cons, List.sum_cons, hfin]
    by_cases hm : v ∈ prq a n j s l
    · rw [if_pos ⟨hm, hv⟩, if_pos hm]; ring
    · rw [if_neg (fun e => hm e.1), if_neg hm]; ring

theorem fold_back_eq (h : FwdOK n a w j offsets s) :
    ∀ (R : List Nat) (b e : List Rat), (∀ l, l ∈ R → l ∈ s.queue ∧ l ≠ j) →
      R.foldl (back offsets w j s) (b, e) = (R.foldl (step1 a n w j s) b, e) := by
  intro R
  induction R with
  | nil => intro b e _; rfl
  | cons l t ih =>
    intro b e hm
    simp only [List.foldl_cons]
    rw [back_eq h (b, e) (hm l (by simp)).1 (hm l (by simp)).2]
    exact ih _ _ (fun x hx => hm x (by simp [hx]))

theorem excessInit_length (n : Nat) (w : Nat → Rat) (isSrc : List Bool) :
    (excessInit n w isSrc).length = n := by simp [excessInit]

theorem excessInit_getD (n : Nat) (w : Nat → Rat) (isSrc : List Bool) (l : Nat) (hl : l < n) :
    (excessInit n w isSrc).getD l 0 = excess w isSrc l := by
  unfold excessInit excess
  rw [getD_map_range_rat n _ l hl]

theorem mem_prq_iff {v l : Nat} (hv : v ∈ s.queue) :
    v ∈ prq a n j s l ↔ isPred a (dist n a) j v l = true := by
  simp [prq, hv]

/-- **backward sweep ⇒ `BrandesSol`**: after the loop over the reversed queue the first array solves
the accumulation recursion, the second holds the excess (0 at `j`) -/
theorem back_brandesSol (n : Nat) (a : Adj) (w : Nat → Rat) (isSrc : List Bool) (j : Nat) (hj : j < n)
    (offsets : List Nat) (s : Fwd) (h : FwdOK n a w j offsets s) :
    let be := s.queue.reverse.foldl (back offsets w j s) (excessInit n w isSrc, excessInit n w isSrc)
    BrandesSol n a w isSrc j (fun l => be.1.getD l 0) ∧
      (∀ l, l < n → be.2.getD l 0 = if l = j then 0 else excess w isSrc l) := by
  obtain ⟨q', hq⟩ : ∃ q', s.queue = j :: q' := by
    have := h.queue_head
    cases hq : s.queue with
    | nil => simp [hq] at this
    | cons x t => simp [hq] at this; exact ⟨t, by rw [this]⟩
  have hnd := h.queue_nodup
  rw [hq, List.nodup_cons] at hnd
  have hq'mem : ∀ l, l ∈ q'.reverse → l ∈ s.queue ∧ l ≠ j := by
    intro l hl
    have hl' : l ∈ q' := List.mem_reverse.mp hl
    exact ⟨by rw [hq]; simp [hl'], fun e => hnd.1 (e ▸ hl')⟩
  have hDj : dist n a j j = some 0 := DistL.dist_self n a j hj
  have hpw : q'.reverse.Pairwise (fun l l' => l ∉ prq a n j s l') := by
    rw [List.pairwise_reverse]
    have hs := h.queue_sorted
    rw [hq, List.pairwise_cons] at hs
    refine hs.2.imp ?_
    intro x y hxy hc
    have := isPred_distK (List.mem_filter.mp hc).2
    omega
  obtain ⟨hlen, hget⟩ := sweep_spec h q'.reverse (excessInit n w isSrc) hpw
  intro be
  have hbe : be = ((q'.reverse.foldl (step1 a n w j s) (excessInit n w isSrc)).set j 0,
      (excessInit n w isSrc).set j 0) := by
    show s.queue.reverse.foldl (back offsets w j s) (excessInit n w isSrc, excessInit n w isSrc) = _
    rw [hq, List.reverse_cons, List.foldl_append, fold_back_eq h _ _ _ hq'mem]
    simp [back]
  generalize hbf : q'.reverse.foldl (step1 a n w j s) (excessInit n w isSrc) = bf at hlen hget hbe
  rw [excessInit_length] at hlen hget
  have hβ : ∀ l, l ≠ j → be.1.getD l 0 = bf.getD l 0 := by
    intro l hl
    rw [hbe]; simp only []
    rw [getD_set_rat', if_neg (fun e => hl e.1.symm)]
  have hinq : ∀ l, l < n → ((dist n a j l).isSome = true ↔ l ∈ s.queue) :=
    fun l hl => (h.queue_mem l hl).symm
  refine ⟨⟨?_, ?_, ?_⟩, ?_⟩
  · -- unreachable nodes keep their excess
    intro l hl hnone
    have hlj : l ≠ j := by intro e; rw [e, hDj] at hnone; simp at hnone
    have hlq : l ∉ s.queue := by
      intro hc; have := (hinq l hl).mpr hc; rw [hnone] at this; simp at this
    show be.1.getD l 0 = _
    rw [hβ l hlj, hget l hl, excessInit_getD n w isSrc l hl]
    have : (q'.reverse.map fun l' => if l ∈ prq a n j s l' then
        bf.getD l' 0 * (w l' / s.mult.getD l' 0) * s.mult.getD l 0 else 0)
        = q'.reverse.map fun _ => (0 : Rat) := by
      apply List.map_congr_left
      intro l' _
      have hn : l ∉ prq a n j s l' := fun hc => hlq (List.mem_filter.mp hc).1
      rw [if_neg hn]
    rw [this]; simp
  · show be.1.getD j 0 = 0
    rw [hbe]; simp only []
    rw [getD_set_rat', if_pos ⟨rfl, by rw [hlen]; exact hj⟩]
  · intro l hl hlj hsome
    have hlq : l ∈ s.queue := (hinq l hl).mp hsome
    show be.1.getD l 0 = _
    rw [hβ l hlj, hget l hl, excessInit_getD n w isSrc l hl]
    congr 1
    -- rewrite the list sum with the Boolean predicate
    have h1 : (q'.reverse.map fun l' => if l ∈ prq a n j s l' then
        bf.getD l' 0 * (w l' / s.mult.getD l' 0) * s.mult.getD l 0 else 0)
        = q'.reverse.map fun l' => if isPred a (dist n a) j l l' then
            bf.getD l' 0 * (w l' / s.mult.getD l' 0) * s.mult.getD l 0 else 0 := by
      apply List.map_congr_left
      intro l' _
      by_cases hp : isPred a (dist n a) j l l' = true
      · rw [if_pos ((mem_prq_iff hlq).mpr hp), if_pos hp]
      · rw [if_neg (fun e => hp ((mem_prq_iff hlq).mp e)), if_neg hp]
    rw [h1, sum_ite_eq_filter, sumToQ_ite_eq_filter]
    have hperm : (q'.reverse.filter fun l' => isPred a (dist n a) j l l').Perm
        ((List.range n).filter fun l' => isPred a (dist n a) j l l') := by
      rw [List.perm_ext_iff_of_nodup ((List.nodup_reverse.mpr hnd.2).filter _)
        (List.nodup_range.filter _)]
      intro l'
      simp only [List.mem_filter, List.mem_range, List.mem_reverse]
      constructor
      · rintro ⟨hm, hp⟩
        exact ⟨h.queue_lt l' (by rw [hq]; simp [hm]), hp⟩
      · rintro ⟨hl', hp⟩
        obtain ⟨x, y, _, hy, hxy, _⟩ := isPred_lt hp
        have hmem : l' ∈ s.queue := (hinq l' hl').mp (by rw [hy]; rfl)
        have hne : l' ≠ j := by intro e; rw [e, hDj] at hy; simp at hy; omega
        rw [hq] at hmem
        simp only [List.mem_cons] at hmem
        rcases hmem with e | hm
        · exact absurd e hne
        · exact ⟨hm, hp⟩
    rw [← (hperm.map _).sum_eq]
    congr 1
    apply List.map_congr_left
    intro l' hl'
    simp only [List.mem_filter, List.mem_reverse] at hl'
    have hl'q : l' ∈ s.queue := by rw [hq]; simp [hl'.1]
    have hl'j : l' ≠ j := fun e => hnd.1 (e ▸ hl'.1)
    rw [hβ l' hl'j, h.mult_eq l' (h.queue_lt l' hl'q), h.mult_eq l hl]
  · intro l hl
    rw [hbe]; simp only []
    rw [getD_set_rat', excessInit_length, excessInit_getD n w isSrc l hl]
    by_cases e : l = j
    · subst e; simp [hl]
    · rw [if_neg (fun c => e c.1.symm), if_neg e]

end

end Pyunicorn.NetBetw
