import Pyunicorn.Model.SurrogatesWalkK
import Pyunicorn.Lemmas.SurrogatesKernelW
/-! C15 round 5: the loop-level model of the walk kernels on the generated expressions
(`Model/SurrogatesWalkK.lean`) equals the abstract walk (`next`, `walkFrom`, `walkRows`,
`walkRep` of `Model/Surrogates.lean`) for every table, every length, every cursor and every stream
of non-negative draws.  An edit of any expression of the two loops in numerics.pyx changes
`walkArithS` / `walkArithR`, and `walkArithS_std` / `walkArithR_std` (`rfl`) no longer build. -/
namespace Pyunicorn.Surrogates
open Pyunicorn.Generated

/-- the expressions the abstract walk `next` / `walkFrom` is written with -/
def stdWalk : WalkArith :=
  { start := fun u N => u * ((N : Int) : Rat)
    draw := fun u nt => u * (((nt + 1 : Int)) : Rat)
    restart := fun u N => u * ((N : Int) : Rat)
    loop := fun j N => decide (j < N)
    twIdx := fun k => k
    noTwins := fun nt => decide (nt = 0)
    stepA := fun k => k + 1
    own := fun r nt => decide (r = nt)
    stepB := fun k => k + 1
    jumpIdx := fun r => r
    stepC := fun k => k + 1
    atEnd := fun k N => decide (k ≥ N)
    accept := fun nk k => decide (nk ≠ k)
    newK := fun nk => nk
    jStep := fun j => j + 1
    loadIdx := fun _ k => k
    storeIdx := fun _ j => j }

theorem walkArithS_std : walkArithS = stdWalk := rfl
theorem walkArithR_std : walkArithR = stdWalk := rfl

/-- `int(floor(u * m))` in the kernel's `int` is the abstract pick, for a non-negative draw -/
theorem intFloor_mul (u : Nat → Rat) (hu : ∀ c, 0 ≤ u c) (c m : Nat) :
    intFloor (u c * (((m : Nat) : Int) : Rat)) = ((floorPick u c m : Nat) : Int) := by
  unfold intFloor floorPick
  rw [Rat.intCast_natCast]
  have h0 : (0 : Int) ≤ (u c * (m : Rat)).floor := by
    rw [Rat.le_floor_iff]
    have hm : (0 : Rat) ≤ (m : Rat) := by exact_mod_cast Nat.zero_le m
    simpa using Rat.mul_nonneg (hu c) hm
  omega

theorem idxInt_natCast {β : Type} (xs : List β) (k : Nat) : idxInt xs (k : Int) = xs[k]? := by
  unfold idxInt
  rw [if_neg (by omega), Int.toNat_natCast]

/-- a draw in [0,1) never returns the state the restart loop is leaving (`new_k < N ≤ k`, and
`new_k = 0 < k` for `N = 0`): the first round of `while True` ends the loop -/
theorem restart_first_round (N : Nat) (u : Nat → Rat) (hu : ∀ c, 0 ≤ u c ∧ u c < 1)
    (k' c' : Nat) (h1 : 1 ≤ k') (hN : N ≤ k') : floorPick u c' N ≠ k' := by
  rcases Nat.eq_zero_or_pos N with h0 | hpos
  · subst h0
    have : floorPick u c' 0 = 0 := by
      have h : ((0 : Int) : Rat).floor = 0 := Rat.floor_intCast 0
      simp [floorPick] at *
      omega
    omega
  · have := floorPick_good u hu c' N hpos
    omega

theorem restartK_std (N : Nat) (u : Nat → Rat) (hu : ∀ c, 0 ≤ u c ∧ u c < 1)
    (k' c' : Nat) (h1 : 1 ≤ k') (hN : N ≤ k') :
    restartK stdWalk (N : Int) u (k' : Int) restartFuel c'
      = some (((floorPick u c' N : Nat) : Int), c' + 1) := by
  have hne := restart_first_round N u hu k' c' h1 hN
  have hne' : ¬ ((floorPick u c' N : Nat) : Int) = (k' : Int) := by omega
  have hr : stdWalk.restart (u c') (N : Int) = u c' * (((N : Nat) : Int) : Rat) := rfl
  show restartK stdWalk (N : Int) u (k' : Int) (63 + 1) c' = _
  simp only [restartK, hr, intFloor_mul u (fun c => (hu c).1)]
  simp [stdWalk, hne']

/-- one pass through the loop body -/
theorem nextK_std (N : Nat) (tw : List (List Nat)) (u : Nat → Rat) (hu : ∀ c, 0 ≤ u c ∧ u c < 1)
    (k c : Nat) :
    nextK stdWalk (N : Int) tw u (k : Int) c
      = (next N tw (floorPick u) k c).map (fun p => ((p.1 : Int), p.2)) := by
  have hu0 : ∀ c, 0 ≤ u c := fun c => (hu c).1
  unfold nextK next
  simp only [stdWalk, idxInt_natCast]
  cases htw : tw[k]? with
  | none => rfl
  | some twk =>
    simp only []
    have hrestart : ∀ (k' : Nat) (c' : Nat), 1 ≤ k' →
        (if decide (((k' : Nat) : Int) ≥ (N : Int)) = true then
          restartK stdWalk (N : Int) u (k' : Int) restartFuel c'
         else some (((k' : Nat) : Int), c'))
        = (if k' ≥ N then
            (if floorPick u c' N ≠ k' then some (floorPick u c' N, c' + 1) else none)
           else some (k', c')).map (fun p : Nat × Nat => ((p.1 : Int), p.2)) := by
      intro k' c' hk1
      by_cases h1 : k' ≥ N
      · have hne := restart_first_round N u hu k' c' hk1 h1
        rw [restartK_std N u hu k' c' hk1 h1]
        simp [h1, hne]
      · have : ¬ (N : Int) ≤ (k' : Int) := by omega
        simp [h1, this]
    by_cases hnt : twk.length = 0
    · simp only [if_true, hnt]
      have := hrestart (k + 1) c (by omega)
      simpa [stdWalk] using this
    · have h0 : ¬ ((twk.length : Nat) : Int) = 0 := by omega
      have hcast : ((twk.length : Nat) : Int) + 1 = (((twk.length + 1 : Nat)) : Int) := by omega
      simp only [h0, decide_false, hnt, if_false, Bool.false_eq_true, hcast, intFloor_mul u hu0]
      by_cases hr : floorPick u c (twk.length + 1) = twk.length
      · have : ((floorPick u c (twk.length + 1) : Nat) : Int) = (twk.length : Int) := by omega
        simp only [decide_true, if_true, hr]
        have := hrestart (k + 1) (c + 1) (by omega)
        simpa [stdWalk] using this
      · have : ¬ ((floorPick u c (twk.length + 1) : Nat) : Int) = (twk.length : Int) := by omega
        simp only [this, decide_false, Bool.false_eq_true, if_false, hr, idxInt_natCast]
        cases ht : twk[floorPick u c (twk.length + 1)]? with
        | none => rfl
        | some t =>
          simp only []
          have := hrestart (t + 1) (c + 1) (by omega)
          simpa [stdWalk] using this

/-- the result of the kernel model read as the abstract model's result -/
def castRow (p : List Nat × Nat) : List Int × Nat := (p.1.map Int.ofNat, p.2)
def castRows (p : List (List Nat) × Nat) : List (List Int) × Nat :=
  (p.1.map (·.map Int.ofNat), p.2)

/-- `while j < N` from position `j` with exactly the fuel `N - j` -/
theorem walkFromK_std (N : Nat) (tw : List (List Nat)) (u : Nat → Rat) (hu : ∀ c, 0 ≤ u c ∧ u c < 1)
    (i : Int) : ∀ (f j k c : Nat), j + f = N →
      walkFromK stdWalk i (N : Int) tw u f (j : Int) (k : Int) c
        = (walkFrom N tw (floorPick u) f k c).map castRow := by
  intro f
  induction f with
  | zero =>
    intro j k c hj
    have : ¬ ((j : Int) < (N : Int)) := by omega
    simp [walkFromK, walkFrom, stdWalk, this, castRow]
  | succ f ih =>
    intro j k c hj
    have hlt : ((j : Int) < (N : Int)) := by omega
    unfold walkFromK walkFrom
    have hl : stdWalk.loop (j : Int) (N : Int) = true := by simp [stdWalk, hlt]
    have hld : stdWalk.loadIdx i (k : Int) = (k : Int) := rfl
    have hst : stdWalk.storeIdx i (j : Int) = (j : Int) := rfl
    have hjs : stdWalk.jStep (j : Int) = ((j + 1 : Nat) : Int) := by simp [stdWalk]
    simp only [hl, if_true, hld, hst, hjs, ne_eq, not_true_eq_false, or_false]
    by_cases hk : k < N
    · have h1 : ¬ (((k : Int) < 0) ∨ ((N : Int) ≤ (k : Int))) := by omega
      rw [if_neg h1, if_pos hk, nextK_std N tw u hu]
      cases hn : next N tw (floorPick u) k c with
      | none => rfl
      | some p =>
        obtain ⟨k', c'⟩ := p
        simp only [Option.map_some]
        rw [ih (j + 1) k' c' (by omega)]
        cases walkFrom N tw (floorPick u) f k' c' with
        | none => rfl
        | some q => simp [castRow]
    · have h1 : (((k : Int) < 0) ∨ ((N : Int) ≤ (k : Int))) := by omega
      rw [if_pos h1, if_neg hk]
      rfl

theorem walkRowK_std (N : Nat) (tw : List (List Nat)) (u : Nat → Rat) (hu : ∀ c, 0 ≤ u c ∧ u c < 1)
    (i : Int) (c : Nat) :
    walkRowK stdWalk i (N : Int) tw u c = (walkRow N tw (floorPick u) c).map castRow := by
  unfold walkRowK walkRow
  have hs : stdWalk.start (u c) (N : Int) = u c * (((N : Nat) : Int) : Rat) := rfl
  rw [hs, intFloor_mul u (fun c => (hu c).1), Int.toNat_natCast]
  exact walkFromK_std N tw u hu i N 0 (floorPick u c N) (c + 1) (by omega)

theorem walkRowsK_std (N : Nat) (u : Nat → Rat) (hu : ∀ c, 0 ≤ u c ∧ u c < 1) :
    ∀ (tws : List (List (List Nat))) (i : Int) (c : Nat),
      walkRowsK stdWalk (N : Int) u tws i c = (walkRows N (floorPick u) tws c).map castRows := by
  intro tws
  induction tws with
  | nil => intro i c; rfl
  | cons tw rest ih =>
    intro i c
    unfold walkRowsK walkRows
    rw [walkRowK_std N tw u hu]
    cases walkRow N tw (floorPick u) c with
    | none => rfl
    | some p =>
      obtain ⟨l, c'⟩ := p
      simp only [Option.map_some, castRow]
      rw [ih]
      cases walkRows N (floorPick u) rest c' with
      | none => rfl
      | some q => simp [castRows]

/-- `_twin_surrogates_s` on the expressions of the source = the abstract walk -/
theorem walkKernelS_eq (N : Nat) (u : Nat → Rat) (hu : ∀ c, 0 ≤ u c ∧ u c < 1)
    (tws : List (List (List Nat))) (c : Nat) :
    walkKernelS N u tws c = (walkRows N (floorPick u) tws c).map castRows := by
  unfold walkKernelS
  rw [walkArithS_std]
  exact walkRowsK_std N u hu tws 0 c

/-- `_twin_surrogates_r` on the expressions of the source = the abstract walk -/
theorem walkKernelR_eq (N : Nat) (tw : List (List Nat)) (u : Nat → Rat) (hu : ∀ c, 0 ≤ u c ∧ u c < 1)
    (ns c : Nat) :
    walkKernelR N tw u ns c = (walkRep N tw (floorPick u) ns c).map castRows := by
  unfold walkKernelR walkRep
  rw [walkArithR_std]
  exact walkRowsK_std N u hu _ 0 c

/-! ### the whole methods on the source's expressions -/

theorem gatherInt_cast {α : Type} (xs : List α) (l : List Nat) :
    gatherInt xs (l.map Int.ofNat) = gather xs l := by
  induction l with
  | nil => rfl
  | cons i is ih =>
    have hi : idxInt xs (Int.ofNat i) = xs[i]? := idxInt_natCast xs i
    simp only [List.map_cons, gatherInt, gather, ih, hi]
    cases xs[i]? <;> cases gather xs is <;> rfl

theorem rowsM_gatherInt_cast {α : Type} (data : List (List α)) (ls : List (List Nat)) :
    rowsM gatherInt data (ls.map (·.map Int.ofNat)) = rowsM gather data ls := by
  induction data generalizing ls with
  | nil => rfl
  | cons r rs ih =>
    cases ls with
    | nil => rfl
    | cons l ls => simp only [List.map_cons, rowsM, gatherInt_cast, ih]

theorem mapM_gatherInt_cast {α : Type} (xs : List α) (ls : List (List Nat)) :
    (ls.map (·.map Int.ofNat)).mapM (gatherInt xs) = ls.mapM (gather xs) := by
  induction ls with
  | nil => rfl
  | cons l ls ih => simp only [List.map_cons, List.mapM_cons, gatherInt_cast, ih]

theorem twinSurrogatesSrc_eq (bits : Nat) (data : List (List Rat)) (dim delay : Nat) (thr : Rat)
    (md : Nat) (u : Nat → Rat) (hu : ∀ c, 0 ≤ u c ∧ u c < 1) (g : Nat → Nat → Bool) (gn : Nat → Int) :
    twinSurrogatesSrc bits data dim delay thr md u g gn
      = twinSurrogatesKW bits data dim delay thr md (floorPick u) g gn := by
  unfold twinSurrogatesSrc twinSurrogatesKW
  cases data.mapM (embedK · dim delay) with
  | none => rfl
  | some embs =>
    simp only [walkKernelS_eq _ u hu]
    cases walkRows _ (floorPick u) (twinsMethodW bits thr md embs g gn) 0 with
    | none => rfl
    | some p => simp only [Option.map_some, castRows, rowsM_gatherInt_cast]

theorem rpTwinSurrogatesSrc_eq (md ns : Nat) (R : List (List Bool)) (emb : List (List Rat))
    (hS : Square R.length R) (u : Nat → Rat) (hu : ∀ c, 0 ≤ u c ∧ u c < 1) :
    rpTwinSurrogatesSrc md ns R emb u = rpTwinSurrogates md ns R emb (floorPick u) := by
  unfold rpTwinSurrogatesSrc rpTwinSurrogates
  rw [rpTwinsKW_eq md R hS, walkKernelR_eq _ _ u hu]
  cases walkRep emb.length (rpTwins md R) (floorPick u) ns 0 with
  | none => rfl
  | some p => simp only [Option.map_some, castRows, mapM_gatherInt_cast]

end Pyunicorn.Surrogates
