import Pyunicorn.Model.Coupling
import Mathlib.Algebra.Order.Field.Rat
import Mathlib.Tactic.Linarith
/-! Lemmas about `_quantile_bin_array` (`sortAsc`, `everyNth`, `quantileSym`). -/
namespace Pyunicorn.Coupling

theorem mem_insertAsc (a y : Rat) (l : List Rat) : y ∈ insertAsc a l ↔ y = a ∨ y ∈ l := by
  induction l with
  | nil => simp [insertAsc]
  | cons b l ih =>
    simp only [insertAsc]
    split
    · simp
    · simp only [List.mem_cons, ih]
      constructor
      · rintro (h | h | h)
        · exact Or.inr (Or.inl h)
        · exact Or.inl h
        · exact Or.inr (Or.inr h)
      · rintro (h | h | h)
        · exact Or.inr (Or.inl h)
        · exact Or.inl h
        · exact Or.inr (Or.inr h)

theorem mem_sortAsc (y : Rat) (l : List Rat) : y ∈ sortAsc l ↔ y ∈ l := by
  induction l with
  | nil => simp [sortAsc]
  | cons a l ih =>
    have : sortAsc (a :: l) = insertAsc a (sortAsc l) := rfl
    rw [this, mem_insertAsc, ih]; simp

theorem length_insertAsc (a : Rat) (l : List Rat) : (insertAsc a l).length = l.length + 1 := by
  induction l with
  | nil => rfl
  | cons b l ih =>
    simp only [insertAsc]
    split
    · rfl
    · simp [ih]

theorem length_sortAsc (l : List Rat) : (sortAsc l).length = l.length := by
  induction l with
  | nil => rfl
  | cons a l ih =>
    have : sortAsc (a :: l) = insertAsc a (sortAsc l) := rfl
    rw [this, length_insertAsc, ih]; rfl

theorem sorted_insertAsc (a : Rat) (l : List Rat) (h : l.Pairwise (· ≤ ·)) :
    (insertAsc a l).Pairwise (· ≤ ·) := by
  induction l with
  | nil => simp [insertAsc]
  | cons b l ih =>
    simp only [insertAsc]
    have hb := List.pairwise_cons.mp h
    split
    · rename_i hab
      refine List.pairwise_cons.mpr ⟨?_, h⟩
      intro y hy
      rcases List.mem_cons.mp hy with e | e
      · rw [e]; exact hab
      · exact le_trans hab (hb.1 y e)
    · rename_i hab
      refine List.pairwise_cons.mpr ⟨?_, ih hb.2⟩
      intro y hy
      rcases (mem_insertAsc a y l).mp hy with e | e
      · rw [e]; exact le_of_lt (not_le.mp hab)
      · exact hb.1 y e

theorem sorted_sortAsc (l : List Rat) : (sortAsc l).Pairwise (· ≤ ·) := by
  induction l with
  | nil => simp [sortAsc]
  | cons a l ih => exact sorted_insertAsc a _ ih

/-- the first element of the sorted row is a lower bound of the row -/
theorem sortAsc_head_le (l : List Rat) (h : Rat) (t : List Rat) (e : sortAsc l = h :: t) (y : Rat)
    (hy : y ∈ l) : h ≤ y := by
  have hs := sorted_sortAsc l
  rw [e] at hs
  have hy' : y ∈ h :: t := by rw [← e]; exact (mem_sortAsc y l).mpr hy
  rcases List.mem_cons.mp hy' with e' | e'
  · rw [e']
  · exact (List.pairwise_cons.mp hs).1 y e'

theorem everyNth_cons (step : Nat) (a : Rat) (l : List Rat) :
    everyNth step (a :: l) = a :: everyNth step (l.drop (step - 1)) := by
  rw [everyNth]

theorem everyNth_nil (step : Nat) : everyNth step [] = [] := by
  rw [everyNth]

/-- `len(l[::step]) = ceil(len(l) / step)`, in the multiplication-free form
`(len - 1)·step < len(l)` … -/
theorem everyNth_length_mul (step : Nat) (hs : 1 ≤ step) (n : Nat) :
    ∀ l : List Rat, l.length ≤ n → (everyNth step l).length * step < l.length + step := by
  induction n with
  | zero =>
    intro l hl
    have : l = [] := List.eq_nil_of_length_eq_zero (by omega)
    subst this
    rw [everyNth_nil]; simp; omega
  | succ n ih =>
    intro l hl
    cases l with
    | nil => rw [everyNth_nil]; simp; omega
    | cons a t =>
      rw [everyNth_cons]
      by_cases hsh : t.length ≤ step - 1
      · rw [List.drop_eq_nil_of_le hsh, everyNth_nil]
        simp
      have hl' : t.length ≤ n := by simpa using hl
      have hdl : (t.drop (step - 1)).length = t.length - (step - 1) := List.length_drop
      have hd : (t.drop (step - 1)).length ≤ n := by omega
      have key := ih (t.drop (step - 1)) hd
      have e1 : (a :: everyNth step (t.drop (step - 1))).length * step =
          step + (everyNth step (t.drop (step - 1))).length * step := by
        rw [List.length_cons, Nat.add_mul, Nat.one_mul, Nat.add_comm]
      have e2 : (a :: t).length = t.length + 1 := rfl
      rw [e1, e2]
      clear e1 e2
      generalize (everyNth step (t.drop (step - 1))).length * step = m at key
      omega

theorem binEdge_mul_ge (T bins : Nat) (hb : 1 ≤ bins) : T ≤ binEdge T bins * bins := by
  unfold binEdge
  have h1 := Nat.div_add_mod (T + bins - 1) bins
  have h2 := Nat.mod_lt (T + bins - 1) (by omega : bins > 0)
  rw [Nat.mul_comm] at h1
  omega

/-- at most `bins` edges (hence symbols `< bins`) -/
theorem quantileEdges_length_le (row : List Rat) (bins : Nat) (hb : 1 ≤ bins) (hr : row ≠ []) :
    (quantileEdges row bins).length ≤ bins := by
  unfold quantileEdges
  have hT : 1 ≤ row.length := by
    cases row with
    | nil => exact absurd rfl hr
    | cons a t => simp
  have hge := binEdge_mul_ge row.length bins hb
  have hs : 1 ≤ binEdge row.length bins := by
    rcases Nat.eq_zero_or_pos (binEdge row.length bins) with h | h
    · rw [h] at hge; omega
    · exact h
  have hlen := everyNth_length_mul (binEdge row.length bins) hs (sortAsc row).length (sortAsc row)
    (Nat.le_refl _)
  rw [length_sortAsc] at hlen
  by_contra hcon
  have hgt : bins + 1 ≤ (everyNth (binEdge row.length bins) (sortAsc row)).length := by omega
  have := Nat.mul_le_mul_right (binEdge row.length bins) hgt
  rw [Nat.add_mul, Nat.one_mul, Nat.mul_comm bins] at this
  omega

theorem quantileSym_lt (edges : List Rat) (x : Rat) : quantileSym edges x < (edges.length : Int) := by
  unfold quantileSym
  have := List.length_filter_le (fun e => decide (e ≤ x)) edges
  omega

theorem quantileSym_mono (edges : List Rat) (x y : Rat) (h : x ≤ y) :
    quantileSym edges x ≤ quantileSym edges y := by
  unfold quantileSym
  have : (edges.filter (fun e => decide (e ≤ x))).length ≤ (edges.filter (fun e => decide (e ≤ y))).length := by
    induction edges with
    | nil => simp
    | cons e l ih =>
      simp only [List.filter_cons]
      by_cases h1 : e ≤ x
      · have h2 : e ≤ y := le_trans h1 h
        simp [h1, h2]; exact ih
      · by_cases h2 : e ≤ y
        · simp [h1, h2]; omega
        · simp [h1, h2]; exact ih
  omega

/-- every sample of the row gets a symbol `≥ 0`: the first edge is the row minimum -/
theorem quantileSym_nonneg (row : List Rat) (bins : Nat) (x : Rat) (hx : x ∈ row) :
    0 ≤ quantileSym (quantileEdges row bins) x := by
  unfold quantileEdges
  cases hsort : sortAsc row with
  | nil =>
    have := length_sortAsc row
    rw [hsort] at this
    have : row = [] := List.eq_nil_of_length_eq_zero this.symm
    subst this; cases hx
  | cons h t =>
    rw [everyNth_cons]
    have hle := sortAsc_head_le row h t hsort x hx
    unfold quantileSym
    simp only [List.filter_cons, hle, decide_true, if_true, List.length_cons]
    omega

end Pyunicorn.Coupling
