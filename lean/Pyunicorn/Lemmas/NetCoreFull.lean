import Pyunicorn.Lemmas.NetCore
/-!
Coreness = k-core, in full (round 3, core Lean only).

* fuel sufficiency: every round of `peel` that is not the last removes a node, so fuel `n` reaches a
  fixpoint of the round (`peel_reaches_fixpoint`);
* hence one level of the peeling returns the `k`-core inside the alive set (`peel_eq_core`);
* the outer loop over `k` (`coreLoop`, fuel `2n+1`): invariant "alive = (k−1)-core, `core[v]` = the
  largest `c < k` with `v` in the `c`-core"; no node has more than `2n` links, so the loop ends before
  the fuel does (`coreLoop_spec`, `coreness_spec`).
-/
namespace Pyunicorn.Net

/-! ### counting the alive nodes -/

theorem subB_cons {x y : Bool} {s t : List Bool} (h : SubB (x :: s) (y :: t)) :
    (x = true → y = true) ∧ SubB s t := by
  constructor
  · intro hx
    have := h 0
    simp only [List.getD_cons_zero] at this
    exact this hx
  · intro v hv
    have := h (v + 1)
    simp only [List.getD_cons_succ] at this
    exact this hv

theorem count_le_of_sub : ∀ (s t : List Bool), s.length = t.length → SubB s t →
    s.count true ≤ t.count true
  | [], [], _, _ => Nat.le_refl _
  | [], _ :: _, h, _ => by simp at h
  | _ :: _, [], h, _ => by simp at h
  | x :: s, y :: t, h, hs => by
    obtain ⟨hxy, hst⟩ := subB_cons hs
    have ih := count_le_of_sub s t (by simpa using h) hst
    cases x <;> cases y <;> simp_all <;> omega

theorem count_lt_of_sub : ∀ (s t : List Bool), s.length = t.length → SubB s t → s ≠ t →
    s.count true < t.count true
  | [], [], _, _, hne => absurd rfl hne
  | [], _ :: _, h, _, _ => by simp at h
  | _ :: _, [], h, _, _ => by simp at h
  | x :: s, y :: t, h, hs, hne => by
    obtain ⟨hxy, hst⟩ := subB_cons hs
    have hlen : s.length = t.length := by simpa using h
    have hle := count_le_of_sub s t hlen hst
    by_cases hxe : x = y
    · subst hxe
      have hne' : s ≠ t := fun e => hne (by rw [e])
      have ih := count_lt_of_sub s t hlen hst hne'
      cases x <;> simp <;> omega
    · cases x <;> cases y <;> simp_all <;> omega

theorem peelStep_length (n : Nat) (a : Adj) (directed : Bool) (k : Nat) (alive : List Bool) :
    (peelStep n a directed k alive).length = n := by
  simp [peelStep]

/-- a round that removes no node leaves the list as it is -/
theorem peelStep_eq_of_count (n : Nat) (a : Adj) (directed : Bool) (k : Nat) (alive : List Bool)
    (hlen : alive.length = n)
    (hc : alive.count true ≤ (peelStep n a directed k alive).count true) :
    peelStep n a directed k alive = alive := by
  apply Classical.byContradiction
  intro hne
  have := count_lt_of_sub _ _ (by rw [peelStep_length, hlen]) (peelStep_sub n a directed k alive) hne
  omega

theorem peel_length (n : Nat) (a : Adj) (directed : Bool) (k fuel : Nat) (alive : List Bool)
    (hlen : alive.length = n) : (peel n a directed k fuel alive).length = n := by
  induction fuel generalizing alive with
  | zero => exact hlen
  | succ f ih =>
    rw [peel_unfold]
    split
    · exact hlen
    · exact ih _ (peelStep_length n a directed k alive)

theorem peel_fix_aux (n : Nat) (a : Adj) (directed : Bool) (k fuel : Nat) :
    ∀ alive : List Bool, alive.length = n → alive.count true ≤ fuel →
      peelStep n a directed k (peel n a directed k fuel alive) = peel n a directed k fuel alive := by
  induction fuel with
  | zero =>
    intro alive hlen hc
    exact peelStep_eq_of_count n a directed k alive hlen (by omega)
  | succ f ih =>
    intro alive hlen hc
    rw [peel_unfold]
    split
    · rename_i heq
      exact eq_of_beq heq
    · rename_i hne
      have hne' : peelStep n a directed k alive ≠ alive := fun e => hne (by rw [e]; exact beq_self_eq_true _)
      have hlt := count_lt_of_sub _ _ (by rw [peelStep_length, hlen])
        (peelStep_sub n a directed k alive) hne'
      exact ih _ (peelStep_length n a directed k alive) (by omega)

/-- **fuel sufficiency**: started on a list of length `n`, `peel` with fuel `n` stops at a fixpoint -/
theorem peel_reaches_fixpoint (n : Nat) (a : Adj) (directed : Bool) (k : Nat) (alive : List Bool)
    (hlen : alive.length = n) :
    peelStep n a directed k (peel n a directed k n alive) = peel n a directed k n alive :=
  peel_fix_aux n a directed k n alive hlen (by rw [← hlen]; exact List.count_le_length)

/-- **one level of the peeling returns the `k`-core inside `alive`**: the largest subset of `alive`
all of whose induced degrees are `≥ k` -/
theorem peel_eq_core (n : Nat) (a : Adj) (directed : Bool) (k : Nat) (alive : List Bool)
    (hlen : alive.length = n) (v : Nat) :
    (peel n a directed k n alive).getD v false = true ↔
      ∃ S, MinDeg n a directed k S ∧ SubB S alive ∧ S.getD v false = true := by
  constructor
  · intro hv
    exact ⟨_, peelStep_fixpoint n a directed k _ (peel_reaches_fixpoint n a directed k alive hlen),
      peel_sub n a directed k n alive, hv⟩
  · rintro ⟨S, hS, hsub, hv⟩
    exact peel_keeps n a directed k S hS n alive hsub v hv

/-! ### the k-cores -/

/-- `v` belongs to the `k`-core: it lies in some node set all of whose induced degrees
(in + out for directed networks) are `≥ k` -/
def InCore (n : Nat) (a : Adj) (directed : Bool) (k v : Nat) : Prop :=
  ∃ S : List Bool, MinDeg n a directed k S ∧ S.getD v false = true

theorem MinDeg_anti {n : Nat} {a : Adj} {directed : Bool} {k k' : Nat} {S : List Bool}
    (h : MinDeg n a directed k S) (hk : k' ≤ k) : MinDeg n a directed k' S := by
  intro v hv
  obtain ⟨h1, h2⟩ := h v hv
  exact ⟨h1, by omega⟩

theorem InCore_anti {n : Nat} {a : Adj} {directed : Bool} {k k' v : Nat}
    (h : InCore n a directed k v) (hk : k' ≤ k) : InCore n a directed k' v := by
  obtain ⟨S, hS, hv⟩ := h
  exact ⟨S, MinDeg_anti hS hk, hv⟩

theorem InCore_lt {n : Nat} {a : Adj} {directed : Bool} {k v : Nat}
    (h : InCore n a directed k v) : v < n := by
  obtain ⟨S, hS, hv⟩ := h
  exact (hS v hv).1

theorem getD_replicate_true (n v : Nat) : (List.replicate n true).getD v false = true ↔ v < n := by
  by_cases h : v < n <;> simp [List.getD, h]

theorem InCore_zero {n : Nat} {a : Adj} {directed : Bool} {v : Nat} (hv : v < n) :
    InCore n a directed 0 v :=
  ⟨List.replicate n true, fun u hu => ⟨(getD_replicate_true n u).mp hu, Nat.zero_le _⟩,
    (getD_replicate_true n v).mpr hv⟩

theorem sumTo_le_const (n c : Nat) (f : Nat → Nat) (h : ∀ j, j < n → f j ≤ c) : sumTo n f ≤ n * c := by
  induction n with
  | zero => simp [sumTo]
  | succ m ih =>
    rw [sumTo_succ]
    have := ih (fun j hj => h j (Nat.lt_succ_of_lt hj))
    have := h m (Nat.lt_succ_self m)
    rw [Nat.succ_mul]
    omega

/-- no node has more than `2n` links -/
theorem aliveDeg_le (n : Nat) (a : Adj) (directed : Bool) (S : List Bool) (v : Nat) :
    aliveDeg n a directed S v ≤ n * 2 := by
  apply sumTo_le_const
  intro u _
  have h1 := b2n_le_one (a v u)
  have h2 := b2n_le_one (a u v)
  split
  · split <;> omega
  · omega

theorem InCore_bound {n : Nat} {a : Adj} {directed : Bool} {k v : Nat}
    (h : InCore n a directed k v) : k ≤ n * 2 := by
  obtain ⟨S, hS, hv⟩ := h
  have := (hS v hv).2
  have := aliveDeg_le n a directed S v
  omega

/-! ### the outer loop -/

theorem all_false_iff : ∀ (l : List Bool), l.all (· == false) = true ↔ ∀ v, l.getD v false ≠ true
  | [] => by simp
  | x :: t => by
    have ih := all_false_iff t
    constructor
    · intro h v
      simp only [List.all_cons, Bool.and_eq_true] at h
      cases v with
      | zero => simp only [List.getD_cons_zero]; cases x <;> simp_all
      | succ u => simp only [List.getD_cons_succ]; exact ih.mp h.2 u
    · intro h
      simp only [List.all_cons, Bool.and_eq_true]
      constructor
      · have := h 0
        simp only [List.getD_cons_zero] at this
        cases x <;> simp_all
      · apply ih.mpr
        intro v
        have := h (v + 1)
        simpa only [List.getD_cons_succ] using this

theorem coreLoop_unfold (n : Nat) (a : Adj) (directed : Bool) (fuel k : Nat) (alive : List Bool)
    (core : List Nat) :
    coreLoop n a directed (fuel + 1) k alive core =
      if (peel n a directed k n alive).all (· == false) = true then core
      else coreLoop n a directed fuel (k + 1) (peel n a directed k n alive)
        ((List.range n).map fun v =>
          if (peel n a directed k n alive).getD v false then k else core.getD v 0) := by
  simp [coreLoop]

theorem getD_map_range_nat (n : Nat) (f : Nat → Nat) (v : Nat) (hv : v < n) :
    ((List.range n).map f).getD v 0 = f v := by
  simp [List.getD, hv]

/-- invariant of the loop over `k` on entry with `k = m + 1` -/
structure CoreInv (n : Nat) (a : Adj) (directed : Bool) (m : Nat) (alive : List Bool) (core : List Nat) :
    Prop where
  len : alive.length = n
  alive_iff : ∀ v, alive.getD v false = true ↔ InCore n a directed m v
  core_iff : ∀ v, v < n → ∀ c, c ≤ m → (InCore n a directed c v ↔ c ≤ core.getD v 0)
  core_le : ∀ v, v < n → core.getD v 0 ≤ m

/-- inside the `m`-core, one level of peeling at `m+1` returns the `(m+1)`-core -/
theorem peel_inCore (n : Nat) (a : Adj) (directed : Bool) (m : Nat) (alive : List Bool) (core : List Nat)
    (inv : CoreInv n a directed m alive core) (v : Nat) :
    (peel n a directed (m + 1) n alive).getD v false = true ↔ InCore n a directed (m + 1) v := by
  rw [peel_eq_core n a directed (m + 1) alive inv.len v]
  constructor
  · rintro ⟨S, hS, _, hv⟩
    exact ⟨S, hS, hv⟩
  · rintro ⟨S, hS, hv⟩
    refine ⟨S, hS, ?_, hv⟩
    intro u hu
    exact (inv.alive_iff u).mpr (InCore_anti ⟨S, hS, hu⟩ (Nat.le_succ m))

theorem coreLoop_spec (n : Nat) (a : Adj) (directed : Bool) (fuel : Nat) :
    ∀ (m : Nat) (alive : List Bool) (core : List Nat), CoreInv n a directed m alive core →
      n * 2 + 1 ≤ fuel + m →
      ∀ v, v < n → ∀ c,
        (InCore n a directed c v ↔ c ≤ (coreLoop n a directed fuel (m + 1) alive core).getD v 0) := by
  induction fuel with
  | zero =>
    intro m alive core inv hf v hv c
    show _ ↔ c ≤ core.getD v 0
    by_cases hc : c ≤ m
    · exact inv.core_iff v hv c hc
    · have := inv.core_le v hv
      constructor
      · intro h; have := InCore_bound h; omega
      · intro h; omega
  | succ f ih =>
    intro m alive core inv hf v hv c
    rw [coreLoop_unfold]
    have hP := peel_inCore n a directed m alive core inv
    split
    · rename_i hall
      have hnone := (all_false_iff _).mp hall
      by_cases hc : c ≤ m
      · exact inv.core_iff v hv c hc
      · have := inv.core_le v hv
        constructor
        · intro h
          exact absurd ((hP v).mpr (InCore_anti h (by omega))) (hnone v)
        · intro h; omega
    · apply ih (m + 1) _ _ ?_ (by omega) v hv c
      refine ⟨peel_length n a directed (m + 1) n alive inv.len, hP, ?_, ?_⟩
      · intro u hu c' hc'
        rw [getD_map_range_nat n _ u hu]
        by_cases hin : (peel n a directed (m + 1) n alive).getD u false = true
        · simp only [hin, if_true]
          constructor
          · intro _; exact hc'
          · intro _; exact InCore_anti ((hP u).mp hin) hc'
        · have hnin : ¬ InCore n a directed (m + 1) u := fun h => hin ((hP u).mpr h)
          simp only [hin, Bool.false_eq_true, if_false]
          have hle := inv.core_le u hu
          by_cases hcm : c' ≤ m
          · simpa using inv.core_iff u hu c' hcm
          · have hceq : c' = m + 1 := by omega
            subst hceq
            constructor
            · intro h; exact absurd h hnin
            · intro h; omega
      · intro u hu
        rw [getD_map_range_nat n _ u hu]
        have hle := inv.core_le u hu
        split <;> omega

theorem getD_replicate_zero (n v : Nat) : (List.replicate n 0).getD v 0 = 0 := by
  by_cases h : v < n <;> simp [List.getD, h]

/-- the result of the model characterises every core at once -/
theorem coreness_spec (n : Nat) (a : Adj) (directed : Bool) (v : Nat) (hv : v < n) (c : Nat) :
    InCore n a directed c v ↔ c ≤ (coreness n a directed).getD v 0 := by
  unfold coreness
  apply coreLoop_spec n a directed (2 * n + 1) 0 _ _ ?_ (by omega) v hv c
  refine ⟨by simp, ?_, ?_, ?_⟩
  · intro u
    rw [getD_replicate_true]
    exact ⟨fun h => InCore_zero h, InCore_lt⟩
  · intro u hu c' hc'
    have : c' = 0 := by omega
    subst this
    exact ⟨fun _ => Nat.zero_le _, fun _ => InCore_zero hu⟩
  · intro u _
    rw [getD_replicate_zero]
    exact Nat.le_refl 0

end Pyunicorn.Net
