import Pyunicorn.Lemmas.GeoRound
import Pyunicorn.Lemmas.GeoError
/-! Rounded arithmetic for the **angular** kernel (C12, round 3).

`rCosExpr rnd` is the model's `cosExpr` — the expression `_calculate_angular_distance`
assigns to `expr` — instantiated with operations that round their exact result, under the
standard model of floating point arithmetic `StdRound rnd u` (`|rnd v - v| ≤ u |v|`).  The
summands have both signs, so the error is *absolute*: every product `sin·sin` carries two
roundings, every product `cos·cos·(sin·sin)` / `cos·cos·(cos·cos)` five, hence

  `|computed - exact| ≤ ((1+u)² - 1)·|a| + ((1+u)⁵ - 1)·|p|·(|q₁| + |q₂|)`      (`rcos_core`)

and for tables that lie within `δ` of points of the unit circle (`sin` / `cos` of *some*
angles) the right hand side is at most `((1+u)⁵ - 1)(1+3δ)²` (`rCosExpr_error`) — about
`5u`, *not* the `12u` of a term-by-term analysis that ignores `|a| + |p| ≤ 1`.
`cosExpr_table_error` bounds what the table errors themselves contribute:
`≤ 5.66 δ + 11 δ²` (the constant is `4·√2`). -/
namespace Pyunicorn.Geo

/-- `cosExpr` as the compiled kernel evaluates it: every `*` and `+` rounded -/
noncomputable def rCosExpr (rnd : ℝ → ℝ) (sl cl sn cn : Nat → ℝ) (i j : Nat) : ℝ :=
  @cosExpr ℝ ⟨fun a b => rnd (a + b)⟩ ⟨fun a b => rnd (a * b)⟩ sl cl sn cn i j

theorem rCosExpr_eq (rnd : ℝ → ℝ) (sl cl sn cn : Nat → ℝ) (i j : Nat) :
    rCosExpr rnd sl cl sn cn i j =
      rnd (rnd (sl i * sl j) +
        rnd (rnd (cl i * cl j) * rnd (rnd (sn i * sn j) + rnd (cn i * cn j)))) := rfl

/-- the whole compiled kernel with rounded `+`, `*` (comparisons and `-1`, `1` exact) -/
noncomputable def rCosAngKernel (rnd : ℝ → ℝ) (sl cl sn cn : Nat → ℝ) (N : Nat) : Nat → Nat → ℝ :=
  @cosAngKernel ℝ ⟨fun a b => rnd (a + b)⟩ ⟨fun a b => rnd (a * b)⟩ _ _ _ _ _ sl cl sn cn N

theorem rCosAngKernel_apply (rnd : ℝ → ℝ) (sl cl sn cn : Nat → ℝ) (N a b : Nat)
    (ha : a < N) (hb : b < N) :
    rCosAngKernel rnd sl cl sn cn N a b = clamp (rCosExpr rnd sl cl sn cn (max a b) (min a b)) := by
  simp [rCosAngKernel, cosAngKernel, fillSym_apply, ha, hb, rCosExpr]

/-! ### a small calculus of relative-to-a-budget errors -/

/-- `x'` approximates `x` with error at most `g` times the budget `B ≥ |x|` -/
def Approx (x' x g B : ℝ) : Prop := |x' - x| ≤ g * B ∧ |x| ≤ B

theorem Approx.of_rnd {rnd : ℝ → ℝ} {u : ℝ} (h : StdRound rnd u) (x : ℝ) :
    Approx (rnd x) x u |x| := ⟨h.2.2 x, le_refl _⟩

/-- one more rounding multiplies the factor `1 + g` by `1 + u` -/
theorem Approx.rnd {rnd : ℝ → ℝ} {u x' x g B : ℝ} (h : StdRound rnd u) (ha : Approx x' x g B) :
    Approx (rnd x') x ((1 + g) * (1 + u) - 1) B := by
  refine ⟨?_, ha.2⟩
  have h0 := h.1
  have hr := h.2.2 x'
  have hx' : |x'| ≤ B + g * B := by
    have := abs_sub_abs_le_abs_sub x' x
    linarith [ha.1, ha.2]
  have hB : 0 ≤ B + g * B := le_trans (abs_nonneg _) hx'
  calc |rnd x' - x| = |(rnd x' - x') + (x' - x)| := by ring_nf
    _ ≤ |rnd x' - x'| + |x' - x| := abs_add_le _ _
    _ ≤ u * (B + g * B) + g * B := by nlinarith [ha.1]
    _ = ((1 + g) * (1 + u) - 1) * B := by ring

theorem Approx.add {x' x y' y g B₁ B₂ : ℝ} (hx : Approx x' x g B₁) (hy : Approx y' y g B₂) :
    Approx (x' + y') (x + y) g (B₁ + B₂) := by
  constructor
  · calc |x' + y' - (x + y)| = |(x' - x) + (y' - y)| := by ring_nf
      _ ≤ |x' - x| + |y' - y| := abs_add_le _ _
      _ ≤ g * (B₁ + B₂) := by linarith [hx.1, hy.1]
  · exact le_trans (abs_add_le _ _) (by linarith [hx.2, hy.2])

theorem Approx.mul {x' x y' y g₁ g₂ B₁ B₂ : ℝ} (hg₁ : 0 ≤ g₁) (hx : Approx x' x g₁ B₁)
    (hy : Approx y' y g₂ B₂) :
    Approx (x' * y') (x * y) ((1 + g₁) * (1 + g₂) - 1) (B₁ * B₂) := by
  have hB₁ : 0 ≤ B₁ := le_trans (abs_nonneg _) hx.2
  have hB₂ : 0 ≤ B₂ := le_trans (abs_nonneg _) hy.2
  have hx' : |x'| ≤ (1 + g₁) * B₁ := by
    have := abs_sub_abs_le_abs_sub x' x
    linarith [hx.1, hx.2]
  have hdy : 0 ≤ g₂ * B₂ := le_trans (abs_nonneg _) hy.1
  constructor
  · calc |x' * y' - x * y| = |x' * (y' - y) + y * (x' - x)| := by ring_nf
      _ ≤ |x' * (y' - y)| + |y * (x' - x)| := abs_add_le _ _
      _ = |x'| * |y' - y| + |y| * |x' - x| := by rw [abs_mul, abs_mul]
      _ ≤ (1 + g₁) * B₁ * (g₂ * B₂) + B₂ * (g₁ * B₁) := by
          have h1 : |x'| * |y' - y| ≤ (1 + g₁) * B₁ * (g₂ * B₂) :=
            mul_le_mul hx' hy.1 (abs_nonneg _) (mul_nonneg (by linarith) hB₁)
          have h2 : |y| * |x' - x| ≤ B₂ * (g₁ * B₁) :=
            mul_le_mul hy.2 hx.1 (abs_nonneg _) hB₂
          linarith
      _ = ((1 + g₁) * (1 + g₂) - 1) * (B₁ * B₂) := by ring
  · rw [abs_mul]; exact mul_le_mul hx.2 hy.2 (abs_nonneg _) hB₁

/-- **the kernel expression in rounded arithmetic**, for arbitrary operands: the product
`a` carries two roundings, the products `p·q₁`, `p·q₂` five -/
theorem rcos_core {rnd : ℝ → ℝ} {u : ℝ} (h : StdRound rnd u) (a p q₁ q₂ : ℝ) :
    |rnd (rnd a + rnd (rnd p * rnd (rnd q₁ + rnd q₂))) - (a + p * (q₁ + q₂))|
      ≤ ((1 + u) ^ 2 - 1) * |a| + ((1 + u) ^ 5 - 1) * (|p| * (|q₁| + |q₂|)) := by
  have h0 := h.1
  have hs : Approx (rnd (rnd q₁ + rnd q₂)) (q₁ + q₂) ((1 + u) * (1 + u) - 1) (|q₁| + |q₂|) :=
    ((Approx.of_rnd h q₁).add (Approx.of_rnd h q₂)).rnd h
  have hm0 := ((Approx.of_rnd h p).mul h0 hs).rnd h
  have hm : Approx (rnd (rnd p * rnd (rnd q₁ + rnd q₂))) (p * (q₁ + q₂)) ((1 + u) ^ 4 - 1)
      (|p| * (|q₁| + |q₂|)) := by
    have e : (1 + ((1 + u) * (1 + ((1 + u) * (1 + u) - 1)) - 1)) * (1 + u) - 1 = (1 + u) ^ 4 - 1 := by
      ring
    rw [e] at hm0; exact hm0
  have ha := Approx.of_rnd h a
  set m := rnd (rnd p * rnd (rnd q₁ + rnd q₂)) with hmdef
  set B := |p| * (|q₁| + |q₂|) with hBdef
  set e := p * (q₁ + q₂) with hedef
  -- the final addition and its rounding
  have hz : |rnd a + m - (a + e)| ≤ u * |a| + ((1 + u) ^ 4 - 1) * B := by
    calc |rnd a + m - (a + e)| = |(rnd a - a) + (m - e)| := by ring_nf
      _ ≤ |rnd a - a| + |m - e| := abs_add_le _ _
      _ ≤ _ := by linarith [ha.1, hm.1]
  have hzabs : |rnd a + m| ≤ |a| + B + (u * |a| + ((1 + u) ^ 4 - 1) * B) := by
    have h1 := abs_sub_abs_le_abs_sub (rnd a + m) (a + e)
    have h2 : |a + e| ≤ |a| + B := le_trans (abs_add_le _ _) (by linarith [hm.2])
    linarith
  have hr := h.2.2 (rnd a + m)
  have hpos : 0 ≤ |a| + B + (u * |a| + ((1 + u) ^ 4 - 1) * B) := le_trans (abs_nonneg _) hzabs
  calc |rnd (rnd a + m) - (a + e)| = |(rnd (rnd a + m) - (rnd a + m)) + (rnd a + m - (a + e))| := by
        ring_nf
    _ ≤ |rnd (rnd a + m) - (rnd a + m)| + |rnd a + m - (a + e)| := abs_add_le _ _
    _ ≤ u * (|a| + B + (u * |a| + ((1 + u) ^ 4 - 1) * B)) + (u * |a| + ((1 + u) ^ 4 - 1) * B) := by
        nlinarith [hr, hz, hzabs]
    _ = ((1 + u) ^ 2 - 1) * |a| + ((1 + u) ^ 5 - 1) * B := by ring

/-! ### tables near the unit circle -/

/-- `|x y| + |z w| ≤ (x² + z² + y² + w²) / 2` -/
theorem abs_mul_add_abs_mul_le (x y z w : ℝ) :
    |x * y| + |z * w| ≤ ((x ^ 2 + z ^ 2) + (y ^ 2 + w ^ 2)) / 2 := by
  rw [abs_mul, abs_mul]
  nlinarith [sq_nonneg (|x| - |y|), sq_nonneg (|z| - |w|), sq_abs x, sq_abs y, sq_abs z, sq_abs w]

/-- **rounding error of the kernel expression** for tables whose pairs
`(sin_lat, cos_lat)`, `(sin_lon, cos_lon)` have squared norm at most `1 + κ`: at most
`((1+u)⁵ - 1)(1+κ)²`, i.e. about `5u` — absolutely, wherever the pair lies -/
theorem rCosExpr_error {rnd : ℝ → ℝ} {u κ : ℝ} (h : StdRound rnd u) (hκ : 0 ≤ κ)
    (sl cl sn cn : Nat → ℝ) (hlat : ∀ i, sl i ^ 2 + cl i ^ 2 ≤ 1 + κ)
    (hlon : ∀ i, sn i ^ 2 + cn i ^ 2 ≤ 1 + κ) (i j : Nat) :
    |rCosExpr rnd sl cl sn cn i j - cosExpr sl cl sn cn i j| ≤ ((1 + u) ^ 5 - 1) * (1 + κ) ^ 2 := by
  have h0 := h.1
  rw [rCosExpr_eq]
  have hc := rcos_core h (sl i * sl j) (cl i * cl j) (sn i * sn j) (cn i * cn j)
  have e : cosExpr sl cl sn cn i j
      = sl i * sl j + cl i * cl j * (sn i * sn j + cn i * cn j) := rfl
  rw [e]
  refine le_trans hc ?_
  have hq : |sn i * sn j| + |cn i * cn j| ≤ 1 + κ := by
    have := abs_mul_add_abs_mul_le (sn i) (sn j) (cn i) (cn j)
    linarith [hlon i, hlon j]
  have hap : |sl i * sl j| + |cl i * cl j| ≤ 1 + κ := by
    have := abs_mul_add_abs_mul_le (sl i) (sl j) (cl i) (cl j)
    linarith [hlat i, hlat j]
  have ha0 := abs_nonneg (sl i * sl j)
  have hp0 := abs_nonneg (cl i * cl j)
  have hq0 : 0 ≤ |sn i * sn j| + |cn i * cn j| := by positivity
  have g25 : (1 + u) ^ 2 - 1 ≤ (1 + u) ^ 5 - 1 := by
    have : (1 + u) ^ 2 ≤ (1 + u) ^ 5 := pow_le_pow_right₀ (by linarith) (by norm_num)
    linarith
  have g5 : 0 ≤ (1 + u) ^ 5 - 1 := by
    have : (1 : ℝ) ≤ (1 + u) ^ 5 := one_le_pow₀ (by linarith)
    linarith
  -- |a| + |p| Kq ≤ (1+κ)(|a| + |p|) ≤ (1+κ)²
  have hK : |sl i * sl j| + |cl i * cl j| * (|sn i * sn j| + |cn i * cn j|) ≤ (1 + κ) ^ 2 := by
    have h1 : |cl i * cl j| * (|sn i * sn j| + |cn i * cn j|) ≤ |cl i * cl j| * (1 + κ) :=
      mul_le_mul_of_nonneg_left hq hp0
    nlinarith
  calc ((1 + u) ^ 2 - 1) * |sl i * sl j|
        + ((1 + u) ^ 5 - 1) * (|cl i * cl j| * (|sn i * sn j| + |cn i * cn j|))
      ≤ ((1 + u) ^ 5 - 1) * |sl i * sl j|
        + ((1 + u) ^ 5 - 1) * (|cl i * cl j| * (|sn i * sn j| + |cn i * cn j|)) := by
        have := mul_le_mul_of_nonneg_right g25 ha0
        linarith
    _ = ((1 + u) ^ 5 - 1)
        * (|sl i * sl j| + |cl i * cl j| * (|sn i * sn j| + |cn i * cn j|)) := by ring
    _ ≤ _ := mul_le_mul_of_nonneg_left hK g5

/-- perturbation of a product -/
theorem mul_pert (x x' y y' X Y dx dy : ℝ) (hx : |x| ≤ X) (hy : |y| ≤ Y)
    (hdx : |x' - x| ≤ dx) (hdy : |y' - y| ≤ dy) :
    |x' * y' - x * y| ≤ X * dy + Y * dx + dx * dy := by
  have hX : 0 ≤ X := le_trans (abs_nonneg _) hx
  have hY : 0 ≤ Y := le_trans (abs_nonneg _) hy
  have hdx0 : 0 ≤ dx := le_trans (abs_nonneg _) hdx
  calc |x' * y' - x * y| = |x * (y' - y) + y * (x' - x) + (x' - x) * (y' - y)| := by ring_nf
    _ ≤ |x * (y' - y)| + |y * (x' - x)| + |(x' - x) * (y' - y)| := abs_add_three _ _ _
    _ = |x| * |y' - y| + |y| * |x' - x| + |x' - x| * |y' - y| := by rw [abs_mul, abs_mul, abs_mul]
    _ ≤ X * dy + Y * dx + dx * dy := by
        have h1 := mul_le_mul hx hdy (abs_nonneg _) hX
        have h2 := mul_le_mul hy hdx (abs_nonneg _) hY
        have h3 := mul_le_mul hdx hdy (abs_nonneg _) hdx0
        linarith

/-- `|sin t| + |cos t| ≤ √2 < 1.415` -/
theorem abs_sin_add_abs_cos_le (t : ℝ) : |Real.sin t| + |Real.cos t| ≤ 1415 / 1000 := by
  have h := Real.sin_sq_add_cos_sq t
  have hs := sq_abs (Real.sin t)
  have hc := sq_abs (Real.cos t)
  nlinarith [sq_nonneg (|Real.sin t| - |Real.cos t|), abs_nonneg (Real.sin t),
    abs_nonneg (Real.cos t)]

/-- tables within `δ` of `sin` / `cos` of an angle have squared norm at most `1 + 3δ` -/
theorem table_norm_le (t s c δ : ℝ) (hδ : δ ≤ 1 / 16) (hs : |s - Real.sin t| ≤ δ)
    (hc : |c - Real.cos t| ≤ δ) : s ^ 2 + c ^ 2 ≤ 1 + 3 * δ := by
  have hδ0 : 0 ≤ δ := le_trans (abs_nonneg _) hs
  have h := Real.sin_sq_add_cos_sq t
  have hsc := abs_sin_add_abs_cos_le t
  have e1 : s ^ 2 ≤ (|Real.sin t| + δ) ^ 2 := by
    rw [← sq_abs s]
    have : |s| ≤ |Real.sin t| + δ := by
      have := abs_sub_abs_le_abs_sub s (Real.sin t); linarith
    exact pow_le_pow_left₀ (abs_nonneg _) this 2
  have e2 : c ^ 2 ≤ (|Real.cos t| + δ) ^ 2 := by
    rw [← sq_abs c]
    have : |c| ≤ |Real.cos t| + δ := by
      have := abs_sub_abs_le_abs_sub c (Real.cos t); linarith
    exact pow_le_pow_left₀ (abs_nonneg _) this 2
  have hs2 := sq_abs (Real.sin t)
  have hc2 := sq_abs (Real.cos t)
  nlinarith

/-- **what the table errors contribute**: tables within `δ ≤ 1/16` of the sines / cosines
of angles `φ i`, `l i` change the (exactly evaluated) expression by at most
`5.66 δ + 11 δ²` (`5.66 ≥ 4 √2`) -/
theorem cosExpr_table_error (φ l : Nat → ℝ) (sl cl sn cn : Nat → ℝ) (δ : ℝ) (hδ : δ ≤ 1 / 16)
    (hsl : ∀ i, |sl i - Real.sin (φ i)| ≤ δ) (hcl : ∀ i, |cl i - Real.cos (φ i)| ≤ δ)
    (hsn : ∀ i, |sn i - Real.sin (l i)| ≤ δ) (hcn : ∀ i, |cn i - Real.cos (l i)| ≤ δ) (i j : Nat) :
    |cosExpr sl cl sn cn i j
        - cosExpr (fun i => Real.sin (φ i)) (fun i => Real.cos (φ i))
            (fun i => Real.sin (l i)) (fun i => Real.cos (l i)) i j|
      ≤ 566 / 100 * δ + 11 * δ ^ 2 := by
  have hδ0 : 0 ≤ δ := le_trans (abs_nonneg _) (hsl 0)
  simp only [cosExpr]
  -- the four products
  have da := mul_pert (Real.sin (φ i)) (sl i) (Real.sin (φ j)) (sl j) _ _ δ δ (le_refl _)
    (le_refl _) (hsl i) (hsl j)
  have dp := mul_pert (Real.cos (φ i)) (cl i) (Real.cos (φ j)) (cl j) _ _ δ δ (le_refl _)
    (le_refl _) (hcl i) (hcl j)
  have dq1 := mul_pert (Real.sin (l i)) (sn i) (Real.sin (l j)) (sn j) _ _ δ δ (le_refl _)
    (le_refl _) (hsn i) (hsn j)
  have dq2 := mul_pert (Real.cos (l i)) (cn i) (Real.cos (l j)) (cn j) _ _ δ δ (le_refl _)
    (le_refl _) (hcn i) (hcn j)
  have r1 := abs_sin_add_abs_cos_le (φ i)
  have r2 := abs_sin_add_abs_cos_le (φ j)
  have r3 := abs_sin_add_abs_cos_le (l i)
  have r4 := abs_sin_add_abs_cos_le (l j)
  set A := Real.sin (φ i) * Real.sin (φ j)
  set P := Real.cos (φ i) * Real.cos (φ j)
  set Q := Real.sin (l i) * Real.sin (l j) + Real.cos (l i) * Real.cos (l j) with hQ
  have hP : |P| ≤ 1 := by
    rw [abs_mul]
    exact mul_le_one₀ (Real.abs_cos_le_one _) (abs_nonneg _) (Real.abs_cos_le_one _)
  have hQ1 : |Q| ≤ 1 := by
    have : Q = Real.cos (l i - l j) := by rw [hQ, Real.cos_sub]; ring
    rw [this]; exact Real.abs_cos_le_one _
  -- the sum of the two longitude products
  have dq : |sn i * sn j + cn i * cn j - Q|
      ≤ (|Real.sin (l i)| + |Real.sin (l j)| + |Real.cos (l i)| + |Real.cos (l j)|) * δ
        + 2 * (δ * δ) := by
    calc |sn i * sn j + cn i * cn j - Q|
        = |(sn i * sn j - Real.sin (l i) * Real.sin (l j))
            + (cn i * cn j - Real.cos (l i) * Real.cos (l j))| := by rw [hQ]; ring_nf
      _ ≤ _ := abs_add_le _ _
      _ ≤ _ := by linarith
  have dq' : |sn i * sn j + cn i * cn j - Q| ≤ 283 / 100 * δ + 2 * (δ * δ) := by
    refine le_trans dq ?_
    nlinarith
  have dpq := mul_pert P (cl i * cl j) Q (sn i * sn j + cn i * cn j) 1 1 _ _ hP hQ1 dp dq'
  set dpB := |Real.cos (φ i)| * δ + |Real.cos (φ j)| * δ + δ * δ with hdpB
  have hdpB0 : 0 ≤ dpB := le_trans (abs_nonneg _) dp
  have hdpB2 : dpB ≤ 2 * δ + δ * δ := by
    rw [hdpB]; nlinarith [Real.abs_cos_le_one (φ i), Real.abs_cos_le_one (φ j)]
  have hq0 : 0 ≤ 283 / 100 * δ + 2 * (δ * δ) := by positivity
  have hprod : dpB * (283 / 100 * δ + 2 * (δ * δ))
      ≤ (2 * δ + δ * δ) * (283 / 100 * δ + 2 * (δ * δ)) := mul_le_mul_of_nonneg_right hdpB2 hq0
  have hlat : (|Real.sin (φ i)| * δ + |Real.sin (φ j)| * δ + δ * δ) + dpB
      ≤ 283 / 100 * δ + 2 * (δ * δ) := by
    rw [hdpB]
    have h1 := mul_le_mul_of_nonneg_right r1 hδ0
    have h2 := mul_le_mul_of_nonneg_right r2 hδ0
    nlinarith
  calc |sl i * sl j + cl i * cl j * (sn i * sn j + cn i * cn j) - (A + P * Q)|
      = |(sl i * sl j - A) + (cl i * cl j * (sn i * sn j + cn i * cn j) - P * Q)| := by ring_nf
    _ ≤ |sl i * sl j - A| + |cl i * cl j * (sn i * sn j + cn i * cn j) - P * Q| := abs_add_le _ _
    _ ≤ 2 * (283 / 100 * δ + 2 * (δ * δ))
          + (2 * δ + δ * δ) * (283 / 100 * δ + 2 * (δ * δ)) := by linarith
    _ ≤ 566 / 100 * δ + 11 * δ ^ 2 := by
        have hd2 : 0 ≤ δ * δ := mul_nonneg hδ0 hδ0
        have hd3 : δ * δ * δ ≤ δ * δ * (1 / 16) := mul_le_mul_of_nonneg_left hδ hd2
        have hd4 : δ * δ * δ * δ ≤ δ * δ * (1 / 16) * (1 / 16) := by
          have := mul_le_mul_of_nonneg_left hδ (mul_nonneg hd2 hδ0)
          nlinarith
        nlinarith

end Pyunicorn.Geo
