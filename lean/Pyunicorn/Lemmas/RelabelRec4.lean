import Pyunicorn.Lemmas.RelabelGeoRec
/-! C04, round 4: fixed-recurrence-rate networks (`threshold_from_recurrence_rate`: the threshold
is an order statistic of *all* distances), local-recurrence-rate networks (one order statistic per
row), joint recurrence matrices at lag 0 and inter-system recurrence matrices of reordered state
vectors. -/
namespace Pyunicorn.Relabel
open Pyunicorn.Recurrence

variable {n : Nat} {idx : Nat → Nat}

/-- the entries of a matrix renumbered on both axes are a rearrangement of its entries -/
theorem tab_flatten_perm {α : Type} (h : IsPerm n idx) (F : Nat → Nat → α) :
    (tab n n fun a b => F (idx a) (idx b)).flatten.Perm (tab n n F).flatten := by
  unfold tab
  simp only [← List.flatMap_def]
  have stepA : ((List.range n).flatMap fun a => (List.range n).map fun b => F (idx a) (idx b)).Perm
      ((List.range n).flatMap fun a => (List.range n).map fun b => F (idx a) b) := by
    apply List.Perm.flatMap_left
    intro a _
    have : ((List.range n).map fun b => F (idx a) (idx b))
        = ((List.range n).map idx).map (F (idx a)) := by rw [List.map_map]; rfl
    rw [this]
    exact List.Perm.map _ h
  have stepB : ((List.range n).flatMap fun a => (List.range n).map fun b => F (idx a) b).Perm
      ((List.range n).flatMap fun a => (List.range n).map fun b => F a b) := by
    have : ((List.range n).flatMap fun a => (List.range n).map fun b => F (idx a) b)
        = ((List.range n).map idx).flatMap fun a => (List.range n).map fun b => F a b := by
      rw [List.flatMap_map]
    rw [this]
    exact List.Perm.flatMap_right _ h
  exact stepA.trans stepB

theorem leV_antisymm (a b : V) (h1 : leV a b = true) (h2 : leV b a = true) : a = b := by
  cases a <;> cases b <;> simp_all [leV]
  exact le_antisymm h1 h2

/-- `ndarray.sort` returns the same array for every arrangement of the same values -/
theorem sortV_congr_perm (l l' : List V) (hp : l.Perm l') : sortV l = sortV l' := by
  have p : (sortV l).Perm (sortV l') := (sortV_perm l).trans (hp.trans (sortV_perm l').symm)
  exact List.Perm.eq_of_pairwise (le := fun a b => leV a b = true)
    (fun a b _ _ h1 h2 => leV_antisymm a b h1 h2) (sortV_pairwise l) (sortV_pairwise l') p

/-- the distance matrix of the reordered trajectory, as a whole -/
theorem distRP_rows (h : IsPerm n idx) (m : Metric) (emb : List (List V)) :
    distRP m (rows n idx emb) = tab n n fun a b => rpEntry m emb (idx a) (idx b) := by
  unfold distRP
  rw [rows_length]
  unfold tab
  apply List.map_congr_left
  intro a ha
  apply List.map_congr_left
  intro b hb
  exact rpEntry_relabel h m emb a b (List.mem_range.mp ha) (List.mem_range.mp hb)

/-- **the rate threshold** (`flat_distance.sort(); flat_distance[k]`) does not depend on the order
of the state vectors -/
theorem quantile_distRP_relabel (h : IsPerm n idx) (m : Metric) (emb : List (List V))
    (hn : emb.length = n) (k : Nat) :
    quantileAt (distRP m (rows n idx emb)).flatten k = quantileAt (distRP m emb).flatten k := by
  have hp : (distRP m (rows n idx emb)).flatten.Perm (distRP m emb).flatten := by
    rw [distRP_rows h m emb]
    have : distRP m emb = tab n n (rpEntry m emb) := by unfold distRP; rw [hn]
    rw [this]
    exact tab_flatten_perm h (rpEntry m emb)
  unfold quantileAt
  rw [sortV_congr_perm _ _ hp]

/-- **`set_fixed_recurrence_rate` on reordered state vectors** (`none` = IndexError on an empty
distance array): the recurrence matrix is the renumbered one -/
theorem fixedRate_relabel (h : IsPerm n idx) (m : Metric) (emb : List (List V))
    (hn : emb.length = n) (k : Nat) (a b : Nat) (ha : a < n) (hb : b < n) :
    (fixedRate (distRP m (rows n idx emb)) k).map (fun R => entry R a b)
      = (fixedRate (distRP m emb) k).map (fun R => entry R (idx a) (idx b)) := by
  unfold fixedRate
  rw [quantile_distRP_relabel h m emb hn k]
  cases quantileAt (distRP m emb).flatten k with
  | none => rfl
  | some t =>
    simp only [Option.map_some, Option.some.injEq]
    unfold threshold
    rw [entry_map_map, entry_map_map, distRP_relabel h m emb hn a b ha hb]



/-! ### local recurrence rate: one order statistic per row -/

theorem mapM_some_spec {α β : Type} (f : α → Option β) (l : List α) (r : List β)
    (h : l.mapM f = some r) :
    r.length = l.length ∧ ∀ i (hi : i < l.length), f l[i] = r[i]? := by
  induction l generalizing r with
  | nil =>
    simp at h; subst h; simp
  | cons a t ih =>
    rw [List.mapM_cons] at h
    cases ha : f a with
    | none => simp [ha] at h
    | some b =>
      cases ht : t.mapM f with
      | none => simp [ha, ht] at h
      | some bs =>
        simp [ha, ht] at h
        subst h
        obtain ⟨l1, l2⟩ := ih bs ht
        refine ⟨by simp [l1], ?_⟩
        intro i hi
        cases i with
        | zero => simp [ha]
        | succ i => simpa using l2 i (by simpa using hi)

theorem mapM_isSome_iff {α β : Type} (f : α → Option β) (l : List α) :
    (l.mapM f).isSome = true ↔ ∀ x ∈ l, (f x).isSome = true := by
  induction l with
  | nil => simp
  | cons a t ih =>
    rw [List.mapM_cons]
    cases ha : f a with
    | none => simp [ha]
    | some b =>
      cases ht : t.mapM f with
      | none =>
        have : ¬ ∀ x ∈ t, (f x).isSome = true := fun c => by simpa [ht] using ih.mpr c
        simp [ha, ht]
        simpa using this
      | some bs =>
        have : ∀ x ∈ t, (f x).isSome = true := ih.mp (by simp [ht])
        simp [ha, ht]
        simpa using this

theorem sortV_length (l : List V) : (sortV l).length = l.length := (sortV_perm l).length_eq

theorem quantileAt_isSome (l : List V) (k : Nat) : (quantileAt l k).isSome = true ↔ k < l.length := by
  unfold quantileAt
  rw [← sortV_length l]
  simp

/-- the result row of `set_fixed_local_recurrence_rate` for one row of distances -/
def localRow (k : Nat) (row : List V) : Option (List Bool) :=
  (quantileAt row k).map fun t => row.map fun d => ltV d t

/-- **`set_fixed_local_recurrence_rate` on reordered state vectors** (row-wise order statistic;
the result is a directed network): whenever both constructions succeed the recurrence matrix is
the renumbered one, and they succeed or fail (IndexError) together. -/
theorem fixedLocalRate_relabel (h : IsPerm n idx) (m : Metric) (emb : List (List V))
    (hn : emb.length = n) (k : Nat) :
    ((fixedLocalRate (distRP m (rows n idx emb)) k).isSome
      = (fixedLocalRate (distRP m emb) k).isSome) ∧
    ∀ R R', fixedLocalRate (distRP m emb) k = some R →
      fixedLocalRate (distRP m (rows n idx emb)) k = some R' →
      ∀ a b, a < n → b < n → entry R' a b = entry R (idx a) (idx b) := by
  have hD : distRP m emb = tab n n (rpEntry m emb) := by unfold distRP; rw [hn]
  rw [distRP_rows h m emb, hD]
  set F := rpEntry m emb with hF
  have rowlen : ∀ (G : Nat → Nat → V) r, r ∈ tab n n G → r.length = n := by
    intro G r hr
    unfold tab at hr
    obtain ⟨a, _, rfl⟩ := List.mem_map.mp hr
    simp
  have succ : ∀ G : Nat → Nat → V, (fixedLocalRate (tab n n G) k).isSome = true ↔ (n = 0 ∨ k < n) := by
    intro G
    unfold fixedLocalRate
    rw [mapM_isSome_iff]
    constructor
    · intro hall
      by_cases h0 : n = 0
      · exact Or.inl h0
      · right
        have hmem : (List.range n).map (fun j => G 0 j) ∈ tab n n G := by
          unfold tab
          exact List.mem_map.mpr ⟨0, List.mem_range.mpr (by omega), rfl⟩
        have := hall _ hmem
        rw [Option.isSome_map, quantileAt_isSome] at this
        simpa using this
    · rintro (h0 | hk) r hr
      · subst h0; simp [tab] at hr
      · rw [Option.isSome_map, quantileAt_isSome, rowlen G r hr]; exact hk
  constructor
  · rw [Bool.eq_iff_iff, succ, succ]
  · intro R R' hR hR' a b ha hb
    unfold fixedLocalRate at hR hR'
    obtain ⟨len, spec⟩ := mapM_some_spec _ _ _ hR
    obtain ⟨len', spec'⟩ := mapM_some_spec _ _ _ hR'
    have tl : ∀ G : Nat → Nat → V, (tab n n G).length = n := by intro G; simp [tab]
    have ha' : a < (tab n n fun a b => F (idx a) (idx b)).length := by rw [tl]; exact ha
    have hia : idx a < (tab n n F).length := by rw [tl]; exact h.lt ha
    have s' := spec' a ha'
    have s := spec (idx a) hia
    have r' : (tab n n fun a b => F (idx a) (idx b))[a] = (List.range n).map fun b => F (idx a) (idx b) := by
      simp [tab]
    have r : (tab n n F)[idx a] = (List.range n).map fun b => F (idx a) b := by
      simp [tab]
    rw [r'] at s'
    rw [r] at s
    have hq : quantileAt ((List.range n).map fun b => F (idx a) (idx b)) k
        = quantileAt ((List.range n).map fun b => F (idx a) b) k := by
      have hp : ((List.range n).map fun b => F (idx a) (idx b)).Perm
          ((List.range n).map fun b => F (idx a) b) := by
        have : ((List.range n).map fun b => F (idx a) (idx b))
            = ((List.range n).map idx).map (F (idx a)) := by rw [List.map_map]; rfl
        rw [this]; exact List.Perm.map _ h
      unfold quantileAt
      rw [sortV_congr_perm _ _ hp]
    rw [hq] at s'
    cases hqq : quantileAt ((List.range n).map fun b => F (idx a) b) k with
    | none =>
      rw [hqq] at s
      simp only [Option.map_none] at s
      have : (idx a) < R.length := by rw [len]; exact hia
      simp [List.getElem?_eq_getElem this] at s
    | some t =>
      rw [hqq] at s s'
      simp only [Option.map_some] at s s'
      unfold entry
      rw [← s', ← s]
      simp [ha, hb, h.lt hb]



/-! ### joint recurrence matrix at lag 0: `R = Rx * Ry` -/

theorem zipWith_and_entry (A B : List (List Bool)) (i j : Nat) :
    entry (List.zipWith (fun ra rb => List.zipWith (· && ·) ra rb) A B) i j
      = (entry A i j).bind fun x => (entry B i j).map fun y => x && y := by
  unfold entry
  rw [List.getElem?_zipWith]
  cases hA : A[i]? <;> cases hB : B[i]? <;> simp [List.getElem?_zipWith]
  rename_i ra rb
  cases ra[j]? <;> cases rb[j]? <;> simp

/-- `none` (ValueError) cannot occur for two `n × n` matrices -/
def Square (n : Nat) (M : List (List Bool)) : Prop := M.length = n ∧ ∀ r ∈ M, r.length = n

theorem hadamard_square {A B : List (List Bool)} (hA : Square n A) (hB : Square n B) :
    hadamard A B = some (List.zipWith (fun ra rb => List.zipWith (· && ·) ra rb) A B) := by
  unfold hadamard
  have e : A.map List.length = B.map List.length := by
    have ea : A.map List.length = List.replicate n n := by
      rw [List.eq_replicate_iff]
      exact ⟨by simp [hA.1], fun x hx => by
        obtain ⟨r, hr, rfl⟩ := List.mem_map.mp hx; exact hA.2 r hr⟩
    have eb : B.map List.length = List.replicate n n := by
      rw [List.eq_replicate_iff]
      exact ⟨by simp [hB.1], fun x hx => by
        obtain ⟨r, hr, rfl⟩ := List.mem_map.mp hx; exact hB.2 r hr⟩
    rw [ea, eb]
  rw [if_pos ⟨by rw [hA.1, hB.1], e⟩]

theorem hadamard_relabel (A A' B B' : List (List Bool)) (hA : Square n A) (hA' : Square n A')
    (hB : Square n B) (hB' : Square n B') (a b : Nat)
    (eA : entry A' a b = entry A (idx a) (idx b)) (eB : entry B' a b = entry B (idx a) (idx b)) :
    (hadamard A' B').bind (fun R => entry R a b)
      = (hadamard A B).bind (fun R => entry R (idx a) (idx b)) := by
  rw [hadamard_square hA hB, hadamard_square hA' hB']
  simp only [Option.bind_some]
  rw [zipWith_and_entry, zipWith_and_entry, eA, eB]

theorem applyMask_square {R : List (List Bool)} (M : List Bool) (h : Square n R) :
    Square n (applyMask R M) := by
  unfold applyMask
  refine ⟨by simp [h.1], ?_⟩
  intro r hr
  obtain ⟨p, hp, rfl⟩ := List.mem_map.mp hr
  have : p.1 ∈ R := List.fst_mem_of_mem_zipIdx hp
  simp [h.2 _ this]

theorem threshold_square {D : List (List V)} (t : V) (h : D.length = n ∧ ∀ r ∈ D, r.length = n) :
    Square n (threshold D t) := by
  unfold threshold
  refine ⟨by simp [h.1], ?_⟩
  intro r hr
  obtain ⟨p, hp, rfl⟩ := List.mem_map.mp hr
  simp [h.2 _ hp]

theorem tab_shape {α : Type} (a b : Nat) (f : Nat → Nat → α) :
    (tab a b f).length = a ∧ ∀ r ∈ tab a b f, r.length = b := by
  unfold tab
  refine ⟨by simp, ?_⟩
  intro r hr
  obtain ⟨p, _, rfl⟩ := List.mem_map.mp hr
  simp

theorem fixedThreshold_square (m : Metric) (emb : List (List V)) (hn : emb.length = n) (eps : Rat)
    (mv : Bool) : Square n (fixedThreshold m emb eps mv) := by
  have hD : Square n (threshold (distRP m emb) (some (unitThr m eps))) := by
    apply threshold_square
    unfold distRP
    rw [hn]
    exact tab_shape n n _
  unfold fixedThreshold
  cases mv
  · simpa using hD
  · simpa using applyMask_square _ hD

/-! ### inter-system recurrence matrix: the two systems are reordered separately -/

/-- the renumbering of the `Nx + Ny` nodes of an inter-system recurrence network induced by
reordering the states of the first system by `idx` and those of the second by `idy` -/
def joinPerm (Nx : Nat) (idx idy : Nat → Nat) : Nat → Nat :=
  fun k => if k < Nx then idx k else Nx + idy (k - Nx)

theorem joinPerm_isPerm {Nx Ny : Nat} {idx idy : Nat → Nat} (hx : IsPerm Nx idx)
    (hy : IsPerm Ny idy) : IsPerm (Nx + Ny) (joinPerm Nx idx idy) := by
  unfold IsPerm
  rw [List.range_add, List.map_append]
  apply List.Perm.append
  · have : (List.range Nx).map (joinPerm Nx idx idy) = (List.range Nx).map idx := by
      apply List.map_congr_left
      intro k hk
      simp [joinPerm, List.mem_range.mp hk]
    rw [this]; exact hx
  · have : ((List.range Ny).map (Nx + ·)).map (joinPerm Nx idx idy)
        = ((List.range Ny).map idy).map (Nx + ·) := by
      rw [List.map_map, List.map_map]
      apply List.map_congr_left
      intro k _
      simp [joinPerm]
    rw [this]
    exact List.Perm.map _ hy

theorem getD_of_entry {α : Type} (M : List (List α)) (d : α) (i j : Nat) (v : α)
    (h : entry M i j = some v) : (M.getD i []).getD j d = v := by
  unfold entry at h
  cases hi : M[i]? with
  | none => simp [hi] at h
  | some row =>
    simp only [hi, Option.bind_some] at h
    simp [List.getD_eq_getElem?_getD, hi, h]

/-- the block assembly `ISRM[:Nx,:Nx] = Rx; ISRM[:Nx,Nx:] = CR; ISRM[Nx:,:Nx] = CRᵀ;
ISRM[Nx:,Nx:] = Ry` of separately reordered systems is the renumbered assembly -/
theorem isrm_relabel {Nx Ny : Nat} {idx idy : Nat → Nat} (hx : IsPerm Nx idx) (hy : IsPerm Ny idy)
    (Rx Ry CR Rx' Ry' CR' : List (List Bool))
    (ex : ∀ a b, a < Nx → b < Nx →
      (Rx'.getD a []).getD b false = (Rx.getD (idx a) []).getD (idx b) false)
    (ey : ∀ a b, a < Ny → b < Ny →
      (Ry'.getD a []).getD b false = (Ry.getD (idy a) []).getD (idy b) false)
    (ec : ∀ a b, a < Nx → b < Ny →
      (CR'.getD a []).getD b false = (CR.getD (idx a) []).getD (idy b) false)
    (M M' : List (List Bool)) (hM : isrm Nx Ny Rx Ry CR = some M)
    (hM' : isrm Nx Ny Rx' Ry' CR' = some M') (a b : Nat) (ha : a < Nx + Ny) (hb : b < Nx + Ny) :
    entry M' a b = entry M (joinPerm Nx idx idy a) (joinPerm Nx idx idy b) := by
  unfold isrm at hM hM'
  simp only at hM hM'
  split at hM <;> [skip; exact absurd hM (by simp)]
  split at hM' <;> [skip; exact absurd hM' (by simp)]
  simp only [Option.some.injEq] at hM hM'
  subst hM hM'
  have hJ := joinPerm_isPerm hx hy
  rw [entry_tab, entry_tab]
  rw [if_pos (show a < Nx + Ny ∧ b < Nx + Ny from ⟨ha, hb⟩),
    if_pos (show joinPerm Nx idx idy a < Nx + Ny ∧ joinPerm Nx idx idy b < Nx + Ny from
      ⟨hJ.lt ha, hJ.lt hb⟩)]
  congr 1
  unfold joinPerm
  by_cases h1 : a < Nx <;> by_cases h2 : b < Nx
  · have := hx.lt h1; have := hx.lt h2
    simp only [*, if_true]
  · have := hx.lt h1
    have hb' : b - Nx < Ny := by omega
    have : ¬ Nx + idy (b - Nx) < Nx := by omega
    simp only [*, if_true, if_false, Nat.add_sub_cancel_left]
  · have := hx.lt h2
    have ha' : a - Nx < Ny := by omega
    have : ¬ Nx + idy (a - Nx) < Nx := by omega
    simp only [*, if_true, if_false, Nat.add_sub_cancel_left]
  · have ha' : a - Nx < Ny := by omega
    have hb' : b - Nx < Ny := by omega
    have : ¬ Nx + idy (a - Nx) < Nx := by omega
    have : ¬ Nx + idy (b - Nx) < Nx := by omega
    simp only [*, if_false, Nat.add_sub_cancel_left]

/-- cross-distance matrix of two separately reordered trajectories -/
theorem distCRP_relabel {Nx Ny : Nat} {idx idy : Nat → Nat} (m : Metric) (ex ey : List (List V))
    (a b : Nat) (ha : a < Nx) (hb : b < Ny) :
    entry (distCRP m (rows Nx idx ex) (rows Ny idy ey)) a b
      = some (dist m (rowOf ex (idx a)) (rowOf ey (idy b))) := by
  unfold distCRP
  rw [rows_length, rows_length, entry_tab, if_pos ⟨ha, hb⟩, rowOf_rows ex a ha, rowOf_rows ey b hb]

theorem entry_of_square {M : List (List Bool)} (h : Square n M) (a b : Nat) (ha : a < n)
    (hb : b < n) : entry M a b = some ((M.getD a []).getD b false) := by
  unfold entry
  have ha' : a < M.length := by rw [h.1]; exact ha
  have hr : (M[a]).length = n := h.2 _ (List.getElem_mem ha')
  simp [List.getD_eq_getElem?_getD, List.getElem?_eq_getElem ha', hr, hb]

theorem getD_eq_of_entry {M M' : List (List Bool)} (h : Square n M) (h' : Square n' M')
    (a b a' b' : Nat) (ha : a < n) (hb : b < n) (ha' : a' < n') (hb' : b' < n')
    (e : entry M' a' b' = entry M a b) :
    (M'.getD a' []).getD b' false = (M.getD a []).getD b false := by
  rw [entry_of_square h a b ha hb, entry_of_square h' a' b' ha' hb'] at e
  exact Option.some.inj e

/-- **inter-system recurrence network of two separately reordered systems**: recurrence matrices
of `x` and `y` at fixed thresholds, cross-recurrence matrix `CR[a, b] = (d(x_a, y_b) < thr)`, block
assembly — the result is the assembly of the original systems renumbered by `joinPerm` -/
theorem intersystem_relabel {Nx Ny : Nat} {idx idy : Nat → Nat} (hx : IsPerm Nx idx)
    (hy : IsPerm Ny idy) (m : Metric) (ex ey : List (List V)) (hnx : ex.length = Nx)
    (hny : ey.length = Ny) (epsx epsy : Rat) (t : V) (mv : Bool) (M M' : List (List Bool))
    (hM : isrm Nx Ny (fixedThreshold m ex epsx mv) (fixedThreshold m ey epsy mv)
      (threshold (distCRP m ex ey) t) = some M)
    (hM' : isrm Nx Ny (fixedThreshold m (rows Nx idx ex) epsx mv)
      (fixedThreshold m (rows Ny idy ey) epsy mv)
      (threshold (distCRP m (rows Nx idx ex) (rows Ny idy ey)) t) = some M')
    (a b : Nat) (ha : a < Nx + Ny) (hb : b < Nx + Ny) :
    entry M' a b = entry M (joinPerm Nx idx idy a) (joinPerm Nx idx idy b) := by
  refine isrm_relabel hx hy _ _ _ _ _ _ ?_ ?_ ?_ M M' hM hM' a b ha hb
  · intro a b ha hb
    exact getD_eq_of_entry (fixedThreshold_square m ex hnx epsx mv)
      (fixedThreshold_square m _ (rows_length ex) epsx mv) _ _ _ _ (hx.lt ha) (hx.lt hb) ha hb
      (fixedThreshold_relabel hx m ex hnx epsx mv a b ha hb)
  · intro a b ha hb
    exact getD_eq_of_entry (fixedThreshold_square m ey hny epsy mv)
      (fixedThreshold_square m _ (rows_length ey) epsy mv) _ _ _ _ (hy.lt ha) (hy.lt hb) ha hb
      (fixedThreshold_relabel hy m ey hny epsy mv a b ha hb)
  · intro a b ha hb
    have e' := distCRP_relabel (idx := idx) (idy := idy) m ex ey a b ha hb
    have e : entry (distCRP m ex ey) (idx a) (idy b)
        = some (dist m (rowOf ex (idx a)) (rowOf ey (idy b))) := by
      unfold distCRP
      rw [entry_tab, if_pos ⟨by rw [hnx]; exact hx.lt ha, by rw [hny]; exact hy.lt hb⟩]
    have c' : entry (threshold (distCRP m (rows Nx idx ex) (rows Ny idy ey)) t) a b
        = entry (threshold (distCRP m ex ey) t) (idx a) (idy b) := by
      unfold threshold
      rw [entry_map_map, entry_map_map, e', e]
    have v : ∀ (Mx : List (List Bool)) (i j : Nat) (x : Bool), entry Mx i j = some x →
        (Mx.getD i []).getD j false = x := fun Mx i j x hx => getD_of_entry Mx false i j x hx
    have s' : entry (threshold (distCRP m (rows Nx idx ex) (rows Ny idy ey)) t) a b
        = some (ltV (dist m (rowOf ex (idx a)) (rowOf ey (idy b))) t) := by
      unfold threshold; rw [entry_map_map, e']; rfl
    have s : entry (threshold (distCRP m ex ey) t) (idx a) (idy b)
        = some (ltV (dist m (rowOf ex (idx a)) (rowOf ey (idy b))) t) := by
      unfold threshold; rw [entry_map_map, e]; rfl
    rw [v _ _ _ _ s', v _ _ _ _ s]

end Pyunicorn.Relabel
