import Pyunicorn.Model.Coupling2
import Pyunicorn.Lemmas.CouplingStat
/-!
Helper lemmas for the round-2 part of the C10 model (`Model/Coupling2.lean`) and for the rank /
quantile statements about `Model/Coupling.lean`.
-/
namespace Pyunicorn.Coupling

/-! ### `_test_mutual_information_fast` result layout -/

theorem tmiRow_other {α : Type} (val : Nat → Nat → α) (N i n : Nat) (M : Nat → α) (t : Nat)
    (h : ∀ j, j < n → j ≠ i → t ≠ i * N + j) : tmiRow val N i n M t = M t := by
  induction n with
  | zero => rfl
  | succ n ih =>
    simp only [tmiRow]
    have ih' := ih (fun j hj => h j (by omega))
    by_cases hin : i = n
    · rw [if_pos hin]; exact ih'
    · rw [if_neg hin]
      have := h n (by omega) (fun e => hin e.symm)
      simp only [upd, if_neg this]
      exact ih'

theorem tmiRow_entry {α : Type} (val : Nat → Nat → α) (N i n : Nat) (M : Nat → α) (j : Nat)
    (hjn : j < n) (hji : j ≠ i) (hn : n ≤ N) :
    tmiRow val N i n M (i * N + j) = val i j := by
  induction n with
  | zero => omega
  | succ n ih =>
    simp only [tmiRow]
    by_cases hj : j = n
    · subst hj
      rw [if_neg (fun e => hji e.symm)]
      simp [upd]
    · have ih' := ih (by omega) (by omega)
      by_cases hin : i = n
      · rw [if_pos hin]; exact ih'
      · rw [if_neg hin]
        have n1 : i * N + j ≠ i * N + n := flat_ne (by omega) (by omega) (Or.inr hj)
        simp only [upd, if_neg n1]
        exact ih'

theorem tmiFlat_entry {α : Type} (zero : α) (val : Nat → Nat → α) (N n a b : Nat) (hn : n ≤ N)
    (ha : a < n) (hb : b < N) (hab : a ≠ b) :
    tmiFlat zero val N n (a * N + b) = val a b := by
  induction n with
  | zero => omega
  | succ n ih =>
    simp only [tmiFlat]
    by_cases han : a = n
    · subst han
      exact tmiRow_entry val N a N _ b hb (fun e => hab e.symm) (Nat.le_refl _)
    · rw [tmiRow_other val N n N _ (a * N + b) (fun j hj _ => flat_ne hb hj (Or.inl han))]
      exact ih (by omega) (by omega)

theorem tmiFlat_diag {α : Type} (zero : α) (val : Nat → Nat → α) (N n a : Nat) (ha : a < N) :
    tmiFlat zero val N n (a * N + a) = zero := by
  induction n with
  | zero => rfl
  | succ n ih =>
    simp only [tmiFlat]
    rw [tmiRow_other val N n N _ (a * N + a) (fun j hj hjn => by
      by_cases e : a = n
      · subst e; exact flat_ne ha hj (Or.inr (fun e => hjn e.symm))
      · exact flat_ne ha hj (Or.inl e))]
    exact ih

/-! ### sums: reversal of the summation index -/

theorem sumTo_succ_front (n : Nat) (f : Nat → Rat) :
    sumTo (n + 1) f = f 0 + sumTo n (fun k => f (k + 1)) := by
  induction n with
  | zero => simp [sumTo]
  | succ n ih =>
    have : sumTo (n + 1 + 1) f = sumTo (n + 1) f + f (n + 1) := rfl
    rw [this, ih]
    simp only [sumTo]
    ring

theorem sumTo_reverse (n : Nat) (f : Nat → Rat) :
    sumTo n (fun k => f (n - 1 - k)) = sumTo n f := by
  induction n generalizing f with
  | zero => rfl
  | succ n ih =>
    rw [sumTo_succ_front (n) f]
    have h1 : sumTo (n + 1) (fun k => f (n + 1 - 1 - k)) =
        sumTo n (fun k => f (n + 1 - 1 - k)) + f (n + 1 - 1 - n) := rfl
    rw [h1]
    have h2 : sumTo n (fun k => f (n + 1 - 1 - k)) = sumTo n (fun k => f (n - 1 - k + 1)) := by
      apply sumTo_congr
      intro k hk
      have : n + 1 - 1 - k = n - 1 - k + 1 := by omega
      rw [this]
    rw [h2, ih (fun k => f (k + 1))]
    have : n + 1 - 1 - n = 0 := by omega
    rw [this]; ring

theorem meanTo_reverse (n : Nat) (f : Nat → Rat) :
    meanTo n (fun k => f (n - 1 - k)) = meanTo n f := by
  unfold meanTo; rw [sumTo_reverse]

theorem covTo_reverse (n : Nat) (f g : Nat → Rat) :
    covTo n (fun k => f (n - 1 - k)) (fun k => g (n - 1 - k)) = covTo n f g := by
  unfold covTo
  simp only [meanTo_reverse]
  exact sumTo_reverse n (fun k => (f k - meanTo n f) * (g k - meanTo n g))

theorem pearsonSq_reverse (n : Nat) (f g : Nat → Rat) :
    pearsonSq n (fun k => f (n - 1 - k)) (fun k => g (n - 1 - k)) = pearsonSq n f g := by
  unfold pearsonSq
  simp only [covTo_reverse]

theorem pearsonSq_congr {n : Nat} {f f' g g' : Nat → Rat} (hf : ∀ k, k < n → f k = f' k)
    (hg : ∀ k, k < n → g k = g' k) : pearsonSq n f g = pearsonSq n f' g' := by
  have hm : ∀ {u u' : Nat → Rat}, (∀ k, k < n → u k = u' k) → meanTo n u = meanTo n u' := by
    intro u u' h; unfold meanTo; rw [sumTo_congr h]
  have hc : ∀ {u u' v v' : Nat → Rat}, (∀ k, k < n → u k = u' k) → (∀ k, k < n → v k = v' k) →
      covTo n u v = covTo n u' v' := by
    intro u u' v v' hu hv
    unfold covTo
    simp only [hm hu, hm hv]
    apply sumTo_congr
    intro k hk
    rw [hu k hk, hv k hk]
  unfold pearsonSq
  simp only [hc hf hg, hc hf hf, hc hg hg]

/-! ### pure-Python `'max'` and `'sum'` modes -/

theorem pureMaxScan_eq (c : Nat → Rat) (n : Nat) :
    pureMaxScan c n = (rabs (absmaxScan c n).1, (absmaxScan c n).2) := by
  induction n with
  | zero => simp [pureMaxScan, absmaxScan, rabs_zero]
  | succ n ih =>
    simp only [pureMaxScan, absmaxScan, ih]
    split <;> rfl

theorem pureSumScan_low (c : Nat → Rat) (tauMax n : Nat) (hn : n ≤ tauMax) :
    pureSumScan c tauMax n = (0, sumTo n (fun t => rabs (c t))) := by
  induction n with
  | zero => rfl
  | succ n ih =>
    have h1 : n ≤ tauMax := by omega
    have h2 : ¬ n ≥ tauMax := by omega
    simp only [pureSumScan, ih (by omega), sumTo, if_pos h1, if_neg h2]

theorem pureSumScan_high (c : Nat → Rat) (tauMax m : Nat) :
    pureSumScan c tauMax (tauMax + 1 + m) =
      (sumTo (m + 1) (fun k => rabs (c (tauMax + k))), sumTo (tauMax + 1) (fun t => rabs (c t))) := by
  induction m with
  | zero =>
    have h := pureSumScan_low c tauMax tauMax (Nat.le_refl _)
    have : pureSumScan c tauMax (tauMax + 1 + 0) = pureSumScan c tauMax (tauMax + 1) := rfl
    rw [this]
    have h1 : tauMax ≤ tauMax := Nat.le_refl _
    have h2 : tauMax ≥ tauMax := Nat.le_refl _
    simp only [pureSumScan, h, sumTo, if_pos h1, if_pos h2]
    simp
  | succ m ih =>
    have e : tauMax + 1 + (m + 1) = (tauMax + 1 + m) + 1 := by omega
    rw [e]
    have h1 : ¬ tauMax + 1 + m ≤ tauMax := by omega
    have h2 : tauMax + 1 + m ≥ tauMax := by omega
    simp only [pureSumScan, ih, if_neg h1, if_pos h2]
    have e2 : tauMax + 1 + m = tauMax + (m + 1) := by omega
    rw [e2]
    rfl

/-! ### partial covariances -/

theorem pcovG_symm (G : Nat → Nat → Rat) (hG : ∀ a b, G a b = G b a) (zs : List Nat) (a b : Nat) :
    pcovG G zs a b = pcovG G zs b a := by
  induction zs generalizing a b with
  | nil => exact hG a b
  | cons w zs ih =>
    simp only [pcovG]
    split
    · exact ih a b
    · rw [ih a b, mul_comm (pcovG G zs a w)]

/-- after the confound `w` has been projected out, every residual is orthogonal to it -/
theorem pcovG_head_zero (G : Nat → Nat → Rat) (w : Nat) (zs : List Nat) (a : Nat)
    (hp : pcovG G zs w w ≠ 0) : pcovG G (w :: zs) a w = 0 := by
  simp only [pcovG, if_neg hp]
  field_simp
  ring

theorem pcovG_confound_zero (G : Nat → Nat → Rat) (hG : ∀ a b, G a b = G b a) (zs : List Nat)
    (hp : Pivots G zs) (a z : Nat) (hz : z ∈ zs) : pcovG G zs a z = 0 := by
  induction zs generalizing a with
  | nil => cases hz
  | cons w zs ih =>
    obtain ⟨hw, hrest⟩ := hp
    rcases List.mem_cons.mp hz with e | hmem
    · subst e; exact pcovG_head_zero G z zs a hw
    · simp only [pcovG, if_neg hw]
      have h1 := ih hrest a hmem
      have h2 : pcovG G zs z w = 0 := by rw [pcovG_symm G hG]; exact ih hrest w hmem
      rw [h1, h2]; simp

/-- rescaling the rows (`array /= array.std(axis=1)`, or an affine image of a series) rescales
every partial covariance by the two factors -/
theorem pcovG_scale (G : Nat → Nat → Rat) (s : Nat → Rat) (hs : ∀ d, s d ≠ 0) (zs : List Nat)
    (a b : Nat) :
    pcovG (fun a b => s a * s b * G a b) zs a b = s a * s b * pcovG G zs a b := by
  induction zs generalizing a b with
  | nil => rfl
  | cons w zs ih =>
    simp only [pcovG, ih]
    have hw := hs w
    by_cases hd : pcovG G zs w w = 0
    · rw [if_pos hd, if_pos (by rw [hd]; ring)]
    · have : s w * s w * pcovG G zs w w ≠ 0 := mul_ne_zero (mul_ne_zero hw hw) hd
      rw [if_neg hd, if_neg this]
      field_simp

theorem pivots_scale (G : Nat → Nat → Rat) (s : Nat → Rat) (hs : ∀ d, s d ≠ 0) (zs : List Nat) :
    Pivots (fun a b => s a * s b * G a b) zs ↔ Pivots G zs := by
  induction zs with
  | nil => simp [Pivots]
  | cons w zs ih =>
    simp only [Pivots, pcovG_scale G s hs, ih]
    have hw := hs w
    constructor
    · rintro ⟨h1, h2⟩
      exact ⟨fun e => h1 (by rw [e]; ring), h2⟩
    · rintro ⟨h1, h2⟩
      exact ⟨mul_ne_zero (mul_ne_zero hw hw) h1, h2⟩

theorem pivotsOk_iff (G : Nat → Nat → Rat) (zs : List Nat) : pivotsOk G zs = true ↔ Pivots G zs := by
  induction zs with
  | nil => simp [pivotsOk, Pivots]
  | cons w zs ih => simp [pivotsOk, Pivots, ih]

/-! ### the node list of `information_transfer` -/

theorem itNodes_lag_le (mit : Bool) (i j tau past : Nat) (node : Nat × Nat)
    (h : node ∈ itNodes mit i j tau past) : node.2 ≤ tau + past := by
  unfold itNodes at h
  simp only [List.mem_append, List.mem_cons, List.mem_map, List.mem_range, List.not_mem_nil,
    or_false] at h
  rcases h with ((h | h) | ⟨p, hp, rfl⟩) | h
  · subst h; simp
  · subst h; simp
  · simp; omega
  · cases mit
    · simp at h
    · simp only [if_true, List.mem_map, List.mem_range] at h
      obtain ⟨p, hp, rfl⟩ := h
      simp; omega

theorem itNodes_length (mit : Bool) (i j tau past : Nat) :
    (itNodes mit i j tau past).length = 2 + past + (if mit then past else 0) := by
  unfold itNodes
  cases mit <;> simp <;> omega

/-! ### counting pairs: the ranks sum to `n(n+1)/2` -/

theorem countTo_eq_sumNatTo (m : Nat) (q : Nat → Bool) :
    countTo m q = sumNatTo m (fun j => if q j then 1 else 0) := by
  induction m with
  | zero => rfl
  | succ m ihm => simp only [sumNatTo, countTo, ihm]

theorem sumNatTo_countTo_swap (n m : Nat) (p : Nat → Nat → Bool) :
    sumNatTo n (fun i => countTo m (fun j => p i j)) =
      sumNatTo m (fun j => countTo n (fun i => p i j)) := by
  induction n with
  | zero =>
    simp only [sumNatTo, countTo]
    exact (sumNatTo_zero m).symm
  | succ n ih =>
    simp only [sumNatTo, countTo, ih]
    rw [sumNatTo_add]
    congr 1
    exact countTo_eq_sumNatTo m _

theorem countTo_tri (n : Nat) (x : Nat → Rat) (i : Nat) :
    countTo n (fun j => decide (x j < x i)) + countTo n (fun j => decide (x j = x i)) +
      countTo n (fun j => decide (x i < x j)) = n := by
  induction n with
  | zero => rfl
  | succ n ih =>
    simp only [countTo]
    rcases lt_trichotomy (x n) (x i) with h | h | h
    · have h2 : ¬ x n = x i := ne_of_lt h
      have h3 : ¬ x i < x n := not_lt.mpr (le_of_lt h)
      simp only [h, h2, h3, decide_true, decide_false, if_true]
      simp; omega
    · have h1 : ¬ x n < x i := by rw [h]; exact lt_irrefl _
      have h3 : ¬ x i < x n := by rw [h]; exact lt_irrefl _
      simp only [h, h1, h3, decide_true, decide_false, if_true]
      simp; omega
    · have h1 : ¬ x n < x i := not_lt.mpr (le_of_lt h)
      have h2 : ¬ x n = x i := ne_of_gt h
      simp only [h, h1, h2, decide_true, decide_false, if_true]
      simp; omega

theorem sumNatTo_const (n c : Nat) : sumNatTo n (fun _ => c) = n * c := by
  induction n with
  | zero => simp [sumNatTo]
  | succ n ih => simp only [sumNatTo, ih]; ring

end Pyunicorn.Coupling
