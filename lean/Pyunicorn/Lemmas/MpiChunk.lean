import Pyunicorn.Model.MpiChunk
import Pyunicorn.Lemmas.Mpi
/-! Lemmas about the chunk-call model (`Model/MpiChunk.lean`). -/
namespace Pyunicorn.MpiChunk
open Pyunicorn.Mpi

variable {ρ β : Type}

/-- the two loop shapes (Python kernel: absolute loop variable, `X[i - start_i]`; Cython
kernels: relative loop variable, `i_abs = i_rel + start_i`) are the same function -/
theorem chunkKernelRel_eq_abs [Inhabited ρ] (idx : Nat → Idx)
    (body : (Nat → ρ) → (Nat → Arr ρ) → Nat → β) (args : Nat → Arr ρ) (start stop : Nat) :
    chunkKernelRel idx body args start stop = chunkKernelAbs idx body args start stop := by
  unfold chunkKernelRel chunkKernelAbs kernelRow
  rw [List.range'_eq_map_range, List.map_map]
  apply List.map_congr_left
  intro k _
  simp only [Function.comp_def]
  have h1 : start + k - start = k := by omega
  have h2 : k + start = start + k := by omega
  rw [h1, h2]

/-- **one iteration of a correctly called chunk = the iteration of the serial call** -/
theorem kernelRow_dist_eq_serial [Inhabited ρ] (idx : Nat → Idx) (pass : Nat → Pass)
    (hOK : ∀ p, idx p = .rel ↔ pass p = .sliced)
    (body : (Nat → ρ) → (Nat → Arr ρ) → Nat → β) (full : Nat → Arr ρ) (s k : Nat) :
    kernelRow idx body (distArgs pass full s) s (s + k) = serialRow idx body full (s + k) := by
  unfold serialRow kernelRow
  have h1 : relView idx (distArgs pass full s) (s + k - s) = relView idx full (s + k - 0) := by
    funext p
    unfold relView
    by_cases h : idx p = .rel
    · have hp := (hOK p).mp h
      have : s + k - s = k := by omega
      simp [h, distArgs, hp, passArg, sliceRows, this]
    · simp [h]
  have h2 : wholeView idx (distArgs pass full s) = wholeView idx full := by
    funext p
    unfold wholeView
    by_cases h : idx p = .rel
    · simp [h]
    · have hp : pass p = .whole := by
        cases hq : pass p with
        | whole => rfl
        | sliced => exact absurd ((hOK p).mpr hq) h
      simp [h, distArgs, hp, passArg]
  rw [h1, h2]

/-- **a correctly called chunk returns the rows `start_i … end_i - 1` of the serial call** -/
theorem chunk_call_eq_chunkResult [Inhabited ρ] (idx : Nat → Idx) (pass : Nat → Pass)
    (hOK : ∀ p, idx p = .rel ↔ pass p = .sliced)
    (body : (Nat → ρ) → (Nat → Arr ρ) → Nat → β) (full : Nat → Arr ρ) (c : Nat × Nat) :
    chunkKernelAbs idx body (distArgs pass full c.1) c.1 c.2 =
      chunkResult (serialRow idx body full) c := by
  unfold chunkKernelAbs chunkResult
  rw [List.range'_eq_map_range, List.map_map]
  apply List.map_congr_left
  intro k _
  exact kernelRow_dist_eq_serial idx pass hOK body full c.1 k

/-- the serial call `kernel(whole arrays, 0, N)` -/
theorem serial_call_eq [Inhabited ρ] (idx : Nat → Idx)
    (body : (Nat → ρ) → (Nat → Arr ρ) → Nat → β) (full : Nat → Arr ρ) (N : Nat) :
    chunkKernelAbs idx body full 0 N = (List.range N).map (serialRow idx body full) := by
  unfold chunkKernelAbs serialRow
  rw [List.range'_eq_map_range, List.map_map]
  apply List.map_congr_left
  intro k _
  simp

/-- slice assembly of explicit chunk results = `assemble` of the model of round 1 -/
theorem assembleR_map (zero : α) (N : Nat) (f : Nat → α) (cs : List (Nat × Nat)) :
    assembleR zero N (cs.map fun c => (c.1, chunkResult f c)) = assemble zero N f cs := by
  unfold assembleR assemble
  rw [List.foldl_map]

/-! ### additive assembly over the master's own chunks -/

theorem chunks_succ (N step k : Nat) :
    chunks N step (k + 1) = chunks N step k ++ [(k * step, min ((k + 1) * step) N)] := by
  simp [chunks, List.range_succ]

theorem addVec_getElem? (a b : List Int) (j : Nat) (x y : Int) (ha : a[j]? = some x)
    (hb : b[j]? = some y) : (addVec a b)[j]? = some (x + y) := by
  simp [addVec, List.getElem?_zipWith, ha, hb]

theorem foldl_addVec_length (N : Nat) (g : Nat × Nat → List Int) (cs : List (Nat × Nat))
    (hg : ∀ c, (g c).length = N) (acc : List Int) (hacc : acc.length = N) :
    (cs.foldl (fun a c => addVec a (g c)) acc).length = N := by
  induction cs generalizing acc with
  | nil => simpa using hacc
  | cons c t ih =>
    simp only [List.foldl_cons]
    apply ih
    simp [addVec, hacc, hg c]

/-- adding the partial results of the chunks `0..k-1` of the master (`k ≤ parts`) gives,
in column `j`, the sum over the rows below `min (k·step) N` -/
theorem assembleSum_chunks_prefix (N step : Nat) (f : Nat → Nat → Int) (j : Nat) (hj : j < N)
    (k : Nat) :
    (assembleSum N f (chunks N step k))[j]? =
      some (((List.range (min (k * step) N)).map fun i => f i j).sum) := by
  induction k with
  | zero => simp [assembleSum, chunks, hj]
  | succ k ih =>
    rw [chunks_succ]
    unfold assembleSum at ih ⊢
    rw [List.foldl_append]
    simp only [List.foldl_cons, List.foldl_nil]
    have hpr : (partialResult N f (k * step, min ((k + 1) * step) N))[j]? =
        some (((List.range (min ((k + 1) * step) N - k * step)).map
          fun i => f (k * step + i) j).sum) := by
      simp [partialResult, hj]
    rw [addVec_getElem? _ _ j _ _ ih hpr]
    congr 1
    have hmul : (k + 1) * step = k * step + step := by rw [Nat.add_mul]; omega
    by_cases hle : k * step ≤ N
    · have e1 : min (k * step) N = k * step := by omega
      have e2 : min ((k + 1) * step) N = k * step + (min ((k + 1) * step) N - k * step) := by
        omega
      rw [e1]
      conv => rhs; rw [e2, List.range_add, List.map_append, List.sum_append, List.map_map]
      rfl
    · have e1 : min (k * step) N = N := by omega
      have e2 : min ((k + 1) * step) N = N := by omega
      have e3 : N - k * step = 0 := by omega
      rw [e1, e2, e3]
      simp

/-- **additive assembly of the master's chunks = the single full-range call**, column by
column, under the facts the chunk arithmetic guarantees -/
theorem assembleSum_chunks (N step parts : Nat) (f : Nat → Nat → Int) (hhi : N ≤ parts * step)
    (j : Nat) (hj : j < N) :
    (assembleSum N f (chunks N step parts))[j]? =
      some (((List.range N).map fun i => f i j).sum) := by
  rw [assembleSum_chunks_prefix N step f j hj parts]
  have : min (parts * step) N = N := by omega
  rw [this]

/-- the additive kernel on a correctly handed-over chunk = `partialResult` of the serial rows -/
theorem addKernel_dist_eq_partial [Inhabited ρ] (idx : Nat → Idx) (pass : Nat → Pass)
    (hOK : ∀ p, idx p = .rel ↔ pass p = .sliced)
    (body : (Nat → ρ) → (Nat → Arr ρ) → Nat → Nat → Int) (full : Nat → Arr ρ) (N : Nat)
    (c : Nat × Nat) :
    addKernel idx body N (distArgs pass full c.1) c.1 c.2 =
      partialResult N (fun i j => serialRow idx body full i j) c := by
  unfold addKernel partialResult
  apply List.map_congr_left
  intro j _
  congr 1
  apply List.map_congr_left
  intro k _
  rw [kernelRow_dist_eq_serial idx pass hOK body full c.1 k]

theorem addKernel_serial [Inhabited ρ] (idx : Nat → Idx)
    (body : (Nat → ρ) → (Nat → Arr ρ) → Nat → Nat → Int) (full : Nat → Arr ρ) (N : Nat) :
    addKernel idx body N full 0 N =
      (List.range N).map fun j => ((List.range N).map fun i => serialRow idx body full i j).sum := by
  unfold addKernel serialRow
  simp

theorem assembleAdd_map (N : Nat) (g : Nat × Nat → List Int) (cs : List (Nat × Nat)) :
    assembleAdd N (cs.map g) = cs.foldl (fun a c => addVec a (g c)) (List.replicate N 0) := by
  unfold assembleAdd
  rw [List.foldl_map]

/-! ### the generated chunk arithmetic, in natural numbers -/

/-- facts about `step = ⌈N/mp⌉`, `parts = ⌈N/step⌉` in the form the assembly theorems need -/
theorem chunk_facts_nat (N mp step parts : Int) (hN : 1 ≤ N) (hmp : 1 ≤ mp)
    (hstep : step = (N + mp - 1) / mp) (hparts : parts = (N + step - 1) / step) :
    1 ≤ step.toNat ∧ (parts.toNat - 1) * step.toNat < N.toNat ∧
      N.toNat ≤ parts.toNat * step.toNat ∧ 1 ≤ parts.toNat := by
  have hf := chunk_facts N mp hN hmp
  simp only [← hstep] at hf
  simp only [← hparts] at hf
  obtain ⟨h1, h2, h3, _, h5⟩ := hf
  have hs : (step.toNat : Int) = step := Int.toNat_of_nonneg (by omega)
  have hp : (parts.toNat : Int) = parts := Int.toNat_of_nonneg (by omega)
  have hn : (N.toNat : Int) = N := Int.toNat_of_nonneg (by omega)
  have hlast := h3 (parts - 1) (by omega) (by omega)
  have e : parts - 1 + 1 = parts := by omega
  rw [e] at hlast h5
  refine ⟨by omega, ?_, ?_, by omega⟩
  · have hc : ((parts.toNat - 1 : Nat) : Int) = parts - 1 := by omega
    have hlt : (parts - 1) * step < N := by omega
    have : (((parts.toNat - 1) * step.toNat : Nat) : Int) < (N.toNat : Int) := by
      rw [Int.natCast_mul, hc, hs, hn]; exact hlt
    exact Int.ofNat_lt.mp this
  · have hle : N ≤ parts * step := by omega
    have : (N.toNat : Int) ≤ ((parts.toNat * step.toNat : Nat) : Int) := by
      rw [Int.natCast_mul, hs, hp, hn]; exact hle
    exact Int.ofNat_le.mp this

end Pyunicorn.MpiChunk
