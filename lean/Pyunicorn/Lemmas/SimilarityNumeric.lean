import Pyunicorn.Model.SimilarityNumeric
import Pyunicorn.Lemmas.Similarity
import Pyunicorn.Lemmas.SimilarityIeee
/-!
# Lemmas about the NaN / float32 model of `ClimateNetwork` (C09, round 4)

The model with NaN entries is reduced to the exact one: for a finite threshold `t` a NaN entry
behaves like the value `t` (it is not `> t`); for a NaN threshold the network is empty.
-/
namespace Pyunicorn.Similarity

/-- a NaN entry is replaced by a value that is not above the threshold -/
def fillNaN (W : XSim) (t : Rat) : Sim := fun i j => (W i j).getD t

theorem gtX_none (x : Option Rat) : gtX x none = false := by cases x <;> rfl

theorem gtX_some (x : Option Rat) (t : Rat) : gtX x (some t) = decide (t < x.getD t) := by
  cases x with
  | none => simp [gtX]
  | some a => simp [gtX]

theorem thresholdAdjacencyX_some (W : XSim) (t : Rat) (N : Nat) :
    thresholdAdjacencyX W (some t) N = thresholdAdjacency (fillNaN W t) t N := by
  unfold thresholdAdjacencyX thresholdAdjacency threshFlatX threshFlat
  congr 1
  apply List.map_congr_left
  intro p _
  simp only [gtX_some, fillNaN]
  exact decide_eq_decide.2 Iff.rfl

theorem length_thresholdAdjacencyX (W : XSim) (θ : Option Rat) (N : Nat) :
    (thresholdAdjacencyX W θ N).length = N * N := by
  simp [thresholdAdjacencyX, zeroStride, threshFlatX]

theorem getElem?_thresholdAdjacencyX (W : XSim) (θ : Option Rat) (N i j : Nat)
    (hi : i < N) (hj : j < N) :
    (thresholdAdjacencyX W θ N)[i * N + j]? = some (decide (i ≠ j) && gtX (W i j) θ) := by
  cases θ with
  | some t =>
    rw [thresholdAdjacencyX_some, getElem?_thresholdAdjacency _ _ _ _ _ hi hj, gtX_some]
    by_cases hij : i = j <;> simp [fillNaN, hij]
  | none =>
    have := flat_lt N i j hi hj
    simp [thresholdAdjacencyX, zeroStride, threshFlatX, gtX_none, List.getElem?_mapIdx,
      List.getElem?_replicate, this]

theorem offDiag_fillNaN (W : XSim) (t : Rat) (N : Nat) :
    offDiag (fillNaN W t) N = (offDiagX W N).map (·.getD t) := by
  simp [offDiag, offDiagX, fillNaN, List.map_map, Function.comp_def]

theorem nnz_thresholdAdjacencyX (W : XSim) (θ : Option Rat) (N : Nat) :
    nnz (thresholdAdjacencyX W θ N) = (offDiagX W N).countP fun x => gtX x θ := by
  cases θ with
  | some t =>
    rw [thresholdAdjacencyX_some, nnz_thresholdAdjacency, offDiag_fillNaN, List.countP_map]
    apply List.countP_congr
    intro x _
    simp [gtX_some]
  | none =>
    have h1 : (offDiagX W N).countP (fun x => gtX x none) = 0 := by
      rw [List.countP_eq_zero]; intro x _; simp [gtX_none]
    rw [h1]
    simp only [nnz, List.count_eq_zero]
    intro hm
    simp only [thresholdAdjacencyX, zeroStride, threshFlatX, gtX_none] at hm
    rw [List.mem_mapIdx] at hm
    obtain ⟨p, hp, h⟩ := hm
    split at h
    · exact absurd h (by simp)
    · simp at h

theorem length_offDiagX (S : XSim) (N : Nat) : (offDiagX S N).length + N = N * N := by
  have := length_offDiag (fun _ _ => 0) N
  simpa [offDiag, offDiagX] using this

/-! ### sorting with the NaNs last -/

theorem length_filterMap_add_nan (l : List (Option Rat)) :
    (finiteVals l).length + l.countP Option.isNone = l.length := by
  induction l with
  | nil => simp [finiteVals]
  | cons a t ih => cases a <;> simp [finiteVals, List.countP_cons] <;> omega

theorem sortX_length (l : List (Option Rat)) : (sortX l).length = l.length := by
  simp [sortX, sortAsc_length, length_filterMap_add_nan]

theorem countP_gtX_some (l : List (Option Rat)) (t : Rat) :
    l.countP (fun x => gtX x (some t)) = (finiteVals l).countP fun s => decide (t < s) := by
  induction l with
  | nil => simp [finiteVals]
  | cons a r ih =>
    cases a with
    | none => simpa [finiteVals, List.countP_cons, gtX] using ih
    | some b => simp only [finiteVals, List.countP_cons, ih]; simp [gtX]

theorem countP_eq_some (l : List (Option Rat)) (t : Rat) :
    l.countP (fun x => decide (x = some t)) = (finiteVals l).countP fun s => decide (s = t) := by
  induction l with
  | nil => simp [finiteVals]
  | cons a r ih =>
    cases a with
    | none => simpa [finiteVals, List.countP_cons] using ih
    | some b => simp only [finiteVals, List.countP_cons, ih]; simp

/-- the pairs tied at the selected value (none when it is NaN: `NaN == NaN` is false) -/
def tiesX (l : List (Option Rat)) (θ : Option Rat) : Nat :=
  match θ with
  | some t => l.countP fun x => decide (x = some t)
  | none => 0

theorem sortX_getElem? (l : List (Option Rat)) (m : Nat) :
    (sortX l)[m]? = if m < (finiteVals l).length then ((sortAsc (finiteVals l))[m]?).map some
      else if m < l.length then some none else none := by
  have hl := length_filterMap_add_nan l
  simp only [sortX]
  rw [List.getElem?_append]
  simp only [List.length_map, sortAsc_length]
  split
  · simp
  · rename_i h
    rw [List.getElem?_replicate]
    split <;> split <;> first | rfl | omega

/-- at most `len − 1 − m` entries exceed the selected value, `m` the clamped index
(NaNs never exceed anything; a NaN threshold is exceeded by nothing) -/
theorem quantileX_upper (l : List (Option Rat)) (k : Nat) (θ : Option Rat)
    (h : (sortX l)[min k ((sortX l).length - 1)]? = some θ) :
    l.countP (fun x => gtX x θ) + min k (l.length - 1) + 1 ≤ l.length := by
  rw [sortX_length, sortX_getElem?] at h
  have hl := length_filterMap_add_nan l
  cases θ with
  | none =>
    have : l.countP (fun x => gtX x none) = 0 := by
      rw [List.countP_eq_zero]; intro x _; simp [gtX_none]
    rw [this]
    split at h
    · omega
    · split at h
      · omega
      · exact absurd h (by simp)
  | some t =>
    split at h
    · rename_i hm
      have hm' : min k (l.length - 1) < (sortAsc (finiteVals l)).length := by
        rw [sortAsc_length]; exact hm
      rw [List.getElem?_eq_getElem hm'] at h
      simp only [Option.map_some, Option.some.injEq] at h
      have := countP_gt_le_of_sorted _ (sortAsc_sorted (finiteVals l)) _ hm'
      rw [h, (sortAsc_perm _).countP_eq, sortAsc_length] at this
      rw [countP_gtX_some]
      omega
    · split at h <;> simp at h

/-- at least `len − m` entries are above the selected value, tied with it, or NaN -/
theorem quantileX_lower (l : List (Option Rat)) (k : Nat) (θ : Option Rat)
    (h : (sortX l)[min k ((sortX l).length - 1)]? = some θ) :
    l.length ≤ l.countP (fun x => gtX x θ) + tiesX l θ + l.countP Option.isNone
      + min k (l.length - 1) := by
  rw [sortX_length, sortX_getElem?] at h
  have hl := length_filterMap_add_nan l
  cases θ with
  | none =>
    split at h
    · rename_i hm
      have hm' : min k (l.length - 1) < (sortAsc (finiteVals l)).length := by
        rw [sortAsc_length]; exact hm
      rw [List.getElem?_eq_getElem hm'] at h
      simp at h
    · omega
  | some t =>
    split at h
    · rename_i hm
      have hm' : min k (l.length - 1) < (sortAsc (finiteVals l)).length := by
        rw [sortAsc_length]; exact hm
      rw [List.getElem?_eq_getElem hm'] at h
      simp only [Option.map_some, Option.some.injEq] at h
      have := countP_ge_ge_of_sorted _ (sortAsc_sorted (finiteVals l)) _ hm'
      rw [h, (sortAsc_perm _).countP_eq, sortAsc_length, countP_ge_split] at this
      simp only [tiesX]
      rw [countP_gtX_some, countP_eq_some]
      omega
    · split at h <;> simp at h

theorem mem_of_mem_finiteVals (l : List (Option Rat)) (t : Rat) (h : t ∈ finiteVals l) :
    some t ∈ l := by
  induction l with
  | nil => simp [finiteVals] at h
  | cons a r ih =>
    cases a with
    | none => exact List.mem_cons_of_mem _ (ih (by simpa [finiteVals] using h))
    | some b =>
      simp only [finiteVals, List.mem_cons] at h
      rcases h with rfl | h
      · simp
      · exact List.mem_cons_of_mem _ (ih h)

/-- a finite selected value is one of the entries -/
theorem quantileX_mem (l : List (Option Rat)) (k : Nat) (t : Rat)
    (h : (sortX l)[min k ((sortX l).length - 1)]? = some (some t)) : some t ∈ l := by
  rw [sortX_length, sortX_getElem?] at h
  split at h
  · rename_i hm
    have hm' : min k (l.length - 1) < (sortAsc (finiteVals l)).length := by
      rw [sortAsc_length]; exact hm
    rw [List.getElem?_eq_getElem hm'] at h
    simp only [Option.map_some, Option.some.injEq] at h
    have : t ∈ finiteVals l := by
      rw [← h]; exact (sortAsc_perm _).mem_iff.1 (List.getElem_mem hm')
    exact mem_of_mem_finiteVals _ _ this
  · split at h <;> simp at h

/-! ### the exact model is the special case "no NaN, no rounding" -/

theorem sortX_map_some (l : List Rat) : sortX (l.map some) = (sortAsc l).map some := by
  have h1 : finiteVals (l.map some) = l := by
    induction l with
    | nil => rfl
    | cons a t ih => simp [finiteVals, ih]
  have h2 : (l.map some).countP Option.isNone = 0 := by
    rw [List.countP_eq_zero]; intro x hx
    obtain ⟨a, _, rfl⟩ := List.mem_map.1 hx
    simp
  simp [sortX, h1, h2]

theorem offDiagX_embedSim (S : Sim) (N : Nat) : offDiagX (embedSim S) N = (offDiag S N).map some := by
  simp [offDiagX, offDiag, embedSim, List.map_map, Function.comp_def]

theorem thresholdFromIndexX_embed (S : Sim) (N k : Nat) :
    thresholdFromIndexX (embedSim S) N k = (thresholdFromIndex S N k).map some := by
  simp only [thresholdFromIndexX, thresholdFromIndex, offDiagX_embedSim, sortX_map_some,
    List.length_map, List.getElem?_map]

theorem thresholdAdjacencyX_embed (W : Sim) (t : Rat) (N : Nat) :
    thresholdAdjacencyX (embedSim W) (some t) N = thresholdAdjacency W t N := by
  rw [thresholdAdjacencyX_some]; rfl

theorem weightedX_embed (nl : Bool) (S damp : Sim) :
    weightedX id nl (embedSim S) damp = embedSim (weighted nl S damp) := by
  funext i j; cases nl <;> simp [weightedX, embedSim, weighted]

theorem absX_embed (S0 : Sim) : absX id (embedSim S0) = embedSim (absSim S0) := by
  funext i j; simp [absX, embedSim, absSim]

theorem embed_setThreshold (s : Net) (θ : Rat) :
    (embed s).setThreshold id (some θ) = embed (s.setThreshold θ) := by
  simp [XNet.setThreshold, Net.setThreshold, embed, weightedX_embed, thresholdAdjacencyX_embed]

theorem embed_step (s : Net) (o : Op) :
    (embed s).step id (embedOp o) = (s.step o).map embed := by
  cases o with
  | thr θ => simp [XNet.step, Net.step, embedOp, embed_setThreshold]
  | dens k =>
    simp only [XNet.step, Net.step, embedOp, XNet.setLinkDensity, Net.setLinkDensity]
    have : (embed s).S = embedSim s.S := rfl
    rw [this, show (embed s).N = s.N from rfl, thresholdFromIndexX_embed]
    cases thresholdFromIndex s.S s.N k <;> simp [embed_setThreshold]
  | nl b =>
    simp only [XNet.step, Net.step, embedOp, XNet.setNonLocal, Net.setNonLocal, Option.map_some]
    have h1 : (embed s).nonLocal = s.nonLocal := rfl
    rw [h1]
    split
    · have : ({ embed s with nonLocal := b } : XNet) = embed { s with nonLocal := b } := rfl
      rw [this, show (embed s).θ = some s.θ from rfl, embed_setThreshold]
    · rfl
  | resim S1 =>
    simp only [XNet.step, Net.step, embedOp, XNet.regenerate, Net.regenerate, Option.map_some]
    have : ({ embed s with S := absX id (embedSim S1) } : XNet) = embed { s with S := absSim S1 } := by
      rw [absX_embed]; rfl
    rw [this, show (embed s).θ = some s.θ from rfl, embed_setThreshold]

theorem embed_run' (ops : List Op) (s : Net) :
    (embed s).run id (ops.map embedOp) = (s.run ops).map embed := by
  induction ops generalizing s with
  | nil => rfl
  | cons o os ih =>
    simp only [List.map_cons, XNet.run, Net.run, embed_step]
    cases s.step o with
    | none => rfl
    | some s1 => simpa using ih s1

end Pyunicorn.Similarity
