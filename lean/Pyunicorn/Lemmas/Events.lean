import Pyunicorn.Model.Events
/-! Helper lemmas for C16 (core Lean only). -/
namespace Pyunicorn.Events

/-! ### slices = structural recursion -/

theorem diff_cons₂ (a b : Rat) (t : List Rat) : diff (a :: b :: t) = (b - a) :: diff (b :: t) := by
  simp [diff]

theorem inner_cons₃ (a b c : Rat) (t : List Rat) :
    inner (a :: b :: c :: t) = b :: inner (b :: c :: t) := by
  simp [inner]

theorem minGaps_cons₃ (a b c : Rat) (t : List Rat) :
    minGaps (a :: b :: c :: t) = min (c - b) (b - a) :: minGaps (b :: c :: t) := by
  simp [minGaps, diff_cons₂]

theorem innerEvents_eq_innerEv (l : List Rat) : innerEvents l = innerEv l := by
  fun_induction innerEv l with
  | case1 a b c t ih =>
    rw [← ih]
    simp [innerEvents, inner_cons₃, minGaps_cons₃]
  | case2 l h =>
    match l, h with
    | [], _ => simp [innerEvents, inner, minGaps, diff]
    | [a], _ => simp [innerEvents, inner, minGaps, diff]
    | [a, b], _ => simp [innerEvents, inner, minGaps, diff]
    | a :: b :: c :: t, h => exact absurd rfl (h a b c t)

theorem innerEv_length (l : List Rat) : (innerEv l).length = l.length - 2 := by
  fun_induction innerEv l with
  | case1 a b c t ih => simp [ih]
  | case2 l h =>
    match l, h with
    | [], _ => rfl
    | [a], _ => rfl
    | [a, b], _ => rfl
    | a :: b :: c :: t, h => exact absurd rfl (h a b c t)


/-! ### affine changes of the time axis `t ↦ k·t + c`, `k > 0` -/

def affT (k c : Rat) (t : Rat) : Rat := k * t + c
def affEv (k c : Rat) (e : Ev) : Ev := (k * e.1 + c, k * e.2)

theorem min_mul_left (k a b : Rat) (hk : 0 < k) : min (k * a) (k * b) = k * min a b := by
  rcases Rat.le_total (a := a) (b := b) with h | h
  · have : k * a ≤ k * b := Rat.mul_le_mul_of_nonneg_left h (Rat.le_of_lt hk)
    grind
  · have : k * b ≤ k * a := Rat.mul_le_mul_of_nonneg_left h (Rat.le_of_lt hk)
    grind

theorem innerEv_aff (k c : Rat) (hk : 0 < k) (l : List Rat) :
    innerEv (l.map (affT k c)) = (innerEv l).map (affEv k c) := by
  fun_induction innerEv l with
  | case1 a b d t ih =>
    simp only [List.map_cons, innerEv] at ih ⊢
    rw [ih]
    congr 1
    simp only [affEv, affT]
    have h := min_mul_left k (d - b) (b - a) hk
    have e1 : k * d + c - (k * b + c) = k * (d - b) := by grind
    have e2 : k * b + c - (k * a + c) = k * (b - a) := by grind
    rw [e1, e2, h]
  | case2 l h =>
    match l, h with
    | [], _ => rfl
    | [a], _ => rfl
    | [a, b], _ => rfl
    | a :: b :: c :: t, h => exact absurd rfl (h a b c t)

theorem pos_mul_iff (k x : Rat) (hk : 0 < k) : 0 < k * x ↔ 0 < x := by
  constructor
  · intro h
    by_cases hx : 0 < x
    · exact hx
    · have hx' : x ≤ 0 := by grind
      have := Rat.mul_le_mul_of_nonneg_left hx' (Rat.le_of_lt hk)
      grind
  · intro h
    exact Rat.mul_pos hk h

theorem nonneg_mul_iff (k x : Rat) (hk : 0 < k) : 0 ≤ k * x ↔ 0 ≤ x := by
  constructor
  · intro h
    by_cases hx : 0 ≤ x
    · exact hx
    · have := (pos_mul_iff k (-x) hk).2 (by grind)
      grind
  · intro h
    exact Rat.mul_nonneg (Rat.le_of_lt hk) h

theorem capTau_aff (k : Rat) (hk : 0 < k) (tm : Option Rat) (t : Rat) :
    capTau (tm.map (k * ·)) (k * t) = k * capTau tm t := by
  cases tm with
  | none => rfl
  | some m =>
    simp only [capTau, Option.map]
    have := min_mul_left k t (2 * m) hk
    have e : 2 * (k * m) = k * (2 * m) := by grind
    rw [e, this]

theorem dst2_aff (k c : Rat) (p q : Ev) : dst2 (affEv k c p) (affEv k c q) = k * dst2 p q := by
  simp only [dst2, affEv]; grind

theorem tau2_aff (k c : Rat) (hk : 0 < k) (tm : Option Rat) (p q : Ev) :
    tau2 (tm.map (k * ·)) (affEv k c p) (affEv k c q) = k * tau2 tm p q := by
  simp only [tau2, affEv]
  rw [min_mul_left k _ _ hk, capTau_aff k hk]

theorem axy_aff (k c : Rat) (hk : 0 < k) (tm : Option Rat) (p q : Ev) :
    axy (tm.map (k * ·)) (affEv k c p) (affEv k c q) = axy tm p q := by
  simp only [axy, dst2_aff, tau2_aff k c hk]
  have h1 := pos_mul_iff k (dst2 p q) hk
  have h2 := nonneg_mul_iff k (tau2 tm p q - dst2 p q) hk
  have e : k * (tau2 tm p q - dst2 p q) = k * tau2 tm p q - k * dst2 p q := by grind
  grind

theorem ayx_aff (k c : Rat) (hk : 0 < k) (tm : Option Rat) (p q : Ev) :
    ayx (tm.map (k * ·)) (affEv k c p) (affEv k c q) = ayx tm p q := by
  simp only [ayx, dst2_aff, tau2_aff k c hk]
  have h1 := pos_mul_iff k (-(dst2 p q)) hk
  have h2 := nonneg_mul_iff k (tau2 tm p q + dst2 p q) hk
  have e : k * (tau2 tm p q + dst2 p q) = k * tau2 tm p q + k * dst2 p q := by grind
  have e' : k * -(dst2 p q) = -(k * dst2 p q) := by grind
  grind

theorem eqt_aff (k c : Rat) (hk : 0 < k) (p q : Ev) :
    eqt (affEv k c p) (affEv k c q) = eqt p q := by
  simp only [eqt, dst2_aff]
  have h1 := pos_mul_iff k (dst2 p q) hk
  have h2 := pos_mul_iff k (-(dst2 p q)) hk
  have e' : k * -(dst2 p q) = -(k * dst2 p q) := by grind
  grind

/-- `count2` only sees the values of the relation -/
theorem count2_map (g : Ev → Ev) (f f' : Ev → Ev → Bool) (xs ys : List Ev)
    (h : ∀ p q, f' (g p) (g q) = f p q) :
    count2 f' (xs.map g) (ys.map g) = count2 f xs ys := by
  simp only [count2, List.map_map, List.countP_map]
  congr 1
  apply List.map_congr_left
  intro p _
  simp only [Function.comp_def, h]


theorem dblxy_aff (k c : Rat) (hk : 0 < k) (tm : Option Rat) (xs ys : List Ev) :
    dblxy (tm.map (k * ·)) (xs.map (affEv k c)) (ys.map (affEv k c)) = dblxy tm xs ys := by
  unfold dblxy
  apply count2_map
  intro p q
  simp only [List.any_map, Function.comp_def, axy_aff k c hk, ayx_aff k c hk]

theorem dblyx_aff (k c : Rat) (hk : 0 < k) (tm : Option Rat) (xs ys : List Ev) :
    dblyx (tm.map (k * ·)) (xs.map (affEv k c)) (ys.map (affEv k c)) = dblyx tm xs ys := by
  unfold dblyx
  apply count2_map
  intro p q
  simp only [List.any_map, Function.comp_def, axy_aff k c hk, ayx_aff k c hk]

theorem countXY_aff (k c : Rat) (hk : 0 < k) (tm : Option Rat) (xs ys : List Ev) :
    countXY (tm.map (k * ·)) (xs.map (affEv k c)) (ys.map (affEv k c)) = countXY tm xs ys := by
  unfold countXY
  rw [dblxy_aff k c hk, count2_map (affEv k c) (axy tm) _ xs ys (axy_aff k c hk tm),
    count2_map (affEv k c) eqt _ xs ys (eqt_aff k c hk)]

theorem countYX_aff (k c : Rat) (hk : 0 < k) (tm : Option Rat) (xs ys : List Ev) :
    countYX (tm.map (k * ·)) (xs.map (affEv k c)) (ys.map (affEv k c)) = countYX tm xs ys := by
  unfold countYX
  rw [dblyx_aff k c hk, count2_map (affEv k c) (ayx tm) _ xs ys (ayx_aff k c hk tm),
    count2_map (affEv k c) eqt _ xs ys (eqt_aff k c hk)]

/-! ### exchanging the two series -/

theorem count2_nil_right (f : Ev → Ev → Bool) (ys : List Ev) : count2 f ys [] = 0 := by
  induction ys with
  | nil => rfl
  | cons q t ih => simpa [count2] using ih

theorem count2_cons_left (f : Ev → Ev → Bool) (p : Ev) (xs ys : List Ev) :
    count2 f (p :: xs) ys = ys.countP (f p) + count2 f xs ys := by
  simp [count2]

theorem count2_cons_right (f : Ev → Ev → Bool) (p : Ev) (xs ys : List Ev) :
    count2 f ys (p :: xs) = ys.countP (fun q => f q p) + count2 f ys xs := by
  induction ys with
  | nil => rfl
  | cons q t ih =>
    simp only [count2_cons_left, ih, List.countP_cons]
    omega

theorem count2_swap (f : Ev → Ev → Bool) (xs ys : List Ev) :
    count2 (fun q p => f p q) ys xs = count2 f xs ys := by
  induction xs with
  | nil => rw [count2_nil_right]; rfl
  | cons p t ih => rw [count2_cons_right, count2_cons_left, ih]

theorem count2_congr (f f' : Ev → Ev → Bool) (xs ys : List Ev) (h : ∀ p q, f p q = f' p q) :
    count2 f xs ys = count2 f' xs ys := by
  have : f = f' := by funext p q; exact h p q
  rw [this]

theorem dst2_swap (p q : Ev) : dst2 q p = -(dst2 p q) := by simp only [dst2]; grind
theorem tau2_swap (tm : Option Rat) (p q : Ev) : tau2 tm q p = tau2 tm p q := by
  simp only [tau2]
  congr 1
  grind

theorem axy_swap (tm : Option Rat) (p q : Ev) : axy tm q p = ayx tm p q := by
  simp only [axy, ayx, dst2_swap p q, tau2_swap tm p q]; grind
theorem ayx_swap (tm : Option Rat) (p q : Ev) : ayx tm q p = axy tm p q := by
  simp only [axy, ayx, dst2_swap p q, tau2_swap tm p q]; grind
theorem eqt_swap (p q : Ev) : eqt q p = eqt p q := by
  simp only [eqt, dst2_swap p q]; grind

theorem dblxy_swap (tm : Option Rat) (xs ys : List Ev) : dblxy tm ys xs = dblyx tm xs ys := by
  unfold dblxy dblyx
  rw [← count2_swap]
  apply count2_congr
  intro p q
  have h1 : (fun q' => ayx tm q q') = (fun p' => axy tm p' q) := by
    funext x; exact ayx_swap tm x q
  have h2 : (fun p' => ayx tm p' p) = (fun q' => axy tm p q') := by
    funext x; exact ayx_swap tm p x
  rw [axy_swap tm p q, h1, h2, Bool.or_comm]

theorem dblyx_swap (tm : Option Rat) (xs ys : List Ev) : dblyx tm ys xs = dblxy tm xs ys := by
  unfold dblxy dblyx
  rw [← count2_swap]
  apply count2_congr
  intro p q
  have h1 : (fun q' => axy tm q q') = (fun p' => ayx tm p' q) := by
    funext x; exact axy_swap tm x q
  have h2 : (fun p' => axy tm p' p) = (fun q' => ayx tm p q') := by
    funext x; exact axy_swap tm p x
  rw [ayx_swap tm p q, h1, h2, Bool.or_comm]

theorem count2_flip (f g : Ev → Ev → Bool) (xs ys : List Ev) (h : ∀ p q, f q p = g p q) :
    count2 f ys xs = count2 g xs ys := by
  rw [← count2_swap g xs ys]
  apply count2_congr
  intro q p
  exact h p q

theorem countXY_swap (tm : Option Rat) (xs ys : List Ev) : countXY tm ys xs = countYX tm xs ys := by
  unfold countXY countYX
  rw [dblxy_swap, count2_flip (axy tm) (ayx tm) xs ys (axy_swap tm),
    count2_flip eqt eqt xs ys eqt_swap]

theorem countYX_swap (tm : Option Rat) (xs ys : List Ev) : countYX tm ys xs = countXY tm xs ys := by
  unfold countXY countYX
  rw [dblyx_swap, count2_flip (ayx tm) (axy tm) xs ys (ayx_swap tm),
    count2_flip eqt eqt xs ys eqt_swap]


/-! ### monotonicity of `count2` -/

theorem count2_mono (f g : Ev → Ev → Bool) (xs ys : List Ev)
    (h : ∀ p q, f p q = true → g p q = true) : count2 f xs ys ≤ count2 g xs ys := by
  induction xs with
  | nil => simp [count2]
  | cons p t ih =>
    rw [count2_cons_left, count2_cons_left]
    have := List.countP_mono_left (l := ys) (p := f p) (q := g p) (fun q _ hq => h p q hq)
    omega

theorem dblxy_le (tm : Option Rat) (xs ys : List Ev) : dblxy tm xs ys ≤ count2 (axy tm) xs ys := by
  apply count2_mono
  intro p q h
  simp only [Bool.and_eq_true] at h
  exact h.1

theorem dblyx_le (tm : Option Rat) (xs ys : List Ev) : dblyx tm xs ys ≤ count2 (ayx tm) xs ys := by
  apply count2_mono
  intro p q h
  simp only [Bool.and_eq_true] at h
  exact h.1

theorem countXY_nonneg (tm : Option Rat) (xs ys : List Ev) : 0 ≤ countXY tm xs ys := by
  unfold countXY
  have h1 := Rat.natCast_le_natCast.2 (dblxy_le tm xs ys)
  have h2 : (0 : Rat) ≤ (count2 eqt xs ys : Rat) := Rat.natCast_le_natCast.2 (Nat.zero_le _)
  have h3 : (0 : Rat) ≤ (dblxy tm xs ys : Rat) := Rat.natCast_le_natCast.2 (Nat.zero_le _)
  grind

theorem countYX_nonneg (tm : Option Rat) (xs ys : List Ev) : 0 ≤ countYX tm xs ys := by
  unfold countYX
  have h1 := Rat.natCast_le_natCast.2 (dblyx_le tm xs ys)
  have h2 : (0 : Rat) ≤ (count2 eqt xs ys : Rat) := Rat.natCast_le_natCast.2 (Nat.zero_le _)
  have h3 : (0 : Rat) ≤ (dblyx tm xs ys : Rat) := Rat.natCast_le_natCast.2 (Nat.zero_le _)
  grind


/-! ### event coincidence analysis -/

theorem div_range (c d : Rat) (h : 0 < d) (h1 : 0 ≤ c) (h2 : c ≤ d) : 0 ≤ c / d ∧ c / d ≤ 1 := by
  have hi : 0 < d⁻¹ := Rat.inv_pos.2 h
  have e : c / d = d⁻¹ * c := by rw [Rat.div_def, Rat.mul_comm]
  have e1 : d⁻¹ * d = 1 := by rw [Rat.mul_comm]; exact Rat.mul_inv_cancel d (by grind)
  have a := Rat.mul_nonneg (Rat.le_of_lt hi) h1
  have b := Rat.mul_le_mul_of_nonneg_left h2 (Rat.le_of_lt hi)
  grind

/-- a count over a slice of length `max d 0`, divided by `d ≠ 0`, lies in `[0,1]` -/
theorem rate_range (c : Nat) (d : Int) (r : Rat) (h : rate c d = .val r)
    (hc : (c : Int) ≤ max d 0) : 0 ≤ r ∧ r ≤ 1 := by
  unfold rate at h
  split at h
  · cases h
  · rename_i hd
    injection h with h
    subst h
    by_cases hneg : d < 0
    · have : c = 0 := by omega
      subst this
      have e : ((0 : Nat) : Rat) / (d : Rat) = 0 := by simp [Rat.div_def, Rat.zero_mul]
      rw [e]
      exact ⟨by grind, by grind⟩
    · have hpos : (0 : Int) < d := by omega
      have h1 : ((0 : Int) : Rat) < (d : Rat) := Rat.intCast_lt_intCast.2 hpos
      have h2 : (((c : Nat) : Int) : Rat) ≤ (d : Rat) := Rat.intCast_le_intCast.2 (by omega)
      rw [Rat.intCast_natCast] at h2
      have h3 : (0 : Rat) ≤ (c : Rat) := Rat.natCast_le_natCast.2 (Nat.zero_le _)
      exact div_range _ _ (by simpa using h1) h3 h2

theorem nStart_le (e : List Rat) (c : Rat) : nStart e c ≤ e.length := by
  unfold nStart
  split
  · exact List.countP_le_length
  · omega

theorem nEnd_le (e : List Rat) (c : Rat) : nEnd e c ≤ e.length := by
  unfold nEnd
  split
  · exact List.countP_le_length
  · omega

theorem prec_le (win : Rat → Bool) (lag : Rat) (as bs : List Rat) :
    prec win lag as bs ≤ as.length := List.countP_le_length
theorem trig_le (win : Rat → Bool) (lag : Rat) (as bs : List Rat) :
    trig win lag as bs ≤ bs.length := List.countP_le_length

theorem nStart_shift (e : List Rat) (c x : Rat) : nStart (e.map (· + c)) x = nStart e x := by
  unfold nStart
  rw [List.head?_map]
  cases e.head? with
  | none => rfl
  | some a =>
    simp only [Option.map, List.countP_map]
    congr 1
    funext u
    simp only [Function.comp_def]
    have : (u + c ≤ a + c + x) ↔ (u ≤ a + x) := by grind
    simp only [this]

theorem nEnd_shift (e : List Rat) (c x : Rat) : nEnd (e.map (· + c)) x = nEnd e x := by
  unfold nEnd
  rw [List.getLast?_map]
  cases e.getLast? with
  | none => rfl
  | some a =>
    simp only [Option.map, List.countP_map]
    congr 1
    funext u
    simp only [Function.comp_def]
    have : (a + c - x ≤ u + c) ↔ (a - x ≤ u) := by grind
    simp only [this]

theorem prec_shift (win : Rat → Bool) (lag c : Rat) (as bs : List Rat) :
    prec win lag (as.map (· + c)) (bs.map (· + c)) = prec win lag as bs := by
  simp only [prec, List.countP_map, List.any_map]
  congr 1
  funext a
  simp only [Function.comp_def]
  congr 1
  funext b
  have : a + c - (b + c) - lag = a - b - lag := by grind
  rw [this]

theorem trig_shift (win : Rat → Bool) (lag c : Rat) (as bs : List Rat) :
    trig win lag (as.map (· + c)) (bs.map (· + c)) = trig win lag as bs := by
  simp only [trig, List.countP_map, List.any_map]
  congr 1
  funext b
  simp only [Function.comp_def]
  congr 1
  funext a
  have : a + c - (b + c) - lag = a - b - lag := by grind
  rw [this]


/-! ### at most one partner: the upper bound of event synchronisation -/

/-- two inner events of one strictly increasing series: ordered, and at least as far
apart as either one's smallest neighbouring gap -/
def Sep (e e' : Ev) : Prop := e.1 < e'.1 ∧ e.2 ≤ e'.1 - e.1 ∧ e'.2 ≤ e'.1 - e.1

theorem innerEv_head_facts (h c : Rat) (t : List Rat) (hs : List.Pairwise (· < ·) (h :: c :: t)) :
    ∀ e ∈ innerEv (h :: c :: t), h < e.1 ∧ e.2 ≤ e.1 - h ∧ c ≤ e.1 := by
  induction t generalizing h c with
  | nil => intro e he; simp [innerEv] at he
  | cons d t ih =>
    intro e he
    have hhc : h < c := by
      have := List.rel_of_pairwise_cons hs (a' := c) (by simp)
      exact this
    have hs' : List.Pairwise (· < ·) (c :: d :: t) := (List.pairwise_cons.1 hs).2
    simp only [innerEv, List.mem_cons] at he
    rcases he with he | he
    · subst he
      refine ⟨hhc, ?_, Rat.le_refl⟩
      simp only
      grind
    · have := ih c d hs' e he
      grind

theorem innerEv_sep (l : List Rat) (hs : List.Pairwise (· < ·) l) :
    List.Pairwise Sep (innerEv l) := by
  fun_induction innerEv l with
  | case1 a b c t ih =>
    have hs' : List.Pairwise (· < ·) (b :: c :: t) := (List.pairwise_cons.1 hs).2
    rw [List.pairwise_cons]
    refine ⟨?_, ih hs'⟩
    intro e he
    have := innerEv_head_facts b c t hs' e he
    simp only [Sep]
    grind
  | case2 l h =>
    match l, h with
    | [], _ => simp
    | [a], _ => simp
    | [a, b], _ => simp
    | a :: b :: c :: t, h => exact absurd rfl (h a b c t)

theorem capTau_le (tm : Option Rat) (t : Rat) : capTau tm t ≤ t := by
  cases tm with
  | none => exact Rat.le_refl
  | some m => simp only [capTau]; grind

theorem tau2_le_left (tm : Option Rat) (p q : Ev) : tau2 tm p q ≤ p.2 := by
  have := capTau_le tm (min p.2 q.2)
  simp only [tau2]; grind
theorem tau2_le_right (tm : Option Rat) (p q : Ev) : tau2 tm p q ≤ q.2 := by
  have := capTau_le tm (min p.2 q.2)
  simp only [tau2]; grind

/-- `x` is counted for the pair `(p, q)`: strictly after within the delay, or simultaneous -/
def hit (tm : Option Rat) (p q : Ev) : Bool := axy tm p q || eqt p q

theorem hit_row_unique (tm : Option Rat) (p q q' : Ev) (hs : Sep q q') :
    ¬(hit tm p q = true ∧ hit tm p q' = true) := by
  have a1 := tau2_le_right tm p q
  have a2 := tau2_le_right tm p q'
  simp only [hit, axy, eqt, dst2, Bool.or_eq_true, Bool.and_eq_true]
  simp only [Sep] at hs
  grind

theorem hit_col_unique (tm : Option Rat) (q p p' : Ev) (hs : Sep p p') :
    ¬(hit tm p q = true ∧ hit tm p' q = true) := by
  have a1 := tau2_le_left tm p q
  have a2 := tau2_le_left tm p' q
  simp only [hit, axy, eqt, dst2, Bool.or_eq_true, Bool.and_eq_true]
  simp only [Sep] at hs
  grind

theorem countP_le_one {α} (P : α → Bool) (l : List α)
    (h : List.Pairwise (fun a b => ¬(P a = true ∧ P b = true)) l) : l.countP P ≤ 1 := by
  induction l with
  | nil => simp
  | cons a t ih =>
    rw [List.pairwise_cons] at h
    rw [List.countP_cons]
    by_cases ha : P a = true
    · have : t.countP P = 0 := by
        rw [List.countP_eq_zero]
        intro b hb hPb
        exact h.1 b hb ⟨ha, hPb⟩
      simp [this, ha]
    · have := ih h.2
      simp [ha]; exact this

theorem count2_hit_le_left (tm : Option Rat) (xs ys : List Ev) (hy : List.Pairwise Sep ys) :
    count2 (hit tm) xs ys ≤ xs.length := by
  induction xs with
  | nil => simp [count2]
  | cons p t ih =>
    rw [count2_cons_left]
    have : ys.countP (hit tm p) ≤ 1 :=
      countP_le_one _ _ (hy.imp (fun {q q'} hs => hit_row_unique tm p q q' hs))
    simp only [List.length_cons]
    omega

theorem count2_hit_le_right (tm : Option Rat) (xs ys : List Ev) (hx : List.Pairwise Sep xs) :
    count2 (hit tm) xs ys ≤ ys.length := by
  rw [← count2_swap]
  induction ys with
  | nil => simp [count2]
  | cons q t ih =>
    rw [count2_cons_left]
    have : xs.countP (fun p => hit tm p q) ≤ 1 :=
      countP_le_one _ _ (hx.imp (fun {p p'} hs => hit_col_unique tm q p p' hs))
    simp only [List.length_cons]
    omega

theorem countP_add_disjoint {α} (f g : α → Bool) (l : List α)
    (h : ∀ a, ¬(f a = true ∧ g a = true)) :
    l.countP f + l.countP g = l.countP (fun a => f a || g a) := by
  induction l with
  | nil => simp
  | cons a t ih =>
    simp only [List.countP_cons]
    have := h a
    cases hf : f a <;> cases hg : g a <;> simp [hf, hg] at this ⊢ <;> omega

theorem count2_add_disjoint (f g : Ev → Ev → Bool) (xs ys : List Ev)
    (h : ∀ p q, ¬(f p q = true ∧ g p q = true)) :
    count2 f xs ys + count2 g xs ys = count2 (fun p q => f p q || g p q) xs ys := by
  induction xs with
  | nil => simp [count2]
  | cons p t ih =>
    simp only [count2_cons_left]
    have := countP_add_disjoint (f p) (g p) ys (h p)
    omega

theorem axy_eqt_disjoint (tm : Option Rat) (p q : Ev) :
    ¬(axy tm p q = true ∧ eqt p q = true) := by
  simp only [axy, eqt, Bool.and_eq_true, decide_eq_true_eq]
  grind

/-- the count of one direction is at most the number of inner events of either series -/
theorem countXY_le (tm : Option Rat) (xs ys : List Ev) (hx : List.Pairwise Sep xs)
    (hy : List.Pairwise Sep ys) :
    countXY tm xs ys ≤ (xs.length : Rat) ∧ countXY tm xs ys ≤ (ys.length : Rat) := by
  have hsum := count2_add_disjoint (axy tm) eqt xs ys (axy_eqt_disjoint tm)
  have h1 := count2_hit_le_left tm xs ys hy
  have h2 := count2_hit_le_right tm xs ys hx
  have e : count2 (fun p q => axy tm p q || eqt p q) xs ys = count2 (hit tm) xs ys := rfl
  rw [e] at hsum
  have c1 : ((count2 (axy tm) xs ys + count2 eqt xs ys : Nat) : Rat) ≤ (xs.length : Rat) :=
    Rat.natCast_le_natCast.2 (by omega)
  have c2 : ((count2 (axy tm) xs ys + count2 eqt xs ys : Nat) : Rat) ≤ (ys.length : Rat) :=
    Rat.natCast_le_natCast.2 (by omega)
  rw [Rat.natCast_add] at c1 c2
  have n1 : (0 : Rat) ≤ (count2 eqt xs ys : Rat) := Rat.natCast_le_natCast.2 (Nat.zero_le _)
  have n2 : (0 : Rat) ≤ (dblxy tm xs ys : Rat) := Rat.natCast_le_natCast.2 (Nat.zero_le _)
  unfold countXY
  constructor <;> grind

theorem sq_le_mul (a m1 m2 : Rat) (h0 : 0 ≤ a) (h1 : a ≤ m1) (h2 : a ≤ m2) :
    a * a ≤ m1 * m2 := by
  have s1 := Rat.mul_le_mul_of_nonneg_left h2 h0
  have s2 := Rat.mul_le_mul_of_nonneg_right h1 (Rat.le_trans h0 h2)
  exact Rat.le_trans s1 s2


/-! ### boundary-event exclusion: slicing by a count = excluding by time -/

theorem countP_le_sorted_zero (x a : Rat) (t : List Rat) (hs : List.Pairwise (· < ·) (a :: t))
    (ha : ¬ a ≤ x) : t.countP (fun u => decide (u ≤ x)) = 0 := by
  rw [List.countP_eq_zero]
  intro u hu
  have := List.rel_of_pairwise_cons hs hu
  simp only [decide_eq_true_eq]
  grind

theorem filter_gt_sorted_all (x a : Rat) (t : List Rat) (hs : List.Pairwise (· < ·) (a :: t))
    (ha : ¬ a ≤ x) : t.filter (fun u => decide (¬ u ≤ x)) = t := by
  rw [List.filter_eq_self]
  intro u hu
  have := List.rel_of_pairwise_cons hs hu
  simp only [decide_eq_true_eq]
  grind

/-- on a strictly increasing series, dropping as many leading events as there are
events `≤ x` removes exactly the events `≤ x` -/
theorem drop_countP_le_sorted (x : Rat) (e : List Rat) (hs : List.Pairwise (· < ·) e) :
    e.drop (e.countP fun u => decide (u ≤ x)) = e.filter fun u => decide (¬ u ≤ x) := by
  induction e with
  | nil => rfl
  | cons a t ih =>
    have hs' := (List.pairwise_cons.1 hs).2
    by_cases ha : a ≤ x
    · simp only [List.countP_cons, ha, decide_true, if_true, List.drop_succ_cons,
        List.filter_cons, not_true_eq_false, decide_false]
      exact ih hs'
    · have h0 := countP_le_sorted_zero x a t hs ha
      have hf := filter_gt_sorted_all x a t hs ha
      simp only [List.countP_cons, ha, decide_false, h0, List.filter_cons, not_false_eq_true,
        decide_true, if_true, hf]
      simp


/-! ### N×N assembly: the double loop writes every off-diagonal entry exactly once -/

def Shaped {α} (n : Nat) (M : Mat α) : Prop := M.length = n ∧ ∀ row ∈ M, row.length = n

theorem shaped_set2 {α} (n : Nat) (M : Mat α) (h : Shaped n M) (a b : Nat) (v : α) :
    Shaped n (M.set2 a b v) := by
  refine ⟨by simp [Mat.set2, h.1], ?_⟩
  intro row hrow
  simp only [Mat.set2] at hrow
  rw [List.mem_iff_getElem?] at hrow
  obtain ⟨k, hk⟩ := hrow
  rw [List.getElem?_modify] at hk
  split at hk
  · cases hM : M[k]? with
    | none => simp [hM] at hk
    | some r =>
      simp [hM] at hk
      subst hk
      simp
      exact h.2 r (List.mem_of_getElem? hM)
  · simp at hk
    exact h.2 row (List.mem_of_getElem? hk)

theorem get_set2 {α} (n : Nat) (M : Mat α) (h : Shaped n M) (d : α) (a b i j : Nat) (v : α)
    (ha : a < n) (hb : b < n) :
    (M.set2 a b v).get d i j = if i = a ∧ j = b then v else M.get d i j := by
  have hlen := h.1
  have hlt : a < M.length := by omega
  have hrow : (M[a]).length = n := h.2 _ (List.getElem_mem hlt)
  simp only [Mat.get, Mat.set2, List.getD_eq_getElem?_getD, List.getElem?_modify]
  by_cases hia : a = i
  · subst hia
    by_cases hjb : b = j
    · subst hjb
      simp [hlt, hrow, hb]
    · have : ¬ j = b := fun h => hjb h.symm
      simp [hlt, hjb, this]
  · have : ¬ i = a := fun h => hia h.symm
    simp [hia, this]


theorem shaped_step {α} (n : Nat) (M : Mat α) (h : Shaped n M) (pair : Nat → Nat → α × α)
    (ij : Nat × Nat) : Shaped n (assembleStep pair M ij) :=
  shaped_set2 n _ (shaped_set2 n M h _ _ _) _ _ _

theorem get_step {α} (n : Nat) (M : Mat α) (h : Shaped n M) (d : α) (pair : Nat → Nat → α × α)
    (a b i j : Nat) (ha : a < n) (hb : b < n) (hab : a ≠ b) :
    (assembleStep pair M (a, b)).get d i j =
      if i = a ∧ j = b then (pair a b).1
      else if i = b ∧ j = a then (pair a b).2 else M.get d i j := by
  simp only [assembleStep]
  rw [get_set2 n _ (shaped_set2 n M h _ _ _) d b a i j _ hb ha, get_set2 n M h d a b i j _ ha hb]
  grind

theorem get_fold {α} (n : Nat) (d : α) (pair : Nat → Nat → α × α) (ps : List (Nat × Nat))
    (hps : ∀ p ∈ ps, p.1 < p.2 ∧ p.2 < n) (M : Mat α) (h : Shaped n M) (i j : Nat) :
    (ps.foldl (assembleStep pair) M).get d i j =
      if (i, j) ∈ ps then (pair i j).1
      else if (j, i) ∈ ps then (pair j i).2 else M.get d i j := by
  induction ps generalizing M with
  | nil => simp
  | cons p t ih =>
    obtain ⟨a, b⟩ := p
    have hab := hps (a, b) (by simp)
    simp only at hab
    have ht : ∀ p ∈ t, p.1 < p.2 ∧ p.2 < n := fun p hp => hps p (List.mem_cons_of_mem _ hp)
    rw [List.foldl_cons, ih ht _ (shaped_step n M h pair (a, b)),
      get_step n M h d pair a b i j (by omega) hab.2 (by omega)]
    have h1 : (j, i) ∈ t → j < i := fun hm => (ht (j, i) hm).1
    have h2 : (i, j) ∈ t → i < j := fun hm => (ht (i, j) hm).1
    simp only [List.mem_cons, Prod.mk.injEq]
    by_cases c1 : (i, j) ∈ t
    · simp [c1]
    · by_cases c2 : (j, i) ∈ t
      · have := h1 c2
        have e : ¬(i = a ∧ j = b) := by omega
        simp [c1, c2, e]
      · simp only [c1, c2, or_false]
        by_cases e1 : i = a ∧ j = b
        · obtain ⟨rfl, rfl⟩ := e1; simp
        · by_cases e2 : i = b ∧ j = a
          · obtain ⟨rfl, rfl⟩ := e2
            have : ¬(i = j ∧ j = i) := by omega
            simp [this]
          · have e2' : ¬(j = a ∧ i = b) := fun h => e2 ⟨h.2, h.1⟩
            simp [e1, e2, e2']

theorem mem_upperPairs (n i j : Nat) : (i, j) ∈ upperPairs n ↔ i < j ∧ j < n := by
  simp only [upperPairs, List.mem_flatMap, List.mem_range, List.mem_map, List.mem_filter,
    decide_eq_true_eq, Prod.mk.injEq]
  constructor
  · rintro ⟨a, ha, b, ⟨hb, hab⟩, rfl, rfl⟩
    exact ⟨hab, hb⟩
  · rintro ⟨h1, h2⟩
    exact ⟨i, by omega, j, ⟨h2, h1⟩, rfl, rfl⟩

theorem shaped_replicate {α} (n : Nat) (z : α) :
    Shaped n (List.replicate n (List.replicate n z)) := by
  refine ⟨by simp, ?_⟩
  intro row hrow
  rw [List.mem_replicate] at hrow
  simp [hrow.2]

theorem get_replicate {α} (n : Nat) (z d : α) (i j : Nat) (hi : i < n) (hj : j < n) :
    Mat.get (List.replicate n (List.replicate n z)) d i j = z := by
  simp [Mat.get, List.getD_eq_getElem?_getD, hi, hj]

end Pyunicorn.Events
