import Pyunicorn.Model.Events
/-! Helper lemmas for C16 (core Lean only). -/
namespace Pyunicorn.Events

/-! ### slices = structural recursion -/

theorem diff_cons₂ (a b : Rat) (t : List Rat) : diff (a :: b :: t) = (b - a) :: diff (b :: t) := by
  simp [diff]

theorem inner_cons₃ (a b c : Rat) (t : List Rat) :
    inner (a :: b :: c :: t) = b :: inner (b :: c :: t) := by
  simp [inner]

theorem minGaps_cons₃ (a b c : Rat) (t : List Rat) :
    minGaps (a :: b :: c :: t) = min (c - b) (b - a) :: minGaps (b :: c :: t) := by
  simp [minGaps, diff_cons₂]

theorem innerEvents_eq_innerEv (l : List Rat) : innerEvents l = innerEv l := by
  fun_induction innerEv l with
  | case1 a b c t ih =>
    rw [← ih]
    simp [innerEvents, inner_cons₃, minGaps_cons₃]
  | case2 l h =>
    match l, h with
    | [], _ => simp [innerEvents, inner, minGaps, diff]
    | [a], _ => simp [innerEvents, inner, minGaps, diff]
    | [a, b], _ => simp [innerEvents, inner, minGaps, diff]
    | a :: b :: c :: t, h => exact absurd rfl (h a b c t)

theorem innerEv_length (l : List Rat) : (innerEv l).length = l.length - 2 := by
  fun_induction innerEv l with
  | case1 a b c t ih => simp [ih]
  | case2 l h =>
    match l, h with
    | [], _ => rfl
    | [a], _ => rfl
    | [a, b], _ => rfl
    | a :: b :: c :: t, h => exact absurd rfl (h a b c t)


/-! ### affine changes of the time axis `t ↦ k·t + c`, `k > 0` -/

def affT (k c : Rat) (t : Rat) : Rat := k * t + c
def affEv (k c : Rat) (e : Ev) : Ev := (k * e.1 + c, k * e.2)

theorem min_mul_left (k a b : Rat) (hk : 0 < k) : min (k * a) (k * b) = k * min a b := by
  rcases Rat.le_total (a := a) (b := b) with h | h
  · have : k * a ≤ k * b := Rat.mul_le_mul_of_nonneg_left h (Rat.le_of_lt hk)
    grind
  · have : k * b ≤ k * a := Rat.mul_le_mul_of_nonneg_left h (Rat.le_of_lt hk)
    grind

theorem innerEv_aff (k c : Rat) (hk : 0 < k) (l : List Rat) :
    innerEv (l.map (affT k c)) = (innerEv l).map (affEv k c) := by
  fun_induction innerEv l with
  | case1 a b d t ih =>
    simp only [List.map_cons, innerEv] at ih ⊢
    rw [ih]
    congr 1
    simp only [affEv, affT]
    have h := min_mul_left k (d - b) (b - a) hk
    have e1 : k * d + c - (k * b + c) = k * (d - b) := by grind
    have e2 : k * b + c - (k * a + c) = k * (b - a) := by grind
    rw [e1, e2, h]
  | case2 l h =>
    match l, h with
    | [], _ => rfl
    | [a], _ => rfl
    | [a, b], _ => rfl
    | a :: b :: c :: t, h => exact absurd rfl (h a b c t)

theorem pos_mul_iff (k x : Rat) (hk : 0 < k) : 0 < k * x ↔ 0 < x := by
  constructor
  · intro h
    by_cases hx : 0 < x
    · exact hx
    · have hx' : x ≤ 0 := by grind
      have := Rat.mul_le_mul_of_nonneg_left hx' (Rat.le_of_lt hk)
      grind
  · intro h
    exact Rat.mul_pos hk h

theorem nonneg_mul_iff (k x : Rat) (hk : 0 < k) : 0 ≤ k * x ↔ 0 ≤ x := by
  constructor
  · intro h
    by_cases hx : 0 ≤ x
    · exact hx
    · have := (pos_mul_iff k (-x) hk).2 (by grind)
      grind
  · intro h
    exact Rat.mul_nonneg (Rat.le_of_lt hk) h

theorem capTau_aff (k : Rat) (hk : 0 < k) (tm : Option Rat) (t : Rat) :
    capTau (tm.map (k * ·)) (k * t) = k * capTau tm t := by
  cases tm with
  | none => rfl
  | some m =>
    simp only [capTau, Option.map]
    have := min_mul_left k t (2 * m) hk
    have e : 2 * (k * m) = k * (2 * m) := by grind
    rw [e, this]

theorem dst2_aff (k c : Rat) (p q : Ev) : dst2 (affEv k c p) (affEv k c q) = k * dst2 p q := by
  simp only [dst2, affEv]; grind

theorem tau2_aff (k c : Rat) (hk : 0 < k) (tm : Option Rat) (p q : Ev) :
    tau2 (tm.map (k * ·)) (affEv k c p) (affEv k c q) = k * tau2 tm p q := by
  simp only [tau2, affEv]
  rw [min_mul_left k _ _ hk, capTau_aff k hk]

theorem axy_aff (k c : Rat) (hk : 0 < k) (tm : Option Rat) (p q : Ev) :
    axy (tm.map (k * ·)) (affEv k c p) (affEv k c q) = axy tm p q := by
  simp only [axy, dst2_aff, tau2_aff k c hk]
  have h1 := pos_mul_iff k (dst2 p q) hk
  have h2 := nonneg_mul_iff k (tau2 tm p q - dst2 p q) hk
  have e : k * (tau2 tm p q - dst2 p q) = k * tau2 tm p q - k * dst2 p q := by grind
  grind

theorem ayx_aff (k c : Rat) (hk : 0 < k) (tm : Option Rat) (p q : Ev) :
    ayx (tm.map (k * ·)) (affEv k c p) (affEv k c q) = ayx tm p q := by
  simp only [ayx, dst2_aff, tau2_aff k c hk]
  have h1 := pos_mul_iff k (-(dst2 p q)) hk
  have h2 := nonneg_mul_iff k (tau2 tm p q + dst2 p q) hk
  have e : k * (tau2 tm p q + dst2 p q) = k * tau2 tm p q + k * dst2 p q := by grind
  have e' : k * -(dst2 p q) = -(k * dst2 p q) := by grind
  grind

theorem eqt_aff (k c : Rat) (hk : 0 < k) (p q : Ev) :
    eqt (affEv k c p) (affEv k c q) = eqt p q := by
  simp only [eqt, dst2_aff]
  have h1 := pos_mul_iff k (dst2 p q) hk
  have h2 := pos_mul_iff k (-(dst2 p q)) hk
  have e' : k * -(dst2 p q) = -(k * dst2 p q) := by grind
  grind

/-- `count2` only sees the values of the relation -/
theorem count2_map (g : Ev → Ev) (f f' : Ev → Ev → Bool) (xs ys : List Ev)
    (h : ∀ p q, f' (g p) (g q) = f p q) :
    count2 f' (xs.map g) (ys.map g) = count2 f xs ys := by
  simp only [count2, List.map_map, List.countP_map]
  congr 1
  apply List.map_congr_left
  intro p _
  simp only [Function.comp_def, h]


theorem dblxy_aff (k c : Rat) (hk : 0 < k) (tm : Option Rat) (xs ys : List Ev) :
    dblxy (tm.map (k * ·)) (xs.map (affEv k c)) (ys.map (affEv k c)) = dblxy tm xs ys := by
  unfold dblxy
  apply count2_map
  intro p q
  simp only [List.any_map, Function.comp_def, axy_aff k c hk, ayx_aff k c hk]

theorem dblyx_aff (k c : Rat) (hk : 0 < k) (tm : Option Rat) (xs ys : List Ev) :
    dblyx (tm.map (k * ·)) (xs.map (affEv k c)) (ys.map (affEv k c)) = dblyx tm xs ys := by
  unfold dblyx
  apply count2_map
  intro p q
  simp only [List.any_map, Function.comp_def, axy_aff k c hk, ayx_aff k c hk]

theorem countXY_aff (k c : Rat) (hk : 0 < k) (tm : Option Rat) (xs ys : List Ev) :
    countXY (tm.map (k * ·)) (xs.map (affEv k c)) (ys.map (affEv k c)) = countXY tm xs ys := by
  unfold countXY
  rw [dblxy_aff k c hk, count2_map (affEv k c) (axy tm) _ xs ys (axy_aff k c hk tm),
    count2_map (affEv k c) eqt _ xs ys (eqt_aff k c hk)]

theorem countYX_aff (k c : Rat) (hk : 0 < k) (tm : Option Rat) (xs ys : List Ev) :
    countYX (tm.map (k * ·)) (xs.map (affEv k c)) (ys.map (affEv k c)) = countYX tm xs ys := by
  unfold countYX
  rw [dblyx_aff k c hk, count2_map (affEv k c) (ayx tm) _ xs ys (ayx_aff k c hk tm),
    count2_map (affEv k c) eqt _ xs ys (eqt_aff k c hk)]

/-! ### exchanging the two series -/

theorem count2_nil_right (f : Ev → Ev → Bool) (ys : List Ev) : count2 f ys [] = 0 := by
  induction ys with
  | nil => rfl
  | cons q t ih => simpa [count2] using ih

theorem count2_cons_left (f : Ev → Ev → Bool) (p : Ev) (xs ys : List Ev) :
    count2 f (p :: xs) ys = ys.countP (f p) + count2 f xs ys := by
  simp [count2]

theorem count2_cons_right (f : Ev → Ev → Bool) (p : Ev) (xs ys : List Ev) :
    count2 f ys (p :: xs) = ys.countP (fun q => f q p) + count2 f ys xs := by
  induction ys with
  | nil => rfl
  | cons q t ih =>
    simp only [count2_cons_left, ih, List.countP_cons]
    omega

theorem count2_swap (f : Ev → Ev → Bool) (xs ys : List Ev) :
    count2 (fun q p => f p q) ys xs = count2 f xs ys := by
  induction xs with
  | nil => rw [count2_nil_right]; rfl
  | cons p t ih => rw [count2_cons_right, count2_cons_left, ih]

theorem count2_congr (f f' : Ev → Ev → Bool) (xs ys : List Ev) (h : ∀ p q, f p q = f' p q) :
    count2 f xs ys = count2 f' xs ys := by
  have : f = f' := by funext p q; exact h p q
  rw [this]

theorem dst2_swap (p q : Ev) : dst2 q p = -(dst2 p q) := by simp only [dst2]; grind
theorem tau2_swap (tm : Option Rat) (p q : Ev) : tau2 tm q p = tau2 tm p q := by
  simp only [tau2]
  congr 1
  grind

theorem axy_swap (tm : Option Rat) (p q : Ev) : axy tm q p = ayx tm p q := by
  simp only [axy, ayx, dst2_swap p q, tau2_swap tm p q]; grind
theorem ayx_swap (tm : Option Rat) (p q : Ev) : ayx tm q p = axy tm p q := by
  simp only [axy, ayx, dst2_swap p q, tau2_swap tm p q]; grind
theorem eqt_swap (p q : Ev) : eqt q p = eqt p q := by
  simp only [eqt, dst2_swap p q]; grind

theorem dblxy_swap (tm : Option Rat) (xs ys : List Ev) : dblxy tm ys xs = dblyx tm xs ys := by
  unfold dblxy dblyx
  rw [← count2_swap]
  apply count2_congr
  intro p q
  have h1 : (fun q' => ayx tm q q') = (fun p' => axy tm p' q) := by
    funext x; exact ayx_swap tm x q
  have h2 : (fun p' => ayx tm p' p) = (fun q' => axy tm p q') := by
    funext x; exact ayx_swap tm p x
  rw [axy_swap tm p q, h1, h2, Bool.or_comm]

theorem dblyx_swap (tm : Option Rat) (xs ys : List Ev) : dblyx tm ys xs = dblxy tm xs ys := by
  unfold dblxy dblyx
  rw [← count2_swap]
  apply count2_congr
  intro p q
  have h1 : (fun q' => axy tm q q') = (fun p' => ayx tm p' q) := by
    funext x; exact axy_swap tm x q
  have h2 : (fun p' => axy tm p' p) = (fun q' => ayx tm p q') := by
    funext x; exact axy_swap tm p x
  rw [ayx_swap tm p q, h1, h2, Bool.or_comm]

theorem count2_flip (f g : Ev → Ev → Bool) (xs ys : List Ev) (h : ∀ p q, f q p = g p q) :
    count2 f ys xs = count2 g xs ys := by
  rw [← count2_swap g xs ys]
  apply count2_congr
  intro q p
  exact h p q

theorem countXY_swap (tm : Option Rat) (xs ys : List Ev) : countXY tm ys xs = countYX tm xs ys := by
  unfold countXY countYX
  rw [dblxy_swap, count2_flip (axy tm) (ayx tm) xs ys (axy_swap tm),
    count2_flip eqt eqt xs ys eqt_swap]

theorem countYX_swap (tm : Option Rat) (xs ys : List Ev) : countYX tm ys xs = countXY tm xs ys := by
  unfold countXY countYX
  rw [dblyx_swap, count2_flip (ayx tm) (axy tm) xs ys (ayx_swap tm),
    count2_flip eqt eqt xs ys eqt_swap]


/-! ### monotonicity of `count2` -/

theorem count2_mono (f g : Ev → Ev → Bool) (xs ys : List Ev)
    (h : ∀ p q, f p q = true → g p q = true) : count2 f xs ys ≤ count2 g xs ys := by
  induction xs with
  | nil => simp [count2]
  | cons p t ih =>
    rw [count2_cons_left, count2_cons_left]
    have := List.countP_mono_left (l := ys) (p := f p) (q := g p) (fun q _ hq => h p q hq)
    omega

theorem dblxy_le (tm : Option Rat) (xs ys : List Ev) : dblxy tm xs ys ≤ count2 (axy tm) xs ys := by
  apply count2_mono
  intro p q h
  simp only [Bool.and_eq_true] at h
  exact h.1

theorem dblyx_le (tm : Option Rat) (xs ys : List Ev) : dblyx tm xs ys ≤ count2 (ayx tm) xs ys := by
  apply count2_mono
  intro p q h
  simp only [Bool.and_eq_true] at h
  exact h.1

theorem countXY_nonneg (tm : Option Rat) (xs ys : List Ev) : 0 ≤ countXY tm xs ys := by
  unfold countXY
  have h1 := Rat.natCast_le_natCast.2 (dblxy_le tm xs ys)
  have h2 : (0 : Rat) ≤ (count2 eqt xs ys : Rat) := Rat.natCast_le_natCast.2 (Nat.zero_le _)
  have h3 : (0 : Rat) ≤ (dblxy tm xs ys : Rat) := Rat.natCast_le_natCast.2 (Nat.zero_le _)
  grind

theorem countYX_nonneg (tm : Option Rat) (xs ys : List Ev) : 0 ≤ countYX tm xs ys := by
  unfold countYX
  have h1 := Rat.natCast_le_natCast.2 (dblyx_le tm xs ys)
  have h2 : (0 : Rat) ≤ (count2 eqt xs ys : Rat) := Rat.natCast_le_natCast.2 (Nat.zero_le _)
  have h3 : (0 : Rat) ≤ (dblyx tm xs ys : Rat) := Rat.natCast_le_natCast.2 (Nat.zero_le _)
  grind

end Pyunicorn.Events
