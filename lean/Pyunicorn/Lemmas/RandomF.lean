import Pyunicorn.Lemmas.RandomD
/-! Helper lemmas for C17, round 3 (core Lean only): cross degrees per *node* (independent of the
order of the node lists), `simplify`, the draw expressions, existence of an admissible swap. -/
namespace Pyunicorn.Random
open Pyunicorn.Generated.StructC17

theorem rsum_le {f g : Nat → Int} (n : Nat) (h : ∀ j, j < n → f j ≤ g j) : rsum f n ≤ rsum g n := by
  induction n with
  | zero => simp [rsum]
  | succ n ih =>
    simp only [rsum]
    have := ih (fun j hj => h j (by omega))
    have := h n (by omega)
    omega

/-! ### cross degree of a node with respect to a *set* of nodes -/

/-- number of neighbours of `x` among the nodes of `G` (the order of `G` plays no role) -/
def grpDeg (A : Adj) (N : Nat) (G : List Nat) (x : Nat) : Int :=
  rsum (fun y => if y ∈ G then b2i (A x y) else 0) N

theorem grpDeg_eq_row (A : Adj) (N : Nat) (nodes1 nodes2 : List Nat) (nd2 : NodupIdx nodes2)
    (b2 : ∀ x ∈ nodes2, x < N) (i x : Nat) (hx : nodes1[i]? = some x) :
    grpDeg A N nodes2 x = deg (crossBlock A nodes1 nodes2) nodes2.length i := by
  unfold grpDeg
  rw [rsum_support nodes2 N nd2 b2 _ (fun w hw => by simp [hw])]
  unfold deg
  apply rsum_congr; intro j hj
  have hj' : nodes2[j]? = some nodes2[j] := List.getElem?_eq_getElem hj
  have hm : nodes2.getD j 0 ∈ nodes2 := by
    rw [getD_of_getElem? _ _ _ hj']; exact List.getElem_mem hj
  simp only [hm, if_true]
  rw [getD_of_getElem? _ _ _ hj', crossBlock_eq A nodes1 nodes2 i j x _ hx hj']

theorem grpDeg_eq_col (A : Adj) (N : Nat) (nodes1 nodes2 : List Nat) (nd1 : NodupIdx nodes1)
    (b1 : ∀ x ∈ nodes1, x < N) (sym : ∀ a b, A a b = A b a) (j y : Nat) (hy : nodes2[j]? = some y) :
    grpDeg A N nodes1 y = colDeg (crossBlock A nodes1 nodes2) nodes1.length j := by
  unfold grpDeg
  rw [rsum_support nodes1 N nd1 b1 _ (fun w hw => by simp [hw])]
  unfold colDeg
  apply rsum_congr; intro i hi
  have hi' : nodes1[i]? = some nodes1[i] := List.getElem?_eq_getElem hi
  have hm : nodes1.getD i 0 ∈ nodes1 := by
    rw [getD_of_getElem? _ _ _ hi']; exact List.getElem_mem hi
  simp only [hm, if_true]
  rw [getD_of_getElem? _ _ _ hi', sym, crossBlock_eq A nodes1 nodes2 i j _ y hi' hy]

/-! ### `simplify` -/

theorem simplified_iff (es : List (Nat × Nat)) (a b : Nat) :
    simplified es a b = true ↔ a ≠ b ∧ ∃ e ∈ es, sameLink e (a, b) := by
  simp only [simplified, Bool.and_eq_true, bne_iff_ne, ne_eq, List.any_eq_true, Bool.or_eq_true,
    beq_iff_eq, sameLink]
  constructor
  · rintro ⟨h, e, he, h'⟩; exact ⟨h, e, he, by omega⟩
  · rintro ⟨h, e, he, h'⟩; exact ⟨h, e, he, by omega⟩

theorem simplified_cons_le (e : Nat × Nat) (es : List (Nat × Nat)) (v w : Nat) :
    b2i (simplified (e :: es) v w)
      ≤ (if w = e.2 then (if e.1 = v then 1 else 0) else 0)
        + (if w = e.1 then (if e.2 = v then 1 else 0) else 0) + b2i (simplified es v w) := by
  simp only [simplified, List.any_cons]
  by_cases h1 : v = w <;> by_cases h2 : e.1 = v <;> by_cases h3 : e.2 = w <;>
    by_cases h4 : e.2 = v <;> by_cases h5 : e.1 = w <;>
    cases (es.any fun e => (e.1 == v && e.2 == w) || (e.2 == v && e.1 == w)) <;>
    simp_all [b2i] <;> omega

/-- **simplifying never raises a degree**: every node of the simplified graph has at most as many
neighbours as it had incident link ends in the multigraph (loops counted twice, as igraph does) -/
theorem deg_simplified_le (n : Nat) (es : List (Nat × Nat)) (v : Nat) :
    deg (simplified es) n v ≤ inc es v := by
  induction es with
  | nil =>
    unfold deg
    have : (fun j => b2i (simplified [] v j)) = fun _ => 0 := by funext j; simp [simplified]
    rw [this, rsum_zero]; simp [inc]
  | cons e es ih =>
    unfold deg at ih ⊢
    have step := rsum_le n (fun w _ => simplified_cons_le e es v w)
    rw [rsum_add, rsum_add, rsum_single, rsum_single] at step
    simp only [inc]
    have a1 : (if e.2 < n then (if e.1 = v then (1 : Int) else 0) else 0) ≤ (if e.1 = v then 1 else 0) := by
      split <;> split <;> omega
    have a2 : (if e.1 < n then (if e.2 = v then (1 : Int) else 0) else 0) ≤ (if e.2 = v then 1 else 0) := by
      split <;> split <;> omega
    omega

/-- a simple edge list loses nothing -/
theorem simplified_of_simple (n : Nat) (es : List (Nat × Nat)) (h : SimpleEdges n es) :
    simplified es = linkAny es := by
  funext a b
  rw [Bool.eq_iff_iff, simplified_iff, linkAny_iff]
  constructor
  · exact fun h => h.2
  · rintro ⟨e, he, hs⟩
    refine ⟨?_, e, he, hs⟩
    have := (h.1 e he).2.2
    simp only [sameLink] at hs; omega

/-! ### the draw expressions -/

/-- **`np.floor(rd.random() * E)` / `int(random.random() * N)` is a valid index** whenever the RNG
returns `0 ≤ u < 1` and there is at least one row -/
theorem geoDraw_range (u : Rat) (E : Int) (h0 : 0 ≤ u) (h1 : u < 1) (hE : 0 < E) :
    0 ≤ geoDraw u E ∧ geoDraw u E < E := by
  unfold geoDraw
  have hE' : (0 : Rat) < (E : Rat) := by exact_mod_cast hE
  constructor
  · rw [Rat.le_floor_iff]
    have : (0 : Rat) ≤ u * (E : Rat) := Rat.mul_nonneg h0 (Rat.le_of_lt hE')
    simpa using this
  · rw [Rat.floor_lt_iff]
    have : 0 < (1 - u) * (E : Rat) := Rat.mul_pos (by grind) hE'
    grind

/-! ### existence of an admissible swap -/

theorem crossAdmissible_iff (C : Adj) (links : List (Nat × Nat)) :
    crossAdmissible C links = true ↔
      ∃ p q, ∃ (hp : p < links.length) (hq : q < links.length),
        C links[p].1 links[q].2 = false ∧ C links[q].1 links[p].2 = false := by
  simp only [crossAdmissible, List.any_eq_true, Bool.not_eq_true', Bool.or_eq_false_iff]
  constructor
  · rintro ⟨ab, hab, ce, hce, h⟩
    obtain ⟨p, hp, rfl⟩ := List.getElem_of_mem hab
    obtain ⟨q, hq, rfl⟩ := List.getElem_of_mem hce
    exact ⟨p, q, hp, hq, h⟩
  · rintro ⟨p, q, hp, hq, h⟩
    exact ⟨links[p], List.getElem_mem hp, links[q], List.getElem_mem hq, h⟩

/-- a pass through `while True` makes a swap exactly when the drawn pair is admissible -/
theorem crossStep_done (st st' : CrossSt) (d : Nat × Nat) (h : crossStep st d = some st') :
    (st'.done = st.done + 1 ∧ ∃ (hp : d.1 < st.links.length) (hq : d.2 < st.links.length),
        st.C st.links[d.1].1 st.links[d.2].2 = false ∧ st.C st.links[d.2].1 st.links[d.1].2 = false) ∨
    (st' = st) := by
  rcases crossStep_cases st st' d h with rfl | ⟨a, b, c, e, hp, hq, e1, e2, h1, h2, rfl⟩
  · exact Or.inr rfl
  · refine Or.inl ⟨rfl, hp, hq, ?_, ?_⟩ <;> simp [e1, e2, h1, h2]

/-- **no admissible pair: the kernel can never leave its `while True`** — whatever is drawn, the
state stays as it is (so `number_swaps > 0` does not terminate) -/
theorem crossRun_stuck (swaps : Nat) (draws : List (Nat × Nat)) (st st' : CrossSt)
    (hno : crossAdmissible st.C st.links = false) (h : crossRun swaps draws st = some st') :
    st' = st := by
  induction draws with
  | nil => simp only [crossRun, Option.some.injEq] at h; exact h.symm
  | cons d ds ih =>
    simp only [crossRun] at h
    split at h
    · cases hs : crossStep st d with
      | none => simp [hs] at h
      | some st1 =>
        simp only [hs, Option.bind_some] at h
        rcases crossStep_done st st1 d hs with ⟨-, hp, hq, h1, h2⟩ | rfl
        · have : crossAdmissible st.C st.links = true :=
            (crossAdmissible_iff _ _).2 ⟨d.1, d.2, hp, hq, h1, h2⟩
          rw [hno] at this; cases this
        · exact ih h
    · simp only [Option.some.injEq] at h; exact h.symm

/-- **an admissible pair exists: some draw makes the swap** -/
theorem crossStep_progress (st : CrossSt) (h : crossAdmissible st.C st.links = true) :
    ∃ d st', crossStep st d = some st' ∧ st'.done = st.done + 1 := by
  obtain ⟨p, q, hp, hq, h1, h2⟩ := (crossAdmissible_iff _ _).1 h
  refine ⟨(p, q), ?_⟩
  unfold crossStep
  simp only [List.getElem?_eq_getElem hp, List.getElem?_eq_getElem hq]
  rw [rewBreak_eq]
  simp [h1, h2]

theorem geoAdmissible_iff (c : GeoCfg) (A : Adj) (edges : List (Nat × Nat)) :
    geoAdmissible c A edges = true ↔
      ∃ p q, ∃ (hp : p < edges.length) (hq : q < edges.length),
        geoAccept c A edges[p].1 edges[p].2 edges[q].1 edges[q].2 = true := by
  simp only [geoAdmissible, List.any_eq_true, geoAcceptM_eq]
  constructor
  · rintro ⟨ab, hab, ce, hce, h⟩
    obtain ⟨p, hp, rfl⟩ := List.getElem_of_mem hab
    obtain ⟨q, hq, rfl⟩ := List.getElem_of_mem hce
    exact ⟨p, q, hp, hq, h⟩
  · rintro ⟨p, q, hp, hq, h⟩
    exact ⟨edges[p], List.getElem_mem hp, edges[q], List.getElem_mem hq, h⟩

/-- **no admissible pair of links: the rewiring loop never terminates for `iterations > i`** —
every draw leaves the state as it is -/
theorem geoRun_stuck (c : GeoCfg) (iterations : Nat) (draws : List (Nat × Nat)) (st st' : GeoSt)
    (hno : geoAdmissible c st.A st.edges = false) (h : geoRun c iterations draws st = some st') :
    st' = st := by
  induction draws with
  | nil => simp only [geoRun, Option.some.injEq] at h; exact h.symm
  | cons d ds ih =>
    simp only [geoRun, geoWhile_iff] at h
    split at h
    · cases hs : geoStep c st d with
      | none => simp [hs] at h
      | some st1 =>
        simp only [hs, Option.bind_some] at h
        rcases geoStep_cases c st st1 d hs with rfl | ⟨s, t, k, l, hp, hq, e1, e2, acc, rfl⟩
        · exact ih h
        · have : geoAdmissible c st.A st.edges = true :=
            (geoAdmissible_iff _ _ _).2 ⟨d.1, d.2, hp, hq, by rw [e1, e2]; exact acc⟩
          rw [hno] at this; cases this
    · simp only [Option.some.injEq] at h; exact h.symm

theorem geoStep_progress (c : GeoCfg) (st : GeoSt) (h : geoAdmissible c st.A st.edges = true) :
    ∃ d st', geoStep c st d = some st' ∧ st'.i = st.i + 1 := by
  obtain ⟨p, q, hp, hq, acc⟩ := (geoAdmissible_iff _ _ _).1 h
  refine ⟨(p, q), ?_⟩
  unfold geoStep
  simp only [List.getElem?_eq_getElem hp, List.getElem?_eq_getElem hq]
  rw [geoAcceptM_eq]
  simp [acc]

end Pyunicorn.Random
