import Pyunicorn.Lemmas.LineDistFloat
import Mathlib.Tactic.Linarith
import Mathlib.Algebra.Order.Ring.Rat
/-! C08, round 4: what rounding the differences `|a - b|` to doubles can and cannot do to the
recurrence predicate `metric_supremum(I, j) < eps` on finite data. -/
namespace Pyunicorn.LineDist
open Pyunicorn.Generated

/-- a rounding is monotone (every IEEE rounding mode is) -/
def MonoRnd (rnd : Rat → Rat) : Prop := ∀ a b, a ≤ b → rnd a ≤ rnd b

/-- the exact `|x - y|` -/
def adiff (x y : Rat) : Rat := if x ≤ y then y - x else x - y

theorem supFold_fin (L : List Nat) (f : Nat → Rat) (a0 : Rat) :
    L.foldl (fun (diff : X) (l : Nat) => if X.gt (.fin (f l)) diff then .fin (f l) else diff)
        (.fin a0)
      = .fin (L.foldl (fun (acc : Rat) (l : Nat) => if acc < f l then f l else acc) a0) := by
  induction L generalizing a0 with
  | nil => rfl
  | cons a t ih =>
    simp only [List.foldl_cons]
    rw [← ih]
    congr 1
    by_cases h : a0 < f a <;> simp [X.gt, X.lt, h]

theorem maxFold_lt (L : List Nat) (f : Nat → Rat) (a0 e : Rat) :
    L.foldl (fun (acc : Rat) (l : Nat) => if acc < f l then f l else acc) a0 < e
      ↔ a0 < e ∧ ∀ l ∈ L, f l < e := by
  induction L generalizing a0 with
  | nil => simp
  | cons a t ih =>
    simp only [List.foldl_cons, List.mem_cons, forall_eq_or_imp]
    rw [ih]
    by_cases h : a0 < f a
    · rw [if_pos h]
      constructor
      · rintro ⟨h1, h2⟩; exact ⟨lt_trans h h1, h1, h2⟩
      · rintro ⟨_, h1, h2⟩; exact ⟨h1, h2⟩
    · rw [if_neg h]
      constructor
      · rintro ⟨h1, h2⟩; exact ⟨h1, lt_of_le_of_lt (not_lt.mp h) h1, h2⟩
      · rintro ⟨h0, _, h2⟩; exact ⟨h0, h2⟩

/-- on finite samples the generated metric is the running maximum of the rounded differences -/
theorem metric_fin (rnd : Rat → Rat) (I j dim : Int) (e : Int → Int → Rat) :
    StructC08.metric_supremum (xOps rnd) I j dim (fun a b => .fin (e a b))
      = .fin ((List.range dim.toNat).foldl (fun (acc : Rat) (l : Nat) =>
          if acc < rnd (adiff (e I l) (e j l)) then rnd (adiff (e I l) (e j l)) else acc) 0) := by
  unfold StructC08.metric_supremum
  exact supFold_fin _ (fun l : Nat => rnd (adiff (e I l) (e j l))) 0

/-- the recurrence predicate on finite samples and a finite threshold `t`: every rounded
coordinate difference is below `t` (and `t` is positive: the accumulator starts at `0`) -/
theorem near_fin_iff (rnd : Rat → Rat) (I j dim : Int) (e : Int → Int → Rat) (t : Rat) :
    (xOps rnd).lt (StructC08.metric_supremum (xOps rnd) I j dim (fun a b => .fin (e a b))) (.fin t)
        = true
      ↔ 0 < t ∧ ∀ l : Nat, l < dim.toNat → rnd (adiff (e I l) (e j l)) < t := by
  rw [metric_fin]
  simp only [xOps, X.lt, decide_eq_true_eq]
  rw [maxFold_lt]
  simp [List.mem_range]

/-- an infinite threshold accepts every pair of finite samples, a NaN threshold none -/
theorem near_fin_inf (rnd : Rat → Rat) (I j dim : Int) (e : Int → Int → Rat) :
    (xOps rnd).lt (StructC08.metric_supremum (xOps rnd) I j dim (fun a b => .fin (e a b))) .pinf
        = true ∧
    (xOps rnd).lt (StructC08.metric_supremum (xOps rnd) I j dim (fun a b => .fin (e a b))) .nan
        = false := by
  rw [metric_fin]
  simp [xOps, X.lt]

end Pyunicorn.LineDist
