import Pyunicorn.Lemmas.LineDistGen
/-! C08, round 3: the on-the-fly recurrence predicate of the sequential (`sparse_rqa`) kernels
is the stored matrix of the matrix mode (C07's model `Recurrence.fixedThreshold`), and the line
kernel cannot tell two predicates apart that agree on the cells it looks at.  Core Lean only. -/
namespace Pyunicorn.LineDist
open Pyunicorn.Generated
open Pyunicorn.Recurrence

/-! ### the kernel only looks at `line` on cells that are not missing -/

def normCell (c : Bool × Bool) : Bool × Bool := if c.2 then (false, true) else c

theorem cell_norm (c : Bool × Bool) (s : St) :
    cell true c.1 c.2 s = cell true (normCell c).1 (normCell c).2 s := by
  obtain ⟨l, m⟩ := c
  cases m <;> simp [normCell, cell]

theorem subspace_norm (cs : List (Bool × Bool)) (s : St) :
    subspace true cs s = subspace true (cs.map normCell) s := by
  unfold subspace
  congr 1
  induction cs generalizing s with
  | nil => rfl
  | cons c t ih => simp only [List.map_cons, List.foldl_cons]; rw [← cell_norm, ih]

theorem kernel_norm (subs : List (List (Bool × Bool))) (n : Nat) :
    kernel true subs n = kernel true (subs.map (·.map normCell)) n := by
  unfold kernel
  congr 1
  generalize (⟨0, false, List.replicate n 0⟩ : St) = s
  induction subs generalizing s with
  | nil => rfl
  | cons c t ih => simp only [List.map_cons, List.foldl_cons]; rw [← subspace_norm, ih]

/-- two cell predicates that agree on the missing flags, and on `line` wherever the cell is
not missing (missing-value mode) resp. everywhere (plain mode), give the same histogram -/
theorem kernel_map_congr (mv : Bool) (coords : List (List (Nat × Nat)))
    (f g : Nat × Nat → Bool × Bool) (n : Nat)
    (h : ∀ cs ∈ coords, ∀ c ∈ cs, (f c).2 = (g c).2 ∧
        ((mv = true → (f c).2 = false) → (f c).1 = (g c).1)) :
    kernel mv (coords.map (·.map f)) n = kernel mv (coords.map (·.map g)) n := by
  cases mv with
  | false =>
    congr 1
    apply List.map_congr_left
    intro cs hcs
    apply List.map_congr_left
    intro c hc
    have := h cs hcs c hc
    exact Prod.ext (this.2 (by simp)) this.1
  | true =>
    rw [kernel_norm, kernel_norm (coords.map (·.map g))]
    congr 1
    simp only [List.map_map]
    apply List.map_congr_left
    intro cs hcs
    simp only [Function.comp_def, List.map_map]
    apply List.map_congr_left
    intro c hc
    have := h cs hcs c hc
    simp only [normCell]
    by_cases hm : (f c).2 = true
    · rw [if_pos hm, if_pos (this.1 ▸ hm)]
    · have hm' : (f c).2 = false := by simpa using hm
      rw [if_neg hm, if_neg (by rw [← this.1]; exact hm)]
      exact Prod.ext (this.2 (fun _ => hm')) this.1

/-! ### `metric_supremum` (regenerated) = C07's `dist .supremum` -/

theorem zipWith_eq_range_map {α β : Type} (f : α → α → β) (a b : List α) (d : Nat) (x : α)
    (ha : a.length = d) (hb : b.length = d) :
    List.zipWith f a b = (List.range d).map fun l => f (a.getD l x) (b.getD l x) := by
  apply List.ext_getElem
  · simp [ha, hb]
  · intro i h1 h2
    have hi : i < d := by simpa using h2
    simp [List.getD_eq_getElem?_getD, ha, hb, hi]

theorem metric_supremum_eq_dist (emb : List (List V)) (I j dim : Nat)
    (hI : (rowOf emb I).length = dim) (hj : (rowOf emb j).length = dim) :
    StructC08.metric_supremum vOps I j dim (accE emb) = dist .supremum (rowOf emb I) (rowOf emb j) := by
  unfold StructC08.metric_supremum dist
  simp only [vOps]
  rw [zipWith_eq_range_map absdiff _ _ dim none hI hj, List.foldl_map]
  simp [accE, rowOf]

theorem absdiff_self (x : V) : absdiff x x = none ∨ absdiff x x = some 0 := by
  cases x with
  | none => left; rfl
  | some q => right; simp [absdiff, Rat.sub_self]

theorem supFold_zero (l : List V) (h : ∀ t ∈ l, t = none ∨ t = some (0 : Rat)) :
    l.foldl (fun acc t => if gtV t acc then t else acc) (some (0 : Rat)) = some 0 := by
  induction l with
  | nil => rfl
  | cons t ts ih =>
    simp only [List.foldl_cons]
    have ht : (if gtV t (some (0 : Rat)) then t else some 0) = some (0 : Rat) := by
      rcases h t (by simp) with rfl | rfl <;> simp [gtV]
    rw [ht]
    exact ih (fun t' ht' => h t' (by simp [ht']))

/-- the supremum distance of a state vector to itself is `0` even if it has NaN coordinates
(`tmp_diff > diff` is false on NaN): the main diagonal of the on-the-fly predicate is the
`np.zeros` diagonal of the stored distance matrix -/
theorem dist_sup_self (a : List V) : dist .supremum a a = some 0 := by
  unfold dist
  apply supFold_zero
  intro t ht
  obtain ⟨x, _, rfl⟩ : ∃ x, x ∈ a ∧ absdiff x x = t := by
    have : ∀ (l : List V) (t : V), t ∈ List.zipWith absdiff l l → ∃ x, x ∈ l ∧ absdiff x x = t := by
      intro l
      induction l with
      | nil => intro t ht; simp at ht
      | cons y ys ih =>
        intro t ht
        simp only [List.zipWith_cons_cons, List.mem_cons] at ht
        rcases ht with rfl | ht
        · exact ⟨y, by simp, rfl⟩
        · obtain ⟨x, hx, hx'⟩ := ih t ht
          exact ⟨x, by simp [hx], hx'⟩
    exact this a t ht
  exact absdiff_self x

theorem Mat.at_eq_entry (R : Mat) (i j : Nat) : R.at i j = (entry R i j).getD false := by
  unfold Mat.at entry
  cases h : R[i]? with
  | none => simp [List.getD_eq_getElem?_getD, h]
  | some r => simp [List.getD_eq_getElem?_getD, h]

theorem at_tab (n k : Nat) (f : Nat → Nat → Bool) (i j : Nat) (hi : i < n) (hj : j < k) :
    Mat.at (tab n k f) i j = f i j := tab_getD n k f i j hi hj

/-- **the predicate agrees**: what the sequential kernels compute on the fly at cell `(I, j)`
is the entry of the recurrence matrix that `set_fixed_threshold` stores — everywhere in plain
mode, on every cell whose two samples are not missing in missing-value mode. -/
theorem near_eq_matrix (emb : List (List V)) (eps : Rat) (dim : Nat) (mv : Bool)
    (hdim : ∀ r ∈ emb, r.length = dim) (I j : Nat) (hI : I < emb.length) (hj : j < emb.length)
    (hm : mv = true → (missingMask emb).getD I false = false ∧
        (missingMask emb).getD j false = false) :
    ltV (StructC08.metric_supremum vOps I j dim (accE emb)) (some eps)
      = Mat.at (fixedThreshold .supremum emb eps mv) I j := by
  have hrow : ∀ k, k < emb.length → (rowOf emb k).length = dim := by
    intro k hk
    apply hdim
    simp [rowOf, List.getD_eq_getElem?_getD, hk]
  rw [metric_supremum_eq_dist emb I j dim (hrow I hI) (hrow j hj)]
  have hplain : Mat.at (threshold (distRP .supremum emb) (some (unitThr .supremum eps))) I j
      = ltV (dist .supremum (rowOf emb I) (rowOf emb j)) (some eps) := by
    rw [distRP, threshold_tab, at_tab _ _ _ _ _ hI hj]
    simp only [rpEntry, unitThr]
    by_cases h1 : j < I
    · rw [if_pos h1]
    · rw [if_neg h1]
      by_cases h2 : I < j
      · rw [if_pos h2, dist_comm]
      · rw [if_neg h2]
        have : I = j := by omega
        subst this
        rw [dist_sup_self]
  cases mv with
  | false => simp only [fixedThreshold]; rw [← hplain]; rfl
  | true =>
    have := hm rfl
    simp only [fixedThreshold, if_true]
    rw [Mat.at_eq_entry, applyMask_entry, this.1, this.2, ← hplain, Mat.at_eq_entry]
    cases entry (threshold (distRP .supremum emb) (some (unitThr .supremum eps))) I j <;> simp

end Pyunicorn.LineDist
