import Pyunicorn.Lemmas.Access
/-!
C20 round 5 — the extended order on IEEE values, NumPy's NaN-propagating `min` / `max` folds and
the reciprocal, for the wrapper model `tmiCallX`.  Core Lean only.
-/
namespace Pyunicorn.Access

theorem XR.le_notNan {a b : XR} (h : XR.le a b = true) : a.isNan = false ∧ b.isNan = false := by
  cases a <;> cases b <;> simp_all [XR.le, XR.isNan]

theorem XR.le_refl' {a : XR} (h : a.isNan = false) : XR.le a a = true := by
  cases a <;> simp_all [XR.le, XR.isNan]

theorem XR.le_trans' {a b c : XR} (h1 : XR.le a b = true) (h2 : XR.le b c = true) :
    XR.le a c = true := by
  cases a <;> cases b <;> cases c <;> simp_all [XR.le]
  exact Rat.le_trans h1 h2

theorem XR.le_total' {a b : XR} (ha : a.isNan = false) (hb : b.isNan = false) :
    XR.le a b = true ∨ XR.le b a = true := by
  cases a <;> cases b <;> simp_all [XR.le, XR.isNan]
  exact Rat.le_total

/-- `np.min((a, b))` is NaN or a lower bound of both -/
theorem XR.min2_spec (a b : XR) :
    (XR.min2 a b).isNan = true ∨ (XR.le (XR.min2 a b) a = true ∧ XR.le (XR.min2 a b) b = true) := by
  unfold XR.min2
  by_cases hn : (a.isNan || b.isNan) = true
  · left; rw [if_pos hn]; rfl
  · rw [if_neg hn]
    have ha : a.isNan = false := by
      cases h : a.isNan <;> simp_all
    have hb : b.isNan = false := by
      cases h : b.isNan <;> simp_all
    right
    by_cases hba : XR.le b a = true
    · rw [if_pos hba]; exact ⟨hba, XR.le_refl' hb⟩
    · rw [if_neg hba]
      refine ⟨XR.le_refl' ha, ?_⟩
      rcases XR.le_total' ha hb with h | h
      · exact h
      · exact absurd h hba

theorem XR.max2_spec (a b : XR) :
    (XR.max2 a b).isNan = true ∨ (XR.le a (XR.max2 a b) = true ∧ XR.le b (XR.max2 a b) = true) := by
  unfold XR.max2
  by_cases hn : (a.isNan || b.isNan) = true
  · left; rw [if_pos hn]; rfl
  · rw [if_neg hn]
    have ha : a.isNan = false := by
      cases h : a.isNan <;> simp_all
    have hb : b.isNan = false := by
      cases h : b.isNan <;> simp_all
    right
    by_cases hab : XR.le a b = true
    · rw [if_pos hab]; exact ⟨hab, XR.le_refl' hb⟩
    · rw [if_neg hab]
      refine ⟨XR.le_refl' ha, ?_⟩
      rcases XR.le_total' ha hb with h | h
      · exact absurd h hab
      · exact h

/-- the running minimum is NaN or a lower bound of the start value and of every element -/
theorem foldl_min2_spec (xs : List XR) (acc : XR) :
    (xs.foldl XR.min2 acc).isNan = true ∨
      (XR.le (xs.foldl XR.min2 acc) acc = true ∧ ∀ x ∈ xs, XR.le (xs.foldl XR.min2 acc) x = true) := by
  induction xs generalizing acc with
  | nil =>
    cases h : acc.isNan
    · right; exact ⟨XR.le_refl' h, by simp⟩
    · left; simpa using h
  | cons y ys ih =>
    simp only [List.foldl_cons]
    rcases ih (XR.min2 acc y) with h | ⟨h1, h2⟩
    · left; exact h
    · right
      have hnn := (XR.le_notNan h1).2
      rcases XR.min2_spec acc y with h | ⟨ha, hy⟩
      · rw [h] at hnn; cases hnn
      · refine ⟨XR.le_trans' h1 ha, ?_⟩
        intro x hx
        rcases List.mem_cons.mp hx with rfl | hx
        · exact XR.le_trans' h1 hy
        · exact h2 x hx

theorem foldl_max2_spec (xs : List XR) (acc : XR) :
    (xs.foldl XR.max2 acc).isNan = true ∨
      (XR.le acc (xs.foldl XR.max2 acc) = true ∧ ∀ x ∈ xs, XR.le x (xs.foldl XR.max2 acc) = true) := by
  induction xs generalizing acc with
  | nil =>
    cases h : acc.isNan
    · right; exact ⟨XR.le_refl' h, by simp⟩
    · left; simpa using h
  | cons y ys ih =>
    simp only [List.foldl_cons]
    rcases ih (XR.max2 acc y) with h | ⟨h1, h2⟩
    · left; exact h
    · right
      have hnn := (XR.le_notNan h1).1
      rcases XR.max2_spec acc y with h | ⟨ha, hy⟩
      · rw [h] at hnn; cases hnn
      · refine ⟨XR.le_trans' ha h1, ?_⟩
        intro x hx
        rcases List.mem_cons.mp hx with rfl | hx
        · exact XR.le_trans' hy h1
        · exact h2 x hx

/-- `ndarray.min()`: NaN, or a lower bound of every entry -/
theorem xrMin_le (xs : List XR) :
    (xrMin xs).isNan = true ∨ ∀ x ∈ xs, XR.le (xrMin xs) x = true := by
  unfold xrMin
  rcases foldl_min2_spec xs (xs.headD .nan) with h | ⟨_, h⟩
  · exact Or.inl h
  · exact Or.inr h

theorem xrMax_ge (xs : List XR) :
    (xrMax xs).isNan = true ∨ ∀ x ∈ xs, XR.le x (xrMax xs) = true := by
  unfold xrMax
  rcases foldl_max2_spec xs (xs.headD .nan) with h | ⟨_, h⟩
  · exact Or.inl h
  · exact Or.inr h

theorem xrMin_nil : (xrMin []).isNan = true := rfl
theorem xrMax_nil : (xrMax []).isNan = true := rfl

/-- an entry addressed inside or outside the nested list: NaN (outside) or a member of the flattened list -/
theorem XData.at_mem (d : XData) (i k : Nat) : (d.at i k).isNan = true ∨ d.at i k ∈ d.flatten := by
  unfold XData.at
  by_cases hi : i < d.length
  · have e : d.getD i [] = d[i] := by simp [List.getD, hi]
    rw [e]
    by_cases hk : k < d[i].length
    · right
      have e2 : (d[i]).getD k .nan = (d[i])[k] := by simp [List.getD, hk]
      rw [e2, List.mem_flatten]
      exact ⟨d[i], List.getElem_mem hi, List.getElem_mem hk⟩
    · left
      have e2 : (d[i]).getD k .nan = .nan := by
        simp [List.getD, List.getElem?_eq_none (Nat.le_of_not_lt hk)]
      rw [e2]; rfl
  · left
    have e : d.getD i [] = [] := by
      simp [List.getD, List.getElem?_eq_none (Nat.le_of_not_lt hi)]
    rw [e]; rfl

/-- the reciprocal of a value that is not negative is not negative (or the division raises) -/
theorem XR.recip_notNeg {d s : XR} (hd : d.notNeg = true) (h : XR.recip d = some s) :
    s.notNeg = true := by
  cases d with
  | nan => simp [XR.recip] at h; subst h; rfl
  | pinf => simp [XR.recip] at h; subst h; simp [XR.notNeg]
  | ninf => simp [XR.notNeg] at hd
  | fin r =>
    have hr : 0 ≤ r := by simpa [XR.notNeg] using hd
    simp only [XR.recip] at h
    split at h
    · cases h
    · rename_i hne
      cases h
      simp only [XR.notNeg, decide_eq_true_eq]
      have hpos : 0 < r := by
        rcases Rat.le_iff_lt_or_eq.mp hr with h | h
        · exact h
        · exact absurd h.symm hne
      rw [Rat.div_def, Rat.one_mul]
      exact Rat.le_of_lt (Rat.inv_pos.mpr hpos)

end Pyunicorn.Access

/-! ### `min` / `max` over two arrays = over their concatenation (round 5) -/
namespace Pyunicorn.Access

theorem minStep_assoc (a b c : Option Rat) :
    minStep (minStep a b) c = minStep a (minStep b c) := by
  cases a <;> cases b <;> cases c <;> simp only [minStep]
  rename_i a b c
  congr 1
  grind

theorem minStep_idem (a : Option Rat) : minStep a a = a := by
  cases a <;> simp [minStep]

theorem maxStep_assoc (a b c : Option Rat) :
    maxStep (maxStep a b) c = maxStep a (maxStep b c) := by
  cases a <;> cases b <;> cases c <;> simp only [maxStep]
  rename_i a b c
  congr 1
  grind

theorem maxStep_idem (a : Option Rat) : maxStep a a = a := by
  cases a <;> simp [maxStep]

theorem foldl_step_assoc (f : Option Rat → Option Rat → Option Rat)
    (hf : ∀ a b c, f (f a b) c = f a (f b c)) (a b : Option Rat) (t : List (Option Rat)) :
    t.foldl f (f a b) = f a (t.foldl f b) := by
  induction t generalizing b with
  | nil => rfl
  | cons x t ih => simp only [List.foldl_cons]; rw [hf, ih]

theorem fold_append (f : Option Rat → Option Rat → Option Rat)
    (hf : ∀ a b c, f (f a b) c = f a (f b c)) (hi : ∀ a, f a a = a)
    (a b : List (Option Rat)) (ha : a ≠ []) (hb : b ≠ []) :
    (a ++ b).foldl f ((a ++ b).headD none) = f (a.foldl f (a.headD none)) (b.foldl f (b.headD none)) := by
  obtain ⟨x, ta, rfl⟩ := List.exists_cons_of_ne_nil ha
  obtain ⟨y, tb, rfl⟩ := List.exists_cons_of_ne_nil hb
  simp only [List.cons_append, List.headD_cons, List.foldl_cons, List.foldl_append, hi]
  rw [foldl_step_assoc f hf]

/-- NumPy's minimum over both arrays is the minimum of the two minima (both arrays non-empty) -/
theorem optMin_append (a b : List (Option Rat)) (ha : a ≠ []) (hb : b ≠ []) :
    optMin (a ++ b) = npMin2 (optMin a) (optMin b) := by
  rw [optMin_eq, optMin_eq, optMin_eq]
  exact fold_append minStep minStep_assoc minStep_idem a b ha hb

theorem optMax_append (a b : List (Option Rat)) (ha : a ≠ []) (hb : b ≠ []) :
    optMax (a ++ b) = npMax2 (optMax a) (optMax b) := by
  rw [optMax_eq, optMax_eq, optMax_eq]
  exact fold_append maxStep maxStep_assoc maxStep_idem a b ha hb

end Pyunicorn.Access

/-! ### NaN | finite data as IEEE data: the model over `XR` restricted to such data is the round-1
model over `Option Rat` (round 5) -/
namespace Pyunicorn.Access

/-- a `Data` array (NaN | finite) as an array of IEEE values -/
def Data.toX (d : Data) : XData := d.map fun row => row.map XR.ofOpt

theorem ofOpt_minStep (a b : Option Rat) :
    XR.ofOpt (minStep a b) = XR.min2 (XR.ofOpt a) (XR.ofOpt b) := by
  cases a <;> cases b <;> simp [minStep, XR.ofOpt, XR.min2, XR.isNan, XR.le]
  rename_i a b
  by_cases h : b < a
  · rw [if_pos h, if_pos (Rat.le_of_lt h)]
  · rw [if_neg h]
    by_cases h2 : b ≤ a
    · rw [if_pos h2]
      have : a = b := Rat.le_antisymm (Rat.not_lt.mp h) h2
      rw [this]
    · rw [if_neg h2]

theorem ofOpt_maxStep (a b : Option Rat) :
    XR.ofOpt (maxStep a b) = XR.max2 (XR.ofOpt a) (XR.ofOpt b) := by
  cases a <;> cases b <;> simp [maxStep, XR.ofOpt, XR.max2, XR.isNan, XR.le]
  rename_i a b
  by_cases h : a < b
  · rw [if_pos h, if_pos (Rat.le_of_lt h)]
  · rw [if_neg h]
    by_cases h2 : a ≤ b
    · rw [if_pos h2]
      exact congrArg _ (Rat.le_antisymm h2 (Rat.not_lt.mp h))
    · rw [if_neg h2]

theorem foldl_ofOpt (f : Option Rat → Option Rat → Option Rat) (g : XR → XR → XR)
    (hfg : ∀ a b, XR.ofOpt (f a b) = g (XR.ofOpt a) (XR.ofOpt b))
    (xs : List (Option Rat)) (acc : Option Rat) :
    (xs.map XR.ofOpt).foldl g (XR.ofOpt acc) = XR.ofOpt (xs.foldl f acc) := by
  induction xs generalizing acc with
  | nil => rfl
  | cons x t ih => simp only [List.map_cons, List.foldl_cons]; rw [← hfg, ih]

theorem headD_ofOpt (xs : List (Option Rat)) :
    (xs.map XR.ofOpt).headD .nan = XR.ofOpt (xs.headD none) := by
  cases xs <;> rfl

theorem xrMin_map (xs : List (Option Rat)) : xrMin (xs.map XR.ofOpt) = XR.ofOpt (optMin xs) := by
  rw [optMin_eq]; unfold xrMin
  rw [headD_ofOpt, foldl_ofOpt minStep XR.min2 ofOpt_minStep]

theorem xrMax_map (xs : List (Option Rat)) : xrMax (xs.map XR.ofOpt) = XR.ofOpt (optMax xs) := by
  rw [optMax_eq]; unfold xrMax
  rw [headD_ofOpt, foldl_ofOpt maxStep XR.max2 ofOpt_maxStep]

theorem Data.toX_flatten (d : Data) : d.toX.flatten = d.flat.map XR.ofOpt := by
  unfold Data.toX Data.flat
  rw [List.map_flatten]

theorem Data.toX_at (d : Data) (i k : Nat) : d.toX.at i k = XR.ofOpt (d.at i k) := by
  unfold Data.toX XData.at Data.at
  simp only [List.getD_eq_getElem?_getD, List.getElem?_map]
  cases h : d[i]? with
  | none => simp [XR.ofOpt]
  | some row =>
    simp only [Option.map_some, Option.getD_some, List.getElem?_map]
    cases h2 : row[k]? with
    | none => simp [XR.ofOpt]
    | some x => simp

/-- the symbol of a NaN | finite sample under a finite scaling and range_min -/
theorem symbolX_ofOpt (s m : Rat) (nb : Int) (x : Option Rat) :
    symbolX (.fin s) (.fin m) nb (XR.ofOpt x) = some (symbol (some s) (some m) nb x) := by
  cases x <;> simp [symbolX, symbol, XR.ofOpt, XR.sub, XR.mul]

theorem symbolX_nan (m : XR) (nb : Int) (x : XR) : symbolX .nan m nb x = some (nb - 1) := by
  simp [symbolX, XR.mul]

theorem convOKX_ofOpt (bits : Nat) (s m : Rat) (nb : Int) (x : Option Rat) :
    convOKX bits (.fin s) (.fin m) nb (XR.ofOpt x)
      = (match castArg (some s) (some m) nb x with
         | some r => castDefined bits r
         | none => true) := by
  cases x with
  | none => simp [convOKX, castArg, XR.ofOpt, XR.sub, XR.mul]
  | some v =>
    simp only [convOKX, castArg, XR.ofOpt, XR.sub, XR.mul]
    split <;> rfl

theorem convsOKX_ofOpt (bits N T : Nat) (s m : Rat) (nb : Int) (d : Data) :
    convsOKX bits N T (.fin s) (.fin m) nb d.toX.at = castsOK bits N T (some s) (some m) nb d.at := by
  unfold convsOKX castsOK
  congr 1; funext i; congr 1; funext k
  rw [Data.toX_at, convOKX_ofOpt]
  cases castArg (some s) (some m) nb (d.at i k) <;> rfl

theorem convsOKX_nan (bits N T : Nat) (m : XR) (nb : Int) (d : Nat → Nat → XR) :
    convsOKX bits N T .nan m nb d = true := by
  simp [convsOKX, convOKX, XR.mul]

end Pyunicorn.Access

namespace Pyunicorn.Access

theorem tmiKernelX_nan (m : XR) (N T : Nat) (nb : Int) (dO dS : XData) :
    tmiKernelX .nan m N T nb dO dS
      = verdictOf (tmiSizes N T N T nb.toNat)
          (tmiTrace N T nb.toNat (fun _ _ => nb - 1) (fun _ _ => nb - 1)) := by
  unfold tmiKernelX
  rw [convsOKX_nan, convsOKX_nan]
  simp only [Bool.and_self, if_true, symbolX_nan, Option.getD_some]

theorem tmiKernelX_fin (s m : Rat) (N T : Nat) (nb : Int) (dO dS : Data) :
    tmiKernelX (.fin s) (.fin m) N T nb dO.toX dS.toX
      = if castsOK 32 N T (some s) (some m) nb dO.at && castsOK 32 N T (some s) (some m) nb dS.at then
          verdictOf (tmiSizes N T N T nb.toNat)
            (tmiTrace N T nb.toNat (fun i k => symbol (some s) (some m) nb (dO.at i k))
                                   (fun i k => symbol (some s) (some m) nb (dS.at i k)))
        else .oob := by
  unfold tmiKernelX
  rw [convsOKX_ofOpt, convsOKX_ofOpt]
  simp only [Data.toX_at, symbolX_ofOpt, Option.getD_some]

/-- **The IEEE model restricted to NaN | finite data is the round-1 model**: for arrays that hold no
infinities (and are not empty) `tmiCallX`, with the range terms as they are in the source, is
`tmiCall` — so `tmiCall_rejects_or_safe` is the special case of `tmiCallX_rejects_or_safe`, and the
minimum / maximum "over both arrays" of `tmiCall` is what the two-step computation of the source
(`np.min((a.min(), b.min()))`) yields. -/
theorem tmiCallX_toX (rmin rmax : String × List (String × String))
    (hmin : rmin = ("np.min", [("original_data", "min"), ("surrogates", "min")]))
    (hmax : rmax = ("np.max", [("original_data", "max"), ("surrogates", "max")]))
    (N T N2 T2 : Nat) (nb : Int) (dO dS : Data) (hO : dO.flat ≠ []) (hS : dS.flat ≠ []) :
    tmiCallX rmin rmax "1.0 / (range_max - range_min)" N T N2 T2 nb dO.toX dS.toX
      = tmiCall N T N2 T2 nb dO dS := by
  subst hmin hmax
  unfold tmiCallX tmiCall
  by_cases h1 : nb < 1
  · rw [if_pos h1, if_pos h1]
  rw [if_neg h1, if_neg h1]
  by_cases h2 : (N2, T2) ≠ (N, T)
  · rw [if_pos h2, if_pos h2]
  rw [if_neg h2, if_neg h2]
  by_cases h3 : (2 : Int) ^ 31 ≤ nb
  · rw [if_pos h3, if_pos h3]
  rw [if_neg h3, if_neg h3]
  by_cases h4 : N * T = 0
  · rw [if_pos h4, if_pos h4]
  rw [if_neg h4, if_neg h4]
  have hN : (N2, T2) = (N, T) := by simpa using h2
  obtain ⟨rfl, rfl⟩ := Prod.mk.inj hN
  rw [if_neg (by decide)]
  have hr : rangeFromX dO.toX dS.toX ("np.min", [("original_data", "min"), ("surrogates", "min")])
      ("np.max", [("original_data", "max"), ("surrogates", "max")])
      = some (XR.ofOpt (optMin (dO.flat ++ dS.flat)), XR.ofOpt (optMax (dO.flat ++ dS.flat))) := by
    show some (XR.min2 (xrMin dO.toX.flatten) (xrMin dS.toX.flatten),
               XR.max2 (xrMax dO.toX.flatten) (xrMax dS.toX.flatten)) = _
    rw [Data.toX_flatten, Data.toX_flatten, xrMin_map, xrMin_map, xrMax_map, xrMax_map,
      ← ofOpt_minStep, ← ofOpt_maxStep, optMin_append _ _ hO hS, optMax_append _ _ hO hS]
    rfl
  rw [hr]
  simp only
  cases hmn : optMin (dO.flat ++ dS.flat) with
  | none =>
    have : XR.sub (XR.ofOpt (optMax (dO.flat ++ dS.flat))) (XR.ofOpt none) = .nan := by
      cases XR.ofOpt (optMax (dO.flat ++ dS.flat)) <;> rfl
    rw [this]
    simp only [XR.recip, tmiKernelX_nan]
  | some a =>
    cases hmx : optMax (dO.flat ++ dS.flat) with
    | none =>
      simp only [XR.ofOpt, XR.sub, XR.recip, tmiKernelX_nan]
    | some b =>
      simp only [XR.ofOpt, XR.sub, XR.recip]
      by_cases hz : b - a = 0
      · rw [if_pos hz, if_pos hz]
      · rw [if_neg hz, if_neg hz]
        simp only [tmiKernelX_fin]

end Pyunicorn.Access
