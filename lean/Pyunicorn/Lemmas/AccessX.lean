import Pyunicorn.Lemmas.Access
/-!
C20 round 5 — the extended order on IEEE values, NumPy's NaN-propagating `min` / `max` folds and
the reciprocal, for the wrapper model `tmiCallX`.  Core Lean only.
-/
namespace Pyunicorn.Access

theorem XR.le_notNan {a b : XR} (h : XR.le a b = true) : a.isNan = false ∧ b.isNan = false := by
  cases a <;> cases b <;> simp_all [XR.le, XR.isNan]

theorem XR.le_refl' {a : XR} (h : a.isNan = false) : XR.le a a = true := by
  cases a <;> simp_all [XR.le, XR.isNan]

theorem XR.le_trans' {a b c : XR} (h1 : XR.le a b = true) (h2 : XR.le b c = true) :
    XR.le a c = true := by
  cases a <;> cases b <;> cases c <;> simp_all [XR.le]
  exact Rat.le_trans h1 h2

theorem XR.le_total' {a b : XR} (ha : a.isNan = false) (hb : b.isNan = false) :
    XR.le a b = true ∨ XR.le b a = true := by
  cases a <;> cases b <;> simp_all [XR.le, XR.isNan]
  exact Rat.le_total

/-- `np.min((a, b))` is NaN or a lower bound of both -/
theorem XR.min2_spec (a b : XR) :
    (XR.min2 a b).isNan = true ∨ (XR.le (XR.min2 a b) a = true ∧ XR.le (XR.min2 a b) b = true) := by
  unfold XR.min2
  by_cases hn : (a.isNan || b.isNan) = true
  · left; rw [if_pos hn]; rfl
  · rw [if_neg hn]
    have ha : a.isNan = false := by
      cases h : a.isNan <;> simp_all
    have hb : b.isNan = false := by
      cases h : b.isNan <;> simp_all
    right
    by_cases hba : XR.le b a = true
    · rw [if_pos hba]; exact ⟨hba, XR.le_refl' hb⟩
    · rw [if_neg hba]
      refine ⟨XR.le_refl' ha, ?_⟩
      rcases XR.le_total' ha hb with h | h
      · exact h
      · exact absurd h hba

theorem XR.max2_spec (a b : XR) :
    (XR.max2 a b).isNan = true ∨ (XR.le a (XR.max2 a b) = true ∧ XR.le b (XR.max2 a b) = true) := by
  unfold XR.max2
  by_cases hn : (a.isNan || b.isNan) = true
  · left; rw [if_pos hn]; rfl
  · rw [if_neg hn]
    have ha : a.isNan = false := by
      cases h : a.isNan <;> simp_all
    have hb : b.isNan = false := by
      cases h : b.isNan <;> simp_all
    right
    by_cases hab : XR.le a b = true
    · rw [if_pos hab]; exact ⟨hab, XR.le_refl' hb⟩
    · rw [if_neg hab]
      refine ⟨XR.le_refl' ha, ?_⟩
      rcases XR.le_total' ha hb with h | h
      · exact absurd h hab
      · exact h

/-- the running minimum is NaN or a lower bound of the start value and of every element -/
theorem foldl_min2_spec (xs : List XR) (acc : XR) :
    (xs.foldl XR.min2 acc).isNan = true ∨
      (XR.le (xs.foldl XR.min2 acc) acc = true ∧ ∀ x ∈ xs, XR.le (xs.foldl XR.min2 acc) x = true) := by
  induction xs generalizing acc with
  | nil =>
    cases h : acc.isNan
    · right; exact ⟨XR.le_refl' h, by simp⟩
    · left; simpa using h
  | cons y ys ih =>
    simp only [List.foldl_cons]
    rcases ih (XR.min2 acc y) with h | ⟨h1, h2⟩
    · left; exact h
    · right
      have hnn := (XR.le_notNan h1).2
      rcases XR.min2_spec acc y with h | ⟨ha, hy⟩
      · rw [h] at hnn; cases hnn
      · refine ⟨XR.le_trans' h1 ha, ?_⟩
        intro x hx
        rcases List.mem_cons.mp hx with rfl | hx
        · exact XR.le_trans' h1 hy
        · exact h2 x hx

theorem foldl_max2_spec (xs : List XR) (acc : XR) :
    (xs.foldl XR.max2 acc).isNan = true ∨
      (XR.le acc (xs.foldl XR.max2 acc) = true ∧ ∀ x ∈ xs, XR.le x (xs.foldl XR.max2 acc) = true) := by
  induction xs generalizing acc with
  | nil =>
    cases h : acc.isNan
    · right; exact ⟨XR.le_refl' h, by simp⟩
    · left; simpa using h
  | cons y ys ih =>
    simp only [List.foldl_cons]
    rcases ih (XR.max2 acc y) with h | ⟨h1, h2⟩
    · left; exact h
    · right
      have hnn := (XR.le_notNan h1).1
      rcases XR.max2_spec acc y with h | ⟨ha, hy⟩
      · rw [h] at hnn; cases hnn
      · refine ⟨XR.le_trans' ha h1, ?_⟩
        intro x hx
        rcases List.mem_cons.mp hx with rfl | hx
        · exact XR.le_trans' hy h1
        · exact h2 x hx

/-- `ndarray.min()`: NaN, or a lower bound of every entry -/
theorem xrMin_le (xs : List XR) :
    (xrMin xs).isNan = true ∨ ∀ x ∈ xs, XR.le (xrMin xs) x = true := by
  unfold xrMin
  rcases foldl_min2_spec xs (xs.headD .nan) with h | ⟨_, h⟩
  · exact Or.inl h
  · exact Or.inr h

theorem xrMax_ge (xs : List XR) :
    (xrMax xs).isNan = true ∨ ∀ x ∈ xs, XR.le x (xrMax xs) = true := by
  unfold xrMax
  rcases foldl_max2_spec xs (xs.headD .nan) with h | ⟨_, h⟩
  · exact Or.inl h
  · exact Or.inr h

theorem xrMin_nil : (xrMin []).isNan = true := rfl
theorem xrMax_nil : (xrMax []).isNan = true := rfl

/-- an entry addressed inside or outside the nested list: NaN (outside) or a member of the flattened list -/
theorem XData.at_mem (d : XData) (i k : Nat) : (d.at i k).isNan = true ∨ d.at i k ∈ d.flatten := by
  unfold XData.at
  by_cases hi : i < d.length
  · have e : d.getD i [] = d[i] := by simp [List.getD, hi]
    rw [e]
    by_cases hk : k < d[i].length
    · right
      have e2 : (d[i]).getD k .nan = (d[i])[k] := by simp [List.getD, hk]
      rw [e2, List.mem_flatten]
      exact ⟨d[i], List.getElem_mem hi, List.getElem_mem hk⟩
    · left
      have e2 : (d[i]).getD k .nan = .nan := by
        simp [List.getD, List.getElem?_eq_none (Nat.le_of_not_lt hk)]
      rw [e2]; rfl
  · left
    have e : d.getD i [] = [] := by
      simp [List.getD, List.getElem?_eq_none (Nat.le_of_not_lt hi)]
    rw [e]; rfl

/-- the reciprocal of a value that is not negative is not negative (or the division raises) -/
theorem XR.recip_notNeg {d s : XR} (hd : d.notNeg = true) (h : XR.recip d = some s) :
    s.notNeg = true := by
  cases d with
  | nan => simp [XR.recip] at h; subst h; rfl
  | pinf => simp [XR.recip] at h; subst h; simp [XR.notNeg]
  | ninf => simp [XR.notNeg] at hd
  | fin r =>
    have hr : 0 ≤ r := by simpa [XR.notNeg] using hd
    simp only [XR.recip] at h
    split at h
    · cases h
    · rename_i hne
      cases h
      simp only [XR.notNeg, decide_eq_true_eq]
      have hpos : 0 < r := by
        rcases Rat.le_iff_lt_or_eq.mp hr with h | h
        · exact h
        · exact absurd h.symm hne
      rw [Rat.div_def, Rat.one_mul]
      exact Rat.le_of_lt (Rat.inv_pos.mpr hpos)

end Pyunicorn.Access
