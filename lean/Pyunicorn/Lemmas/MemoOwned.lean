import Pyunicorn.Model.MemoOwned
import Pyunicorn.Lemmas.MemoNested
/-! Helper lemmas about `Memo.compose` (round 5). -/
namespace Pyunicorn.Memo

theorem ownerMethods_getElem (l : OLink) (u : NTable) : ∀ (ms : List NMethod) (off mi : Nat)
    (m : NMethod), ms[mi]? = some m →
    (ownerMethods l u off ms)[mi]? = some (ownerMethod l u (off + mi) m) := by
  intro ms
  induction ms with
  | nil => intro off mi m h; simp at h
  | cons x xs ih =>
    intro off mi m h
    cases mi with
    | zero => simp at h; simp [ownerMethods, h]
    | succ j =>
      simp at h
      have := ih (off + 1) j m h
      simp only [ownerMethods, List.getElem?_cons_succ, this]
      congr 2; omega

theorem compose_owner_method (t u : NTable) (l : OLink) (mi : Nat) (m : NMethod)
    (h : t.methods[mi]? = some m) :
    (compose t u l).methods[u.methods.length + mi]? = some (ownerMethod l u mi m) := by
  have := ownerMethods_getElem l u t.methods 0 mi m h
  simp only [compose]
  rw [List.getElem?_append_right (by simp)]
  simpa using this

theorem ownerBodies_getElem (l : OLink) (u : NTable) (mi : Nat) : ∀ (bs : List Body) (off k : Nat),
    (ownerBodies l u mi off bs)[k]? = (bs[k]?).map (ownerBody l u mi (off + k)) := by
  intro bs
  induction bs with
  | nil => intro off k; simp [ownerBodies]
  | cons x xs ih =>
    intro off k
    cases k with
    | zero => simp [ownerBodies]
    | succ j =>
      simp only [ownerBodies, List.getElem?_cons_succ, ih (off + 1) j]
      have : off + 1 + j = off + (j + 1) := by omega
      rw [this]

/-- what a body of the owner reads itself in the table of the pair: as in the owner's table, plus
every field of the owned object if it reads the owned object at all -/
theorem ownerMethod_bodyOf_direct (l : OLink) (u : NTable) (mi : Nat) (m : NMethod) (k : Nat) :
    ((ownerMethod l u mi m).bodyOf k).direct =
      if (m.bodyOf k).direct.contains l.content
      then (m.bodyOf k).direct ++ (ownedFields u).map l.renFld else (m.bodyOf k).direct := by
  have aux : ∀ (ob : Option Body) (i n : Nat) (d : Body),
      (match ob.map (ownerBody l u mi i) with
        | some b => b
        | none => ownerBody l u mi n d).direct =
      if (match ob with | some b => b | none => d).direct.contains l.content
      then (match ob with | some b => b | none => d).direct ++ (ownedFields u).map l.renFld
      else (match ob with | some b => b | none => d).direct := by
    intro ob i n d
    cases ob <;> simp [ownerBody]
  simp only [NMethod.bodyOf, ownerMethod, ownerBodies_getElem]
  exact aux _ _ _ _

theorem mem_closure_direct (t : NTable) (fuel mi a : Nat) (m : NMethod)
    (hm : t.methods[mi]? = some m) (x : Nat) (hx : x ∈ (m.bodyOf a).direct) :
    x ∈ closure t (fuel + 1) mi a := by
  simp only [closure, hm, List.mem_append]
  exact Or.inl hx

theorem mem_ownedFields_of_write (u : NTable) (o : Mutator) (ho : o ∈ u.mutators) (f : Nat)
    (hf : f ∈ o.writes) : f ∈ ownedFields u := by
  simp only [ownedFields, List.mem_eraseDups, List.mem_append, List.mem_flatMap]
  exact Or.inr ⟨o, ho, hf⟩

end Pyunicorn.Memo
