import Pyunicorn.Lemmas.NetRW
import Pyunicorn.Lemmas.CouplingGJ2
/-!
# C03 round 5e: `ratInv` (the exact inverse used by the model of `Network.newman_betweenness`) is
correct, two-sided, unique and complete

`ratInv` is C03's own Gauss–Jordan elimination (`gaussStep`: swap with `List.set`, elimination with
`List.zip`), coded independently of C10's `gjInverse`.  `gaussStep_spec` reads one column step off
the list code as the **same entry-wise statement** as C10's `gjStep_spec`; from there the
invariants of C10 (`Coupling.gjInv_step`: `B · C = A` on `[A | B]`; `Coupling.kerInv_step`: the row
operations keep the kernel) are reused unchanged, and `Coupling.left_inverse_is_right`,
`Coupling.left_inverse_kernel` give two-sidedness and uniqueness.
-/
namespace Pyunicorn.Net

open Pyunicorn.Coupling (Shape GJInv KerInv)

theorem cSum_eq (n : Nat) (f : Nat → Rat) : Coupling.sumTo n f = sumToQ n f := by
  induction n with
  | zero => simp [Coupling.sumTo, sumToQ_zero']
  | succ k ih => rw [Coupling.sumTo, sumToQ_succ', ih]

theorem matFn_eq : Coupling.matFn = matFn := rfl

theorem getD_set_set (rows : List (List Rat)) (p c r : Nat) (x y : List Rat)
    (hp : p < rows.length) (hr : r ≠ c) :
    ((rows.set p x).set c y).getD r [] = if r = p then x else rows.getD r [] := by
  rw [List.getD_eq_getElem?_getD, List.getElem?_set_ne (Ne.symm hr)]
  by_cases h : r = p
  · subst h; rw [if_pos rfl, List.getElem?_set_self hp]; rfl
  · rw [if_neg h, List.getElem?_set_ne (Ne.symm h), List.getD_eq_getElem?_getD]

theorem getD_zip_sub (row prow : List Rat) (f : Rat) (c : Nat) (h1 : c < row.length)
    (h2 : c < prow.length) :
    ((row.zip prow).map fun (x, y) => x - f * y).getD c 0 = row.getD c 0 - f * prow.getD c 0 := by
  have hl : c < ((row.zip prow).map fun (x, y) => x - f * y).length := by
    simp only [List.length_map, List.length_zip]; omega
  simp only [List.getD_eq_getElem?_getD]
  rw [List.getElem?_eq_getElem hl, List.getElem?_eq_getElem h1, List.getElem?_eq_getElem h2]
  simp

/-- one column step of `ratInv`, entry by entry (the statement of `Coupling.gjStep_spec`) -/
theorem gaussStep_spec (M M' : List (List Rat)) (N W col : Nat) (hS : Shape M N W) (hc : col < N)
    (h : gaussStep M col = some M') :
    ∃ r, col ≤ r ∧ r < N ∧ Coupling.matFn M r col ≠ 0 ∧ Shape M' N W ∧
      ∀ k c, k < N → c < W → Coupling.matFn M' k c =
        if k = col then Coupling.matFn M r c / Coupling.matFn M r col
        else Coupling.matFn M (if k = r then col else k) c -
          Coupling.matFn M (if k = r then col else k) col *
            (Coupling.matFn M r c / Coupling.matFn M r col) := by
  obtain ⟨hN, hW⟩ := hS
  unfold gaussStep at h
  split at h
  · cases h
  · rename_i p hhead
    obtain ⟨ys, hys⟩ := List.head?_eq_some_iff.mp hhead
    have hp : p ∈ (List.range M.length).filter
        (fun r => decide (col ≤ r) && ((M.getD r []).getD col 0 != 0)) := by
      rw [hys]; exact List.mem_cons_self
    simp only [List.mem_filter, List.mem_range, Bool.and_eq_true, decide_eq_true_eq, bne_iff_ne,
      ne_eq] at hp
    obtain ⟨hpN, hcp, hpiv⟩ := hp
    simp only [Option.some.injEq] at h
    subst h
    have hpN' : p < N := hN ▸ hpN
    have hcM : col < M.length := hN ▸ hc
    refine ⟨p, hcp, hpN', hpiv, ?_, ?_⟩
    · constructor
      · rw [List.length_map, List.length_range, hN]
      · intro k hk
        rw [Coupling.getD_map_range _ _ _ _ (by rw [hN]; exact hk)]
        by_cases hkc : k = col
        · rw [if_pos hkc, List.length_map]; exact hW p hpN'
        · rw [if_neg hkc, List.length_map, List.length_zip, List.length_map, hW p hpN',
            getD_set_set M p col k _ _ hpN hkc]
          by_cases hkp : k = p
          · rw [if_pos hkp, hW col hc]; simp
          · rw [if_neg hkp, hW k hk]; simp
    · intro k c hk hcW
      unfold Coupling.matFn
      rw [Coupling.getD_map_range _ _ _ _ (by rw [hN]; exact hk)]
      by_cases h1 : k = col
      · simp only [if_pos h1]; rw [Coupling.getD_map_div]
      · simp only [if_neg h1]
        rw [getD_set_set M p col k _ _ hpN h1]
        by_cases h2 : k = p
        · simp only [if_pos h2]
          rw [getD_zip_sub _ _ _ _ (by rw [hW col hc]; exact hcW)
            (by rw [List.length_map, hW p hpN']; exact hcW), Coupling.getD_map_div]
        · simp only [if_neg h2]
          rw [getD_zip_sub _ _ _ _ (by rw [hW k hk]; exact hcW)
            (by rw [List.length_map, hW p hpN']; exact hcW), Coupling.getD_map_div]

theorem gaussStep_none (M : List (List Rat)) (N W col : Nat) (hS : Shape M N W)
    (h : gaussStep M col = none) : ∀ r, col ≤ r → r < N → Coupling.matFn M r col = 0 := by
  intro r hcr hr
  obtain ⟨hN, _⟩ := hS
  unfold gaussStep at h
  split at h
  · rename_i hhead
    by_contra hne
    have hmem : r ∈ (List.range M.length).filter
        (fun r => decide (col ≤ r) && ((M.getD r []).getD col 0 != 0)) := by
      simp only [List.mem_filter, List.mem_range, Bool.and_eq_true, decide_eq_true_eq, bne_iff_ne,
        ne_eq]
      exact ⟨by rw [hN]; exact hr, hcr, hne⟩
    rw [List.head?_eq_none_iff] at hhead
    rw [hhead] at hmem
    cases hmem
  · cases h

/-! ### the loop -/

def gaussLoop (c : Nat) (aug : List (List Rat)) : Option (List (List Rat)) :=
  (List.range c).foldlM (fun rows c => gaussStep rows c) aug

theorem gaussLoop_zero (aug : List (List Rat)) : gaussLoop 0 aug = some aug := by
  simp [gaussLoop]

theorem gaussLoop_succ (c : Nat) (aug : List (List Rat)) :
    gaussLoop (c + 1) aug = (gaussLoop c aug).bind fun M => gaussStep M c := by
  unfold gaussLoop
  rw [List.range_succ, List.foldlM_append]
  cases (List.range c).foldlM (fun rows c => gaussStep rows c) aug <;> simp

/-- the augmented start matrix of `ratInv` -/
def augQ (m : List (List Rat)) : List (List Rat) :=
  (m.zipIdx).map fun (row, i) =>
    row ++ (List.range m.length).map fun j => if i = j then (1 : Rat) else 0

theorem ratInv_eq (m : List (List Rat)) :
    ratInv m = (gaussLoop m.length (augQ m)).map fun rows => rows.map (·.drop m.length) := rfl

theorem gaussLoop_spec (C : Nat → Nat → Rat) (N : Nat) (M : List (List Rat))
    (hS : Shape M N (2 * N)) (h0 : GJInv C N 0 (Coupling.matFn M))
    (hK : KerInv C N (Coupling.matFn M)) :
    ∀ c, c ≤ N → ∀ M', gaussLoop c M = some M' →
      Shape M' N (2 * N) ∧ GJInv C N c (Coupling.matFn M') ∧ KerInv C N (Coupling.matFn M') := by
  intro c
  induction c with
  | zero =>
    intro _ M' h
    rw [gaussLoop_zero] at h
    injection h with h; subst h
    exact ⟨hS, h0, hK⟩
  | succ c ih =>
    intro hc M' h
    rw [gaussLoop_succ] at h
    cases h1 : gaussLoop c M with
    | none => rw [h1] at h; cases h
    | some M1 =>
      rw [h1] at h
      simp only [Option.bind_some] at h
      obtain ⟨hS1, hI1, hK1⟩ := ih (by omega) M1 h1
      obtain ⟨r, hcr, hr, hp, hS', hF⟩ := gaussStep_spec M1 M' N (2 * N) c hS1 (by omega) h
      exact ⟨hS', Coupling.gjInv_step C N c r _ _ hI1 (by omega) hcr hr hp hF,
        Coupling.kerInv_step C N c r _ _ hK1 (by omega) hr hp hF⟩

theorem gaussLoop_none (M : List (List Rat)) :
    ∀ n, gaussLoop n M = none →
      ∃ c, c < n ∧ ∃ M1, gaussLoop c M = some M1 ∧ gaussStep M1 c = none := by
  intro n
  induction n with
  | zero => intro h; simp [gaussLoop_zero] at h
  | succ n ih =>
    intro h
    rw [gaussLoop_succ] at h
    cases h1 : gaussLoop n M with
    | none =>
      obtain ⟨c, hc, M1, h2, h3⟩ := ih h1
      exact ⟨c, by omega, M1, h2, h3⟩
    | some M1 =>
      rw [h1] at h
      simp only [Option.bind_some] at h
      exact ⟨n, by omega, M1, h1, h⟩

/-! ### the start matrix is C10's `augOf` -/

theorem list_eq_map_range {α : Type} (l : List α) (d : α) (N : Nat) (h : l.length = N) :
    l = (List.range N).map (fun j => l.getD j d) := by
  apply List.ext_getElem
  · simp [h]
  · intro i h1 h2
    simp [List.getD_eq_getElem?_getD, List.getElem?_eq_getElem h1]

theorem augQ_eq (m : List (List Rat)) (N : Nat) (hS : Shape m N N) :
    augQ m = Coupling.augOf (matFn m) N := by
  obtain ⟨hN, hW⟩ := hS
  subst hN
  unfold augQ Coupling.augOf
  apply List.ext_getElem
  · simp
  · intro i h1 h2
    have hi : i < m.length := by simpa using h2
    have him : i < m.length := by omega
    simp only [List.getElem_map, List.getElem_zipIdx, List.getElem_range, Nat.zero_add]
    congr 1
    have e : m[i] = m.getD i [] := by
      simp [List.getD_eq_getElem?_getD, List.getElem?_eq_getElem him]
    rw [e]
    exact list_eq_map_range (m.getD i []) 0 _ (hW i hi)

theorem matFn_map_drop (M : List (List Rat)) (k i l : Nat) :
    matFn (M.map (·.drop k)) i l = matFn M i (k + l) := by
  unfold matFn
  simp only [List.getD_eq_getElem?_getD, List.getElem?_map]
  cases M[i]? <;> simp [List.getElem?_drop]

/-! ### soundness, two-sidedness, uniqueness, completeness -/

/-- **`ratInv` is sound**: what it returns is a left inverse of the square matrix `m` -/
theorem ratInv_left (m inv : List (List Rat)) (N : Nat) (hS : Shape m N N)
    (h : ratInv m = some inv) (i j : Nat) (hi : i < N) (hj : j < N) :
    sumToQ N (fun l => matFn inv i l * matFn m l j) = if i = j then 1 else 0 := by
  rw [ratInv_eq, hS.1, augQ_eq m N hS] at h
  cases hg : gaussLoop N (Coupling.augOf (matFn m) N) with
  | none => rw [hg] at h; cases h
  | some M' =>
    rw [hg] at h
    simp only [Option.map_some] at h
    injection h with h
    obtain ⟨_, ⟨hA, hB⟩, _⟩ := gaussLoop_spec (matFn m) N _ (Coupling.augOf_shape _ N)
      (Coupling.augOf_inv _ N) (Coupling.augOf_ker _ N) N (Nat.le_refl _) M' hg
    rw [← h, ← cSum_eq, Coupling.sumTo_congr (g := fun l => Coupling.matFn M' i (N + l) * matFn m l j)
      (fun l _ => by rw [matFn_map_drop]; rfl), hA i j hi hj, hB i j hi hj]

/-- … and a right inverse (square matrices over a field) -/
theorem ratInv_right (m inv : List (List Rat)) (N : Nat) (hS : Shape m N N)
    (h : ratInv m = some inv) (i j : Nat) (hi : i < N) (hj : j < N) :
    sumToQ N (fun l => matFn m i l * matFn inv l j) = if i = j then 1 else 0 := by
  rw [← cSum_eq]
  exact Coupling.left_inverse_is_right (matFn m) (matFn inv) N
    (fun a b ha hb => by rw [cSum_eq]; exact ratInv_left m inv N hS h a b ha hb) i j hi hj

/-- **uniqueness**: every right inverse `P` of `m` on the indices `< N` (the specification of
`scipy.sparse.linalg.inv`) has the entries `ratInv` returns -/
theorem ratInv_unique (m inv : List (List Rat)) (N : Nat) (hS : Shape m N N)
    (h : ratInv m = some inv) (P : Nat → Nat → Rat)
    (hP : ∀ i j, i < N → j < N → sumToQ N (fun l => matFn m i l * P l j) = if i = j then 1 else 0) :
    ∀ i j, i < N → j < N → P i j = matFn inv i j := by
  intro i j hi hj
  have hz := Coupling.left_inverse_kernel (matFn m) (matFn inv) N
    (fun a b ha hb => by rw [cSum_eq]; exact ratInv_left m inv N hS h a b ha hb)
    (fun l => P l j - matFn inv l j) (fun k hk => by
      rw [cSum_eq, sumToQ_congrLt N _ (fun l => matFn m k l * P l j + (-1) * (matFn m k l * matFn inv l j))
        (fun l _ => by ring), sumToQ_add', sumToQ_mul_left', hP k j hk hj,
        ratInv_right m inv N hS h k j hk hj]
      ring) i hi
  linarith

/-- **completeness**: `ratInv` fails exactly on singular matrices (a non-zero kernel vector) -/
theorem ratInv_none_iff (m : List (List Rat)) (N : Nat) (hS : Shape m N N) :
    ratInv m = none ↔
      ∃ v : Nat → Rat, (∃ l, l < N ∧ v l ≠ 0) ∧
        ∀ k, k < N → sumToQ N (fun l => matFn m k l * v l) = 0 := by
  constructor
  · intro h
    rw [ratInv_eq, hS.1, augQ_eq m N hS, Option.map_eq_none_iff] at h
    obtain ⟨c, hc, M1, h2, h3⟩ := gaussLoop_none _ N h
    obtain ⟨hS1, ⟨_, hB⟩, hK⟩ := gaussLoop_spec (matFn m) N _ (Coupling.augOf_shape _ N)
      (Coupling.augOf_inv _ N) (Coupling.augOf_ker _ N) c (by omega) M1 h2
    have hz := gaussStep_none M1 N (2 * N) c hS1 h3
    refine ⟨fun l => if l < c then Coupling.matFn M1 l c else if l = c then -1 else 0,
      ⟨c, hc, by simp⟩, ?_⟩
    intro k hk
    rw [← cSum_eq]
    exact hK _ (fun k' hk' => Coupling.kernelAt_sum N c _ hc hB hz k' hk') k hk
  · intro ⟨v, ⟨l, hl, hne⟩, hk⟩
    cases hP : ratInv m with
    | none => rfl
    | some inv =>
      exact absurd (Coupling.left_inverse_kernel (matFn m) (matFn inv) N
        (fun a b ha hb => by rw [cSum_eq]; exact ratInv_left m inv N hS hP a b ha hb)
        v (fun k hk' => by rw [cSum_eq]; exact hk k hk') l hl) hne

/-- the result has the shape of `m`: `matFn inv` is `0` outside `N × N` -/
theorem ratInv_shape (m inv : List (List Rat)) (N : Nat) (hS : Shape m N N)
    (h : ratInv m = some inv) : Shape inv N N := by
  rw [ratInv_eq, hS.1, augQ_eq m N hS] at h
  cases hg : gaussLoop N (Coupling.augOf (matFn m) N) with
  | none => rw [hg] at h; cases h
  | some M' =>
    rw [hg] at h
    simp only [Option.map_some] at h
    injection h with h
    obtain ⟨⟨hL, hW⟩, _, _⟩ := gaussLoop_spec (matFn m) N _ (Coupling.augOf_shape _ N)
      (Coupling.augOf_inv _ N) (Coupling.augOf_ker _ N) N (Nat.le_refl _) M' hg
    subst h
    constructor
    · rw [List.length_map, hL]
    · intro k hk
      have := hW k hk
      simp only [List.getD_eq_getElem?_getD, List.getElem?_map] at this ⊢
      rw [List.getElem?_eq_getElem (by omega)] at this ⊢
      simp only [Option.map_some, Option.getD_some, List.length_drop] at this ⊢
      omega

theorem matFn_outside (inv : List (List Rat)) (N : Nat) (hS : Shape inv N N) (i j : Nat)
    (h : N ≤ i ∨ N ≤ j) : matFn inv i j = 0 := by
  obtain ⟨hL, hW⟩ := hS
  unfold matFn
  by_cases hi : i < N
  · have hj : N ≤ j := by omega
    have := hW i hi
    simp only [List.getD_eq_getElem?_getD] at this ⊢
    rw [List.getElem?_eq_none (by omega)]; rfl
  · simp only [List.getD_eq_getElem?_getD]
    rw [List.getElem?_eq_none (l := inv) (by omega)]; rfl

end Pyunicorn.Net
