import Pyunicorn.Lemmas.Events
/-! Helper lemmas for C16 (core Lean only): the model's slices and counts equal the
index-wise / time-wise published formulas. -/
namespace Pyunicorn.Events

/-! ### inner events by index -/

theorem evAt_cons_succ (a : Rat) (l : List Rat) (i : Nat) (hi : 1 ≤ i) :
    evAt (a :: l) (i + 1) = evAt l i := by
  obtain ⟨k, rfl⟩ : ∃ k, i = k + 1 := ⟨i - 1, by omega⟩
  simp [evAt]

theorem innerEv_eq_map (l : List Rat) : innerEv l = (innerIdx l).map (evAt l) := by
  fun_induction innerEv l with
  | case1 a b c t ih =>
    simp only [innerIdx, List.length_cons] at ih ⊢
    have e : t.length + 1 + 1 + 1 - 2 = (t.length + 1 + 1 - 2) + 1 := by omega
    rw [e, List.range'_succ, List.map_cons, ih]
    congr 1
    apply List.ext_getElem
    · simp
    · intro k h1 h2
      simp only [List.getElem_map, List.getElem_range']
      rw [show 1 + 1 + 1 * k = (1 + 1 * k) + 1 by omega]
      exact (evAt_cons_succ a (b :: c :: t) (1 + 1 * k) (by omega)).symm
  | case2 l h =>
    match l, h with
    | [], _ => rfl
    | [a], _ => rfl
    | [a, b], _ => rfl
    | a :: b :: c :: t, h => exact absurd rfl (h a b c t)

/-! ### doubled quantities of the code = the published (undoubled) conditions -/

theorem tau2_evAt (tm : Option Rat) (x y : List Rat) (i j : Nat) :
    tau2 tm (evAt x i) (evAt y j) = 2 * tauIJ tm x y i j := by
  cases tm with
  | none => simp only [tau2, capTau, tauIJ]; grind
  | some m => simp only [tau2, capTau, tauIJ]; grind

theorem axy_evAt (tm : Option Rat) (x y : List Rat) (i j : Nat) :
    axy tm (evAt x i) (evAt y j) = jXY tm x y i j := by
  simp only [axy, jXY, tau2_evAt, dst2]
  simp only [evAt]
  grind

theorem ayx_evAt (tm : Option Rat) (x y : List Rat) (i j : Nat) :
    ayx tm (evAt x i) (evAt y j) = jYX tm x y i j := by
  simp only [ayx, jYX, tau2_evAt, dst2]
  simp only [evAt]
  grind

theorem eqt_evAt (x y : List Rat) (i j : Nat) :
    eqt (evAt x i) (evAt y j) = jEq x y i j := by
  simp only [eqt, jEq, dst2, evAt]
  grind

/-! ### the weighted double sum -/

/-- weight of the pair `(p, q)`: `1` (or `½` if double counted) / `½` for equal times -/
def wgt (f d e : Ev → Ev → Bool) (p q : Ev) : Rat :=
  if f p q then (if d p q then (1 / 2 : Rat) else 1) else if e p q then 1 / 2 else 0

def wsum (f d e : Ev → Ev → Bool) (xs ys : List Ev) : Rat :=
  (xs.map fun p => (ys.map fun q => wgt f d e p q).sum).sum

theorem wrow (f d e : Ev → Bool) (hd : ∀ q, ¬(f q = true ∧ e q = true)) (ys : List Ev) :
    (ys.map fun q => if f q then (if d q then (1 / 2 : Rat) else 1)
        else if e q then 1 / 2 else 0).sum
      = (ys.countP f : Rat) + (ys.countP e : Rat) / 2
          - (ys.countP (fun q => f q && d q) : Rat) / 2 := by
  induction ys with
  | nil => simp; grind
  | cons q t ih =>
    simp only [List.map_cons, List.sum_cons, ih, List.countP_cons]
    have := hd q
    cases hf : f q <;> cases hdd : d q <;> cases he : e q <;>
      simp [hf, he] at this ⊢ <;> (try simp only [Rat.natCast_add]) <;> grind

theorem wsum_eq (f d e : Ev → Ev → Bool) (hd : ∀ p q, ¬(f p q = true ∧ e p q = true))
    (xs ys : List Ev) :
    wsum f d e xs ys = (count2 f xs ys : Rat) + (count2 e xs ys : Rat) / 2
      - (count2 (fun p q => f p q && d p q) xs ys : Rat) / 2 := by
  induction xs with
  | nil => simp [wsum, count2]; grind
  | cons p t ih =>
    simp only [wsum] at ih
    simp only [wsum, List.map_cons, List.sum_cons, ih, count2_cons_left, Rat.natCast_add]
    have := wrow (f p) (d p) (e p) (hd p) ys
    simp only [wgt]
    rw [this]
    grind

/-- the count of one direction is the published index-wise double sum -/
theorem countXY_eq_formula (tm : Option Rat) (x y : List Rat) :
    countXY tm (innerEv x) (innerEv y) = esFormula tm x y := by
  have h := wsum_eq (axy tm)
    (fun p q => (innerEv y).any (fun q' => ayx tm p q') || (innerEv x).any (fun p' => ayx tm p' q))
    eqt (axy_eqt_disjoint tm) (innerEv x) (innerEv y)
  have e : countXY tm (innerEv x) (innerEv y) = wsum (axy tm)
      (fun p q => (innerEv y).any (fun q' => ayx tm p q') ||
        (innerEv x).any (fun p' => ayx tm p' q)) eqt (innerEv x) (innerEv y) := by
    rw [h]; rfl
  rw [e]
  simp only [wsum, wgt, innerEv_eq_map, List.map_map, List.any_map, Function.comp_def,
    axy_evAt, ayx_evAt, eqt_evAt, esFormula]

/-! ### boundary-event exclusion by time: end of the record, both ends -/

theorem countP_ge_sorted_all (x a : Rat) (t : List Rat) (hs : List.Pairwise (· < ·) (a :: t))
    (ha : x ≤ a) : (a :: t).countP (fun u => decide (x ≤ u)) = (a :: t).length := by
  rw [List.countP_eq_length]
  intro u hu
  simp only [List.mem_cons] at hu
  simp only [decide_eq_true_eq]
  rcases hu with rfl | hu
  · exact ha
  · have := List.rel_of_pairwise_cons hs hu
    grind

/-- on a strictly increasing series, keeping all but as many trailing events as there
are events `≥ x` keeps exactly the events `< x` -/
theorem take_countP_ge_sorted (x : Rat) (e : List Rat) (hs : List.Pairwise (· < ·) e) :
    e.take (e.length - e.countP fun u => decide (x ≤ u)) = e.filter fun u => decide (¬ x ≤ u) := by
  induction e with
  | nil => rfl
  | cons a t ih =>
    have hs' := (List.pairwise_cons.1 hs).2
    by_cases ha : x ≤ a
    · rw [countP_ge_sorted_all x a t hs ha, Nat.sub_self, List.take_zero]
      symm
      rw [List.filter_eq_nil_iff]
      intro u hu
      simp only [List.mem_cons] at hu
      simp only [decide_eq_true_eq, Decidable.not_not]
      rcases hu with rfl | hu
      · exact ha
      · have := List.rel_of_pairwise_cons hs hu
        grind
    · have hle : t.countP (fun u => decide (x ≤ u)) ≤ t.length := List.countP_le_length
      simp only [List.countP_cons, ha, decide_false, List.length_cons, List.filter_cons,
        not_false_eq_true, decide_true, if_true]
      rw [show t.length + 1 - (List.countP (fun u => decide (x ≤ u)) t + if false = true then 1 else 0)
          = (t.length - List.countP (fun u => decide (x ≤ u)) t) + 1 by simp; omega]
      rw [List.take_succ_cons, ih hs']

theorem filter_true' {α} (l : List α) : l.filter (fun _ => true) = l :=
  List.filter_eq_self.2 (fun _ _ => rfl)

theorem filter_sorted {l : List Rat} (p : Rat → Bool) (hs : List.Pairwise (· < ·) l) :
    List.Pairwise (· < ·) (l.filter p) := hs.sublist List.filter_sublist

theorem countP_split {α} (p q : α → Bool) (l : List α) :
    l.countP p = (l.filter (fun u => !q u)).countP p + (l.filter q).countP p := by
  induction l with
  | nil => rfl
  | cons a t ih =>
    simp only [List.countP_cons, List.filter_cons]
    cases hq : q a <;> cases hp : p a <;> simp [hp] <;> omega

/-- slice `[nA : l - nB]`, `nA` = number of events `≤ a`, `nB` = number of events `≥ b`:
exactly the events with `a < t < b` remain -/
theorem mid_slice_sorted (a b : Rat) (e : List Rat) (hs : List.Pairwise (· < ·) e) :
    (e.take (e.length - e.countP fun u => decide (b ≤ u))).drop (e.countP fun u => decide (u ≤ a))
      = e.filter fun u => (!decide (u ≤ a)) && !decide (b ≤ u) := by
  rw [take_countP_ge_sorted b e hs]
  have hs' := filter_sorted (fun u => decide (¬ b ≤ u)) hs
  have hd := drop_countP_le_sorted a _ hs'
  have hf : (e.filter fun u => decide (¬ b ≤ u)).filter (fun u => decide (¬ u ≤ a))
      = e.filter fun u => (!decide (u ≤ a)) && !decide (b ≤ u) := by
    rw [List.filter_filter]
    congr 1
    funext u
    by_cases h1 : u ≤ a <;> by_cases h2 : b ≤ u <;> simp [h1, h2]
  have hsplit := countP_split (fun u => decide (u ≤ a)) (fun u => decide (b ≤ u)) e
  have e1 : (e.filter fun u => !decide (b ≤ u)) = e.filter fun u => decide (¬ b ≤ u) := by
    congr 1; funext u; by_cases h2 : b ≤ u <;> simp [h2]
  rw [e1] at hsplit
  by_cases hz : (e.filter fun u => decide (b ≤ u)).countP (fun u => decide (u ≤ a)) = 0
  · rw [hsplit, hz, Nat.add_zero, hd, hf]
  · -- an event is both early and late: everything before `b` is early
    have hpos : 0 < (e.filter fun u => decide (b ≤ u)).countP (fun u => decide (u ≤ a)) := by omega
    rw [List.countP_pos_iff] at hpos
    obtain ⟨w, hw, hwa⟩ := hpos
    simp only [List.mem_filter, decide_eq_true_eq] at hw hwa
    have hbw := hw.2
    have hall : ∀ u ∈ e.filter (fun u => decide (¬ b ≤ u)), u ≤ a := by
      intro u hu
      simp only [List.mem_filter, decide_eq_true_eq] at hu
      grind
    have hlen : (e.filter fun u => decide (¬ b ≤ u)).countP (fun u => decide (u ≤ a))
        = (e.filter fun u => decide (¬ b ≤ u)).length := by
      rw [List.countP_eq_length]
      intro u hu
      simpa using hall u hu
    rw [List.drop_eq_nil_of_le (by omega)]
    symm
    rw [← hf, List.filter_eq_nil_iff]
    intro u hu
    simpa using hall u hu

/-! ### `nStart`, `nEnd` count the early / late events -/

theorem nStart_eq_countP (e : List Rat) (c : Rat) : nStart e c = e.countP (early e c) := by
  unfold nStart early
  cases e.head? with
  | none => simp
  | some h => rfl

theorem nEnd_eq_countP (e : List Rat) (c : Rat) : nEnd e c = e.countP (late e c) := by
  unfold nEnd late
  cases e.getLast? with
  | none => simp
  | some h => rfl

theorem drop_nStart (e : List Rat) (c : Rat) (hs : List.Pairwise (· < ·) e) :
    e.drop (nStart e c) = e.filter fun t => !early e c t := by
  unfold nStart early
  cases e.head? with
  | none => simp [filter_true']
  | some h =>
    simp only
    rw [drop_countP_le_sorted (h + c) e hs]
    congr 1; funext u; by_cases h2 : u ≤ h + c <;> simp [h2]

theorem take_nEnd (e : List Rat) (c : Rat) (hs : List.Pairwise (· < ·) e) :
    e.take (e.length - nEnd e c) = e.filter fun t => !late e c t := by
  unfold nEnd late
  cases e.getLast? with
  | none => simp [filter_true']
  | some h =>
    simp only
    rw [take_countP_ge_sorted (h - c) e hs]
    congr 1; funext u; by_cases h2 : h - c ≤ u <;> simp [h2]

theorem mid_nStart_nEnd (e : List Rat) (c : Rat) (hs : List.Pairwise (· < ·) e) :
    (e.take (e.length - nEnd e c)).drop (nStart e c)
      = e.filter fun t => (!early e c t) && !late e c t := by
  unfold nEnd late nStart early
  cases hh : e.head? with
  | none =>
    have : e = [] := by simpa using hh
    subst this; rfl
  | some h =>
    cases hl : e.getLast? with
    | none =>
      have : e = [] := by simpa using hl
      subst this; simp at hh
    | some g =>
      simp only
      exact mid_slice_sorted (h + c) (g - c) e hs

/-- with the instantaneous-coincidence switch `b` (`lag == 0 and taumax == 0`) -/
theorem drop_nStart_inst (b : Bool) (e : List Rat) (c : Rat) (hs : List.Pairwise (· < ·) e) :
    e.drop (if b = true then 0 else nStart e c) = e.filter fun t => b || !early e c t := by
  cases b with
  | true => simp [filter_true']
  | false => simpa using drop_nStart e c hs

theorem take_nEnd_inst (b : Bool) (e : List Rat) (c : Rat) (hs : List.Pairwise (· < ·) e) :
    e.take (e.length - if b = true then 0 else nEnd e c) = e.filter fun t => b || !late e c t := by
  cases b with
  | true => simp [filter_true']
  | false => simpa using take_nEnd e c hs

theorem mid_inst (b : Bool) (e : List Rat) (c : Rat) (hs : List.Pairwise (· < ·) e) :
    (e.take (e.length - if b = true then 0 else nEnd e c)).drop (if b = true then 0 else nStart e c)
      = e.filter fun t => (b || !early e c t) && (b || !late e c t) := by
  cases b with
  | true => simp [filter_true']
  | false => simpa using mid_nStart_nEnd e c hs

theorem nStart_inst (b : Bool) (e : List Rat) (c : Rat) :
    (if b = true then 0 else nStart e c) = e.countP fun t => !(b || !early e c t) := by
  cases b with
  | true => simp
  | false => simpa using nStart_eq_countP e c

theorem nEnd_inst (b : Bool) (e : List Rat) (c : Rat) :
    (if b = true then 0 else nEnd e c) = e.countP fun t => !(b || !late e c t) := by
  cases b with
  | true => simp
  | false => simpa using nEnd_eq_countP e c

/-! ### event extraction keeps the order of the time stamps -/

theorem select_sublist (ts : List Rat) (b : List Bool) : (select ts b).Sublist ts := by
  induction ts generalizing b with
  | nil => cases b <;> exact List.nil_sublist _
  | cons t ts ih =>
    cases b with
    | nil => exact List.nil_sublist _
    | cons c bs =>
      cases c
      · simpa [select] using (ih bs).cons t
      · simpa [select] using (ih bs).cons_cons t

theorem select_sorted (ts : List Rat) (b : List Bool) (h : List.Pairwise (· < ·) ts) :
    List.Pairwise (· < ·) (select ts b) := h.sublist (select_sublist ts b)

theorem indexTimes_sorted (T : Nat) : List.Pairwise (· < ·) (indexTimes T) := by
  unfold indexTimes
  rw [List.pairwise_map]
  exact List.pairwise_lt_range.imp (fun h => Rat.natCast_lt_natCast.2 h)

/-! ### `mapM` in `Except`: all succeed / the first failure -/

theorem mapM_ok {α β ε} (f : α → Except ε β) (l : List α) (r : List β)
    (h : l.mapM f = .ok r) :
    r.length = l.length ∧ ∀ k (hk : k < l.length) (hk' : k < r.length), f l[k] = .ok r[k] := by
  induction l generalizing r with
  | nil =>
    simp only [List.mapM_nil, pure, Except.pure, Except.ok.injEq] at h
    subst h
    exact ⟨rfl, fun k hk => absurd hk (by simp)⟩
  | cons a t ih =>
    rw [List.mapM_cons] at h
    cases hfa : f a with
    | error e => simp [hfa, bind, Except.bind] at h
    | ok b =>
      cases ht : t.mapM f with
      | error e => simp [hfa, ht, bind, Except.bind] at h
      | ok bs =>
        simp only [hfa, ht, bind, Except.bind, pure, Except.pure, Except.ok.injEq] at h
        subst h
        obtain ⟨hl, hk⟩ := ih bs ht
        refine ⟨by simp [hl], ?_⟩
        intro k hk1 hk2
        cases k with
        | zero => simpa using hfa
        | succ k => simpa using hk k (by simpa using hk1) (by simpa using hk2)

theorem mapM_error {α β ε} (f : α → Except ε β) (l : List α) (e : ε)
    (h : l.mapM f = .error e) :
    ∃ k, ∃ hk : k < l.length, f l[k] = .error e ∧
      ∀ k' (h' : k' < k), ∃ b, f (l[k']'(by omega)) = .ok b := by
  induction l with
  | nil => simp [List.mapM_nil, pure, Except.pure] at h
  | cons a t ih =>
    rw [List.mapM_cons] at h
    cases hfa : f a with
    | error e' =>
      simp only [hfa, bind, Except.bind, Except.error.injEq] at h
      subst h
      exact ⟨0, by simp, by simpa using hfa, fun k' h' => absurd h' (by omega)⟩
    | ok b =>
      cases ht : t.mapM f with
      | ok bs => simp [hfa, ht, bind, Except.bind, pure, Except.pure] at h
      | error e' =>
        simp only [hfa, ht, bind, Except.bind, Except.error.injEq] at h
        subst h
        obtain ⟨k, hk, hfk, hbefore⟩ := ih ht
        refine ⟨k + 1, by simpa using hk, by simpa using hfk, ?_⟩
        intro k' h'
        cases k' with
        | zero => exact ⟨b, by simpa using hfa⟩
        | succ k' =>
          obtain ⟨b', hb'⟩ := hbefore k' (by omega)
          exact ⟨b', by simpa using hb'⟩

/-! ### ECA under affine changes of the time axis (window and lag rescaled with it) -/

theorem le_mul_iff (k x y : Rat) (hk : 0 < k) : k * x ≤ k * y ↔ x ≤ y := by
  have := nonneg_mul_iff k (y - x) hk
  have e : k * (y - x) = k * y - k * x := by grind
  grind

theorem mul_eq_zero_iff' (k x : Rat) (hk : 0 < k) : k * x = 0 ↔ x = 0 := by
  have h1 := le_mul_iff k x 0 hk
  have h2 := le_mul_iff k 0 x hk
  have e : k * 0 = 0 := Rat.mul_zero k
  grind

theorem inWin_aff (k lo hi d : Rat) (hk : 0 < k) :
    inWin (k * lo) (k * hi) (k * d) = inWin lo hi d := by
  simp only [inWin, le_mul_iff k _ _ hk]

theorem nStart_aff (k c : Rat) (hk : 0 < k) (e : List Rat) (x : Rat) :
    nStart (e.map (affT k c)) (k * x) = nStart e x := by
  unfold nStart
  rw [List.head?_map]
  cases e.head? with
  | none => rfl
  | some a =>
    simp only [Option.map, List.countP_map]
    congr 1
    funext u
    simp only [Function.comp_def, affT]
    have := le_mul_iff k u (a + x) hk
    have e : k * (a + x) = k * a + k * x := by grind
    grind

theorem nEnd_aff (k c : Rat) (hk : 0 < k) (e : List Rat) (x : Rat) :
    nEnd (e.map (affT k c)) (k * x) = nEnd e x := by
  unfold nEnd
  rw [List.getLast?_map]
  cases e.getLast? with
  | none => rfl
  | some a =>
    simp only [Option.map, List.countP_map]
    congr 1
    funext u
    simp only [Function.comp_def, affT]
    have := le_mul_iff k (a - x) u hk
    have e : k * (a - x) = k * a - k * x := by grind
    grind

theorem prec_aff (k c lo hi lag : Rat) (hk : 0 < k) (as bs : List Rat) :
    prec (inWin (k * lo) (k * hi)) (k * lag) (as.map (affT k c)) (bs.map (affT k c))
      = prec (inWin lo hi) lag as bs := by
  simp only [prec, List.countP_map, List.any_map]
  congr 1
  funext a
  simp only [Function.comp_def]
  congr 1
  funext b
  have : affT k c a - affT k c b - k * lag = k * (a - b - lag) := by simp only [affT]; grind
  rw [this, inWin_aff k lo hi _ hk]

theorem trig_aff (k c lo hi lag : Rat) (hk : 0 < k) (as bs : List Rat) :
    trig (inWin (k * lo) (k * hi)) (k * lag) (as.map (affT k c)) (bs.map (affT k c))
      = trig (inWin lo hi) lag as bs := by
  simp only [trig, List.countP_map, List.any_map]
  congr 1
  funext b
  simp only [Function.comp_def]
  congr 1
  funext a
  have : affT k c a - affT k c b - k * lag = k * (a - b - lag) := by simp only [affT]; grind
  rw [this, inWin_aff k lo hi _ hk]

theorem inst_aff (k tm lag : Rat) (hk : 0 < k) :
    (decide (k * lag = 0) && decide (k * tm = 0)) = (decide (lag = 0) && decide (tm = 0)) := by
  simp only [mul_eq_zero_iff' k _ hk]

end Pyunicorn.Events
