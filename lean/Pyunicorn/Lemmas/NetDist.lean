import Pyunicorn.Lemmas.NetPaths
/-!
The characterisation of the model's BFS distance `dist` (copies of the four theorems of
`Properties/C03.lean`, placed here so that lemma files can use them): `dist n a i j = some k` iff a walk
of `k` links exists and no shorter one; `none` iff no walk; diagonal 0; finite distances `< n`.
Core Lean only.
-/
namespace Pyunicorn.Net.DistL
open Pyunicorn.Net

/-- **`path_lengths()[i,j] = k`** (model: frontier BFS with early exit and fuel `n`) **iff there is a
walk of `k` links from `i` to `j` and none with fewer links.** -/
theorem dist_some_iff (n : Nat) (a : Adj) (i j k : Nat) (hi : i < n) (hj : j < n) :
    dist n a i j = some k ↔ Walk n a i j k ∧ ∀ m, m < k → ¬ Walk n a i j m := by
  rw [dist_eq_lev n a i hi j hj]
  constructor
  · intro h
    exact ((lev_some_iff n a i n j k).mp h).2
  · rintro ⟨w, hmin⟩
    cases hl : lev n a i n j with
    | none => exact absurd w ((lev_none_iff n a i j).mp hl k)
    | some k' =>
      obtain ⟨_, w', hmin'⟩ := (lev_some_iff n a i n j k').mp hl
      have : k' = k := by
        by_cases h1 : k' < k
        · exact absurd w' (hmin k' h1)
        · by_cases h2 : k < k'
          · exact absurd w (hmin' k h2)
          · omega
      rw [this]

/-- **`path_lengths()[i,j] = inf` iff no walk leads from `i` to `j`** (pigeonhole: `n` rounds suffice). -/
theorem dist_none_iff (n : Nat) (a : Adj) (i j : Nat) (hi : i < n) (hj : j < n) :
    dist n a i j = none ↔ ∀ k, ¬ Walk n a i j k := by
  rw [dist_eq_lev n a i hi j hj]
  exact lev_none_iff n a i j

/-- the diagonal of `path_lengths()` is 0 -/
theorem dist_self (n : Nat) (a : Adj) (i : Nat) (hi : i < n) : dist n a i i = some 0 :=
  (dist_some_iff n a i i 0 hi hi).mpr ⟨Walk.nil i, fun m hm => absurd hm (Nat.not_lt_zero m)⟩

/-- finite distances are smaller than the number of nodes -/
theorem dist_lt (n : Nat) (a : Adj) (i j k : Nat) (hi : i < n) (hj : j < n)
    (h : dist n a i j = some k) : k < n := by
  rw [dist_eq_lev n a i hi j hj] at h
  obtain ⟨e, he, hE⟩ := exists_levelEmpty n a i
  -- were `k ≥ n ≥ e`, level `k` would be empty, but `j` sits on it
  have hk := lev_exact n a i h
  apply Classical.byContradiction
  intro hc
  obtain ⟨r, hr⟩ := Nat.exists_eq_add_of_le (show e ≤ k by omega)
  have hEk : LevelEmpty n a i k := by
    rw [hr]
    clear hr hk h hc
    induction r with
    | zero => exact hE
    | succ r ih => exact levelEmpty_succ n a i ih
  exact hEk j hj hk

end Pyunicorn.Net.DistL
