import Pyunicorn.Lemmas.NsiComp
import Pyunicorn.Lemmas.NsiRw
/-!
Round 5: node-splitting invariance of `nsi_newman_betweenness` **through its per-component
wrapper** (any undirected loop-free network, connected or not).

* `RangeEq G H` — same node count, same links and node weights inside the node range; the
  Newman-type betweenness reads nothing else (`nsiNewman_congr`, `solvesL_congr`, `solvesR_congr`).
* `newmanAt G Tof ends a` — what the wrapper stores at node `a`: the isolated-node value, or the
  measure of the sub-network of `a`'s component at `a`'s position, with `Tof H` standing for
  `sp_M_inv` of the sub-network `H` (a function of the network: the code calls `inv` on a matrix
  built from `H`).
-/
namespace Pyunicorn.Nsi

structure RangeEq (G H : Gr) : Prop where
  hn : G.n = H.n
  hadj : ∀ i j, i < G.n → j < G.n → G.adj i j = H.adj i j
  hw : ∀ i, i < G.n → G.w i = H.w i

theorem RangeEq.symm {G H : Gr} (h : RangeEq G H) : RangeEq H G :=
  ⟨h.hn.symm, fun i j hi hj => (h.hadj i j (h.hn ▸ hi) (h.hn ▸ hj)).symm,
    fun i hi => (h.hw i (h.hn ▸ hi)).symm⟩

section congr
variable {G H : Gr} (h : RangeEq G H)
include h

theorem aplus_congr (i j : Nat) (hi : i < G.n) (hj : j < G.n) : aplus G i j = aplus H i j := by
  unfold aplus; rw [h.hadj i j hi hj]

theorem kstar_congr (i : Nat) (hi : i < G.n) : kstar G i = kstar H i := by
  unfold kstar
  rw [← h.hn]
  exact sumR_congr _ _ _ fun j hj => by rw [h.hw j hj, aplus_congr h i j hi hj]

theorem totalW_congr : totalW G = totalW H := by
  unfold totalW
  rw [← h.hn]
  exact sumR_congr _ _ _ fun j hj => by rw [h.hw j hj]

theorem nsiQ_congr (s c : Nat) (hs : s < G.n) (hc : c < G.n) : nsiQ G s c = nsiQ H s c := by
  unfold nsiQ; rw [kstar_congr h s hs, aplus_congr h s c hs hc]

theorem newmanM_congr (i j : Nat) (hi : i < G.n) (hj : j < G.n) : newmanM G i j = newmanM H i j := by
  unfold newmanM nsiLap
  rw [h.hw i hi, h.hw j hj, kstar_congr h i hi, aplus_congr h i j hi hj]

theorem nae_congr (i s : Nat) (hi : i < G.n) (hs : s < G.n) : nae G i s = nae H i s := by
  unfold nae; rw [aplus_congr h i s hi hs]

theorem newmanV_congr (T T' : Nat → Nat → Rat) (hT : ∀ i j, i < G.n → j < G.n → T i j = T' i j)
    (i s : Nat) (hi : i < G.n) (hs : s < G.n) : newmanV G T i s = newmanV H T' i s := by
  unfold newmanV
  rw [← h.hn]
  exact sumR_congr _ _ _ fun c hc => by rw [nsiQ_congr h s c hs hc, hT c i hc hi]

theorem newmanKernel_congr (V V' : Nat → Nat → Rat)
    (hV : ∀ i s, i < G.n → s < G.n → V i s = V' i s) (i : Nat) (hi : i < G.n) :
    newmanKernel G V i = newmanKernel H V' i := by
  unfold newmanKernel
  rw [← h.hn]
  apply sumR_congr; intro j hj
  rw [h.hw j hj, h.hadj i j hi hj]
  congr 1
  split
  · apply sumR_congr; intro s hs
    rw [h.hw s hs, nae_congr h i s hi hs]
    congr 1
    split
    · apply sumR_congr; intro t ht
      have ht' : t < G.n := by omega
      rw [h.hw t ht', nae_congr h i t hi ht', hV i s hi hs, hV j s hj hs, hV i t hi ht',
        hV j t hj ht']
    · rfl
  · rfl

/-- the Newman-type betweenness reads only the node range, the links and the weights in it, and
the entries of `T` in it -/
theorem nsiNewman_congr (T T' : Nat → Nat → Rat)
    (hT : ∀ i j, i < G.n → j < G.n → T i j = T' i j) (ends : Bool) (i : Nat) (hi : i < G.n) :
    nsiNewman G T ends i = nsiNewman H T' ends i := by
  unfold nsiNewman
  rw [newmanKernel_congr h _ _ (fun a s ha hs => newmanV_congr h T T' hT a s ha hs) i hi,
    totalW_congr h, kstar_congr h i hi]

theorem solvesL_congr (T : Nat → Nat → Rat) (hL : SolvesL G.n (nsiQ G) (newmanM G) T) :
    SolvesL H.n (nsiQ H) (newmanM H) T := by
  intro s t e hs ht he
  rw [← h.hn] at hs ht he ⊢
  have := hL s t e hs ht he
  rw [← nsiQ_congr h s e hs he, ← nsiQ_congr h t e ht he, ← this]
  apply sumR_congr; intro c hc
  rw [nsiQ_congr h s c hs hc, nsiQ_congr h t c ht hc]
  congr 1
  apply sumR_congr; intro r hr
  rw [newmanM_congr h r e hr he]

theorem solvesR_congr (T : Nat → Nat → Rat) (hR : SolvesR G.n (newmanM G) T) :
    SolvesR H.n (newmanM H) T := by
  intro r i j hr hi hj
  rw [← h.hn] at hr hi hj ⊢
  rw [← hR r i j hr hi hj]
  apply sumR_congr; intro c hc
  rw [newmanM_congr h r c hr hc]

end congr

/-- what the wrapper stores at node `a` -/
def newmanAt (G : Gr) (Tof : Gr → Nat → Nat → Rat) (ends : Bool) (a : Nat) : Rat :=
  let nodes := compNodes G a
  if nodes.length < 2 then (if ends then G.w a * G.w a else 0)
  else nsiNewman (subGr G nodes) (Tof (subGr G nodes)) ends (nodes.idxOf a)

/-! ### the component's node list -/

theorem compNodes_lt (G : Gr) (a x : Nat) (hx : x ∈ compNodes G a) : x < G.n :=
  List.mem_range.mp (List.mem_filter.mp hx).1

theorem compNodes_nodup (G : Gr) (a : Nat) : (compNodes G a).Nodup :=
  List.Nodup.filter _ List.nodup_range

theorem mem_compNodes (G : Gr) (a x : Nat) :
    x ∈ compNodes G a ↔ x < G.n ∧ (bfsDist G a x).isSome = true := by
  unfold compNodes
  rw [List.mem_filter, List.mem_range]

theorem self_mem_compNodes (G : Gr) (a : Nat) (ha : a < G.n) : a ∈ compNodes G a :=
  (mem_compNodes G a a).mpr ⟨ha, bfsDist_self_isSome G a ha⟩

/-- the sub-network of a loop-free network with positive weights is one -/
theorem subGr_loopfree (G : Gr) (nodes : List Nat) (hloop : ∀ i, G.adj i i = false) :
    ∀ i, (subGr G nodes).adj i i = false := fun _ => hloop _

theorem subGr_weights_pos (G : Gr) (nodes : List Nat) (hlt : ∀ x ∈ nodes, x < G.n)
    (hw : ∀ k, k < G.n → 0 < G.w k) : ∀ k, k < (subGr G nodes).n → 0 < (subGr G nodes).w k :=
  fun k hk => hw _ (getD_lt G nodes hlt k hk)

theorem newmanAt_single (G : Gr) (Tof : Gr → Nat → Nat → Rat) (ends : Bool) (a : Nat)
    (hlen : (compNodes G a).length < 2) :
    newmanAt G Tof ends a = if ends then G.w a * G.w a else 0 := by
  show (if (compNodes G a).length < 2 then _ else _) = _
  rw [if_pos hlen]

theorem newmanAt_sub (G : Gr) (Tof : Gr → Nat → Nat → Rat) (ends : Bool) (a : Nat)
    (hlen : ¬ (compNodes G a).length < 2) :
    newmanAt G Tof ends a = nsiNewman (subGr G (compNodes G a)) (Tof (subGr G (compNodes G a))) ends
      ((compNodes G a).idxOf a) := by
  show (if (compNodes G a).length < 2 then _ else _) = _
  rw [if_neg hlen]

/-! ### a complete network (every pair linked): no walk is counted, only the local ends -/

theorem sumR_eq_zero (n : Nat) (f : Nat → Rat) (h : ∀ k, k < n → f k = 0) : sumR n f = 0 := by
  rw [sumR_congr n f (fun _ => 0) h, sumR_zero]

theorem nsiNewman_complete (K : Gr) (hall : ∀ i j, i < K.n → j < K.n → aplus K i j = 1)
    (T : Nat → Nat → Rat) (ends : Bool) (i : Nat) (hi : i < K.n) :
    nsiNewman K T ends i = if ends then totalW K * totalW K else 0 := by
  unfold nsiNewman
  have hk : newmanKernel K (newmanV K T) i = 0 := by
    unfold newmanKernel
    have : ∀ j, j < K.n → K.w j * (if K.adj i j = true then
        sumR K.n fun s => K.w s * (if nae K i s = true then
          sumR s fun t => K.w t * (if nae K i t = true then
            absQ (newmanV K T i s - newmanV K T j s - newmanV K T i t + newmanV K T j t)
              else 0) else 0) else 0) = 0 := by
      intro j _
      have hz : (sumR K.n fun s => K.w s * (if nae K i s = true then
          sumR s fun t => K.w t * (if nae K i t = true then
            absQ (newmanV K T i s - newmanV K T j s - newmanV K T i t + newmanV K T j t)
              else 0) else 0)) = 0 := by
        apply sumR_eq_zero; intro s hs
        have : nae K i s = false := by unfold nae; rw [hall i s hi hs]; rfl
        rw [this, if_neg (by simp), mul_zero]
      rw [hz]; split <;> simp
    exact sumR_eq_zero _ _ this
  have hks : kstar K i = totalW K := by
    unfold kstar totalW
    exact sumR_congr _ _ _ fun j hj => by rw [hall i j hi hj]
  rw [hk, hks]
  cases ends <;> simp only [↓reduceIte, Bool.false_eq_true] <;> ring

/-! ### the wrapper under a split -/

theorem idxOf_append_last (nodes : List Nat) (n : Nat) (hn : n ∉ nodes) :
    (nodes ++ [n]).idxOf n = nodes.length := by
  rw [List.idxOf_append_of_notMem hn]; simp

/-- **Node-splitting invariance of `nsi_newman_betweenness` through the component loop**, for every
loop-free network with positive node weights, connected or not: node `a` of the split copy gets the
value of `collapse a`.  `Tof H` stands for `sp_M_inv` of the sub-network `H`: a function of the
network restricted to its node range (`hTcongr`) that does what the inverse is used for on the
component of `collapse a` (`hL`) and on the component of `a` in the split copy (`hR`). -/
theorem newmanAt_split (G : Gr) (v : Nat) (p : Rat) (hv : v < G.n) (hp0 : 0 < p) (hp1 : p < 1)
    (hw : ∀ k, k < G.n → 0 < G.w k) (hloop : ∀ i, G.adj i i = false)
    (Tof : Gr → Nat → Nat → Rat)
    (hTcongr : ∀ H H', RangeEq H H' → ∀ i j, i < H.n → j < H.n → Tof H i j = Tof H' i j)
    (ends : Bool) (a : Nat) (ha : a < G.n + 1)
    (hL : SolvesL (subGr G (compNodes G (collapse G.n v a))).n
      (nsiQ (subGr G (compNodes G (collapse G.n v a))))
      (newmanM (subGr G (compNodes G (collapse G.n v a))))
      (Tof (subGr G (compNodes G (collapse G.n v a)))))
    (hR : SolvesR (subGr (split G v p) (compNodes (split G v p) a)).n
      (newmanM (subGr (split G v p) (compNodes (split G v p) a)))
      (Tof (subGr (split G v p) (compNodes (split G v p) a)))) :
    newmanAt (split G v p) Tof ends a = newmanAt G Tof ends (collapse G.n v a) := by
  have hca := collapse_lt_n G.n v a hv ha
  set nodes := compNodes G (collapse G.n v a) with hnodes
  have hlt : ∀ x ∈ nodes, x < G.n := fun x hx => compNodes_lt G _ x hx
  have hnd : nodes.Nodup := compNodes_nodup G _
  have hself : collapse G.n v a ∈ nodes := self_mem_compNodes G _ hca
  have hcomp := compNodes_split G v p hv hloop a ha
  rw [← hnodes] at hcomp
  by_cases hr : (bfsDist G (collapse G.n v a) v).isSome = true
  · -- the component of the split node
    have hvm : v ∈ nodes := (mem_compNodes G _ v).mpr ⟨hv, hr⟩
    rw [hr, if_pos rfl] at hcomp
    have hnn : G.n ∉ nodes := fun h => absurd (hlt _ h) (Nat.lt_irrefl _)
    have hiv : nodes.idxOf v < nodes.length := List.idxOf_lt_length_iff.mpr hvm
    -- position of `a` in the new component vs position of `collapse a` in the old one
    have hpos : (nodes ++ [G.n]).idxOf a < nodes.length + 1 ∧
        collapse nodes.length (nodes.idxOf v) ((nodes ++ [G.n]).idxOf a)
          = nodes.idxOf (collapse G.n v a) := by
      by_cases han : a = G.n
      · subst han
        rw [idxOf_append_last nodes _ hnn, collapse_self, collapse_self]
        exact ⟨Nat.lt_succ_self _, rfl⟩
      · have ha' : a < G.n := by omega
        rw [collapse_lt _ _ _ ha'] at hself ⊢
        have hi : nodes.idxOf a < nodes.length := List.idxOf_lt_length_iff.mpr hself
        rw [List.idxOf_append_of_mem hself, collapse_lt _ _ _ hi]
        exact ⟨by omega, rfl⟩
    have hRE : RangeEq (subGr (split G v p) (nodes ++ [G.n]))
        (split (subGr G nodes) (nodes.idxOf v) p) :=
      ⟨subGr_split_n G v p nodes,
        fun i j hi hj => subGr_split_adj G v p nodes hlt hnd hvm i j
          (by simpa [subGr] using hi) (by simpa [subGr] using hj),
        fun i hi => subGr_split_w G v p nodes hlt hnd hvm i (by simpa [subGr] using hi)⟩
    by_cases hlen : nodes.length < 2
    · -- an isolated node becomes a pair of twins
      have hone : nodes = [v] := by
        rcases hm : nodes with _ | ⟨x, _ | ⟨y, t⟩⟩
        · rw [hm] at hvm; simp at hvm
        · rw [hm] at hvm; simp at hvm; rw [hvm]
        · rw [hm] at hlen; simp only [List.length_cons] at hlen; omega
      have hcv : collapse G.n v a = v := by
        have := hself; rw [hone] at this; simpa using this
      rw [newmanAt_single G Tof ends _ (by rw [← hnodes]; exact hlen), hcv]
      have hlen' : ¬ (compNodes (split G v p) a).length < 2 := by rw [hcomp, hone]; simp
      rw [newmanAt_sub _ Tof ends a hlen', hcomp]
      have hidx := hpos.1
      rw [nsiNewman_congr hRE _ _ (fun _ _ _ _ => rfl) ends _ (by simpa [subGr] using hidx)]
      have hall : ∀ i j, i < (split (subGr G nodes) (nodes.idxOf v) p).n →
          j < (split (subGr G nodes) (nodes.idxOf v) p).n →
          aplus (split (subGr G nodes) (nodes.idxOf v) p) i j = 1 := by
        intro i j hi hj
        rw [aplus_split _ _ _ (by simpa [subGr] using hiv)]
        have hn1 : (subGr G nodes).n = 1 := by rw [subGr_n, hone]; rfl
        have hi' : i < 2 := by have : (split (subGr G nodes) (nodes.idxOf v) p).n = (subGr G nodes).n + 1 := rfl; omega
        have hj' : j < 2 := by have : (split (subGr G nodes) (nodes.idxOf v) p).n = (subGr G nodes).n + 1 := rfl; omega
        have hk0 : nodes.idxOf v = 0 := by rw [hone]; simp
        have c1 : collapse (subGr G nodes).n (nodes.idxOf v) i = 0 := by
          rw [hn1, hk0]; unfold collapse; split <;> omega
        have c2 : collapse (subGr G nodes).n (nodes.idxOf v) j = 0 := by
          rw [hn1, hk0]; unfold collapse; split <;> omega
        rw [c1, c2]; simp [aplus]
      rw [nsiNewman_complete _ hall _ ends _ (by simpa [subGr, split] using hidx),
        totalW_split _ _ _ (by simpa [subGr] using hiv)]
      have htw : totalW (subGr G nodes) = G.w v := by
        unfold totalW sumR
        rw [subGr_n, hone]
        simp [subGr]
      rw [htw]
    · -- a component with at least two nodes: the theorem for connected networks
      have hlen' : ¬ (compNodes (split G v p) a).length < 2 := by
        rw [hcomp, List.length_append]; simp; omega
      rw [newmanAt_sub _ Tof ends a hlen', newmanAt_sub G Tof ends _ (by rw [← hnodes]; exact hlen),
        hcomp, ← hnodes]
      rw [hcomp] at hR
      rw [nsiNewman_congr hRE _ _ (fun _ _ _ _ => rfl) ends _ (by simpa [subGr] using hpos.1)]
      have hR' := solvesR_congr hRE _ hR
      have := nsiNewman_split_lemma (subGr G nodes) (nodes.idxOf v) p (by simpa [subGr] using hiv)
        hp0 hp1 (subGr_weights_pos G nodes hlt hw) (subGr_loopfree G nodes hloop)
        (Tof (subGr G nodes)) (Tof (subGr (split G v p) (nodes ++ [G.n]))) hL hR' ends
        ((nodes ++ [G.n]).idxOf a) (by simpa [subGr] using hpos.1)
      rw [this]
      congr 1
      exact hpos.2
  · -- another component: handed over unchanged
    have hr' : (bfsDist G (collapse G.n v a) v).isSome = false := by
      cases hh : (bfsDist G (collapse G.n v a) v).isSome <;> simp_all
    have hvm : v ∉ nodes := fun h => hr ((mem_compNodes G _ v).mp h).2
    rw [hr'] at hcomp
    simp only [Bool.false_eq_true, if_false, List.append_nil] at hcomp
    have hav : collapse G.n v a ≠ v := fun h => hvm (h ▸ hself)
    have han : a ≠ G.n := fun h => hav (by rw [h, collapse_self])
    have ha' : a < G.n := by omega
    have hca' : collapse G.n v a = a := collapse_lt _ _ _ ha'
    rw [hca'] at hav hself ⊢
    have hRE : RangeEq (subGr (split G v p) nodes) (subGr G nodes) :=
      ⟨rfl, fun i j hi hj => (subGr_split_other G v p nodes hlt hvm i j hi hj).2.2,
        fun i hi => (subGr_split_other G v p nodes hlt hvm i i hi hi).2.1⟩
    by_cases hlen : nodes.length < 2
    · rw [newmanAt_single _ Tof ends a (by rw [hcomp]; exact hlen),
        newmanAt_single G Tof ends a (by rw [← hca', ← hnodes]; exact hlen)]
      have : (split G v p).w a = G.w a := by
        rw [split_w_eq, if_neg han, if_neg hav]
      rw [this]
    · have hi : nodes.idxOf a < nodes.length := List.idxOf_lt_length_iff.mpr hself
      have hnodes' : compNodes G a = nodes := by rw [hnodes, hca']
      rw [newmanAt_sub _ Tof ends a (by rw [hcomp]; exact hlen),
        newmanAt_sub G Tof ends a (by rw [hnodes']; exact hlen), hcomp, hnodes']
      exact nsiNewman_congr hRE _ _ (hTcongr _ _ hRE) ends _ hi

end Pyunicorn.Nsi
