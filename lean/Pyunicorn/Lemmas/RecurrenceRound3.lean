import Pyunicorn.Lemmas.RecurrenceAffine
import Pyunicorn.Model.RecurrenceRqa
/-!
Round 3 lemmas for C07: the generated pruning of `JointRecurrencePlot.__init__`, the decision
of the sequential (`sparse_rqa`) kernels, `np.delete` of missing states, the distance of two
states after a column-wise normalisation.
-/
namespace Pyunicorn.Recurrence
open Pyunicorn.Generated

/-! ### `x_embedded[:min_N, :]` -/

theorem pySlice_zero_nat {α : Type} (l : List α) (k : Nat) : pySlice l 0 (k : Int) = l.take k := by
  unfold pySlice
  have h0 : pyBound 0 l.length = 0 := by simp [pyBound]
  rw [h0, pyBound_nat]
  simp only [List.drop_zero, Nat.sub_zero]
  by_cases h : k ≤ l.length
  · rw [Nat.min_eq_left h]
  · have h' : l.length ≤ k := by omega
    rw [Nat.min_eq_right h', List.take_of_length_le (Nat.le_refl _), List.take_of_length_le h']

/-- the generated pruning is "keep the first `min(N_x, N_y)` state vectors of both" -/
theorem jointPruned_eq (ex ey : List (List V)) :
    jointPruned ex ey
      = (ex.take (min ex.length ey.length), ey.take (min ex.length ey.length)) := by
  unfold jointPruned
  simp only [ArithC07.jrpMinN, ArithC07.jrpPruneXHi, ArithC07.jrpPruneYHi]
  have h : (min (ex.length : Int) (ey.length : Int)) = ((min ex.length ey.length : Nat) : Int) := by
    omega
  rw [h, pySlice_zero_nat, pySlice_zero_nat]

/-- the two generated guards: equal raw lengths and `|lag| ≤ len(x)` -/
theorem jointGuard_iff (nRaw nRawY : Nat) (lag : Int) :
    jointGuard nRaw nRawY lag = true ↔ nRaw = nRawY ∧ lag.natAbs ≤ nRaw := by
  unfold jointGuard ArithC07.jrpSameLength ArithC07.jrpLagTooLarge
  simp only [Bool.and_eq_true, decide_eq_true_eq, Bool.not_eq_true', decide_eq_false_iff_not]
  omega

/-! ### sequential RQA: `metric_supremum(I, j) < eps` is the entry of the stored matrix -/

theorem absdiff_self (x : V) : absdiff x x = some 0 ∨ absdiff x x = none := by
  cases x with
  | none => right; rfl
  | some q => left; simp [absdiff]

theorem sup_fold_zero (ds : List V) (h : ∀ t ∈ ds, t = some 0 ∨ t = none) :
    ds.foldl (fun acc t => if gtV t acc then t else acc) (some (0 : Rat)) = some 0 := by
  induction ds with
  | nil => rfl
  | cons d ds ih =>
    simp only [List.foldl_cons]
    have hd : (if gtV d (some (0 : Rat)) then d else some 0) = some 0 := by
      rcases h d (by simp) with h1 | h1 <;> subst h1 <;> simp [gtV]
    rw [hd]
    exact ih (fun t ht => h t (by simp [ht]))

/-- the supremum kernel gives distance `0` from a state to itself — also when the state holds
missing values (a NaN component is skipped by `tmp_diff > diff`) -/
theorem dist_sup_self (a : List V) : dist .supremum a a = some 0 := by
  unfold dist
  apply sup_fold_zero
  intro t ht
  induction a with
  | nil => simp at ht
  | cons x xs ih =>
    simp only [List.zipWith_cons_cons, List.mem_cons] at ht
    rcases ht with rfl | ht
    · exact absdiff_self x
    · exact ih ht

theorem seqRec_eq (emb : List (List V)) (eps : Rat) (I j : Nat) :
    seqRec emb eps I j = ltV (rpEntry .supremum emb I j) (some (unitThr .supremum eps)) := by
  unfold seqRec
  simp only [unitThr]
  by_cases h : I = j
  · subst h
    rw [dist_sup_self]
    simp [rpEntry]
  · unfold rpEntry
    by_cases h1 : j < I
    · simp [h1]
    · have h2 : I < j := by omega
      simp [h1, h2, dist_comm]

/-! ### `np.delete(A, where(mask), axis=0/1)` -/

/-- the states that are kept, in order -/
def keptIdx (M : List Bool) (n : Nat) : List Nat :=
  (List.range n).filter fun i => !(M.getD i false)

theorem filterMap_zipIdx_keep {α : Type} (l : List α) (M : List Bool) (k : Nat) :
    (l.zipIdx k).filterMap (fun (p : α × Nat) => if M.getD p.2 false then none else some p.1)
      = ((List.range' k l.length).filter fun i => !(M.getD i false)).filterMap
          fun i => l[i - k]? := by
  induction l generalizing k with
  | nil => simp
  | cons x xs ih =>
    simp only [List.zipIdx_cons, List.length_cons, List.range'_succ]
    by_cases hm : M.getD k false = true
    · simp only [List.filterMap_cons, hm, if_true, List.filter_cons, Bool.not_true,
        Bool.false_eq_true, if_false]
      rw [ih (k + 1)]
      apply List.filterMap_congr
      intro i hi
      have hik : k + 1 ≤ i := by
        have := (List.mem_filter.mp hi).1
        simp [List.mem_range'] at this
        omega
      have : i - k = (i - (k + 1)) + 1 := by omega
      rw [this, List.getElem?_cons_succ]
    · have hm' : M.getD k false = false := by simpa using hm
      simp only [List.filterMap_cons, hm', Bool.false_eq_true, if_false, List.filter_cons,
        Bool.not_false, if_true, Nat.sub_self, List.getElem?_cons_zero]
      rw [ih (k + 1)]
      congr 1
      apply List.filterMap_congr
      intro i hi
      have hik : k + 1 ≤ i := by
        have := (List.mem_filter.mp hi).1
        simp [List.mem_range'] at this
        omega
      have : i - k = (i - (k + 1)) + 1 := by omega
      rw [this, List.getElem?_cons_succ]

/-- keeping the unmasked positions of a list of length `n` -/
theorem keep_eq_map {α : Type} (l : List α) (M : List Bool) (d : α) :
    (l.zipIdx).filterMap (fun (p : α × Nat) => if M.getD p.2 false then none else some p.1)
      = (keptIdx M l.length).map fun i => l.getD i d := by
  have h := filterMap_zipIdx_keep l M 0
  simp only [Nat.sub_zero] at h
  rw [h, keptIdx, List.range_eq_range']
  rw [← List.filterMap_eq_map]
  apply List.filterMap_congr
  intro i hi
  have hlt : i < l.length := by
    have := (List.mem_filter.mp hi).1
    simp [List.mem_range'] at this
    omega
  simp [List.getD, List.getElem?_eq_getElem hlt]

/-- **`np.delete` of the masked rows and columns of an `n×n` matrix is the sub-matrix on the kept
states** -/
theorem deleteMasked_eq (A : List (List Bool)) (M : List Bool) (n : Nat) (hA : A.length = n)
    (hrow : ∀ r ∈ A, r.length = n) :
    deleteMasked A M
      = (keptIdx M n).map fun i => (keptIdx M n).map fun j => (A.getD i []).getD j false := by
  unfold deleteMasked
  simp only []
  rw [keep_eq_map A M [], hA, List.map_map]
  apply List.map_congr_left
  intro i hi
  simp only [Function.comp]
  have hi' : i < n := by
    have := (List.mem_filter.mp hi).1
    simpa using this
  have hr : (A.getD i []).length = n := by
    apply hrow
    simp [List.getD, List.getElem?_eq_getElem (by omega : i < A.length)]
  rw [keep_eq_map (A.getD i []) M false, hr]

theorem keptIdx_length (M : List Bool) (n : Nat) :
    (keptIdx M n).length = n - ((List.range n).filter fun i => M.getD i false).length := by
  unfold keptIdx
  have h := List.length_eq_length_filter_add (l := List.range n) (fun i => M.getD i false)
  simp only [List.length_range] at h
  omega

/-! ### column-wise normalisation: a weighted distance of the raw states -/

theorem zipWith_absdiff_affRow (mu sd : List Rat) (hsd : ∀ s ∈ sd, 0 < s) (a b : List V)
    (hmu : mu.length = sd.length) :
    List.zipWith absdiff (affRow mu sd a) (affRow mu sd b) = wdiffs sd a b := by
  unfold affRow wdiffs
  induction a generalizing b mu sd with
  | nil => simp
  | cons x xs ih =>
    cases b with
    | nil => simp
    | cons y ys =>
      cases mu with
      | nil =>
        cases sd with
        | nil => simp
        | cons s ss => simp at hmu
      | cons m ms =>
        cases sd with
        | nil => simp at hmu
        | cons s ss =>
          simp only [List.zip_cons_cons, List.zipWith_cons_cons]
          rw [absdiff_affV m s (hsd s (by simp)) x y]
          congr 1
          exact ih ms ss (fun t ht => hsd t (by simp [ht])) ys (by simpa using hmu)

/-- **distance of two normalised states** = the kernel's loop on the raw differences
`|a_l − b_l| / σ_l`: the normalised plot is a thresholded *weighted* distance matrix of the given
series (weights `1/σ_l`, no dependence on the means) -/
theorem dist_affRow (m : Metric) (mu sd : List Rat) (hsd : ∀ s ∈ sd, 0 < s)
    (hmu : mu.length = sd.length) (a b : List V) :
    dist m (affRow mu sd a) (affRow mu sd b) = distW m sd a b := by
  unfold dist distW
  rw [zipWith_absdiff_affRow mu sd hsd a b hmu]

end Pyunicorn.Recurrence
