import Pyunicorn.Lemmas.NsiBetwKernel
import Pyunicorn.Lemmas.CrossR4
import Pyunicorn.Lemmas.CrossBetw
/-!
Round 5d (C11): the (n.s.i.) betweenness is symmetric in the source and the target set on every
undirected network.

C02's definition `Nsi.nsiBetw G S T v = Σ_s Σ_t w_s w_t [s ≠ v ≠ t, s ∈ S, t ∈ T] bcTerm G v s t`
is a double sum over weighted *walk counts* (`wcount`).  On a symmetric adjacency matrix a walk can
be reversed, so `w_a · wcount k a b = w_b · wcount k b a` (`wcount_rev`; the count carries the
weights of all nodes but the first), hence the pair term `bcTerm` is symmetric in its end points
(`bcTerm_symm`) and the double sum can be exchanged (`nsiBetw_symm`).  With
`kernel_eq_nsiBetw_net` (C02/C03: kernel model of `_nsi_betweenness` = `nsiBetw`) this is a
statement about the model of the code (`kernel_symm`).
-/
namespace Pyunicorn.Nsi
open Pyunicorn.NetBetw

/-- **reversal of weighted walk counts**: on a symmetric adjacency matrix
`w_a · wcount k a b = w_b · wcount k b a` (both sides: the sum over the walks of length `k` between
`a` and `b` of the product of the weights of ALL their nodes).  No hypothesis on the weights. -/
theorem wcount_rev (G : Gr) (hsym : ∀ x y, G.adj x y = G.adj y x) (k : Nat) :
    ∀ a b, a < G.n → b < G.n → G.w a * wcount G k a b = G.w b * wcount G k b a := by
  induction k with
  | zero =>
    intro a b _ _
    by_cases e : a = b
    · subst e; rfl
    · have e' : ¬ b = a := fun h => e h.symm
      simp [wcount, e, e']
  | succ k ih =>
    intro a b ha hb
    rw [wcount_unfold G k a b, wcount_last G k b a hb ha]
    have h1 : ∀ c, c < G.n → G.w c * (if G.adj a c = true then wcount G k c b else 0)
        = (if G.adj c a = true then wcount G k b c else 0) * G.w b := by
      intro c hc
      rw [hsym a c]
      by_cases h : G.adj c a = true
      · simp only [h, if_true]
        rw [ih c b hc hb, mul_comm]
      · simp [h]
    rw [Net.sumToQ_congrLt _ _ _ h1, Net.sumToQ_mul_right']
    ring

/-- the pair term of the betweenness is symmetric in the end points of the pair (undirected
network, symmetric distances, non-zero weights at the three nodes) -/
theorem bcTerm_symm (G : Gr) (hsym : ∀ x y, G.adj x y = G.adj y x)
    (hdist : ∀ a b, a < G.n → b < G.n → G.dist a b = G.dist b a)
    (hw : ∀ k, k < G.n → 0 < G.w k) (i s t : Nat) (hi : i < G.n) (hs : s < G.n) (ht : t < G.n) :
    bcTerm G i s t = bcTerm G i t s := by
  unfold bcTerm
  rw [hdist t i ht hi, hdist i s hi hs, hdist t s ht hs]
  cases h1 : G.dist s i with
  | none => cases h2 : G.dist i t <;> cases h3 : G.dist s t <;> rfl
  | some d1 =>
    cases h2 : G.dist i t with
    | none => cases h3 : G.dist s t <;> rfl
    | some d2 =>
      cases h3 : G.dist s t with
      | none => rfl
      | some d =>
        simp only []
        by_cases hd : d1 + d2 = d
        · have hd' : d2 + d1 = d := by omega
          simp only [hd, hd', if_true]
          have hwi : G.w i ≠ 0 := ne_of_gt (hw i hi)
          have hws : G.w s ≠ 0 := ne_of_gt (hw s hs)
          have hwt : G.w t ≠ 0 := ne_of_gt (hw t ht)
          have e1 := wcount_rev G hsym d1 s i hs hi
          have e2 := wcount_rev G hsym d2 i t hi ht
          have e3 := wcount_rev G hsym d s t hs ht
          have f1 : wcount G d1 s i = G.w i * wcount G d1 i s / G.w s := by
            rw [← e1]; field_simp
          have f2 : wcount G d2 i t = G.w t * wcount G d2 t i / G.w i := by
            rw [← e2]; field_simp
          have f3 : wcount G d s t = G.w t * wcount G d t s / G.w s := by
            rw [← e3]; field_simp
          rw [f1, f2, f3]
          by_cases hz : wcount G d t s = 0
          · simp [hz]
          · field_simp
        · have hd' : ¬ d2 + d1 = d := by omega
          simp [hd, hd']

/-- **the n.s.i. betweenness is symmetric in the source and the target set** on every undirected
network with symmetric distances and positive weights -/
theorem nsiBetw_symm (G : Gr) (hsym : ∀ x y, G.adj x y = G.adj y x)
    (hdist : ∀ a b, a < G.n → b < G.n → G.dist a b = G.dist b a)
    (hw : ∀ k, k < G.n → 0 < G.w k) (S T : Nat → Bool) (i : Nat) (hi : i < G.n) :
    nsiBetw G S T i = nsiBetw G T S i := by
  have hL : ∀ (S T : Nat → Bool), nsiBetw G S T i
      = Net.sumToQ G.n fun s => Net.sumToQ G.n fun t => G.w s * (G.w t *
          (if s ≠ i ∧ t ≠ i ∧ S s = true ∧ T t = true then bcTerm G i s t else 0)) := by
    intro S T
    show Net.sumToQ G.n _ = _
    apply Net.sumToQ_congrLt
    intro s _
    show G.w s * Net.sumToQ G.n _ = _
    rw [Net.sumToQ_mul_left']
  rw [hL S T, hL T S, Net.sumToQ_comm']
  apply Net.sumToQ_congrLt
  intro t ht
  apply Net.sumToQ_congrLt
  intro s hs
  rw [bcTerm_symm G hsym hdist hw i s t hi hs ht]
  by_cases c : s ≠ i ∧ t ≠ i ∧ S s = true ∧ T t = true
  · have c' : t ≠ i ∧ s ≠ i ∧ T t = true ∧ S s = true := ⟨c.2.1, c.1, c.2.2.2, c.2.2.1⟩
    rw [if_pos c, if_pos c']; ring
  · have c' : ¬ (t ≠ i ∧ s ≠ i ∧ T t = true ∧ S s = true) :=
      fun h => c ⟨h.2.1, h.1, h.2.2.2, h.2.2.1⟩
    rw [if_neg c, if_neg c']; ring

/-- **the kernel model of `_nsi_betweenness` is symmetric in sources and targets**: on every
undirected network with positive node weights, source set `S` and target set `T` (targets in
increasing order), exchanging the roles of the two sets leaves every entry unchanged -/
theorem kernel_symm (G : Gr) (hsym : ∀ x y, G.adj x y = G.adj y x)
    (hw : ∀ k, k < G.n → 0 < G.w k) (S T : Nat → Bool) (v : Nat) (hv : v < G.n) :
    (nsiBetweenness G.n G.adj G.w ((List.range G.n).map S) ((List.range G.n).filter T)).getD v 0
      = (nsiBetweenness G.n G.adj G.w ((List.range G.n).map T) ((List.range G.n).filter S)).getD v 0 := by
  rw [kernel_eq_nsiBetw_net G hsym hw S T v hv, kernel_eq_nsiBetw_net G hsym hw T S v hv]
  exact nsiBetw_symm (withNetDist G) hsym
    (fun a b ha hb => Pyunicorn.Cross.dist_symm G.n G.adj hsym a b ha hb) hw T S v hv

end Pyunicorn.Nsi
