import Pyunicorn.Model.Similarity
import Mathlib.Algebra.Order.Field.Rat
import Mathlib.Algebra.Order.Field.Power
import Mathlib.Tactic.Linarith
import Mathlib.Tactic.Ring
import Mathlib.Tactic.FieldSimp
import Mathlib.Tactic.Positivity
/-!
# Error analysis of the rational IEEE-754 model `rn53` / `ieeeIndex` (C09)

`rn53 x` differs from `x ≥ 0` by at most `x · 2⁻⁵³`; hence the quantile index
`int((1 - ρ) * len)` evaluated with two roundings lies within `len · (2⁻⁵² + 2⁻¹⁰⁶)` of the
interval `[(1-ρ)·len − 1, (1-ρ)·len]` that contains the exact floor.
-/
namespace Pyunicorn.Similarity

theorem twoPow_eq_zpow (z : Int) : twoPow z = (2 : ℚ) ^ z := by
  unfold twoPow
  split
  · rename_i h
    obtain ⟨n, rfl⟩ := Int.eq_ofNat_of_zero_le h
    simp
  · rename_i h
    have hz : 0 ≤ -z := by omega
    obtain ⟨n, hn⟩ := Int.eq_ofNat_of_zero_le hz
    have : z = -(n : Int) := by omega
    subst this
    simp

theorem twoPow_pos (z : Int) : 0 < twoPow z := by
  rw [twoPow_eq_zpow]; positivity

theorem twoPow_sub52 (e : Int) : twoPow (e - 52) = twoPow e / 2 ^ 52 := by
  rw [twoPow_eq_zpow, twoPow_eq_zpow, zpow_sub₀ (by norm_num : (2 : ℚ) ≠ 0)]
  norm_num

/-- rounding to the nearest integer moves by at most one half -/
theorem roundHalfEven_err (x : ℚ) : |((roundHalfEven x : Int) : ℚ) - x| ≤ 1 / 2 := by
  have h1 := Rat.floor_le x
  have h2 := Rat.lt_floor_add_one x
  have h3 : (((x.floor + 1 : Int)) : ℚ) = (x.floor : ℚ) + 1 := by push_cast; ring
  rw [h3] at h2
  unfold roundHalfEven
  simp only
  rw [abs_le]
  split
  · constructor <;> linarith
  · split
    · rw [h3]; constructor <;> linarith
    · split
      · constructor <;> linarith
      · rw [h3]; constructor <;> linarith

/-- the binary exponent is not too large: `2^e ≤ x` -/
theorem twoPow_binExp_le (x : ℚ) (hx : 0 < x) : twoPow (binExp x) ≤ x := by
  unfold binExp
  simp only
  split
  · assumption
  · -- 2^(log2 n - log2 d - 1) ≤ n / d
    have hn : 0 < x.num := Rat.num_pos.2 hx
    have hn' : x.num.toNat ≠ 0 := by omega
    have hd : x.den ≠ 0 := x.den_nz
    have a1 : 2 ^ (Nat.log2 x.num.toNat) ≤ x.num.toNat := Nat.log2_self_le hn'
    have a2 : x.den < 2 ^ (Nat.log2 x.den + 1) := Nat.lt_log2_self
    have a1q : (2 : ℚ) ^ (Nat.log2 x.num.toNat) ≤ (x.num : ℚ) := by
      have : ((2 ^ (Nat.log2 x.num.toNat) : Nat) : ℚ) ≤ ((x.num.toNat : Nat) : ℚ) := by
        exact_mod_cast a1
      have e : ((x.num.toNat : Nat) : ℚ) = (x.num : ℚ) := by
        have : ((x.num.toNat : Nat) : Int) = x.num := Int.toNat_of_nonneg (le_of_lt hn)
        exact_mod_cast congrArg (fun z : Int => (z : ℚ)) this
      rw [e] at this
      simpa using this
    have a2q : (x.den : ℚ) ≤ (2 : ℚ) ^ (Nat.log2 x.den + 1) := by
      have : ((x.den : Nat) : ℚ) ≤ ((2 ^ (Nat.log2 x.den + 1) : Nat) : ℚ) := by
        exact_mod_cast le_of_lt a2
      simpa using this
    rw [twoPow_eq_zpow]
    have hdq : (0 : ℚ) < (x.den : ℚ) := by exact_mod_cast Nat.pos_of_ne_zero hd
    have hx' : x = (x.num : ℚ) / (x.den : ℚ) := (Rat.num_div_den x).symm
    have e1 : ((Nat.log2 x.num.toNat : Int) - (Nat.log2 x.den : Int) - 1)
        = (Nat.log2 x.num.toNat : Int) - ((Nat.log2 x.den + 1 : Nat) : Int) := by push_cast; ring
    rw [e1, zpow_sub₀ (by norm_num : (2 : ℚ) ≠ 0), zpow_natCast, zpow_natCast]
    conv_rhs => rw [hx']
    have hp : (0 : ℚ) < (2 : ℚ) ^ (Nat.log2 x.den + 1) := by positivity
    rw [div_le_div_iff₀ hp hdq]
    have hnum : (0 : ℚ) ≤ (2 : ℚ) ^ (Nat.log2 x.num.toNat) := by positivity
    calc (2 : ℚ) ^ (Nat.log2 x.num.toNat) * (x.den : ℚ)
        ≤ (2 : ℚ) ^ (Nat.log2 x.num.toNat) * (2 : ℚ) ^ (Nat.log2 x.den + 1) :=
          mul_le_mul_of_nonneg_left a2q hnum
      _ ≤ (x.num : ℚ) * (2 : ℚ) ^ (Nat.log2 x.den + 1) :=
          mul_le_mul_of_nonneg_right a1q (le_of_lt hp)

/-- **relative error of one rounding**: `|rn53 x − x| ≤ x · 2⁻⁵³` for `x ≥ 0` -/
theorem rn53_err (x : ℚ) (hx : 0 ≤ x) : |rn53 x - x| ≤ x / 2 ^ 53 := by
  unfold rn53
  split
  · have : x = 0 := le_antisymm (by assumption) hx
    subst this; simp
  · rename_i hpos
    have hx0 : 0 < x := lt_of_not_ge hpos
    simp only
    set ulp := twoPow (binExp x - 52) with hulp
    have hup : 0 < ulp := twoPow_pos _
    have hr := roundHalfEven_err (x / ulp)
    have hle : ulp ≤ x / 2 ^ 52 := by
      rw [hulp, twoPow_sub52]
      exact div_le_div_of_nonneg_right (twoPow_binExp_le x hx0) (by positivity)
    have key : ((roundHalfEven (x / ulp) : Int) : ℚ) * ulp - x
        = (((roundHalfEven (x / ulp) : Int) : ℚ) - x / ulp) * ulp := by
      field_simp
    rw [key, abs_mul, abs_of_pos hup]
    calc |((roundHalfEven (x / ulp) : Int) : ℚ) - x / ulp| * ulp ≤ (1 / 2) * ulp :=
          mul_le_mul_of_nonneg_right hr (le_of_lt hup)
      _ ≤ (1 / 2) * (x / 2 ^ 52) := mul_le_mul_of_nonneg_left hle (by norm_num)
      _ = x / 2 ^ 53 := by ring

/-- the slack of the IEEE evaluation of the quantile index, per off-diagonal entry -/
def ieeeSlack : ℚ := 1 / 2 ^ 52 + 1 / 2 ^ 106

/-- **the IEEE quantile index is within `len · (2⁻⁵² + 2⁻¹⁰⁶)` of the exact floor's interval** -/
theorem ieeeIndex_bounds' (ρ : ℚ) (len : Nat) (h0 : 0 ≤ ρ) (h1 : ρ ≤ 1) :
    (1 - ρ) * (len : ℚ) - 1 - (len : ℚ) * ieeeSlack ≤ (ieeeIndex ρ len : ℚ) ∧
      (ieeeIndex ρ len : ℚ) ≤ (1 - ρ) * (len : ℚ) + (len : ℚ) * ieeeSlack := by
  have ha : 0 ≤ 1 - ρ := by linarith
  have ha1 : 1 - ρ ≤ 1 := by linarith
  have hL : (0 : ℚ) ≤ (len : ℚ) := by exact_mod_cast Nat.zero_le len
  have e1 := abs_le.1 (rn53_err (1 - ρ) ha)
  set a := 1 - ρ with hadef
  set y1 := rn53 a with hy1
  have hy1nn : 0 ≤ y1 := by
    have : a / 2 ^ 53 ≤ a := div_le_self ha (by norm_num)
    linarith [e1.1]
  have hprod : 0 ≤ y1 * (len : ℚ) := mul_nonneg hy1nn hL
  have e2 := abs_le.1 (rn53_err (y1 * (len : ℚ)) hprod)
  set y2 := rn53 (y1 * (len : ℚ)) with hy2
  -- |y2 - a len| ≤ len * slack
  have hy1le : y1 ≤ a + a / 2 ^ 53 := by linarith [e1.2]
  have hy1ge : a - a / 2 ^ 53 ≤ y1 := by linarith [e1.1]
  have b1 : y1 * (len : ℚ) ≤ (a + a / 2 ^ 53) * (len : ℚ) := mul_le_mul_of_nonneg_right hy1le hL
  have b2 : (a - a / 2 ^ 53) * (len : ℚ) ≤ y1 * (len : ℚ) := mul_le_mul_of_nonneg_right hy1ge hL
  have hal : a * (len : ℚ) ≤ (len : ℚ) := by
    calc a * (len : ℚ) ≤ 1 * (len : ℚ) := mul_le_mul_of_nonneg_right ha1 hL
      _ = (len : ℚ) := one_mul _
  have hal0 : 0 ≤ a * (len : ℚ) := mul_nonneg ha hL
  have up : y2 ≤ a * (len : ℚ) + (len : ℚ) * ieeeSlack := by
    have : y2 ≤ y1 * (len : ℚ) + y1 * (len : ℚ) / 2 ^ 53 := by linarith [e2.2]
    have t : y1 * (len : ℚ) + y1 * (len : ℚ) / 2 ^ 53
        ≤ (a + a / 2 ^ 53) * (len : ℚ) + (a + a / 2 ^ 53) * (len : ℚ) / 2 ^ 53 := by
      have := div_le_div_of_nonneg_right b1 (by norm_num : (0 : ℚ) ≤ 2 ^ 53)
      linarith
    have s : (a + a / 2 ^ 53) * (len : ℚ) + (a + a / 2 ^ 53) * (len : ℚ) / 2 ^ 53
        = a * (len : ℚ) + (a * (len : ℚ)) * ieeeSlack := by
      unfold ieeeSlack; ring
    have : (a * (len : ℚ)) * ieeeSlack ≤ (len : ℚ) * ieeeSlack :=
      mul_le_mul_of_nonneg_right hal (by unfold ieeeSlack; positivity)
    linarith
  have lo : a * (len : ℚ) - (len : ℚ) * ieeeSlack ≤ y2 := by
    have : y1 * (len : ℚ) - y1 * (len : ℚ) / 2 ^ 53 ≤ y2 := by linarith [e2.1]
    have t : (a - a / 2 ^ 53) * (len : ℚ) - (a + a / 2 ^ 53) * (len : ℚ) / 2 ^ 53
        ≤ y1 * (len : ℚ) - y1 * (len : ℚ) / 2 ^ 53 := by
      have := div_le_div_of_nonneg_right b1 (by norm_num : (0 : ℚ) ≤ 2 ^ 53)
      linarith
    have s : (a - a / 2 ^ 53) * (len : ℚ) - (a + a / 2 ^ 53) * (len : ℚ) / 2 ^ 53
        = a * (len : ℚ) - (a * (len : ℚ)) * ieeeSlack := by
      unfold ieeeSlack; ring
    have : (a * (len : ℚ)) * ieeeSlack ≤ (len : ℚ) * ieeeSlack :=
      mul_le_mul_of_nonneg_right hal (by unfold ieeeSlack; positivity)
    linarith
  -- the floor
  have hy2nn : 0 ≤ y2 := by
    have : y1 * (len : ℚ) / 2 ^ 53 ≤ y1 * (len : ℚ) := div_le_self hprod (by norm_num)
    linarith [e2.1]
  have hf0 : 0 ≤ y2.floor := Rat.le_floor_iff.2 (by simpa using hy2nn)
  have hk : ((ieeeIndex ρ len : Nat) : ℚ) = ((y2.floor : Int) : ℚ) := by
    have : ((y2.floor.toNat : Nat) : Int) = y2.floor := Int.toNat_of_nonneg hf0
    have h' : ieeeIndex ρ len = y2.floor.toNat := rfl
    rw [h']
    exact_mod_cast congrArg (fun z : Int => (z : ℚ)) this
  have f1 := Rat.floor_le y2
  have f2 := Rat.lt_floor_add_one y2
  have f3 : (((y2.floor + 1 : Int)) : ℚ) = (y2.floor : ℚ) + 1 := by push_cast; ring
  rw [f3] at f2
  rw [hk]
  constructor <;> linarith

end Pyunicorn.Similarity
