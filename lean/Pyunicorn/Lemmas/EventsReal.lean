import Mathlib.Analysis.Real.Sqrt
import Pyunicorn.Model.Events
/-! C16: the final division `count / sqrt((lx-2)(ly-2))` of `event_synchronization`
over the real numbers (the executable model returns the count and the squared norm). -/
namespace Pyunicorn.Events

/-- the value the code returns for a count `c` and squared norm `n` -/
noncomputable def strength (c : Rat) (n : Nat) : ℝ := (c : ℝ) / Real.sqrt (n : ℝ)

theorem strength_unit_interval (c : Rat) (n : Nat) (h0 : 0 ≤ c) (h1 : c * c ≤ (n : Rat)) :
    0 ≤ strength c n ∧ strength c n ≤ 1 := by
  have hc : (0 : ℝ) ≤ (c : ℝ) := by exact_mod_cast h0
  have hcc : (c : ℝ) * (c : ℝ) ≤ (n : ℝ) := by exact_mod_cast h1
  refine ⟨div_nonneg hc (Real.sqrt_nonneg _), ?_⟩
  unfold strength
  apply div_le_one_of_le₀ _ (Real.sqrt_nonneg _)
  apply Real.le_sqrt_of_sq_le
  rw [sq]; exact hcc

/-- the symmetrisation table over the reals (what NumPy applies to the float matrix) -/
noncomputable def symmOpR : Symm → ℝ → ℝ → ℝ
  | .directed, a, _ => a
  | .symmetric, a, b => a + b
  | .antisym, a, b => a - b
  | .mean, a, b => (a + b) / 2
  | .max, a, b => max a b
  | .min, a, b => min a b

theorem cast_symmOp (s : Symm) (x y : Rat) :
    ((symmOp s x y : Rat) : ℝ) = symmOpR s (x : ℝ) (y : ℝ) := by
  cases s <;> simp only [symmOp, symmOpR]
  · push_cast; ring
  · push_cast; ring
  · push_cast; ring
  · rcases le_total x y with h | h
    · have h' : (x : ℝ) ≤ (y : ℝ) := by exact_mod_cast h
      rw [max_eq_right h', show max x y = y from by grind]
    · have h' : (y : ℝ) ≤ (x : ℝ) := by exact_mod_cast h
      rw [max_eq_left h', show max x y = x from by grind]
  · rcases le_total x y with h | h
    · have h' : (x : ℝ) ≤ (y : ℝ) := by exact_mod_cast h
      rw [min_eq_left h', show min x y = x from by grind]
    · have h' : (y : ℝ) ≤ (x : ℝ) := by exact_mod_cast h
      rw [min_eq_right h', show min x y = y from by grind]

/-- symmetrising the two strengths of one pair (same norm) is symmetrising the counts:
`x/c op y/c = (x op y)/c` for every entry of the table -/
theorem symmOpR_strength (s : Symm) (x y : Rat) (n : Nat) :
    symmOpR s (strength x n) (strength y n) = strength (symmOp s x y) n := by
  unfold strength
  rw [cast_symmOp]
  have hc : (0 : ℝ) ≤ Real.sqrt (n : ℝ) := Real.sqrt_nonneg _
  cases s <;> simp only [symmOpR]
  · ring
  · ring
  · ring
  · exact (max_div_div_right hc _ _)
  · exact (min_div_div_right hc _ _)

/-- `directed`, `mean`, `max`, `min` keep real values inside any interval containing both
entries (the table as NumPy applies it to the float matrix) -/
theorem symmOpR_between (s : Symm) (hs : s = .directed ∨ s = .mean ∨ s = .max ∨ s = .min)
    (a b lo hi : ℝ) (ha : lo ≤ a ∧ a ≤ hi) (hb : lo ≤ b ∧ b ≤ hi) :
    lo ≤ symmOpR s a b ∧ symmOpR s a b ≤ hi := by
  rcases hs with rfl | rfl | rfl | rfl <;> simp only [symmOpR]
  · exact ha
  · constructor <;> linarith [ha.1, ha.2, hb.1, hb.2]
  · exact ⟨le_max_of_le_left ha.1, max_le ha.2 hb.2⟩
  · exact ⟨le_min ha.1 hb.1, min_le_of_left_le ha.2⟩

end Pyunicorn.Events
