import Pyunicorn.Model.Memo
/-! Invariant of the memoisation machine (core Lean only). -/
namespace Pyunicorn.Memo

/-- the snapshot `(c0, st0)` under which an entry was computed, related to the present:
counters and stamps only grew, and if the key still matches then nothing the method
reads has been rewritten. -/
def Rel (m : Method) (c0 st0 : Nat → Nat) (s : State) : Prop :=
  (∀ c ∈ m.keyCtrs, c0 c ≤ s.ctr c) ∧ (∀ f, st0 f ≤ s.stamp f) ∧
  ((∀ c ∈ m.keyCtrs, c0 c = s.ctr c) → (∀ f ∈ m.keyFlds, st0 f = s.stamp f) →
    ∀ f ∈ m.reads, st0 f = s.stamp f)

def Inv (t : Table) (s : State) : Prop :=
  (∀ f, s.stamp f ≤ s.clock) ∧
  ∀ e ∈ s.cache, ∀ m, t.methods[e.m]? = some m →
    ∃ c0 st0, e.kctr = m.keyCtrs.map c0 ∧ e.kfld = m.keyFlds.map st0 ∧
      e.val = m.reads.map st0 ∧ Rel m c0 st0 s

theorem inv_init (t : Table) : Inv t State.init := by
  constructor
  · intro f; simp [State.init]
  · intro e he; simp [State.init] at he

theorem rel_refl (m : Method) (s : State) : Rel m s.ctr s.stamp s :=
  ⟨fun _ _ => Nat.le_refl _, fun _ => Nat.le_refl _, fun _ _ _ _ => rfl⟩

theorem wf_covered (t : Table) (h : wf t = true) (m : Method) (o : Mutator)
    (hm : m ∈ t.methods) (ho : o ∈ t.mutators) :
    covered m o = true ∧ ∀ c ∈ o.resets, c ∉ m.keyCtrs := by
  simp only [wf, noKeyReset, Bool.and_eq_true, List.all_eq_true] at h
  refine ⟨h.1 m hm o ho, ?_⟩
  intro c hc hmem
  have := h.2 o ho c hc m hm
  simp [hmem] at this

/-- **preservation**: a mutator that is `covered` for `m` and resets none of its key
counters keeps every snapshot related. -/
theorem rel_applyMut (m : Method) (o : Mutator) (c0 st0 : Nat → Nat) (s : State)
    (hclk : ∀ f, s.stamp f ≤ s.clock)
    (hcov : covered m o = true) (hres : ∀ c ∈ o.resets, c ∉ m.keyCtrs)
    (h : Rel m c0 st0 s) : Rel m c0 st0 (applyMut o s) := by
  obtain ⟨h1, h2, h3⟩ := h
  have ctr_ge : ∀ c ∈ m.keyCtrs, s.ctr c ≤ (applyMut o s).ctr c := by
    intro c hc
    have hnr : o.resets.contains c = false := by
      simp only [List.contains_eq_mem, decide_eq_false_iff_not]
      exact fun hr => hres c hr hc
    simp only [applyMut, hnr, Bool.false_eq_true, if_false]
    split <;> omega
  have stamp_ge : ∀ f, s.stamp f ≤ (applyMut o s).stamp f := by
    intro f
    simp only [applyMut]
    have := hclk f
    split <;> omega
  refine ⟨fun c hc => Nat.le_trans (h1 c hc) (ctr_ge c hc),
          fun f => Nat.le_trans (h2 f) (stamp_ge f), ?_⟩
  intro hk hf f hfr
  -- the key matched before as well
  have hk0 : ∀ c ∈ m.keyCtrs, c0 c = s.ctr c := by
    intro c hc
    have a := h1 c hc; have b := ctr_ge c hc; have e := hk c hc
    omega
  have hf0 : ∀ f ∈ m.keyFlds, st0 f = s.stamp f := by
    intro f' hf'
    have a := h2 f'; have b := stamp_ge f'; have e := hf f' hf'
    omega
  have hold := h3 hk0 hf0 f hfr
  -- `f` was not written
  have hnw : o.writes.contains f = false := by
    cases hw : o.writes.contains f with
    | false => rfl
    | true =>
      exfalso
      simp only [covered, Bool.or_eq_true, List.any_eq_true, List.all_eq_true] at hcov
      rcases hcov with ⟨c, hc, hb⟩ | hall
      · -- a key counter was bumped: the key cannot match any more
        have hnr : o.resets.contains c = false := by
          simp only [List.contains_eq_mem, decide_eq_false_iff_not]
          exact fun hr => hres c hr hc
        have e1 := hk c hc
        have e0 := hk0 c hc
        simp only [applyMut, hnr, hb] at e1
        simp at e1
        omega
      · have hfw : f ∈ o.writes := by simpa using hw
        have := hall f hfw
        have hfr' : m.reads.contains f = true := by simpa using hfr
        simp only [hfr', Bool.not_true, Bool.false_or] at this
        have hkf : f ∈ m.keyFlds := by simpa using this
        have e1 := hf f hkf
        have e0 := hf0 f hkf
        simp only [applyMut, hw, if_true] at e1
        have := hclk f
        omega
  simp only [applyMut, hnw]
  simpa using hold

theorem inv_step (t : Table) (hwf : wf t = true) (s : State) (op : Op) (h : Inv t s) :
    Inv t (step t s op).1 ∧
    (∀ r c, (step t s op).2 = some (r, c) → r = c) := by
  obtain ⟨hclk, hent⟩ := h
  cases op with
  | mutate o =>
    simp only [step]
    cases ho : t.mutators[o]? with
    | none => exact ⟨⟨hclk, hent⟩, by simp⟩
    | some mu =>
      refine ⟨⟨?_, ?_⟩, by simp⟩
      · intro f
        simp only [applyMut]
        have := hclk f
        split <;> omega
      · intro e he m hm
        obtain ⟨c0, st0, e1, e2, e3, hrel⟩ := hent e he m hm
        have hmu : mu ∈ t.mutators := List.mem_of_getElem? ho
        have hmm : m ∈ t.methods := List.mem_of_getElem? hm
        obtain ⟨hcov, hres⟩ := wf_covered t hwf m mu hmm hmu
        exact ⟨c0, st0, e1, e2, e3, rel_applyMut m mu c0 st0 s hclk hcov hres hrel⟩
  | evict i =>
    simp only [step]
    refine ⟨⟨hclk, ?_⟩, by simp⟩
    intro e he m hm
    exact hent e (List.mem_of_mem_eraseIdx he) m hm
  | query mi arg =>
    simp only [step]
    cases hm : t.methods[mi]? with
    | none => exact ⟨⟨hclk, hent⟩, by simp⟩
    | some m =>
      simp only
      cases hf : findEntry s.cache mi arg (m.keyOf s) with
      | some e =>
        refine ⟨⟨hclk, hent⟩, ?_⟩
        intro r c hrc
        simp only [Option.some.injEq, Prod.mk.injEq] at hrc
        obtain ⟨rfl, rfl⟩ := hrc
        have hfound := List.find?_some hf
        have hmem := List.mem_of_find?_eq_some hf
        simp only [Bool.and_eq_true, beq_iff_eq, Method.keyOf] at hfound
        obtain ⟨⟨⟨hmi, _⟩, hk1⟩, hk2⟩ := hfound
        have hm' : t.methods[e.m]? = some m := by rw [hmi]; exact hm
        obtain ⟨c0, st0, e1, e2, e3, -, -, h3⟩ := hent e hmem m hm'
        have hk0 : ∀ c ∈ m.keyCtrs, c0 c = s.ctr c := by
          rw [e1] at hk1; exact fun c hc => (List.map_inj_left.mp hk1) c hc
        have hf0 : ∀ f ∈ m.keyFlds, st0 f = s.stamp f := by
          rw [e2] at hk2; exact fun f hf' => (List.map_inj_left.mp hk2) f hf'
        rw [e3]
        exact List.map_inj_left.mpr (h3 hk0 hf0)
      | none =>
        refine ⟨⟨hclk, ?_⟩, ?_⟩
        · intro e he m' hm'
          simp only [List.mem_cons] at he
          rcases he with rfl | he
          · simp only at hm'
            rw [hm] at hm'
            obtain rfl := Option.some.inj hm'
            exact ⟨s.ctr, s.stamp, rfl, rfl, rfl, rel_refl m s⟩
          · exact hent e he m' hm'
        · intro r c hrc
          simp only [Option.some.injEq, Prod.mk.injEq] at hrc
          obtain ⟨rfl, rfl⟩ := hrc
          rfl

end Pyunicorn.Memo
