import Pyunicorn.Lemmas.NsiBetw
import Pyunicorn.Model.NsiRw
import Mathlib.Algebra.BigOperators.Ring.Finset
import Mathlib.Algebra.BigOperators.Fin
import Mathlib.Algebra.Order.BigOperators.Group.Finset
import Mathlib.Algebra.Order.Field.Rat
import Mathlib.Tactic.Ring
import Mathlib.Tactic.FieldSimp
import Mathlib.Tactic.Linarith
/-!
Round 4: node-splitting invariance of the linear-algebraic n.s.i. measures
(`Model/NsiRw.lean`) with the matrix inverse as an assumed operation.

The algebraic core is one identity: for every function `ξ` on the nodes of `G`, the pull-back
`ξ ∘ c` satisfies `(ξ ∘ c)ᵀ M' = (ξᵀ M) ∘ c` for `M = D_k − D_w A⁺` (`pull_M`), and the row
vectors the code multiplies the inverse with are pull-backs (`nsiQ_split`).  So if `T` turns
`x = Q[s,·] − Q[t,·]` into a potential `ξ = x T` with `ξ M = x` on the original graph and `T'`
is a right inverse of `M'` on differences `e_a − e_b` on the split graph, then
`x' T' (e_a − e_b) = ξ(c a) − ξ(c b) = x T (e_{c a} − e_{c b})`, whichever node is grounded.
-/
namespace Pyunicorn.Nsi
open Finset

/-! ### sums over `List.range` as finite sums -/

theorem sumR_succ (n : Nat) (f : Nat → Rat) : sumR (n + 1) f = sumR n f + f n := by
  simp [sumR, List.range_succ]

theorem sumR_eq_finset (n : Nat) (f : Nat → Rat) : sumR n f = ∑ k ∈ range n, f k := by
  induction n with
  | zero => simp [sumR]
  | succ n ih => rw [sumR_succ, ih, Finset.sum_range_succ]

theorem sumR_congr (n : Nat) (f g : Nat → Rat) (h : ∀ k, k < n → f k = g k) :
    sumR n f = sumR n g := by
  rw [sumR_eq_finset, sumR_eq_finset]
  exact Finset.sum_congr rfl fun k hk => h k (Finset.mem_range.mp hk)

theorem sumR_comm (n m : Nat) (f : Nat → Nat → Rat) :
    sumR n (fun a => sumR m (fun b => f a b)) = sumR m (fun b => sumR n (fun a => f a b)) := by
  simp only [sumR_eq_finset]
  exact Finset.sum_comm

theorem sumR_mul_left (n : Nat) (c : Rat) (f : Nat → Rat) :
    c * sumR n f = sumR n (fun k => c * f k) := by
  simp only [sumR_eq_finset, Finset.mul_sum]

theorem sumR_mul_right (n : Nat) (c : Rat) (f : Nat → Rat) :
    sumR n f * c = sumR n (fun k => f k * c) := by
  simp only [sumR_eq_finset, Finset.sum_mul]

theorem sumR_add (n : Nat) (f g : Nat → Rat) :
    sumR n (fun k => f k + g k) = sumR n f + sumR n g := by
  simp only [sumR_eq_finset, Finset.sum_add_distrib]

theorem sumR_sub (n : Nat) (f g : Nat → Rat) :
    sumR n (fun k => f k - g k) = sumR n f - sumR n g := by
  simp only [sumR_eq_finset, Finset.sum_sub_distrib]

theorem sumR_zero (n : Nat) : sumR n (fun _ => 0) = 0 := by
  simp [sumR_eq_finset]

/-- `Σ_{k<n} [k = b] f k = f b` -/
theorem sumR_ite_eq (n b : Nat) (hb : b < n) (f : Nat → Rat) :
    sumR n (fun k => if k = b then f k else 0) = f b := by
  rw [sumR_eq_finset, Finset.sum_ite_eq' (range n) b f]
  simp [hb]

/-- the push-forward lemma in `sumR` form -/
theorem pushforwardR (G : Gr) (v : Nat) (p : Rat) (hv : v < G.n) (F : Nat → Rat) :
    sumR (G.n + 1) (fun k => (split G v p).w k * F (collapse G.n v k))
      = sumR G.n (fun k => G.w k * F k) :=
  pushforward G v p hv F

/-! ### the atoms of the split graph -/

theorem kstar_split (G : Gr) (v : Nat) (p : Rat) (hv : v < G.n) (a : Nat) :
    kstar (split G v p) a = kstar G (collapse G.n v a) := by
  unfold kstar
  rw [split_n, ← pushforwardR G v p hv (fun k => aplus G (collapse G.n v a) k)]
  apply sumR_congr
  intro k _
  rw [aplus_split G v p hv]

theorem totalW_split (G : Gr) (v : Nat) (p : Rat) (hv : v < G.n) :
    totalW (split G v p) = totalW G := by
  unfold totalW
  rw [split_n, ← pushforwardR G v p hv (fun _ => 1)]

theorem nsiQ_split (G : Gr) (v : Nat) (p : Rat) (hv : v < G.n) (s m : Nat) :
    nsiQ (split G v p) s m = nsiQ G (collapse G.n v s) (collapse G.n v m) := by
  unfold nsiQ
  rw [kstar_split G v p hv, aplus_split G v p hv]

theorem nae_split (G : Gr) (v : Nat) (p : Rat) (hv : v < G.n) (a s : Nat) :
    nae (split G v p) a s = nae G (collapse G.n v a) (collapse G.n v s) := by
  unfold nae
  rw [aplus_split G v p hv]

theorem split_loopfree (G : Gr) (v : Nat) (p : Rat) (hv : v < G.n)
    (hloop : ∀ i, G.adj i i = false) (i : Nat) : (split G v p).adj i i = false := by
  simp only [split]
  by_cases h1 : i = G.n
  · simp [h1]
  · have h2 : ¬ ((i = G.n ∧ i = v) ∨ (i = v ∧ i = G.n)) := by omega
    simp [h1, hloop]

/-- for non-zero weights `sp_M = D_w (D_k − A⁺ D_w) D_w⁻¹` is `D_k − D_w A⁺` -/
theorem newmanM_eq (G : Gr) (r c : Nat) (_hr : G.w r ≠ 0) (hc : G.w c ≠ 0) :
    newmanM G r c = (if r = c then kstar G r else 0) - G.w r * aplus G r c := by
  unfold newmanM nsiLap
  by_cases h : r = c
  · subst h; simp only [if_true]; field_simp
  · simp only [h, if_false]; field_simp; ring

/-! ### the intertwining identity -/

/-- **`(ξ ∘ c)ᵀ M' = (ξᵀ M) ∘ c`**: the pull-back of a potential along the collapse map is a
potential of the pulled-back row -/
theorem pull_M (G : Gr) (v : Nat) (p : Rat) (hv : v < G.n) (hp0 : 0 < p) (hp1 : p < 1)
    (hw : ∀ k, k < G.n → 0 < G.w k) (xi : Nat → Rat) (m : Nat) (hm : m < G.n + 1) :
    sumR (G.n + 1) (fun a => xi (collapse G.n v a) * newmanM (split G v p) a m)
      = sumR G.n (fun r => xi r * newmanM G r (collapse G.n v m)) := by
  have hcm := collapse_lt_n G.n v m hv hm
  have hwm : (split G v p).w m ≠ 0 := split_w_ne_zero G v p hv hp0 hp1 hw m hm
  have hL : sumR (G.n + 1) (fun a => xi (collapse G.n v a) * newmanM (split G v p) a m)
      = sumR (G.n + 1) (fun a => (if a = m then xi (collapse G.n v a) * kstar G (collapse G.n v a) else 0)
          - (split G v p).w a * (xi (collapse G.n v a)
              * aplus G (collapse G.n v a) (collapse G.n v m))) := by
    apply sumR_congr
    intro a ha
    rw [newmanM_eq _ a m (split_w_ne_zero G v p hv hp0 hp1 hw a ha) hwm, kstar_split G v p hv,
      aplus_split G v p hv]
    by_cases h : a = m
    · simp only [h, if_true]; ring
    · simp only [h, if_false]; ring
  have hR : sumR G.n (fun r => xi r * newmanM G r (collapse G.n v m))
      = sumR G.n (fun r => (if r = collapse G.n v m then xi r * kstar G r else 0)
          - G.w r * (xi r * aplus G r (collapse G.n v m))) := by
    apply sumR_congr
    intro r hr
    rw [newmanM_eq _ r _ (ne_of_gt (hw r hr)) (ne_of_gt (hw _ hcm))]
    by_cases h : r = collapse G.n v m
    · simp only [h, if_true]; ring
    · simp only [h, if_false]; ring
  rw [hL, hR, sumR_sub, sumR_sub, sumR_ite_eq _ _ hm, sumR_ite_eq _ _ hcm,
    pushforwardR G v p hv (fun k => xi k * aplus G k (collapse G.n v m))]

/-! ### Newman-type random-walk betweenness -/

/-- the potential `ξ = x T` of the row `x = Q[s,·] − Q[t,·]` -/
def xi (G : Gr) (T : Nat → Nat → Rat) (s t i : Nat) : Rat :=
  sumR G.n fun c => (nsiQ G s c - nsiQ G t c) * T c i

/-- the quantity inside the kernel's absolute value -/
def Dq (V : Nat → Nat → Rat) (i j s t : Nat) : Rat := V i s - V j s - V i t + V j t

theorem Dq_newmanV (G : Gr) (T : Nat → Nat → Rat) (i j s t : Nat) :
    Dq (newmanV G T) i j s t = xi G T s t i - xi G T s t j := by
  unfold Dq newmanV xi
  rw [← sumR_sub, ← sumR_sub, ← sumR_add, ← sumR_sub]
  apply sumR_congr
  intro c _
  ring

/-- on the original graph: `ξ M = x` (from `SolvesL`) -/
theorem xi_M (G : Gr) (T : Nat → Nat → Rat) (hT : SolvesL G.n (nsiQ G) (newmanM G) T)
    (s t e : Nat) (hs : s < G.n) (ht : t < G.n) (he : e < G.n) :
    sumR G.n (fun r => xi G T s t r * newmanM G r e) = nsiQ G s e - nsiQ G t e := by
  rw [← hT s t e hs ht he]
  unfold xi
  have h1 : sumR G.n (fun r => sumR G.n (fun c => (nsiQ G s c - nsiQ G t c) * T c r) * newmanM G r e)
      = sumR G.n (fun r => sumR G.n (fun c => (nsiQ G s c - nsiQ G t c) * (T c r * newmanM G r e))) := by
    apply sumR_congr
    intro r _
    rw [sumR_mul_right]
    apply sumR_congr
    intro c _
    ring
  rw [h1, sumR_comm]
  apply sumR_congr
  intro c _
  rw [sumR_mul_left]

/-- **the kernel's quantity on the split graph is the one of the original graph**, for every
`T` / `T'` that solve (`SolvesL` on the original, `SolvesR` on the split graph) -/
theorem Dq_split (G : Gr) (v : Nat) (p : Rat) (hv : v < G.n) (hp0 : 0 < p) (hp1 : p < 1)
    (hw : ∀ k, k < G.n → 0 < G.w k) (T T' : Nat → Nat → Rat)
    (hT : SolvesL G.n (nsiQ G) (newmanM G) T)
    (hT' : SolvesR (G.n + 1) (newmanM (split G v p)) T')
    (a b s t : Nat) (ha : a < G.n + 1) (hb : b < G.n + 1) (hs : s < G.n + 1) (ht : t < G.n + 1) :
    Dq (newmanV (split G v p) T') a b s t
      = Dq (newmanV G T) (collapse G.n v a) (collapse G.n v b) (collapse G.n v s)
          (collapse G.n v t) := by
  rw [Dq_newmanV, Dq_newmanV]
  have hcs := collapse_lt_n G.n v s hv hs
  have hct := collapse_lt_n G.n v t hv ht
  set X := xi G T (collapse G.n v s) (collapse G.n v t) with hX
  -- the row of the split graph is the pulled-back row, which is `(X ∘ c) M'`
  have hrow : ∀ m, m < G.n + 1 →
      nsiQ (split G v p) s m - nsiQ (split G v p) t m
        = sumR (G.n + 1) (fun a' => X (collapse G.n v a') * newmanM (split G v p) a' m) := by
    intro m hm
    rw [pull_M G v p hv hp0 hp1 hw X m hm, nsiQ_split G v p hv, nsiQ_split G v p hv, hX,
      xi_M G T hT _ _ _ hcs hct (collapse_lt_n G.n v m hv hm)]
  have h1 : xi (split G v p) T' s t a - xi (split G v p) T' s t b
      = sumR (G.n + 1) (fun a' => X (collapse G.n v a')
          * sumR (G.n + 1) (fun m => newmanM (split G v p) a' m * (T' m a - T' m b))) := by
    unfold xi
    rw [split_n, ← sumR_sub]
    have : sumR (G.n + 1) (fun k => (nsiQ (split G v p) s k - nsiQ (split G v p) t k) * T' k a
          - (nsiQ (split G v p) s k - nsiQ (split G v p) t k) * T' k b)
        = sumR (G.n + 1) (fun m => sumR (G.n + 1) (fun a' =>
            X (collapse G.n v a') * (newmanM (split G v p) a' m * (T' m a - T' m b)))) := by
      apply sumR_congr
      intro m hm
      rw [← mul_sub, hrow m hm, sumR_mul_right]
      apply sumR_congr
      intro a' _
      ring
    rw [this, sumR_comm]
    apply sumR_congr
    intro a' _
    rw [sumR_mul_left]
  rw [h1]
  have h2 : sumR (G.n + 1) (fun a' => X (collapse G.n v a')
        * sumR (G.n + 1) (fun m => newmanM (split G v p) a' m * (T' m a - T' m b)))
      = sumR (G.n + 1) (fun a' => (if a' = a then X (collapse G.n v a') else 0)
          - (if a' = b then X (collapse G.n v a') else 0)) := by
    apply sumR_congr
    intro a' ha'
    rw [hT' a' a b ha' ha hb]
    by_cases h1 : a' = a
    · by_cases h2 : a' = b
      · simp only [if_pos h1, if_pos h2]; ring
      · simp only [if_pos h1, if_neg h2]; ring
    · by_cases h2 : a' = b
      · simp only [if_neg h1, if_pos h2]; ring
      · simp only [if_neg h1, if_neg h2]; ring
  rw [h2, sumR_sub, sumR_ite_eq _ _ ha, sumR_ite_eq _ _ hb]

/-! ### the kernel loop: triangular sum = half the symmetric sum -/

theorem tri_half (g : Nat → Nat → Rat) (hsym : ∀ s t, g s t = g t s) (hdiag : ∀ s, g s s = 0)
    (n : Nat) : 2 * sumR n (fun s => sumR s (g s)) = sumR n (fun s => sumR n (g s)) := by
  induction n with
  | zero => simp [sumR]
  | succ n ih =>
    rw [sumR_succ, sumR_succ]
    have h1 : sumR n (fun s => sumR (n + 1) (g s)) = sumR n (fun s => sumR n (g s)) + sumR n (fun s => g s n) := by
      rw [← sumR_add]
      apply sumR_congr
      intro s _
      rw [sumR_succ]
    have h2 : sumR n (fun s => g s n) = sumR n (g n) := by
      apply sumR_congr
      intro s _
      exact hsym s n
    rw [h1, h2, sumR_succ, hdiag, ← ih]
    ring

theorem absQ_neg (x : Rat) : absQ (-x) = absQ x := by
  unfold absQ
  by_cases h1 : x < 0
  · have : ¬ (-x < 0) := by linarith
    simp [h1, this]
  · by_cases h2 : x = 0
    · subst h2; simp
    · have : -x < 0 := by
        have : 0 < x := lt_of_le_of_ne (not_lt.mp h1) (Ne.symm h2)
        linarith
      simp [h1, this]

/-- the kernel with the full (symmetric) double sum over `s`, `t` and `A⁺` in place of `A` -/
def newmanFull (G : Gr) (V : Nat → Nat → Rat) (i : Nat) : Rat :=
  sumR G.n fun j => G.w j * (aplus G i j *
    sumR G.n fun s => G.w s * ((if nae G i s = true then 1 else 0) *
      sumR G.n fun t => G.w t * ((if nae G i t = true then 1 else 0) * absQ (Dq V i j s t))))

/-- **the loop of the Cython kernel** (`t < s`, neighbours `j` of `i`) computes half the
symmetric weighted sum over all `j ∈ N⁺(i)`, `s, t ∉ N⁺(i)` — for every `V` -/
theorem newmanKernel_full (G : Gr) (hloop : ∀ i, G.adj i i = false) (V : Nat → Nat → Rat)
    (i : Nat) : 2 * newmanKernel G V i = newmanFull G V i := by
  unfold newmanKernel newmanFull
  rw [sumR_mul_left]
  apply sumR_congr
  intro j _
  by_cases hij : i = j
  · -- `j = i`: not a neighbour (loop-free); in the full sum its term vanishes
    subst hij
    have hz : ∀ s t, absQ (Dq V i i s t) = 0 := by
      intro s t; simp [Dq, absQ]
    simp only [hloop, hz, mul_zero]
    simp [sumR_zero]
  · have hap : aplus G i j = if G.adj i j = true then 1 else 0 := by
      simp [aplus, hij]
    by_cases hadj : G.adj i j = true
    · simp only [hadj, if_true, hap, one_mul]
      -- the triangular double sum
      let g : Nat → Nat → Rat := fun s t =>
        G.w s * ((if nae G i s = true then 1 else 0) *
          (G.w t * ((if nae G i t = true then 1 else 0) * absQ (Dq V i j s t))))
      have hsym : ∀ s t, g s t = g t s := by
        intro s t
        have : absQ (Dq V i j s t) = absQ (Dq V i j t s) := by
          rw [← absQ_neg]; congr 1; unfold Dq; ring
        simp only [g, this]; ring
      have hdiag : ∀ s, g s s = 0 := by
        intro s; simp [g, Dq, absQ]
      have hL : sumR G.n (fun s => G.w s * (if nae G i s = true then
            sumR s (fun t => G.w t * (if nae G i t = true then
              absQ (V i s - V j s - V i t + V j t) else 0)) else 0))
          = sumR G.n (fun s => sumR s (g s)) := by
        apply sumR_congr
        intro s _
        by_cases hs : nae G i s = true
        · simp only [hs, if_true, g, one_mul]
          rw [sumR_mul_left]
          apply sumR_congr
          intro t _
          by_cases ht : nae G i t = true <;> simp [ht, Dq]
        · simp only [hs, g]
          simp [sumR_zero]
      have hR : sumR G.n (fun s => G.w s * ((if nae G i s = true then 1 else 0) *
            sumR G.n (fun t => G.w t * ((if nae G i t = true then 1 else 0) * absQ (Dq V i j s t)))))
          = sumR G.n (fun s => sumR G.n (g s)) := by
        apply sumR_congr
        intro s _
        simp only [g]
        rw [← mul_assoc, sumR_mul_left]
        apply sumR_congr
        intro t _
        ring
      rw [hL, hR, ← tri_half g hsym hdiag G.n]
      ring
    · simp [hadj, hap]

/-- the symmetric sum is invariant under the split whenever the kernel's quantity pulls back -/
theorem newmanFull_split (G : Gr) (v : Nat) (p : Rat) (hv : v < G.n) (V V' : Nat → Nat → Rat)
    (hD : ∀ a b s t, a < G.n + 1 → b < G.n + 1 → s < G.n + 1 → t < G.n + 1 →
      Dq V' a b s t = Dq V (collapse G.n v a) (collapse G.n v b) (collapse G.n v s)
        (collapse G.n v t))
    (a : Nat) (ha : a < G.n + 1) :
    newmanFull (split G v p) V' a = newmanFull G V (collapse G.n v a) := by
  unfold newmanFull
  rw [split_n]
  set ca := collapse G.n v a
  rw [← pushforwardR G v p hv (fun j => aplus G ca j *
    sumR G.n fun s => G.w s * ((if nae G ca s = true then 1 else 0) *
      sumR G.n fun t => G.w t * ((if nae G ca t = true then 1 else 0) * absQ (Dq V ca j s t))))]
  apply sumR_congr
  intro j hj
  rw [aplus_split G v p hv]
  congr 2
  rw [← pushforwardR G v p hv (fun s => (if nae G ca s = true then 1 else 0) *
      sumR G.n fun t => G.w t * ((if nae G ca t = true then 1 else 0)
        * absQ (Dq V ca (collapse G.n v j) s t)))]
  apply sumR_congr
  intro s hs
  rw [nae_split G v p hv]
  congr 2
  rw [← pushforwardR G v p hv (fun t => (if nae G ca t = true then 1 else 0)
        * absQ (Dq V ca (collapse G.n v j) (collapse G.n v s) t))]
  apply sumR_congr
  intro t ht
  rw [nae_split G v p hv, hD a j s t ha hj hs ht]

/-- **node-splitting invariance of `nsi_newman_betweenness`**, for every pair of matrices that
do what `sp_M_inv` is used for -/
theorem nsiNewman_split_lemma (G : Gr) (v : Nat) (p : Rat) (hv : v < G.n) (hp0 : 0 < p)
    (hp1 : p < 1) (hw : ∀ k, k < G.n → 0 < G.w k) (hloop : ∀ i, G.adj i i = false)
    (T T' : Nat → Nat → Rat) (hT : SolvesL G.n (nsiQ G) (newmanM G) T)
    (hT' : SolvesR (G.n + 1) (newmanM (split G v p)) T') (ends : Bool)
    (a : Nat) (ha : a < G.n + 1) :
    nsiNewman (split G v p) T' ends a = nsiNewman G T ends (collapse G.n v a) := by
  unfold nsiNewman
  have hk : newmanKernel (split G v p) (newmanV (split G v p) T') a
      = newmanKernel G (newmanV G T) (collapse G.n v a) := by
    have h1 := newmanKernel_full (split G v p) (split_loopfree G v p hv hloop)
      (newmanV (split G v p) T') a
    have h2 := newmanKernel_full G hloop (newmanV G T) (collapse G.n v a)
    have h3 := newmanFull_split G v p hv (newmanV G T) (newmanV (split G v p) T')
      (fun a b s t ha hb hs ht => Dq_split G v p hv hp0 hp1 hw T T' hT hT' a b s t ha hb hs ht)
      a ha
    linarith
  rw [hk, kstar_split G v p hv, totalW_split G v p hv]

/-! ### nsi_laplacian -/

/-- entries between untouched nodes (row arbitrary, column not the split node) are unchanged -/
theorem nsiLap_split_untouched (G : Gr) (v : Nat) (p : Rat) (hv : v < G.n) (i j : Nat)
    (hi : i < G.n) (hj : j < G.n) (hjv : j ≠ v) :
    nsiLap (split G v p) i j = nsiLap G i j := by
  unfold nsiLap
  rw [kstar_split G v p hv, aplus_split G v p hv, collapse_lt _ _ _ hi, collapse_lt _ _ _ hj]
  have hjn : ¬ j = G.n := by omega
  simp [split, hjn, hjv]

/-- **the n.s.i. Laplacian commutes with the pull-back**: `L' (f ∘ c) = (L f) ∘ c` -/
theorem nsiLap_pull (G : Gr) (v : Nat) (p : Rat) (hv : v < G.n) (f : Nat → Rat) (a : Nat)
    (ha : a < G.n + 1) :
    sumR (G.n + 1) (fun j => nsiLap (split G v p) a j * f (collapse G.n v j))
      = sumR G.n (fun j => nsiLap G (collapse G.n v a) j * f j) := by
  have hca := collapse_lt_n G.n v a hv ha
  have hL : sumR (G.n + 1) (fun j => nsiLap (split G v p) a j * f (collapse G.n v j))
      = sumR (G.n + 1) (fun j => (if j = a then kstar G (collapse G.n v a) * f (collapse G.n v j) else 0)
          - (split G v p).w j * (aplus G (collapse G.n v a) (collapse G.n v j) * f (collapse G.n v j))) := by
    apply sumR_congr
    intro j _
    unfold nsiLap
    rw [kstar_split G v p hv, aplus_split G v p hv]
    by_cases h : a = j
    · subst h; simp only [if_true]; ring
    · have h' : ¬ j = a := fun e => h e.symm
      simp only [h, h', if_false]; ring
  have hR : sumR G.n (fun j => nsiLap G (collapse G.n v a) j * f j)
      = sumR G.n (fun j => (if j = collapse G.n v a then kstar G (collapse G.n v a) * f j else 0)
          - G.w j * (aplus G (collapse G.n v a) j * f j)) := by
    apply sumR_congr
    intro j _
    unfold nsiLap
    by_cases h : collapse G.n v a = j
    · rw [← h]; simp only [if_true]; ring
    · have h' : ¬ j = collapse G.n v a := fun e => h e.symm
      simp only [h, h', if_false]; ring
  rw [hL, hR, sumR_sub, sumR_sub, sumR_ite_eq _ _ ha, sumR_ite_eq _ _ hca,
    pushforwardR G v p hv (fun k => aplus G (collapse G.n v a) k * f k)]

/-! ### nsi_spreading: every term of the exponential series -/

theorem spreadPow_split (G : Gr) (v : Nat) (p : Rat) (hv : v < G.n) (k : Nat) :
    ∀ r i, spreadPow (split G v p) k r i = spreadPow G k (collapse G.n v r) (collapse G.n v i) := by
  induction k with
  | zero => intro r i; simp only [spreadPow, aplus_split G v p hv]
  | succ k ih =>
    intro r i
    simp only [spreadPow, split_n]
    rw [← pushforwardR G v p hv (fun c => aplus G (collapse G.n v r) c
      * spreadPow G k c (collapse G.n v i))]
    apply sumR_congr
    intro c _
    rw [aplus_split G v p hv, ih]

theorem spreadMoment_split (G : Gr) (v : Nat) (p : Rat) (hv : v < G.n) (k i : Nat) :
    spreadMoment (split G v p) k i = spreadMoment G k (collapse G.n v i) := by
  unfold spreadMoment
  rw [split_n, ← pushforwardR G v p hv (fun r => spreadPow G k r (collapse G.n v i))]
  apply sumR_congr
  intro r _
  rw [spreadPow_split G v p hv]

theorem spreadAlpha_split (G : Gr) (v : Nat) (p : Rat) (hv : v < G.n) :
    spreadAlpha (split G v p) = spreadAlpha G := by
  unfold spreadAlpha
  rw [totalW_split G v p hv, split_n, ← pushforwardR G v p hv (fun i => kstar G i)]
  congr 1
  apply sumR_congr
  intro i _
  rw [kstar_split G v p hv]

theorem spreadPoly_split (G : Gr) (v : Nat) (p : Rat) (hv : v < G.n) (alpha : Rat)
    (q : List Rat) (i : Nat) :
    spreadPoly (split G v p) alpha q i = spreadPoly G alpha q (collapse G.n v i) := by
  unfold spreadPoly
  congr 1
  apply List.map_congr_left
  intro k _
  rw [spreadMoment_split G v p hv]

/-! ### nsi_degree_histogram: the bin layout -/

theorem maxOver_kstar_split (G : Gr) (v : Nat) (p : Rat) (hv : v < G.n) :
    maxOver (G.n + 1) (kstar (split G v p)) = maxOver G.n (kstar G) := by
  unfold maxOver
  rw [← max_pushforward G.n v hv (kstar G)]
  congr 1
  apply List.map_congr_left
  intro k _
  rw [kstar_split G v p hv]

theorem minOver_kstar_split (G : Gr) (v : Nat) (p : Rat) (hv : v < G.n) :
    minOver (G.n + 1) (kstar (split G v p)) = minOver G.n (kstar G) := by
  unfold minOver
  rw [← max_pushforward G.n v hv (fun k => - kstar G k)]
  congr 2
  apply List.map_congr_left
  intro k _
  rw [kstar_split G v p hv]

theorem histNBins_split (G : Gr) (v : Nat) (p : Rat) (hv : v < G.n) :
    histNBins (split G v p) = histNBins G := by
  unfold histNBins
  rw [split_n, maxOver_kstar_split G v p hv, minOver_kstar_split G v p hv]

theorem histLowerBounds_split (G : Gr) (v : Nat) (p : Rat) (hv : v < G.n) :
    histLowerBounds (split G v p) = histLowerBounds G := by
  unfold histLowerBounds
  rw [histNBins_split G v p hv, split_n, maxOver_kstar_split G v p hv,
    minOver_kstar_split G v p hv]

/-! ### nsi_arenas_betweenness -/

theorem arenasP_split (G : Gr) (v : Nat) (p : Rat) (hv : v < G.n) (sigma sigma' : Nat → Nat → Rat)
    (hsig : ∀ a b, sigma' a b = sigma (collapse G.n v a) (collapse G.n v b)) (i r m : Nat) :
    arenasP (split G v p) sigma' i r m
      = arenasStop G sigma (collapse G.n v i) (collapse G.n v r)
          * (nsiQ G (collapse G.n v r) (collapse G.n v m) * (split G v p).w m) := by
  unfold arenasP arenasStop
  rw [aplus_split G v p hv, nsiQ_split G v p hv, hsig]

/-- **the solution of the split system is the pulled-back solution, re-weighted in the column**:
`V'[s, j] = V[c s, c j] · w'_j / w_{c j}` solves `(1 − P'_i) V' = P'_i` -/
theorem arenas_pull_solves (G : Gr) (v : Nat) (p : Rat) (hv : v < G.n)
    (hw : ∀ k, k < G.n → 0 < G.w k) (sigma sigma' : Nat → Nat → Rat)
    (hsig : ∀ a b, sigma' a b = sigma (collapse G.n v a) (collapse G.n v b))
    (i : Nat) (V : Nat → Nat → Rat)
    (hV : ArenasSolves G sigma (collapse G.n v i) V) :
    ArenasSolves (split G v p) sigma' i
      (fun s j => V (collapse G.n v s) (collapse G.n v j)
        * ((split G v p).w j / G.w (collapse G.n v j))) := by
  intro s j hs hj
  have hcs := collapse_lt_n G.n v s hv hs
  have hcj := collapse_lt_n G.n v j hv hj
  have hwj : G.w (collapse G.n v j) ≠ 0 := ne_of_gt (hw _ hcj)
  have hsum : sumR (split G v p).n (fun m => arenasP (split G v p) sigma' i s m
        * (V (collapse G.n v m) (collapse G.n v j)
            * ((split G v p).w j / G.w (collapse G.n v j))))
      = sumR G.n (fun m => arenasP G sigma (collapse G.n v i) (collapse G.n v s) m
          * V m (collapse G.n v j)) * ((split G v p).w j / G.w (collapse G.n v j)) := by
    rw [split_n, sumR_mul_right]
    have hr : sumR G.n (fun k => arenasP G sigma (collapse G.n v i) (collapse G.n v s) k
          * V k (collapse G.n v j) * ((split G v p).w j / G.w (collapse G.n v j)))
        = sumR G.n (fun k => G.w k * (arenasStop G sigma (collapse G.n v i) (collapse G.n v s)
          * nsiQ G (collapse G.n v s) k * V k (collapse G.n v j)
          * ((split G v p).w j / G.w (collapse G.n v j)))) := by
      apply sumR_congr
      intro k _
      unfold arenasP
      ring
    rw [hr, ← pushforwardR G v p hv (fun m => arenasStop G sigma (collapse G.n v i) (collapse G.n v s)
        * nsiQ G (collapse G.n v s) m * V m (collapse G.n v j)
        * ((split G v p).w j / G.w (collapse G.n v j)))]
    apply sumR_congr
    intro m _
    rw [arenasP_split G v p hv sigma sigma' hsig]
    ring
  have h0 := hV _ _ hcs hcj
  rw [hsum, arenasP_split G v p hv sigma sigma' hsig]
  have : arenasP G sigma (collapse G.n v i) (collapse G.n v s) (collapse G.n v j)
      = arenasStop G sigma (collapse G.n v i) (collapse G.n v s)
          * (nsiQ G (collapse G.n v s) (collapse G.n v j) * G.w (collapse G.n v j)) := rfl
  rw [this] at h0
  have h1 : (V (collapse G.n v s) (collapse G.n v j)
        - sumR G.n (fun m => arenasP G sigma (collapse G.n v i) (collapse G.n v s) m
            * V m (collapse G.n v j))) * ((split G v p).w j / G.w (collapse G.n v j))
      = arenasStop G sigma (collapse G.n v i) (collapse G.n v s)
          * (nsiQ G (collapse G.n v s) (collapse G.n v j) * G.w (collapse G.n v j))
          * ((split G v p).w j / G.w (collapse G.n v j)) := by rw [h0]
  have h2 : G.w (collapse G.n v j) * ((split G v p).w j / G.w (collapse G.n v j))
      = (split G v p).w j := by field_simp
  calc _ = (V (collapse G.n v s) (collapse G.n v j)
        - sumR G.n (fun m => arenasP G sigma (collapse G.n v i) (collapse G.n v s) m
            * V m (collapse G.n v j))) * ((split G v p).w j / G.w (collapse G.n v j)) := by ring
    _ = _ := by rw [h1, mul_assoc, mul_assoc, h2]

/-- two solutions of a regular system coincide -/
theorem arenas_unique (G : Gr) (sigma : Nat → Nat → Rat) (i : Nat)
    (hreg : ArenasRegular G sigma i) (V W : Nat → Nat → Rat)
    (hV : ArenasSolves G sigma i V) (hW : ArenasSolves G sigma i W) (s j : Nat)
    (hs : s < G.n) (hj : j < G.n) : V s j = W s j := by
  have := hreg (fun s => V s j - W s j) (by
    intro s hs
    have h1 := hV s j hs hj
    have h2 := hW s j hs hj
    have : sumR G.n (fun m => arenasP G sigma i s m * (V m j - W m j))
        = sumR G.n (fun m => arenasP G sigma i s m * V m j)
          - sumR G.n (fun m => arenasP G sigma i s m * W m j) := by
      rw [← sumR_sub]; apply sumR_congr; intro m _; ring
    rw [this]; linarith) s hs
  linarith

/-- **node-splitting invariance of `nsi_arenas_betweenness`** for every family of solutions of
the absorbing-walk systems (`V i` solves the system of target `i`), both argument values of
`exclude_neighbors`, and every stopping rule `σ` that pulls back (neighbours: `σ = 1`;
twinness: `σ = nsi_twinness`, an expression of the catalogue) -/
theorem arenasB_split_lemma (G : Gr) (v : Nat) (p : Rat) (hv : v < G.n) (hp0 : 0 < p) (hp1 : p < 1)
    (hw : ∀ k, k < G.n → 0 < G.w k) (sigma sigma' : Nat → Nat → Rat)
    (hsig : ∀ a b, sigma' a b = sigma (collapse G.n v a) (collapse G.n v b))
    (V V' : Nat → Nat → Nat → Rat)
    (hV : ∀ i, i < G.n → ArenasSolves G sigma i (V i))
    (hV' : ∀ i, i < G.n + 1 → ArenasSolves (split G v p) sigma' i (V' i))
    (hreg : ∀ i, i < G.n + 1 → ArenasRegular (split G v p) sigma' i)
    (excl : Bool) (j : Nat) (hj : j < G.n + 1) :
    arenasB (split G v p) V' excl j = arenasB G V excl (collapse G.n v j) := by
  have hcj := collapse_lt_n G.n v j hv hj
  have hwj : G.w (collapse G.n v j) ≠ 0 := ne_of_gt (hw _ hcj)
  have hwj' : (split G v p).w j ≠ 0 := split_w_ne_zero G v p hv hp0 hp1 hw j hj
  -- the solutions of the split systems are the pulled-back ones
  have hVeq : ∀ i s, i < G.n + 1 → s < G.n + 1 →
      V' i s j = V (collapse G.n v i) (collapse G.n v s) (collapse G.n v j)
        * ((split G v p).w j / G.w (collapse G.n v j)) := by
    intro i s hi hs
    exact arenas_unique (split G v p) sigma' i (hreg i hi) (V' i) _ (hV' i hi)
      (arenas_pull_solves G v p hv hw sigma sigma' hsig i (V (collapse G.n v i))
        (hV _ (collapse_lt_n G.n v i hv hi))) s j hs hj
  unfold arenasB
  rw [split_n]
  have hnum : sumR (G.n + 1) (fun i => (split G v p).w i * sumR (G.n + 1) (fun s => (split G v p).w s *
        (if excl then V' i s j * (1 - aplus (split G v p) i s) * (1 - aplus (split G v p) i j)
          else V' i s j)))
      = sumR G.n (fun i => G.w i * sumR G.n (fun s => G.w s *
          (if excl then V i s (collapse G.n v j) * (1 - aplus G i s) * (1 - aplus G i (collapse G.n v j))
            else V i s (collapse G.n v j))))
        * ((split G v p).w j / G.w (collapse G.n v j)) := by
    set cj := collapse G.n v j with hcjdef
    set q := (split G v p).w j / G.w cj with hq
    let S : Nat → Rat := fun i => sumR G.n (fun s => G.w s *
          (if excl then V i s cj * (1 - aplus G i s) * (1 - aplus G i cj) else V i s cj))
    rw [sumR_mul_right]
    have hr : sumR G.n (fun k => G.w k * sumR G.n (fun s => G.w s *
          (if excl then V k s cj * (1 - aplus G k s) * (1 - aplus G k cj) else V k s cj)) * q)
        = sumR G.n (fun k => G.w k * (S k * q)) := by
      apply sumR_congr
      intro k _
      simp only [S]
      ring
    rw [hr, ← pushforwardR G v p hv (fun i => S i * q)]
    apply sumR_congr
    intro i hi
    congr 1
    simp only [S]
    rw [sumR_mul_right]
    have hr2 : sumR G.n (fun s => G.w s *
          (if excl then V (collapse G.n v i) s cj * (1 - aplus G (collapse G.n v i) s)
              * (1 - aplus G (collapse G.n v i) cj) else V (collapse G.n v i) s cj) * q)
        = sumR G.n (fun s => G.w s * ((if excl then V (collapse G.n v i) s cj
              * (1 - aplus G (collapse G.n v i) s) * (1 - aplus G (collapse G.n v i) cj)
            else V (collapse G.n v i) s cj) * q)) := by
      apply sumR_congr
      intro s _
      ring
    rw [hr2, ← pushforwardR G v p hv (fun s => (if excl then V (collapse G.n v i) s cj
              * (1 - aplus G (collapse G.n v i) s) * (1 - aplus G (collapse G.n v i) cj)
            else V (collapse G.n v i) s cj) * q)]
    apply sumR_congr
    intro s hs
    rw [hVeq i s hi hs, aplus_split G v p hv, aplus_split G v p hv, ← hcjdef]
    cases excl <;> simp only [↓reduceIte, Bool.false_eq_true] <;> ring
  rw [hnum]
  field_simp

/-! ### the executable forms of the hypotheses decide them -/

theorem solvesL_sound (n : Nat) (Q M T : Nat → Nat → Rat) (h : solvesL n Q M T = true) :
    SolvesL n Q M T := by
  intro s t e hs ht he
  simp only [solvesL, List.all_eq_true, List.mem_range] at h
  exact eq_of_beq (h s hs t ht e he)

theorem solvesR_sound (n : Nat) (M T : Nat → Nat → Rat) (h : solvesR n M T = true) :
    SolvesR n M T := by
  intro r i j hr hi hj
  simp only [solvesR, List.all_eq_true, List.mem_range] at h
  exact eq_of_beq (h r hr i hi j hj)

/-! ### the code's grounded inverse satisfies the two conditions (inverse as an assumed operation) -/

/-- what the code's `sp_M_inv` is: zero last row / column, and the leading block a two-sided
inverse of the leading block of `M` (the assumed operation `inv`) -/
structure IsGroundedInv (n : Nat) (M T : Nat → Nat → Rat) : Prop where
  pad_row : ∀ j, T (n - 1) j = 0
  pad_col : ∀ i, T i (n - 1) = 0
  left : ∀ i j, i < n - 1 → j < n - 1 →
    sumR (n - 1) (fun c => T i c * M c j) = if i = j then 1 else 0
  right : ∀ i j, i < n - 1 → j < n - 1 →
    sumR (n - 1) (fun c => M i c * T c j) = if i = j then 1 else 0

theorem sumR_pred (n : Nat) (hn : 0 < n) (f : Nat → Rat) :
    sumR n f = sumR (n - 1) f + f (n - 1) := by
  obtain ⟨m, rfl⟩ : ∃ m, n = m + 1 := ⟨n - 1, by omega⟩
  simp [sumR_succ]

/-- `M T = 1 − e_g 1ᵀ` -/
theorem grounded_MT (n : Nat) (hn : 0 < n) (M T : Nat → Nat → Rat) (h : IsGroundedInv n M T)
    (hcol : ∀ j, j < n → sumR n (fun r => M r j) = 0) (r i : Nat) (hr : r < n) (hi : i < n) :
    sumR n (fun c => M r c * T c i) = (if r = i then 1 else 0) - (if r = n - 1 then 1 else 0) := by
  rw [sumR_pred n hn, h.pad_row, mul_zero, add_zero]
  by_cases hig : i = n - 1
  · -- column `g` of `T` is zero
    have : sumR (n - 1) (fun c => M r c * T c i) = 0 := by
      rw [← sumR_zero (n - 1)]
      apply sumR_congr
      intro c _
      rw [hig, h.pad_col, mul_zero]
    rw [this, hig]
    by_cases hrg : r = n - 1 <;> simp [hrg]
  · have hi' : i < n - 1 := by omega
    by_cases hrg : r = n - 1
    · -- last row: minus the sum of the other rows
      have hM : ∀ c, c < n - 1 → M r c = - sumR (n - 1) (fun r' => M r' c) := by
        intro c hc
        have := hcol c (by omega)
        rw [sumR_pred n hn] at this
        rw [hrg]; linarith
      have h1 : sumR (n - 1) (fun c => M r c * T c i)
          = - sumR (n - 1) (fun r' => sumR (n - 1) (fun c => M r' c * T c i)) := by
        rw [sumR_comm, ← neg_one_mul, sumR_mul_left]
        apply sumR_congr
        intro c hc
        rw [hM c hc, neg_mul, sumR_mul_right]
        ring
      have h2 : sumR (n - 1) (fun r' => sumR (n - 1) (fun c => M r' c * T c i))
          = sumR (n - 1) (fun r' => if r' = i then 1 else 0) := by
        apply sumR_congr
        intro r' hr'
        rw [h.right r' i hr' hi']
      rw [h1, h2, sumR_ite_eq _ _ hi' (fun _ => 1)]
      have hne : ¬ r = i := by omega
      rw [if_neg hne, if_pos hrg]
      ring
    · have hr' : r < n - 1 := by omega
      rw [h.right r i hr' hi']
      simp [hrg]

theorem grounded_solvesR (n : Nat) (hn : 0 < n) (M T : Nat → Nat → Rat) (h : IsGroundedInv n M T)
    (hcol : ∀ j, j < n → sumR n (fun r => M r j) = 0) : SolvesR n M T := by
  intro r i j hr hi hj
  have h1 := grounded_MT n hn M T h hcol r i hr hi
  have h2 := grounded_MT n hn M T h hcol r j hr hj
  have : sumR n (fun c => M r c * (T c i - T c j))
      = sumR n (fun c => M r c * T c i) - sumR n (fun c => M r c * T c j) := by
    rw [← sumR_sub]; apply sumR_congr; intro c _; ring
  rw [this, h1, h2]; ring

/-- `T M = 1 − (w / w_g) e_gᵀ` on the rows `c ≠ g`; row `g` vanishes -/
theorem grounded_TM (n : Nat) (hn : 0 < n) (M T : Nat → Nat → Rat) (w : Nat → Rat)
    (h : IsGroundedInv n M T) (hwg : w (n - 1) ≠ 0)
    (hker : ∀ r, r < n → sumR n (fun e => M r e * w e) = 0) (c e : Nat) (hc : c < n) (he : e < n) :
    sumR n (fun r => T c r * M r e)
      = if c = n - 1 then 0
        else (if c = e then 1 else 0) - (if e = n - 1 then w c / w (n - 1) else 0) := by
  rw [sumR_pred n hn, h.pad_col, zero_mul, add_zero]
  by_cases hcg : c = n - 1
  · rw [if_pos hcg, ← sumR_zero (n - 1)]
    apply sumR_congr
    intro r _
    rw [hcg, h.pad_row, zero_mul]
  · rw [if_neg hcg]
    have hc' : c < n - 1 := by omega
    by_cases heg : e = n - 1
    · have hce : ¬ c = e := by omega
      rw [if_neg hce, if_pos heg]
      have hM : ∀ r, r < n - 1 → M r e = - (sumR (n - 1) (fun e' => M r e' * w e')) / w (n - 1) := by
        intro r hr
        have := hker r (by omega)
        rw [sumR_pred n hn] at this
        rw [heg]
        field_simp
        linarith
      have h1 : sumR (n - 1) (fun r => T c r * M r e)
          = - (sumR (n - 1) (fun e' => w e' * sumR (n - 1) (fun r => T c r * M r e'))) / w (n - 1) := by
        have : sumR (n - 1) (fun e' => w e' * sumR (n - 1) (fun r => T c r * M r e'))
            = sumR (n - 1) (fun r => T c r * sumR (n - 1) (fun e' => M r e' * w e')) := by
          have h3 : ∀ e', w e' * sumR (n - 1) (fun r => T c r * M r e')
              = sumR (n - 1) (fun r => T c r * (M r e' * w e')) := by
            intro e'
            rw [sumR_mul_left]; apply sumR_congr; intro r _; ring
          simp only [h3]
          rw [sumR_comm]
          apply sumR_congr
          intro r _
          rw [sumR_mul_left]
        rw [this]
        have h4 : sumR (n - 1) (fun r => T c r * M r e)
            = sumR (n - 1) (fun r => (T c r * sumR (n - 1) (fun e' => M r e' * w e'))
                * (-1 / w (n - 1))) := by
          apply sumR_congr
          intro r hr
          rw [hM r hr]
          ring
        rw [h4, ← sumR_mul_right]
        ring
      have h2 : sumR (n - 1) (fun e' => w e' * sumR (n - 1) (fun r => T c r * M r e'))
          = sumR (n - 1) (fun e' => if e' = c then w e' else 0) := by
        apply sumR_congr
        intro e' he'
        rw [h.left c e' hc' he']
        by_cases hh : c = e'
        · have : e' = c := hh.symm
          simp [hh]
        · have : ¬ e' = c := fun x => hh x.symm
          simp [hh, this]
      rw [h1, h2, sumR_ite_eq _ _ hc' w]
      ring
    · have he' : e < n - 1 := by omega
      rw [h.left c e hc' he', if_neg heg]
      ring

/-- for every row `x ⊥ w`: `x T M = x` -/
theorem grounded_xTM (n : Nat) (hn : 0 < n) (M T : Nat → Nat → Rat) (w : Nat → Rat)
    (h : IsGroundedInv n M T) (hwg : w (n - 1) ≠ 0)
    (hker : ∀ r, r < n → sumR n (fun e => M r e * w e) = 0) (x : Nat → Rat)
    (hx : sumR n (fun c => x c * w c) = 0) (e : Nat) (he : e < n) :
    sumR n (fun c => x c * sumR n (fun r => T c r * M r e)) = x e := by
  have h1 : sumR n (fun c => x c * sumR n (fun r => T c r * M r e))
      = sumR n (fun c => x c * (if c = n - 1 then 0
        else (if c = e then 1 else 0) - (if e = n - 1 then w c / w (n - 1) else 0))) := by
    apply sumR_congr
    intro c hc
    rw [grounded_TM n hn M T w h hwg hker c e hc he]
  rw [h1, sumR_pred n hn, if_pos rfl, mul_zero, add_zero]
  rw [sumR_pred n hn] at hx
  by_cases heg : e = n - 1
  · have h2 : sumR (n - 1) (fun c => x c * (if c = n - 1 then 0
          else (if c = e then 1 else 0) - (if e = n - 1 then w c / w (n - 1) else 0)))
        = sumR (n - 1) (fun c => (x c * w c) * (-1 / w (n - 1))) := by
      apply sumR_congr
      intro c hc
      have hcg : ¬ c = n - 1 := by omega
      have hce : ¬ c = e := by omega
      rw [if_neg hcg, if_neg hce, if_pos heg]
      ring
    rw [h2, ← sumR_mul_right, heg]
    have : sumR (n - 1) (fun c => x c * w c) = - (x (n - 1) * w (n - 1)) := by linarith
    rw [this]
    field_simp
  · have he' : e < n - 1 := by omega
    have h2 : sumR (n - 1) (fun c => x c * (if c = n - 1 then 0
          else (if c = e then 1 else 0) - (if e = n - 1 then w c / w (n - 1) else 0)))
        = sumR (n - 1) (fun c => if c = e then x c else 0) := by
      apply sumR_congr
      intro c hc
      have hcg : ¬ c = n - 1 := by omega
      rw [if_neg hcg, if_neg heg]
      by_cases hce : c = e <;> simp [hce]
    rw [h2, sumR_ite_eq _ _ he' x]

/-! ### the two conditions for `sp_M` -/

theorem kstar_pos (G : Gr) (hw : ∀ k, k < G.n → 0 < G.w k) (i : Nat) (hi : i < G.n) :
    0 < kstar G i := by
  unfold kstar
  rw [sumR_eq_finset]
  have hnn : ∀ j ∈ range G.n, 0 ≤ G.w j * aplus G i j := by
    intro j hj
    have := hw j (Finset.mem_range.mp hj)
    unfold aplus
    split <;> nlinarith
  have hle := Finset.single_le_sum hnn (Finset.mem_range.mpr hi)
  have : G.w i * aplus G i i = G.w i := by simp [aplus]
  rw [this] at hle
  exact lt_of_lt_of_le (hw i hi) hle

/-- `sp_M w = 0` -/
theorem newmanM_ker (G : Gr) (hw : ∀ k, k < G.n → 0 < G.w k) (r : Nat) (hr : r < G.n) :
    sumR G.n (fun e => newmanM G r e * G.w e) = 0 := by
  have h1 : sumR G.n (fun e => newmanM G r e * G.w e)
      = sumR G.n (fun e => (if e = r then kstar G r * G.w e else 0)
          - G.w r * (G.w e * aplus G r e)) := by
    apply sumR_congr
    intro e he
    rw [newmanM_eq G r e (ne_of_gt (hw r hr)) (ne_of_gt (hw e he))]
    by_cases h : r = e
    · subst h; simp only [if_true]; ring
    · have h' : ¬ e = r := fun x => h x.symm
      simp only [h, h', if_false]; ring
  rw [h1, sumR_sub, sumR_ite_eq _ _ hr, ← sumR_mul_left]
  unfold kstar
  ring

/-- the columns of `sp_M` sum to zero (undirected network: `A⁺` symmetric) -/
theorem newmanM_colsum (G : Gr) (hw : ∀ k, k < G.n → G.w k ≠ 0)
    (hsym : ∀ i j, aplus G i j = aplus G j i) (j : Nat) (hj : j < G.n) :
    sumR G.n (fun r => newmanM G r j) = 0 := by
  have h1 : sumR G.n (fun r => newmanM G r j)
      = sumR G.n (fun r => (if r = j then kstar G r else 0) - G.w r * aplus G j r) := by
    apply sumR_congr
    intro r hr
    rw [newmanM_eq G r j (hw r hr) (hw j hj), hsym r j]
  rw [h1, sumR_sub, sumR_ite_eq _ _ hj]
  unfold kstar
  ring

theorem nsiQ_row_sum (G : Gr) (hw : ∀ k, k < G.n → 0 < G.w k) (s : Nat) (hs : s < G.n) :
    sumR G.n (fun c => nsiQ G s c * G.w c) = 1 := by
  have hk := ne_of_gt (kstar_pos G hw s hs)
  have : sumR G.n (fun c => nsiQ G s c * G.w c) = 1 / kstar G s * sumR G.n (fun c => G.w c * aplus G s c) := by
    rw [sumR_mul_left]
    apply sumR_congr
    intro c _
    unfold nsiQ
    ring
  rw [this]
  show 1 / kstar G s * kstar G s = 1
  field_simp

/-- **the code's grounded inverse does what the theorem asks** (left) -/
theorem grounded_solvesL_newman (G : Gr) (hn : 0 < G.n) (hw : ∀ k, k < G.n → 0 < G.w k)
    (T : Nat → Nat → Rat) (h : IsGroundedInv G.n (newmanM G) T) :
    SolvesL G.n (nsiQ G) (newmanM G) T := by
  intro s t e hs ht he
  apply grounded_xTM G.n hn (newmanM G) T G.w h (ne_of_gt (hw _ (by omega)))
    (fun r hr => newmanM_ker G hw r hr) (fun c => nsiQ G s c - nsiQ G t c) _ e he
  have : sumR G.n (fun c => (nsiQ G s c - nsiQ G t c) * G.w c)
      = sumR G.n (fun c => nsiQ G s c * G.w c) - sumR G.n (fun c => nsiQ G t c * G.w c) := by
    rw [← sumR_sub]; apply sumR_congr; intro c _; ring
  rw [this, nsiQ_row_sum G hw s hs, nsiQ_row_sum G hw t ht]
  ring

theorem aplus_symm (G : Gr) (hsym : ∀ i j, G.adj i j = G.adj j i) (i j : Nat) :
    aplus G i j = aplus G j i := by
  unfold aplus
  rw [hsym i j]
  by_cases h : i = j
  · subst h; rfl
  · have h' : ¬ j = i := fun x => h x.symm
    simp [h, h']

/-- **Node-splitting invariance of `nsi_newman_betweenness` with the matrix inverse as an
assumed operation**: `T`, `T'` are what the code stores in `sp_M_inv` — zero last row and
column, the leading block a two-sided inverse of the leading block of `sp_M` — on the
network and on its split copy (where the grounded last node is the new twin). -/
theorem nsiNewman_split_grounded (G : Gr) (v : Nat) (p : Rat) (hv : v < G.n) (hp0 : 0 < p)
    (hp1 : p < 1) (hw : ∀ k, k < G.n → 0 < G.w k) (hloop : ∀ i, G.adj i i = false)
    (hsym : ∀ i j, G.adj i j = G.adj j i) (T T' : Nat → Nat → Rat)
    (hT : IsGroundedInv G.n (newmanM G) T)
    (hT' : IsGroundedInv (G.n + 1) (newmanM (split G v p)) T') (ends : Bool)
    (a : Nat) (ha : a < G.n + 1) :
    nsiNewman (split G v p) T' ends a = nsiNewman G T ends (collapse G.n v a) := by
  have hn : 0 < G.n := by omega
  apply nsiNewman_split_lemma G v p hv hp0 hp1 hw hloop T T'
    (grounded_solvesL_newman G hn hw T hT) _ ends a ha
  apply grounded_solvesR (G.n + 1) (by omega) _ T' hT'
  intro j hj
  apply newmanM_colsum (split G v p) (fun k hk => split_w_ne_zero G v p hv hp0 hp1 hw k hk) _ j hj
  intro i j
  rw [aplus_split G v p hv, aplus_split G v p hv, aplus_symm G hsym]

/-- zero padding of a reduced inverse, as in `sp_M_inv = lil_matrix((N, N)); sp_M_inv[:-1,:-1] = …` -/
def padInv (n : Nat) (R : Nat → Nat → Rat) : Nat → Nat → Rat :=
  fun i j => if i < n - 1 ∧ j < n - 1 then R i j else 0

def groundedBlockOk (n : Nat) (M T : Nat → Nat → Rat) : Bool :=
  (List.range (n - 1)).all fun i => (List.range (n - 1)).all fun j =>
    (sumR (n - 1) (fun c => T i c * M c j) == if i = j then 1 else 0) &&
    (sumR (n - 1) (fun c => M i c * T c j) == if i = j then 1 else 0)

/-- an exact check that decides `IsGroundedInv` for a padded matrix -/
theorem isGroundedInv_of_check (n : Nat) (M R : Nat → Nat → Rat)
    (h : groundedBlockOk n M (padInv n R) = true) : IsGroundedInv n M (padInv n R) := by
  simp only [groundedBlockOk, List.all_eq_true, List.mem_range, Bool.and_eq_true] at h
  refine ⟨fun j => by simp [padInv], fun i => by simp [padInv], ?_, ?_⟩
  · intro i j hi hj; exact eq_of_beq (h i hi j hj).1
  · intro i j hi hj; exact eq_of_beq (h i hi j hj).2

end Pyunicorn.Nsi
