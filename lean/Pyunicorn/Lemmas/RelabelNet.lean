import Pyunicorn.Lemmas.Relabel
import Pyunicorn.Lemmas.NetPaths
import Pyunicorn.Lemmas.NetCore
/-! C04 for the C03 model `Pyunicorn.Net`: every measure function commutes with `permuted_copy`. -/
namespace Pyunicorn.Relabel
open Pyunicorn.Net

variable {n : Nat} {idx : Nat → Nat}

/-! ### sums over all nodes -/

theorem sumTo_perm (h : IsPerm n idx) (f : Nat → Nat) : sumTo n (fun j => f (idx j)) = sumTo n f :=
  h.sum_eq f
theorem sumToI_perm (h : IsPerm n idx) (f : Nat → Int) :
    sumToI n (fun j => f (idx j)) = sumToI n f := h.sum_eq f
theorem sumToQ_perm (h : IsPerm n idx) (f : Nat → Rat) :
    sumToQ n (fun j => f (idx j)) = sumToQ n f := h.sum_eq f

theorem sumTo_congr (f g : Nat → Nat) (e : ∀ j, j < n → f j = g j) : sumTo n f = sumTo n g := by
  unfold sumTo; congr 1; exact List.map_congr_left fun j hj => e j (List.mem_range.mp hj)
theorem sumToI_congr (f g : Nat → Int) (e : ∀ j, j < n → f j = g j) : sumToI n f = sumToI n g := by
  unfold sumToI; congr 1; exact List.map_congr_left fun j hj => e j (List.mem_range.mp hj)
theorem sumToQ_congr (f g : Nat → Rat) (e : ∀ j, j < n → f j = g j) : sumToQ n f = sumToQ n g := by
  unfold sumToQ; congr 1; exact List.map_congr_left fun j hj => e j (List.mem_range.mp hj)

/-- a sum over nodes whose summand on the renumbered network is the old summand at `idx j` -/
theorem sumTo_relabel (h : IsPerm n idx) (f g : Nat → Nat) (e : ∀ j, j < n → f j = g (idx j)) :
    sumTo n f = sumTo n g := (sumTo_congr f _ e).trans (sumTo_perm h g)
theorem sumToI_relabel (h : IsPerm n idx) (f g : Nat → Int) (e : ∀ j, j < n → f j = g (idx j)) :
    sumToI n f = sumToI n g := (sumToI_congr f _ e).trans (sumToI_perm h g)
theorem sumToQ_relabel (h : IsPerm n idx) (f g : Nat → Rat) (e : ∀ j, j < n → f j = g (idx j)) :
    sumToQ n f = sumToQ n g := (sumToQ_congr f _ e).trans (sumToQ_perm h g)

/-! ### degrees, matrix products, motif clustering -/

theorem toN_mat (a : Adj) : toN (mat a idx) = mat (toN a) idx := rfl
theorem tr_mat (x : Nat → Nat → Nat) : tr (mat x idx) = mat (tr x) idx := rfl

theorem outdeg_relabel (h : IsPerm n idx) (a : Adj) (i : Nat) :
    outdeg n (mat a idx) i = outdeg n a (idx i) :=
  sumTo_perm h fun j => b2n (a (idx i) j)

theorem indeg_relabel (h : IsPerm n idx) (a : Adj) (i : Nat) :
    indeg n (mat a idx) i = indeg n a (idx i) :=
  sumTo_perm h fun j => b2n (a j (idx i))

theorem degree_relabel (h : IsPerm n idx) (directed : Bool) (a : Adj) (i : Nat) :
    degree directed n (mat a idx) i = degree directed n a (idx i) := by
  simp [degree, outdeg_relabel h, indeg_relabel h]

/-- the matrix product of renumbered matrices is the renumbered product (all entries) -/
theorem mmul_relabel (h : IsPerm n idx) (x y : Nat → Nat → Nat) :
    mmul n (mat x idx) (mat y idx) = mat (mmul n x y) idx := by
  funext i j
  exact sumTo_perm h fun k => x (idx i) k * y k (idx j)

theorem bildeg_relabel (h : IsPerm n idx) (a : Adj) (i : Nat) :
    bildeg n (mat a idx) i = bildeg n a (idx i) := by
  simp only [bildeg, toN_mat, mmul_relabel h]; rfl

theorem tCycle_relabel (h : IsPerm n idx) (a : Adj) (i : Nat) :
    tCycle n (mat a idx) i = tCycle n a (idx i) := by
  simp only [tCycle, toN_mat, mmul_relabel h]; rfl
theorem tMid_relabel (h : IsPerm n idx) (a : Adj) (i : Nat) :
    tMid n (mat a idx) i = tMid n a (idx i) := by
  simp only [tMid, toN_mat, tr_mat, mmul_relabel h]; rfl
theorem tIn_relabel (h : IsPerm n idx) (a : Adj) (i : Nat) :
    tIn n (mat a idx) i = tIn n a (idx i) := by
  simp only [tIn, toN_mat, tr_mat, mmul_relabel h]; rfl
theorem tOut_relabel (h : IsPerm n idx) (a : Adj) (i : Nat) :
    tOut n (mat a idx) i = tOut n a (idx i) := by
  simp only [tOut, toN_mat, tr_mat, mmul_relabel h]; rfl

theorem TCycle_relabel (h : IsPerm n idx) (a : Adj) (i : Nat) :
    TCycle n (mat a idx) i = TCycle n a (idx i) := by
  simp only [TCycle, indeg_relabel h, outdeg_relabel h, bildeg_relabel h]
theorem TIn_relabel (h : IsPerm n idx) (a : Adj) (i : Nat) :
    TIn n (mat a idx) i = TIn n a (idx i) := by simp only [TIn, indeg_relabel h]
theorem TOut_relabel (h : IsPerm n idx) (a : Adj) (i : Nat) :
    TOut n (mat a idx) i = TOut n a (idx i) := by simp only [TOut, outdeg_relabel h]

theorem strength_relabel (h : IsPerm n idx) (w : Nat → Nat → Rat) (i : Nat) :
    outstrength n (mat w idx) i = outstrength n w (idx i) ∧
    instrength n (mat w idx) i = instrength n w (idx i) ∧
    bilstrength n (mat w idx) i = bilstrength n w (idx i) :=
  ⟨sumToQ_perm h fun j => w (idx i) j, sumToQ_perm h fun j => w j (idx i),
   sumToQ_perm h fun j => w (idx i) j * w j (idx i)⟩

theorem matching_relabel (h : IsPerm n idx) (a : Adj) (i j : Nat) :
    matching n (mat a idx) i j = matching n a (idx i) (idx j) := by
  simp only [matching, toN_mat, mmul_relabel h, outdeg_relabel h]; rfl

theorem laplacian_relabel (h : IsPerm n idx) (a : Adj) (diag : Nat → Nat) (i j : Nat)
    (hi : i < n) (hj : j < n) :
    laplacian (mat a idx) (vec diag idx) i j = laplacian a diag (idx i) (idx j) := by
  unfold laplacian mat vec
  by_cases e : i = j
  · subst e; simp
  · have : ¬ idx i = idx j := fun e' => e (h.inj hi hj e')
    simp [e, this]

theorem nsiOutdeg_relabel (h : IsPerm n idx) (a : Adj) (w : Nat → Rat) (i : Nat) (hi : i < n) :
    nsiOutdeg n (mat a idx) (vec w idx) i = nsiOutdeg n a w (idx i) := by
  unfold nsiOutdeg
  apply sumToQ_relabel h
  intro j hj
  have : (i == j) = (idx i == idx j) := by
    by_cases e : i = j
    · subst e; simp
    · have : ¬ idx i = idx j := fun e' => e (h.inj hi hj e')
      simp [e, this]
  simp [Net.aplus, mat, vec, this]

theorem nsiIndeg_relabel (h : IsPerm n idx) (a : Adj) (w : Nat → Rat) (i : Nat) (hi : i < n) :
    nsiIndeg n (mat a idx) (vec w idx) i = nsiIndeg n a w (idx i) := by
  unfold nsiIndeg
  apply sumToQ_relabel h
  intro j hj
  have : (j == i) = (idx j == idx i) := by
    by_cases e : j = i
    · subst e; simp
    · have : ¬ idx j = idx i := fun e' => e (h.inj hj hi e')
      simp [e, this]
  simp [Net.aplus, mat, vec, this]

theorem aplus_relabel (h : IsPerm n idx) (a : Adj) (i j : Nat) (hi : i < n) (hj : j < n) :
    Net.aplus (mat a idx) i j = Net.aplus a (idx i) (idx j) := by
  have : (i == j) = (idx i == idx j) := by
    by_cases e : i = j
    · subst e; simp
    · have : ¬ idx i = idx j := fun e' => e (h.inj hi hj e')
      simp [e, this]
  simp [Net.aplus, mat, this]

theorem nsiLocalClustering_relabel (h : IsPerm n idx) (a : Adj) (w : Nat → Rat) (i : Nat)
    (hi : i < n) :
    nsiLocalClustering n (mat a idx) (vec w idx) i = nsiLocalClustering n a w (idx i) := by
  unfold nsiLocalClustering
  simp only [nsiOutdeg_relabel h a w i hi]
  have : (sumToQ n fun j => sumToQ n fun l =>
        if mat a idx i j && Net.aplus (mat a idx) j l && mat a idx i l then vec w idx j * vec w idx l else 0)
      = sumToQ n fun j => sumToQ n fun l =>
        if a (idx i) j && Net.aplus a j l && a (idx i) l then w j * w l else 0 := by
    apply sumToQ_relabel h
    intro j hj
    apply sumToQ_relabel h
    intro l hl
    simp [aplus_relabel h a j l hj hl, mat, vec]
  rw [this]; rfl

/-! ### shortest paths: the BFS -/

/-- level sets of the shortest-path metric on the renumbered network -/
theorem lev_relabel (h : IsPerm n idx) (a : Adj) (src : Nat) (hsrc : src < n) (d v : Nat)
    (hv : v < n) : lev n (mat a idx) src d v = lev n a (idx src) d (idx v) := by
  induction d generalizing v with
  | zero =>
    simp only [lev]
    by_cases e : v = src
    · subst e; simp
    · have : ¬ idx v = idx src := fun e' => e (h.inj hv hsrc e')
      simp [e, this]
  | succ d ih =>
    simp only [lev]
    rw [ih v hv]
    have : ((List.range n).any fun u => lev n (mat a idx) src d u == some d && mat a idx u v)
        = (List.range n).any fun u => lev n a (idx src) d u == some d && a u (idx v) := by
      rw [← h.any_eq fun u => lev n a (idx src) d u == some d && a u (idx v)]
      apply any_congr_mem
      intro u hu
      rw [ih u (List.mem_range.mp hu)]; rfl
    rw [this]

/-- **BFS distances** (`path_lengths()`): `D'[a, b] = D[idx a, idx b]` -/
theorem dist_relabel (h : IsPerm n idx) (a : Adj) (i j : Nat) (hi : i < n) (hj : j < n) :
    dist n (mat a idx) i j = dist n a (idx i) (idx j) := by
  rw [dist_eq_lev n _ i hi j hj, dist_eq_lev n a (idx i) (h.lt hi) (idx j) (h.lt hj),
    lev_relabel h a i hi n j hj]

/-! ### path-based measures of any pairwise distance matrix carried with the nodes -/

theorem ite_eq_relabel {β : Type} (h : IsPerm n idx) {i j : Nat} (hi : i < n) (hj : j < n)
    (x y : β) : (if i = j then x else y) = if idx i = idx j then x else y := by
  by_cases e : i = j
  · subst e; simp
  · have : ¬ idx i = idx j := fun e' => e (h.inj hi hj e')
    simp [e, this]

/-- what a pairwise matrix `d'` of the renumbered network has to satisfy: it is the old matrix
read at the old numbers (on the nodes of the network) -/
def Renumbered {β : Type} (n : Nat) (idx : Nat → Nat) (d d' : Nat → Nat → β) : Prop :=
  ∀ i j, i < n → j < n → d' i j = d (idx i) (idx j)

theorem renumbered_mat {β : Type} (d : Nat → Nat → β) : Renumbered n idx d (mat d idx) :=
  fun _ _ _ _ => rfl

theorem globalEfficiency_relabel (h : IsPerm n idx) (d d' : Nat → Nat → Option Nat)
    (hd : Renumbered n idx d d') : globalEfficiency n d' = globalEfficiency n d := by
  unfold globalEfficiency
  congr 1
  apply sumToQ_relabel h (g := fun i => sumToQ n fun j => invDist (if i = j then none else d i j))
  intro i hi
  apply sumToQ_relabel h (g := fun j => invDist (if idx i = j then none else d (idx i) j))
  intro j hj
  rw [ite_eq_relabel h hi hj, hd i j hi hj]

theorem efficiencyDef_relabel (h : IsPerm n idx) (d d' : Nat → Nat → Option Nat)
    (hd : Renumbered n idx d d') : efficiencyDef n d' = efficiencyDef n d := by
  unfold efficiencyDef
  congr 1
  apply sumToQ_relabel h (g := fun i => sumToQ n fun j => if i = j then 0 else invDist (d i j))
  intro i hi
  apply sumToQ_relabel h (g := fun j => if idx i = j then 0 else invDist (d (idx i) j))
  intro j hj
  rw [ite_eq_relabel h hi hj, hd i j hi hj]

theorem avgPathLength_relabel (h : IsPerm n idx) (d d' : Nat → Nat → Option Rat)
    (hd : Renumbered n idx d d') : avgPathLength n d' = avgPathLength n d := by
  unfold avgPathLength
  have e1 : (sumToQ n fun i => sumToQ n fun j => (d' i j).getD 0)
      = sumToQ n fun i => sumToQ n fun j => (d i j).getD 0 :=
    sumToQ_relabel h _ (fun i => sumToQ n fun j => (d i j).getD 0) fun i hi =>
      sumToQ_relabel h _ (fun j => (d (idx i) j).getD 0) fun j hj => by rw [hd i j hi hj]
  have e2 : (sumTo n fun i => sumTo n fun j => b2n (d' i j).isNone)
      = sumTo n fun i => sumTo n fun j => b2n (d i j).isNone :=
    sumTo_relabel h _ (fun i => sumTo n fun j => b2n (d i j).isNone) fun i hi =>
      sumTo_relabel h _ (fun j => b2n (d (idx i) j).isNone) fun j hj => by rw [hd i j hi hj]
  simp only [e1, e2]

theorem avgPathLengthU_relabel (h : IsPerm n idx) (d d' : Nat → Nat → Option Nat)
    (hd : Renumbered n idx d d') : avgPathLengthU n d' = avgPathLengthU n d := by
  unfold avgPathLengthU
  have e1 : (sumTo n fun i => sumTo n fun j => if i = j then 0 else (d' i j).getD 0)
      = sumTo n fun i => sumTo n fun j => if i = j then 0 else (d i j).getD 0 :=
    sumTo_relabel h _ (fun i => sumTo n fun j => if i = j then 0 else (d i j).getD 0) fun i hi =>
      sumTo_relabel h _ (fun j => if idx i = j then 0 else (d (idx i) j).getD 0) fun j hj => by
        rw [ite_eq_relabel h hi hj, hd i j hi hj]
  have e2 : (sumTo n fun i => sumTo n fun j => b2n (i != j && (d' i j).isSome))
      = sumTo n fun i => sumTo n fun j => b2n (i != j && (d i j).isSome) :=
    sumTo_relabel h _ (fun i => sumTo n fun j => b2n (i != j && (d i j).isSome)) fun i hi =>
      sumTo_relabel h _ (fun j => b2n (idx i != j && (d (idx i) j).isSome)) fun j hj => by
        rw [h.bne_eq hi hj, hd i j hi hj]
  simp only [e1, e2]

theorem closeness_relabel (h : IsPerm n idx) (d d' : Nat → Nat → Option Nat)
    (hd : Renumbered n idx d d') (i : Nat) (hi : i < n) :
    closeness n d' i = closeness n d (idx i) := by
  unfold closeness
  have e1 : ((List.range n).all fun j => (d' i j).isSome)
      = (List.range n).all fun j => (d (idx i) j).isSome := by
    rw [← h.all_eq fun j => (d (idx i) j).isSome]
    exact all_congr_mem _ _ _ fun j hj => by rw [hd i j hi (List.mem_range.mp hj)]
  have e2 : (sumTo n fun j => (d' i j).getD 0) = sumTo n fun j => (d (idx i) j).getD 0 :=
    sumTo_relabel h _ (fun j => (d (idx i) j).getD 0) fun j hj => by rw [hd i j hi hj]
  simp only [e1, e2]

theorem closenessW_relabel (h : IsPerm n idx) (d d' : Nat → Nat → Option Rat)
    (hd : Renumbered n idx d d') (i : Nat) (hi : i < n) :
    closenessW n d' i = closenessW n d (idx i) := by
  unfold closenessW
  have e2 : (sumToQ n fun j => (d' i j).getD (n : Rat))
      = sumToQ n fun j => (d (idx i) j).getD (n : Rat) :=
    sumToQ_relabel h _ (fun j => (d (idx i) j).getD (n : Rat)) fun j hj => by rw [hd i j hi hj]
  simp only [e2]

theorem nsiCloseness_relabel (h : IsPerm n idx) (d d' : Nat → Nat → Option Nat)
    (hd : Renumbered n idx d d') (w : Nat → Rat) (i : Nat) (hi : i < n) :
    nsiCloseness n d' (vec w idx) i = nsiCloseness n d w (idx i) := by
  unfold nsiCloseness
  have e1 : ((List.range n).all fun j => (d' i j).isSome)
      = (List.range n).all fun j => (d (idx i) j).isSome := by
    rw [← h.all_eq fun j => (d (idx i) j).isSome]
    exact all_congr_mem _ _ _ fun j hj => by rw [hd i j hi (List.mem_range.mp hj)]
  have e2 : sumToQ n (vec w idx) = sumToQ n w := sumToQ_perm h w
  have e3 : (sumToQ n fun j => vec w idx j *
        ((((d' i j).getD 0 + (if i = j then 1 else 0) : Nat)) : Rat))
      = sumToQ n fun j => w j * ((((d (idx i) j).getD 0 + (if idx i = j then 1 else 0) : Nat)) : Rat) :=
    sumToQ_relabel h _ (fun j => w j *
        ((((d (idx i) j).getD 0 + (if idx i = j then 1 else 0) : Nat)) : Rat)) fun j hj => by
      rw [ite_eq_relabel h hi hj, hd i j hi hj]; rfl
  simp only [e1, e2, e3]

/-! ### diameter: nested running maxima -/

theorem foldl_max_init (l : List Nat) (g : Nat → Nat) (m : Nat) :
    l.foldl (fun m x => max m (g x)) m = max m (l.foldl (fun m x => max m (g x)) 0) := by
  induction l generalizing m with
  | nil => simp
  | cons x t ih =>
    simp only [List.foldl_cons]
    rw [ih (max m (g x)), ih (max 0 (g x))]
    omega

theorem foldl_max_perm (h : IsPerm n idx) (g : Nat → Nat) (m0 : Nat) :
    (List.range n).foldl (fun m j => max m (g (idx j))) m0
      = (List.range n).foldl (fun m j => max m (g j)) m0 := by
  have e : (List.range n).foldl (fun m j => max m (g (idx j))) m0
      = ((List.range n).map idx).foldl (fun m j => max m (g j)) m0 := by
    rw [List.foldl_map]
  rw [e]
  have : RightCommutative (fun (m : Nat) (j : Nat) => max m (g j)) := ⟨fun a b c => by
    show max (max a (g b)) (g c) = max (max a (g c)) (g b); omega⟩
  exact List.Perm.foldl_eq h m0

theorem foldl_max_congr (l : List Nat) (f g : Nat → Nat) (m0 : Nat) (e : ∀ x ∈ l, f x = g x) :
    l.foldl (fun m x => max m (f x)) m0 = l.foldl (fun m x => max m (g x)) m0 := by
  induction l generalizing m0 with
  | nil => rfl
  | cons x t ih =>
    simp only [List.foldl_cons]
    rw [e x (by simp), ih _ fun y hy => e y (by simp [hy])]

theorem diameter_relabel (h : IsPerm n idx) (d d' : Nat → Nat → Option Nat)
    (hd : Renumbered n idx d d') : diameter n d' = diameter n d := by
  unfold diameter
  have row : ∀ (dd : Nat → Nat → Option Nat) (m i : Nat),
      (List.range n).foldl (fun m j => max m ((dd i j).getD 0)) m
        = max m ((List.range n).foldl (fun m j => max m ((dd i j).getD 0)) 0) :=
    fun dd m i => foldl_max_init _ (fun j => (dd i j).getD 0) m
  let rowMax : Nat → Nat := fun i => (List.range n).foldl (fun m j => max m ((d i j).getD 0)) 0
  have e1 : (List.range n).foldl
        (fun m i => (List.range n).foldl (fun m j => max m ((d' i j).getD 0)) m) 0
      = (List.range n).foldl (fun m i => max m (rowMax (idx i))) 0 := by
    have : ∀ (l : List Nat) (m0 : Nat), (∀ i ∈ l, i < n) →
        l.foldl (fun m i => (List.range n).foldl (fun m j => max m ((d' i j).getD 0)) m) m0
          = l.foldl (fun m i => max m (rowMax (idx i))) m0 := by
      intro l
      induction l with
      | nil => intro _ _; rfl
      | cons x t ih =>
        intro m0 hl
        simp only [List.foldl_cons]
        have hx : x < n := hl x (by simp)
        rw [row d' m0 x]
        have : (List.range n).foldl (fun m j => max m ((d' x j).getD 0)) 0 = rowMax (idx x) := by
          rw [foldl_max_congr _ (fun j => (d' x j).getD 0) (fun j => (d (idx x) (idx j)).getD 0) 0
            fun j hj => by rw [hd x j hx (List.mem_range.mp hj)]]
          exact foldl_max_perm h (fun j => (d (idx x) j).getD 0) 0
        rw [this]
        exact ih _ fun i hi => hl i (by simp [hi])
    exact this _ 0 fun i hi => List.mem_range.mp hi
  have e2 : (List.range n).foldl
        (fun m i => (List.range n).foldl (fun m j => max m ((d i j).getD 0)) m) 0
      = (List.range n).foldl (fun m i => max m (rowMax i)) 0 := by
    congr 1
    funext m i
    exact row d m i
  rw [e1, e2]
  exact foldl_max_perm h rowMax 0

/-- BFS distances of the renumbered network are a renumbered distance matrix -/
theorem dist_renumbered (h : IsPerm n idx) (a : Adj) :
    Renumbered n idx (dist n a) (dist n (mat a idx)) :=
  fun i j hi hj => dist_relabel h a i j hi hj

/-! ### coreness by peeling -/

theorem aliveDeg_relabel (h : IsPerm n idx) (a : Adj) (directed : Bool) (alive : List Bool)
    (v : Nat) (hv : v < n) :
    aliveDeg n (mat a idx) directed (nodeList n idx false alive) v
      = aliveDeg n a directed alive (idx v) := by
  unfold aliveDeg
  apply sumTo_relabel h
  intro u hu
  rw [nodeList_getD n idx false alive u hu, h.bne_eq hu hv]
  rfl

theorem peelStep_relabel (h : IsPerm n idx) (a : Adj) (directed : Bool) (k : Nat)
    (alive : List Bool) :
    peelStep n (mat a idx) directed k (nodeList n idx false alive)
      = nodeList n idx false (peelStep n a directed k alive) := by
  unfold peelStep
  conv_rhs => unfold nodeList
  apply List.map_congr_left
  intro v hv
  have hv' := List.mem_range.mp hv
  rw [nodeList_getD n idx false alive v hv', aliveDeg_relabel h a directed alive v hv',
    getD_map_range n _ false (idx v) (h.lt hv')]

theorem peelStep_length (a : Adj) (directed : Bool) (k : Nat) (alive : List Bool) :
    (peelStep n a directed k alive).length = n := by simp [peelStep]

theorem peel_length (a : Adj) (directed : Bool) (k fuel : Nat) (alive : List Bool)
    (hl : alive.length = n) : (peel n a directed k fuel alive).length = n := by
  induction fuel generalizing alive with
  | zero => exact hl
  | succ f ih =>
    rw [peel_unfold]
    split
    · exact hl
    · exact ih _ (peelStep_length a directed k alive)

theorem peel_relabel (h : IsPerm n idx) (a : Adj) (directed : Bool) (k fuel : Nat)
    (alive : List Bool) (hl : alive.length = n) :
    peel n (mat a idx) directed k fuel (nodeList n idx false alive)
      = nodeList n idx false (peel n a directed k fuel alive) := by
  induction fuel generalizing alive with
  | zero => rfl
  | succ f ih =>
    rw [peel_unfold, peel_unfold, peelStep_relabel h]
    have hiff : (nodeList n idx false (peelStep n a directed k alive) == nodeList n idx false alive)
        = (peelStep n a directed k alive == alive) := by
      by_cases e : peelStep n a directed k alive = alive
      · simp [e]
      · have : ¬ nodeList n idx false (peelStep n a directed k alive) = nodeList n idx false alive :=
          fun e' => e (nodeList_inj h false _ _ (peelStep_length a directed k alive) hl e')
        simp [e, this]
    rw [hiff]
    split
    · rfl
    · exact ih _ (peelStep_length a directed k alive)

theorem all_false_nodeList (h : IsPerm n idx) (l : List Bool) (hl : l.length = n) :
    (nodeList n idx false l).all (· == false) = l.all (· == false) := by
  have e1 : (nodeList n idx false l).all (· == false)
      = (List.range n).all fun v => l.getD (idx v) false == false := by
    simp [nodeList, List.all_map, Function.comp_def]
  have e2 : l.all (· == false) = (List.range n).all fun v => l.getD v false == false := by
    have : l = (List.range n).map fun v => l.getD v false := by
      apply List.ext_getElem (by simp [hl])
      intro i h1 h2
      simp [List.getD_eq_getElem?_getD, h1]
    conv_lhs => rw [this]
    simp [List.all_map, Function.comp_def]
  rw [e1, e2]
  exact h.all_eq fun v => l.getD v false == false

theorem coreLoop_relabel (h : IsPerm n idx) (a : Adj) (directed : Bool) (fuel k : Nat)
    (alive : List Bool) (core : List Nat) (hl : alive.length = n) :
    coreLoop n (mat a idx) directed fuel k (nodeList n idx false alive) (nodeList n idx 0 core)
      = nodeList n idx 0 (coreLoop n a directed fuel k alive core) := by
  induction fuel generalizing k alive core with
  | zero => rfl
  | succ f ih =>
    simp only [coreLoop]
    rw [peel_relabel h a directed k n alive hl,
      all_false_nodeList h _ (peel_length a directed k n alive hl)]
    split
    · rfl
    · have e : ((List.range n).map fun v =>
            if (nodeList n idx false (peel n a directed k n alive)).getD v false then k
            else (nodeList n idx 0 core).getD v 0)
          = nodeList n idx 0 ((List.range n).map fun v =>
            if (peel n a directed k n alive).getD v false then k else core.getD v 0) := by
        conv_rhs => unfold nodeList
        apply List.map_congr_left
        intro v hv
        have hv' := List.mem_range.mp hv
        rw [nodeList_getD n idx false _ v hv', nodeList_getD n idx 0 core v hv',
          getD_map_range n _ 0 (idx v) (h.lt hv')]
      rw [e]
      exact ih (k + 1) _ _ (peel_length a directed k n alive hl)

theorem nodeList_replicate {α : Type} (h : IsPerm n idx) (d x : α) :
    nodeList n idx d (List.replicate n x) = List.replicate n x := by
  apply List.ext_getElem (by simp [nodeList])
  intro i h1 h2
  have hi : i < n := by simpa [nodeList] using h1
  simp [nodeList, List.getD_eq_getElem?_getD, h.lt hi]

/-- **coreness** (`coreness()`): the peeling of the renumbered network is the renumbered peeling -/
theorem coreness_relabel (h : IsPerm n idx) (a : Adj) (directed : Bool) :
    coreness n (mat a idx) directed = nodeList n idx 0 (coreness n a directed) := by
  unfold coreness
  have := coreLoop_relabel h a directed (2 * n + 1) 1 (List.replicate n true) (List.replicate n 0)
    (by simp)
  rwa [nodeList_replicate h, nodeList_replicate h] at this

end Pyunicorn.Relabel
