import Pyunicorn.Model.MemoMode
/-! Lemmas about the assignment machine of `Model/MemoMode.lean` (C01, round 4). -/
namespace Pyunicorn.Mode

theorem evalSrc_congr (T : List Nat) (s1 s2 : MState) (arg : Nat) (src : Src)
    (hc : srcClean T src = true) (h : ∀ f, f ∉ T → s1 f = s2 f) :
    evalSrc s1 arg src = evalSrc s2 arg src := by
  cases src with
  | const c => rfl
  | expr site deps =>
    simp only [srcClean, List.all_eq_true, Bool.not_eq_eq_eq_not, Bool.not_true,
      List.contains_eq_mem, decide_eq_false_iff_not] at hc
    simp only [evalSrc, Val.app.injEq, true_and]
    exact List.map_congr_left fun g hg => h g (hc g hg)

/-- one call on two objects that agree outside `T`: afterwards they agree outside `T` again, and
on every field of `M` on which they agreed before or that the executed path assigns -/
theorem exec_agree (T M : List Nat) (arg : Nat) :
    ∀ (evs : List Event) (m : List Bool) (s1 s2 : MState),
      closed T evs = true →
      (∀ e ∈ evs, e.target ∈ M → srcClean T e.src = true) →
      (∀ f, f ∉ T → s1 f = s2 f) →
      (∀ f, f ∉ T → execEvents arg evs m s1 f = execEvents arg evs m s2 f) ∧
      (∀ f, f ∈ M → (s1 f = s2 f ∨ assigned evs m f = true) →
        execEvents arg evs m s1 f = execEvents arg evs m s2 f) := by
  intro evs
  induction evs with
  | nil =>
    intro m s1 s2 _ _ h
    refine ⟨fun f hf => by simpa [execEvents] using h f hf, fun f _ hd => ?_⟩
    rcases hd with hd | hd
    · simpa [execEvents] using hd
    · simp [assigned] at hd
  | cons e es ih =>
    intro m s1 s2 hcl hM h
    have hcl' : closed T es = true := by
      simp only [closed, List.all_cons, Bool.and_eq_true] at hcl
      simpa [closed] using hcl.2
    have hcle : srcClean T e.src = true ∨ e.target ∈ T := by
      simp only [closed, List.all_cons, Bool.and_eq_true, Bool.or_eq_true,
        List.contains_eq_mem, decide_eq_true_eq] at hcl
      exact hcl.1
    have hM' : ∀ e' ∈ es, e'.target ∈ M → srcClean T e'.src = true :=
      fun e' he' => hM e' (List.mem_cons_of_mem _ he')
    simp only [execEvents]
    by_cases hx : m.headD true = true
    · -- the event executes
      simp only [hx, if_true]
      have hstep : ∀ f, f ∉ T →
          (fun f => if f = e.target then evalSrc s1 arg e.src else s1 f) f =
          (fun f => if f = e.target then evalSrc s2 arg e.src else s2 f) f := by
        intro f hf
        by_cases hft : f = e.target
        · simp only [hft, if_true]
          rcases hcle with hc | hin
          · exact evalSrc_congr T s1 s2 arg e.src hc h
          · exact absurd (hft ▸ hin) hf
        · simp only [hft, if_false]; exact h f hf
      obtain ⟨ih1, ih2⟩ := ih m.tail _ _ hcl' hM' hstep
      refine ⟨ih1, fun f hf hd => ?_⟩
      by_cases hft : e.target = f
      · apply ih2 f hf
        left
        have hc := hM e (List.mem_cons_self) (hft ▸ hf)
        simp only [hft.symm, if_true]
        exact evalSrc_congr T s1 s2 arg e.src hc h
      · apply ih2 f hf
        rcases hd with hd | hd
        · left
          have : ¬ f = e.target := fun h' => hft h'.symm
          simp only [this, if_false]; exact hd
        · right
          simp only [assigned, hx, Bool.true_and, Bool.or_eq_true, beq_iff_eq] at hd
          rcases hd with hd | hd
          · exact absurd hd hft
          · exact hd
    · -- the event is skipped on this path
      simp only [hx]
      obtain ⟨ih1, ih2⟩ := ih m.tail s1 s2 hcl' hM' h
      refine ⟨ih1, fun f hf hd => ?_⟩
      apply ih2 f hf
      rcases hd with hd | hd
      · exact Or.inl hd
      · right
        simp only [assigned, Bool.or_eq_true, Bool.and_eq_true] at hd
        rcases hd with ⟨h1, _⟩ | hd
        · exact absurd h1 hx
        · exact hd

end Pyunicorn.Mode
