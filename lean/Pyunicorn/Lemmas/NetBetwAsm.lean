import Pyunicorn.Lemmas.NetBetwSpec
import Mathlib.Tactic.Ring
import Mathlib.Algebra.Order.Field.Rat
/-!
Assembly of the kernel `_nsi_betweenness` (round 3): the loop over the targets and the wrapper's final
division, given the value of one target's backward sweep; and the wrapper's flat neighbour array cut at
the kernel's `offsets` gives back the neighbour lists.
-/
namespace Pyunicorn.NetBetw
open Pyunicorn.Net

theorem getD_map_range_rat (n : Nat) (f : Nat → Rat) (l : Nat) (hl : l < n) :
    ((List.range n).map f).getD l 0 = f l := by
  simp [List.getD, hl]

/-- `betweenness_times_w += w[j] * (…)` over the loop `for j in targets` is a sum over the targets -/
theorem kernel_fold_getD (n : Nat) (t : Nat → List Rat) (l : Nat) (hl : l < n) :
    ∀ (targets : List Nat) (acc : List Rat),
      (targets.foldl (fun acc j => (List.range n).map fun l => acc.getD l 0 + (t j).getD l 0) acc).getD l 0
        = acc.getD l 0 + (targets.map fun j => (t j).getD l 0).sum := by
  intro targets
  induction targets with
  | nil => intro acc; simp
  | cons j rest ih =>
    intro acc
    simp only [List.foldl_cons, List.map_cons, List.sum_cons]
    rw [ih, getD_map_range_rat n _ l hl]
    ring

theorem getD_replicate_rat (n l : Nat) : (List.replicate n (0 : Rat)).getD l 0 = 0 := by
  by_cases h : l < n <;> simp [List.getD, h]

theorem kernel_getD (n : Nat) (k flat : List Nat) (w : Nat → Rat) (isSrc : List Bool) (targets : List Nat)
    (l : Nat) (hl : l < n) :
    (kernel n k flat w isSrc targets).getD l 0
      = (targets.map fun j => (target n (offsetsOf k) k flat w isSrc j).getD l 0).sum := by
  unfold kernel
  simp only []
  rw [kernel_fold_getD n (fun j => target n (offsetsOf k) k flat w isSrc j) l hl, getD_replicate_rat]
  ring

/-- what one iteration of `for j in targets` adds for node `l`: `w[j] * (betweenness_to_j[l] - excess_to_j[l])`
after the two sweeps -/
def sweepDiff (n : Nat) (a : Adj) (w : Nat → Rat) (isSrc : List Bool) (j l : Nat) : Rat :=
  let s := forward (offsetsOf (degArr n a)) (degArr n a) (flatArr n a) w n 0
    (fwdInit n w (flatArr n a).length j)
  let be := s.queue.reverse.foldl (back (offsetsOf (degArr n a)) w j s)
    (excessInit n w isSrc, excessInit n w isSrc)
  be.1.getD l 0 - be.2.getD l 0

theorem target_getD (n : Nat) (a : Adj) (w : Nat → Rat) (isSrc : List Bool) (j l : Nat) (hl : l < n) :
    (target n (offsetsOf (degArr n a)) (degArr n a) (flatArr n a) w isSrc j).getD l 0
      = w j * sweepDiff n a w isSrc j l := by
  rw [target_unfold]
  simp only []
  rw [getD_map_range_rat n _ l hl]
  rfl

/-- the loop over the targets and the wrapper's division by `w`, for every graph, weight vector, source
mask and target list: if for every target the two sweeps leave `betweenness_to_j − excess_to_j` equal to the
definition's inner sum, the wrapper returns the published double sum -/
theorem nsiBetweenness_assembly (n : Nat) (a : Adj) (w : Nat → Rat) (isSrc : List Bool) (targets : List Nat)
    (d : DistFn)
    (h : ∀ j, j ∈ targets → ∀ l, l < n → sweepDiff n a w isSrc j l = contribDef n a w d isSrc j l) :
    nsiBetweenness n a w isSrc targets = nsiBetweennessDef n a w d isSrc targets := by
  rw [nsiBetweenness_unfold]
  unfold nsiBetweennessDef betwTimesWDef
  simp only []
  apply List.map_congr_left
  intro l hl
  have hl' : l < n := List.mem_range.mp hl
  rw [kernel_getD n _ _ w isSrc targets l hl']
  congr 2
  apply List.map_congr_left
  intro j hj
  rw [target_getD n a w isSrc j l hl', h j hj l hl']

/-! ### the wrapper's arrays: `flat_neighbors` cut at `offsets` gives the neighbour lists -/

theorem flatten_slice {α : Type} : ∀ (L : List (List α)) (i : Nat) (hi : i < L.length),
    (L.flatten.drop ((L.take i).map List.length).sum).take (L[i]).length = L[i]
  | [], i, hi => by simp at hi
  | x :: L, 0, _ => by simp
  | x :: L, i + 1, hi => by
    have ih := flatten_slice L i (by simpa using hi)
    simp only [List.flatten_cons, List.take_succ_cons, List.map_cons, List.sum_cons,
      List.getElem_cons_succ]
    rw [← List.drop_drop, List.drop_left]
    exact ih

theorem outdeg_eq_length (n : Nat) (a : Adj) (i : Nat) : outdeg n a i = (nbrs n a i).length := by
  unfold outdeg nbrs sumTo
  induction (List.range n) with
  | nil => simp
  | cons x t ih =>
    simp only [List.map_cons, List.sum_cons, List.filter_cons]
    rw [ih]
    by_cases h : a i x = true
    · simp [h, b2n]; omega
    · simp [h, b2n]

/-- for every node `i < n`: `flat_neighbors[offsets[i] : offsets[i] + k[i]]` (the loop range of the kernel)
is the list of the neighbours of `i` in increasing order -/
theorem wrapper_slice (n : Nat) (a : Adj) (i : Nat) (hi : i < n) :
    ((flatArr n a).drop ((offsetsOf (degArr n a)).getD i 0)).take ((degArr n a).getD i 0) = nbrs n a i := by
  have hlen : ((List.range n).map fun i => nbrs n a i).length = n := by simp
  have h := flatten_slice ((List.range n).map fun i => nbrs n a i) i (by rw [hlen]; exact hi)
  have hflat : flatArr n a = ((List.range n).map fun i => nbrs n a i).flatten := by
    simp [flatArr, List.flatMap]
  have hk : (degArr n a).getD i 0 = (nbrs n a i).length := by
    simp [degArr, List.getD, hi, outdeg_eq_length]
  have hoff : (offsetsOf (degArr n a)).getD i 0
      = ((((List.range n).map fun i => nbrs n a i).take i).map List.length).sum := by
    have : (degArr n a).length = n := by simp [degArr]
    simp only [offsetsOf, this, List.getD, List.getElem?_map, List.getElem?_range hi, Option.map_some,
      Option.getD_some]
    congr 1
    simp only [degArr, ← List.map_take, List.map_map]
    apply List.map_congr_left
    intro x _
    simp [outdeg_eq_length]
  rw [hflat, hk, hoff]
  simpa using h

end Pyunicorn.NetBetw
