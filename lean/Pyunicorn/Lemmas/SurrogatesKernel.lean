import Pyunicorn.Model.SurrogatesKernel
import Pyunicorn.Lemmas.SurrogatesTwins
/-!
The loop-level model of the twin kernels (`Model/SurrogatesKernel.lean`) computes the
abstract model (`Model/Surrogates.lean`) for every content of the work arrays.
-/
namespace Pyunicorn.Surrogates
open Pyunicorn.Generated

/-! ### `Option`-valued `mapM` -/

theorem mapM_option_cons {α β : Type} (f : α → Option β) (a : α) (l : List α) :
    (a :: l).mapM f = match f a, l.mapM f with
      | some b, some bs => some (b :: bs)
      | _, _ => none := by
  rw [List.mapM_cons]
  cases f a <;> cases l.mapM f <;> rfl

theorem mapM_option_congr {α β : Type} (f g : α → Option β) (l : List α)
    (h : ∀ a ∈ l, f a = g a) : l.mapM f = l.mapM g := by
  induction l with
  | nil => rfl
  | cons a l ih =>
    rw [mapM_option_cons, mapM_option_cons, h a (List.mem_cons_self ..),
      ih (fun b hb => h b (List.mem_cons_of_mem _ hb))]

theorem mapM_option_length {α β : Type} (f : α → Option β) (l : List α) (r : List β)
    (h : l.mapM f = some r) : r.length = l.length := by
  induction l generalizing r with
  | nil => cases h; rfl
  | cons a l ih =>
    rw [mapM_option_cons] at h
    cases hfa : f a with
    | none => simp [hfa] at h
    | some b =>
      cases hl : l.mapM f with
      | none => simp [hfa, hl] at h
      | some bs =>
        simp [hfa, hl] at h
        subst h
        simp [ih bs hl]

theorem mapM_option_mem {α β : Type} (f : α → Option β) (l : List α) (r : List β)
    (h : l.mapM f = some r) : ∀ b ∈ r, ∃ a ∈ l, f a = some b := by
  induction l generalizing r with
  | nil => cases h; simp
  | cons a l ih =>
    rw [mapM_option_cons] at h
    cases hfa : f a with
    | none => simp [hfa] at h
    | some b =>
      cases hl : l.mapM f with
      | none => simp [hfa, hl] at h
      | some bs =>
        simp [hfa, hl] at h
        subst h
        intro x hx
        rcases List.mem_cons.1 hx with rfl | hx
        · exact ⟨a, List.mem_cons_self .., hfa⟩
        · obtain ⟨y, hy, hfy⟩ := ih bs hl x hx
          exact ⟨y, List.mem_cons_of_mem _ hy, hfy⟩

/-! ### `_embed_time_series_array` -/

theorem foldl_step (l : List Nat) (s : Int) :
    l.foldl (fun ix _ => ArithC15.kEmbedStep ix) s = s + (l.length : Int) := by
  induction l generalizing s with
  | nil => simp
  | cons a l ih =>
    rw [List.foldl_cons, ih]
    simp only [ArithC15.kEmbedStep, List.length_cons]
    omega

theorem embedIndex_eq (j k delay : Nat) : embedIndex j k delay = ((k + j * delay : Nat) : Int) := by
  unfold embedIndex
  rw [foldl_step]
  simp only [ArithC15.kEmbedStart, List.length_range]
  rw [Int.natCast_add, Int.natCast_mul]
  omega

theorem embed_length (row : List Rat) (dim delay : Nat) (e : List (List Rat))
    (h : embed row dim delay = some e) : e.length = row.length - (dim - 1) * delay := by
  unfold embed at h
  split at h
  · cases h
  · rw [mapM_option_length _ _ _ h, List.length_range]

theorem embedLen_eq (n dim delay : Nat) (hd : 1 ≤ dim) :
    ArithC15.embedLen (n : Int) (dim : Int) (delay : Int)
      = (n : Int) - (((dim - 1) * delay : Nat) : Int) := by
  obtain ⟨m, rfl⟩ : ∃ m, dim = m + 1 := ⟨dim - 1, by omega⟩
  simp only [ArithC15.embedLen, Nat.add_sub_cancel, Int.natCast_add, Int.natCast_mul]
  have : ((m : Int) + ((1 : Nat) : Int) - 1) = (m : Int) := by omega
  rw [this]

theorem twinLen_toNat (n dim delay : Nat) (hd : 1 ≤ dim) :
    (ArithC15.twinLen (n : Int) (dim : Int) (delay : Int)).toNat = n - (dim - 1) * delay := by
  have := embedLen_eq n dim delay hd
  simp only [ArithC15.embedLen] at this
  simp only [ArithC15.twinLen, this]
  omega

theorem embedK_eq_embed (row : List Rat) (dim delay : Nat) (hd : 1 ≤ dim) :
    embedK row dim delay = embed row dim delay := by
  have hlen := embedLen_eq row.length dim delay hd
  have hk : ArithC15.kLenEmbedded (row.length : Int) (ArithC15.kMaxDelay (dim : Int) (delay : Int))
      = ArithC15.embedLen (row.length : Int) (dim : Int) (delay : Int) := by
    simp [ArithC15.kLenEmbedded, ArithC15.kMaxDelay, ArithC15.embedLen]
  unfold embedK embed
  simp only [hk, ArithC15.embedCols, hlen]
  by_cases hgt : (dim - 1) * delay > row.length
  · have : (row.length : Int) - (((dim - 1) * delay : Nat) : Int) < 0 := by omega
    rw [if_pos (Or.inl this), if_pos hgt]
  · have h1 : ¬ ((row.length : Int) - (((dim - 1) * delay : Nat) : Int) < 0) := by omega
    have h2 : ((row.length : Int) - (((dim - 1) * delay : Nat) : Int)).toNat
        = row.length - (dim - 1) * delay := by omega
    simp only [hgt, h1, h2, Int.toNat_natCast, ne_eq, not_true_eq_false, or_self, if_false]
    apply mapM_option_congr
    intro k _
    apply mapM_option_congr
    intro j _
    simp only [embedIndex_eq]
    have h3 : ¬ (((k + j * delay : Nat) : Int) < 0) := by omega
    simp only [h3, if_false, Int.toNat_natCast]
/-! ### cells of a matrix, shapes -/

/-- entry `(a, b)` of a matrix given as a list of rows -/
def cell (R : List (List Bool)) (a b : Nat) : Option Bool := R[a]?.bind (·[b]?)

theorem cell_setCell (R : List (List Bool)) (j k : Nat) (v : Bool) (a b : Nat) :
    cell (setCell R j k v) a b
      = if a = j ∧ b = k then (cell R a b).map (fun _ => v) else cell R a b := by
  unfold cell setCell
  rw [List.getElem?_modify]
  cases h : R[a]? with
  | none => simp
  | some r =>
    by_cases haj : j = a
    · subst haj
      by_cases hbk : k = b
      · subst hbk
        by_cases hk : k < r.length
        · simp [hk]
        · simp [hk]
      · have : ¬ (b = k) := fun h => hbk h.symm
        simp [hbk, this]
    · have : ¬ (a = j) := fun h => haj h.symm
      simp [haj, this]

theorem map_length_setCell (R : List (List Bool)) (j k : Nat) (v : Bool) :
    (setCell R j k v).map List.length = R.map List.length := by
  apply List.ext_getElem?
  intro a
  unfold setCell
  simp only [List.getElem?_map, List.getElem?_modify]
  cases R[a]? with
  | none => rfl
  | some r => by_cases h : j = a <;> simp [h]

/-- `R[j,k] = R[k,j] = v` -/
def mark (v : Bool) (R : List (List Bool)) (p : Nat × Nat) : List (List Bool) :=
  setCell (setCell R p.1 p.2 v) p.2 p.1 v

/-- the cell `(a, b)` is written by `mark · · p` -/
def hits (a b : Nat) (p : Nat × Nat) : Bool := p == (a, b) || p == (b, a)

theorem hits_swap (a b : Nat) (p : Nat × Nat) : hits b a p = hits a b p := by
  simp [hits, Bool.or_comm]

theorem cell_mark (v : Bool) (R : List (List Bool)) (p : Nat × Nat) (a b : Nat) :
    cell (mark v R p) a b = (cell R a b).map (fun x => if hits a b p then v else x) := by
  obtain ⟨j, k⟩ := p
  simp only [mark, cell_setCell, hits, Prod.mk.injEq, Bool.or_eq_true, beq_iff_eq]
  cases cell R a b with
  | none => simp
  | some x =>
    simp only [Option.map_some]
    grind

theorem cell_foldl_mark (v : Bool) (ps : List (Nat × Nat)) (R : List (List Bool)) (a b : Nat) :
    cell (ps.foldl (mark v) R) a b
      = (cell R a b).map (fun x => if ps.any (hits a b) then v else x) := by
  induction ps generalizing R with
  | nil => simp
  | cons p ps ih =>
    rw [List.foldl_cons, ih, cell_mark, Option.map_map]
    congr 1
    funext x
    simp only [Function.comp, List.any_cons]
    by_cases h1 : hits a b p = true <;> by_cases h2 : ps.any (hits a b) = true <;> simp [h1, h2]

theorem map_length_mark (v : Bool) (R : List (List Bool)) (p : Nat × Nat) :
    (mark v R p).map List.length = R.map List.length := by
  simp [mark, map_length_setCell]

theorem map_length_foldl_mark (v : Bool) (ps : List (Nat × Nat)) (R : List (List Bool)) :
    (ps.foldl (mark v) R).map List.length = R.map List.length := by
  induction ps generalizing R with
  | nil => rfl
  | cons p ps ih => rw [List.foldl_cons, ih, map_length_mark]

/-- `n × n` -/
def Square (n : Nat) (R : List (List Bool)) : Prop := R.length = n ∧ ∀ r ∈ R, r.length = n

theorem square_iff (n : Nat) (R : List (List Bool)) :
    Square n R ↔ R.map List.length = List.replicate n n := by
  simp [Square, List.eq_replicate_iff]

theorem cell_of_square {n : Nat} {R : List (List Bool)} (h : Square n R) {a b : Nat}
    (ha : a < n) (hb : b < n) : ∃ x, cell R a b = some x := by
  have ha' : a < R.length := by rw [h.1]; exact ha
  have hb' : b < (R[a]).length := by rw [h.2 _ (List.getElem_mem ha')]; exact hb
  exact ⟨R[a][b], by simp [cell, List.getElem?_eq_getElem ha', List.getElem?_eq_getElem hb']⟩

theorem square_ext {n : Nat} {R R' : List (List Bool)} (h : Square n R) (h' : Square n R')
    (hc : ∀ a b, a < n → b < n → cell R a b = cell R' a b) : R = R' := by
  apply List.ext_getElem (by rw [h.1, h'.1])
  intro a h1 h2
  have hr := h.2 _ (List.getElem_mem h1)
  have hr' := h'.2 _ (List.getElem_mem h2)
  apply List.ext_getElem (by rw [hr, hr'])
  intro b h3 h4
  have := hc a b (by have := h.1; omega) (by omega)
  simpa [cell, List.getElem?_eq_getElem h1, List.getElem?_eq_getElem h2,
    List.getElem?_eq_getElem h3, List.getElem?_eq_getElem h4] using this

theorem square_replicate (n : Nat) (v : Bool) : Square n (List.replicate n (List.replicate n v)) := by
  simp [Square]

theorem cell_replicate (n : Nat) (v : Bool) (a b : Nat) (ha : a < n) (hb : b < n) :
    cell (List.replicate n (List.replicate n v)) a b = some v := by
  simp [cell, ha, hb]

/-- the work arrays have the shape the wrapper allocates -/
def Work.Shaped (n : Nat) (w : Work) : Prop :=
  w.R.length = n ∧ (∀ r ∈ w.R, r.length = n) ∧ w.nR.length = n

theorem Work.Shaped.square {n : Nat} {w : Work} (h : w.Shaped n) : Square n w.R := ⟨h.1, h.2.1⟩

/-! ### the initialisation loop -/

/-- a loop whose body updates the two work arrays independently of each other -/
theorem foldl_work_split {ι : Type} (f : List (List Bool) → ι → List (List Bool))
    (g : List Int → ι → List Int) (l : List ι) (w : Work) :
    l.foldl (fun w i => (⟨f w.R i, g w.nR i⟩ : Work)) w = ⟨l.foldl f w.R, l.foldl g w.nR⟩ := by
  induction l generalizing w with
  | nil => rfl
  | cons i l ih => rw [List.foldl_cons, ih]; rfl

/-- the cells written by the initialisation loop, in order -/
def initPairs (n : Nat) : List (Nat × Nat) :=
  (List.range n).flatMap fun j => (List.range (j + 1)).map fun k => (j, k)

theorem mem_initPairs (n : Nat) (p : Nat × Nat) : p ∈ initPairs n ↔ p.1 < n ∧ p.2 ≤ p.1 := by
  obtain ⟨j, k⟩ := p
  simp only [initPairs, List.mem_flatMap, List.mem_map, List.mem_range, Prod.mk.injEq]
  constructor
  · rintro ⟨a, ha, b, hb, rfl, rfl⟩; exact ⟨ha, by omega⟩
  · rintro ⟨h1, h2⟩; exact ⟨j, h1, k, by omega, rfl, rfl⟩

theorem kInitRange_toNat (j : Nat) : (ArithC15.kInitRange (j : Int)).toNat = j + 1 := by
  simp only [ArithC15.kInitRange]; omega

theorem initLoop_split (n : Nat) (w0 : Work) :
    initLoop n w0 = ⟨(initPairs n).foldl (mark true) w0.R,
      (List.range n).foldl (fun nR j => nR.set j (n : Int)) w0.nR⟩ := by
  unfold initLoop
  rw [foldl_work_split
    (fun R (j : Nat) => (List.range (ArithC15.kInitRange (j : Int)).toNat).foldl
        (fun R k => setCell (setCell R j k true) k j true) R)
    (fun nR (j : Nat) => nR.set j (n : Int))]
  simp only [initPairs, List.foldl_flatMap, List.foldl_map, kInitRange_toNat, mark]

theorem getElem?_foldl_set (c : Int) (l : List Nat) (xs : List Int) (a : Nat) :
    (l.foldl (fun nR j => nR.set j c) xs)[a]? = xs[a]?.map (fun x => if a ∈ l then c else x) := by
  induction l generalizing xs with
  | nil => simp
  | cons j l ih =>
    rw [List.foldl_cons, ih, List.getElem?_set]
    by_cases hja : j = a
    · subst hja
      by_cases hlt : j < xs.length
      · simp [hlt]
      · simp [hlt]
    · have : ¬ (a = j) := fun h => hja h.symm
      simp [hja, this]

theorem initLoop_eq (n : Nat) (w0 : Work) (h : w0.Shaped n) :
    initLoop n w0 = ⟨List.replicate n (List.replicate n true), List.replicate n (n : Int)⟩ := by
  rw [initLoop_split]
  congr 1
  · apply square_ext (n := n) _ (square_replicate n true)
    · intro a b ha hb
      rw [cell_foldl_mark, cell_replicate n true a b ha hb]
      obtain ⟨x, hx⟩ := cell_of_square h.square ha hb
      have hany : (initPairs n).any (hits a b) = true := by
        rw [List.any_eq_true]
        by_cases hab : b ≤ a
        · exact ⟨(a, b), (mem_initPairs n _).2 ⟨ha, hab⟩, by simp [hits]⟩
        · exact ⟨(b, a), (mem_initPairs n _).2 ⟨hb, by simp; omega⟩, by simp [hits]⟩
      simp [hx, hany]
    · rw [square_iff, map_length_foldl_mark, ← square_iff]; exact h.square
  · apply List.ext_getElem?
    intro a
    rw [getElem?_foldl_set, List.getElem?_replicate]
    by_cases ha : a < n
    · have : a < w0.nR.length := by rw [h.2.2]; exact ha
      simp [ha, List.getElem?_eq_getElem this]
    · have : w0.nR[a]? = none := by simp; rw [h.2.2]; omega
      simp [ha, this]

/-! ### the recurrence loop -/

theorem near_comm (thr : Rat) (u v : List Rat) : near thr u v = near thr v u := by
  unfold near
  rw [List.zipWith_comm]
  congr 2
  funext a b
  exact Bool.and_comm _ _

/-- the pair `(j, k)` is not a pair of neighbours: the loop body zeroes `R[j,k]`, `R[k,j]` -/
def bad (thr : Rat) (emb : List (List Rat)) (p : Nat × Nat) : Bool :=
  match emb[p.1]?, emb[p.2]? with
  | some u, some v => !near thr u v
  | _, _ => false

theorem pairStep_eq (thr : Rat) (emb : List (List Rat)) (w : Work) (j k : Nat) :
    pairStep thr emb w j k = if bad thr emb (j, k) then
      ⟨mark false w.R (j, k), (w.nR.modify j (· - 1)).modify k (· - 1)⟩ else w := by
  unfold pairStep bad mark
  cases emb[j]? <;> cases emb[k]? <;> simp
  split <;> simp_all

/-- the pairs visited by the recurrence loop, in order -/
def pairsUpTo (n : Nat) : List (Nat × Nat) :=
  (List.range n).flatMap fun j => (List.range j).map fun k => (j, k)

theorem mem_pairsUpTo (n : Nat) (p : Nat × Nat) : p ∈ pairsUpTo n ↔ p.1 < n ∧ p.2 < p.1 := by
  obtain ⟨j, k⟩ := p
  simp only [pairsUpTo, List.mem_flatMap, List.mem_map, List.mem_range, Prod.mk.injEq]
  constructor
  · rintro ⟨a, ha, b, hb, rfl, rfl⟩; exact ⟨ha, hb⟩
  · rintro ⟨h1, h2⟩; exact ⟨j, h1, k, h2, rfl, rfl⟩

theorem kPairRange_toNat (j : Nat) : (ArithC15.kPairRange (j : Int)).toNat = j := by
  simp only [ArithC15.kPairRange]; omega

/-- the body of the recurrence loop on a pair -/
def step (thr : Rat) (emb : List (List Rat)) (w : Work) (p : Nat × Nat) : Work :=
  pairStep thr emb w p.1 p.2

theorem recLoop_flat (thr : Rat) (emb : List (List Rat)) (w0 : Work) :
    recLoop thr emb w0 = (pairsUpTo emb.length).foldl (step thr emb) w0 := by
  unfold recLoop pairsUpTo
  simp only [List.foldl_flatMap, List.foldl_map, kPairRange_toNat, step]

theorem step_eq (thr : Rat) (emb : List (List Rat)) (w : Work) (p : Nat × Nat) :
    step thr emb w p = if bad thr emb p then
      ⟨mark false w.R p, (w.nR.modify p.1 (· - 1)).modify p.2 (· - 1)⟩ else w := by
  obtain ⟨j, k⟩ := p
  exact pairStep_eq thr emb w j k

theorem foldl_step_R (thr : Rat) (emb : List (List Rat)) (ps : List (Nat × Nat)) (w : Work) :
    (ps.foldl (step thr emb) w).R = (ps.filter (bad thr emb)).foldl (mark false) w.R := by
  induction ps generalizing w with
  | nil => rfl
  | cons p ps ih =>
    rw [List.foldl_cons, ih, step_eq, List.filter_cons]
    by_cases hb : bad thr emb p = true
    · simp [hb]
    · simp [hb]

theorem any_hits_pairsUpTo (f : Nat × Nat → Bool) (n a b : Nat) :
    ((pairsUpTo n).filter f).any (hits a b) = true ↔
      (b < a ∧ a < n ∧ f (a, b) = true) ∨ (a < b ∧ b < n ∧ f (b, a) = true) := by
  rw [List.any_eq_true]
  constructor
  · rintro ⟨p, hp, hh⟩
    rw [List.mem_filter, mem_pairsUpTo] at hp
    simp only [hits, Bool.or_eq_true, beq_iff_eq] at hh
    rcases hh with rfl | rfl
    · exact Or.inl ⟨hp.1.2, hp.1.1, hp.2⟩
    · exact Or.inr ⟨hp.1.2, hp.1.1, hp.2⟩
  · rintro (⟨h1, h2, h3⟩ | ⟨h1, h2, h3⟩)
    · exact ⟨(a, b), List.mem_filter.2 ⟨(mem_pairsUpTo n _).2 ⟨h2, h1⟩, h3⟩, by simp [hits]⟩
    · exact ⟨(b, a), List.mem_filter.2 ⟨(mem_pairsUpTo n _).2 ⟨h2, h1⟩, h3⟩, by simp [hits]⟩

theorem cell_recMatrix (thr : Rat) (emb : List (List Rat)) (a b : Nat)
    (ha : a < emb.length) (hb : b < emb.length) :
    cell (recMatrix thr emb) a b = some (a == b || near thr emb[a] emb[b]) := by
  simp [cell, recMatrix, List.getElem?_zipIdx, List.getElem?_eq_getElem ha,
    List.getElem?_eq_getElem hb]

theorem recMatrix_square (thr : Rat) (emb : List (List Rat)) :
    Square emb.length (recMatrix thr emb) := by
  refine ⟨by simp [recMatrix], ?_⟩
  intro r hr
  simp only [recMatrix, List.mem_map] at hr
  obtain ⟨x, _, rfl⟩ := hr
  simp

theorem bad_eq (thr : Rat) (emb : List (List Rat)) (a b : Nat)
    (ha : a < emb.length) (hb : b < emb.length) :
    bad thr emb (a, b) = !near thr emb[a] emb[b] := by
  simp [bad, List.getElem?_eq_getElem ha, List.getElem?_eq_getElem hb]

theorem recLoop_R_eq (thr : Rat) (emb : List (List Rat)) (nR0 : List Int) :
    (recLoop thr emb ⟨List.replicate emb.length (List.replicate emb.length true), nR0⟩).R
      = recMatrix thr emb := by
  rw [recLoop_flat, foldl_step_R]
  apply square_ext (n := emb.length) _ (recMatrix_square thr emb)
  · intro a b ha hb
    rw [cell_foldl_mark, cell_replicate _ _ a b ha hb, cell_recMatrix thr emb a b ha hb]
    simp only [Option.map_some, Option.some.injEq]
    have key := any_hits_pairsUpTo (bad thr emb) emb.length a b
    rw [bad_eq thr emb a b ha hb, bad_eq thr emb b a hb ha, near_comm thr emb[b] emb[a]] at key
    cases hn : near thr emb[a] emb[b] with
    | true =>
      have : ¬ ((pairsUpTo emb.length).filter (bad thr emb)).any (hits a b) = true := by
        rw [key]; simp [hn]
      simp [this]
    | false =>
      by_cases hab : a = b
      · have : ¬ ((pairsUpTo emb.length).filter (bad thr emb)).any (hits a b) = true := by
          rw [key]; omega
        rw [if_neg this]; simp [hab]
      · have : ((pairsUpTo emb.length).filter (bad thr emb)).any (hits a b) = true := by
          rw [key]; simp [hn]; omega
        simp [this, hab]
  · rw [square_iff, map_length_foldl_mark, ← square_iff]; exact square_replicate _ _

/-! ### the bookkeeping of `nR`: the counts follow the matrix -/

/-- `nR` holds the number of ones of every row of `R` -/
def Consistent (w : Work) : Prop := w.nR = (rowCounts w.R).map (fun c : Nat => (c : Int))

theorem count_set_false (r : List Bool) (k : Nat) (h : r[k]? = some true) :
    (((r.set k false).count true : Nat) : Int) = ((r.count true : Nat) : Int) - 1 := by
  obtain ⟨hk, hv⟩ := List.getElem?_eq_some_iff.1 h
  rw [List.count_set hk]
  have hpos : 0 < r.count true := List.count_pos_iff.2 (hv ▸ List.getElem_mem hk)
  simp only [hv, beq_self_eq_true, if_true]
  simp only [show (false == true) = false from rfl]
  simp
  omega

theorem consistent_mark (R : List (List Bool)) (j k : Nat) (hjk : j ≠ k)
    (h1 : cell R j k = some true) (h2 : cell R k j = some true) :
    ((((rowCounts R).map (fun c : Nat => (c : Int))).modify j (· - 1)).modify k (· - 1))
      = (rowCounts (mark false R (j, k))).map (fun c : Nat => (c : Int)) := by
  apply List.ext_getElem?
  intro a
  simp only [List.getElem?_modify, List.getElem?_map, rowCounts, mark, setCell]
  cases hR : R[a]? with
  | none => simp
  | some r =>
    simp only [Option.map_some, Option.map_eq_map]
    by_cases haj : j = a
    · subst haj
      have hrk : r[k]? = some true := by simpa [cell, hR] using h1
      have hkj : ¬ k = j := fun h => hjk h.symm
      simp [hkj, count_set_false r k hrk]
    · by_cases hak : k = a
      · subst hak
        have hrj : r[j]? = some true := by simpa [cell, hR] using h2
        simp [haj, count_set_false r j hrj]
      · simp [haj, hak]

theorem foldl_step_consistent (thr : Rat) (emb : List (List Rat)) (ps : List (Nat × Nat))
    (w : Work) (hc : Consistent w)
    (h1 : ∀ p ∈ ps, p.1 ≠ p.2 ∧ cell w.R p.1 p.2 = some true ∧ cell w.R p.2 p.1 = some true)
    (h2 : ps.Pairwise (fun p q => hits q.1 q.2 p = false)) :
    Consistent (ps.foldl (step thr emb) w) := by
  induction ps generalizing w with
  | nil => exact hc
  | cons p ps ih =>
    rw [List.foldl_cons]
    rw [List.pairwise_cons] at h2
    have hp := h1 p (List.mem_cons_self ..)
    apply ih
    · rw [step_eq]
      by_cases hb : bad thr emb p = true
      · rw [if_pos hb]
        unfold Consistent at hc ⊢
        simp only
        rw [hc]
        exact consistent_mark w.R p.1 p.2 hp.1 hp.2.1 hp.2.2
      · rw [if_neg hb]; exact hc
    · intro q hq
      have hq1 := h1 q (List.mem_cons_of_mem _ hq)
      have hh := h2.1 q hq
      rw [step_eq]
      by_cases hb : bad thr emb p = true
      · rw [if_pos hb]
        refine ⟨hq1.1, ?_, ?_⟩
        · show cell (mark false w.R p) q.1 q.2 = some true
          rw [cell_mark, hh, hq1.2.1]; simp
        · show cell (mark false w.R p) q.2 q.1 = some true
          rw [cell_mark, hits_swap, hh, hq1.2.2]; simp
      · rw [if_neg hb]; exact hq1
    · exact h2.2

theorem pairsUpTo_pairwise (n : Nat) :
    (pairsUpTo n).Pairwise (fun p q => hits q.1 q.2 p = false) := by
  unfold pairsUpTo
  rw [List.pairwise_flatMap]
  constructor
  · intro j _
    rw [List.pairwise_map]
    refine List.Pairwise.imp_of_mem ?_ (List.pairwise_lt_range (n := j))
    intro k k' hk hk' hlt
    rw [List.mem_range] at hk hk'
    simp [hits]
    omega
  · refine List.Pairwise.imp_of_mem ?_ (List.pairwise_lt_range (n := n))
    intro j j' _ _ hlt x hx y hy
    simp only [List.mem_map, List.mem_range] at hx hy
    obtain ⟨k, hk, rfl⟩ := hx
    obtain ⟨k', hk', rfl⟩ := hy
    simp [hits]
    omega

theorem consistent_init (n : Nat) :
    Consistent ⟨List.replicate n (List.replicate n true), List.replicate n (n : Int)⟩ := by
  simp [Consistent, rowCounts]

theorem recLoop_eq (thr : Rat) (emb : List (List Rat)) :
    recLoop thr emb ⟨List.replicate emb.length (List.replicate emb.length true),
        List.replicate emb.length (emb.length : Int)⟩
      = ⟨recMatrix thr emb, (rowCounts (recMatrix thr emb)).map (fun c : Nat => (c : Int))⟩ := by
  have hR := recLoop_R_eq thr emb (List.replicate emb.length (emb.length : Int))
  have hC : Consistent (recLoop thr emb ⟨List.replicate emb.length (List.replicate emb.length true),
      List.replicate emb.length (emb.length : Int)⟩) := by
    rw [recLoop_flat]
    apply foldl_step_consistent _ _ _ _ (consistent_init _) _ (pairsUpTo_pairwise _)
    intro p hp
    rw [mem_pairsUpTo] at hp
    exact ⟨by omega, cell_replicate _ _ _ _ hp.1 (by omega), cell_replicate _ _ _ _ (by omega) hp.1⟩
  unfold Consistent at hC
  rw [hR] at hC
  generalize recLoop thr emb _ = w at hR hC
  cases w
  simp only at hR hC
  rw [hR, hC]

/-! ### the twin test and the twin loop on the work arrays -/

theorem isTwinW_eq (R : List (List Bool)) (j k : Nat) :
    isTwinW ⟨R, (rowCounts R).map (fun c : Nat => (c : Int))⟩ j k = isTwin R (rowCounts R) j k := by
  unfold isTwinW isTwin
  simp only [List.getElem?_map]
  cases R[j]? <;> cases R[k]? <;> cases (rowCounts R)[j]? <;> cases (rowCounts R)[k]? <;>
    simp only [Option.map_some, Option.map_none]
  next rj rk a b =>
    have h1 : ((a : Int) == (b : Int)) = (a == b) := by
      rw [Bool.eq_iff_iff]; simp only [beq_iff_eq]; omega
    have h2 : ((a : Int) != 1) = (a != 1) := by
      rw [Bool.eq_iff_iff]; simp only [bne_iff_ne, ne_eq]; omega
    rw [h1, h2]

theorem kTwinRangeS_toNat (j md : Nat) : (ArithC15.kTwinRangeS (j : Int) (md : Int)).toNat = j - md := by
  simp only [ArithC15.kTwinRangeS]; omega

theorem kTwinRangeR_toNat (j md : Nat) : (ArithC15.kTwinRangeR (j : Int) (md : Int)).toNat = j - md := by
  simp only [ArithC15.kTwinRangeR]; omega

theorem twinListsK_S_eq (n md : Nat) (tw : Nat → Nat → Bool) :
    twinListsK n md ArithC15.kTwinRangeS tw = twinLists n md tw := by
  simp only [twinListsK, twinLists, allPairs, kTwinRangeS_toNat]
  rfl

theorem twinListsK_R_eq (n md : Nat) (tw : Nat → Nat → Bool) :
    twinListsK n md ArithC15.kTwinRangeR tw = twinLists n md tw := by
  simp only [twinListsK, twinLists, allPairs, kTwinRangeR_toNat]
  rfl

theorem twinsRK_eq (md n : Nat) (R : List (List Bool)) (nR : List Nat) :
    twinsRK md n R nR = twinsR md n R nR := by
  simp only [twinsRK, twinsR, twinListsK_R_eq]

/-! ### `_twins_s` on re-used work arrays -/

theorem recMatrix_shaped (thr : Rat) (emb : List (List Rat)) :
    Work.Shaped emb.length
      ⟨recMatrix thr emb, (rowCounts (recMatrix thr emb)).map (fun c : Nat => (c : Int))⟩ := by
  have h := recMatrix_square thr emb
  exact ⟨h.1, h.2, by simp [rowCounts, h.1]⟩

theorem twinsKernelOne_eq (thr : Rat) (md : Nat) (emb : List (List Rat)) (w0 : Work)
    (h : w0.Shaped emb.length) :
    twinsKernelOne thr md emb w0 = (twinsS thr md emb,
      ⟨recMatrix thr emb, (rowCounts (recMatrix thr emb)).map (fun c : Nat => (c : Int))⟩) := by
  unfold twinsKernelOne twinsS
  simp only [initLoop_eq _ _ h, recLoop_eq, twinListsK_S_eq]
  congr 2
  funext j k
  exact isTwinW_eq _ j k

theorem twinsKernel_eq (thr : Rat) (md : Nat) (embs : List (List (List Rat))) (n : Nat)
    (hn : ∀ e ∈ embs, e.length = n) (w0 : Work) (h : w0.Shaped n) :
    (twinsKernel thr md embs w0).1 = embs.map (twinsS thr md) := by
  induction embs generalizing w0 with
  | nil => rfl
  | cons emb rest ih =>
    have he : emb.length = n := hn emb (List.mem_cons_self ..)
    subst he
    simp only [twinsKernel, List.map_cons, twinsKernelOne_eq thr md emb w0 h]
    rw [ih (fun e he => hn e (List.mem_cons_of_mem _ he)) _ (recMatrix_shaped thr emb)]

theorem twinsMethod_eq (thr : Rat) (md : Nat) (embs : List (List (List Rat))) (n : Nat)
    (hn : ∀ e ∈ embs, e.length = n) (g : Nat → Nat → Bool) (gn : Nat → Int) :
    twinsMethod thr md embs g gn = embs.map (twinsS thr md) := by
  unfold twinsMethod
  cases embs with
  | nil => rfl
  | cons emb rest =>
    have he : emb.length = n := hn emb (List.mem_cons_self ..)
    simp only [List.headD_cons, he]
    apply twinsKernel_eq thr md _ n hn
    refine ⟨by simp, ?_, by simp⟩
    intro r hr
    simp only [List.mem_map] at hr
    obtain ⟨j, _, rfl⟩ := hr
    simp

/-! ### `Surrogates.twin_surrogates` -/

theorem twinSurrogatesK_eq (data : List (List Rat)) (n dim delay : Nat) (thr : Rat) (md : Nat)
    (pick : Nat → Nat → Nat) (g : Nat → Nat → Bool) (gn : Nat → Int) (hd : 1 ≤ dim)
    (hrows : ∀ r ∈ data, r.length = n) :
    twinSurrogatesK data dim delay thr md pick g gn = twinSurrogates data dim delay thr md pick := by
  unfold twinSurrogatesK twinSurrogates
  have hm : data.mapM (embedK · dim delay) = data.mapM (embed · dim delay) :=
    mapM_option_congr _ _ _ (fun row _ => embedK_eq_embed row dim delay hd)
  rw [hm]
  cases hE : data.mapM (embed · dim delay) with
  | none => rfl
  | some embs =>
    have hlen : ∀ e ∈ embs, e.length = n - (dim - 1) * delay := by
      intro e he
      obtain ⟨row, hrow, hre⟩ := mapM_option_mem _ _ _ hE e he
      rw [embed_length row dim delay e hre, hrows row hrow]
    simp only [twinsMethod_eq thr md embs _ hlen g gn, twinLen_toNat _ dim delay hd]
    rfl

end Pyunicorn.Surrogates
