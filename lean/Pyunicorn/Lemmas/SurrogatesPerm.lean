import Pyunicorn.Model.Surrogates
import Batteries.Data.List.Basic
/-! C15, permutation half: every shuffling / rank-remapping surrogate row is a
permutation of the original row.  Core Lean + `Batteries.Data.List.Basic` (for `List.Forall₂`). -/
namespace Pyunicorn.Surrogates

/-! ### fancy indexing -/

theorem gather_eq_some_iff {xs : List α} {idx : List Nat} {ys : List α} :
    gather xs idx = some ys ↔ idx.map (xs[·]?) = ys.map some := by
  induction idx generalizing ys with
  | nil => cases ys <;> simp [gather]
  | cons i is ih =>
    cases ys with
    | nil =>
      simp only [gather, List.map_cons, List.map_nil]
      split <;> simp
    | cons y ys =>
      simp only [gather, List.map_cons, List.cons.injEq]
      split
      · next x r hx hr =>
        rw [hx]
        simp only [Option.some.injEq, List.cons.injEq]
        constructor
        · rintro ⟨rfl, rfl⟩; exact ⟨rfl, ih.mp hr⟩
        · rintro ⟨rfl, h⟩
          have := ih.mpr h
          rw [hr] at this
          exact ⟨rfl, Option.some.inj this⟩
      · next hno =>
        constructor
        · intro h; cases h
        · rintro ⟨hx, h⟩
          exact absurd (ih.mpr h) (hno y ys hx)

theorem gather_length {xs : List α} {idx : List Nat} {ys : List α}
    (h : gather xs idx = some ys) : ys.length = idx.length := by
  have := congrArg List.length (gather_eq_some_iff.mp h)
  simpa using this.symm

theorem gather_isSome_of_lt (xs : List α) (idx : List Nat) (h : ∀ i ∈ idx, i < xs.length) :
    ∃ ys, gather xs idx = some ys := by
  induction idx with
  | nil => exact ⟨[], rfl⟩
  | cons i is ih =>
    obtain ⟨r, hr⟩ := ih (fun j hj => h j (List.mem_cons_of_mem _ hj))
    have hi : i < xs.length := h i List.mem_cons_self
    refine ⟨xs[i] :: r, ?_⟩
    simp [gather, hr, hi]

theorem map_getElem?_range (xs : List α) :
    (List.range xs.length).map (xs[·]?) = xs.map some := by
  apply List.ext_getElem?
  intro i
  by_cases hi : i < xs.length
  · simp [hi]
  · have : xs.length ≤ i := Nat.le_of_not_lt hi
    simp [this]

/-- fancy indexing with any permutation of the index range is a permutation of the array -/
theorem gather_perm (xs : List α) (idx : List Nat) (h : idx.Perm (List.range xs.length)) :
    ∃ ys, gather xs idx = some ys ∧ ys.Perm xs := by
  obtain ⟨ys, hys⟩ := gather_isSome_of_lt xs idx (fun i hi => by
    have := h.mem_iff.mp hi
    simpa using this)
  refine ⟨ys, hys, ?_⟩
  have h1 : (ys.map some).Perm (xs.map some) := by
    rw [← gather_eq_some_iff.mp hys, ← map_getElem?_range]
    exact h.map _
  have h2 := h1.filterMap id
  simpa [List.filterMap_map] using h2

/-- an index outside the array is an IndexError -/
theorem gather_none_of_oob (xs : List α) (idx : List Nat) (i : Nat) (hi : i ∈ idx)
    (h : xs.length ≤ i) : gather xs idx = none := by
  induction idx with
  | nil => cases hi
  | cons j js ih =>
    rcases List.mem_cons.mp hi with rfl | hj
    · simp [gather, List.getElem?_eq_none h]
    · simp only [gather, ih hj]
      split <;> simp_all

/-! ### sorting, argsort, ranks -/

theorem sortR_perm (xs : List Rat) : (sortR xs).Perm xs :=
  List.mergeSort_perm _ _

theorem argsortGen_perm {β : Type} (xs : List β) (le : β × Nat → β × Nat → Bool) :
    ((xs.zipIdx.mergeSort le).map (·.2)).Perm (List.range xs.length) := by
  have h := (List.mergeSort_perm xs.zipIdx le).map (·.2)
  have e : xs.zipIdx.map (·.2) = List.range xs.length := by
    rw [List.range_eq_range']
    exact List.zipIdx_map_snd 0 xs
  rw [e] at h
  exact h

theorem argsort_perm (xs : List Rat) : (argsort xs).Perm (List.range xs.length) :=
  argsortGen_perm xs _

theorem argsortNat_perm (xs : List Nat) : (argsortNat xs).Perm (List.range xs.length) :=
  argsortGen_perm xs _

theorem argsort_length (xs : List Rat) : (argsort xs).length = xs.length := by
  simpa using (argsort_perm xs).length_eq

theorem ranks_perm (s : List Rat) : (ranks s).Perm (List.range s.length) := by
  have := argsortNat_perm (argsort s)
  rwa [argsort_length] at this

/-- (refined) AAFT amplitude adjustment of one row: a permutation of the row whatever
the array `s` that is ranked -/
theorem remap_perm (row s : List Rat) (h : s.length = row.length) :
    ∃ ys, remap row s = some ys ∧ ys.Perm row := by
  have hl : (sortR row).length = row.length := (sortR_perm row).length_eq
  obtain ⟨ys, h1, h2⟩ := gather_perm (sortR row) (ranks s) (by rw [hl, ← h]; exact ranks_perm s)
  exact ⟨ys, h1, h2.trans (sortR_perm row)⟩

/-! ### row-wise lifting -/

/-- generic row-wise lifting -/
theorem rowsM_spec {f : List α → List β → Option (List γ)} {P : List α → List β → Prop}
    {Q : List γ → List α → Prop}
    (hf : ∀ r p, P r p → ∃ y, f r p = some y ∧ Q y r) :
    ∀ (rs : List (List α)) (ps : List (List β)), List.Forall₂ P rs ps →
      ∃ out, rowsM f rs ps = some out ∧ List.Forall₂ Q out rs := by
  intro rs ps h
  induction h with
  | nil => exact ⟨[], by simp [rowsM], .nil⟩
  | cons hp _ ih =>
    obtain ⟨out, ho, hq⟩ := ih
    obtain ⟨y, hy, hqy⟩ := hf _ _ hp
    exact ⟨y :: out, by simp [rowsM, hy, ho], .cons hqy hq⟩

theorem whiteNoise_perm (data : List (List Rat)) (perms : List (List Nat))
    (h : List.Forall₂ (fun r p => p.Perm (List.range r.length)) data perms) :
    ∃ out, whiteNoise data perms = some out ∧ List.Forall₂ List.Perm out data :=
  rowsM_spec (f := gather) (fun r p hp => gather_perm r p hp) data perms h

theorem aaft_perm (data s : List (List Rat))
    (h : List.Forall₂ (fun r p => p.length = r.length) data s) :
    ∃ out, aaft data s = some out ∧ List.Forall₂ List.Perm out data :=
  rowsM_spec (f := remap) (fun r p hp => remap_perm r p hp) data s h

/-- every number of refinement iterations, every sequence of intermediate
spectra-adjusted arrays -/
theorem refinedAaft_perm (data s0 : List (List Rat)) (ss : List (List (List Rat)))
    (h0 : List.Forall₂ (fun r p => p.length = r.length) data s0)
    (hs : ∀ s ∈ ss, List.Forall₂ (fun r p => p.length = r.length) data s) :
    ∃ out, refinedAaft data s0 ss = some out ∧ List.Forall₂ List.Perm out data := by
  unfold refinedAaft
  generalize aaft data s0 = R0, aaft_perm data s0 h0 = hR0
  induction ss generalizing R0 with
  | nil => simpa using hR0
  | cons s ss ih =>
    rw [List.foldl_cons]
    apply ih (fun t ht => hs t (List.mem_cons_of_mem _ ht))
    obtain ⟨out, rfl, _⟩ := hR0
    exact aaft_perm data s (hs s List.mem_cons_self)

/-! ### Fisher–Yates -/

theorem swap_perm (xs : Array α) (i j : Nat) : (swap xs i j).toList.Perm xs.toList := by
  unfold swap
  split
  · next h => exact (Array.swap_perm h.1 h.2).toList
  · exact .refl _

/-- Fisher–Yates with an arbitrary draw stream is a permutation -/
theorem fisherYates_perm (xs : Array α) (draws : List Nat) :
    (fisherYates xs draws).toList.Perm xs.toList := by
  unfold fisherYates
  generalize (List.range xs.size).reverse.zip draws = l
  suffices H : ∀ (a : Array α), a.toList.Perm xs.toList →
      (l.foldl (fun a (p : Nat × Nat) => swap a p.1 (p.2 % (p.1 + 1))) a).toList.Perm xs.toList from
    H xs (.refl _)
  induction l with
  | nil => intro a ha; simpa using ha
  | cons p l ih =>
    intro a ha
    rw [List.foldl_cons]
    exact ih _ ((swap_perm a _ _).trans ha)

end Pyunicorn.Surrogates
