import Pyunicorn.Lemmas.Nsi
/-!
Shortest-path lengths of the split graph are the pull-back of those of the original graph
(with distance 1 between the twins).  This discharges, for graphs whose `dist` field *is*
the shortest-path length, the assumption built into `Nsi.split`.
-/
namespace Pyunicorn.Nsi

/-- a walk of length `k` from `a` to `b` along links, inside the node range -/
inductive Walk (G : Gr) : Nat → Nat → Nat → Prop
  | nil (a : Nat) (ha : a < G.n) : Walk G a a 0
  | cons (a b c k : Nat) (ha : a < G.n) (hab : G.adj a b = true) (w : Walk G b c k) :
      Walk G a c (k + 1)

theorem Walk.end_lt {G : Gr} {a b k : Nat} (w : Walk G a b k) : b < G.n := by
  induction w with
  | nil a ha => exact ha
  | cons _ _ _ _ _ _ _ ih => exact ih

theorem Walk.start_lt {G : Gr} {a b k : Nat} (w : Walk G a b k) : a < G.n := by
  cases w with
  | nil a ha => exact ha
  | cons _ _ _ _ ha _ _ => exact ha

theorem Walk.zero_eq {G : Gr} {a b : Nat} (w : Walk G a b 0) : a = b := by
  cases w; rfl

/-- `d` is the shortest-path length from `a` to `b` (`none`: unreachable) -/
def IsDist (G : Gr) (a b : Nat) : Option Nat → Prop
  | some d => Walk G a b d ∧ ∀ k, Walk G a b k → d ≤ k
  | none => ∀ k, ¬ Walk G a b k

theorem collapse_lt_n (n v k : Nat) (hv : v < n) (hk : k < n + 1) : collapse n v k < n := by
  unfold collapse; split <;> omega

/-- every walk of the split graph collapses to a walk of the original graph that is not longer -/
theorem walk_collapse (G : Gr) (v : Nat) (p : Rat) (hv : v < G.n) {a b k : Nat}
    (w : Walk (split G v p) a b k) :
    ∃ k', k' ≤ k ∧ Walk G (collapse G.n v a) (collapse G.n v b) k' := by
  induction w with
  | nil a ha => exact ⟨0, Nat.le_refl _, Walk.nil _ (collapse_lt_n _ _ _ hv ha)⟩
  | cons a b c k ha hab w ih =>
    obtain ⟨k', hk', w'⟩ := ih
    have ha' : collapse G.n v a < G.n := collapse_lt_n _ _ _ hv ha
    by_cases hc : collapse G.n v a = collapse G.n v b
    · exact ⟨k', by omega, by rw [hc]; exact w'⟩
    · refine ⟨k' + 1, by omega, Walk.cons _ _ _ _ ha' ?_ w'⟩
      -- the link is inherited from the original graph
      simp only [split] at hab
      by_cases h1 : a = G.n ∧ b = G.n
      · simp [h1] at hab
      · by_cases h2 : (a = G.n ∧ b = v) ∨ (a = v ∧ b = G.n)
        · exfalso; apply hc
          rcases h2 with ⟨rfl, rfl⟩ | ⟨rfl, rfl⟩ <;> simp [collapse]
        · simpa [h1, h2] using hab

/-- every walk of the original graph between the collapsed end points lifts to a walk of the
same length between any two *distinct-after-collapse* preimages (loop-free graphs) -/
theorem walk_lift (G : Gr) (v : Nat) (p : Rat) (hv : v < G.n) (hloop : ∀ i, G.adj i i = false)
    {x y k : Nat} (w : Walk G x y k) :
    ∀ a b, a < G.n + 1 → b < G.n + 1 → collapse G.n v a = x → collapse G.n v b = y →
      (k = 0 → a = b) → Walk (split G v p) a b k := by
  induction w with
  | nil x hx =>
    intro a b ha hb _ _ h0
    have := h0 rfl; subst this
    exact Walk.nil _ (by simpa [split] using ha)
  | cons x z y k hx hxz w ih =>
    intro a b ha hb hax hby _
    -- next node: `z` itself if the remaining walk is non-trivial, else the prescribed end `b`
    by_cases hk : k = 0
    · subst hk
      have hzy : z = y := w.zero_eq
      subst hzy
      refine Walk.cons a b b 0 (by simpa [split] using ha) ?_ (Walk.nil _ (by simpa [split] using hb))
      simp only [split]
      have hne : ¬ (a = G.n ∧ b = G.n) := by
        rintro ⟨rfl, rfl⟩
        rw [hax] at hby; subst hby
        rw [hloop] at hxz; exact Bool.noConfusion hxz
      by_cases h2 : (a = G.n ∧ b = v) ∨ (a = v ∧ b = G.n)
      · simp [hne, h2]
      · simp [hne, h2, hax, hby, hxz]
    · have hz : z < G.n := w.start_lt
      have hcz : collapse G.n v z = z := collapse_lt _ _ _ hz
      refine Walk.cons a z b k (by simpa [split] using ha) ?_
        (ih z b (by omega) hb hcz hby (fun h => absurd h hk))
      simp only [split]
      have hne : ¬ (a = G.n ∧ z = G.n) := by omega
      by_cases h2 : (a = G.n ∧ z = v) ∨ (a = v ∧ z = G.n)
      · simp [hne, h2]
      · simp [hne, h2, hax, hcz, hxz]

/-- **distances of the split graph.** If `G.dist` is the shortest-path length of the loop-free
graph `G`, then the distance function `split` installs — twins at distance 1, everything else
pulled back along the collapse map — is the shortest-path length of the split graph. -/
theorem split_dist_isDist (G : Gr) (v : Nat) (p : Rat) (hv : v < G.n)
    (hloop : ∀ i, G.adj i i = false)
    (hd : ∀ a b, a < G.n → b < G.n → IsDist G a b (G.dist a b)) :
    ∀ a b, a < G.n + 1 → b < G.n + 1 →
      IsDist (split G v p) a b ((split G v p).dist a b) := by
  intro a b ha hb
  have hca := collapse_lt_n G.n v a hv ha
  have hcb := collapse_lt_n G.n v b hv hb
  by_cases hab : a = b
  · subst hab
    simp only [split, if_true, IsDist]
    exact ⟨Walk.nil _ (by simpa [split] using ha), fun k _ => Nat.zero_le _⟩
  · by_cases hc : collapse G.n v a = collapse G.n v b
    · -- the two twins
      have htw := (collapse_eq_iff G.n v a b hv hab).mp hc
      simp only [split, hab, if_false, hc, if_true, IsDist]
      refine ⟨Walk.cons a b b 0 (by simpa [split] using ha) ?_
        (Walk.nil _ (by simpa [split] using hb)), ?_⟩
      · simp only [split]
        have hne : ¬ (a = G.n ∧ b = G.n) := by omega
        simp [hne, htw]
      · intro k w
        cases k with
        | zero => exact absurd w.zero_eq hab
        | succ k => omega
    · have hdist : (split G v p).dist a b = G.dist (collapse G.n v a) (collapse G.n v b) := by
        simp [split, hab, hc]
      rw [hdist]
      have hG := hd _ _ hca hcb
      cases hdv : G.dist (collapse G.n v a) (collapse G.n v b) with
      | none =>
        rw [hdv] at hG
        intro k w
        obtain ⟨k', _, w'⟩ := walk_collapse G v p hv w
        exact hG k' w'
      | some d =>
        rw [hdv] at hG
        obtain ⟨wG, hmin⟩ := hG
        refine ⟨walk_lift G v p hv hloop wG a b ha hb rfl rfl ?_, ?_⟩
        · intro h0; subst h0; exact absurd wG.zero_eq hc
        · intro k w
          obtain ⟨k', hk', w'⟩ := walk_collapse G v p hv w
          exact Nat.le_trans (hmin k' w') hk'

end Pyunicorn.Nsi
