import Pyunicorn.Lemmas.RandomD
/-! Helper lemmas for C17: link lengths over a whole run of the geographical rewiring
(core Lean only). -/
namespace Pyunicorn.Random

/-- `|x - y| ≤ b` -/
def closeBy (b x y : Int) : Prop := x - y ≤ b ∧ y - x ≤ b

/-- `σ` is a bijection of `[0, E)` with inverse `τ` -/
def BijOn (E : Nat) (σ τ : Nat → Nat) : Prop :=
  ∀ p, p < E → σ p < E ∧ τ p < E ∧ τ (σ p) = p ∧ σ (τ p) = p

/-- the transposition of two positions -/
def tr (a b p : Nat) : Nat := if p = a then b else if p = b then a else p

theorem bijOn_id (E : Nat) : BijOn E id id := fun _ h => ⟨h, h, rfl, rfl⟩

theorem bijOn_tr (E a b : Nat) (ha : a < E) (hb : b < E) : BijOn E (tr a b) (tr a b) := by
  intro p hp
  simp only [tr]
  refine ⟨?_, ?_, ?_, ?_⟩ <;> grind

theorem bijOn_comp (E : Nat) (σ τ σ' τ' : Nat → Nat) (h : BijOn E σ τ) (h' : BijOn E σ' τ') :
    BijOn E (σ' ∘ σ) (τ ∘ τ') := by
  intro p hp
  obtain ⟨a1, a2, a3, a4⟩ := h p hp
  obtain ⟨b1, b2, b3, b4⟩ := h' p hp
  obtain ⟨c1, -, c3, -⟩ := h' (σ p) a1
  obtain ⟨-, d2, -, d4⟩ := h (τ' p) b2
  simp only [Function.comp]
  exact ⟨c1, d2, by rw [c3, a3], by rw [d4, b4]⟩

/-- **one pass through the loop body**: the links before and after can be matched one to one
(identity or the transposition of the two drawn positions) so that matched lengths differ by
at most `(i' − i)·eps` — `0` if nothing was rewired, `eps` otherwise. -/
theorem geoStep_match (c : GeoCfg) (st st1 : GeoSt) (d : Nat × Nat)
    (h : geoStep c st d = some st1) :
    ∃ σ, BijOn st.edges.length σ σ ∧ st1.edges.length = st.edges.length ∧
      ∀ p e, st.edges[p]? = some e → ∃ e', st1.edges[σ p]? = some e' ∧
        closeBy (((st1.i : Int) - (st.i : Int)) * c.eps) (c.D e.1 e.2) (c.D e'.1 e'.2) := by
  rcases geoStep_cases c st st1 d h with rfl | ⟨s, t, k, l, hp, hq, e1, e2, acc, rfl⟩
  · refine ⟨id, bijOn_id _, rfl, ?_⟩
    intro p e he
    refine ⟨e, he, ?_⟩
    simp only [Int.sub_self, Int.zero_mul, closeBy]; omega
  · have hone : (((st.i + 1 : Nat) : Int) - (st.i : Int)) * c.eps = c.eps := by
      have : (((st.i + 1 : Nat) : Int) - (st.i : Int)) = 1 := by omega
      rw [this, Int.one_mul]
    have hsk : s ≠ k := by
      simp only [geoAccept, Bool.and_eq_true, bne_iff_ne, ne_eq] at acc; exact acc.1.1.1.1.1.1
    have hpq : d.1 ≠ d.2 := by
      intro hh
      have e3 : st.edges[d.1] = st.edges[d.2] := by simp [hh]
      rw [e1, e2] at e3; simp at e3; omega
    have g1 : st.edges[d.1]? = some (s, t) := by rw [List.getElem?_eq_getElem hp, e1]
    have g2 : st.edges[d.2]? = some (k, l) := by rw [List.getElem?_eq_getElem hq, e2]
    simp only [geoAccept, Bool.and_eq_true] at acc
    have hl := acc.2
    simp only [condLen] at hl
    -- position-wise matching (C2, or the second alternative of C1)
    have direct : (near c.D c.eps s t s l = true ∧ near c.D c.eps k l k t = true) →
        ∃ σ, BijOn st.edges.length σ σ ∧
          ((st.edges.set d.1 (s, l)).set d.2 (k, t)).length = st.edges.length ∧
          ∀ p e, st.edges[p]? = some e → ∃ e', ((st.edges.set d.1 (s, l)).set d.2 (k, t))[σ p]? = some e' ∧
            closeBy ((((st.i + 1 : Nat) : Int) - (st.i : Int)) * c.eps) (c.D e.1 e.2) (c.D e'.1 e'.2) := by
      intro hn
      simp only [near, Bool.and_eq_true, decide_eq_true_eq] at hn
      refine ⟨id, bijOn_id _, by simp, ?_⟩
      intro p e he
      rw [hone]
      simp only [id, List.getElem?_set, List.length_set]
      by_cases h2 : d.2 = p
      · subst h2; rw [g2] at he; cases he
        exact ⟨(k, t), by simp [hq], by simp only [closeBy]; omega⟩
      · by_cases h1 : d.1 = p
        · subst h1; rw [g1] at he; cases he
          exact ⟨(s, l), by simp [h2, hp], by simp only [closeBy]; omega⟩
        · exact ⟨e, by simp [h1, h2, he], by simp only [closeBy]; have := hn.1.1; omega⟩
    -- crossed matching (first alternative of C1)
    have crossed : (near c.D c.eps s t k t = true ∧ near c.D c.eps k l s l = true) →
        ∃ σ, BijOn st.edges.length σ σ ∧
          ((st.edges.set d.1 (s, l)).set d.2 (k, t)).length = st.edges.length ∧
          ∀ p e, st.edges[p]? = some e → ∃ e', ((st.edges.set d.1 (s, l)).set d.2 (k, t))[σ p]? = some e' ∧
            closeBy ((((st.i + 1 : Nat) : Int) - (st.i : Int)) * c.eps) (c.D e.1 e.2) (c.D e'.1 e'.2) := by
      intro hn
      simp only [near, Bool.and_eq_true, decide_eq_true_eq] at hn
      refine ⟨tr d.1 d.2, bijOn_tr _ _ _ hp hq, by simp, ?_⟩
      intro p e he
      rw [hone]
      simp only [List.getElem?_set, List.length_set]
      by_cases h1 : p = d.1
      · subst h1; rw [g1] at he; cases he
        refine ⟨(k, t), by simp [tr, hq], by simp only [closeBy]; omega⟩
      · by_cases h2 : p = d.2
        · subst h2; rw [g2] at he; cases he
          refine ⟨(s, l), ?_, by simp only [closeBy]; omega⟩
          simp only [tr, if_neg h1, if_true]
          simp [hp]
        · refine ⟨e, ?_, by simp only [closeBy]; have := hn.1.1; omega⟩
          simp only [tr, if_neg h1, if_neg h2]
          have h1' : ¬ d.1 = p := fun e => h1 e.symm
          have h2' : ¬ d.2 = p := fun e => h2 e.symm
          simp [h1', h2', he]
    cases hm : c.mode <;> simp only [hm] at hl
    · simp only [condC1, Bool.or_eq_true, Bool.and_eq_true] at hl
      rcases hl with hl | hl
      · exact crossed hl
      · exact direct hl
    · simp only [condC2, Bool.and_eq_true] at hl
      exact direct ⟨hl.1.1.1, hl.1.2⟩
    · simp only [condC2, Bool.and_eq_true] at hl
      exact direct ⟨hl.1.1.1, hl.1.2⟩

theorem closeBy_trans (a b x y z : Int) (h1 : closeBy a x y) (h2 : closeBy b y z) :
    closeBy (a + b) x z := by
  simp only [closeBy] at *; omega

/-- **whole run**: the links before and after a run can be matched one to one so that matched
lengths differ by at most `(number of rewirings)·eps`. -/
theorem geoRun_match (c : GeoCfg) (iterations : Nat) (draws : List (Nat × Nat)) (st st' : GeoSt)
    (h : geoRun c iterations draws st = some st') :
    ∃ σ τ, BijOn st.edges.length σ τ ∧ st'.edges.length = st.edges.length ∧
      ∀ p e, st.edges[p]? = some e → ∃ e', st'.edges[σ p]? = some e' ∧
        closeBy (((st'.i : Int) - (st.i : Int)) * c.eps) (c.D e.1 e.2) (c.D e'.1 e'.2) := by
  induction draws generalizing st with
  | nil =>
    simp only [geoRun, Option.some.injEq] at h; subst h
    refine ⟨id, id, bijOn_id _, rfl, fun p e he => ⟨e, he, ?_⟩⟩
    simp only [Int.sub_self, Int.zero_mul, closeBy]; omega
  | cons d ds ih =>
    simp only [geoRun, geoWhile_iff] at h
    split at h
    · cases hs : geoStep c st d with
      | none => simp [hs] at h
      | some st1 =>
        simp only [hs, Option.bind_some] at h
        obtain ⟨σ0, b0, l0, m0⟩ := geoStep_match c st st1 d hs
        obtain ⟨σ1, τ1, b1, l1, m1⟩ := ih st1 h
        rw [l0] at b1
        refine ⟨σ1 ∘ σ0, σ0 ∘ τ1, bijOn_comp _ σ0 σ0 σ1 τ1 b0 b1, by rw [l1, l0], ?_⟩
        intro p e he
        obtain ⟨e1, he1, c1⟩ := m0 p e he
        obtain ⟨e2, he2, c2⟩ := m1 (σ0 p) e1 he1
        refine ⟨e2, he2, ?_⟩
        have := closeBy_trans _ _ _ _ _ c1 c2
        have hsum : ((st1.i : Int) - (st.i : Int)) * c.eps + ((st'.i : Int) - (st1.i : Int)) * c.eps
            = ((st'.i : Int) - (st.i : Int)) * c.eps := by
          rw [← Int.add_mul]; congr 1; omega
        rw [hsum] at this; exact this
    · simp only [Option.some.injEq] at h; subst h
      refine ⟨id, id, bijOn_id _, rfl, fun p e he => ⟨e, he, ?_⟩⟩
      simp only [Int.sub_self, Int.zero_mul, closeBy]; omega

/-- model III, one pass: the degree pair (w.r.t. the `degree` array) at every position of the
edge array is unchanged -/
theorem geoStep_pairs (c : GeoCfg) (hm : c.mode = .III) (st st1 : GeoSt) (d : Nat × Nat)
    (h : geoStep c st d = some st1) (p : Nat) (e : Nat × Nat) (he : st.edges[p]? = some e) :
    ∃ e', st1.edges[p]? = some e' ∧
      (c.degree e'.1, c.degree e'.2) = (c.degree e.1, c.degree e.2) := by
  rcases geoStep_cases c st st1 d h with rfl | ⟨s, t, k, l, hp, hq, e1, e2, acc, rfl⟩
  · exact ⟨e, he, rfl⟩
  · have g1 : st.edges[d.1]? = some (s, t) := by rw [List.getElem?_eq_getElem hp, e1]
    have g2 : st.edges[d.2]? = some (k, l) := by rw [List.getElem?_eq_getElem hq, e2]
    simp only [geoAccept, Bool.and_eq_true, condDeg, hm, beq_iff_eq] at acc
    obtain ⟨⟨-, h1, h2⟩, -⟩ := acc
    simp only [List.getElem?_set, List.length_set]
    by_cases c2 : d.2 = p
    · subst c2; rw [g2] at he; cases he
      exact ⟨(k, t), by simp [hq], by simp [h2]⟩
    · by_cases c1 : d.1 = p
      · subst c1; rw [g1] at he; cases he
        exact ⟨(s, l), by simp [c2, hp], by simp [h2]⟩
      · exact ⟨e, by simp [c1, c2, he], rfl⟩

theorem geoRun_pairs (c : GeoCfg) (hm : c.mode = .III) (iterations : Nat)
    (draws : List (Nat × Nat)) (st st' : GeoSt) (h : geoRun c iterations draws st = some st')
    (p : Nat) (e : Nat × Nat) (he : st.edges[p]? = some e) :
    ∃ e', st'.edges[p]? = some e' ∧
      (c.degree e'.1, c.degree e'.2) = (c.degree e.1, c.degree e.2) := by
  induction draws generalizing st e with
  | nil => simp only [geoRun, Option.some.injEq] at h; subst h; exact ⟨e, he, rfl⟩
  | cons d ds ih =>
    simp only [geoRun, geoWhile_iff] at h
    split at h
    · cases hs : geoStep c st d with
      | none => simp [hs] at h
      | some st1 =>
        simp only [hs, Option.bind_some] at h
        obtain ⟨e1, g1, q1⟩ := geoStep_pairs c hm st st1 d hs p e he
        obtain ⟨e2, g2, q2⟩ := ih st1 h e1 g1
        exact ⟨e2, g2, q2.trans q1⟩
    · simp only [Option.some.injEq] at h; subst h; exact ⟨e, he, rfl⟩

end Pyunicorn.Random
