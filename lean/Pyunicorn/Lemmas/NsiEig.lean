import Pyunicorn.Lemmas.NsiRw
import Pyunicorn.Model.NsiEig
import Mathlib.Data.Rat.Cast.Order
import Mathlib.Algebra.Order.Field.Basic
/-!
Round 5: node-splitting invariance of `nsi_eigenvector_centrality`.

Eigenvectors of the n.s.i. adjacency matrix `A⁺ D_w` are in general irrational, so everything
here is stated over an arbitrary linearly ordered field `K` (ℚ, ℝ, the real algebraic numbers …)
into which the rational weights of the model graph are cast.

* `eig_pullback`   — `x` eigenvector of `G` for `λ`  ⇒  `x ∘ c` eigenvector of the split graph for `λ`
* `eig_le_of_pos`  — the eigenvalue of a positive eigenvector dominates every eigenvalue (Perron)
* `eig_unique`     — on a connected graph every eigenvector for the eigenvalue of a positive
                     eigenvector is a multiple of it (maximum principle along walks)
* `split_connected` — the split copy of a connected loop-free graph is connected
* `ecOutput_of_multiple` — the code's normalisation (sign of entry 0, division by the maximum) of
                     any non-zero multiple of a positive vector `x` is `x / max x`
-/
namespace Pyunicorn.Nsi
open Finset

section
variable {K : Type} [Field K] [LinearOrder K] [IsStrictOrderedRing K]

/-- entry `[i, j]` of `sp_Aplus() * sp_diag_w()`, cast into `K` -/
def mK (G : Gr) (i j : Nat) : K := ((aplus G i j : Rat) : K) * ((G.w j : Rat) : K)

/-- `(A⁺ D_w) x` over `K` -/
def adjK (G : Gr) (x : Nat → K) (i : Nat) : K := ∑ j ∈ range G.n, mK G i j * x j

/-- `x` is an eigenvector of the n.s.i. adjacency matrix for the eigenvalue `lam` (the zero
vector included; non-triviality is stated separately) -/
def IsEig (G : Gr) (lam : K) (x : Nat → K) : Prop := ∀ i, i < G.n → adjK G x i = lam * x i

def PosVec (n : Nat) (x : Nat → K) : Prop := ∀ i, i < n → 0 < x i

def NonZero (n : Nat) (x : Nat → K) : Prop := ∃ i, i < n ∧ x i ≠ 0

/-- `lam` is the largest eigenvalue: what `eigsh(…, k=1, sigma=2W)` selects (the spectrum lies
below the shift `2W`) -/
def IsTop (G : Gr) (lam : K) : Prop := ∀ (mu : K) (z : Nat → K), IsEig G mu z → NonZero G.n z → mu ≤ lam

/-- every ordered pair of nodes is joined by a walk -/
def Connected (G : Gr) : Prop := ∀ i j, i < G.n → j < G.n → ∃ k, Walk G i j k

/-- `np.sign` over `K` -/
def sgnK (a : K) : K := if 0 < a then 1 else if a < 0 then -1 else 0

/-- `e` is what `ec *= np.sign(ec[0]); return ec / ec.max()` returns for `ec = y`: with
`s = sign (y 0)` and `m` the maximum of `s·y` over the nodes, `e i = s · y i / m` -/
def IsEcOutput (n : Nat) (y e : Nat → K) : Prop :=
  ∃ m : K, (∀ i, i < n → sgnK (y 0) * y i ≤ m) ∧ (∃ i, i < n ∧ sgnK (y 0) * y i = m) ∧
    ∀ i, i < n → e i = sgnK (y 0) * y i / m

/-! ### the matrix -/

theorem mK_nonneg (G : Gr) (hw : ∀ j, j < G.n → 0 < G.w j) (i j : Nat) (hj : j < G.n) :
    (0 : K) ≤ mK G i j := by
  unfold mK
  have h1 : (0 : K) ≤ ((aplus G i j : Rat) : K) := by
    unfold aplus; split <;> simp
  have h2 : (0 : K) < ((G.w j : Rat) : K) := Rat.cast_pos.mpr (hw j hj)
  exact mul_nonneg h1 h2.le

theorem mK_pos (G : Gr) (hw : ∀ j, j < G.n → 0 < G.w j) (i j : Nat) (hj : j < G.n)
    (hij : G.adj i j = true) : (0 : K) < mK G i j := by
  unfold mK
  have h1 : ((aplus G i j : Rat) : K) = 1 := by
    unfold aplus; simp [hij]
  have h2 : (0 : K) < ((G.w j : Rat) : K) := Rat.cast_pos.mpr (hw j hj)
  rw [h1, one_mul]; exact h2

theorem adjK_neg (G : Gr) (x : Nat → K) (i : Nat) : adjK G (fun k => - x k) i = - adjK G x i := by
  unfold adjK
  rw [← Finset.sum_neg_distrib]
  exact Finset.sum_congr rfl fun j _ => by ring

theorem adjK_smul_sub (G : Gr) (t : K) (x y : Nat → K) (i : Nat) :
    adjK G (fun k => t * x k - y k) i = t * adjK G x i - adjK G y i := by
  unfold adjK
  rw [Finset.mul_sum, ← Finset.sum_sub_distrib]
  exact Finset.sum_congr rfl fun j _ => by ring

/-! ### pull-back along the collapse map -/

/-- push-forward lemma over `K` -/
theorem pushforwardK (G : Gr) (v : Nat) (p : Rat) (hv : v < G.n) (F : Nat → K) :
    ∑ k ∈ range (G.n + 1), (((split G v p).w k : Rat) : K) * F (collapse G.n v k)
      = ∑ k ∈ range G.n, ((G.w k : Rat) : K) * F k := by
  rw [Finset.sum_range_succ, collapse_self]
  have h1 : ∑ k ∈ range G.n, (((split G v p).w k : Rat) : K) * F (collapse G.n v k)
      = ∑ k ∈ range G.n, (((G.w k : Rat) : K) * F k
          - (if k = v then ((p * G.w v : Rat) : K) * F v else 0)) := by
    apply Finset.sum_congr rfl
    intro k hk
    have hk' := Finset.mem_range.mp hk
    have hne : ¬ k = G.n := by omega
    rw [collapse_lt _ _ _ hk']
    by_cases hkv : k = v
    · subst hkv
      simp only [split, hne, if_false, if_true]
      push_cast; ring
    · simp [split, hne, hkv]
  have hn : (split G v p).w G.n = p * G.w v := by simp [split]
  rw [h1, Finset.sum_sub_distrib, Finset.sum_ite_eq' (range G.n) v, hn]
  simp only [Finset.mem_range, hv, if_true]
  ring

theorem adjK_split (G : Gr) (v : Nat) (p : Rat) (hv : v < G.n) (x : Nat → K) (a : Nat) :
    adjK (split G v p) (fun k => x (collapse G.n v k)) a = adjK G x (collapse G.n v a) := by
  unfold adjK mK
  have hn : (split G v p).n = G.n + 1 := rfl
  rw [hn]
  have h := pushforwardK G v p hv
    (fun k => ((aplus G (collapse G.n v a) k : Rat) : K) * x k)
  have e1 : ∀ k, ((aplus (split G v p) a k : Rat) : K) * (((split G v p).w k : Rat) : K)
        * x (collapse G.n v k)
      = (((split G v p).w k : Rat) : K) *
        (((aplus G (collapse G.n v a) (collapse G.n v k) : Rat) : K) * x (collapse G.n v k)) := by
    intro k; rw [aplus_split G v p hv]; ring
  rw [Finset.sum_congr rfl fun k _ => e1 k, h]
  exact Finset.sum_congr rfl fun k _ => by ring

/-- eigenvectors pull back along the collapse map, with the same eigenvalue -/
theorem eig_pullback (G : Gr) (v : Nat) (p : Rat) (hv : v < G.n) (lam : K) (x : Nat → K)
    (hx : IsEig G lam x) : IsEig (split G v p) lam (fun k => x (collapse G.n v k)) := by
  intro a ha
  rw [adjK_split G v p hv x a]
  exact hx _ (collapse_lt_n _ _ _ hv ha)

/-! ### Perron: domination and uniqueness -/

theorem eig_le_of_pos_aux (G : Gr) (hw : ∀ j, j < G.n → 0 < G.w j) (lam mu : K) (x z : Nat → K)
    (hx : PosVec G.n x) (hxe : IsEig G lam x) (hze : IsEig G mu z)
    (hz : ∃ i, i < G.n ∧ 0 < z i) : mu ≤ lam := by
  obtain ⟨i0, hi0, hz0⟩ := hz
  obtain ⟨s, hs, hmax⟩ := Finset.exists_max_image (range G.n) (fun i => z i / x i)
    ⟨i0, Finset.mem_range.mpr hi0⟩
  have hs' := Finset.mem_range.mp hs
  have hxs := hx s hs'
  have ht0 : 0 < z s / x s :=
    lt_of_lt_of_le (div_pos hz0 (hx i0 hi0)) (hmax i0 (Finset.mem_range.mpr hi0))
  have hzs : 0 < z s := by
    have := mul_pos ht0 hxs
    rwa [div_mul_cancel₀ _ (ne_of_gt hxs)] at this
  have hle : ∀ j, j < G.n → z j ≤ z s / x s * x j := by
    intro j hj
    have := hmax j (Finset.mem_range.mpr hj)
    exact (div_le_iff₀ (hx j hj)).mp this
  have h1 : adjK G z s ≤ z s / x s * adjK G x s := by
    unfold adjK
    rw [Finset.mul_sum]
    apply Finset.sum_le_sum
    intro j hj
    have hj' := Finset.mem_range.mp hj
    have := mul_le_mul_of_nonneg_left (hle j hj') (mK_nonneg (K := K) G hw s j hj')
    calc mK G s j * z j ≤ mK G s j * (z s / x s * x j) := this
      _ = z s / x s * (mK G s j * x j) := by ring
  rw [hze s hs', hxe s hs'] at h1
  have h2 : z s / x s * (lam * x s) = lam * z s := by
    field_simp
  rw [h2] at h1
  exact le_of_mul_le_mul_right h1 hzs

/-- **Perron, domination**: the eigenvalue of a positive eigenvector is the largest eigenvalue -/
theorem eig_le_of_pos (G : Gr) (hw : ∀ j, j < G.n → 0 < G.w j) (lam : K) (x : Nat → K)
    (hx : PosVec G.n x) (hxe : IsEig G lam x) : IsTop G lam := by
  intro mu z hze ⟨i, hi, hzi⟩
  rcases lt_or_gt_of_ne hzi with h | h
  · have hne : IsEig G mu (fun k => - z k) := by
      intro a ha
      rw [adjK_neg, hze a ha]; ring
    exact eig_le_of_pos_aux G hw lam mu x _ hx hxe hne ⟨i, hi, by simpa using h⟩
  · exact eig_le_of_pos_aux G hw lam mu x z hx hxe hze ⟨i, hi, h⟩

/-- a non-negative eigenvector that vanishes at `a` vanishes at every neighbour of `a` -/
theorem eig_zero_step (G : Gr) (hw : ∀ j, j < G.n → 0 < G.w j) (lam : K) (z : Nat → K)
    (hz : ∀ i, i < G.n → 0 ≤ z i) (hze : IsEig G lam z) (a b : Nat) (ha : a < G.n) (hb : b < G.n)
    (hab : G.adj a b = true) (hza : z a = 0) : z b = 0 := by
  have h0 : adjK G z a = 0 := by rw [hze a ha, hza, mul_zero]
  unfold adjK at h0
  have hnn : ∀ j ∈ range G.n, 0 ≤ mK (K := K) G a j * z j := fun j hj =>
    mul_nonneg (mK_nonneg G hw a j (Finset.mem_range.mp hj)) (hz j (Finset.mem_range.mp hj))
  have := (Finset.sum_eq_zero_iff_of_nonneg hnn).mp h0 b (Finset.mem_range.mpr hb)
  rcases mul_eq_zero.mp this with h | h
  · exact absurd h (ne_of_gt (mK_pos G hw a b hb hab))
  · exact h

theorem eig_zero_walk (G : Gr) (hw : ∀ j, j < G.n → 0 < G.w j) (lam : K) (z : Nat → K)
    (hz : ∀ i, i < G.n → 0 ≤ z i) (hze : IsEig G lam z) {a b k : Nat} (wk : Walk G a b k)
    (hza : z a = 0) : z b = 0 := by
  induction wk with
  | nil a ha => exact hza
  | cons a b c k ha hab w ih =>
    exact ih (eig_zero_step G hw lam z hz hze a b ha w.start_lt hab hza)

/-- **Perron, uniqueness**: on a connected graph with positive weights every eigenvector for the
eigenvalue of a positive eigenvector is a multiple of it -/
theorem eig_unique (G : Gr) (hw : ∀ j, j < G.n → 0 < G.w j) (hconn : Connected G) (lam : K)
    (x y : Nat → K) (hx : PosVec G.n x) (hxe : IsEig G lam x) (hye : IsEig G lam y) :
    ∃ t : K, ∀ i, i < G.n → y i = t * x i := by
  by_cases hn : G.n = 0
  · exact ⟨0, fun i hi => by omega⟩
  obtain ⟨s, hs, hmax⟩ := Finset.exists_max_image (range G.n) (fun i => y i / x i)
    ⟨0, Finset.mem_range.mpr (by omega)⟩
  have hs' := Finset.mem_range.mp hs
  have hxs := hx s hs'
  refine ⟨y s / x s, ?_⟩
  have hz : ∀ i, i < G.n → 0 ≤ y s / x s * x i - y i := by
    intro i hi
    have := (div_le_iff₀ (hx i hi)).mp (hmax i (Finset.mem_range.mpr hi))
    linarith
  have hze : IsEig G lam (fun k => y s / x s * x k - y k) := by
    intro a ha
    rw [adjK_smul_sub, hxe a ha, hye a ha]; ring
  have hzs : (fun k => y s / x s * x k - y k) s = 0 := by
    simp only [div_mul_cancel₀ _ (ne_of_gt hxs), sub_self]
  intro i hi
  obtain ⟨k, wk⟩ := hconn s i hs' hi
  have := eig_zero_walk G hw lam _ hz hze wk hzs
  linarith

/-! ### connectivity of the split copy -/

theorem split_connected (G : Gr) (v : Nat) (p : Rat) (hv : v < G.n)
    (hloop : ∀ i, G.adj i i = false) (hconn : Connected G) : Connected (split G v p) := by
  intro a b ha hb
  have ha' : a < G.n + 1 := ha
  have hb' : b < G.n + 1 := hb
  by_cases hab : a = b
  · subst hab; exact ⟨0, Walk.nil _ ha⟩
  obtain ⟨k, wk⟩ := hconn _ _ (collapse_lt_n _ _ _ hv ha') (collapse_lt_n _ _ _ hv hb')
  by_cases hc : collapse G.n v a = collapse G.n v b
  · -- the twins: directly linked
    have htw := (collapse_eq_iff G.n v a b hv hab).mp hc
    refine ⟨1, Walk.cons a b b 0 ha ?_ (Walk.nil _ hb)⟩
    have hnn : ¬ (a = G.n ∧ b = G.n) := fun h => hab (h.1.trans h.2.symm)
    simp only [split]
    rw [if_neg hnn, if_pos htw]
  · refine ⟨k, walk_lift G v p hv hloop wk a b ha' hb' rfl rfl ?_⟩
    intro hk
    subst hk
    exact absurd wk.zero_eq hc

theorem split_weights_pos (G : Gr) (v : Nat) (p : Rat) (hv : v < G.n) (hp0 : 0 < p) (hp1 : p < 1)
    (hw : ∀ j, j < G.n → 0 < G.w j) : ∀ j, j < (split G v p).n → 0 < (split G v p).w j := by
  intro j hj
  have hj' : j < G.n + 1 := hj
  simp only [split]
  split
  · exact mul_pos hp0 (hw v hv)
  · split
    · exact mul_pos (by linarith) (hw v hv)
    · exact hw j (by omega)

/-! ### the normalisation -/

/-- the code's normalisation of a non-zero multiple `y = t·x` of a positive vector is
`x / max x` -/
theorem ecOutput_of_multiple (n : Nat) (hn : 0 < n) (x y e : Nat → K) (t : K) (ht : t ≠ 0)
    (hx : PosVec n x) (hy : ∀ i, i < n → y i = t * x i) (he : IsEcOutput n y e) :
    ∃ mx : K, (∀ i, i < n → x i ≤ mx) ∧ (∃ i, i < n ∧ x i = mx) ∧ ∀ i, i < n → e i = x i / mx := by
  obtain ⟨m, hle, ⟨i1, hi1, hm⟩, hev⟩ := he
  have hx0 := hx 0 hn
  -- `sign (y 0) · t = |t| > 0`
  have hst : 0 < sgnK (y 0) * t := by
    rw [hy 0 hn]
    unfold sgnK
    rcases lt_or_gt_of_ne ht with h | h
    · have h1 : t * x 0 < 0 := mul_neg_of_neg_of_pos h hx0
      have h2 : ¬ 0 < t * x 0 := not_lt.mpr h1.le
      simp only [h2, h1, if_false, if_true]
      linarith [neg_pos.mpr h]
    · have h1 : 0 < t * x 0 := mul_pos h hx0
      simp only [h1, if_true]
      linarith
  have hsy : ∀ i, i < n → sgnK (y 0) * y i = sgnK (y 0) * t * x i := by
    intro i hi; rw [hy i hi]; ring
  refine ⟨m / (sgnK (y 0) * t), ?_, ⟨i1, hi1, ?_⟩, ?_⟩
  · intro i hi
    rw [le_div_iff₀ hst]
    have := hle i hi
    rw [hsy i hi] at this
    linarith
  · rw [eq_div_iff (ne_of_gt hst)]
    rw [hsy i1 hi1] at hm
    linarith
  · intro i hi
    rw [hev i hi, hsy i hi]
    have hm0 : m ≠ 0 := by
      rw [← hm, hsy i1 hi1]
      exact ne_of_gt (mul_pos hst (hx i1 hi1))
    field_simp

/-! ### the symmetrised matrix the code hands to `eigsh` -/

/-- `u` is an eigenvector of `sp_Astar = DwR * sp_Aplus * DwR` for `lam` iff
`ec = u / sqrt w` is an eigenvector of `sp_Aplus * sp_diag_w` for `lam`, for every family `r` of
positive square roots of the node weights in `K` -/
theorem astar_eig_iff (G : Gr) (lam : K) (r u : Nat → K) (hr : ∀ i, i < G.n → 0 < r i)
    (hrr : ∀ i, i < G.n → r i * r i = ((G.w i : Rat) : K)) :
    (∀ i, i < G.n → ∑ j ∈ range G.n, r i * ((aplus G i j : Rat) : K) * r j * u j = lam * u i)
      ↔ IsEig G lam (fun i => u i / r i) := by
  have key : ∀ i, i < G.n →
      ∑ j ∈ range G.n, r i * ((aplus G i j : Rat) : K) * r j * u j
        = r i * adjK G (fun i => u i / r i) i := by
    intro i _
    unfold adjK mK
    rw [Finset.mul_sum]
    apply Finset.sum_congr rfl
    intro j hj
    have hj' := Finset.mem_range.mp hj
    have hrj := ne_of_gt (hr j hj')
    rw [← hrr j hj']
    field_simp
  constructor
  · intro h i hi
    have h1 := h i hi
    rw [key i hi] at h1
    have hri := ne_of_gt (hr i hi)
    have : adjK G (fun i => u i / r i) i = lam * u i / r i := by
      rw [eq_div_iff hri, mul_comm]; exact h1
    rw [this]; ring
  · intro h i hi
    rw [key i hi, h i hi]
    have hri := ne_of_gt (hr i hi)
    field_simp

end

/-! ### the executable (rational) model is the `K = ℚ` instance -/

theorem adjK_rat (G : Gr) (x : Nat → Rat) (i : Nat) : adjK (K := Rat) G x i = nsiAdjApply G x i := by
  unfold adjK mK nsiAdjApply
  rw [sumR_eq_finset]
  simp

theorem sgnK_rat (a : Rat) : sgnK (K := Rat) a = sgnQ a := rfl

theorem ecNorm_isEcOutput (n : Nat) (hn : 0 < n) (y : Nat → Rat) :
    IsEcOutput (K := Rat) n y (ecNorm n y) := by
  have hne : ((List.range n).map fun k => sgnQ (y 0) * y k) ≠ [] := by
    intro h
    have := congrArg List.length h
    simp at this; omega
  obtain ⟨h1, h2⟩ := maxList_le_iff _ hne
  refine ⟨maxList ((List.range n).map fun k => sgnQ (y 0) * y k), ?_, ?_, ?_⟩
  · intro i hi
    rw [sgnK_rat]
    exact h1 _ (List.mem_map.mpr ⟨i, List.mem_range.mpr hi, rfl⟩)
  · obtain ⟨i, hi, he⟩ := List.mem_map.mp h2
    exact ⟨i, List.mem_range.mp hi, by rw [sgnK_rat]; exact he⟩
  · intro i _
    rw [sgnK_rat]; rfl

end Pyunicorn.Nsi
